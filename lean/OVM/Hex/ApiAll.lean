import OVM.Hex.FrameLayout
/-
  C16, assembly for cells created by `add_cell(8 vertices)` and histories through the public API:
  * `hexAddCellV_frame`: under the conditions of `hexAddCellV_conv` + `HexOpOK`, the new cell IS a `Frame` in the new
    state (six loop quads through the quadruples of the source tables, any stored rotations), listed by the cache;
    hence eight distinct vertices (`hexAddCellV_shape`), the layout of `orthogonal_orientation`
    (`hexAddCellV_orthLayout`), the `hex_vertices` pattern (`hexAddCellV_pattern`), and every permutation of its
    halfface list is re-accepted in convention (`Frame.all_permutations`).
  * `hex_run_api`: along every history of valid calls (`HexOpOK`, `ApiOpOK`; for the unchecked `add_cell(halffaces,
    false)` additionally "eight distinct vertices") the global invariant, four halfedges per face / six halffaces per
    cell, the stored convention of every live cell and eight distinct vertices per live cell hold — all deletion modes.
  Proof-only file.
-/
namespace OVM
namespace Kernel
namespace HexAll
open Global ScanDel OVM.Gen.HexTables

/-- the cell created by an accepting `add_cell(8 vertices)` is a frame in the new state -/
theorem hexAddCellV_frame (k : Kernel) (vs : List Nat) (chk : Bool) (hi : GInv k) (hok : HexOpOK k (.addCellV chk vs))
    (hd : vs.Nodup) (hu : UniqEdges k vs)
    (hloop : ∀ I ∈ cellVFind, ∀ x, k.findHalffaceExtensive (hexPick vs I) = some x → HfLoop k x)
    (c : Nat) (h : (k.hexAddCellV vs chk).2 = some c) :
    ∃ xs rot, Frame (k.hexAddCellV vs chk).1 vs xs rot ∧ (k.hexAddCellV vs chk).1.cellAt c = xs ∧
      (∀ i, i < 6 → (k.hexAddCellV vs chk).1.cellOf (xs.getD i 0) = some c) ∧ (k.hexAddCellV vs chk).1.liveC c = true := by
  have hg2 := ginv_hexAddCellV chk hok hi
  obtain ⟨_, hl, _, _⟩ := hexAddCellV_some k vs chk c h
  obtain ⟨v0, v1, v2, v3, v4, v5, v6, v7, rfl⟩ := length8_cases vs hl
  obtain ⟨k1, x0, x1, x2, x3, x4, x5, heq, hg1, hfb, hu1, c0, c1, c2, c3, c4, c5⟩ :=
    hexAddCellV_struct k v0 v1 v2 v3 v4 v5 v6 v7 chk hi hok.1 hu hloop c h
  obtain ⟨rot, F1⟩ := frame_of_cycles k1 v0 v1 v2 v3 v4 v5 v6 v7 x0 x1 x2 x3 x4 x5 hd hu1 c0 c1 c2 c3 c4 c5
  rw [heq] at h hg2 ⊢
  have hacc : k1.addCellAccepts [x0, x1, x2, x3, x4, x5] false = true := by unfold addCellAccepts; simp
  unfold addCell at h hg2 ⊢
  rw [if_pos hacc] at h hg2 ⊢
  have hc : c = k1.nC := by simpa using h.symm
  subst hc
  have F2 : Frame (k1.addCellCore [x0, x1, x2, x3, x4, x5]) [v0, v1, v2, v3, v4, v5, v6, v7] [x0, x1, x2, x3, x4, x5] rot :=
    F1.congr (addCellCore_edges _ _) (addCellCore_faces _ _) (addCellCore_eDel _ _)
  have hcell : (k1.addCellCore [x0, x1, x2, x3, x4, x5]).cellAt k1.nC = [x0, x1, x2, x3, x4, x5] := by
    unfold Kernel.cellAt; rw [addCellCore_cells]; exact getD_snoc_eq _ _ _
  have hlive : (k1.addCellCore [x0, x1, x2, x3, x4, x5]).liveC k1.nC = true := by
    unfold Kernel.liveC Kernel.cDeleted nC
    rw [addCellCore_cells, addCellCore_cDel, getD_snoc_false, getD_of_ge _ _ _ (by rw [hg1.wf.len.cDel]; exact Nat.le_refl _)]
    simp
  have hfb2 : (k1.addCellCore [x0, x1, x2, x3, x4, x5]).fBU = true := by rw [addCellCore_fBU]; exact hfb
  refine ⟨_, rot, F2, hcell, ?_, hlive⟩
  intro i hi6
  have hm : [x0, x1, x2, x3, x4, x5].getD i 0 ∈ (k1.addCellCore [x0, x1, x2, x3, x4, x5]).cellAt k1.nC := by
    rw [hcell]; exact getD_mem_lt _ i (by simpa using hi6)
  have hmc := cellAt_mem_cells (liveC_lt hlive)
  rw [hcell] at hmc
  have hlt : [x0, x1, x2, x3, x4, x5].getD i 0 < (k1.addCellCore [x0, x1, x2, x3, x4, x5]).nHF :=
    hg2.wf.range.cells _ hmc _ (getD_mem_lt _ i (by simpa using hi6))
  rw [(hg2.wf.cache.f hfb2).2 _ hlt]
  exact sCellOf_of_mem hg2.one hlt hlive hm

/-- the new cell has six halffaces and eight distinct vertices -/
theorem hexAddCellV_shape (k : Kernel) (vs : List Nat) (chk : Bool) (hi : GInv k) (hok : HexOpOK k (.addCellV chk vs))
    (hd : vs.Nodup) (hu : UniqEdges k vs)
    (hloop : ∀ I ∈ cellVFind, ∀ x, k.findHalffaceExtensive (hexPick vs I) = some x → HfLoop k x)
    (c : Nat) (h : (k.hexAddCellV vs chk).2 = some c) : (k.hexAddCellV vs chk).1.hexCellShapeB c = true := by
  obtain ⟨xs, rot, F, hcell, _, _⟩ := hexAddCellV_frame k vs chk hi hok hd hu hloop c h
  unfold hexCellShapeB cellVerts
  rw [hcell, F.xlen, cellVerts_eq_span F.closed, F.span]; rfl

/-- the new cell has the layout `orthogonal_orientation` describes -/
theorem hexAddCellV_orthLayout (k : Kernel) (vs : List Nat) (chk : Bool) (hi : GInv k) (hok : HexOpOK k (.addCellV chk vs))
    (hd : vs.Nodup) (hu : UniqEdges k vs)
    (hloop : ∀ I ∈ cellVFind, ∀ x, k.findHalffaceExtensive (hexPick vs I) = some x → HfLoop k x)
    (c : Nat) (h : (k.hexAddCellV vs chk).2 = some c) : (k.hexAddCellV vs chk).1.hexOrthLayoutB c = true := by
  obtain ⟨xs, rot, F, hcell, _, _⟩ := hexAddCellV_frame k vs chk hi hok hd hu hloop c h
  exact F.orthLayout hcell

/-! ### histories: lengths, convention and eight distinct vertices together -/

/-- the extra obligation of the UNCHECKED `add_cell(halffaces, false)` for "eight distinct vertices" (the guard of
    7b999c9 counts sources and targets; without the closed-surface test the sources alone may be fewer) -/
def ShapeExtra (k : Kernel) : HexOp → Prop
  | .base (.addCell false hfs) => ∀ c, (k.hexAddCell hfs false).2 = some c → (k.hexAddCell hfs false).1.hexCellShapeB c = true
  | _ => True

theorem shapeOpOK_of_api (k : Kernel) (op : HexOp) (hi : GInv k) (hok : HexOpOK k op) (h : ApiOpOK k op) (hx : ShapeExtra k op) :
    ShapeOpOK k op := by
  cases op with
  | addCellV chk vs =>
    intro c hc
    exact hexAddCellV_shape k vs chk hi hok h.1 h.2.1 h.2.2 c hc
  | base op =>
    cases op with
    | addCell chk hfs =>
      cases chk with
      | true => intro c hc; exact hexAddCell_checked_shape k hfs c hc
      | false => exact hx
    | setEdge e a b => exact h
    | setFace f hes => exact h
    | setCell c hfs => exact h
    | _ => trivial

def FullHistoryOK : Kernel → List HexOp → Prop
  | _, [] => True
  | k, op :: t => (HexOpOK k op ∧ ApiOpOK k op ∧ ShapeExtra k op) ∧ FullHistoryOK (hexStep k op) t

/-- **`HexShape` and `HexConv` along every history of valid calls, all deletion modes** -/
theorem hex_run_api (ops : List HexOp) (k : Kernel) (hi : GInv k) (hl : HexLen k) (hq : ConvAll k) (hs : ShapeAll8 k)
    (hr : FullHistoryOK k ops) :
    GInv (hexRun k ops) ∧ HexLen (hexRun k ops) ∧ ConvAll (hexRun k ops) ∧ ShapeAll8 (hexRun k ops) := by
  induction ops generalizing k with
  | nil => exact ⟨hi, hl, hq, hs⟩
  | cons op t ih =>
    simp only [hexRun, List.foldl_cons]
    obtain ⟨⟨h1, h2, h3⟩, hrest⟩ := hr
    exact ih _ (ginv_hexStep k op hi h1) (hexLen_hexStep k op hi h1 hl)
      (convAll_hexStep k op hi h1 (convOpOK_of_api k op hi h1 h2) hq)
      (allCells_hexStep shapePred k op hi h1 (shapeOpOK_of_api k op hi h1 h2 h3) hs) hrest

theorem hex_reachable_api (ops : List HexOp) (hr : FullHistoryOK {} ops) :
    GInv (hexRun {} ops) ∧ HexLen (hexRun {} ops) ∧ ConvAll (hexRun {} ops) ∧ ShapeAll8 (hexRun {} ops) :=
  hex_run_api ops {} ginv_empty (by constructor <;> simp) (fun c hl => by unfold liveC nC at hl; simp at hl)
    (fun c hl => by unfold liveC nC at hl; simp at hl) hr

def isUnchecked : HexOp → Bool
  | .base (.addCell false _) => true
  | _ => false

theorem shapeExtra_of_checked (k : Kernel) (op : HexOp) (h : isUnchecked op = false) : ShapeExtra k op := by
  cases op with
  | addCellV chk vs => trivial
  | base op =>
    cases op with
    | addCell chk hfs =>
      cases chk with
      | true => trivial
      | false => simp [isUnchecked] at h
    | _ => trivial

/-- a history without unchecked `add_cell(halffaces, false)` calls: `ApiHistoryOK` is all that is needed -/
theorem full_of_api (ops : List HexOp) (k : Kernel) (h : ApiHistoryOK k ops) (hx : ops.all (fun op => !isUnchecked op) = true) :
    FullHistoryOK k ops := by
  induction ops generalizing k with
  | nil => trivial
  | cons op t ih =>
    simp only [List.all_cons, Bool.and_eq_true, Bool.not_eq_true'] at hx
    exact ⟨⟨h.1.1, h.1.2, shapeExtra_of_checked k op hx.1⟩, ih _ h.2 (by simpa using hx.2)⟩

end HexAll
end Kernel
end OVM

import OVM.Hex.ConvAll
import OVM.Hex.CubePerms
/-
  C16, item 4: the topology-checked hex `add_cell(halffaces)` is EQUIVARIANT under a consistent renaming
  of a cell (`CubeMap`: halffaces by `ρ`, halfedges by `σ` commuting with `opp`, vertices by `τ`, all
  three injective): `check_halfface_ordering`, the automatic re-ordering and the closed-surface test of the
  base class compute on the renamed cell the renamed result.  Hence what the exhaustive run over the 720
  permutations of the standard cube shows (OVM/Hex/CubePerms.lean) holds for EVERY cell that is a renamed
  copy of that cube, in any state, at any handles (`OVM/Props/C16.lean`, `hex_all_permutations`).
  Proof-only file.
-/
namespace OVM
namespace Kernel
namespace HexAll
open OVM.Gen.HexTables

/-- `k`'s halffaces `L.map ρ` are a renamed copy of `k₀`'s halffaces `L` -/
structure CubeMap (k₀ k : Kernel) (L : List Nat) (ρ σ τ : Nat → Nat) : Prop where
  hes : ∀ x ∈ L, k.hfHes (ρ x) = (k₀.hfHes x).map σ
  vts : ∀ x ∈ L, ∀ a ∈ k₀.hfHes x, k.fromV (σ a) = τ (k₀.fromV a)
  vto : ∀ x ∈ L, ∀ a ∈ k₀.hfHes x, k.toV (σ a) = τ (k₀.toV a)
  sopp : ∀ a, σ (opp a) = opp (σ a)
  rinj : ∀ a b, ρ a = ρ b → a = b
  sinj : ∀ a b, σ a = σ b → a = b
  tinj : ∀ a b, τ a = τ b → a = b

variable {k₀ k : Kernel} {L : List Nat} {ρ σ τ : Nat → Nat}

theorem CubeMap.cellMap (m : CubeMap k₀ k L ρ σ τ) {q : List Nat} (hq : ∀ x ∈ q, x ∈ L) :
    CellMap k₀ k q ρ σ τ (fun _ => True) (fun _ => True) :=
  ⟨fun x hx => m.hes x (hq x hx), fun x hx => m.vts x (hq x hx), fun a _ => m.sopp a, fun a b _ _ => m.sinj a b,
   fun _ _ _ _ => ⟨trivial, trivial⟩, fun a b _ _ => m.tinj a b, fun _ _ _ _ => trivial⟩

theorem opt_map_beq (ρ : Nat → Nat) (hρ : ∀ a b, ρ a = ρ b → a = b) (a b : Option Nat) :
    (a.map ρ == b.map ρ) = (a == b) := by
  cases a <;> cases b <;> simp
  rename_i x y
  by_cases e : x = y
  · subst e; simp
  · have : ρ x ≠ ρ y := fun e' => e (hρ _ _ e')
    rw [beq_eq_false_iff_ne.mpr this, beq_eq_false_iff_ne.mpr e]

theorem find?_congr' {α} {l : List α} {p q : α → Bool} (h : ∀ x ∈ l, p x = q x) : l.find? p = l.find? q := by
  induction l with
  | nil => rfl
  | cons a t ih =>
    simp only [List.find?_cons]
    rw [h a (List.mem_cons_self ..), ih (fun x hx => h x (List.mem_cons_of_mem _ hx))]

theorem nodup_map_inj (σ : Nat → Nat) (hσ : ∀ a b, σ a = σ b → a = b) (l : List Nat) : (l.map σ).Nodup ↔ l.Nodup := by
  induction l with
  | nil => simp
  | cons a t ih =>
    simp only [List.map_cons, List.nodup_cons, ih, List.mem_map]
    constructor
    · rintro ⟨h1, h2⟩; exact ⟨fun hm => h1 ⟨a, hm, rfl⟩, h2⟩
    · rintro ⟨h1, h2⟩
      refine ⟨?_, h2⟩
      rintro ⟨b, hb, e⟩
      rw [hσ _ _ e] at hb; exact h1 hb

theorem contains_map_inj' (l : List Nat) (σ : Nat → Nat) (hσ : ∀ a b, σ a = σ b → a = b) (z : Nat) :
    (l.map σ).contains (σ z) = l.contains z := contains_map_inj l σ z (fun b _ e => hσ b z e)

/-- `get_adjacent_halfface` -/
theorem getAdj_map (m : CubeMap k₀ k L ρ σ τ) {q : List Nat} (hq : ∀ x ∈ q, x ∈ L) (hf he : Nat) :
    k.hexGetAdj (ρ hf) (σ he) (q.map ρ) = (k₀.hexGetAdj hf he q).map ρ := by
  unfold hexGetAdj
  rw [List.find?_map]
  congr 1
  apply find?_congr'
  intro x hx
  simp only [Function.comp]
  rw [m.hes x (hq x hx), ← m.sopp, contains_map_inj' _ σ m.sinj]
  have hb : (ρ x != ρ hf) = (x != hf) := by
    by_cases e : x = hf
    · subst e; simp
    · have : ρ x ≠ ρ hf := fun e' => e (m.rinj _ _ e')
      unfold bne
      rw [beq_eq_false_iff_ne.mpr this, beq_eq_false_iff_ne.mpr e]
  rw [hb]

theorem offsetOf_map (hρ : ∀ a b, ρ a = ρ b → a = b) (chain : List (Nat × Nat)) (q : List Nat) (a : Option Nat) :
    hexOffsetOf chain (q.map ρ) (a.map ρ) = hexOffsetOf chain q a := by
  cases a with
  | none => rfl
  | some x =>
    simp only [hexOffsetOf, Option.map_some]
    congr 1
    apply find?_congr'
    intro p _
    rw [List.getElem?_map]
    exact opt_map_beq ρ hρ q[p.1]? (some x)

theorem walkStep_map (m : CubeMap k₀ k L ρ σ τ) {q : List Nat} (hq : ∀ x ∈ q, x ∈ L) (self : Nat)
    (chain : List (Nat × Nat)) (order : List Nat) (st : Option (Option Nat)) (he : Nat) :
    k.hexWalkStep (q.map ρ) (ρ self) chain order st (σ he) = k₀.hexWalkStep q self chain order st he := by
  unfold hexWalkStep
  cases st with
  | none => rfl
  | some off =>
    simp only []
    rw [getAdj_map m hq]
    cases off with
    | none => simp only []; rw [offsetOf_map m.rinj]
    | some o =>
      simp only []
      rw [List.getElem?_map, opt_map_beq ρ m.rinj, Option.isSome_map]

theorem walkOk_map (m : CubeMap k₀ k L ρ σ τ) {q : List Nat} (hq : ∀ x ∈ q, x ∈ L) {self : Nat} (hs : self ∈ L)
    (chain : List (Nat × Nat)) (order : List Nat) :
    k.hexWalkOk (q.map ρ) (ρ self) chain order = k₀.hexWalkOk q self chain order := by
  unfold hexWalkOk
  rw [m.hes self hs, List.foldl_map]
  have : (fun acc x => k.hexWalkStep (q.map ρ) (ρ self) chain order acc (σ x)) =
      (fun acc x => k₀.hexWalkStep q self chain order acc x) := by
    funext acc x; exact walkStep_map m hq self chain order acc x
  rw [this]

theorem tables_pos : topPos = 0 ∧ botPos = 1 := by decide

theorem checkOrdering_map (m : CubeMap k₀ k L ρ σ τ) {q : List Nat} (hq : ∀ x ∈ q, x ∈ L) (hl : q.length = 6) :
    k.hexCheckOrdering (q.map ρ) = k₀.hexCheckOrdering q := by
  unfold hexCheckOrdering
  rw [tables_pos.1, tables_pos.2, getD_map_lt q ρ 0 (by omega), getD_map_lt q ρ 1 (by omega),
    walkOk_map m hq (hq _ (getD_mem_lt q 0 (by omega))), walkOk_map m hq (hq _ (getD_mem_lt q 1 (by omega)))]

/-! ### the automatic re-ordering -/

def mapSt (ρ : Nat → Nat) (p : List (Option Nat) × Nat) : List (Option Nat) × Nat := (p.1.map (Option.map ρ), p.2)

theorem fillStep_map (m : CubeMap k₀ k L ρ σ τ) {q : List Nat} (hq : ∀ x ∈ q, x ∈ L) (h0 : Nat)
    (st : Option (List (Option Nat) × Nat)) (he : Nat) :
    k.hexFillStep (ρ h0) (q.map ρ) (st.map (mapSt ρ)) (σ he) = (k₀.hexFillStep h0 q st he).map (mapSt ρ) := by
  cases st with
  | none => rfl
  | some p =>
    obtain ⟨ord, idx⟩ := p
    simp only [Option.map_some, mapSt, hexFillStep]
    rw [getAdj_map m hq]
    cases k₀.hexGetAdj h0 he q with
    | none => rfl
    | some a => simp [mapSt, List.map_set]

theorem foldl_fill_map (m : CubeMap k₀ k L ρ σ τ) {q : List Nat} (hq : ∀ x ∈ q, x ∈ L) (h0 : Nat) (hes : List Nat)
    (st : Option (List (Option Nat) × Nat)) :
    (hes.map σ).foldl (k.hexFillStep (ρ h0) (q.map ρ)) (st.map (mapSt ρ)) =
      (hes.foldl (k₀.hexFillStep h0 q) st).map (mapSt ρ) := by
  induction hes generalizing st with
  | nil => rfl
  | cons a t ih =>
    simp only [List.map_cons, List.foldl_cons]
    rw [fillStep_map m hq, ih]

theorem idxOf?_map (σ : Nat → Nat) (hσ : ∀ a b, σ a = σ b → a = b) (l : List Nat) (x : Nat) :
    idxOf? (l.map σ) (σ x) = idxOf? l x := by
  unfold idxOf?
  have : (l.map σ).findIdx (· == σ x) = l.findIdx (· == x) := by
    induction l with
    | nil => rfl
    | cons a t ih =>
      simp only [List.map_cons, List.findIdx_cons]
      rw [ih]
      have hb : (σ a == σ x) = (a == x) := by
        by_cases e : a = x
        · subst e; simp
        · have : σ a ≠ σ x := fun e' => e (hσ _ _ e')
          rw [beq_eq_false_iff_ne.mpr this, beq_eq_false_iff_ne.mpr e]
      rw [hb]
  simp only [this, List.length_map]

theorem nextHe_map (m : CubeMap k₀ k L ρ σ τ) {x : Nat} (hx : x ∈ L) (h : Nat) :
    k.nextHe (σ h) (ρ x) = (k₀.nextHe h x).map σ := by
  unfold nextHe
  simp only []
  rw [m.hes x hx, idxOf?_map σ m.sinj]
  cases idxOf? (k₀.hfHes x) h with
  | none => rfl
  | some i =>
    simp only [List.length_map]
    split
    · rw [List.getElem?_map]
    · rw [List.head?_map]

theorem findBottom_map (m : CubeMap k₀ k L ρ σ τ) {q : List Nat} (hq : ∀ x ∈ q, x ∈ L) {h0 : Nat} (h0L : h0 ∈ L) :
    k.hexFindBottom (ρ h0) (q.map ρ) = (k₀.hexFindBottom h0 q).map ρ := by
  unfold hexFindBottom
  rw [m.hes h0 h0L, List.head?_map]
  cases (k₀.hfHes h0).head? with
  | none => rfl
  | some he0 =>
    simp only [Option.map_some]
    rw [getAdj_map m hq]
    cases hs : k₀.hexGetAdj h0 he0 q with
    | none => rfl
    | some side =>
      simp only [Option.map_some]
      have hsL : side ∈ L := hq _ (hexGetAdj_sound _ _ _ _ _ hs).1
      rw [← m.sopp, nextHe_map m hsL]
      cases k₀.nextHe (opp he0) side with
      | none => rfl
      | some h1 =>
        simp only [Option.map_some]
        rw [nextHe_map m hsL]
        cases k₀.nextHe h1 side with
        | none => rfl
        | some h2 =>
          simp only [Option.map_some]
          exact getAdj_map m hq side h2

theorem all_isSome_map (ρ : Nat → Nat) (l : List (Option Nat)) :
    (l.map (Option.map ρ)).all (·.isSome) = l.all (·.isSome) := by
  induction l with
  | nil => rfl
  | cons a t ih => simp only [List.map_cons, List.all_cons, ih, Option.isSome_map]

theorem filterMap_id_map (ρ : Nat → Nat) (l : List (Option Nat)) :
    (l.map (Option.map ρ)).filterMap id = (l.filterMap id).map ρ := by
  induction l with
  | nil => rfl
  | cons a t ih =>
    cases a with
    | none => simpa using ih
    | some x => simp [ih]

theorem reorder_map (m : CubeMap k₀ k L ρ σ τ) {q : List Nat} (hq : ∀ x ∈ q, x ∈ L) (hl : q.length = 6) :
    k.hexReorder (q.map ρ) = (k₀.hexReorder q).map (·.map ρ) := by
  have h0L : q.getD 0 0 ∈ L := hq _ (getD_mem_lt q 0 (by omega))
  unfold hexReorder
  simp only []
  rw [getD_map_lt q ρ 0 (by omega), m.hes _ h0L]
  have hinit : (some (((List.replicate 6 (none : Option Nat)).set 0 (some (ρ (q.getD 0 0)))), 0) : Option (List (Option Nat) × Nat)) =
      (some ((List.replicate 6 (none : Option Nat)).set 0 (some (q.getD 0 0)), 0)).map (mapSt ρ) := by
    simp [mapSt, List.replicate]
  rw [hinit, foldl_fill_map m hq]
  cases (k₀.hfHes (q.getD 0 0)).foldl (k₀.hexFillStep (q.getD 0 0) q)
      (some ((List.replicate 6 (none : Option Nat)).set 0 (some (q.getD 0 0)), 0)) with
  | none => rfl
  | some p =>
    obtain ⟨ord, idx⟩ := p
    simp only [Option.map_some, mapSt]
    rw [findBottom_map m hq h0L]
    cases k₀.hexFindBottom (q.getD 0 0) q with
    | none => rfl
    | some bot =>
      simp only [Option.map_some]
      have hset : (ord.map (Option.map ρ)).set 1 (some (ρ bot)) = (ord.set 1 (some bot)).map (Option.map ρ) := by
        simp [List.map_set]
      rw [hset, all_isSome_map, filterMap_id_map]
      split <;> rfl

/-! ### the closed-surface test of the base class, and the whole call -/

theorem cellHalfedges_map (m : CubeMap k₀ k L ρ σ τ) {l : List Nat} (hl : ∀ x ∈ l, x ∈ L) :
    k.cellHalfedges (l.map ρ) = (k₀.cellHalfedges l).map σ := by
  unfold cellHalfedges
  induction l with
  | nil => rfl
  | cons a t ih =>
    simp only [List.map_cons, List.flatMap_cons, List.map_append]
    rw [m.hes a (hl a (List.mem_cons_self ..)), ih (fun x hx => hl x (List.mem_cons_of_mem _ hx))]

theorem cellCheck_map (m : CubeMap k₀ k L ρ σ τ) {l : List Nat} (hl : ∀ x ∈ l, x ∈ L) :
    k.cellCheck (l.map ρ) = k₀.cellCheck l := by
  rw [Bool.eq_iff_iff, cellCheck_iff, cellCheck_iff]
  unfold ClosedSurface
  rw [cellHalfedges_map m hl]
  constructor
  · rintro ⟨h1, h2⟩
    refine ⟨(nodup_map_inj σ m.sinj _).mp h1, fun h hh => ?_⟩
    have := h2 (σ h) (List.mem_map.mpr ⟨h, hh, rfl⟩)
    rw [← m.sopp] at this
    obtain ⟨h', hm, e⟩ := List.mem_map.mp this
    rw [← m.sinj _ _ e]; exact hm
  · rintro ⟨h1, h2⟩
    refine ⟨(nodup_map_inj σ m.sinj _).mpr h1, fun h hh => ?_⟩
    obtain ⟨h', hm, rfl⟩ := List.mem_map.mp hh
    rw [← m.sopp]
    exact List.mem_map.mpr ⟨_, h2 h' hm, rfl⟩

theorem valence_map (m : CubeMap k₀ k L ρ σ τ) {x : Nat} (hx : x ∈ L) :
    (k.faceAt (eOf (ρ x))).length = (k₀.faceAt (eOf x)).length := by
  rw [← hfHes_length, ← hfHes_length, m.hes x hx, List.length_map]

theorem toSet_length_map (τ : Nat → Nat) (hτ : ∀ a b, τ a = τ b → a = b) (l : List Nat) :
    (toSet (l.map τ)).length = (toSet l).length := by
  have h1 : (toSet (l.map τ)).Perm ((toSet l).map τ) := by
    rw [List.perm_ext_iff_of_nodup (k4_toSet_nodup _) ((nodup_map_inj τ hτ _).mpr (k4_toSet_nodup _))]
    intro a
    simp only [k4_mem_toSet, List.mem_map]
  rw [h1.length_eq, List.length_map]

/-- the eight-distinct-vertices guard (7b999c9) -/
theorem spanVertCount_map (m : CubeMap k₀ k L ρ σ τ) {l : List Nat} (hl : ∀ x ∈ l, x ∈ L) :
    k.spanVertCount (l.map ρ) = k₀.spanVertCount l := by
  unfold spanVertCount
  have : ((l.map ρ).flatMap k.hfHes).flatMap (fun he => [k.fromV he, k.toV he]) =
      ((l.flatMap k₀.hfHes).flatMap (fun he => [k₀.fromV he, k₀.toV he])).map τ := by
    induction l with
    | nil => rfl
    | cons a t ih =>
      simp only [List.map_cons, List.flatMap_cons, List.flatMap_append, List.map_append]
      rw [ih (fun x hx => hl x (List.mem_cons_of_mem _ hx)), m.hes a (hl a (List.mem_cons_self ..))]
      congr 1
      have ha := hl a (List.mem_cons_self ..)
      generalize hE : k₀.hfHes a = E
      have hv : ∀ e ∈ E, k.fromV (σ e) = τ (k₀.fromV e) ∧ k.toV (σ e) = τ (k₀.toV e) := by
        intro e he; rw [← hE] at he; exact ⟨m.vts a ha e he, m.vto a ha e he⟩
      clear hE
      induction E with
      | nil => rfl
      | cons e t' ih' =>
        simp only [List.map_cons, List.flatMap_cons, List.cons_append, List.nil_append]
        rw [(hv e (List.mem_cons_self ..)).1, (hv e (List.mem_cons_self ..)).2,
          ih' (fun x hx => hv x (List.mem_cons_of_mem _ hx))]
  rw [this, toSet_length_map τ m.tinj]

theorem oppDisj_map (m : CubeMap k₀ k L ρ σ τ) {l : List Nat} (hlL : ∀ x ∈ l, x ∈ L) (hl6 : l.length = 6) :
    k.oppPairsDisjoint (l.map ρ) = k₀.oppPairsDisjoint l := by
  rw [oppPairs_eq, oppPairs_eq]
  have cm := m.cellMap hlL
  match l, hl6, cm with
  | [h0, h1, h2, h3, h4, h5], _, cm =>
    have e1 : k.hexOppDisjointB ([h0, h1, h2, h3, h4, h5].map ρ) =
        (disjointL (k.hfVerts (ρ h0)) (k.hfVerts (ρ h1)) && (disjointL (k.hfVerts (ρ h2)) (k.hfVerts (ρ h3)) &&
          (disjointL (k.hfVerts (ρ h4)) (k.hfVerts (ρ h5)) && true))) := rfl
    have e2 : k₀.hexOppDisjointB [h0, h1, h2, h3, h4, h5] =
        (disjointL (k₀.hfVerts h0) (k₀.hfVerts h1) && (disjointL (k₀.hfVerts h2) (k₀.hfVerts h3) &&
          (disjointL (k₀.hfVerts h4) (k₀.hfVerts h5) && true))) := rfl
    rw [e1, e2, cm.disj (by simp) (by simp), cm.disj (x := h2) (y := h3) (by simp) (by simp),
      cm.disj (x := h4) (y := h5) (by simp) (by simp)]

/-- **equivariance of the checked call**: on the renamed cell the call accepts exactly when it accepts on the
    original, and what it hands to the base class is the renamed list (as given when
    `check_halfface_ordering` accepts, re-ordered otherwise) -/
theorem hexAddCell_map (m : CubeMap k₀ k L ρ σ τ) {q : List Nat} (hq : ∀ x ∈ q, x ∈ L) (hl : q.length = 6)
    (c₀ : Nat) (h : (k₀.hexAddCell q true).2 = some c₀) :
    ∃ l₀, (k₀.hexAddCell q true).1.cells = k₀.cells ++ [l₀] ∧ (∀ x ∈ l₀, x ∈ q) ∧
      (k.hexAddCell (q.map ρ) true).2 = some k.nC ∧
      (k.hexAddCell (q.map ρ) true).1.cells = k.cells ++ [l₀.map ρ] ∧
      (k.hexAddCell (q.map ρ) true).1.faces = k.faces ∧ (k.hexAddCell (q.map ρ) true).1.edges = k.edges ∧
      (k.hexCheckOrdering (q.map ρ) = true → l₀ = q) ∧
      (k₀.hexAddCell q true).1.faces = k₀.faces ∧ (k₀.hexAddCell q true).1.edges = k₀.edges := by
  obtain ⟨_, _, l₀, hcells, hl6, hv, hcase⟩ := hexAddCell_accept k₀ q true c₀ h
  have hne : q ≠ [] := by intro e; rw [e] at hl; simp at hl
  -- the list handed to the base class on the original
  have hpath : (k₀.hexCheckOrdering q = true ∧ l₀ = q) ∨ (k₀.hexCheckOrdering q = false ∧ k₀.hexReorder q = some l₀) := by
    rcases hcase with ⟨e, _⟩ | ⟨_, e1, e2⟩ | ⟨_, e1, e2⟩
    · cases e
    · exact Or.inl ⟨e2, e1⟩
    · exact Or.inr ⟨e1, e2⟩
  have hsub : ∀ x ∈ l₀, x ∈ q := by
    rcases hpath with ⟨_, e⟩ | ⟨_, e⟩
    · rw [e]; exact fun x hx => hx
    · have h4 : (k₀.hfHes (q.getD 0 0)).length = 4 := by
        rw [hfHes_length]; exact hv _ (getD_mem_lt q 0 (by omega))
      exact hexReorder_subset k₀ q l₀ h4 hne e
  have hop₀ : k₀.oppPairsDisjoint l₀ = true := by
    rcases hexAddCell_accept_opp k₀ q c₀ h with ⟨hco, hop⟩ | ⟨hco, ord, hre, hop⟩
    · rcases hpath with ⟨_, e⟩ | ⟨e, _⟩
      · rw [e]; exact hop
      · rw [hco] at e; cases e
    · rcases hpath with ⟨e, _⟩ | ⟨_, e⟩
      · rw [hco] at e; cases e
      · rw [hre] at e; cases e; exact hop
  have hop : k.oppPairsDisjoint (l₀.map ρ) = true := by
    rw [oppDisj_map m (fun x hx => hq x (hsub x hx)) hl6]; exact hop₀
  have heq₀ : k₀.hexAddCell q true = k₀.addCell l₀ true := by
    have hval : q.any (fun hf => (k₀.faceAt (eOf hf)).length != 4) = false := by
      rw [List.any_eq_false]; intro x hx; simp [hv x hx]
    have hsp : (k₀.spanVertCount q != 8) = false := by
      rw [hexAddCell_accept_span k₀ q true c₀ h]; rfl
    unfold hexAddCell
    simp only [hl, hval, hsp, bne_self_eq_false, Bool.false_eq_true, if_false, Bool.not_true]
    rcases hpath with ⟨e1, e2⟩ | ⟨e1, e2⟩
    · subst e2; simp only [e1, if_true, hop₀]
    · simp only [e1, Bool.false_eq_true, if_false, e2, hop₀, if_true]
  have heq : k.hexAddCell (q.map ρ) true = k.addCell (l₀.map ρ) true := by
    have hval : (q.map ρ).any (fun hf => (k.faceAt (eOf hf)).length != 4) = false := by
      rw [List.any_eq_false]; intro x hx
      obtain ⟨y, hy, rfl⟩ := List.mem_map.mp hx
      simp [valence_map m (hq y hy), hv y hy]
    have hsp : (k.spanVertCount (q.map ρ) != 8) = false := by
      rw [spanVertCount_map m hq, hexAddCell_accept_span k₀ q true c₀ h]; rfl
    unfold hexAddCell
    simp only [List.length_map, hl, hval, hsp, bne_self_eq_false, Bool.false_eq_true, if_false, Bool.not_true]
    rw [checkOrdering_map m hq hl, reorder_map m hq hl]
    rcases hpath with ⟨e1, e2⟩ | ⟨e1, e2⟩
    · subst e2; simp only [e1, if_true, hop]
    · simp only [e1, Bool.false_eq_true, if_false, e2, Option.map_some, hop, if_true]
  -- acceptance by the base class
  have hacc₀ : k₀.addCellAccepts l₀ true = true := by
    rw [heq₀] at h; unfold addCell at h; split at h
    · assumption
    · simp at h
  have hacc : k.addCellAccepts (l₀.map ρ) true = true := by
    unfold addCellAccepts at hacc₀ ⊢
    rw [cellCheck_map m (fun x hx => hq x (hsub x hx))]
    simpa using hacc₀
  refine ⟨l₀, hcells, hsub, ?_, ?_, ?_, ?_, ?_, ?_, ?_⟩
  · rw [heq]; unfold addCell; rw [if_pos hacc]
  · rw [heq]; unfold addCell; rw [if_pos hacc]; simp
  · rw [heq]; unfold addCell; rw [if_pos hacc]; simp
  · rw [heq]; unfold addCell; rw [if_pos hacc]; simp
  · intro hc
    rw [checkOrdering_map m hq hl] at hc
    rcases hpath with ⟨_, e⟩ | ⟨e, _⟩
    · exact e
    · rw [e] at hc; cases hc
  · rw [heq₀]; unfold addCell; rw [if_pos hacc₀]; simp
  · rw [heq₀]; unfold addCell; rw [if_pos hacc₀]; simp

/-- a permutation of a mapped list is the map of a permutation -/
theorem perm_map_exists (f : Nat → Nat) {p m : List Nat} (h : p.Perm m) :
    ∀ l : List Nat, m = l.map f → ∃ q : List Nat, q.Perm l ∧ p = q.map f := by
  induction h with
  | nil => intro l hl; exact ⟨[], by cases l <;> simp_all, rfl⟩
  | cons x _ ih =>
    intro l hl
    cases l with
    | nil => simp at hl
    | cons a t =>
      simp only [List.map_cons, List.cons.injEq] at hl
      obtain ⟨q, hq, rfl⟩ := ih t hl.2
      exact ⟨a :: q, List.Perm.cons a hq, by simp [hl.1]⟩
  | swap x y l' =>
    intro l hl
    match l, hl with
    | a :: b :: t, hl =>
      simp only [List.map_cons, List.cons.injEq] at hl
      exact ⟨b :: a :: t, List.Perm.swap a b t, by simp [hl.1, hl.2.1, hl.2.2]⟩
  | trans _ _ ih1 ih2 =>
    intro l hl
    obtain ⟨q2, hq2, e2⟩ := ih2 l hl
    obtain ⟨q1, hq1, e1⟩ := ih1 q2 e2
    exact ⟨q1, hq1.trans hq2, e1⟩

theorem oppDisjoint_first {k : Kernel} {l : List Nat} (h : k.hexOppDisjointB l = true) :
    disjointL (k.hfVerts (l.getD 0 0)) (k.hfVerts (l.getD 1 0)) = true := by
  unfold hexOppDisjointB at h
  rw [List.all_eq_true] at h
  exact h 0 (by simp)

theorem kG_cells : Hex.Cube.kG.cells = [] := by decide +kernel

/-- **every permutation of a renamed copy of the standard cube**: the checked call accepts, what it stores is
    a re-ordering of the given list in convention, and a list it accepts as given has its first two halffaces
    vertex-disjoint -/
theorem cubeCopy_all_permutations (k : Kernel) (ρ σ τ : Nat → Nat) (m : CubeMap Hex.Cube.kG k Hex.Cube.L ρ σ τ)
    (p : List Nat) (hp : p.Perm (Hex.Cube.L.map ρ)) (hall : ∀ q : List Nat, q.Perm Hex.Cube.L →
      (Hex.Cube.kG.hexAddCell q true).2 = some 0 ∧ (Hex.Cube.kG.hexAddCell q true).1.hexConvB 0 = true ∧
      ((Hex.Cube.kG.hexAddCell q true).1.cellAt 0).Perm q) :
    (k.hexAddCell p true).2 = some k.nC ∧ (k.hexAddCell p true).1.hexConvB k.nC = true ∧
    ((k.hexAddCell p true).1.cellAt k.nC).Perm p ∧
    (k.hexCheckOrdering p = true → (k.hexAddCell p true).1.cellAt k.nC = p ∧
      disjointL (k.hfVerts (p.getD 0 0)) (k.hfVerts (p.getD 1 0)) = true) := by
  obtain ⟨q, hq, rfl⟩ := perm_map_exists ρ hp _ rfl
  have hqL : ∀ x ∈ q, x ∈ Hex.Cube.L := fun x hx => hq.mem_iff.mp hx
  have hl : q.length = 6 := hq.length_eq
  obtain ⟨a1, a2, a3⟩ := hall q hq
  obtain ⟨l₀, b1, b2, b3, b4, b5, b6, b7, b8, b9⟩ := hexAddCell_map m hqL hl 0 a1
  have hc0 : (Hex.Cube.kG.hexAddCell q true).1.cellAt 0 = l₀ := by
    unfold cellAt; rw [b1, kG_cells]; rfl
  have hconv0 : Hex.Cube.kG.hexConvListB l₀ = true := by
    unfold hexConvB at a2
    rw [hc0, conv_congr b9 b8] at a2; exact a2
  have hcell : (k.hexAddCell (q.map ρ) true).1.cellAt k.nC = l₀.map ρ := by
    unfold cellAt nC; rw [b4]; simp [List.getD_eq_getElem?_getD]
  have hconv : k.hexConvListB (l₀.map ρ) = true := by
    rw [conv_transport (m.cellMap (fun x hx => hqL x (b2 x hx)))]; exact hconv0
  refine ⟨b3, ?_, ?_, ?_⟩
  · unfold hexConvB; rw [hcell, conv_congr b6 b5]; exact hconv
  · rw [hcell]; rw [hc0] at a3; exact a3.map ρ
  · intro hc
    have e := b7 hc
    rw [e] at hcell hconv
    refine ⟨hcell, ?_⟩
    unfold hexConvListB at hconv
    simp only [Bool.and_eq_true] at hconv
    exact oppDisjoint_first hconv.1.2

end HexAll
end Kernel
end OVM

import OVM.Hex.FrameTblCheck
import OVM.Hex.FrameTblReorder
import OVM.Hex.FrameTblReorderB
/-
  C16, item 4 in general: on a `Frame` (six loop quads through the vertex quadruples of the source tables, each face
  stored in an ARBITRARY rotation) the topology-checked `add_cell(halffaces)` is computed on indices:
  `get_adjacent_halfface`, `check_halfface_ordering`, the re-ordering and the bottom search only ask WHICH face
  lies across which halfedge, and that is the table `rev` (`Frame.getAdj`, `checkOrdering_frame`, `reorder_frame`).
  The index-level functions are then run exhaustively (`decide`) over the 720 arrangements and all stored rotations
  of the first two faces: an arrangement accepted by the check is in convention, the re-ordering of any arrangement is
  a re-arrangement in convention (`tbl_check`, `tbl_reorder`).
  Proof-only file.
-/
namespace OVM
namespace Kernel
namespace HexAll
open Global ScanDel OVM.Gen.HexTables

variable {k : Kernel} {vs xs : List Nat} {rot : Nat → Nat}

theorem find?_eq_of_unique {l : List Nat} {p : Nat → Bool} {a : Nat} (ha : a ∈ l) (hp : ∀ x ∈ l, p x = true ↔ x = a) :
    l.find? p = some a := by
  induction l with
  | nil => cases ha
  | cons x t ih =>
    simp only [List.find?_cons]
    by_cases hx : x = a
    · subst hx; rw [(hp x (List.mem_cons_self ..)).mpr rfl]
    · have : p x = false := by
        cases hpx : p x with
        | false => rfl
        | true => exact absurd ((hp x (List.mem_cons_self ..)).mp hpx) hx
      rw [this]
      rcases List.mem_cons.mp ha with e | e
      · exact absurd e.symm hx
      · exact ih e (fun y hy => hp y (List.mem_cons_of_mem _ hy))

/-- **`get_adjacent_halfface` on a frame**: the first face of the arrangement other than `i` that contains the opposite
    of the `j`-th halfedge of face `i` is the face the table names -/
theorem Frame.getAdj (F : Frame k vs xs rot) {q : List Nat} (hq : ∀ a ∈ q, a < 6) {i j : Nat} (hi : i < 6) (hj : j < 4)
    (ha : adjI i (j + rot i) ∈ q) :
    k.hexGetAdj (xs.getD i 0) ((k.hfHes (xs.getD i 0)).getD j 0) (q.map (fun a => xs.getD a 0)) =
      some (xs.getD (adjI i (j + rot i)) 0) := by
  have ht := tbl_rev i hi _ (Nat.mod_lt (j + rot i) (by omega : 0 < 4))
  rw [rev_mod] at ht
  rw [adjI_rev hi] at ha ⊢
  unfold hexGetAdj
  rw [List.find?_map]
  have := find?_eq_of_unique (p := (fun x => x != xs.getD i 0 && (k.hfHes x).contains (opp ((k.hfHes (xs.getD i 0)).getD j 0))) ∘
      (fun a => xs.getD a 0)) ha (by
    intro x hx
    have hx6 := hq x hx
    simp only [Function.comp, Bool.and_eq_true, bne_iff_ne, ne_eq, List.contains_eq_mem, decide_eq_true_eq]
    constructor
    · rintro ⟨_, hc⟩
      have h1 := F.opp_mem hi hj
      rw [rev_mod] at h1
      exact F.face_of_mem hx6 ht.1 hc h1
    · intro e
      subst e
      refine ⟨fun e => ht.2.2.1 (F.xs_inj ht.1 hi e), ?_⟩
      have h1 := F.opp_mem hi hj
      rw [rev_mod] at h1
      exact h1)
  rw [this]; rfl

/-! ### index-level `check_halfface_ordering` -/

theorem Frame.opt_beq (F : Frame k vs xs rot) {a : Nat} (ha : a < 6) {o : Option Nat} (ho : ∀ b, o = some b → b < 6) :
    (o.map (fun a => xs.getD a 0) == some (xs.getD a 0)) = (o == some a) := by
  cases o with
  | none => rfl
  | some b =>
    have hb := ho b rfl
    simp only [Option.map_some]
    by_cases e : b = a
    · subst e; simp
    · have : xs.getD b 0 ≠ xs.getD a 0 := fun h => e (F.xs_inj hb ha h)
      show (some (xs.getD b 0) == some (xs.getD a 0)) = (some b == some a)
      rw [beq_eq_false_iff_ne.mpr (fun h => this (Option.some.inj h)), beq_eq_false_iff_ne.mpr (fun h => e (Option.some.inj h))]

theorem Frame.offsetOf (F : Frame k vs xs rot) {q : List Nat} (hq : ∀ a ∈ q, a < 6) (chain : List (Nat × Nat)) {a : Nat}
    (ha : a < 6) :
    hexOffsetOf chain (q.map (fun a => xs.getD a 0)) (some (xs.getD a 0)) = hexOffsetOf chain q (some a) := by
  simp only [hexOffsetOf]
  congr 1
  apply find?_congr'
  intro p _
  rw [List.getElem?_map]
  exact F.opt_beq ha (fun b hb => hq b (List.mem_of_getElem? hb))

theorem Frame.walkStep (F : Frame k vs xs rot) {q : List Nat} (hq : ∀ a ∈ q, a < 6) (hall : ∀ a, a < 6 → a ∈ q) {i j : Nat}
    (hi : i < 6) (hj : j < 4) (chain : List (Nat × Nat)) (order : List Nat) (st : Option (Option Nat)) :
    k.hexWalkStep (q.map (fun a => xs.getD a 0)) (xs.getD i 0) chain order st ((k.hfHes (xs.getD i 0)).getD j 0) =
      walkStepI q i (rot i) chain order st j := by
  have ht := tbl_rev i hi _ (Nat.mod_lt (j + rot i) (by omega : 0 < 4))
  rw [rev_mod] at ht
  have ha6 : adjI i (j + rot i) < 6 := by rw [adjI_rev hi]; exact ht.1
  unfold hexWalkStep walkStepI
  cases st with
  | none => rfl
  | some off =>
    simp only []
    rw [F.getAdj hq hi hj (hall _ ha6)]
    cases off with
    | none => simp only []; rw [F.offsetOf hq chain ha6]
    | some o =>
      simp only []
      rw [List.getElem?_map]
      have e1 : (some (xs.getD (adjI i (j + rot i)) 0) == Option.map (fun a => xs.getD a 0) q[order.getD ((o + 1) % 4) 0]?) =
          (some (adjI i (j + rot i)) == q[order.getD ((o + 1) % 4) 0]?) := by
        have := F.opt_beq ha6 (o := q[order.getD ((o + 1) % 4) 0]?) (fun b hb => hq b (List.mem_of_getElem? hb))
        rw [Bool.eq_iff_iff] at this ⊢
        simp only [beq_iff_eq] at this ⊢
        exact ⟨fun h => (this.mp h.symm).symm, fun h => (this.mpr h.symm).symm⟩
      rw [e1]; rfl

theorem Frame.walkOk (F : Frame k vs xs rot) {q : List Nat} (hq : ∀ a ∈ q, a < 6) (hall : ∀ a, a < 6 → a ∈ q) {i : Nat}
    (hi : i < 6) (chain : List (Nat × Nat)) (order : List Nat) :
    k.hexWalkOk (q.map (fun a => xs.getD a 0)) (xs.getD i 0) chain order = walkOkI q i (rot i) chain order := by
  unfold hexWalkOk walkOkI
  rw [list4_eq _ (F.len i hi)]
  simp only [List.foldl_cons, List.foldl_nil]
  rw [F.walkStep hq hall hi (by omega : 0 < 4), F.walkStep hq hall hi (by omega : 1 < 4),
    F.walkStep hq hall hi (by omega : 2 < 4), F.walkStep hq hall hi (by omega : 3 < 4)]
  rfl

theorem Frame.checkOrdering (F : Frame k vs xs rot) {q : List Nat} (hq : ∀ a ∈ q, a < 6) (hall : ∀ a, a < 6 → a ∈ q)
    (hl : q.length = 6) :
    k.hexCheckOrdering (q.map (fun a => xs.getD a 0)) = checkI q (rot (q.getD 0 0)) (rot (q.getD 1 0)) := by
  unfold hexCheckOrdering checkI
  rw [tables_pos.1, tables_pos.2, getD_map_lt q _ 0 (by omega), getD_map_lt q _ 1 (by omega),
    F.walkOk hq hall (hq _ (getD_mem_lt q 0 (by omega))), F.walkOk hq hall (hq _ (getD_mem_lt q 1 (by omega)))]

/-! ### index-level re-ordering -/

theorem Frame.fillStep (F : Frame k vs xs rot) {q : List Nat} (hq : ∀ a ∈ q, a < 6) (hall : ∀ a, a < 6 → a ∈ q) {i j : Nat}
    (hi : i < 6) (hj : j < 4) (st : Option (List (Option Nat) × Nat)) :
    k.hexFillStep (xs.getD i 0) (q.map (fun a => xs.getD a 0)) (st.map (mapSt (fun a => xs.getD a 0)))
        ((k.hfHes (xs.getD i 0)).getD j 0) =
      (fillStepI i (rot i) st j).map (mapSt (fun a => xs.getD a 0)) := by
  have ht := tbl_rev i hi _ (Nat.mod_lt (j + rot i) (by omega : 0 < 4))
  rw [rev_mod] at ht
  cases st with
  | none => rfl
  | some p =>
    obtain ⟨ord, idx⟩ := p
    simp only [Option.map_some, mapSt, hexFillStep, fillStepI]
    rw [F.getAdj hq hi hj (hall _ (by rw [adjI_rev hi]; exact ht.1))]
    simp [List.map_set]

theorem Frame.findBottom (F : Frame k vs xs rot) {q : List Nat} (hq : ∀ a ∈ q, a < 6) (hall : ∀ a, a < 6 → a ∈ q) {i : Nat}
    (hi : i < 6) :
    k.hexFindBottom (xs.getD i 0) (q.map (fun a => xs.getD a 0)) = some (xs.getD (findBottomI i (rot i)) 0) := by
  have hr := F.rlt i hi
  have t1 := tbl_rev i hi (rot i) hr
  have e0 : (0 + rot i) % 4 = rot i := by omega
  have hhead : (k.hfHes (xs.getD i 0)).head? = some ((k.hfHes (xs.getD i 0)).getD 0 0) := by
    have := F.len i hi
    generalize k.hfHes (xs.getD i 0) = l at this
    match l, this with
    | a :: t, _ => rfl
  have g0 := F.getAdj hq hi (by omega : 0 < 4) (by rw [Nat.zero_add, adjI_rev hi]; exact hall _ t1.1)
  rw [Nat.zero_add] at g0
  have o0 := F.opp_at (i := i) (j := 0) hi (by omega)
  rw [e0] at o0
  generalize hp1 : rev i (rot i) = p1 at t1 o0
  have hadj : adjI i (rot i) = p1.1 := by rw [adjI_rev hi, hp1]
  rw [hadj] at g0
  have hr1 := F.rlt p1.1 t1.1
  have hj1 : (p1.2 + 4 - rot p1.1) % 4 < 4 := Nat.mod_lt _ (by omega)
  have n1 := F.next_at (i := p1.1) (j := (p1.2 + 4 - rot p1.1) % 4) t1.1 hj1
  have hj1' : ((p1.2 + 4 - rot p1.1) % 4 + 1) % 4 < 4 := Nat.mod_lt _ (by omega)
  have n2 := F.next_at (i := p1.1) (j := ((p1.2 + 4 - rot p1.1) % 4 + 1) % 4) t1.1 hj1'
  have hj6 : (((p1.2 + 4 - rot p1.1) % 4 + 1) % 4 + 1) % 4 < 4 := Nat.mod_lt _ (by omega)
  have t2 := tbl_rev p1.1 t1.1 ((p1.2 + 2) % 4) (Nat.mod_lt _ (by omega))
  rw [rev_mod] at t2
  have hadj2 : adjI p1.1 ((((p1.2 + 4 - rot p1.1) % 4 + 1) % 4 + 1) % 4 + rot p1.1) = (rev p1.1 (p1.2 + 2)).1 := by
    rw [adjI_rev t1.1, ← rev_mod, show ((((p1.2 + 4 - rot p1.1) % 4 + 1) % 4 + 1) % 4 + rot p1.1) % 4 = (p1.2 + 2) % 4 by omega, rev_mod]
  have g6 := F.getAdj hq t1.1 hj6 (by rw [hadj2]; exact hall _ t2.1)
  rw [hadj2] at g6
  unfold hexFindBottom
  simp only [hhead, g0, o0, n1, n2, g6]
  rw [findBottomI_rev i hi (rot i) hr, hp1]

theorem Frame.reorder (F : Frame k vs xs rot) {q : List Nat} (hq : ∀ a ∈ q, a < 6) (hall : ∀ a, a < 6 → a ∈ q)
    (hl : q.length = 6) :
    k.hexReorder (q.map (fun a => xs.getD a 0)) = (reorderI q (rot (q.getD 0 0))).map (·.map (fun a => xs.getD a 0)) := by
  have h0 : q.getD 0 0 < 6 := hq _ (getD_mem_lt q 0 (by omega))
  unfold hexReorder reorderI
  simp only []
  rw [getD_map_lt q _ 0 (by omega), list4_eq _ (F.len _ h0)]
  have hinit : (some (((List.replicate 6 (none : Option Nat)).set 0 (some (xs.getD (q.getD 0 0) 0))), 0) : Option (List (Option Nat) × Nat)) =
      (some ((List.replicate 6 (none : Option Nat)).set 0 (some (q.getD 0 0)), 0)).map (mapSt (fun a => xs.getD a 0)) := by
    simp [mapSt, List.replicate]
  rw [hinit]
  simp only [List.foldl_cons, List.foldl_nil]
  rw [F.fillStep hq hall h0 (by omega : 0 < 4), F.fillStep hq hall h0 (by omega : 1 < 4),
    F.fillStep hq hall h0 (by omega : 2 < 4), F.fillStep hq hall h0 (by omega : 3 < 4), F.findBottom hq hall h0]
  cases fillStepI (q.getD 0 0) (rot (q.getD 0 0)) (fillStepI (q.getD 0 0) (rot (q.getD 0 0)) (fillStepI (q.getD 0 0) (rot (q.getD 0 0))
      (fillStepI (q.getD 0 0) (rot (q.getD 0 0)) (some ((List.replicate 6 (none : Option Nat)).set 0 (some (q.getD 0 0)), 0)) 0) 1) 2) 3 with
  | none => rfl
  | some p =>
    obtain ⟨ord, idx⟩ := p
    simp only [Option.map_some, mapSt]
    have hset : (ord.map (Option.map (fun a => xs.getD a 0))).set 1 (some (xs.getD (findBottomI (q.getD 0 0) (rot (q.getD 0 0))) 0)) =
        (ord.set 1 (some (findBottomI (q.getD 0 0) (rot (q.getD 0 0))))).map (Option.map (fun a => xs.getD a 0)) := by
      simp [List.map_set]
    rw [hset, all_isSome_map, filterMap_id_map]
    split <;> rfl

/-! ### the convention on indices, and the exhaustive run -/

theorem faceIdx_len : ∀ i, i < 6 → (faceIdx i).length = 4 := by decide

theorem II_mem (i n : Nat) (hi : i < 6) : II i n ∈ faceIdx i := by
  unfold II faceIdx
  exact getD_mem_lt _ _ (by have := faceIdx_len i hi; unfold faceIdx at this; rw [this]; exact Nat.mod_lt _ (by omega))

theorem Frame.verts_idx (F : Frame k vs xs rot) {i : Nat} (hi : i < 6) {u : Nat} (hu : u ∈ k.hfVerts (xs.getD i 0)) :
    ∃ p, p ∈ faceIdx i ∧ u = vs.getD p 0 := by
  rw [F.hfVerts_eq hi] at hu
  simp only [List.mem_cons, List.not_mem_nil, or_false] at hu
  rcases hu with rfl | rfl | rfl | rfl <;> exact ⟨_, II_mem i _ hi, rfl⟩

theorem faceIdx_lt : ∀ i, i < 6 → ∀ p ∈ faceIdx i, p < 8 := by decide

theorem Frame.disj_of_oppI (F : Frame k vs xs rot) {a b : Nat} (ha : a < 6) (hb : b < 6) (h : oppI a b = true) :
    disjointL (k.hfVerts (xs.getD a 0)) (k.hfVerts (xs.getD b 0)) = true := by
  apply disjointL_of_forall
  intro u hu hu'
  obtain ⟨p, hp, rfl⟩ := F.verts_idx ha hu
  obtain ⟨p', hp', e⟩ := F.verts_idx hb hu'
  have := F.vinj (faceIdx_lt a ha p hp) (faceIdx_lt b hb p' hp') e
  subst this
  unfold oppI at h
  rw [List.all_eq_true] at h
  have := h p hp
  simp [hp'] at this

/-- **an arrangement that is in convention on indices is `HexConv` on the frame**, whatever the stored rotations -/
theorem Frame.conv_of_idx (F : Frame k vs xs rot) {q : List Nat} (hq : ∀ a ∈ q, a < 6) (h : convI q = true) :
    k.hexConvListB (q.map (fun a => xs.getD a 0)) = true := by
  unfold convI at h
  simp only [Bool.and_eq_true, beq_iff_eq, List.any_eq_true, List.all_eq_true, List.mem_range] at h
  obtain ⟨⟨⟨⟨hl, o01⟩, o23⟩, o45⟩, s, hs, hw⟩ := h
  have hm : ∀ n, n < 6 → q.getD n 0 < 6 := fun n hn => hq _ (getD_mem_lt q n (by omega))
  have ha0 := hm 0 (by omega)
  have hr := F.rlt _ ha0
  have gm : ∀ n, n < 6 → (q.map (fun a => xs.getD a 0)).getD n 0 = xs.getD (q.getD n 0) 0 :=
    fun n hn => getD_map_lt q _ n (by omega)
  unfold hexConvListB
  have hopp : k.hexOppDisjointB (q.map (fun a => xs.getD a 0)) = true := by
    unfold hexOppDisjointB
    rw [List.all_eq_true]
    intro i hi
    simp only [List.mem_cons, List.not_mem_nil, or_false] at hi
    rcases hi with rfl | rfl | rfl
    · rw [gm 0 (by omega), gm 1 (by omega)]; exact F.disj_of_oppI (hm 0 (by omega)) (hm 1 (by omega)) o01
    · rw [gm 2 (by omega), gm 3 (by omega)]; exact F.disj_of_oppI (hm 2 (by omega)) (hm 3 (by omega)) o23
    · rw [gm 4 (by omega), gm 5 (by omega)]; exact F.disj_of_oppI (hm 4 (by omega)) (hm 5 (by omega)) o45
  have hwalk : k.hexWalkAtB (q.map (fun a => xs.getD a 0)) 0 specOrderTop = true := by
    have hh := list4_eq _ (F.len _ ha0)
    apply hexWalkAtB_of_spec k _ 0 specOrderTop _ _ _ _ (by rw [gm 0 (by omega)]; exact hh)
    refine ⟨(s + rot (q.getD 0 0)) % 4, Nat.mod_lt _ (by omega), fun j hj => ?_⟩
    have hpos := specOrderTop_lt ((j + (s + rot (q.getD 0 0)) % 4) % 4) (Nat.mod_lt _ (by omega))
    refine ⟨xs.getD (q.getD (specOrderTop.getD ((j + (s + rot (q.getD 0 0)) % 4) % 4) 0) 0) 0, ?_, ?_⟩
    · rw [List.getElem?_map, List.getElem?_eq_getElem (by omega)]
      simp only [Option.map_some]
      rw [getElem_eq_getD (by omega)]
    · have hw' := hw ((j + rot (q.getD 0 0)) % 4) (Nat.mod_lt _ (by omega))
      rw [show ((j + rot (q.getD 0 0)) % 4 + s) % 4 = (j + (s + rot (q.getD 0 0)) % 4) % 4 by omega] at hw'
      rw [hw']
      have := F.opp_mem ha0 hj
      rw [rev_mod] at this
      rw [adjI_rev ha0, rev_mod]
      have e : [(k.hfHes (xs.getD (q.getD 0 0) 0)).getD 0 0, (k.hfHes (xs.getD (q.getD 0 0) 0)).getD 1 0,
          (k.hfHes (xs.getD (q.getD 0 0) 0)).getD 2 0, (k.hfHes (xs.getD (q.getD 0 0) 0)).getD 3 0].getD j 0 =
          (k.hfHes (xs.getD (q.getD 0 0) 0)).getD j 0 := by
        have : j = 0 ∨ j = 1 ∨ j = 2 ∨ j = 3 := by omega
        rcases this with rfl | rfl | rfl | rfl <;> rfl
      rw [e]
      simpa using this
  unfold hexWalkB
  rw [List.length_map, hl, hopp, hwalk]; rfl

/-! ### every permutation of the six faces of a frame -/

theorem tbl_vertex_used : ∀ p, p < 8 → ∃ i, i < 6 ∧ ∃ m, m < 4 ∧ II i m = p := by decide

theorem toSet_length_nodup {l : List Nat} (h : l.Nodup) : (toSet l).length = l.length := by
  have : (toSet l).Perm l := by
    rw [List.perm_ext_iff_of_nodup (k4_toSet_nodup _) h]
    intro a; exact k4_mem_toSet a l
  exact this.length_eq

theorem Frame.span (F : Frame k vs xs rot) : k.spanVertCount xs = 8 := by
  unfold spanVertCount
  rw [← F.vlen, ← toSet_length_nodup F.vnd]
  apply toSet_length_congr
  intro v
  have b : ∀ i, i < 6 → ∀ n, II i n < 8 := fun i hi n => by
    have := (tbl_lt i hi (n % 4) (Nat.mod_lt _ (by omega))).1; rwa [II_mod] at this
  constructor
  · intro hv
    simp only [List.mem_flatMap] at hv
    obtain ⟨e, ⟨x, hx, he⟩, hve⟩ := hv
    obtain ⟨i, hi, rfl⟩ := F.idx_of_mem hx
    obtain ⟨j, hj, rfl⟩ := F.pos_of_mem hi he
    have r := F.run i hi j hj
    simp only [List.mem_cons, List.not_mem_nil, or_false] at hve
    rcases hve with rfl | rfl
    · rw [r.2.2.1]; exact F.vmem (b i hi _)
    · rw [r.2.2.2]; exact F.vmem (b i hi _)
  · intro hv
    obtain ⟨p, hp, rfl⟩ := List.getElem_of_mem hv
    rw [F.vlen] at hp
    obtain ⟨i, hi, m, hm, e⟩ := tbl_vertex_used p hp
    have hr := F.rlt i hi
    have hj : (m + 4 - rot i) % 4 < 4 := Nat.mod_lt _ (by omega)
    have r := F.run i hi _ hj
    rw [II_congr i (show ((m + 4 - rot i) % 4 + rot i) % 4 = m % 4 by omega), e] at r
    simp only [List.mem_flatMap]
    refine ⟨_, ⟨_, getD_mem_lt xs i (by rw [F.xlen]; exact hi), F.mem_at hi hj⟩, ?_⟩
    rw [r.2.2.1, getElem_eq_getD (by rw [F.vlen]; exact hp)]
    simp

theorem closedSurface_perm {k : Kernel} {l m : List Nat} (h : l.Perm m) (hc : ClosedSurface k m) : ClosedSurface k l := by
  unfold ClosedSurface cellHalfedges at *
  have hp : (l.flatMap k.hfHes).Perm (m.flatMap k.hfHes) := h.flatMap_right _
  exact ⟨hp.nodup_iff.mpr hc.1, fun e he => hp.mem_iff.mpr (hc.2 e (hp.mem_iff.mp he))⟩

theorem range6 : List.range 6 = [0, 1, 2, 3, 4, 5] := by decide

theorem Frame.xs_eq (F : Frame k vs xs rot) : xs = [0, 1, 2, 3, 4, 5].map (fun a => xs.getD a 0) := by
  have := F.xlen
  match xs, this with
  | [a, b, c, d, e, f], _ => rfl

theorem perm_of_sortL_eq {a b : List Nat} (h : sortL a = b) : a.Perm b := by
  rw [← h]; exact (CellCheck.sortL_perm a).symm

/-- **every permutation of the six halffaces of a frame** — whatever the rotations in which the faces are stored —
    is accepted by the topology-checked `add_cell`, stored as a re-arrangement in convention, and a list accepted as
    given is stored as given with its first two halffaces vertex-disjoint; no permutation is rejected -/
theorem Frame.all_permutations (F : Frame k vs xs rot) (p : List Nat) (hp : p.Perm xs) :
    (k.hexAddCell p true).2 = some k.nC ∧ (k.hexAddCell p true).1.hexConvB k.nC = true ∧
    ((k.hexAddCell p true).1.cellAt k.nC).Perm p ∧
    (k.hexCheckOrdering p = true → (k.hexAddCell p true).1.cellAt k.nC = p ∧
      disjointL (k.hfVerts (p.getD 0 0)) (k.hfVerts (p.getD 1 0)) = true) := by
  have hp' := hp
  rw [F.xs_eq] at hp'
  obtain ⟨q, hqp, rfl⟩ := perm_map_exists _ hp' _ rfl
  have hq : ∀ a ∈ q, a < 6 := fun a ha => by have := hqp.mem_iff.mp ha; simp at this; omega
  have hall : ∀ a, a < 6 → a ∈ q := fun a ha => hqp.mem_iff.mpr (by simp; omega)
  have hl : q.length = 6 := hqp.length_eq
  have hmem : q ∈ perms6 := Hex.Cube.mem_perms_of_perm _ q hqp
  have hr0 := F.rlt _ (hq _ (getD_mem_lt q 0 (by omega)))
  have hr1 := F.rlt _ (hq _ (getD_mem_lt q 1 (by omega)))
  -- the guards before the ordering
  have hlen : ((q.map (fun a => xs.getD a 0)).length != 6) = false := by simp [hl]
  have hval : (q.map (fun a => xs.getD a 0)).any (fun hf => (k.faceAt (eOf hf)).length != 4) = false := by
    rw [List.any_eq_false]; intro x hx
    obtain ⟨a, ha, rfl⟩ := List.mem_map.mp hx
    rw [← hfHes_length, F.len a (hq a ha)]; simp
  have hspan : (k.spanVertCount (q.map (fun a => xs.getD a 0)) != 8) = false := by
    rw [spanVertCount_same_members k (fun x => hp.mem_iff), F.span]; rfl
  -- the list about to be stored, in convention
  have key : ∃ q', (∀ a ∈ q', a < 6) ∧ convI q' = true ∧ q'.Perm q ∧
      k.hexAddCell (q.map (fun a => xs.getD a 0)) true = k.addCell (q'.map (fun a => xs.getD a 0)) true ∧
      (k.hexCheckOrdering (q.map (fun a => xs.getD a 0)) = true → q' = q) := by
    cases hco : k.hexCheckOrdering (q.map (fun a => xs.getD a 0)) with
    | true =>
      have hci := hco
      rw [F.checkOrdering hq hall hl] at hci
      have ht := tbl_check
      rw [List.all_eq_true] at ht
      have h1 := ht q hmem
      simp only [List.all_eq_true, List.mem_cons, List.not_mem_nil, or_false] at h1
      have h2 := h1 (rot (q.getD 0 0)) (by omega) (rot (q.getD 1 0)) (by omega)
      rw [hci] at h2
      have hconv : convI q = true := by simpa using h2
      have hop : k.oppPairsDisjoint (q.map (fun a => xs.getD a 0)) = true := by
        rw [oppPairs_eq]
        have := F.conv_of_idx hq hconv
        unfold hexConvListB at this
        simp only [Bool.and_eq_true] at this
        exact this.1.2
      refine ⟨q, hq, hconv, List.Perm.refl _, ?_, fun _ => rfl⟩
      unfold hexAddCell
      simp only [hlen, hval, hspan, hco, hop, Bool.false_eq_true, if_false, Bool.not_true, if_true]
    | false =>
      have hre : ∃ q', reorderI q (rot (q.getD 0 0)) = some q' ∧ convI q' = true ∧ sortL q' = [0, 1, 2, 3, 4, 5] := by
        have hr : rot (q.getD 0 0) = 0 ∨ rot (q.getD 0 0) = 1 ∨ rot (q.getD 0 0) = 2 ∨ rot (q.getD 0 0) = 3 := by omega
        have ha := tbl_reorder_a
        have hb := tbl_reorder_b
        rw [List.all_eq_true] at ha hb
        have ha' := ha q hmem
        have hb' := hb q hmem
        simp only [List.all_eq_true, List.mem_cons, List.not_mem_nil, or_false] at ha' hb'
        have hx : (match reorderI q (rot (q.getD 0 0)) with
            | some q' => convI q' && sortL q' == [0, 1, 2, 3, 4, 5]
            | none => false) = true := by
          rcases hr with e | e | e | e
          · rw [e]; exact ha' 0 (Or.inl rfl)
          · rw [e]; exact ha' 1 (Or.inr rfl)
          · rw [e]; exact hb' 2 (Or.inl rfl)
          · rw [e]; exact hb' 3 (Or.inr rfl)
        cases hro : reorderI q (rot (q.getD 0 0)) with
        | none => rw [hro] at hx; cases hx
        | some q' =>
          rw [hro] at hx
          simp only [Bool.and_eq_true, beq_iff_eq] at hx
          exact ⟨q', rfl, hx.1, hx.2⟩
      obtain ⟨q', hro, hconv, hsort⟩ := hre
      have hq'p : q'.Perm q := (perm_of_sortL_eq hsort).trans hqp.symm
      have hq' : ∀ a ∈ q', a < 6 := fun a ha => hq a (hq'p.mem_iff.mp ha)
      have hop : k.oppPairsDisjoint (q'.map (fun a => xs.getD a 0)) = true := by
        rw [oppPairs_eq]
        have := F.conv_of_idx hq' hconv
        unfold hexConvListB at this
        simp only [Bool.and_eq_true] at this
        exact this.1.2
      refine ⟨q', hq', hconv, hq'p, ?_, fun e => by cases e⟩
      unfold hexAddCell
      rw [F.reorder hq hall hl, hro]
      simp only [hlen, hval, hspan, hco, hop, Bool.false_eq_true, if_false, Bool.not_true, if_true, Option.map_some]
  obtain ⟨q', hq', hconv, hq'p, heq, has⟩ := key
  have hperm : (q'.map (fun a => xs.getD a 0)).Perm xs := (hq'p.map _).trans hp
  have hacc : k.addCellAccepts (q'.map (fun a => xs.getD a 0)) true = true := by
    unfold addCellAccepts
    have hne : (q'.map (fun a => xs.getD a 0)).isEmpty = false := by
      have : q'.length = 6 := hq'p.length_eq.trans hl
      cases q' with
      | nil => simp at this
      | cons a t => rfl
    rw [(cellCheck_iff k _).mpr (closedSurface_perm hperm F.closed), hne]; rfl
  have hcells : (k.hexAddCell (q.map (fun a => xs.getD a 0)) true).1.cellAt k.nC = q'.map (fun a => xs.getD a 0) := by
    rw [heq]; unfold addCell; rw [if_pos hacc]
    unfold Kernel.cellAt nC; rw [addCellCore_cells]; exact getD_snoc_eq _ _ _
  have hconvk := F.conv_of_idx hq' hconv
  refine ⟨by rw [heq]; unfold addCell; rw [if_pos hacc], ?_, by rw [hcells]; exact hq'p.map _, ?_⟩
  · unfold hexConvB
    rw [hcells, conv_congr (hexAddCell_edges k _ true) (by rw [heq]; unfold addCell; rw [if_pos hacc]; simp)]
    exact hconvk
  · intro hc
    have e := has hc
    subst e
    refine ⟨hcells, ?_⟩
    unfold hexConvListB at hconvk
    simp only [Bool.and_eq_true] at hconvk
    exact oppDisjoint_first hconvk.1.2

end HexAll
end Kernel
end OVM

import OVM.Hex.VerticesPattern
/-
  C16: an executable test for `Frame` (used by non-vacuity examples only): `frameB k vs xs rl = true` implies
  `Frame k vs xs (rl.getD · 0)`.  Proof-only file.
-/
namespace OVM
namespace Kernel
namespace HexAll
open Global ScanDel OVM.Gen.HexTables

def runsB (k : Kernel) (h a b : Nat) : Bool := decide (h < k.nHE) && k.liveE (eOf h) && k.fromV h == a && k.toV h == b

theorem runs_of_B {k : Kernel} {h a b : Nat} (e : runsB k h a b = true) : Runs k h a b := by
  unfold runsB at e
  simp only [Bool.and_eq_true, decide_eq_true_eq, beq_iff_eq] at e
  exact ⟨e.1.1.1, e.1.1.2, e.1.2, e.2⟩

def frameB (k : Kernel) (vs xs rl : List Nat) : Bool :=
  vs.length == 8 && decide vs.Nodup && xs.length == 6 && uniqEdgesB k vs &&
  (List.range 6).all (fun i => (k.hfHes (xs.getD i 0)).length == 4 && decide (rl.getD i 0 < 4) &&
    (List.range 4).all (fun j => runsB k ((k.hfHes (xs.getD i 0)).getD j 0) (vs.getD (II i (j + rl.getD i 0)) 0)
      (vs.getD (II i (j + rl.getD i 0 + 1)) 0)))

theorem frame_of_B {k : Kernel} {vs xs rl : List Nat} (h : frameB k vs xs rl = true) :
    Frame k vs xs (fun i => rl.getD i 0) := by
  unfold frameB at h
  simp only [Bool.and_eq_true, beq_iff_eq, decide_eq_true_eq, List.all_eq_true, List.mem_range] at h
  obtain ⟨⟨⟨⟨h1, h2⟩, h3⟩, h4⟩, h5⟩ := h
  have C : FrameCore k vs xs (fun i => rl.getD i 0) := ⟨h1, h2, h3, fun i hi => (h5 i hi).1.1, fun i hi => (h5 i hi).1.2,
    fun i hi j hj => runs_of_B ((h5 i hi).2 j hj)⟩
  exact ⟨C, fun i hi j hj => C.opp_of_uniq (uniqEdges_of_B h4) hi hj⟩

/-- the stored rotations, found by search (for `#eval` / examples) -/
def findRots (k : Kernel) (vs xs : List Nat) : List Nat :=
  (List.range 6).map (fun i => ((List.range 4).find? (fun r => (List.range 4).all (fun j =>
    runsB k ((k.hfHes (xs.getD i 0)).getD j 0) (vs.getD (II i (j + r)) 0) (vs.getD (II i (j + r + 1)) 0)))).getD 4)

end HexAll
end Kernel
end OVM

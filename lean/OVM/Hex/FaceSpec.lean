import OVM.Hex.EightVerts
import OVM.Refine.GlobalBU2
/-
  C16, item 3, part 1: a specification of `add_edge` / `add_face(vertices)` (find-or-create loops,
  TopologyKernel.cc:113-169, 235-267) in terms of what the stored halfedges DO:
  * `addEdge_runs`: the halfedge `add_face(vertices)` takes from `add_edge(a, b)` lies on a live edge and
    runs from `a` to `b` (found — the search is `findEdge_eq_scan`, builder K5 — or created);
  * `uniq_addEdge`: `add_edge` creates an edge only if no live edge joins the two vertices, so "at most one
    live edge between two vertices of `U`" (`UniqEdges`) is kept;
  * `addFaceV_spec`: `add_face(v0 … v_{n-1})` appends one face whose halfedges run v0→v1→…→v0, each on a
    live edge; everything older is untouched (`Ext`).
  Proof-only file.
-/
namespace OVM
namespace Kernel
namespace HexAll
open Global ScanDel

/-- halfedge `h` exists, lies on a live edge and runs from `a` to `b` -/
def Runs (k : Kernel) (h a b : Nat) : Prop := h < k.nHE ∧ k.liveE (eOf h) = true ∧ k.fromV h = a ∧ k.toV h = b

/-- `k'` extends `k`: edges and faces appended, cells and all old flags untouched -/
structure Ext (k k' : Kernel) : Prop where
  grow : Grow k k'
  nV : k'.nV = k.nV
  vDel : k'.vDel = k.vDel
  eDel : ∀ e, e < k.nE → k'.eDeleted e = k.eDeleted e
  fDel : ∀ f, f < k.nF → k'.fDeleted f = k.fDeleted f

theorem Ext.refl (k : Kernel) : Ext k k := ⟨Grow.refl k, rfl, rfl, fun _ _ => rfl, fun _ _ => rfl⟩

theorem Ext.nE_le {k k' : Kernel} (x : Ext k k') : k.nE ≤ k'.nE := by
  obtain ⟨es, he⟩ := x.grow.edges; unfold nE; rw [he, List.length_append]; omega
theorem Ext.nF_le {k k' : Kernel} (x : Ext k k') : k.nF ≤ k'.nF := by
  obtain ⟨fs, hf⟩ := x.grow.faces; unfold nF; rw [hf, List.length_append]; omega

theorem Ext.trans {k1 k2 k3 : Kernel} (a : Ext k1 k2) (b : Ext k2 k3) : Ext k1 k3 :=
  ⟨a.grow.trans b.grow, b.nV.trans a.nV, b.vDel.trans a.vDel,
   fun e he => (b.eDel e (Nat.lt_of_lt_of_le he a.nE_le)).trans (a.eDel e he),
   fun f hf => (b.fDel f (Nat.lt_of_lt_of_le hf a.nF_le)).trans (a.fDel f hf)⟩

theorem Ext.edgeAt {k k' : Kernel} (x : Ext k k') {e : Nat} (he : e < k.nE) : k'.edgeAt e = k.edgeAt e := by
  obtain ⟨es, h⟩ := x.grow.edges; unfold Kernel.edgeAt; rw [h, getD_append_lt _ _ _ _ he]
theorem Ext.faceAt {k k' : Kernel} (x : Ext k k') {f : Nat} (hf : f < k.nF) : k'.faceAt f = k.faceAt f := by
  obtain ⟨fs, h⟩ := x.grow.faces; unfold Kernel.faceAt; rw [h, getD_append_lt _ _ _ _ hf]
theorem Ext.halfedge {k k' : Kernel} (x : Ext k k') {h : Nat} (hh : h < k.nHE) : k'.halfedge h = k.halfedge h := by
  unfold Kernel.halfedge; rw [x.edgeAt (by unfold eOf nHE nE at *; omega)]
theorem Ext.hfHes {k k' : Kernel} (x : Ext k k') {hf : Nat} (hh : hf < k.nHF) : k'.hfHes hf = k.hfHes hf := by
  unfold Kernel.hfHes; rw [x.faceAt (by unfold eOf nHF nF at *; omega)]
theorem Ext.liveE {k k' : Kernel} (x : Ext k k') {e : Nat} (he : e < k.nE) : k'.liveE e = k.liveE e := by
  unfold Kernel.liveE; rw [x.eDel e he]
  have := x.nE_le
  simp [he, Nat.lt_of_lt_of_le he this]
theorem Ext.liveF {k k' : Kernel} (x : Ext k k') {f : Nat} (hf : f < k.nF) : k'.liveF f = k.liveF f := by
  unfold Kernel.liveF; rw [x.fDel f hf]
  have := x.nF_le
  simp [hf, Nat.lt_of_lt_of_le hf this]

theorem Ext.runs {k k' : Kernel} (x : Ext k k') {h a b : Nat} (r : Runs k h a b) : Runs k' h a b := by
  obtain ⟨h1, h2, h3, h4⟩ := r
  have he : eOf h < k.nE := by unfold eOf nHE nE at *; omega
  refine ⟨by have := x.nE_le; unfold nHE nE at *; omega, by rw [x.liveE he]; exact h2, ?_, ?_⟩
  · unfold Kernel.fromV; rw [x.halfedge h1]; exact h3
  · unfold Kernel.toV; rw [x.halfedge h1]; exact h4

theorem vOk_ext {k k' : Kernel} (x : Ext k k') {v : Nat} (h : VOk k v) : VOk k' v := vOk_of_frames x.nV x.vDel h

/-! ### add_edge -/

theorem ext_addEdge (k : Kernel) (a b : Nat) (d : Bool) : Ext k (k.addEdge a b d).1 :=
  ⟨grow_addEdge k a b d, addEdge_nV k a b d, addEdge_vDel k a b d, fun e _ => addEdge_eDeleted k a b d e,
   fun f _ => by unfold Kernel.fDeleted addEdge; split <;> simp⟩

/-- the halfedge of a live edge joining `a` and `b` that `add_face(vertices)` picks (cc:255-258) runs from `a` to `b` -/
theorem runs_of_joins {k : Kernel} {a b e : Nat} (hj : Joins k a b e) :
    Runs k (heOf e (if (k.edgeAt e).2 == a then 1 else 0)) a b := by
  obtain ⟨hl, hp⟩ := hj
  have he : e < k.nE := joins_lt ⟨hl, hp⟩
  have hlt : ∀ s, s < 2 → heOf e s < k.nHE := by intro s hs; unfold heOf nHE nE at *; omega
  have heo : ∀ s, s < 2 → eOf (heOf e s) = e := by intro s hs; unfold heOf eOf; omega
  rcases hp with hp | hp
  · by_cases hba : b = a
    · subst hba
      have : ((k.edgeAt e).2 == b) = true := by rw [hp]; simp
      rw [this, if_pos rfl]
      refine ⟨hlt 1 (by omega), by rw [heo 1 (by omega)]; exact hl, ?_, ?_⟩
      · show k.fromV (2 * e + 1) = b; rw [fromV_odd', hp]
      · show k.toV (2 * e + 1) = b; rw [toV_odd, hp]
    · have : ((k.edgeAt e).2 == a) = false := by rw [hp]; simpa using hba
      rw [this]
      simp only [Bool.false_eq_true, if_false]
      refine ⟨hlt 0 (by omega), by rw [heo 0 (by omega)]; exact hl, ?_, ?_⟩
      · show k.fromV (2 * e + 0) = a; rw [Nat.add_zero, fromV_even, hp]
      · show k.toV (2 * e + 0) = b; rw [Nat.add_zero, toV_even, hp]
  · have : ((k.edgeAt e).2 == a) = true := by rw [hp]; simp
    rw [this, if_pos rfl]
    refine ⟨hlt 1 (by omega), by rw [heo 1 (by omega)]; exact hl, ?_, ?_⟩
    · show k.fromV (2 * e + 1) = a; rw [fromV_odd', hp]
    · show k.toV (2 * e + 1) = b; rw [toV_odd, hp]

/-- what `add_edge(a, b)` returns joins `a` and `b` in the new state; it is a new edge only when no live edge
    joined them -/
theorem addEdge_joins {k : Kernel} (hw : WF k) {a b : Nat} (ha : a < k.nV) :
    Joins (k.addEdge a b false).1 a b (k.addEdge a b false).2 ∧
    ((k.addEdge a b false).1 = k ∨ (¬ EdgeBetween k a b ∧ (k.addEdge a b false).1 = k.addEdgeCore a b ∧
      (k.addEdge a b false).2 = k.nE)) := by
  unfold addEdge
  cases hf : k.findEdge a b false with
  | some e =>
    simp only []
    rw [findEdge_eq_scan hw ha] at hf
    simp only [Bool.false_eq_true, if_false] at hf
    unfold findEdgeScan at hf
    have hm := List.mem_range.mp (List.mem_of_find?_eq_some hf)
    have hp := List.find?_some hf
    exact ⟨(scanPred_iff k a b e hm).mp hp, Or.inl trivial⟩
  | none =>
    simp only []
    have hno : ¬ EdgeBetween k a b := by
      intro hb
      have := (findEdge_isSome hw ha b false).mpr ⟨rfl, hb⟩
      rw [hf] at this; cases this
    refine ⟨?_, Or.inr ⟨hno, trivial, trivial⟩⟩
    have hea : (k.addEdgeCore a b).edgeAt k.nE = (a, b) := by
      unfold Kernel.edgeAt; rw [addEdgeCore_edges]; simp [List.getD_eq_getElem?_getD, nE]
    refine ⟨?_, Or.inl hea⟩
    unfold Kernel.liveE Kernel.eDeleted nE
    rw [addEdgeCore_edges, addEdgeCore_eDel, getD_snoc_false, getD_of_ge _ _ _ (by rw [hw.len.eDel]; exact Nat.le_refl _)]
    simp

/-- at most one live edge joins two vertices of `U` -/
def UniqEdges (k : Kernel) (U : List Nat) : Prop :=
  ∀ i j a b, a ∈ U → b ∈ U → Joins k a b i → Joins k a b j → i = j

theorem joins_of_ext {k k' : Kernel} (x : Ext k k') {a b i : Nat} (hi : i < k.nE) (h : Joins k' a b i) : Joins k a b i := by
  unfold Joins at *; rw [x.liveE hi, x.edgeAt hi] at h; exact h

theorem joins_ext {k k' : Kernel} (x : Ext k k') {a b i : Nat} (h : Joins k a b i) : Joins k' a b i := by
  have hi := joins_lt h
  unfold Joins at *; rw [x.liveE hi, x.edgeAt hi]; exact h

theorem uniq_addEdge {k : Kernel} (hw : WF k) {a b : Nat} (ha : a < k.nV) (U : List Nat) (hu : UniqEdges k U) :
    UniqEdges (k.addEdge a b false).1 U := by
  obtain ⟨_, hc⟩ := addEdge_joins hw (b := b) ha
  rcases hc with e | ⟨hno, e, _⟩
  · rw [e]; exact hu
  · have x := ext_addEdge k a b false
    rw [e] at x ⊢
    have hn : (k.addEdgeCore a b).nE = k.nE + 1 := by unfold nE; rw [addEdgeCore_edges]; simp
    have hea : (k.addEdgeCore a b).edgeAt k.nE = (a, b) := by
      unfold Kernel.edgeAt; rw [addEdgeCore_edges]; simp [List.getD_eq_getElem?_getD, nE]
    have key : ∀ i c d, Joins (k.addEdgeCore a b) c d i → i = k.nE → EdgeBetween k a b ∨ ∀ j, Joins k c d j → False := by
      intro i c d hj hi
      right
      intro j hjj
      subst hi
      apply hno
      have hp := hj.2
      rw [hea] at hp
      refine ⟨j, hjj.1, ?_⟩
      rcases hp with hp | hp
      · have e1 : a = c := (Prod.mk.inj hp).1
        have e2 : b = d := (Prod.mk.inj hp).2
        subst e1; subst e2; exact hjj.2
      · have e1 : a = d := (Prod.mk.inj hp).1
        have e2 : b = c := (Prod.mk.inj hp).2
        subst e1; subst e2; exact hjj.2.symm
    intro i j c d hc hd hi hj
    have hil := joins_lt hi
    have hjl := joins_lt hj
    rw [hn] at hil hjl
    by_cases h1 : i < k.nE
    · by_cases h2 : j < k.nE
      · exact hu i j c d hc hd (joins_of_ext x h1 hi) (joins_of_ext x h2 hj)
      · rcases key j c d hj (by omega) with h | h
        · exact absurd h hno
        · exact absurd (joins_of_ext x h1 hi) (fun hh => h i hh)
    · by_cases h2 : j < k.nE
      · rcases key i c d hi (by omega) with h | h
        · exact absurd h hno
        · exact absurd (joins_of_ext x h2 hj) (fun hh => h j hh)
      · omega

/-! ### add_face(vertices) -/

/-- one iteration of the find-or-create loop of `add_face(vertices)` (cc:249-260) -/
def faceVStep (st : Kernel × List Nat) (ab : Nat × Nat) : Kernel × List Nat :=
  ((st.1.addEdge ab.1 ab.2 false).1,
   st.2 ++ [heOf (st.1.addEdge ab.1 ab.2 false).2
     (if ((st.1.addEdge ab.1 ab.2 false).1.edgeAt (st.1.addEdge ab.1 ab.2 false).2).2 == ab.1 then 1 else 0)])

theorem addFaceV_eq (k : Kernel) (v0 : Nat) (t : List Nat) :
    k.addFaceV (v0 :: t) =
      (((v0 :: t).zip (t ++ [v0])).foldl faceVStep (k, [])).1.addFace (((v0 :: t).zip (t ++ [v0])).foldl faceVStep (k, [])).2 false := by
  rfl

theorem getD_snoc_lt {α} (l : List α) (x d : α) (j : Nat) (h : j < l.length) : (l ++ [x]).getD j d = l.getD j d :=
  getD_append_lt l [x] j d h

theorem getD_snoc_eq {α} (l : List α) (x d : α) : (l ++ [x]).getD l.length d = x := by
  simp [List.getD_eq_getElem?_getD]

theorem faceV_fold_spec (U : List Nat) : ∀ (pairs done : List (Nat × Nat)) (st : Kernel × List Nat), WF st.1 →
    (∀ p ∈ pairs, p.1 < st.1.nV ∧ p.2 < st.1.nV) → UniqEdges st.1 U → st.2.length = done.length →
    (∀ j, j < done.length → Runs st.1 (st.2.getD j 0) (done.getD j (0, 0)).1 (done.getD j (0, 0)).2) →
    Ext st.1 (pairs.foldl faceVStep st).1 ∧ WF (pairs.foldl faceVStep st).1 ∧ UniqEdges (pairs.foldl faceVStep st).1 U ∧
    (pairs.foldl faceVStep st).2.length = (done ++ pairs).length ∧
    (∀ j, j < (done ++ pairs).length → Runs (pairs.foldl faceVStep st).1 ((pairs.foldl faceVStep st).2.getD j 0)
      ((done ++ pairs).getD j (0, 0)).1 ((done ++ pairs).getD j (0, 0)).2) ∧
    (pairs.foldl faceVStep st).1.faces = st.1.faces ∧ (pairs.foldl faceVStep st).1.fDel = st.1.fDel := by
  intro pairs
  induction pairs with
  | nil =>
    intro done st hw _ hu hl hr
    simp only [List.foldl_nil, List.append_nil]
    exact ⟨Ext.refl _, hw, hu, hl, hr, trivial, trivial⟩
  | cons p t ih =>
    intro done st hw hv hu hl hr
    simp only [List.foldl_cons]
    have hp := hv p (List.mem_cons_self ..)
    have x := ext_addEdge st.1 p.1 p.2 false
    have hw1 := wf_addEdge st.1 p.1 p.2 false hp.1 hp.2 hw
    have hu1 := uniq_addEdge hw (b := p.2) hp.1 U hu
    have hj := (addEdge_joins hw (b := p.2) hp.1).1
    have hrun := runs_of_joins hj
    have hl1 : (faceVStep st p).2.length = (done ++ [p]).length := by simp [faceVStep, hl]
    have hr1 : ∀ j, j < (done ++ [p]).length → Runs (faceVStep st p).1 ((faceVStep st p).2.getD j 0)
        ((done ++ [p]).getD j (0, 0)).1 ((done ++ [p]).getD j (0, 0)).2 := by
      intro j hjl
      simp only [List.length_append, List.length_cons, List.length_nil] at hjl
      by_cases hjd : j < done.length
      · have e1 : (faceVStep st p).2.getD j 0 = st.2.getD j 0 := getD_snoc_lt _ _ _ _ (by rw [hl]; exact hjd)
        rw [e1, getD_snoc_lt _ _ _ _ hjd]
        exact x.runs (hr j hjd)
      · have : j = done.length := by omega
        subst this
        have e1 : (faceVStep st p).2.getD done.length 0 = heOf (st.1.addEdge p.1 p.2 false).2
            (if ((st.1.addEdge p.1 p.2 false).1.edgeAt (st.1.addEdge p.1 p.2 false).2).2 == p.1 then 1 else 0) := by
          unfold faceVStep; rw [← hl]; exact getD_snoc_eq _ _ _
        rw [e1, getD_snoc_eq]
        exact hrun
    have hv1 : ∀ q ∈ t, q.1 < (faceVStep st p).1.nV ∧ q.2 < (faceVStep st p).1.nV := by
      intro q hq
      have := hv q (List.mem_cons_of_mem _ hq)
      show q.1 < (st.1.addEdge p.1 p.2 false).1.nV ∧ q.2 < (st.1.addEdge p.1 p.2 false).1.nV
      rw [x.nV]; exact this
    obtain ⟨a1, a2, a3, a4, a5, a6, a7⟩ := ih (done ++ [p]) (faceVStep st p) hw1 hv1 hu1 hl1 hr1
    have happ : done ++ [p] ++ t = done ++ p :: t := by simp
    rw [happ] at a4 a5
    refine ⟨x.trans a1, a2, a3, a4, a5, a6.trans ?_, a7.trans ?_⟩
    · show (st.1.addEdge p.1 p.2 false).1.faces = st.1.faces
      exact addEdge_faces _ _ _ _
    · show (st.1.addEdge p.1 p.2 false).1.fDel = st.1.fDel
      unfold addEdge; split <;> simp

theorem ext_addFace {k : Kernel} (hes : List Nat) : Ext k (k.addFace hes false).1 := by
  have hacc : k.addFaceAccepts hes false = true := by unfold addFaceAccepts; simp
  unfold addFace; rw [if_pos hacc]
  refine ⟨⟨⟨[], by simp⟩, ⟨[hes], by simp⟩, by simp, by simp⟩, by simp, by simp, ?_, ?_⟩
  · intro e _; unfold Kernel.eDeleted; rw [addFaceCore_eDel]
  · intro f hf; unfold Kernel.fDeleted; rw [addFaceCore_fDel, getD_snoc_false]

theorem zip_rot_getD (v0 : Nat) (t : List Nat) (j : Nat) (hj : j < (v0 :: t).length) :
    (((v0 :: t).zip (t ++ [v0])).getD j (0, 0)) = ((v0 :: t).getD j 0, (v0 :: t).getD ((j + 1) % (v0 :: t).length) 0) := by
  have hlen : ((v0 :: t).zip (t ++ [v0])).length = (v0 :: t).length := by simp
  rw [List.getD_eq_getElem?_getD, List.getElem?_eq_getElem (by rw [hlen]; exact hj), List.getElem_zip]
  simp only [Option.getD_some, List.length_cons] at hj ⊢
  congr 1
  · rw [List.getD_eq_getElem?_getD, List.getElem?_eq_getElem hj]; rfl
  · by_cases hlast : j + 1 < t.length + 1
    · rw [Nat.mod_eq_of_lt hlast]
      rw [List.getElem_append_left (by omega)]
      rw [List.getD_eq_getElem?_getD, List.getElem?_eq_getElem (by simp; omega)]
      simp
    · have : j = t.length := by omega
      subst this
      simp

/-- **`add_face(v0 … v_{n-1})`** (vertices in range): one face is appended; its halfedges run v0→v1→…→v0, each
    on a live edge; everything older is untouched; the cache invariant and the uniqueness of edges are kept -/
theorem addFaceV_spec {k : Kernel} (hw : WF k) (v0 : Nat) (t : List Nat) (hv : ∀ v ∈ v0 :: t, v < k.nV) (U : List Nat)
    (hu : UniqEdges k U) :
    (k.addFaceV (v0 :: t)).2 = some k.nF ∧ Ext k (k.addFaceV (v0 :: t)).1 ∧ WF (k.addFaceV (v0 :: t)).1 ∧
    UniqEdges (k.addFaceV (v0 :: t)).1 U ∧ (k.addFaceV (v0 :: t)).1.nF = k.nF + 1 ∧
    (k.addFaceV (v0 :: t)).1.fDeleted k.nF = false ∧
    ((k.addFaceV (v0 :: t)).1.faceAt k.nF).length = (v0 :: t).length ∧
    ∀ j, j < (v0 :: t).length → Runs (k.addFaceV (v0 :: t)).1 (((k.addFaceV (v0 :: t)).1.faceAt k.nF).getD j 0)
      ((v0 :: t).getD j 0) ((v0 :: t).getD ((j + 1) % (v0 :: t).length) 0) := by
  rw [addFaceV_eq]
  have hpairs : ∀ p ∈ (v0 :: t).zip (t ++ [v0]), p.1 < k.nV ∧ p.2 < k.nV := by
    intro p hp
    have h1 := (List.of_mem_zip hp).1
    have h2 := (List.of_mem_zip hp).2
    refine ⟨hv _ h1, ?_⟩
    rcases List.mem_append.mp h2 with h | h
    · exact hv _ (List.mem_cons_of_mem _ h)
    · simp at h; rw [h]; exact hv _ (List.mem_cons_self ..)
  obtain ⟨a1, a2, a3, a4, a5, a6, a7⟩ := faceV_fold_spec U ((v0 :: t).zip (t ++ [v0])) [] (k, []) hw hpairs hu rfl
    (fun j hj => by simp at hj)
  simp only [List.nil_append] at a4 a5
  have hlen : ((v0 :: t).zip (t ++ [v0])).length = (v0 :: t).length := by simp
  have hz := zip_rot_getD v0 t
  generalize (v0 :: t).zip (t ++ [v0]) = pairs at a1 a2 a3 a4 a5 a6 a7 hlen hz
  generalize pairs.foldl faceVStep (k, []) = st at a1 a2 a3 a4 a5 a6 a7
  have a6' : st.1.faces = k.faces := a6
  have a7' : st.1.fDel = k.fDel := a7
  have hacc : st.1.addFaceAccepts st.2 false = true := by unfold addFaceAccepts; simp
  have x2 := ext_addFace (k := st.1) st.2
  have hnF : st.1.nF = k.nF := by unfold nF; rw [a6']
  have hin : ∀ h ∈ st.2, h < st.1.nHE := by
    intro h hm
    obtain ⟨j, hj, rfl⟩ := List.getElem_of_mem hm
    have := (a5 j (by rw [← a4]; exact hj)).1
    rwa [List.getD_eq_getElem?_getD, List.getElem?_eq_getElem hj] at this
  have hw3 := wf_addFace st.1 st.2 false hin a2
  have hu3 : UniqEdges (st.1.addFace st.2 false).1 U := by
    intro i j a b ha hb hi hj
    have x := x2
    have hlt : ∀ i', Joins (st.1.addFace st.2 false).1 a b i' → i' < st.1.nE := by
      intro i' h'
      have := joins_lt h'
      unfold nE at *
      have he : (st.1.addFace st.2 false).1.edges = st.1.edges := by unfold addFace; rw [if_pos hacc]; simp
      rwa [he] at this
    exact a3 i j a b ha hb (joins_of_ext x (hlt i hi) hi) (joins_of_ext x (hlt j hj) hj)
  have hfaces : (st.1.addFace st.2 false).1.faces = k.faces ++ [st.2] := by
    unfold addFace; rw [if_pos hacc, addFaceCore_faces, a6']
  have hfDel : (st.1.addFace st.2 false).1.fDel = k.fDel ++ [false] := by
    unfold addFace; rw [if_pos hacc, addFaceCore_fDel, a7']
  have hfa : (st.1.addFace st.2 false).1.faceAt k.nF = st.2 := by
    unfold Kernel.faceAt nF; rw [hfaces]; exact getD_snoc_eq _ _ _
  refine ⟨?_, a1.trans x2, hw3, hu3, ?_, ?_, ?_, ?_⟩
  · unfold addFace; rw [if_pos hacc, hnF]
  · unfold nF; rw [hfaces]; simp
  · unfold Kernel.fDeleted; rw [hfDel, getD_snoc_false]
    exact getD_of_ge _ _ _ (by rw [hw.len.fDel]; exact Nat.le_refl _)
  · rw [hfa, a4, hlen]
  · intro j hj
    rw [hfa]
    have := x2.runs (a5 j (by rw [hlen]; exact hj))
    rw [hz j hj] at this
    exact this

end HexAll
end Kernel
end OVM

import OVM.Hex.ShapeAll
/-
  C16, item 2: the stored convention `HexConv` of every LIVE cell is an invariant of the deleting /
  swapping / collecting / mode-switching operations in every deletion mode.

  * `conv_transport`: the decidable convention predicate of OVM/Hex/Spec.lean (`hexConvListB`: six
    halffaces, opposite pairs vertex-disjoint, the walk 2,4,3,5 around the first halfface) is stated
    through the halfedge lists of the six halffaces and the source vertices of those halfedges only; it is
    therefore invariant under a consistent renaming `CellMap` (halffaces by `ρ`, halfedges by `σ` commuting
    with `opp`, vertices by `τ`, `σ` and `τ` injective on the handles the cell uses).
  * `stable_convAll`: each atomic definition change of OVM/Hex/Stable.lean is such a renaming for every
    live cell: `swap_*_indices` (transpositions `relabelHalf` / `relabelId`), the erase stages (`corr2`,
    `corr1`, injective off the erased slot, which no surviving definition uses), slot erasure / exchange of
    cells (list unchanged).  With `HexAll.stable_step`: all deletion modes, `collect_garbage`.
  Proof-only file.
-/
namespace OVM
namespace Kernel
namespace HexAll
open Global ScanDel OVM.Gen.HexTables

/-- every live cell is stored in the x-front … z-back convention -/
def ConvAll (k : Kernel) : Prop := ∀ c, k.liveC c = true → k.hexConvB c = true

/-! ### list helpers -/

theorem contains_map_inj (l : List Nat) (σ : Nat → Nat) (z : Nat) (h : ∀ b ∈ l, σ b = σ z → b = z) :
    (l.map σ).contains (σ z) = l.contains z := by
  induction l with
  | nil => rfl
  | cons a t ih =>
    simp only [List.map_cons, List.contains_cons]
    rw [ih (fun b hb => h b (List.mem_cons_of_mem _ hb))]
    have hb : (σ z == σ a) = (z == a) := by
      by_cases e : z = a
      · subst e; simp
      · have : ¬ σ z = σ a := fun e' => e (h a (List.mem_cons_self ..) e'.symm).symm
        rw [beq_eq_false_iff_ne.mpr this, beq_eq_false_iff_ne.mpr e]
    rw [hb]

theorem disjointL_map (A B : List Nat) (τ : Nat → Nat) (h : ∀ u ∈ A, ∀ v ∈ B, τ v = τ u → v = u) :
    disjointL (A.map τ) (B.map τ) = disjointL A B := by
  unfold disjointL
  induction A with
  | nil => rfl
  | cons a t ih =>
    simp only [List.map_cons, List.all_cons]
    rw [ih (fun u hu => h u (List.mem_cons_of_mem _ hu)), contains_map_inj B τ a (fun v hv => h a (List.mem_cons_self ..) v hv)]

theorem all_range_congr (n : Nat) (f g : Nat → Bool) (h : ∀ i, i < n → f i = g i) :
    (List.range n).all f = (List.range n).all g := by
  rw [Bool.eq_iff_iff]
  simp only [List.all_eq_true, List.mem_range]
  exact ⟨fun H i hi => (h i hi) ▸ H i hi, fun H i hi => (h i hi).symm ▸ H i hi⟩

theorem any_range_congr (n : Nat) (f g : Nat → Bool) (h : ∀ i, i < n → f i = g i) :
    (List.range n).any f = (List.range n).any g := by
  rw [Bool.eq_iff_iff]
  simp only [List.any_eq_true, List.mem_range]
  exact ⟨fun ⟨i, hi, H⟩ => ⟨i, hi, (h i hi) ▸ H⟩, fun ⟨i, hi, H⟩ => ⟨i, hi, (h i hi).symm ▸ H⟩⟩

theorem getD_map_lt (l : List Nat) (ρ : Nat → Nat) (p : Nat) (hp : p < l.length) : (l.map ρ).getD p 0 = ρ (l.getD p 0) := by
  simp [List.getD_eq_getElem?_getD, List.getElem?_map, List.getElem?_eq_getElem hp]

theorem getD_mem_lt (l : List Nat) (p : Nat) (hp : p < l.length) : l.getD p 0 ∈ l := by
  rw [List.getD_eq_getElem?_getD, List.getElem?_eq_getElem hp]; exact List.getElem_mem _

/-! ### the renaming invariance of the convention predicate -/

/-- a consistent renaming of what a cell uses: halffaces by `ρ`, halfedges by `σ`, vertices by `τ` -/
structure CellMap (k k' : Kernel) (hfs : List Nat) (ρ σ τ : Nat → Nat) (R S : Nat → Prop) : Prop where
  hes : ∀ x ∈ hfs, k'.hfHes (ρ x) = (k.hfHes x).map σ
  vts : ∀ x ∈ hfs, ∀ a ∈ k.hfHes x, k'.fromV (σ a) = τ (k.fromV a)
  sopp : ∀ a, R a → σ (opp a) = opp (σ a)
  sinj : ∀ a b, R a → R b → σ a = σ b → a = b
  srel : ∀ x ∈ hfs, ∀ a ∈ k.hfHes x, R a ∧ R (opp a)
  tinj : ∀ u v, S u → S v → τ u = τ v → u = v
  trel : ∀ x ∈ hfs, ∀ a ∈ k.hfHes x, S (k.fromV a)

theorem CellMap.verts {k k' : Kernel} {hfs : List Nat} {ρ σ τ : Nat → Nat} {R S : Nat → Prop}
    (m : CellMap k k' hfs ρ σ τ R S) {x : Nat} (hx : x ∈ hfs) : k'.hfVerts (ρ x) = (k.hfVerts x).map τ := by
  unfold hfVerts
  rw [m.hes x hx, List.map_map, List.map_map]
  exact List.map_congr_left (fun a ha => m.vts x hx a ha)

theorem CellMap.disj {k k' : Kernel} {hfs : List Nat} {ρ σ τ : Nat → Nat} {R S : Nat → Prop}
    (m : CellMap k k' hfs ρ σ τ R S) {x y : Nat} (hx : x ∈ hfs) (hy : y ∈ hfs) :
    disjointL (k'.hfVerts (ρ x)) (k'.hfVerts (ρ y)) = disjointL (k.hfVerts x) (k.hfVerts y) := by
  rw [m.verts hx, m.verts hy]
  apply disjointL_map
  intro u hu v hv e
  unfold hfVerts at hu hv
  obtain ⟨a, ha, rfl⟩ := List.mem_map.mp hu
  obtain ⟨b, hb, rfl⟩ := List.mem_map.mp hv
  exact m.tinj _ _ (m.trel y hy b hb) (m.trel x hx a ha) e

theorem specOrderTop_lt : ∀ j, j < 4 → specOrderTop.getD j 0 < 6 := by decide

theorem CellMap.walk {k k' : Kernel} {hfs : List Nat} {ρ σ τ : Nat → Nat} {R S : Nat → Prop}
    (m : CellMap k k' hfs ρ σ τ R S) (hl : hfs.length = 6) :
    k'.hexWalkAtB (hfs.map ρ) 0 specOrderTop = k.hexWalkAtB hfs 0 specOrderTop := by
  unfold hexWalkAtB
  have h0m : hfs.getD 0 0 ∈ hfs := getD_mem_lt hfs 0 (by omega)
  rw [getD_map_lt hfs ρ 0 (by omega), m.hes _ h0m]
  simp only [List.length_map]
  by_cases h4 : (k.hfHes (hfs.getD 0 0)).length = 4
  · congr 1
    apply any_range_congr
    intro off _
    apply all_range_congr
    intro i hi
    have hp := specOrderTop_lt ((i + off) % 4) (Nat.mod_lt _ (by omega))
    have hym : hfs.getD (specOrderTop.getD ((i + off) % 4) 0) 0 ∈ hfs := getD_mem_lt hfs _ (by omega)
    rw [getD_map_lt hfs ρ _ (by omega), m.hes _ hym]
    have hei : ((k.hfHes (hfs.getD 0 0)).map σ).getD i 0 = σ ((k.hfHes (hfs.getD 0 0)).getD i 0) :=
      getD_map_lt _ σ i (by omega)
    have hem : (k.hfHes (hfs.getD 0 0)).getD i 0 ∈ k.hfHes (hfs.getD 0 0) := getD_mem_lt _ i (by omega)
    have hR := m.srel _ h0m _ hem
    rw [hei, ← m.sopp _ hR.1]
    exact contains_map_inj _ σ _ (fun b hb e => m.sinj _ _ (m.srel _ hym b hb).1 hR.2 e)
  · have : ((k.hfHes (hfs.getD 0 0)).length == 4) = false := by simpa using h4
    rw [this]; rfl

/-- **the convention predicate is invariant under a consistent renaming** -/
theorem conv_transport {k k' : Kernel} {hfs : List Nat} {ρ σ τ : Nat → Nat} {R S : Nat → Prop}
    (m : CellMap k k' hfs ρ σ τ R S) : k'.hexConvListB (hfs.map ρ) = k.hexConvListB hfs := by
  unfold hexConvListB
  rw [List.length_map]
  by_cases hl : hfs.length = 6
  · unfold hexWalkB
    rw [m.walk hl]
    congr 1
    congr 1
    match hfs, hl, m with
    | [h0, h1, h2, h3, h4, h5], _, m =>
      have e1 : k'.hexOppDisjointB ([h0, h1, h2, h3, h4, h5].map ρ) =
          (disjointL (k'.hfVerts (ρ h0)) (k'.hfVerts (ρ h1)) && (disjointL (k'.hfVerts (ρ h2)) (k'.hfVerts (ρ h3)) &&
            (disjointL (k'.hfVerts (ρ h4)) (k'.hfVerts (ρ h5)) && true))) := rfl
      have e2 : k.hexOppDisjointB [h0, h1, h2, h3, h4, h5] =
          (disjointL (k.hfVerts h0) (k.hfVerts h1) && (disjointL (k.hfVerts h2) (k.hfVerts h3) &&
            (disjointL (k.hfVerts h4) (k.hfVerts h5) && true))) := rfl
      rw [e1, e2, m.disj (by simp) (by simp), m.disj (x := h2) (y := h3) (by simp) (by simp),
        m.disj (x := h4) (y := h5) (by simp) (by simp)]
  · have : (hfs.length == 6) = false := by simpa using hl
    rw [this]; rfl

theorem disjointL_symm (a b : List Nat) : disjointL a b = disjointL b a := by
  unfold disjointL
  rw [Bool.eq_iff_iff]
  simp only [List.all_eq_true, Bool.not_eq_true', List.contains_eq_mem, decide_eq_false_iff_not]
  exact ⟨fun h x hx hxa => h x hxa hx, fun h x hx hxb => h x hxb hx⟩

/-- the guard of 7800c85 (`Kernel.oppPairsDisjoint`, written from the C++) is the first clause of `HexConv` -/
theorem oppPairs_eq (k : Kernel) (l : List Nat) : k.oppPairsDisjoint l = k.hexOppDisjointB l := by
  unfold oppPairsDisjoint hexOppDisjointB
  have : ∀ a, (((k.hfHes (l.getD (2 * a + 1) 0)).map k.fromV).all (fun v => !((k.hfHes (l.getD (2 * a) 0)).map k.fromV).contains v)) =
      disjointL (k.hfVerts (l.getD (2 * a) 0)) (k.hfVerts (l.getD (2 * a + 1) 0)) := by
    intro a; rw [disjointL_symm]; rfl
  simp only [this]

/-- the special case "same faces and edges" -/
theorem conv_congr {k k' : Kernel} (he : k'.edges = k.edges) (hf : k'.faces = k.faces) (hfs : List Nat) :
    k'.hexConvListB hfs = k.hexConvListB hfs := by
  have hh : ∀ x, k'.hfHes x = k.hfHes x := hfHes_congr k k' hf
  have hv : ∀ a, k'.fromV a = k.fromV a := by intro a; unfold fromV halfedge edgeAt; rw [he]
  have m : CellMap k k' hfs id id id (fun _ => True) (fun _ => True) :=
    ⟨fun x _ => by simp [hh], fun x _ a _ => hv a, fun _ _ => rfl, fun _ _ _ _ e => e, fun _ _ _ _ => ⟨trivial, trivial⟩,
     fun _ _ _ _ e => e, fun _ _ _ _ => trivial⟩
  have := conv_transport m
  simpa using this

/-! ### handle arithmetic of the erase renumberings -/

theorem side_corr2 (h x : Nat) : side (corr2 (2 * h + 1) x) = side x := by unfold side corr2; split <;> omega

theorem corr2_opp (h a : Nat) : corr2 (2 * h + 1) (opp a) = opp (corr2 (2 * h + 1) a) := by
  unfold opp
  have e1 := xor_one_eq a
  by_cases hgt : a > 2 * h + 1
  · have h2 : a ^^^ 1 > 2 * h + 1 := by rw [e1]; split <;> omega
    unfold corr2; rw [if_pos hgt, if_pos h2, xor_one_eq (a - 2), e1]; split <;> split <;> omega
  · have h2 : ¬ a ^^^ 1 > 2 * h + 1 := by rw [e1]; split <;> omega
    unfold corr2; rw [if_neg hgt, if_neg h2]

theorem oppFace_map (σ : Nat → Nat) (hσ : ∀ a, σ (opp a) = opp (σ a)) (l : List Nat) :
    oppFace (l.map σ) = (oppFace l).map σ := by
  unfold oppFace
  rw [← List.map_reverse, List.map_map, List.map_map]
  exact List.map_congr_left (fun a _ => (hσ a).symm)

theorem eOf_opp (a : Nat) : eOf (opp a) = eOf a := by unfold eOf opp; exact xor_one_div a

/-- the halfedges of a halfface are halfedges (or opposites of halfedges) of its stored face -/
theorem hfHes_face (k : Kernel) (x a : Nat) (ha : a ∈ k.hfHes x) : a ∈ k.faceAt (eOf x) ∨ opp a ∈ k.faceAt (eOf x) := by
  unfold hfHes at ha
  split at ha
  · exact Or.inl ha
  · exact Or.inr ((k3_mem_oppFace _ _).mp ha)

theorem faceAt_mem_or_nil (k : Kernel) (f : Nat) : k.faceAt f ∈ k.faces ∨ k.faceAt f = [] := by
  rcases Nat.lt_or_ge f k.nF with h | h
  · exact Or.inl (faceAt_mem_faces h)
  · right; unfold faceAt; exact getD_of_ge _ _ _ h

theorem hfHes_unrefE {k : Kernel} {h : Nat} (hun : UnrefE k h) (x a : Nat) (ha : a ∈ k.hfHes x) : eOf a ≠ h := by
  rcases faceAt_mem_or_nil k (eOf x) with hm | hm
  · rcases hfHes_face k x a ha with h1 | h1
    · exact hun _ hm a h1
    · have := hun _ hm _ h1; rwa [eOf_opp] at this
  · rcases hfHes_face k x a ha with h1 | h1 <;> (rw [hm] at h1; cases h1)

/-- in a well-formed state the halfedges of an in-range halfface are in range -/
theorem hfHes_lt {k : Kernel} (hw : WF k) (x a : Nat) (ha : a ∈ k.hfHes x) : a < k.nHE := by
  rcases faceAt_mem_or_nil k (eOf x) with hm | hm
  · rcases hfHes_face k x a ha with h1 | h1
    · exact hw.range.faces _ hm a h1
    · have := hw.range.faces _ hm _ h1
      have e := eOf_opp a
      unfold eOf nHE at *; omega
  · rcases hfHes_face k x a ha with h1 | h1 <;> (rw [hm] at h1; cases h1)

theorem liveC_of_cells {k k' : Kernel} (hl : k'.cells.length = k.cells.length) (hd : k'.cDel = k.cDel) (c : Nat) :
    k'.liveC c = k.liveC c := by unfold liveC nC cDeleted; rw [hl, hd]

theorem halfedge_of_edgeAt {k k' : Kernel} {a b : Nat} (he : k'.edgeAt (eOf b) = k.edgeAt (eOf a)) (hs : side b = side a) :
    k'.halfedge b = k.halfedge a := by unfold halfedge; rw [he, hs]

/-! ### `ConvAll` survives the atomic definition changes -/

/-- a Boolean property of a cell (state, halfface list) that is invariant under consistent renamings -/
structure CellPred (P : Kernel → List Nat → Bool) : Prop where
  transport : ∀ {k k' : Kernel} {hfs : List Nat} {ρ σ τ : Nat → Nat} {R S : Nat → Prop},
    CellMap k k' hfs ρ σ τ R S → P k' (hfs.map ρ) = P k hfs

theorem CellPred.congr {P : Kernel → List Nat → Bool} (hP : CellPred P) {k k' : Kernel} (he : k'.edges = k.edges)
    (hf : k'.faces = k.faces) (hfs : List Nat) : P k' hfs = P k hfs := by
  have hh : ∀ x, k'.hfHes x = k.hfHes x := hfHes_congr k k' hf
  have hv : ∀ a, k'.fromV a = k.fromV a := by intro a; unfold fromV halfedge edgeAt; rw [he]
  have m : CellMap k k' hfs id id id (fun _ => True) (fun _ => True) :=
    ⟨fun x _ => by simp [hh], fun x _ a _ => hv a, fun _ _ => rfl, fun _ _ _ _ e => e, fun _ _ _ _ => ⟨trivial, trivial⟩,
     fun _ _ _ _ e => e, fun _ _ _ _ => trivial⟩
  have := hP.transport m
  simpa using this

/-- every live cell has the property -/
def AllCells (P : Kernel → List Nat → Bool) (k : Kernel) : Prop := ∀ c, k.liveC c = true → P k (k.cellAt c) = true

theorem convPred : CellPred (fun k l => k.hexConvListB l) := ⟨fun m => conv_transport m⟩

theorem allCells_mono {P : Kernel → List Nat → Bool} (hP : CellPred P) {k k' : Kernel} (he : k'.edges = k.edges) (hf : k'.faces = k.faces) (hc : k'.cells = k.cells)
    (hd : ∀ x, k.cDeleted x = true → k'.cDeleted x = true) (hq : AllCells P k) : AllCells P k' := by
  intro c hl
  have hl0 : k.liveC c = true := by
    unfold liveC nC at *
    rw [hc] at hl
    simp only [Bool.and_eq_true, decide_eq_true_eq, Bool.not_eq_true'] at hl ⊢
    refine ⟨hl.1, ?_⟩
    cases hx : k.cDeleted c with
    | false => rfl
    | true => rw [hd c hx] at hl; exact absurd hl.2 (by simp)
  unfold Kernel.cellAt
  rw [hc, hP.congr he hf]
  exact hq c hl0

theorem stable_allCells {P : Kernel → List Nat → Bool} (hP : CellPred P) : Stable (AllCells P) where
  mono := fun _ he hf hc _ _ _ hd hq => allCells_mono hP he hf hc hd hq
  eraseC := by
    intro k k' h hw hh _ he hf hc _ _ _ hcd hq c hl
    have hl0 : k.liveC (up h c) = true := by
      unfold liveC nC cDeleted at *
      rw [hc, hcd, getD_eraseIdx, List.length_eraseIdx, if_pos hh] at hl
      simp only [Bool.and_eq_true, decide_eq_true_eq] at hl ⊢
      exact ⟨(up_lt h c _ hh).mpr hl.1, hl.2⟩
    have hca : k'.cellAt c = k.cellAt (up h c) := by unfold cellAt; rw [hc, getD_eraseIdx]
    rw [hca, hP.congr he hf]
    exact hq _ hl0
  eraseF := by
    intro k k' h hw hh hun _ he hf hc _ _ _ hcd hq c hl
    have hl0 : k.liveC c = true := by rw [← liveC_of_cells (by rw [hc, List.length_map]) hcd]; exact hl
    have hca : k'.cellAt c = (k.cellAt c).map (corr2 (2 * h + 1)) := by unfold cellAt; rw [hc]; exact k4_getD_map_list _ _ _
    have hv : ∀ a, k'.fromV a = k.fromV a := by intro a; unfold fromV halfedge edgeAt; rw [he]
    have hunc : ∀ x ∈ k.cellAt c, eOf x ≠ h := fun x hx => hun _ (cellAt_mem_cells (liveC_lt hl0)) x hx
    have m : CellMap k k' (k.cellAt c) (corr2 (2 * h + 1)) id id (fun _ => True) (fun _ => True) := by
      refine ⟨?_, fun x _ a _ => hv a, fun _ _ => rfl, fun _ _ _ _ e => e, fun _ _ _ _ => ⟨trivial, trivial⟩,
        fun _ _ _ _ e => e, fun _ _ _ _ => trivial⟩
      intro x hx
      have hne := hunc x hx
      rw [List.map_id]
      unfold hfHes faceAt
      rw [hf, getD_eraseIdx, eOf_corr2 h x hne, up_corr1 h _ hne, side_corr2]
    rw [hca, hP.transport m]
    exact hq c hl0
  eraseE := by
    intro k k' h hw hh hun _ he hf hc _ _ _ hcd hq c hl
    have hl0 : k.liveC c = true := by rw [← liveC_of_cells (by rw [hc]) hcd]; exact hl
    have hca : k'.cellAt c = (k.cellAt c).map id := by unfold cellAt; rw [hc, List.map_id]
    have m : CellMap k k' (k.cellAt c) id (corr2 (2 * h + 1)) id (fun a => eOf a ≠ h) (fun _ => True) := by
      refine ⟨?_, ?_, fun a _ => corr2_opp h a, ?_, ?_, fun _ _ _ _ e => e, fun _ _ _ _ => trivial⟩
      · intro x _
        have hfa : k'.faceAt (eOf x) = (k.faceAt (eOf x)).map (corr2 (2 * h + 1)) := by
          unfold faceAt; rw [hf]; exact k4_getD_map_list _ _ _
        show k'.hfHes x = _
        unfold hfHes
        rw [hfa]
        split
        · rfl
        · exact oppFace_map _ (corr2_opp h) _
      · intro x _ a ha
        have hne := hfHes_unrefE hun x a ha
        show k'.fromV (corr2 (2 * h + 1) a) = k.fromV a
        unfold fromV
        rw [halfedge_of_edgeAt (k := k) (k' := k') (a := a) (b := corr2 (2 * h + 1) a) ?_ (side_corr2 h a)]
        unfold edgeAt
        rw [he, getD_eraseIdx, eOf_corr2 h a hne, up_corr1 h _ hne]
      · intro a b ha hb e
        have := congrArg (up2 h) e
        rwa [up2_corr2 h a ha, up2_corr2 h b hb] at this
      · intro x _ a ha
        have := hfHes_unrefE hun x a ha
        exact ⟨this, by rw [eOf_opp]; exact this⟩
    rw [hca, hP.transport m]
    exact hq c hl0
  eraseV := by
    intro k k' h hw hh hun _ he hf hc _ _ _ hcd hq c hl
    have hl0 : k.liveC c = true := by rw [← liveC_of_cells (by rw [hc]) hcd]; exact hl
    have hca : k'.cellAt c = (k.cellAt c).map id := by unfold cellAt; rw [hc, List.map_id]
    have hfv : ∀ a, k'.fromV a = corr1 h (k.fromV a) := by
      intro a
      have hea : k'.edgeAt (eOf a) = (corr1 h (k.edgeAt (eOf a)).1, corr1 h (k.edgeAt (eOf a)).2) := by
        unfold edgeAt
        rw [he]
        simp only [List.getD_eq_getElem?_getD, List.getElem?_map]
        cases k.edges[eOf a]? with
        | none => simp [corr1]
        | some p => rfl
      unfold fromV halfedge
      rw [hea]
      split <;> rfl
    have m : CellMap k k' (k.cellAt c) id id (corr1 h) (fun _ => True) (fun v => v ≠ h) := by
      refine ⟨?_, fun x _ a _ => hfv a, fun _ _ => rfl, fun _ _ _ _ e => e, fun _ _ _ _ => ⟨trivial, trivial⟩, ?_, ?_⟩
      · intro x _
        show k'.hfHes x = _
        rw [List.map_id]; exact hfHes_congr k k' hf x
      · intro u v hu hv e
        have := congrArg (up h) e
        rwa [up_corr1 h u hu, up_corr1 h v hv] at this
      · intro x _ a ha
        have hlt := hfHes_lt hw x a ha
        have hm : k.edgeAt (eOf a) ∈ k.edges := k4_edgeAt_mem (by unfold eOf nHE nE at *; omega)
        have := hun _ hm
        unfold fromV halfedge
        split
        · exact this.1
        · exact this.2
    rw [hca, hP.transport m]
    exact hq c hl0
  swapC := by
    intro k a b hw _ _ ha hb hq c hl
    by_cases hab : a = b
    · subst hab; rw [Global.swapCell_self] at hl ⊢; exact hq c hl
    · rw [swapCell_liveC hab ha hb hw.len.cDel] at hl
      rw [swapCell_cellAt hab ha hb, hP.congr (swapCell_edges (k := k) (a := a) (b := b)) (swapCell_faces (k := k) (a := a) (b := b))]
      exact hq _ hl
  swapF := by
    intro k a b hw h1 _ ha hb hq c hl
    by_cases hab : a = b
    · subst hab; rw [Global.swapFace_self] at hl ⊢; exact hq c hl
    · have hl0 : k.liveC c = true := by
        rw [← liveC_of_cells (swapFace_cells_length k a b) (swapFace_cDel k a b)]; exact hl
      have hca := swapFace_cellAt_live hab ha hb hw.cache.f (fun _ => h1) (c := c) (fun _ => hl0)
      have hv : ∀ x, (k.swapFace a b).fromV x = k.fromV x := by
        intro x; unfold fromV halfedge edgeAt; rw [swapFace_edges]
      have m : CellMap k (k.swapFace a b) (k.cellAt c) (relabelHalf a b) id id (fun _ => True) (fun _ => True) := by
        refine ⟨?_, fun x _ y _ => hv y, fun _ _ => rfl, fun _ _ _ _ e => e, fun _ _ _ _ => ⟨trivial, trivial⟩,
          fun _ _ _ _ e => e, fun _ _ _ _ => trivial⟩
        intro x _
        rw [swapFace_hfHes hab ha hb, k3_relabelHalf_invol, List.map_id]
      rw [hca, hP.transport m]
      exact hq c hl0
  swapE := by
    intro k a b hw _ hcl ha hb hq c hl
    by_cases hab : a = b
    · subst hab; rw [Global.swapEdge_self] at hl ⊢; exact hq c hl
    · have hl0 : k.liveC c = true := by
        rw [← liveC_of_cells (by rw [swapEdge_cells]) (swapEdge_cDel k a b)]; exact hl
      have hca : (k.swapEdge a b).cellAt c = (k.cellAt c).map id := by unfold cellAt; rw [swapEdge_cells, List.map_id]
      have m : CellMap k (k.swapEdge a b) (k.cellAt c) id (relabelHalf a b) id (fun _ => True) (fun _ => True) := by
        refine ⟨?_, ?_, fun x _ => k3_relabelHalf_opp a b x, ?_, fun _ _ _ _ => ⟨trivial, trivial⟩,
          fun _ _ _ _ e => e, fun _ _ _ _ => trivial⟩
        · intro x hx
          show (k.swapEdge a b).hfHes x = _
          apply swapEdge_hfHes_live hab ha hb hw.cache.e
          intro _
          have hxl : x < k.nHF := hw.range.cells _ (cellAt_mem_cells (liveC_lt hl0)) x hx
          have := hcl.f c hl0 x hx
          unfold liveF; rw [this]
          simp; unfold eOf nHF nF at *; omega
        · intro x _ y _
          rw [swapEdge_fromV hab ha hb, k3_relabelHalf_invol]; rfl
        · intro x y _ _ e
          have := congrArg (relabelHalf a b) e
          rwa [k3_relabelHalf_invol, k3_relabelHalf_invol] at this
      rw [hca, hP.transport m]
      exact hq c hl0
  swapV := by
    intro k a b hw _ hcl ha hb hq c hl
    by_cases hab : a = b
    · subst hab; rw [Global.swapVertex_self] at hl ⊢; exact hq c hl
    · have hl0 : k.liveC c = true := by
        rw [← liveC_of_cells (by rw [swapVertex_cells]) (swapVertex_cDel (k := k) (a := a) (b := b))]; exact hl
      have hca : (k.swapVertex a b).cellAt c = (k.cellAt c).map id := by unfold cellAt; rw [swapVertex_cells, List.map_id]
      have m : CellMap k (k.swapVertex a b) (k.cellAt c) id id (relabelId a b) (fun _ => True) (fun _ => True) := by
        refine ⟨?_, ?_, fun _ _ => rfl, fun _ _ _ _ e => e, fun _ _ _ _ => ⟨trivial, trivial⟩, ?_, fun _ _ _ _ => trivial⟩
        · intro x _
          show (k.swapVertex a b).hfHes x = _
          rw [List.map_id]; exact hfHes_congr k _ (swapVertex_faces k a b) x
        · intro x hx y hy
          have hxl : x < k.nHF := hw.range.cells _ (cellAt_mem_cells (liveC_lt hl0)) x hx
          have hfl : k.liveF (eOf x) = true := by
            have := hcl.f c hl0 x hx
            unfold liveF; rw [this]; simp; unfold eOf nHF nF at *; omega
          have hylt := hfHes_lt hw x y hy
          have hyl : k.liveE (eOf y) = true := by
            have hd : k.eDeleted (eOf y) = false := by
              rcases hfHes_face k x y hy with h1 | h1
              · exact hcl.e _ hfl y h1
              · have := hcl.e _ hfl _ h1; rwa [eOf_opp] at this
            unfold liveE; rw [hd]; simp; unfold eOf nHE nE at *; omega
          have hea := swapVertex_edgeAt_live hab ha hb hw.cache.v (e := eOf y)
            (by have h9 := hylt; unfold nHE at h9; unfold eOf; omega) (fun _ => hyl)
          show (k.swapVertex a b).fromV y = relabelId a b (k.fromV y)
          unfold fromV halfedge
          rw [hea]
          unfold relabelEdgeV
          split <;> rfl
        · intro u v _ _ e
          have := congrArg (relabelId a b) e
          rwa [relabelId_invol, relabelId_invol] at this
      rw [hca, hP.transport m]
      exact hq c hl0

theorem stable_convAll : Stable ConvAll := stable_allCells convPred

/-! ### eight distinct vertices -/

theorem nodup_map_on' (f : Nat → Nat) : ∀ (l : List Nat), l.Nodup → (∀ a ∈ l, ∀ b ∈ l, f a = f b → a = b) → (l.map f).Nodup := by
  intro l
  induction l with
  | nil => intro _ _; simp
  | cons a t ih =>
    intro hn hinj
    have hc := List.nodup_cons.mp hn
    rw [List.map_cons, List.nodup_cons]
    refine ⟨?_, ih hc.2 (fun x hx y hy => hinj x (List.mem_cons_of_mem _ hx) y (List.mem_cons_of_mem _ hy))⟩
    intro hm
    obtain ⟨b, hb, e⟩ := List.mem_map.mp hm
    have := hinj b (List.mem_cons_of_mem _ hb) a (List.mem_cons_self ..) e
    rw [this] at hb; exact hc.1 hb

theorem toSet_length_map_on (τ : Nat → Nat) (l : List Nat) (hτ : ∀ a ∈ l, ∀ b ∈ l, τ a = τ b → a = b) :
    (toSet (l.map τ)).length = (toSet l).length := by
  have h1 : (toSet (l.map τ)).Perm ((toSet l).map τ) := by
    rw [List.perm_ext_iff_of_nodup (k4_toSet_nodup _) (nodup_map_on' τ _ (k4_toSet_nodup _)
      (fun a ha b hb => hτ a ((k4_mem_toSet a l).mp ha) b ((k4_mem_toSet b l).mp hb)))]
    intro a
    simp only [k4_mem_toSet, List.mem_map]
  rw [h1.length_eq, List.length_map]

/-- six halffaces with eight distinct vertices (`hexCellShapeB` on a list) -/
def shape8 (k : Kernel) (l : List Nat) : Bool := l.length == 6 && (toSet (l.flatMap k.hfVerts)).length == 8

theorem shapePred : CellPred shape8 := by
  constructor
  intro k k' hfs ρ σ τ R S m
  unfold shape8
  rw [List.length_map]
  congr 2
  have e : (hfs.map ρ).flatMap k'.hfVerts = (hfs.flatMap k.hfVerts).map τ := by
    have : ∀ l : List Nat, (∀ x ∈ l, x ∈ hfs) → (l.map ρ).flatMap k'.hfVerts = (l.flatMap k.hfVerts).map τ := by
      intro l
      induction l with
      | nil => intro _; rfl
      | cons a t ih =>
        intro hl
        simp only [List.map_cons, List.flatMap_cons, List.map_append]
        rw [m.verts (hl a (List.mem_cons_self ..)), ih (fun x hx => hl x (List.mem_cons_of_mem _ hx))]
    exact this hfs (fun x hx => hx)
  rw [e]
  apply toSet_length_map_on
  intro a ha b hb hab
  simp only [List.mem_flatMap, hfVerts, List.mem_map] at ha hb
  obtain ⟨x, hx, ea, hea, rfl⟩ := ha
  obtain ⟨y, hy, eb, heb, rfl⟩ := hb
  exact m.tinj _ _ (m.trel x hx ea hea) (m.trel y hy eb heb) hab

/-- every live cell has six halffaces and eight distinct vertices (the cell clause of `HexShape`) -/
def ShapeAll8 (k : Kernel) : Prop := ∀ c, k.liveC c = true → k.hexCellShapeB c = true

theorem stable_shapeAll8 : Stable ShapeAll8 := stable_allCells shapePred

/-! ### creating operations: the old cells keep their convention -/

/-- the predicate only reads the six halfface definitions and the sources of their halfedges -/
theorem pred_local {P : Kernel → List Nat → Bool} (hP : CellPred P) {k k' : Kernel} {hfs : List Nat} (hh : ∀ x ∈ hfs, k'.hfHes x = k.hfHes x)
    (hv : ∀ x ∈ hfs, ∀ a ∈ k.hfHes x, k'.fromV a = k.fromV a) : P k' hfs = P k hfs := by
  have m : CellMap k k' hfs id id id (fun _ => True) (fun _ => True) :=
    ⟨fun x hx => by simp [hh x hx], hv, fun _ _ => rfl, fun _ _ _ _ e => e, fun _ _ _ _ => ⟨trivial, trivial⟩,
     fun _ _ _ _ e => e, fun _ _ _ _ => trivial⟩
  have := hP.transport m
  simpa using this

/-- edges and faces are appended, cells untouched -/
structure Grow (k k' : Kernel) : Prop where
  edges : ∃ es, k'.edges = k.edges ++ es
  faces : ∃ fs, k'.faces = k.faces ++ fs
  cells : k'.cells = k.cells
  cDel : k'.cDel = k.cDel

theorem Grow.refl (k : Kernel) : Grow k k := ⟨⟨[], by simp⟩, ⟨[], by simp⟩, rfl, rfl⟩

theorem Grow.trans {k1 k2 k3 : Kernel} (a : Grow k1 k2) (b : Grow k2 k3) : Grow k1 k3 := by
  obtain ⟨e1, he1⟩ := a.edges
  obtain ⟨e2, he2⟩ := b.edges
  obtain ⟨f1, hf1⟩ := a.faces
  obtain ⟨f2, hf2⟩ := b.faces
  exact ⟨⟨e1 ++ e2, by rw [he2, he1, List.append_assoc]⟩, ⟨f1 ++ f2, by rw [hf2, hf1, List.append_assoc]⟩,
    b.cells.trans a.cells, b.cDel.trans a.cDel⟩

theorem getD_append_lt {α} (l m : List α) (i : Nat) (d : α) (h : i < l.length) : (l ++ m).getD i d = l.getD i d := by
  simp [List.getD_eq_getElem?_getD, List.getElem?_append_left h]

theorem allCells_grow {P : Kernel → List Nat → Bool} (hP : CellPred P) {k k' : Kernel} (hw : WF k) (g : Grow k k') (hq : AllCells P k) : AllCells P k' := by
  obtain ⟨es, he⟩ := g.edges
  obtain ⟨fs, hf⟩ := g.faces
  intro c hl
  have hl0 : k.liveC c = true := by rw [← liveC_of_cells (by rw [g.cells]) g.cDel]; exact hl
  have hca : k'.cellAt c = k.cellAt c := by unfold cellAt; rw [g.cells]
  rw [hca]
  have hhes : ∀ x ∈ k.cellAt c, k'.hfHes x = k.hfHes x := by
    intro x hx
    have hxl : x < k.nHF := hw.range.cells _ (cellAt_mem_cells (liveC_lt hl0)) x hx
    unfold hfHes faceAt
    rw [hf, getD_append_lt _ _ _ _ (by unfold eOf nHF at *; omega)]
  rw [pred_local hP hhes]
  · exact hq c hl0
  · intro x _ a ha
    have hal := hfHes_lt hw x a ha
    unfold fromV halfedge edgeAt
    rw [he, getD_append_lt _ _ _ _ (by unfold eOf nHE at *; omega)]

theorem grow_addEdge (k : Kernel) (a b : Nat) (d : Bool) : Grow k (k.addEdge a b d).1 := by
  unfold addEdge; split
  · exact Grow.refl k
  · exact ⟨⟨[(a, b)], by simp⟩, ⟨[], by simp⟩, by simp, by simp⟩

theorem grow_addFace (k : Kernel) (hes : List Nat) (chk : Bool) : Grow k (k.addFace hes chk).1 := by
  unfold addFace; split
  · exact ⟨⟨[], by simp⟩, ⟨[hes], by simp⟩, by simp, by simp⟩
  · exact Grow.refl k

theorem grow_addFaceV (k : Kernel) (vs : List Nat) : Grow k (k.addFaceV vs).1 := by
  unfold addFaceV
  cases vs with
  | nil => exact ⟨⟨[], by simp⟩, ⟨[], by simp⟩, rfl, rfl⟩
  | cons v0 t =>
    simp only []
    have key : ∀ (pairs : List (Nat × Nat)) (st : Kernel × List Nat),
        Grow st.1 (pairs.foldl (fun (st : Kernel × List Nat) (ab : Nat × Nat) =>
          ((st.1.addEdge ab.1 ab.2 false).1,
           st.2 ++ [heOf (st.1.addEdge ab.1 ab.2 false).2 (if ((st.1.addEdge ab.1 ab.2 false).1.edgeAt (st.1.addEdge ab.1 ab.2 false).2).2 == ab.1 then 1 else 0)])) st).1 := by
      intro pairs
      induction pairs with
      | nil => intro st; exact Grow.refl _
      | cons p t ih =>
        intro st
        simp only [List.foldl_cons]
        exact (grow_addEdge st.1 p.1 p.2 false).trans (ih ((st.1.addEdge p.1 p.2 false).1,
           st.2 ++ [heOf (st.1.addEdge p.1 p.2 false).2 (if ((st.1.addEdge p.1 p.2 false).1.edgeAt (st.1.addEdge p.1 p.2 false).2).2 == p.1 then 1 else 0)]))
    exact (key ((v0 :: t).zip ((v0 :: t).tail ++ [v0])) (k, [])).trans (grow_addFace _ _ _)

/-- a cell is appended: the old cells keep their convention, the new one is asked for -/
theorem allCells_addCell {P : Kernel → List Nat → Bool} (hP : CellPred P) {k : Kernel} (hw : WF k) (l : List Nat) (chk : Bool) (hq : AllCells P k)
    (hnew : (k.addCell l chk).2 = some k.nC → P k l = true) : AllCells P (k.addCell l chk).1 := by
  unfold addCell at hnew ⊢
  split
  · rename_i hacc
    simp only [hacc, if_true] at hnew
    intro c hl
    unfold liveC nC cDeleted at hl
    rw [addCellCore_cells, addCellCore_cDel] at hl
    simp only [Bool.and_eq_true, decide_eq_true_eq, List.length_append, List.length_cons, List.length_nil] at hl
    unfold Kernel.cellAt
    rw [addCellCore_cells, hP.congr (addCellCore_edges k l) (addCellCore_faces k l)]
    by_cases hc : c < k.nC
    · rw [getD_append_lt _ _ _ _ hc]
      apply hq c
      unfold liveC cDeleted
      have h2 := hl.2
      rw [getD_append_lt _ _ _ _ (by rw [hw.len.cDel]; exact hc)] at h2
      simp only [Bool.not_eq_true'] at h2
      rw [h2]; simp [hc]
    · have : c = k.cells.length := by unfold nC at hc; omega
      subst this
      simp only [List.getD_eq_getElem?_getD, List.getElem?_append_right (Nat.le_refl _), Nat.sub_self,
        List.getElem?_cons_zero, Option.getD_some]
      exact hnew trivial
  · exact hq

/-! ### one operation of the hex vocabulary, and histories -/

/-- what the convention invariant asks of a call besides `HexOpOK`: a created cell is in convention (for the
    checked `add_cell(halffaces)` and for `add_cell(8 vertices)` this is what the creation theorems of
    OVM/Props/C16.lean establish in the cases they cover; the UNCHECKED `add_cell(halffaces, false)` stores
    whatever it is given, so there it is the caller's obligation).  `set_edge / set_face / set_cell` overwrite
    definitions in place and are not covered (`False`). -/
def PredOpOK (P : Kernel → List Nat → Bool) (k : Kernel) : HexOp → Prop
  | .base (.setEdge _ _ _) => False
  | .base (.setFace _ _) => False
  | .base (.setCell _ _) => False
  | .base (.addCell chk hfs) => ∀ c, (k.hexAddCell hfs chk).2 = some c → P (k.hexAddCell hfs chk).1 ((k.hexAddCell hfs chk).1.cellAt c) = true
  | .addCellV chk vs => ∀ c, (k.hexAddCellV vs chk).2 = some c → P (k.hexAddCellV vs chk).1 ((k.hexAddCellV vs chk).1.cellAt c) = true
  | _ => True

theorem hexAddCell_cases (k : Kernel) (hfs : List Nat) (chk : Bool) :
    k.hexAddCell hfs chk = (k, none) ∨ ∃ l b, k.hexAddCell hfs chk = k.addCell l b := by
  unfold hexAddCell
  repeat' split
  all_goals first | exact Or.inl rfl | exact Or.inr ⟨_, _, rfl⟩

theorem addCell_pred_new {P : Kernel → List Nat → Bool} (hP : CellPred P) {k : Kernel} {l : List Nat} {b : Bool} (hs : (k.addCell l b).2 = some k.nC)
    (h : P (k.addCell l b).1 ((k.addCell l b).1.cellAt k.nC) = true) : P k l = true := by
  unfold addCell at hs h
  split at h
  · unfold Kernel.cellAt at h
    rw [addCellCore_cells, hP.congr (addCellCore_edges k l) (addCellCore_faces k l)] at h
    simpa [List.getD_eq_getElem?_getD, nC] using h
  · rename_i hn; simp [hn] at hs

theorem grow_cellVFold (vs : List Nat) (adds : List (Nat × List Nat × Nat)) (st : Kernel × List (Option Nat)) :
    Grow st.1 (adds.foldl (hexCellVStep vs) st).1 := by
  induction adds generalizing st with
  | nil => exact Grow.refl _
  | cons a t ih =>
    simp only [List.foldl_cons]
    refine Grow.trans ?_ (ih _)
    unfold hexCellVStep; split
    · exact Grow.refl _
    · exact grow_addFaceV _ _

theorem hexAddCellV_cases (k : Kernel) (vs : List Nat) (chk : Bool) :
    k.hexAddCellV vs chk = (k, none) ∨ (vs.length = 8 ∧
      (k.hexAddCellV vs chk = ({ (cellVAdd.foldl (hexCellVStep vs) (k, cellVFind.map (fun idxs => k.findHalffaceExtensive (hexPick vs idxs)))).1 with fault := true }, none) ∨
       k.hexAddCellV vs chk = ((cellVAdd.foldl (hexCellVStep vs) (k, cellVFind.map (fun idxs => k.findHalffaceExtensive (hexPick vs idxs)))).1, none) ∨
       ∃ hfs, k.hexAddCellV vs chk =
        (cellVAdd.foldl (hexCellVStep vs) (k, cellVFind.map (fun idxs => k.findHalffaceExtensive (hexPick vs idxs)))).1.addCell hfs false)) := by
  unfold hexAddCellV
  split
  · exact Or.inl rfl
  · split
    · exact Or.inl rfl
    · rename_i hl8
      refine Or.inr ⟨by simpa using hl8, ?_⟩
      simp only []
      generalize (cellVAdd.foldl (hexCellVStep vs) (k, cellVFind.map (fun idxs => k.findHalffaceExtensive (hexPick vs idxs)))) = st
      split
      · exact Or.inl rfl
      · right
        repeat' split
        all_goals first | exact Or.inl rfl | exact Or.inr ⟨_, rfl⟩

theorem allCells_hexAddCellV {P : Kernel → List Nat → Bool} (hP : CellPred P) {k : Kernel} {vs : List Nat} (chk : Bool) (hi : GInv k) (hok : HexOpOK k (.addCellV chk vs))
    (hc : PredOpOK P k (.addCellV chk vs)) (hq : AllCells P k) : AllCells P (k.hexAddCellV vs chk).1 := by
  have hc' : ∀ c, (k.hexAddCellV vs chk).2 = some c → P (k.hexAddCellV vs chk).1 ((k.hexAddCellV vs chk).1.cellAt c) = true := hc
  rcases hexAddCellV_cases k vs chk with e | ⟨hl, e⟩
  · rw [e]; exact hq
  · have hg := cellV_fold_ginv vs hl cellVAdd cellVAdd_idx
      (k, cellVFind.map (fun idxs => k.findHalffaceExtensive (hexPick vs idxs))) hok.1 hi
    have hgr := grow_cellVFold vs cellVAdd (k, cellVFind.map (fun idxs => k.findHalffaceExtensive (hexPick vs idxs)))
    generalize (cellVAdd.foldl (hexCellVStep vs) (k, cellVFind.map (fun idxs => k.findHalffaceExtensive (hexPick vs idxs)))) = st
      at hg hgr e
    have q1 : AllCells P st.1 := allCells_grow hP hi.wf hgr hq
    rcases e with e | e | ⟨hfs, e⟩
    · rw [e]; exact (stable_allCells hP).same (k := st.1) rfl rfl rfl rfl rfl rfl rfl rfl q1
    · rw [e]; exact q1
    · rw [e] at hc' ⊢
      exact allCells_addCell hP hg.1.wf hfs false q1 (fun hs => addCell_pred_new hP hs (hc' _ hs))

theorem allCells_hexStep {P : Kernel → List Nat → Bool} (hP : CellPred P) (k : Kernel) (op : HexOp) (hi : GInv k) (hok : HexOpOK k op) (hc : PredOpOK P k op)
    (hq : AllCells P k) : AllCells P (hexStep k op) := by
  cases op with
  | addCellV chk vs => exact allCells_hexAddCellV hP chk hi hok hc hq
  | base op =>
    cases op with
    | addVertex =>
      show AllCells P (k.addVertex).1
      exact allCells_grow hP hi.wf ⟨⟨[], by simp [addVertex]⟩, ⟨[], by simp [addVertex]⟩, rfl, rfl⟩ hq
    | addNVertices n =>
      show AllCells P (k.addNVertices n)
      exact allCells_grow hP hi.wf ⟨⟨[], by simp [addNVertices]⟩, ⟨[], by simp [addNVertices]⟩, rfl, rfl⟩ hq
    | addEdge a b d =>
      show AllCells P (k.addEdge a b d).1
      exact allCells_grow hP hi.wf (grow_addEdge k a b d) hq
    | addFaceHe chk hes =>
      show AllCells P (k.hexAddFace hes chk).1
      unfold hexAddFace; split
      · exact hq
      · exact allCells_grow hP hi.wf (grow_addFace k hes chk) hq
    | addFaceV vs =>
      show AllCells P (k.hexAddFaceV vs).1
      unfold hexAddFaceV; split
      · exact hq
      · exact allCells_grow hP hi.wf (grow_addFaceV k vs) hq
    | addCell chk hfs =>
      show AllCells P (k.hexAddCell hfs chk).1
      have hc' : ∀ c, (k.hexAddCell hfs chk).2 = some c → P (k.hexAddCell hfs chk).1 ((k.hexAddCell hfs chk).1.cellAt c) = true := hc
      rcases hexAddCell_cases k hfs chk with e | ⟨l, b, e⟩
      · rw [e]; exact hq
      · rw [e] at hc' ⊢
        exact allCells_addCell hP hi.wf l b hq (fun hs => addCell_pred_new hP hs (hc' _ hs))
    | setEdge e a b => exact absurd hc (by simp [PredOpOK])
    | setFace f hes => exact absurd hc (by simp [PredOpOK])
    | setCell c hfs => exact absurd hc (by simp [PredOpOK])
    | clear p =>
      intro c hl
      have hl' : (k.clear p).liveC c = true := hl
      have : (k.clear p).liveC c = false := by unfold liveC nC clear; simp
      rw [this] at hl'; cases hl'
    | deleteVertex v => exact stable_step (stable_allCells hP) k _ trivial hi hok hq
    | deleteEdge v => exact stable_step (stable_allCells hP) k _ trivial hi hok hq
    | deleteFace v => exact stable_step (stable_allCells hP) k _ trivial hi hok hq
    | deleteCell v => exact stable_step (stable_allCells hP) k _ trivial hi hok hq
    | swapVertex a b => exact stable_step (stable_allCells hP) k _ trivial hi hok hq
    | swapEdge a b => exact stable_step (stable_allCells hP) k _ trivial hi hok hq
    | swapFace a b => exact stable_step (stable_allCells hP) k _ trivial hi hok hq
    | swapCell a b => exact stable_step (stable_allCells hP) k _ trivial hi hok hq
    | collectGarbage => exact stable_step (stable_allCells hP) k _ trivial hi hok hq
    | enableDeferred b => exact stable_step (stable_allCells hP) k _ trivial hi hok hq
    | enableFast b => exact stable_step (stable_allCells hP) k _ trivial hi hok hq
    | enableBU kind b => exact stable_step (stable_allCells hP) k _ trivial hi hok hq

def PredHistoryOK (P : Kernel → List Nat → Bool) : Kernel → List HexOp → Prop
  | _, [] => True
  | k, op :: t => (HexOpOK k op ∧ PredOpOK P k op) ∧ PredHistoryOK P (hexStep k op) t

/-- **history version**: every live cell stays in convention along every history of valid calls in which
    cells are created in convention — no restriction on the deletion mode or the bottom-up configuration -/
theorem pred_run {P : Kernel → List Nat → Bool} (hP : CellPred P) (ops : List HexOp) (k : Kernel) (hi : GInv k) (hq : AllCells P k) (hr : PredHistoryOK P k ops) :
    GInv (hexRun k ops) ∧ AllCells P (hexRun k ops) := by
  induction ops generalizing k with
  | nil => exact ⟨hi, hq⟩
  | cons op t ih =>
    simp only [hexRun, List.foldl_cons]
    exact ih _ (ginv_hexStep k op hi hr.1.1) (allCells_hexStep hP k op hi hr.1.1 hr.1.2 hq) hr.2

theorem pred_reachable {P : Kernel → List Nat → Bool} (hP : CellPred P) (ops : List HexOp) (hr : PredHistoryOK P {} ops) :
    GInv (hexRun {} ops) ∧ AllCells P (hexRun {} ops) :=
  pred_run hP ops {} ginv_empty (fun c hl => by unfold liveC nC at hl; simp at hl) hr

/-! ### the two instances: stored convention, eight distinct vertices -/

/-- what the convention invariant asks of a call besides `HexOpOK`: a created cell is in convention (for the
    checked `add_cell(halffaces)` and for `add_cell(8 vertices)` this is what the creation theorems of
    OVM/Props/C16.lean establish; the UNCHECKED `add_cell(halffaces, false)` stores whatever it is given, so there it
    is the caller's obligation).  `set_edge / set_face / set_cell` overwrite definitions in place and are not
    covered (`False`). -/
def ConvOpOK (k : Kernel) (op : HexOp) : Prop := PredOpOK (fun k l => k.hexConvListB l) k op

theorem convAll_hexStep (k : Kernel) (op : HexOp) (hi : GInv k) (hok : HexOpOK k op) (hc : ConvOpOK k op)
    (hq : ConvAll k) : ConvAll (hexStep k op) := allCells_hexStep convPred k op hi hok hc hq

def ConvHistoryOK (k : Kernel) (ops : List HexOp) : Prop := PredHistoryOK (fun k l => k.hexConvListB l) k ops

/-- **history version**: every live cell stays in convention along every history of valid calls in which
    cells are created in convention — no restriction on the deletion mode or the bottom-up configuration -/
theorem conv_run (ops : List HexOp) (k : Kernel) (hi : GInv k) (hq : ConvAll k) (hr : ConvHistoryOK k ops) :
    GInv (hexRun k ops) ∧ ConvAll (hexRun k ops) := pred_run convPred ops k hi hq hr

theorem conv_reachable (ops : List HexOp) (hr : ConvHistoryOK {} ops) :
    GInv (hexRun {} ops) ∧ ConvAll (hexRun {} ops) := pred_reachable convPred ops hr

/-- the same for "six halffaces, eight distinct vertices" -/
def ShapeOpOK (k : Kernel) (op : HexOp) : Prop := PredOpOK shape8 k op
def ShapeHistoryOK (k : Kernel) (ops : List HexOp) : Prop := PredHistoryOK shape8 k ops

theorem shape8_run (ops : List HexOp) (k : Kernel) (hi : GInv k) (hq : ShapeAll8 k) (hr : ShapeHistoryOK k ops) :
    GInv (hexRun k ops) ∧ ShapeAll8 (hexRun k ops) := pred_run shapePred ops k hi hq hr

/-! ### Boolean forms (for `decide` on concrete histories) -/

def convOpOKB (k : Kernel) : HexOp → Bool
  | .base (.setEdge _ _ _) => false
  | .base (.setFace _ _) => false
  | .base (.setCell _ _) => false
  | .base (.addCell chk hfs) =>
    match (k.hexAddCell hfs chk).2 with
    | some c => (k.hexAddCell hfs chk).1.hexConvB c
    | none => true
  | .addCellV chk vs =>
    match (k.hexAddCellV vs chk).2 with
    | some c => (k.hexAddCellV vs chk).1.hexConvB c
    | none => true
  | _ => true

theorem convOpOK_of_B (k : Kernel) (op : HexOp) (h : convOpOKB k op = true) : ConvOpOK k op := by
  cases op with
  | addCellV chk vs =>
    intro c hc
    simp only [convOpOKB, hc] at h; exact h
  | base op =>
    cases op with
    | addCell chk hfs =>
      intro c hc
      simp only [convOpOKB, hc] at h; exact h
    | setEdge e a b => simp [convOpOKB] at h
    | setFace f hes => simp [convOpOKB] at h
    | setCell c hfs => simp [convOpOKB] at h
    | _ => trivial

def convHistoryOKB : Kernel → List HexOp → Bool
  | _, [] => true
  | k, op :: t => hexOpOKB k op && convOpOKB k op && convHistoryOKB (hexStep k op) t

theorem convHistoryOK_of_B (k : Kernel) (ops : List HexOp) (h : convHistoryOKB k ops = true) : ConvHistoryOK k ops := by
  induction ops generalizing k with
  | nil => trivial
  | cons op t ih =>
    simp only [convHistoryOKB, Bool.and_eq_true] at h
    exact ⟨⟨hexOpOK_of_B k op h.1.1, convOpOK_of_B k op h.1.2⟩, ih _ h.2⟩

end HexAll
end Kernel
end OVM

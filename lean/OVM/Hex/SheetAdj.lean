import OVM.Hex.VerticesPattern
/-
  C16: a specification of `adjacent_halfface_on_sheet` (hh:286-324) and the proof that the model function meets it on
  `Frame` cells.  `SheetAdjSpec k hf he r`: `hf` lies in a cell `c`; `a` is the halfface of `c` on the other side of the
  halfedge `he` of `hf`; `opp a` lies in a cell `n`; `r` is the halfface of `n`, other than `opp a`, on the other side of
  that edge — the continuation of `hf` on the sheet through `he`.  On frames `a` and `r` are unique (a halfedge lies in
  one face of a frame only), so the specification determines the answer.
  * `Frame.sheet_adj` — first way of the C++: `hf` in a frame cell, the cell behind the side face a frame cell;
  * `Frame.sheet_adj_boundary` — second way: `hf` itself has no incident cell, `opp hf` lies in a frame cell; the
    answer is the opposite of the continuation of `opp hf` through `opp he`.
  Proof-only file.
-/
namespace OVM
namespace Kernel
namespace HexAll
open Global ScanDel OVM.Gen.HexTables

/-- the continuation of halfface `hf` on the sheet through its halfedge `he` -/
def SheetAdjSpec (k : Kernel) (hf he r : Nat) : Prop :=
  ∃ c n a, hf ∈ k.cellAt c ∧ he ∈ k.hfHes hf ∧ a ∈ k.cellAt c ∧ a ≠ hf ∧ opp he ∈ k.hfHes a ∧
    opp a ∈ k.cellAt n ∧ r ∈ k.cellAt n ∧ r ≠ opp a ∧ opp he ∈ k.hfHes r

variable {k : Kernel} {vs xs ws ys : List Nat} {rot rot' : Nat → Nat}

/-- the two steps inside the cells: across `he` inside the frame cell `c`, through the side face, across the same edge
    inside the frame cell `n` -/
theorem Frame.sheet_core (F : Frame k vs xs rot) (G : Frame k ws ys rot') {c n : Nat}
    (hcell : k.cellAt c = xs) (hof : ∀ i, i < 6 → k.cellOf (xs.getD i 0) = some c)
    (hcell' : k.cellAt n = ys) (hof' : ∀ i, i < 6 → k.cellOf (ys.getD i 0) = some n)
    {i j i' : Nat} (hi : i < 6) (hj : j < 4) (hi' : i' < 6)
    (hglue : opp (xs.getD (rev i ((j + rot i) % 4)).1 0) = ys.getD i' 0) :
    ∃ a r, k.adjHalffaceInCell (xs.getD i 0) ((k.hfHes (xs.getD i 0)).getD j 0) = some a ∧
      k.adjHalffaceInCell (opp a) ((k.hfHes (xs.getD i 0)).getD j 0) = some r ∧
      SheetAdjSpec k (xs.getD i 0) ((k.hfHes (xs.getD i 0)).getD j 0) r ∧
      ∀ r', r' ∈ ys → opp ((k.hfHes (xs.getD i 0)).getD j 0) ∈ k.hfHes r' → r' = r := by
  have ht := tbl_rev i hi _ (Nat.mod_lt (j + rot i) (by omega : 0 < 4))
  have a1 := F.adj_at hcell hof hi hj
  have m1 := F.opp_mem hi hj
  have hmem := F.mem_at hi hj
  generalize (k.hfHes (xs.getD i 0)).getD j 0 = he at a1 m1 hmem ⊢
  have m2 : he ∈ k.hfHes (ys.getD i' 0) := by
    rw [← hglue]
    have := (Fan.mem_hfHes_opp k (xs.getD (rev i ((j + rot i) % 4)).1 0) (opp he)).mpr m1
    rwa [CellCheck.opp_opp] at this
  obtain ⟨j', hj', hje⟩ := G.pos_of_mem hi' m2
  have ht' := tbl_rev i' hi' _ (Nat.mod_lt (j' + rot' i') (by omega : 0 < 4))
  have a2 := G.adj_at hcell' hof' hi' hj'
  have m3 := G.opp_mem hi' hj'
  rw [← hje] at a2 m3
  refine ⟨_, ys.getD (rev i' ((j' + rot' i') % 4)).1 0, a1, by rw [hglue]; exact a2, ?_, ?_⟩
  · refine ⟨c, n, xs.getD (rev i ((j + rot i) % 4)).1 0, ?_, hmem, ?_, ?_, m1, ?_, ?_, ?_, m3⟩
    · rw [hcell]; exact getD_mem_lt xs i (by rw [F.xlen]; exact hi)
    · rw [hcell]; exact getD_mem_lt xs _ (by rw [F.xlen]; exact ht.1)
    · intro e; exact ht.2.2.1 (F.xs_inj ht.1 hi e)
    · rw [hcell', hglue]; exact getD_mem_lt ys i' (by rw [G.xlen]; exact hi')
    · rw [hcell']; exact getD_mem_lt ys _ (by rw [G.xlen]; exact ht'.1)
    · rw [hglue]; intro e; exact ht'.2.2.1 (G.xs_inj ht'.1 hi' e)
  · intro r' hr' hm
    obtain ⟨i'', hi'', rfl⟩ := G.idx_of_mem hr'
    rw [G.face_of_mem hi'' ht'.1 hm m3]

/-- **first way**: `hf = xs[i]` in the frame cell `c`, `he` its `j`-th halfedge, the cell behind the side face across
    `he` a frame cell `n`: the answer is the continuation `r` of `hf` through `he`, the only halfface of `n` that
    contains the opposite of `he` -/
theorem Frame.sheet_adj (F : Frame k vs xs rot) (G : Frame k ws ys rot') {c n : Nat} (hb : k.fBU = true)
    (hcell : k.cellAt c = xs) (hof : ∀ i, i < 6 → k.cellOf (xs.getD i 0) = some c)
    (hcell' : k.cellAt n = ys) (hof' : ∀ i, i < 6 → k.cellOf (ys.getD i 0) = some n)
    {i j i' : Nat} (hi : i < 6) (hj : j < 4) (hi' : i' < 6)
    (hglue : opp (xs.getD (rev i ((j + rot i) % 4)).1 0) = ys.getD i' 0) :
    ∃ r, k.adjacentHalffaceOnSheet (xs.getD i 0) ((k.hfHes (xs.getD i 0)).getD j 0) = some r ∧
      SheetAdjSpec k (xs.getD i 0) ((k.hfHes (xs.getD i 0)).getD j 0) r ∧
      ∀ r', r' ∈ ys → opp ((k.hfHes (xs.getD i 0)).getD j 0) ∈ k.hfHes r' → r' = r := by
  obtain ⟨a, r, a1, a2, hs, hun⟩ := F.sheet_core G hcell hof hcell' hof' hi hj hi' hglue
  refine ⟨r, ?_, hs, hun⟩
  unfold adjacentHalffaceOnSheet
  simp only [hb, Bool.not_true, Bool.false_eq_true, if_false, a1, a2]

/-- **second way**: the halfface `opp xs[i]` itself has no incident cell (it lies on the boundary); the C++ then walks
    from the other side: the answer for `(opp hf, opp he)` is the opposite of the continuation of `hf` through `he` -/
theorem Frame.sheet_adj_boundary (F : Frame k vs xs rot) (G : Frame k ws ys rot') {c n : Nat} (hb : k.fBU = true)
    (hcell : k.cellAt c = xs) (hof : ∀ i, i < 6 → k.cellOf (xs.getD i 0) = some c)
    (hcell' : k.cellAt n = ys) (hof' : ∀ i, i < 6 → k.cellOf (ys.getD i 0) = some n)
    {i j i' : Nat} (hi : i < 6) (hj : j < 4) (hi' : i' < 6)
    (hglue : opp (xs.getD (rev i ((j + rot i) % 4)).1 0) = ys.getD i' 0)
    (hnone : k.cellOf (opp (xs.getD i 0)) = none) :
    ∃ r, k.adjacentHalffaceOnSheet (opp (xs.getD i 0)) (opp ((k.hfHes (xs.getD i 0)).getD j 0)) = some (opp r) ∧
      SheetAdjSpec k (xs.getD i 0) ((k.hfHes (xs.getD i 0)).getD j 0) r ∧
      ∀ r', r' ∈ ys → opp ((k.hfHes (xs.getD i 0)).getD j 0) ∈ k.hfHes r' → r' = r := by
  obtain ⟨a, r, a1, a2, hs, hun⟩ := F.sheet_core G hcell hof hcell' hof' hi hj hi' hglue
  refine ⟨r, ?_, hs, hun⟩
  have h0 : ∀ he, k.adjHalffaceInCell (opp (xs.getD i 0)) he = none := by
    intro he; unfold adjHalffaceInCell; rw [hnone]
  unfold adjacentHalffaceOnSheet
  simp only [hb, Bool.not_true, Bool.false_eq_true, if_false, h0, CellCheck.opp_opp, a1, a2]

/-- on a reachable state with face incidences the cached incident cell of a halfface of a live cell is that cell -/
theorem cellOf_of_ginv {k : Kernel} (hg : GInv k) (hb : k.fBU = true) {c x : Nat} (hl : k.liveC c = true)
    (hm : x ∈ k.cellAt c) : k.cellOf x = some c := by
  have hmc := cellAt_mem_cells (liveC_lt hl)
  have hlt : x < k.nHF := hg.wf.range.cells _ hmc _ hm
  rw [(hg.wf.cache.f hb).2 _ hlt]
  exact sCellOf_of_mem hg.one hlt hl hm

end HexAll
end Kernel
end OVM

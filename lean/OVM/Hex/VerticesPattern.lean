import OVM.Hex.CheckedConv
import OVM.Refine.FanLemmas
import OVM.Refine.NextPrev
/-
  C16, item 3, part 3: `hex_vertices` of a cell built by `add_cell(8 vertices)` reports the documented cube
  pattern — symbolically.
  * `Frame k vs xs rot`: six halffaces `xs` that are loops through the vertex quadruples of the source tables
    (`cellVFind`) over eight distinct vertices `vs`, the opposite of every halfedge being the halfedge the tables give
    (from unique edges among `vs`, or from the closed surface); `rot i` = the rotation in which face `i` is stored.  All reasoning about WHICH vertex / face / position comes next is done on the index tables by `decide`
    (`tbl_*`); the frame lifts it to halfedges (`Frame.edge_at`, `Frame.opp_at`).
  * `Frame.closed`: the six faces form a closed surface (what `adjacent_halfface_in_cell` needs).
  Proof-only file.
-/
namespace OVM
namespace Kernel
namespace HexAll
open Global ScanDel OVM.Gen.HexTables

/-- vertex index at position `m` of the quadruple of face `i` -/
def II (i m : Nat) : Nat := (cellVFind.getD i []).getD (m % 4) 0

/-- the face and the position at which the reversed `m`-th edge of face `i` occurs -/
def rev (i m : Nat) : Nat × Nat :=
  (((List.range 6).flatMap (fun j => (List.range 4).map (fun m' => (j, m')))).find?
    (fun p => II p.1 p.2 == II i (m + 1) && II p.1 (p.2 + 1) == II i m)).getD (0, 0)

theorem tbl_lt : ∀ i, i < 6 → ∀ m, m < 4 → II i m < 8 ∧ II i m ≠ II i (m + 1) := by decide
theorem tbl_inj : ∀ i, i < 6 → ∀ m, m < 4 → ∀ m', m' < 4 → II i m = II i m' → m = m' := by decide
theorem tbl_rev : ∀ i, i < 6 → ∀ m, m < 4 → (rev i m).1 < 6 ∧ (rev i m).2 < 4 ∧ (rev i m).1 ≠ i ∧
    II (rev i m).1 (rev i m).2 = II i (m + 1) ∧ II (rev i m).1 ((rev i m).2 + 1) = II i m := by decide
def tblEdgeB : Bool :=
  (List.range 6).all fun i => (List.range 6).all fun j => (List.range 4).all fun m => (List.range 4).all fun m' =>
    !(II i m == II j m' && II i (m + 1) == II j (m' + 1)) || (i == j && m == m')
theorem tblEdgeB_true : tblEdgeB = true := by decide
theorem tbl_edge : ∀ i, i < 6 → ∀ j, j < 6 → ∀ m, m < 4 → ∀ m', m' < 4 →
    (II i m = II j m' ∧ II i (m + 1) = II j (m' + 1)) → i = j ∧ m = m' := by
  intro i hi j hj m hm m' hm' h
  have := tblEdgeB_true
  unfold tblEdgeB at this
  simp only [List.all_eq_true, List.mem_range] at this
  have := this i hi j hj m hm m' hm'
  simpa [h.1, h.2] using this

theorem II_mod (i m : Nat) : II i (m % 4) = II i m := by unfold II; rw [Nat.mod_mod]

/-- the vertex part of a frame: eight distinct vertices, six quads running through the quadruples of the tables -/
structure FrameCore (k : Kernel) (vs xs : List Nat) (rot : Nat → Nat) : Prop where
  vlen : vs.length = 8
  vnd : vs.Nodup
  xlen : xs.length = 6
  len : ∀ i, i < 6 → (k.hfHes (xs.getD i 0)).length = 4
  rlt : ∀ i, i < 6 → rot i < 4
  run : ∀ i, i < 6 → ∀ j, j < 4 → Runs k ((k.hfHes (xs.getD i 0)).getD j 0) (vs.getD (II i (j + rot i)) 0) (vs.getD (II i (j + rot i + 1)) 0)

/-- a frame: the vertex part, and the opposite of the halfedge at position `j` of face `i` IS the halfedge of the face
    and at the position that the tables give.  (Follows from `UniqEdges k vs` — `FrameCore.opp_of_uniq`, the route of
    `add_cell(8 vertices)` — or from the six faces forming a closed surface — `FrameCore.opp_of_closed`, the route of
    the checked `add_cell(halffaces)`; other edges of the mesh between the eight vertices do not matter.) -/
structure Frame (k : Kernel) (vs xs : List Nat) (rot : Nat → Nat) : Prop extends FrameCore k vs xs rot where
  oppf : ∀ i, i < 6 → ∀ j, j < 4 → opp ((k.hfHes (xs.getD i 0)).getD j 0) =
    (k.hfHes (xs.getD (rev i ((j + rot i) % 4)).1 0)).getD (((rev i ((j + rot i) % 4)).2 + 4 - rot (rev i ((j + rot i) % 4)).1) % 4) 0

variable {k : Kernel} {vs xs : List Nat} {rot : Nat → Nat}

theorem FrameCore.vmem (F : FrameCore k vs xs rot) {p : Nat} (hp : p < 8) : vs.getD p 0 ∈ vs := getD_mem_lt vs p (by rw [F.vlen]; exact hp)
theorem Frame.vmem (F : Frame k vs xs rot) {p : Nat} (hp : p < 8) : vs.getD p 0 ∈ vs := F.toFrameCore.vmem hp

theorem FrameCore.vinj (F : FrameCore k vs xs rot) {p q : Nat} (hp : p < 8) (hq : q < 8) (h : vs.getD p 0 = vs.getD q 0) : p = q := by
  have h1 : p < vs.length := by rw [F.vlen]; exact hp
  have h2 : q < vs.length := by rw [F.vlen]; exact hq
  rw [List.getD_eq_getElem?_getD, List.getD_eq_getElem?_getD, List.getElem?_eq_getElem h1, List.getElem?_eq_getElem h2] at h
  simp only [Option.getD_some] at h
  have a := F.vnd.idxOf_getElem p h1
  have b := F.vnd.idxOf_getElem q h2
  rw [h] at a
  exact a.symm.trans b

theorem Frame.vinj (F : Frame k vs xs rot) {p q : Nat} (hp : p < 8) (hq : q < 8) (h : vs.getD p 0 = vs.getD q 0) : p = q :=
  F.toFrameCore.vinj hp hq h

/-- the halfedge at position `j` of face `i`, with its index-level description -/
theorem Frame.mem_at (F : Frame k vs xs rot) {i j : Nat} (hi : i < 6) (hj : j < 4) :
    (k.hfHes (xs.getD i 0)).getD j 0 ∈ k.hfHes (xs.getD i 0) := getD_mem_lt _ _ (by rw [F.len i hi]; exact hj)

theorem getElem_eq_getD {l : List Nat} {j : Nat} (hj : j < l.length) : l[j] = l.getD j 0 := by
  rw [List.getD_eq_getElem?_getD, List.getElem?_eq_getElem hj]; rfl

theorem Frame.pos_of_mem (F : Frame k vs xs rot) {i e : Nat} (hi : i < 6) (he : e ∈ k.hfHes (xs.getD i 0)) :
    ∃ j, j < 4 ∧ e = (k.hfHes (xs.getD i 0)).getD j 0 := by
  obtain ⟨j, hj, rfl⟩ := List.getElem_of_mem he
  exact ⟨j, by rw [F.len i hi] at hj; exact hj, getElem_eq_getD hj⟩

/-- positions are determined by the source vertex -/
theorem Frame.pos_inj (F : Frame k vs xs rot) {i j j' : Nat} (hi : i < 6) (hj : j < 4) (hj' : j' < 4)
    (h : (k.hfHes (xs.getD i 0)).getD j 0 = (k.hfHes (xs.getD i 0)).getD j' 0) : j = j' := by
  have r1 := (F.run i hi j hj).2.2.1
  have r2 := (F.run i hi j' hj').2.2.1
  rw [h, r2] at r1
  have hr := F.rlt i hi
  have e := F.vinj (tbl_lt i hi ((j' + rot i) % 4) (Nat.mod_lt _ (by omega))).1
    (tbl_lt i hi ((j + rot i) % 4) (Nat.mod_lt _ (by omega))).1 (by rw [II_mod, II_mod]; exact r1)
  have := tbl_inj i hi _ (Nat.mod_lt _ (by omega)) _ (Nat.mod_lt _ (by omega)) e
  omega

theorem Frame.nodup_face (F : Frame k vs xs rot) {i : Nat} (hi : i < 6) : (k.hfHes (xs.getD i 0)).Nodup := by
  obtain ⟨a, b, c, d, hh⟩ := length4_cases _ (F.len i hi)
  have key : ∀ j j', j < 4 → j' < 4 → [a, b, c, d].getD j 0 = [a, b, c, d].getD j' 0 → j = j' := by
    intro j j' hj hj' h; rw [← hh] at h; exact F.pos_inj hi hj hj' h
  rw [hh]
  simp only [List.nodup_cons, List.mem_cons, List.not_mem_nil, or_false, not_or, List.nodup_nil, and_true,
    not_false_eq_true]
  refine ⟨⟨?_, ?_, ?_⟩, ⟨?_, ?_⟩, ?_⟩
  · intro e; have := key 0 1 (by omega) (by omega) e; omega
  · intro e; have := key 0 2 (by omega) (by omega) e; omega
  · intro e; have := key 0 3 (by omega) (by omega) e; omega
  · intro e; have := key 1 2 (by omega) (by omega) e; omega
  · intro e; have := key 1 3 (by omega) (by omega) e; omega
  · intro e; have := key 2 3 (by omega) (by omega) e; omega

/-- with unique edges among the eight vertices the opposite of the halfedge at position `j` of face `i` is the halfedge
    of face `(rev i m).1` at the position that the tables give (`m = (j + rot i) % 4`) -/
theorem FrameCore.opp_of_uniq (F : FrameCore k vs xs rot) (hu : UniqEdges k vs) {i j : Nat} (hi : i < 6) (hj : j < 4) :
    opp ((k.hfHes (xs.getD i 0)).getD j 0) =
      (k.hfHes (xs.getD (rev i ((j + rot i) % 4)).1 0)).getD (((rev i ((j + rot i) % 4)).2 + 4 - rot (rev i ((j + rot i) % 4)).1) % 4) 0 := by
  have hm : (j + rot i) % 4 < 4 := Nat.mod_lt _ (by omega)
  obtain ⟨t1, t2, _, t4, t5⟩ := tbl_rev i hi _ hm
  generalize rev i ((j + rot i) % 4) = p at t1 t2 t4 t5
  have hr' := F.rlt p.1 t1
  have r1 := F.run i hi j hj
  have r2 := F.run p.1 t1 ((p.2 + 4 - rot p.1) % 4) (Nat.mod_lt _ (by omega))
  have e1 : II p.1 ((p.2 + 4 - rot p.1) % 4 + rot p.1) = II i (j + rot i + 1) := by
    rw [← II_mod, show ((p.2 + 4 - rot p.1) % 4 + rot p.1) % 4 = p.2 by omega, t4, ← II_mod i (j + rot i + 1)]
    rw [show (j + rot i + 1) % 4 = ((j + rot i) % 4 + 1) % 4 by omega, II_mod]
  have e2 : II p.1 ((p.2 + 4 - rot p.1) % 4 + rot p.1 + 1) = II i (j + rot i) := by
    rw [← II_mod, show ((p.2 + 4 - rot p.1) % 4 + rot p.1 + 1) % 4 = (p.2 + 1) % 4 by omega, II_mod, t5, II_mod]
  rw [e1, e2] at r2
  have hlt := tbl_lt i hi _ hm
  rw [II_mod] at hlt
  have hne : vs.getD (II i (j + rot i)) 0 ≠ vs.getD (II i (j + rot i + 1)) 0 := by
    intro e
    have h1 : II i (j + rot i) < 8 := hlt.1
    have h2 : II i (j + rot i + 1) < 8 := by
      have := (tbl_lt i hi ((j + rot i + 1) % 4) (Nat.mod_lt _ (by omega))).1
      rwa [II_mod] at this
    have := F.vinj h1 h2 e
    have hh := hlt.2
    rw [← II_mod i ((j + rot i) % 4 + 1), show ((j + rot i) % 4 + 1) % 4 = (j + rot i + 1) % 4 by omega, II_mod] at hh
    exact hh this
  have h1 : II i (j + rot i) < 8 := hlt.1
  have h2 : II i (j + rot i + 1) < 8 := by
    have := (tbl_lt i hi ((j + rot i + 1) % 4) (Nat.mod_lt _ (by omega))).1
    rwa [II_mod] at this
  exact (opp_of_runs hu r1 r2 (F.vmem h1) (F.vmem h2) hne).symm

/-- **the opposite of the halfedge at position `j` of face `i`** is the halfedge of face `(rev i m).1` at the position
    that the tables give (`m = (j + rot i) % 4`) -/
theorem Frame.opp_at (F : Frame k vs xs rot) {i j : Nat} (hi : i < 6) (hj : j < 4) :
    opp ((k.hfHes (xs.getD i 0)).getD j 0) =
      (k.hfHes (xs.getD (rev i ((j + rot i) % 4)).1 0)).getD (((rev i ((j + rot i) % 4)).2 + 4 - rot (rev i ((j + rot i) % 4)).1) % 4) 0 :=
  F.oppf i hi j hj

/-- a halfedge lies in one face only -/
theorem Frame.face_of_mem (F : Frame k vs xs rot) {i i' e : Nat} (hi : i < 6) (hi' : i' < 6)
    (he : e ∈ k.hfHes (xs.getD i 0)) (he' : e ∈ k.hfHes (xs.getD i' 0)) : i = i' := by
  obtain ⟨j, hj, rfl⟩ := F.pos_of_mem hi he
  obtain ⟨j', hj', e2⟩ := F.pos_of_mem hi' he'
  have r1 := F.run i hi j hj
  have r2 := F.run i' hi' j' hj'
  rw [← e2] at r2
  have hr := F.rlt i hi
  have hr' := F.rlt i' hi'
  have b : ∀ i, i < 6 → ∀ n, II i n < 8 := fun i hi n => by
    have := (tbl_lt i hi (n % 4) (Nat.mod_lt _ (by omega))).1; rwa [II_mod] at this
  have a1 := F.vinj (b i hi _) (b i' hi' _) (r1.2.2.1.symm.trans r2.2.2.1)
  have a2 := F.vinj (b i hi _) (b i' hi' _) (r1.2.2.2.symm.trans r2.2.2.2)
  have := tbl_edge i hi i' hi' ((j + rot i) % 4) (Nat.mod_lt _ (by omega)) ((j' + rot i') % 4) (Nat.mod_lt _ (by omega))
    ⟨by rw [II_mod, II_mod]; exact a1,
     by rw [← II_mod i, ← II_mod i', show ((j + rot i) % 4 + 1) % 4 = (j + rot i + 1) % 4 by omega,
          show ((j' + rot i') % 4 + 1) % 4 = (j' + rot i' + 1) % 4 by omega, II_mod, II_mod]; exact a2⟩
  exact this.1

/-! ### the six faces form a closed surface; navigation inside the cell -/

theorem tbl_rev_distinct : ∀ i, i < 6 → (rev i 0).1 ≠ (rev i 1).1 := by decide

theorem Frame.idx_of_mem (F : Frame k vs xs rot) {x : Nat} (hx : x ∈ xs) : ∃ i, i < 6 ∧ x = xs.getD i 0 := by
  obtain ⟨i, hi, rfl⟩ := List.getElem_of_mem hx
  exact ⟨i, by rw [F.xlen] at hi; exact hi, getElem_eq_getD hi⟩

theorem Frame.xs_inj (F : Frame k vs xs rot) {i i' : Nat} (hi : i < 6) (hi' : i' < 6) (h : xs.getD i 0 = xs.getD i' 0) : i = i' :=
  F.face_of_mem hi hi' (F.mem_at hi (by omega : 0 < 4)) (by rw [h]; exact F.mem_at hi' (by omega : 0 < 4))

theorem Frame.opp_mem (F : Frame k vs xs rot) {i j : Nat} (hi : i < 6) (hj : j < 4) :
    opp ((k.hfHes (xs.getD i 0)).getD j 0) ∈ k.hfHes (xs.getD (rev i ((j + rot i) % 4)).1 0) := by
  rw [F.opp_at hi hj]
  exact F.mem_at (tbl_rev i hi _ (Nat.mod_lt _ (by omega))).1 (Nat.mod_lt _ (by omega))

theorem nodup_flatMap_pairwise {α} (f : α → List Nat) : ∀ (l : List α), (∀ x ∈ l, (f x).Nodup) →
    l.Pairwise (fun x y => ∀ e ∈ f x, e ∉ f y) → (l.flatMap f).Nodup := by
  intro l
  induction l with
  | nil => intro _ _; simp
  | cons a t ih =>
    intro h1 h2
    rw [List.flatMap_cons, List.nodup_append]
    have hp := List.pairwise_cons.mp h2
    refine ⟨h1 a (List.mem_cons_self ..), ih (fun x hx => h1 x (List.mem_cons_of_mem _ hx)) hp.2, ?_⟩
    intro e he e' he' heq
    obtain ⟨y, hy, hey⟩ := List.mem_flatMap.mp he'
    exact hp.1 y hy e he (heq ▸ hey)

theorem Frame.closed (F : Frame k vs xs rot) : ClosedSurface k xs := by
  constructor
  · unfold cellHalfedges
    apply nodup_flatMap_pairwise
    · intro x hx
      obtain ⟨i, hi, rfl⟩ := F.idx_of_mem hx
      exact F.nodup_face hi
    · rw [List.pairwise_iff_getElem]
      intro i j hi hj hij e he he'
      rw [F.xlen] at hi hj
      rw [getElem_eq_getD] at he he'
      have := F.face_of_mem hi hj he he'
      omega
  · intro h hh
    unfold cellHalfedges at hh ⊢
    obtain ⟨x, hx, hex⟩ := List.mem_flatMap.mp hh
    obtain ⟨i, hi, rfl⟩ := F.idx_of_mem hx
    obtain ⟨j, hj, rfl⟩ := F.pos_of_mem hi hex
    have ht := tbl_rev i hi _ (Nat.mod_lt ((j + rot i)) (by omega : 0 < 4))
    exact List.mem_flatMap.mpr ⟨_, getD_mem_lt xs _ (by rw [F.xlen]; exact ht.1), F.opp_mem hi hj⟩

theorem Frame.opp_not_mem (F : Frame k vs xs rot) {i : Nat} (hi : i < 6) : opp (xs.getD i 0) ∉ xs := by
  intro hm
  obtain ⟨i', hi', e⟩ := F.idx_of_mem hm
  have hr := F.rlt i hi
  -- every halfedge of face i has its opposite in face i'
  have key : ∀ j, j < 4 → (rev i ((j + rot i) % 4)).1 = i' := by
    intro j hj
    have h1 := F.opp_mem hi hj
    have h2 : opp ((k.hfHes (xs.getD i 0)).getD j 0) ∈ k.hfHes (xs.getD i' 0) := by
      rw [← e]; exact (Fan.mem_hfHes_opp k _ _).mpr (F.mem_at hi hj)
    exact F.face_of_mem (tbl_rev i hi _ (Nat.mod_lt _ (by omega))).1 hi' h1 h2
  have a := key ((4 - rot i) % 4) (Nat.mod_lt _ (by omega))
  have b := key ((5 - rot i) % 4) (Nat.mod_lt _ (by omega))
  rw [show ((4 - rot i) % 4 + rot i) % 4 = 0 by omega] at a
  rw [show ((5 - rot i) % 4 + rot i) % 4 = 1 by omega] at b
  exact tbl_rev_distinct i hi (a.trans b.symm)

theorem Frame.next_at (F : Frame k vs xs rot) {i j : Nat} (hi : i < 6) (hj : j < 4) :
    k.nextHe ((k.hfHes (xs.getD i 0)).getD j 0) (xs.getD i 0) = some ((k.hfHes (xs.getD i 0)).getD ((j + 1) % 4) 0) := by
  have hl := F.len i hi
  have hj' : j < (k.hfHes (xs.getD i 0)).length := by rw [hl]; exact hj
  have := nextHe_at k (xs.getD i 0) j (F.nodup_face hi) hj'
  rw [getElem_eq_getD hj'] at this
  rw [this, getElem_eq_getD]
  simp only [hl]

theorem Frame.prev_at (F : Frame k vs xs rot) {i j : Nat} (hi : i < 6) (hj : j < 4) :
    k.prevHe ((k.hfHes (xs.getD i 0)).getD j 0) (xs.getD i 0) = some ((k.hfHes (xs.getD i 0)).getD ((j + 3) % 4) 0) := by
  have hl := F.len i hi
  have hj' : j < (k.hfHes (xs.getD i 0)).length := by rw [hl]; exact hj
  have := prevHe_at k (xs.getD i 0) j (F.nodup_face hi) hj'
  rw [getElem_eq_getD hj'] at this
  rw [this, getElem_eq_getD]
  simp only [hl]
  rfl

/-- `adjacent_halfface_in_cell` on the cell made of the six faces -/
theorem Frame.adj_at (F : Frame k vs xs rot) {c : Nat} (hcell : k.cellAt c = xs) (hof : ∀ i, i < 6 → k.cellOf (xs.getD i 0) = some c)
    {i j : Nat} (hi : i < 6) (hj : j < 4) :
    k.adjHalffaceInCell (xs.getD i 0) ((k.hfHes (xs.getD i 0)).getD j 0) = some (xs.getD (rev i ((j + rot i) % 4)).1 0) := by
  have ht := tbl_rev i hi _ (Nat.mod_lt (j + rot i) (by omega : 0 < 4))
  apply Fan.adj_eq_some_of_closed k _ _ c _ (hof i hi) (by rw [hcell]; exact F.closed)
    (by rw [hcell]; exact getD_mem_lt xs i (by rw [F.xlen]; exact hi)) (F.mem_at hi hj)
    (by rw [hcell]; exact getD_mem_lt xs _ (by rw [F.xlen]; exact ht.1)) (F.opp_mem hi hj)
  · intro e; exact ht.2.2.1 (F.xs_inj ht.1 hi e)
  · rw [hcell]; exact F.opp_not_mem hi

/-! ### `hex_vertices` on the frame -/

theorem II_congr (i : Nat) {a b : Nat} (h : a % 4 = b % 4) : II i a = II i b := by unfold II; rw [h]

/-- the vertex indices `hex_vertices` reports when the first face is stored in rotation `m0` (from the tables) -/
def patIdx (m0 : Nat) : List Nat :=
  let p1 := rev 0 m0
  let p2 := rev p1.1 (p1.2 + 2)
  [II 0 m0, II 0 (m0 + 3), II 0 (m0 + 2), II 0 (m0 + 1), II p2.1 (p2.2 + 1), II p2.1 p2.2, II p2.1 (p2.2 + 3), II p2.1 (p2.2 + 2)]

theorem Frame.hexVertices_eq (F : Frame k vs xs rot) {c : Nat} (hcell : k.cellAt c = xs)
    (hof : ∀ i, i < 6 → k.cellOf (xs.getD i 0) = some c) :
    k.hexVertices c = some ((patIdx (rot 0)).map (fun p => vs.getD p 0)) := by
  have hr0 := F.rlt 0 (by omega)
  have em0 : (0 + rot 0) % 4 = rot 0 := by omega
  -- the side face across the first halfedge of the first face
  have t1 := tbl_rev 0 (by omega) (rot 0) hr0
  generalize hp1 : rev 0 (rot 0) = p1 at t1
  have hr1 := F.rlt p1.1 t1.1
  -- the face across the halfedge of the side face opposite to the shared one
  have t2 := tbl_rev p1.1 t1.1 ((p1.2 + 2) % 4) (Nat.mod_lt _ (by omega))
  have hp2' : rev p1.1 ((p1.2 + 2) % 4) = rev p1.1 (p1.2 + 2) := by
    unfold rev; simp only [II_mod, II_congr p1.1 (show ((p1.2 + 2) % 4 + 1) % 4 = (p1.2 + 2 + 1) % 4 by omega)]
  rw [hp2'] at t2
  generalize hp2 : rev p1.1 (p1.2 + 2) = p2 at t2
  have hr2 := F.rlt p2.1 t2.1
  -- steps
  have s0 : (k.cellAt c).head? = some (xs.getD 0 0) := by
    rw [hcell]
    have := F.xlen
    match xs, this with
    | a :: t, _ => rfl
  have s1 : (k.hfHes (xs.getD 0 0)).head? = some ((k.hfHes (xs.getD 0 0)).getD 0 0) := by
    have := F.len 0 (by omega)
    generalize k.hfHes (xs.getD 0 0) = l at this
    match l, this with
    | a :: t, _ => rfl
  have p0 := F.prev_at (i := 0) (j := 0) (by omega) (by omega)
  have p3 := F.prev_at (i := 0) (j := 3) (by omega) (by omega)
  have p2' := F.prev_at (i := 0) (j := 2) (by omega) (by omega)
  have p1' := F.prev_at (i := 0) (j := 1) (by omega) (by omega)
  simp only [Nat.reduceAdd, Nat.reduceMod] at p0 p3 p2' p1'
  have a0 := F.adj_at hcell hof (i := 0) (j := 0) (by omega) (by omega)
  rw [em0, hp1] at a0
  have o0 := F.opp_at (i := 0) (j := 0) (by omega) (by omega)
  rw [em0, hp1] at o0
  have hj1 : (p1.2 + 4 - rot p1.1) % 4 < 4 := Nat.mod_lt _ (by omega)
  have n1 := F.next_at (i := p1.1) (j := (p1.2 + 4 - rot p1.1) % 4) t1.1 hj1
  have hj1' : ((p1.2 + 4 - rot p1.1) % 4 + 1) % 4 < 4 := Nat.mod_lt _ (by omega)
  have n2 := F.next_at (i := p1.1) (j := ((p1.2 + 4 - rot p1.1) % 4 + 1) % 4) t1.1 hj1'
  have hj6 : (((p1.2 + 4 - rot p1.1) % 4 + 1) % 4 + 1) % 4 < 4 := Nat.mod_lt _ (by omega)
  have e6 : ((((p1.2 + 4 - rot p1.1) % 4 + 1) % 4 + 1) % 4 + rot p1.1) % 4 = (p1.2 + 2) % 4 := by omega
  have a6 := F.adj_at hcell hof (i := p1.1) (j := (((p1.2 + 4 - rot p1.1) % 4 + 1) % 4 + 1) % 4) t1.1 hj6
  rw [e6, hp2', hp2] at a6
  have o6 := F.opp_at (i := p1.1) (j := (((p1.2 + 4 - rot p1.1) % 4 + 1) % 4 + 1) % 4) t1.1 hj6
  rw [e6, hp2', hp2] at o6
  have hj2 : (p2.2 + 4 - rot p2.1) % 4 < 4 := Nat.mod_lt _ (by omega)
  have q1 := F.prev_at (i := p2.1) (j := (p2.2 + 4 - rot p2.1) % 4) t2.1 hj2
  have hj2' : ((p2.2 + 4 - rot p2.1) % 4 + 3) % 4 < 4 := Nat.mod_lt _ (by omega)
  have q2 := F.prev_at (i := p2.1) (j := ((p2.2 + 4 - rot p2.1) % 4 + 3) % 4) t2.1 hj2'
  have hj2'' : (((p2.2 + 4 - rot p2.1) % 4 + 3) % 4 + 3) % 4 < 4 := Nat.mod_lt _ (by omega)
  -- vertices
  have v0 := (F.run 0 (by omega) 0 (by omega)).2.2.1
  have v1 := (F.run 0 (by omega) 3 (by omega)).2.2.1
  have v2 := (F.run 0 (by omega) 2 (by omega)).2.2.1
  have v3 := (F.run 0 (by omega) 1 (by omega)).2.2.1
  have v4 := (F.run p2.1 t2.1 _ hj2).2.2.2
  have v5 := (F.run p2.1 t2.1 _ hj2').2.2.2
  have v6 := (F.run p2.1 t2.1 _ hj2'').2.2.2
  have v7 := (F.run p2.1 t2.1 _ hj2'').2.2.1
  rw [II_congr 0 (show (0 + rot 0) % 4 = (rot 0) % 4 by omega)] at v0
  rw [II_congr 0 (show (3 + rot 0) % 4 = (rot 0 + 3) % 4 by omega)] at v1
  rw [II_congr 0 (show (2 + rot 0) % 4 = (rot 0 + 2) % 4 by omega)] at v2
  rw [II_congr 0 (show (1 + rot 0) % 4 = (rot 0 + 1) % 4 by omega)] at v3
  rw [II_congr p2.1 (show ((p2.2 + 4 - rot p2.1) % 4 + rot p2.1 + 1) % 4 = (p2.2 + 1) % 4 by omega)] at v4
  rw [II_congr p2.1 (show (((p2.2 + 4 - rot p2.1) % 4 + 3) % 4 + rot p2.1 + 1) % 4 = (p2.2) % 4 by omega)] at v5
  rw [II_congr p2.1 (show ((((p2.2 + 4 - rot p2.1) % 4 + 3) % 4 + 3) % 4 + rot p2.1 + 1) % 4 = (p2.2 + 3) % 4 by omega)] at v6
  rw [II_congr p2.1 (show ((((p2.2 + 4 - rot p2.1) % 4 + 3) % 4 + 3) % 4 + rot p2.1) % 4 = (p2.2 + 2) % 4 by omega)] at v7
  unfold hexVertices
  simp only [s0, s1, p0, p3, p2', p1', a0, o0, n1, n2, a6, o6, q1, q2, Option.bind_some, bind, pure]
  simp only [v0, v1, v2, v3, v4, v5, v6, v7, patIdx, hp1, hp2, List.map_cons, List.map_nil]

/-! ### the documented pattern -/

theorem tbl_bot : ∀ m0, m0 < 4 → (rev (rev 0 m0).1 ((rev 0 m0).2 + 2)).1 = 1 := by decide
theorem tbl_pat_nodup : ∀ m0, m0 < 4 → (patIdx m0).Nodup ∧ ∀ p ∈ patIdx m0, p < 8 := by decide
theorem tbl_pat_bot : ∀ m0, m0 < 4 → ∀ b, b < 4 →
    ((patIdx m0).drop 4).Perm [II 1 b, II 1 (b + 1), II 1 (b + 2), II 1 (b + 3)] := by decide
theorem tbl_pat_edges : ∀ m0, m0 < 4 → ∀ pr ∈ [(0, 4), (1, 7), (2, 6), (3, 5)], ∃ i, i < 6 ∧ ∃ m, m < 4 ∧
    ((II i m = (patIdx m0).getD pr.1 0 ∧ II i (m + 1) = (patIdx m0).getD pr.2 0) ∨
     (II i m = (patIdx m0).getD pr.2 0 ∧ II i (m + 1) = (patIdx m0).getD pr.1 0)) := by decide

theorem nodupB_of_nodup : ∀ (l : List Nat), l.Nodup → nodupB l = true := by
  intro l
  induction l with
  | nil => intro _; rfl
  | cons a t ih =>
    intro h
    have := List.nodup_cons.mp h
    unfold nodupB
    simp [this.1, ih this.2]

theorem nodup_map_on (f : Nat → Nat) : ∀ (l : List Nat), l.Nodup → (∀ a ∈ l, ∀ b ∈ l, f a = f b → a = b) → (l.map f).Nodup := by
  intro l
  induction l with
  | nil => intro _ _; simp
  | cons a t ih =>
    intro hn hinj
    have hc := List.nodup_cons.mp hn
    rw [List.map_cons, List.nodup_cons]
    refine ⟨?_, ih hc.2 (fun x hx y hy => hinj x (List.mem_cons_of_mem _ hx) y (List.mem_cons_of_mem _ hy))⟩
    intro hm
    obtain ⟨b, hb, e⟩ := List.mem_map.mp hm
    have := hinj b (List.mem_cons_of_mem _ hb) a (List.mem_cons_self ..) e
    rw [this] at hb; exact hc.1 hb

theorem isRotationL_self (l : List Nat) : isRotationL l l = true := by
  unfold isRotationL
  cases l with
  | nil => simp
  | cons a t =>
    simp only [beq_self_eq_true, List.isEmpty_cons, Bool.false_or, Bool.true_and, List.any_eq_true, List.mem_range]
    exact ⟨0, by simp, by simp [List.rotateLeft]⟩

theorem sortedLE_perm_eq : ∀ (a b : List Nat), SortedLE a → SortedLE b → a.Perm b → a = b := by
  intro a
  induction a with
  | nil => intro b _ _ h; exact (List.Perm.nil_eq h)
  | cons x t ih =>
    intro b ha hb h
    cases b with
    | nil => exact absurd h.length_eq (by simp)
    | cons y u =>
      have hxy : x = y := by
        have h1 : x ∈ y :: u := h.mem_iff.mp (List.mem_cons_self ..)
        have h2 : y ∈ x :: t := h.mem_iff.mpr (List.mem_cons_self ..)
        have l1 : y ≤ x := by
          rcases List.mem_cons.mp h1 with e | e
          · omega
          · exact CellCheck.sortedLE_head_le hb x e
        have l2 : x ≤ y := by
          rcases List.mem_cons.mp h2 with e | e
          · omega
          · exact CellCheck.sortedLE_head_le ha y e
        omega
      subst hxy
      rw [ih u (CellCheck.sortedLE_tail ha) (CellCheck.sortedLE_tail hb) h.cons_inv]

theorem sortL_eq_of_perm {a b : List Nat} (h : a.Perm b) : sortL a = sortL b :=
  sortedLE_perm_eq _ _ (sortedLE_sortL a) (sortedLE_sortL b)
    (((CellCheck.sortL_perm a).trans h).trans (CellCheck.sortL_perm b).symm)

theorem list4_eq (l : List Nat) (h : l.length = 4) : l = [l.getD 0 0, l.getD 1 0, l.getD 2 0, l.getD 3 0] := by
  obtain ⟨a, b, c, d, rfl⟩ := length4_cases l h; rfl

theorem Frame.hfVerts_eq (F : Frame k vs xs rot) {i : Nat} (hi : i < 6) :
    k.hfVerts (xs.getD i 0) = [vs.getD (II i (rot i)) 0, vs.getD (II i (rot i + 1)) 0, vs.getD (II i (rot i + 2)) 0,
      vs.getD (II i (rot i + 3)) 0] := by
  unfold hfVerts
  rw [list4_eq _ (F.len i hi)]
  simp only [List.map_cons, List.map_nil]
  rw [(F.run i hi 0 (by omega)).2.2.1, (F.run i hi 1 (by omega)).2.2.1, (F.run i hi 2 (by omega)).2.2.1,
    (F.run i hi 3 (by omega)).2.2.1]
  rw [II_congr i (show (0 + rot i) % 4 = rot i % 4 by omega), II_congr i (show (1 + rot i) % 4 = (rot i + 1) % 4 by omega),
    II_congr i (show (2 + rot i) % 4 = (rot i + 2) % 4 by omega), II_congr i (show (3 + rot i) % 4 = (rot i + 3) % 4 by omega)]

theorem Frame.hasEdge (F : Frame k vs xs rot) {c : Nat} (hcell : k.cellAt c = xs) {i m : Nat} (hi : i < 6) (hm : m < 4) :
    k.cellHasEdge c (vs.getD (II i m) 0) (vs.getD (II i (m + 1)) 0) = true ∧
    k.cellHasEdge c (vs.getD (II i (m + 1)) 0) (vs.getD (II i m) 0) = true := by
  have hr := F.rlt i hi
  have hj : (m + 4 - rot i) % 4 < 4 := Nat.mod_lt _ (by omega)
  have r := F.run i hi _ hj
  rw [II_congr i (show ((m + 4 - rot i) % 4 + rot i) % 4 = m % 4 by omega),
    II_congr i (show ((m + 4 - rot i) % 4 + rot i + 1) % 4 = (m + 1) % 4 by omega)] at r
  have hmem : (k.hfHes (xs.getD i 0)).getD ((m + 4 - rot i) % 4) 0 ∈ (k.cellAt c).flatMap k.hfHes := by
    rw [hcell]
    exact List.mem_flatMap.mpr ⟨_, getD_mem_lt xs i (by rw [F.xlen]; exact hi), F.mem_at hi hj⟩
  unfold cellHasEdge
  constructor
  · rw [List.any_eq_true]; exact ⟨_, hmem, by rw [r.2.2.1, r.2.2.2]; simp⟩
  · rw [List.any_eq_true]; exact ⟨_, hmem, by rw [r.2.2.1, r.2.2.2]; simp⟩

/-- **`hex_vertices` of the cell made of the six faces reports the documented cube pattern** -/
theorem Frame.pattern (F : Frame k vs xs rot) {c : Nat} (hcell : k.cellAt c = xs)
    (hof : ∀ i, i < 6 → k.cellOf (xs.getD i 0) = some c) :
    ∃ r, k.hexVertices c = some r ∧ k.hexVertsPatternB c r = true := by
  refine ⟨_, F.hexVertices_eq hcell hof, ?_⟩
  have hr0 := F.rlt 0 (by omega)
  have hr1 := F.rlt 1 (by omega)
  obtain ⟨hnd, hlt⟩ := tbl_pat_nodup (rot 0) hr0
  have hbot := tbl_pat_bot (rot 0) hr0 (rot 1) hr1
  have hedges := tbl_pat_edges (rot 0) hr0
  have hlen : (patIdx (rot 0)).length = 8 := rfl
  generalize hR : patIdx (rot 0) = R at hnd hlt hbot hedges hlen
  have hRtop : R.take 4 = [II 0 (rot 0), II 0 (rot 0 + 3), II 0 (rot 0 + 2), II 0 (rot 0 + 1)] := by rw [← hR]; rfl
  unfold hexVertsPatternB
  simp only [hcell]
  rw [F.hfVerts_eq (i := 0) (by omega), F.hfVerts_eq (i := 1) (by omega)]
  simp only [Bool.and_eq_true, beq_iff_eq, List.length_map]
  refine ⟨⟨⟨⟨hlen, ?_⟩, ?_⟩, ?_⟩, ?_⟩
  · apply nodupB_of_nodup
    exact nodup_map_on _ R hnd (fun a ha b hb e => F.vinj (hlt a ha) (hlt b hb) e)
  · rw [← List.map_take, hRtop]
    exact isRotationL_self _
  · rw [← List.map_drop]
    have := hbot.map (fun p => vs.getD p 0)
    simp only [List.map_cons, List.map_nil] at this
    rw [sortL_eq_of_perm this]
  · rw [List.all_eq_true]
    intro pr hpr
    obtain ⟨i, hi, m, hm, hcase⟩ := hedges pr hpr
    have hp1 : pr.1 < 8 ∧ pr.2 < 8 := by
      simp only [List.mem_cons, List.not_mem_nil, or_false] at hpr
      rcases hpr with rfl | rfl | rfl | rfl <;> simp
    have g1 : (R.map (fun p => vs.getD p 0)).getD pr.1 0 = vs.getD (R.getD pr.1 0) 0 :=
      getD_map_lt R (fun p => vs.getD p 0) pr.1 (by rw [hlen]; exact hp1.1)
    have g2 : (R.map (fun p => vs.getD p 0)).getD pr.2 0 = vs.getD (R.getD pr.2 0) 0 :=
      getD_map_lt R (fun p => vs.getD p 0) pr.2 (by rw [hlen]; exact hp1.2)
    rw [g1, g2]
    have he := F.hasEdge hcell hi hm
    rcases hcase with ⟨e1, e2⟩ | ⟨e1, e2⟩
    · rw [← e1, ← e2]; exact he.1
    · rw [← e1, ← e2]; exact he.2

/-! ### from `add_cell(8 vertices)` to the frame -/

theorem addEdge_fBU (k : Kernel) (a b : Nat) (d : Bool) : (k.addEdge a b d).1.fBU = k.fBU := by
  unfold addEdge; split
  · rfl
  · unfold addEdgeCore; simp only []; repeat' split
    all_goals rfl

theorem addFace_fBU (k : Kernel) (hes : List Nat) (chk : Bool) : (k.addFace hes chk).1.fBU = k.fBU := by
  unfold addFace; split
  · unfold addFaceCore; simp only []; repeat' split
    all_goals rfl
  · rfl

theorem addFaceV_fBU (k : Kernel) (vs : List Nat) : (k.addFaceV vs).1.fBU = k.fBU := by
  cases vs with
  | nil => rfl
  | cons v0 t =>
    rw [addFaceV_eq, addFace_fBU]
    have : ∀ (pairs : List (Nat × Nat)) (st : Kernel × List Nat), (pairs.foldl faceVStep st).1.fBU = st.1.fBU := by
      intro pairs
      induction pairs with
      | nil => intro st; rfl
      | cons p t ih => intro st; simp only [List.foldl_cons]; rw [ih]; exact addEdge_fBU _ _ _ _
    exact this _ _

theorem cellVFold_fBU (vs : List Nat) (adds : List (Nat × List Nat × Nat)) (st : Kernel × List (Option Nat)) :
    (adds.foldl (hexCellVStep vs) st).1.fBU = st.1.fBU := by
  induction adds generalizing st with
  | nil => rfl
  | cons a t ih =>
    simp only [List.foldl_cons]; rw [ih]
    unfold hexCellVStep; split
    · rfl
    · exact addFaceV_fBU _ _

theorem addCellCore_fBU (k : Kernel) (hfs : List Nat) : (k.addCellCore hfs).fBU = k.fBU := by
  unfold addCellCore; simp only []; split
  · split
    · simp
    · rfl
  · rfl

/-- the structure of an accepting `add_cell(8 vertices)`: the state after the find-or-create loop, the six
    halffaces as loops through the quadruples of the tables, and the final unchecked base-class call -/
theorem hexAddCellV_struct (k : Kernel) (v0 v1 v2 v3 v4 v5 v6 v7 : Nat) (chk : Bool) (hi : GInv k)
    (hvs : ∀ v ∈ [v0, v1, v2, v3, v4, v5, v6, v7], VOk k v) (hu : UniqEdges k [v0, v1, v2, v3, v4, v5, v6, v7])
    (hloop : ∀ I ∈ cellVFind, ∀ x, k.findHalffaceExtensive (hexPick [v0, v1, v2, v3, v4, v5, v6, v7] I) = some x → HfLoop k x)
    (c : Nat) (h : (k.hexAddCellV [v0, v1, v2, v3, v4, v5, v6, v7] chk).2 = some c) :
    ∃ k1 x0 x1 x2 x3 x4 x5, k.hexAddCellV [v0, v1, v2, v3, v4, v5, v6, v7] chk = k1.addCell [x0, x1, x2, x3, x4, x5] false ∧
      GInv k1 ∧ k1.fBU = true ∧ UniqEdges k1 [v0, v1, v2, v3, v4, v5, v6, v7] ∧
      Cyc k1 x0 [v3, v2, v1, v0] ∧ Cyc k1 x1 [v7, v6, v5, v4] ∧ Cyc k1 x2 [v1, v2, v6, v7] ∧
      Cyc k1 x3 [v4, v5, v3, v0] ∧ Cyc k1 x4 [v1, v7, v4, v0] ∧ Cyc k1 x5 [v2, v3, v5, v6] := by
  obtain ⟨hfull, hl, hall, heq⟩ := hexAddCellV_some k _ chk c h
  have hbu : k.vBU = true ∧ k.eBU = true ∧ k.fBU = true := by
    unfold fullBU at hfull; simp only [Bool.and_eq_true] at hfull; exact ⟨hfull.1.1, hfull.1.2, hfull.2⟩
  have hI0 : FoldInv [v0, v1, v2, v3, v4, v5, v6, v7]
      (k, cellVFind.map (fun idxs => k.findHalffaceExtensive (hexPick [v0, v1, v2, v3, v4, v5, v6, v7] idxs))) := by
    refine ⟨hi, hvs, hu, by simp [cellVFind], ?_⟩
    intro i hi6 x hx
    have hi' : i = 0 ∨ i = 1 ∨ i = 2 ∨ i = 3 ∨ i = 4 ∨ i = 5 := by omega
    have hlt : ∀ v ∈ [v0, v1, v2, v3, v4, v5, v6, v7], v < k.nV := fun v hv => (hvs v hv).1
    rcases hi' with rfl | rfl | rfl | rfl | rfl | rfl
    · exact cyc_of_found hi hbu.1 hbu.2.1 v3 v2 v1 v0 x (hlt _ (by simp)) hx (hloop [3, 2, 1, 0] (by simp [cellVFind]) x hx)
    · exact cyc_of_found hi hbu.1 hbu.2.1 v7 v6 v5 v4 x (hlt _ (by simp)) hx (hloop [7, 6, 5, 4] (by simp [cellVFind]) x hx)
    · exact cyc_of_found hi hbu.1 hbu.2.1 v1 v2 v6 v7 x (hlt _ (by simp)) hx (hloop [1, 2, 6, 7] (by simp [cellVFind]) x hx)
    · exact cyc_of_found hi hbu.1 hbu.2.1 v4 v5 v3 v0 x (hlt _ (by simp)) hx (hloop [4, 5, 3, 0] (by simp [cellVFind]) x hx)
    · exact cyc_of_found hi hbu.1 hbu.2.1 v1 v7 v4 v0 x (hlt _ (by simp)) hx (hloop [1, 7, 4, 0] (by simp [cellVFind]) x hx)
    · exact cyc_of_found hi hbu.1 hbu.2.1 v2 v3 v5 v6 x (hlt _ (by simp)) hx (hloop [2, 3, 5, 6] (by simp [cellVFind]) x hx)
  have hI := foldInv_fold _ rfl cellVAdd cellVAdd_valid _ hI0
  have hfb := cellVFold_fBU [v0, v1, v2, v3, v4, v5, v6, v7] cellVAdd
    (k, cellVFind.map (fun idxs => k.findHalffaceExtensive (hexPick [v0, v1, v2, v3, v4, v5, v6, v7] idxs)))
  generalize (cellVAdd.foldl (hexCellVStep [v0, v1, v2, v3, v4, v5, v6, v7])
    (k, cellVFind.map (fun idxs => k.findHalffaceExtensive (hexPick [v0, v1, v2, v3, v4, v5, v6, v7] idxs)))) = st
    at hI hall heq hfb
  have hsome : ∀ i, i < 6 → ∃ x, st.2.getD i none = some x := by
    intro i hi6
    rw [List.all_eq_true] at hall
    have := hall (st.2.getD i none) (List.mem_map.mpr ⟨i, by simp [cellVOrder]; omega, rfl⟩)
    exact Option.isSome_iff_exists.mp this
  obtain ⟨x0, h0⟩ := hsome 0 (by omega)
  obtain ⟨x1, h1⟩ := hsome 1 (by omega)
  obtain ⟨x2, h2⟩ := hsome 2 (by omega)
  obtain ⟨x3, h3⟩ := hsome 3 (by omega)
  obtain ⟨x4, h4⟩ := hsome 4 (by omega)
  obtain ⟨x5, h5⟩ := hsome 5 (by omega)
  have hhfs : (cellVOrder.map (fun i => st.2.getD i none)).filterMap id = [x0, x1, x2, x3, x4, x5] := by
    have e : cellVOrder.map (fun i => st.2.getD i none) = [some x0, some x1, some x2, some x3, some x4, some x5] := by
      show [st.2.getD 0 none, st.2.getD 1 none, st.2.getD 2 none, st.2.getD 3 none, st.2.getD 4 none, st.2.getD 5 none] = _
      rw [h0, h1, h2, h3, h4, h5]
    rw [e]; rfl
  rw [hhfs] at heq
  exact ⟨st.1, x0, x1, x2, x3, x4, x5, heq, hI.ginv, hfb.trans hbu.2.2, hI.uniq,
    hI.slots.2 0 (by omega) x0 h0, hI.slots.2 1 (by omega) x1 h1, hI.slots.2 2 (by omega) x2 h2,
    hI.slots.2 3 (by omega) x3 h3, hI.slots.2 4 (by omega) x4 h4, hI.slots.2 5 (by omega) x5 h5⟩

theorem runs_congr {k k' : Kernel} (he : k'.edges = k.edges) (hd : k'.eDel = k.eDel) {e u w : Nat} (h : Runs k e u w) :
    Runs k' e u w := by
  unfold Runs Kernel.liveE Kernel.eDeleted nHE nE Kernel.fromV Kernel.toV Kernel.halfedge Kernel.edgeAt at *
  rw [he, hd]; exact h

theorem uniq_congr {k k' : Kernel} (he : k'.edges = k.edges) (hd : k'.eDel = k.eDel) {U : List Nat} (h : UniqEdges k U) :
    UniqEdges k' U := by
  intro i j a b ha hb hi hj
  have c : ∀ i, Joins k' a b i → Joins k a b i := by
    intro i h'
    unfold Joins Kernel.liveE Kernel.eDeleted nE Kernel.edgeAt at *
    rw [he, hd] at h'; exact h'
  exact h i j a b ha hb (c i hi) (c j hj)

theorem Frame.congr {k' : Kernel} (F : Frame k vs xs rot) (he : k'.edges = k.edges) (hf : k'.faces = k.faces)
    (hd : k'.eDel = k.eDel) : Frame k' vs xs rot :=
  ⟨⟨F.vlen, F.vnd, F.xlen, fun i hi => by rw [hfHes_congr k k' hf]; exact F.len i hi, F.rlt,
    fun i hi j hj => by rw [hfHes_congr k k' hf]; exact runs_congr he hd (F.run i hi j hj)⟩,
   fun i hi j hj => by rw [hfHes_congr k k' hf, hfHes_congr k k' hf]; exact F.oppf i hi j hj⟩

theorem pick_getD (vs I : List Nat) (m : Nat) (hm : m < I.length) : (hexPick vs I).getD m 0 = vs.getD (I.getD m 0) 0 := by
  unfold hexPick
  exact getD_map_lt I (fun i => vs.getD i 0) m hm

/-- six loops through the quadruples of the tables make the vertex part of a frame -/
theorem frameCore_of_cycles (k : Kernel) (v0 v1 v2 v3 v4 v5 v6 v7 x0 x1 x2 x3 x4 x5 : Nat)
    (hd : [v0, v1, v2, v3, v4, v5, v6, v7].Nodup)
    (c0 : Cyc k x0 [v3, v2, v1, v0]) (c1 : Cyc k x1 [v7, v6, v5, v4]) (c2 : Cyc k x2 [v1, v2, v6, v7])
    (c3 : Cyc k x3 [v4, v5, v3, v0]) (c4 : Cyc k x4 [v1, v7, v4, v0]) (c5 : Cyc k x5 [v2, v3, v5, v6]) :
    ∃ rot, FrameCore k [v0, v1, v2, v3, v4, v5, v6, v7] [x0, x1, x2, x3, x4, x5] rot := by
  obtain ⟨_, l0, r0, hr0, q0⟩ := c0
  obtain ⟨_, l1, r1, hr1, q1⟩ := c1
  obtain ⟨_, l2, r2, hr2, q2⟩ := c2
  obtain ⟨_, l3, r3, hr3, q3⟩ := c3
  obtain ⟨_, l4, r4, hr4, q4⟩ := c4
  obtain ⟨_, l5, r5, hr5, q5⟩ := c5
  refine ⟨fun i => [r0, r1, r2, r3, r4, r5].getD i 0, rfl, hd, rfl, ?_, ?_, ?_⟩
  · intro i hi
    have : i = 0 ∨ i = 1 ∨ i = 2 ∨ i = 3 ∨ i = 4 ∨ i = 5 := by omega
    rcases this with rfl | rfl | rfl | rfl | rfl | rfl <;> assumption
  · intro i hi
    have : i = 0 ∨ i = 1 ∨ i = 2 ∨ i = 3 ∨ i = 4 ∨ i = 5 := by omega
    rcases this with rfl | rfl | rfl | rfl | rfl | rfl <;> assumption
  · intro i hi j hj
    have key : ∀ (I : List Nat) (hI : I.length = 4) (n : Nat),
        (hexPick [v0, v1, v2, v3, v4, v5, v6, v7] I).getD (n % 4) 0 = [v0, v1, v2, v3, v4, v5, v6, v7].getD (I.getD (n % 4) 0) 0 :=
      fun I hI n => pick_getD _ I _ (by rw [hI]; exact Nat.mod_lt _ (by omega))
    have : i = 0 ∨ i = 1 ∨ i = 2 ∨ i = 3 ∨ i = 4 ∨ i = 5 := by omega
    rcases this with rfl | rfl | rfl | rfl | rfl | rfl
    · have a := key [3, 2, 1, 0] rfl (j + r0); have b := key [3, 2, 1, 0] rfl (j + r0 + 1)
      have := q0 j hj; rw [show [v3, v2, v1, v0] = hexPick [v0, v1, v2, v3, v4, v5, v6, v7] [3, 2, 1, 0] from rfl, a, b] at this
      exact this
    · have a := key [7, 6, 5, 4] rfl (j + r1); have b := key [7, 6, 5, 4] rfl (j + r1 + 1)
      have := q1 j hj; rw [show [v7, v6, v5, v4] = hexPick [v0, v1, v2, v3, v4, v5, v6, v7] [7, 6, 5, 4] from rfl, a, b] at this
      exact this
    · have a := key [1, 2, 6, 7] rfl (j + r2); have b := key [1, 2, 6, 7] rfl (j + r2 + 1)
      have := q2 j hj; rw [show [v1, v2, v6, v7] = hexPick [v0, v1, v2, v3, v4, v5, v6, v7] [1, 2, 6, 7] from rfl, a, b] at this
      exact this
    · have a := key [4, 5, 3, 0] rfl (j + r3); have b := key [4, 5, 3, 0] rfl (j + r3 + 1)
      have := q3 j hj; rw [show [v4, v5, v3, v0] = hexPick [v0, v1, v2, v3, v4, v5, v6, v7] [4, 5, 3, 0] from rfl, a, b] at this
      exact this
    · have a := key [1, 7, 4, 0] rfl (j + r4); have b := key [1, 7, 4, 0] rfl (j + r4 + 1)
      have := q4 j hj; rw [show [v1, v7, v4, v0] = hexPick [v0, v1, v2, v3, v4, v5, v6, v7] [1, 7, 4, 0] from rfl, a, b] at this
      exact this
    · have a := key [2, 3, 5, 6] rfl (j + r5); have b := key [2, 3, 5, 6] rfl (j + r5 + 1)
      have := q5 j hj; rw [show [v2, v3, v5, v6] = hexPick [v0, v1, v2, v3, v4, v5, v6, v7] [2, 3, 5, 6] from rfl, a, b] at this
      exact this

/-- six loops through the quadruples of the tables, unique edges among the eight vertices: a frame -/
theorem frame_of_cycles (k : Kernel) (v0 v1 v2 v3 v4 v5 v6 v7 x0 x1 x2 x3 x4 x5 : Nat)
    (hd : [v0, v1, v2, v3, v4, v5, v6, v7].Nodup) (hu : UniqEdges k [v0, v1, v2, v3, v4, v5, v6, v7])
    (c0 : Cyc k x0 [v3, v2, v1, v0]) (c1 : Cyc k x1 [v7, v6, v5, v4]) (c2 : Cyc k x2 [v1, v2, v6, v7])
    (c3 : Cyc k x3 [v4, v5, v3, v0]) (c4 : Cyc k x4 [v1, v7, v4, v0]) (c5 : Cyc k x5 [v2, v3, v5, v6]) :
    ∃ rot, Frame k [v0, v1, v2, v3, v4, v5, v6, v7] [x0, x1, x2, x3, x4, x5] rot := by
  obtain ⟨rot, C⟩ := frameCore_of_cycles k v0 v1 v2 v3 v4 v5 v6 v7 x0 x1 x2 x3 x4 x5 hd c0 c1 c2 c3 c4 c5
  exact ⟨rot, C, fun i hi j hj => C.opp_of_uniq hu hi hj⟩

/-- when the six faces form a closed surface, the opposite of the halfedge at position `j` of face `i` is the halfedge
    the tables give — whatever other edges the mesh holds (the reverse arc occurs in the tables only once, `tbl_edge`) -/
theorem FrameCore.opp_of_closed (F : FrameCore k vs xs rot) (hcl : ClosedSurface k xs) {i j : Nat} (hi : i < 6) (hj : j < 4) :
    opp ((k.hfHes (xs.getD i 0)).getD j 0) =
      (k.hfHes (xs.getD (rev i ((j + rot i) % 4)).1 0)).getD (((rev i ((j + rot i) % 4)).2 + 4 - rot (rev i ((j + rot i) % 4)).1) % 4) 0 := by
  have hm : (j + rot i) % 4 < 4 := Nat.mod_lt _ (by omega)
  obtain ⟨t1, t2, _, t4, t5⟩ := tbl_rev i hi _ hm
  have hmem : (k.hfHes (xs.getD i 0)).getD j 0 ∈ k.cellHalfedges xs :=
    List.mem_flatMap.mpr ⟨_, getD_mem_lt xs i (by rw [F.xlen]; exact hi), getD_mem_lt _ j (by rw [F.len i hi]; exact hj)⟩
  obtain ⟨y, hy, hey⟩ := List.mem_flatMap.mp (hcl.2 _ hmem)
  obtain ⟨i', hi', rfl⟩ := List.getElem_of_mem hy
  rw [getElem_eq_getD hi'] at hey
  rw [F.xlen] at hi'
  obtain ⟨j', hj', e⟩ := List.getElem_of_mem hey
  rw [getElem_eq_getD hj'] at e
  rw [F.len i' hi'] at hj'
  have r1 := F.run i hi j hj
  have r2 := F.run i' hi' j' hj'
  rw [e] at r2
  have f1 := r2.2.2.1.symm.trans ((Lookup.fromV_opp k _).trans r1.2.2.2)
  have f2 := r2.2.2.2.symm.trans ((Lookup.toV_opp k _).trans r1.2.2.1)
  have hr := F.rlt i hi
  have hr' := F.rlt i' hi'
  have b : ∀ i, i < 6 → ∀ n, II i n < 8 := fun i hi n => by
    have := (tbl_lt i hi (n % 4) (Nat.mod_lt _ (by omega))).1; rwa [II_mod] at this
  have a1 := F.vinj (b i' hi' _) (b i hi _) f1
  have a2 := F.vinj (b i' hi' _) (b i hi _) f2
  have hrt := F.rlt _ t1
  have := tbl_edge i' hi' _ t1 ((j' + rot i') % 4) (Nat.mod_lt _ (by omega)) _ t2
    ⟨by rw [II_mod, t4, a1]; exact II_congr i (by omega),
     by rw [t5, II_mod, ← a2]; exact II_congr i' (by omega)⟩
  obtain ⟨e1, e2⟩ := this
  rw [← e, ← e1]
  congr 1
  rw [← e1] at hrt
  omega

/-- **`hex_vertices` of a cell created by `add_cell(8 vertices)` reports the documented cube pattern** — under the
    conditions of `hexAddCellV_conv` and valid arguments (`HexOpOK`: the six halffaces free and distinct) -/
theorem hexAddCellV_pattern (k : Kernel) (vs : List Nat) (chk : Bool) (hi : GInv k) (hok : HexOpOK k (.addCellV chk vs))
    (hd : vs.Nodup) (hu : UniqEdges k vs)
    (hloop : ∀ I ∈ cellVFind, ∀ x, k.findHalffaceExtensive (hexPick vs I) = some x → HfLoop k x)
    (c : Nat) (h : (k.hexAddCellV vs chk).2 = some c) :
    ∃ r, (k.hexAddCellV vs chk).1.hexVertices c = some r ∧ (k.hexAddCellV vs chk).1.hexVertsPatternB c r = true := by
  have hg2 := ginv_hexAddCellV chk hok hi
  obtain ⟨_, hl, _, _⟩ := hexAddCellV_some k vs chk c h
  obtain ⟨v0, v1, v2, v3, v4, v5, v6, v7, rfl⟩ := length8_cases vs hl
  obtain ⟨k1, x0, x1, x2, x3, x4, x5, heq, hg1, hfb, hu1, c0, c1, c2, c3, c4, c5⟩ :=
    hexAddCellV_struct k v0 v1 v2 v3 v4 v5 v6 v7 chk hi hok.1 hu hloop c h
  obtain ⟨rot, F1⟩ := frame_of_cycles k1 v0 v1 v2 v3 v4 v5 v6 v7 x0 x1 x2 x3 x4 x5 hd hu1 c0 c1 c2 c3 c4 c5
  rw [heq] at h hg2 ⊢
  have hacc : k1.addCellAccepts [x0, x1, x2, x3, x4, x5] false = true := by unfold addCellAccepts; simp
  unfold addCell at h hg2 ⊢
  rw [if_pos hacc] at h hg2 ⊢
  have hc : c = k1.nC := by simpa using h.symm
  subst hc
  have F2 : Frame (k1.addCellCore [x0, x1, x2, x3, x4, x5]) [v0, v1, v2, v3, v4, v5, v6, v7] [x0, x1, x2, x3, x4, x5] rot :=
    F1.congr (addCellCore_edges _ _) (addCellCore_faces _ _) (addCellCore_eDel _ _)
  have hcell : (k1.addCellCore [x0, x1, x2, x3, x4, x5]).cellAt k1.nC = [x0, x1, x2, x3, x4, x5] := by
    unfold Kernel.cellAt; rw [addCellCore_cells]; exact getD_snoc_eq _ _ _
  have hlive : (k1.addCellCore [x0, x1, x2, x3, x4, x5]).liveC k1.nC = true := by
    unfold Kernel.liveC Kernel.cDeleted nC
    rw [addCellCore_cells, addCellCore_cDel, getD_snoc_false, getD_of_ge _ _ _ (by rw [hg1.wf.len.cDel]; exact Nat.le_refl _)]
    simp
  have hfb2 : (k1.addCellCore [x0, x1, x2, x3, x4, x5]).fBU = true := by rw [addCellCore_fBU]; exact hfb
  have hof : ∀ i, i < 6 → (k1.addCellCore [x0, x1, x2, x3, x4, x5]).cellOf ([x0, x1, x2, x3, x4, x5].getD i 0) = some k1.nC := by
    intro i hi6
    have hm : [x0, x1, x2, x3, x4, x5].getD i 0 ∈ (k1.addCellCore [x0, x1, x2, x3, x4, x5]).cellAt k1.nC := by
      rw [hcell]; exact getD_mem_lt _ i (by simpa using hi6)
    have hmc := cellAt_mem_cells (liveC_lt hlive)
    rw [hcell] at hmc
    have hlt : [x0, x1, x2, x3, x4, x5].getD i 0 < (k1.addCellCore [x0, x1, x2, x3, x4, x5]).nHF :=
      hg2.wf.range.cells _ hmc _ (getD_mem_lt _ i (by simpa using hi6))
    rw [(hg2.wf.cache.f hfb2).2 _ hlt]
    exact sCellOf_of_mem hg2.one hlt hlive hm
  exact F2.pattern hcell hof

end HexAll
end Kernel
end OVM

import OVM.Hex.FrameIdx
/- Exhaustive run of the index-level re-ordering over the 720 arrangements and the stored rotations of the first face.  (kernel evaluation; split off because of its running time) -/
namespace OVM
namespace Kernel
namespace HexAll
open OVM.Gen.HexTables

/-- all 720 arrangements, stored rotations 0 and 1 of the first face: the re-ordering succeeds and yields a
    re-arrangement in convention -/
theorem tbl_reorder_a : (perms6.all fun q => [0, 1].all fun r =>
    match reorderI q r with
    | some q' => convI q' && sortL q' == [0, 1, 2, 3, 4, 5]
    | none => false) = true := by decide +kernel

end HexAll
end Kernel
end OVM

import OVM.Base.ListX
/-
  Lemmas about the list utilities of `ListX` (core only).
-/
namespace OVM

@[simp] theorem length_resizeL {α} (l : List α) (n : Nat) (d : α) : (resizeL l n d).length = n := by
  simp [resizeL]; omega

@[simp] theorem length_swapAt {α} (l : List α) (i j : Nat) : (swapAt l i j).length = l.length := by
  unfold swapAt; split <;> simp

theorem swapAt_self {α} (l : List α) (i : Nat) : swapAt l i i = l := by
  unfold swapAt
  cases h : l[i]? with
  | none => simp
  | some a =>
    simp only
    have hi : i < l.length := by
      rcases Nat.lt_or_ge i l.length with h' | h'
      · exact h'
      · rw [List.getElem?_eq_none h'] at h; cases h
    rw [List.getElem?_eq_getElem hi] at h
    injection h with h
    subst h
    simp

theorem getElem?_swapAt {α} (l : List α) (i j n : Nat) (hi : i < l.length) (hj : j < l.length) :
    (swapAt l i j)[n]? = if n = j then l[i]? else if n = i then l[j]? else l[n]? := by
  unfold swapAt
  rw [List.getElem?_eq_getElem hi, List.getElem?_eq_getElem hj]
  simp only
  by_cases h1 : n = j
  · subst h1; simp [hj, List.getElem?_eq_getElem hi]
  · by_cases h2 : n = i
    · subst h2
      simp [h1, List.getElem?_set, hi, List.getElem?_eq_getElem hj, Ne.symm h1]
    · simp [h1, h2, List.getElem?_set, Ne.symm h1, Ne.symm h2]

/-- swapping twice restores the list -/
theorem swapAt_swapAt {α} (l : List α) (i j : Nat) : swapAt (swapAt l i j) i j = l := by
  by_cases hi : i < l.length
  · by_cases hj : j < l.length
    · apply List.ext_getElem?
      intro n
      rw [getElem?_swapAt _ _ _ _ (by simpa using hi) (by simpa using hj),
          getElem?_swapAt _ _ _ _ hi hj, getElem?_swapAt _ _ _ _ hi hj, getElem?_swapAt _ _ _ _ hi hj]
      by_cases h1 : n = j
      · subst h1; by_cases h2 : i = n <;> simp [h2]
      · by_cases h2 : n = i
        · subst h2; simp [h1]
        · simp [h1, h2]
    · have : l[j]? = none := List.getElem?_eq_none (by omega)
      simp [swapAt, this]
  · have : l[i]? = none := List.getElem?_eq_none (by omega)
    simp [swapAt, this]

@[simp] theorem length_removeAll (l : List Nat) (x : Nat) : (removeAll l x).length ≤ l.length := by
  unfold removeAll; exact List.length_filter_le _ _

/-- folding `modify` over any index list keeps the length -/
theorem length_foldl_modify {α β} (f : β → α → α) (idx : β → Nat) (xs : List β) (l : List α) :
    (xs.foldl (fun l x => l.modify (idx x) (f x)) l).length = l.length := by
  induction xs generalizing l with
  | nil => rfl
  | cons x t ih => simp only [List.foldl_cons]; rw [ih]; simp

theorem length_foldl_set {α β} (v : β → α) (idx : β → Nat) (xs : List β) (l : List α) :
    (xs.foldl (fun l x => l.set (idx x) (v x)) l).length = l.length := by
  induction xs generalizing l with
  | nil => rfl
  | cons x t ih => simp only [List.foldl_cons]; rw [ih]; simp

/-- modifying, at the positions selected by a filter over all indices, with a function that is
    the identity at the unselected positions is the same as mapping over the whole list -/
theorem foldl_modify_filter_eq_map {α} (f : α → α) (p : Nat → Bool) (l : List α)
    (hid : ∀ i (h : i < l.length), p i = false → f l[i] = l[i]) :
    ((List.range l.length).filter p).foldl (fun m i => m.modify i f) l = l.map f := by
  -- generalise: processing indices ≥ n of the filtered range, starting from a list whose prefix
  -- of length n is already mapped
  have key : ∀ (n : Nat), n ≤ l.length →
      (((List.range l.length).drop n).filter p).foldl (fun m i => m.modify i f)
        ((l.take n).map f ++ l.drop n) = l.map f := by
    intro n
    induction hk : l.length - n generalizing n with
    | zero =>
      intro hn
      have : n = l.length := by omega
      subst this
      have : (List.range l.length).drop l.length = [] := by simp
      rw [this]; simp
    | succ d ih =>
      intro hn
      have hlt : n < l.length := by omega
      have hdrop : (List.range l.length).drop n = n :: (List.range l.length).drop (n + 1) := by
        rw [List.drop_eq_getElem_cons (by simpa using hlt)]
        simp
      rw [hdrop]
      have step : ((l.take (n + 1)).map f ++ l.drop (n + 1)) = ((l.take n).map f ++ l.drop n).modify n f := by
        apply List.ext_getElem?
        intro i
        simp only [List.getElem?_modify, List.getElem?_append, List.length_map, List.length_take,
          List.getElem?_map, List.getElem?_take, List.getElem?_drop]
        have h1 : min n l.length = n := by omega
        have h2 : min (n + 1) l.length = n + 1 := by omega
        rw [h1, h2]
        by_cases hi : i < n
        · have : i < n + 1 := by omega
          have hne : n ≠ i := by omega
          simp [hi, this, hne]
        · by_cases hin : i = n
          · subst hin
            simp
          · have h3 : ¬ i < n + 1 := by omega
            have hne : n ≠ i := by omega
            simp [hi, h3, hne]
            congr 1; omega
      by_cases hp : p n = true
      · simp only [List.filter_cons, hp, if_true, List.foldl_cons]
        rw [← step]
        exact ih (n + 1) (by omega) (by omega)
      · simp only [List.filter_cons, hp, Bool.false_eq_true, if_false]
        have hpn : p n = false := by simpa using hp
        have same : ((l.take n).map f ++ l.drop n) = ((l.take (n + 1)).map f ++ l.drop (n + 1)) := by
          rw [step]
          apply List.ext_getElem?
          intro i
          simp only [List.getElem?_modify]
          by_cases hin : n = i
          · subst hin
            have h1 : min n l.length = n := by omega
            simp [List.getElem?_append, h1, List.getElem?_drop, List.getElem?_eq_getElem hlt, hid n hlt hpn]
          · simp [hin]
        rw [same]
        exact ih (n + 1) (by omega) (by omega)
  simpa using key 0 (Nat.zero_le _)

end OVM

namespace OVM

/-- ascending (weakly) -/
def SortedLE : List Nat → Prop
  | a :: b :: t => a ≤ b ∧ SortedLE (b :: t)
  | _ => True

/-- strictly ascending -/
def SortedLT : List Nat → Prop
  | a :: b :: t => a < b ∧ SortedLT (b :: t)
  | _ => True

theorem sortedLE_insertDup (x : Nat) (l : List Nat) (h : SortedLE l) : SortedLE (insertDup x l) := by
  induction l with
  | nil => simp [insertDup, SortedLE]
  | cons a t ih =>
    unfold insertDup
    split
    · rename_i hxa; exact ⟨hxa, h⟩
    · rename_i hxa
      cases t with
      | nil => simp [insertDup, SortedLE]; omega
      | cons b t' =>
        have hab := h.1
        have ht := h.2
        have := ih ht
        unfold insertDup at this ⊢
        split
        · rename_i hxb; exact ⟨by omega, hxb, ht⟩
        · rename_i hxb
          simp only [hxb, if_false] at this
          exact ⟨hab, this⟩

theorem sortedLE_sortL (l : List Nat) : SortedLE (sortL l) := by
  unfold sortL
  induction l with
  | nil => simp [SortedLE]
  | cons a t ih => simp only [List.foldr_cons]; exact sortedLE_insertDup a _ ih

theorem mem_insertDup (x y : Nat) (l : List Nat) : y ∈ insertDup x l ↔ y = x ∨ y ∈ l := by
  induction l with
  | nil => simp [insertDup]
  | cons a t ih =>
    unfold insertDup; split
    · simp
    · simp [ih]; constructor <;> (intro h; rcases h with h | h | h <;> simp_all)

theorem mem_sortL (y : Nat) (l : List Nat) : y ∈ sortL l ↔ y ∈ l := by
  unfold sortL
  induction l with
  | nil => simp
  | cons a t ih => simp only [List.foldr_cons, mem_insertDup, ih, List.mem_cons]

theorem sortedLT_uniqAdj (l : List Nat) (h : SortedLE l) : SortedLT (uniqAdj l) := by
  induction l with
  | nil => simp [uniqAdj, SortedLT]
  | cons a t ih =>
    cases t with
    | nil => simp [uniqAdj, SortedLT]
    | cons b t' =>
      have hab := h.1
      have ht := h.2
      have iht := ih ht
      unfold uniqAdj
      split
      · exact iht
      · rename_i hne
        have hlt : a < b := by
          have : a ≠ b := by simpa using hne
          omega
        -- head of uniqAdj (b :: t') is b
        cases t' with
        | nil => simp [uniqAdj, SortedLT]; exact hlt
        | cons c t'' =>
          unfold uniqAdj at iht ⊢
          split
          · rename_i hbc
            have hbc' : b = c := by simpa using hbc
            simp only [hbc, if_true] at iht
            subst hbc'
            -- uniqAdj (b :: t'') starts with b
            have hhead : ∀ (l : List Nat), ∃ r, uniqAdj (b :: l) = b :: r := by
              intro l
              induction l with
              | nil => exact ⟨[], by simp [uniqAdj]⟩
              | cons d l' ihl =>
                unfold uniqAdj; split
                · rename_i hbd
                  have : b = d := by simpa using hbd
                  subst this; exact ihl
                · exact ⟨_, rfl⟩
            obtain ⟨r, hr⟩ := hhead t''
            rw [hr] at iht ⊢
            exact ⟨hlt, iht⟩
          · rename_i hbc
            simp only [hbc, if_false] at iht
            exact ⟨hlt, iht⟩

theorem mem_uniqAdj (y : Nat) (l : List Nat) : y ∈ uniqAdj l ↔ y ∈ l := by
  induction l with
  | nil => simp [uniqAdj]
  | cons a t ih =>
    cases t with
    | nil => simp [uniqAdj]
    | cons b t' =>
      unfold uniqAdj; split
      · rename_i hab
        have : a = b := by simpa using hab
        subst this; rw [ih]; simp
      · simp only [List.mem_cons] at ih ⊢; rw [ih]

theorem sortedLT_nodup (l : List Nat) (h : SortedLT l) : l.Nodup := by
  have lower : ∀ (l : List Nat) (a : Nat), SortedLT (a :: l) → ∀ x ∈ l, a < x := by
    intro l
    induction l with
    | nil => intro a _ x hx; cases hx
    | cons b t ih =>
      intro a h x hx
      rcases List.mem_cons.mp hx with rfl | hx
      · exact h.1
      · exact Nat.lt_trans h.1 (ih b h.2 x hx)
  induction l with
  | nil => exact List.nodup_nil
  | cons a t ih =>
    refine List.nodup_cons.mpr ⟨?_, ih ?_⟩
    · intro hm; exact Nat.lt_irrefl _ (lower t a h a hm)
    · cases t with
      | nil => trivial
      | cons b t' => exact h.2

/-- `std::sort` + `std::unique`: strictly ascending, duplicate-free, same members -/
theorem sortUniq_sorted (l : List Nat) : SortedLT (sortUniq l) := sortedLT_uniqAdj _ (sortedLE_sortL l)
theorem sortUniq_nodup (l : List Nat) : (sortUniq l).Nodup := sortedLT_nodup _ (sortUniq_sorted l)
theorem mem_sortUniq (y : Nat) (l : List Nat) : y ∈ sortUniq l ↔ y ∈ l := by
  unfold sortUniq; rw [mem_uniqAdj, mem_sortL]

end OVM

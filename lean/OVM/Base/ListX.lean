/-
  List utilities shared by the mechanism model (no Mathlib, core only).
  Everything here is executable; lemmas about them live in `OVM/Base/ListLemmas.lean`.
-/
namespace OVM

/-- `std::vector::resize(n, d)`: truncate or pad with `d`. -/
def resizeL {α} (l : List α) (n : Nat) (d : α) : List α :=
  l.take n ++ List.replicate (n - l.length) d

/-- swap the elements at positions `i` and `j` (no-op when out of range). -/
def swapAt {α} (l : List α) (i j : Nat) : List α :=
  match l[i]?, l[j]? with
  | some a, some b => (l.set i b).set j a
  | _, _ => l

/-- `std::remove` + `erase`/`resize`: delete every occurrence of `x`. -/
def removeAll (l : List Nat) (x : Nat) : List Nat := l.filter (· != x)

/-- insertion into an ascending duplicate-free list (`std::set<T>::insert`). -/
def insertSorted (x : Nat) : List Nat → List Nat
  | [] => [x]
  | y :: ys => if x < y then x :: y :: ys else if x = y then y :: ys else y :: insertSorted x ys

/-- contents of a `std::set` built by inserting the elements of `l` in order. -/
def toSet (l : List Nat) : List Nat := l.foldl (fun s x => insertSorted x s) []

/-- insertion sort (ascending, keeps duplicates) – the model of `std::sort` on handles. -/
def insertDup (x : Nat) : List Nat → List Nat
  | [] => [x]
  | y :: ys => if x ≤ y then x :: y :: ys else y :: insertDup x ys

def sortL (l : List Nat) : List Nat := l.foldr insertDup []

/-- `std::adjacent_find(...) != end`: two equal neighbours exist. -/
def adjDup : List Nat → Bool
  | a :: b :: t => a == b || adjDup (b :: t)
  | _ => false

/-- number of elements left by `std::unique` with predicate `a/2 == b/2`. -/
def uniqByEdgeCount : List Nat → Nat
  | [] => 0
  | [_] => 1
  | a :: b :: t => (if a / 2 == b / 2 then 0 else 1) + uniqByEdgeCount (b :: t)

/-- `std::unique` after `std::sort`: remove adjacent duplicates. -/
def uniqAdj : List Nat → List Nat
  | a :: b :: t => if a == b then uniqAdj (b :: t) else a :: uniqAdj (b :: t)
  | l => l

/-- `std::sort` followed by `std::unique`. -/
def sortUniq (l : List Nat) : List Nat := uniqAdj (sortL l)

/-- first-occurrence de-duplication, keeping order. -/
def dedupKeep (l : List Nat) : List Nat :=
  l.foldl (fun acc x => if acc.contains x then acc else acc ++ [x]) []

/-- index of first occurrence -/
def idxOf? (l : List Nat) (x : Nat) : Option Nat :=
  let i := l.findIdx (· == x)
  if i < l.length then some i else none

end OVM

/-
  `n ^^^ 1` and `n &&& 1` on naturals, in the form `omega` can use.
-/
namespace OVM

theorem xor_one_eq (n : Nat) : n ^^^ 1 = if n % 2 = 0 then n + 1 else n - 1 := by
  apply Nat.eq_of_testBit_eq
  intro i
  rw [Nat.testBit_xor]
  cases i with
  | zero =>
    simp only [Nat.testBit_zero]
    split <;> rename_i h
    · have : (n + 1) % 2 = 1 := by omega
      simp [h, this]
    · have h1 : n % 2 = 1 := by omega
      have : (n - 1) % 2 = 0 := by omega
      simp [h1, this]
  | succ j =>
    have h1 : Nat.testBit 1 (j + 1) = false := by
      simp [Nat.testBit_succ]
    rw [h1, Bool.xor_false]
    simp only [Nat.testBit_succ]
    split <;> rename_i h
    · have : (n + 1) / 2 = n / 2 := by omega
      rw [this]
    · have : (n - 1) / 2 = n / 2 := by omega
      rw [this]

theorem and_one_eq (n : Nat) : n &&& 1 = n % 2 := Nat.and_one_is_mod n

theorem xor_one_div (n : Nat) : (n ^^^ 1) / 2 = n / 2 := by
  rw [xor_one_eq]; split <;> omega

theorem xor_one_mod (n : Nat) : (n ^^^ 1) % 2 = 1 - n % 2 := by
  rw [xor_one_eq]; split <;> omega

theorem xor_one_xor_one (n : Nat) : (n ^^^ 1) ^^^ 1 = n := by
  rw [xor_one_eq (n ^^^ 1), xor_one_eq n]; split <;> split <;> omega

theorem xor_one_ne (n : Nat) : n ^^^ 1 ≠ n := by
  rw [xor_one_eq]; split <;> omega

end OVM

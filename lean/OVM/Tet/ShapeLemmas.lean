import OVM.Tet.Spec
import OVM.Kernel.Frames
import OVM.Refine.DeleteFrames
import OVM.Base.ListLemmas
/-
  Lemmas for C15(a): which mechanism functions keep `ValenceShape` (every stored face has three
  halfedges, every stored cell four halffaces).  `ValenceShape` only reads `faces` and `cells`;
  all proofs go through the frame lemmas for these two fields.
-/
namespace OVM
namespace Kernel

/-! ### list helpers: a predicate on all elements survives slot exchange, erasure, modification -/
section lists
variable {α : Type} {P : α → Prop}

theorem all_swapAt (l : List α) (i j : Nat) (h : ∀ x ∈ l, P x) : ∀ x ∈ swapAt l i j, P x := by
  unfold swapAt
  split
  · rename_i a b ha hb
    intro x hx
    rcases List.mem_or_eq_of_mem_set hx with hx | rfl
    · rcases List.mem_or_eq_of_mem_set hx with hx | rfl
      · exact h x hx
      · exact h _ (List.mem_of_getElem? hb)
    · exact h _ (List.mem_of_getElem? ha)
  · exact h

theorem all_eraseIdx (l : List α) (i : Nat) (h : ∀ x ∈ l, P x) : ∀ x ∈ l.eraseIdx i, P x :=
  fun x hx => h x ((List.eraseIdx_sublist l i).subset hx)

theorem all_modify (l : List α) (i : Nat) (f : α → α) (h : ∀ x ∈ l, P x) (hf : ∀ x, P x → P (f x)) :
    ∀ x ∈ l.modify i f, P x := by
  induction l generalizing i with
  | nil => intro x hx; simp at hx
  | cons a t ih =>
    cases i with
    | zero =>
      intro x hx
      simp only [List.modify_zero_cons, List.mem_cons] at hx
      rcases hx with rfl | hx
      · exact hf _ (h a (by simp))
      · exact h x (by simp [hx])
    | succ n =>
      intro x hx
      simp only [List.modify_succ_cons, List.mem_cons] at hx
      rcases hx with rfl | hx
      · exact h _ (by simp)
      · exact ih n (fun y hy => h y (by simp [hy])) x hx

theorem all_foldl_modify {β} (idx : β → Nat) (f : α → α) (xs : List β) (l : List α)
    (h : ∀ x ∈ l, P x) (hf : ∀ x, P x → P (f x)) :
    ∀ x ∈ xs.foldl (fun cs c => cs.modify (idx c) f) l, P x := by
  induction xs generalizing l with
  | nil => exact h
  | cons b t ih => exact ih _ (all_modify l (idx b) f h hf)

theorem all_append_one (l : List α) (a : α) (h : ∀ x ∈ l, P x) (ha : P a) : ∀ x ∈ l ++ [a], P x := by
  intro x hx
  rcases List.mem_append.mp hx with hx | hx
  · exact h x hx
  · simp at hx; subst hx; exact ha

theorem all_set (l : List α) (i : Nat) (a : α) (h : ∀ x ∈ l, P x) (ha : P a) : ∀ x ∈ l.set i a, P x := by
  intro x hx
  rcases List.mem_or_eq_of_mem_set hx with hx | rfl
  · exact h x hx
  · exact ha
end lists

/-! ### `ValenceShape` reads only `faces` and `cells` -/
theorem valenceShape_of_eq {k k' : Kernel} (hf : k'.faces = k.faces) (hc : k'.cells = k.cells)
    (h : ValenceShape k) : ValenceShape k' := by
  unfold ValenceShape at *; rw [hf, hc]; exact h

theorem valenceShape_empty : ValenceShape ({} : Kernel) := by
  constructor <;> intro x hx <;> simp at hx

/-! ### construction: the overrides and the conveniences -/
section adds
variable (k : Kernel)
@[simp] theorem addEdge_faces (a b : Nat) (d : Bool) : (k.addEdge a b d).1.faces = k.faces := by
  unfold addEdge; split <;> simp
@[simp] theorem addEdge_cells (a b : Nat) (d : Bool) : (k.addEdge a b d).1.cells = k.cells := by
  unfold addEdge; split <;> simp
theorem addFace_valence (hes : List Nat) (chk : Bool) (h : ValenceShape k) (hl : hes.length = 3) :
    ValenceShape (k.addFace hes chk).1 := by
  unfold addFace; split
  · unfold ValenceShape; simp only [addFaceCore_faces, addFaceCore_cells]
    exact ⟨all_append_one _ _ h.1 hl, h.2⟩
  · exact h
/-- a fold that keeps `faces` and `cells` and appends one element per step -/
theorem foldl_pair_inv {β} (step : Kernel × List Nat → β → Kernel × List Nat)
    (hs : ∀ st x, (step st x).1.faces = st.1.faces ∧ (step st x).1.cells = st.1.cells ∧ (step st x).2.length = st.2.length + 1)
    (xs : List β) (st : Kernel × List Nat) :
    (xs.foldl step st).1.faces = st.1.faces ∧ (xs.foldl step st).1.cells = st.1.cells ∧
    (xs.foldl step st).2.length = st.2.length + xs.length := by
  induction xs generalizing st with
  | nil => simp
  | cons x t ih =>
    simp only [List.foldl_cons]
    have a := ih (step st x)
    have b := hs st x
    refine ⟨a.1.trans b.1, a.2.1.trans b.2.1, ?_⟩
    rw [a.2.2, b.2.2]; simp; omega

theorem addFaceV_valence (vs : List Nat) (h : ValenceShape k) (hl : vs.length = 3) :
    ValenceShape (k.addFaceV vs).1 := by
  unfold addFaceV
  split
  · exact valenceShape_of_eq rfl rfl h
  · rename_i v0 t
    simp only
    generalize hr : List.foldl _ (k, ([] : List Nat)) _ = r
    have f := foldl_pair_inv (fun (st : Kernel × List Nat) (ab : Nat × Nat) =>
      match st.1.addEdge ab.1 ab.2 false with
      | (k', e) => (k', st.2 ++ [heOf e (if (k'.edgeAt e).2 == ab.1 then 1 else 0)])) (by
        intro st x; simp) ((v0 :: t).zip ((v0 :: t).tail ++ [v0])) (k, [])
    rw [hr] at f
    obtain ⟨k1, hes⟩ := r
    simp only at f ⊢
    have hlen : hes.length = 3 := by
      rw [f.2.2]; simp at hl ⊢; omega
    exact addFace_valence k1 hes false (valenceShape_of_eq f.1 f.2.1 h) hlen

theorem tetAddFace_valence (hes : List Nat) (chk : Bool) (h : ValenceShape k) :
    ValenceShape (k.tetAddFace hes chk).1 := by
  unfold tetAddFace; split
  · exact h
  · rename_i hl; simp at hl; exact addFace_valence k hes chk h hl

theorem tetAddFaceV_valence (vs : List Nat) (h : ValenceShape k) : ValenceShape (k.tetAddFaceV vs).1 := by
  unfold tetAddFaceV; split
  · exact h
  · rename_i hl; simp at hl; exact addFaceV_valence k vs h hl

theorem addCell_valence (hfs : List Nat) (chk : Bool) (h : ValenceShape k) (hl : hfs.length = 4) :
    ValenceShape (k.addCell hfs chk).1 := by
  unfold addCell; split
  · unfold ValenceShape; simp only [addCellCore_faces, addCellCore_cells]
    exact ⟨h.1, all_append_one _ _ h.2 hl⟩
  · exact h

theorem tetAddCell_valence (hfs : List Nat) (chk : Bool) (h : ValenceShape k) :
    ValenceShape (k.tetAddCell hfs chk).1 := by
  unfold tetAddCell; split
  · exact h
  · split
    · exact h
    · split
      · exact h
      · rename_i hl _ _; simp at hl; exact addCell_valence k hfs chk h hl

/-- refused calls of the three overrides return the state they were given -/
theorem tetAddFace_refused (hes : List Nat) (chk : Bool) (h : (k.tetAddFace hes chk).2 = none) :
    (k.tetAddFace hes chk).1 = k := by
  unfold tetAddFace at *; split
  · rfl
  · rename_i hl; simp only [hl, if_false] at h ⊢
    unfold addFace at *; split <;> simp_all
theorem tetAddCell_refused (hfs : List Nat) (chk : Bool) (h : (k.tetAddCell hfs chk).2 = none) :
    (k.tetAddCell hfs chk).1 = k := by
  unfold tetAddCell at *; split
  · rfl
  · split
    · rfl
    · split
      · rfl
      · rename_i h1 h2 h3; simp only [h1, h2, h3, if_false] at h ⊢
        unfold addCell at *; split <;> simp_all
theorem tetAddFace_wrong_valence (hes : List Nat) (chk : Bool) (h : hes.length ≠ 3) : k.tetAddFace hes chk = (k, none) := by
  unfold tetAddFace; simp [h]
theorem tetAddFaceV_wrong_valence (vs : List Nat) (h : vs.length ≠ 3) : k.tetAddFaceV vs = (k, none) := by
  unfold tetAddFaceV; simp [h]
theorem tetAddCell_wrong_valence (hfs : List Nat) (chk : Bool) (h : hfs.length ≠ 4) : k.tetAddCell hfs chk = (k, none) := by
  unfold tetAddCell; simp [h]
theorem tetAddCell_wrong_face_valence (hfs : List Nat) (chk : Bool) (x : Nat) (hx : x ∈ hfs)
    (h : (k.faceAt (eOf x)).length ≠ 3) : k.tetAddCell hfs chk = (k, none) := by
  unfold tetAddCell; split
  · rfl
  · have : (hfs.any fun hf => (k.faceAt (eOf hf)).length != 3) = true := by
      simp only [List.any_eq_true]; exact ⟨x, hx, by simp [h]⟩
    simp [this]

@[simp] theorem tetAddHalfedge_faces (a b : Nat) : (k.tetAddHalfedge a b).1.faces = k.faces := by
  unfold tetAddHalfedge; split <;> simp
@[simp] theorem tetAddHalfedge_cells (a b : Nat) : (k.tetAddHalfedge a b).1.cells = k.cells := by
  unfold tetAddHalfedge; split <;> simp
theorem tetAddHalfedge_valence (a b : Nat) (h : ValenceShape k) : ValenceShape (k.tetAddHalfedge a b).1 :=
  valenceShape_of_eq (by simp) (by simp) h

theorem tetAddHalfface_valence (hes : List Nat) (chk : Bool) (h : ValenceShape k) :
    ValenceShape (k.tetAddHalfface hes chk).1 := by
  unfold tetAddHalfface
  split
  · split
    · exact h
    · exact tetAddFace_valence k _ chk h
  · exact valenceShape_of_eq rfl rfl h

theorem tetAddHalfface3_valence (v0 v1 v2 : Nat) (chk : Bool) (h : ValenceShape k) :
    ValenceShape (k.tetAddHalfface3 v0 v1 v2 chk).1 := by
  simp only [tetAddHalfface3]
  apply tetAddHalfface_valence
  apply tetAddHalfedge_valence
  apply tetAddHalfedge_valence
  apply tetAddHalfedge_valence
  exact h

theorem tetAddCell4_valence (v0 v1 v2 v3 : Nat) (chk : Bool) (h : ValenceShape k) :
    ValenceShape (k.tetAddCell4 v0 v1 v2 v3 chk).1 := by
  have h4 : ValenceShape ((((k.tetAddHalfface3 v0 v1 v2 false).1.tetAddHalfface3 v0 v2 v3 false).1.tetAddHalfface3 v0 v3 v1 false).1.tetAddHalfface3 v1 v3 v2 false).1 := by
    apply tetAddHalfface3_valence
    apply tetAddHalfface3_valence
    apply tetAddHalfface3_valence
    apply tetAddHalfface3_valence
    exact h
  simp only [tetAddCell4]
  generalize k.tetAddHalfface3 v0 v1 v2 false = r0 at h4 ⊢
  generalize r0.1.tetAddHalfface3 v0 v2 v3 false = r1 at h4 ⊢
  generalize r1.1.tetAddHalfface3 v0 v3 v1 false = r2 at h4 ⊢
  generalize r2.1.tetAddHalfface3 v1 v3 v2 false = r3 at h4 ⊢
  split
  · exact tetAddCell_valence _ _ chk h4
  · exact valenceShape_of_eq rfl rfl h4

theorem findOrAddFaceV_valence (vs : List Nat) (h : ValenceShape k) (hl : vs.length = 3) :
    ValenceShape (k.findOrAddFaceV vs).1 := by
  unfold findOrAddFaceV; split
  · exact h
  · exact addFaceV_valence k vs h hl

theorem tetAddCellV_valence (vs : List Nat) (chk : Bool) (h : ValenceShape k) :
    ValenceShape (k.tetAddCellV vs chk).1 := by
  unfold tetAddCellV
  split
  · exact h
  · split
    · exact h
    · have h4 : ValenceShape ((((k.findOrAddFaceV [vs.getD 0 0, vs.getD 1 0, vs.getD 2 0]).1.findOrAddFaceV [vs.getD 0 0, vs.getD 2 0, vs.getD 3 0]).1.findOrAddFaceV [vs.getD 0 0, vs.getD 3 0, vs.getD 1 0]).1.findOrAddFaceV [vs.getD 1 0, vs.getD 3 0, vs.getD 2 0]).1 := by
        apply findOrAddFaceV_valence _ _ _ rfl
        apply findOrAddFaceV_valence _ _ _ rfl
        apply findOrAddFaceV_valence _ _ _ rfl
        apply findOrAddFaceV_valence _ _ _ rfl
        exact h
      simp only []
      generalize k.findOrAddFaceV [vs.getD 0 0, vs.getD 1 0, vs.getD 2 0] = r0 at h4 ⊢
      generalize r0.1.findOrAddFaceV [vs.getD 0 0, vs.getD 2 0, vs.getD 3 0] = r1 at h4 ⊢
      generalize r1.1.findOrAddFaceV [vs.getD 0 0, vs.getD 3 0, vs.getD 1 0] = r2 at h4 ⊢
      generalize r2.1.findOrAddFaceV [vs.getD 1 0, vs.getD 3 0, vs.getD 2 0] = r3 at h4 ⊢
      split
      · split
        · exact h4
        · split
          · exact h4
          · exact addCell_valence _ _ false h4 rfl
      · exact valenceShape_of_eq rfl rfl h4

theorem tetAddCellV_refused_early (vs : List Nat) (chk : Bool) (h : vs.length ≠ 4 ∨ k.fullBU = false) :
    k.tetAddCellV vs chk = (k, none) := by
  unfold tetAddCellV
  rcases h with h | h
  · simp [h]
  · split
    · rfl
    · simp [h]
end adds

/-! ### index swaps -/
section swaps
variable (k : Kernel) (a b : Nat)

theorem swapCell_valence (h : ValenceShape k) : ValenceShape (k.swapCell a b) := by
  unfold swapCell; split
  · exact h
  · exact ⟨h.1, all_swapAt _ _ _ h.2⟩

theorem swapFace_valence (h : ValenceShape k) : ValenceShape (k.swapFace a b) := by
  unfold swapFace; split
  · exact h
  · refine ⟨all_swapAt _ _ _ h.1, ?_⟩
    exact all_foldl_modify (fun c => c) _ _ _ h.2 (fun x hx => by simpa using hx)

theorem swapEdge_valence (h : ValenceShape k) : ValenceShape (k.swapEdge a b) := by
  unfold swapEdge; split
  · exact h
  · refine ⟨?_, h.2⟩
    exact all_foldl_modify (fun c => c) _ _ _ h.1 (fun x hx => by simpa using hx)

theorem swapVertex_valence (h : ValenceShape k) : ValenceShape (k.swapVertex a b) :=
  valenceShape_of_eq (by simp) (by simp) h
end swaps

/-! ### shape *and* deletion modes: the relation `Keeps` -/

/-- `k'` keeps the deletion modes of `k`, and the valence shape if `k` has it -/
structure Keeps (k k' : Kernel) : Prop where
  shape : ValenceShape k → ValenceShape k'
  deferred : k'.deferred = k.deferred
  fast : k'.fast = k.fast

theorem Keeps.refl (k : Kernel) : Keeps k k := ⟨id, rfl, rfl⟩
theorem Keeps.trans {a b c : Kernel} (h1 : Keeps a b) (h2 : Keeps b c) : Keeps a c :=
  ⟨fun h => h2.shape (h1.shape h), h2.deferred.trans h1.deferred, h2.fast.trans h1.fast⟩
/-- changing only fields that neither the shape nor the modes read -/
theorem Keeps.of_eq {k k' : Kernel} (hf : k'.faces = k.faces) (hc : k'.cells = k.cells)
    (hd : k'.deferred = k.deferred) (hfa : k'.fast = k.fast) : Keeps k k' :=
  ⟨valenceShape_of_eq hf hc, hd, hfa⟩

/-- deletion is harmless for the shape when it does not renumber by shifting -/
def ModeOK (k : Kernel) : Prop := k.deferred = true ∨ k.fast = true
theorem Keeps.modeOK {k k' : Kernel} (h : Keeps k k') (m : ModeOK k) : ModeOK k' := by
  unfold ModeOK at *; rw [h.deferred, h.fast]; exact m

theorem foldl_keeps {β} (step : Kernel → β → Kernel) (hs : ∀ k x, Keeps k (step k x)) (xs : List β) (k : Kernel) :
    Keeps k (xs.foldl step k) := by
  induction xs generalizing k with
  | nil => exact Keeps.refl k
  | cons x t ih => exact (hs k x).trans (ih _)

theorem foldl_keeps_mode {β} (step : Kernel → β → Kernel) (hs : ∀ k x, ModeOK k → Keeps k (step k x)) (xs : List β)
    (k : Kernel) (m : ModeOK k) : Keeps k (xs.foldl step k) := by
  induction xs generalizing k with
  | nil => exact Keeps.refl k
  | cons x t ih => exact (hs k x m).trans (ih _ ((hs k x m).modeOK m))

section modes
variable (k : Kernel)
@[simp] theorem addEdgeCore_deferred (a b : Nat) : (k.addEdgeCore a b).deferred = k.deferred := by
  unfold addEdgeCore; simp only; split <;> split <;> rfl
@[simp] theorem addEdgeCore_fast (a b : Nat) : (k.addEdgeCore a b).fast = k.fast := by
  unfold addEdgeCore; simp only; split <;> split <;> rfl
@[simp] theorem addFaceCore_deferred (hes : List Nat) : (k.addFaceCore hes).deferred = k.deferred := by
  unfold addFaceCore; simp only; split <;> split <;> rfl
@[simp] theorem addFaceCore_fast (hes : List Nat) : (k.addFaceCore hes).fast = k.fast := by
  unfold addFaceCore; simp only; split <;> split <;> rfl
@[simp] theorem addCellCore_deferred (hfs : List Nat) : (k.addCellCore hfs).deferred = k.deferred := by
  unfold addCellCore; simp only; split <;> first | rfl | (split <;> simp)
@[simp] theorem addCellCore_fast (hfs : List Nat) : (k.addCellCore hfs).fast = k.fast := by
  unfold addCellCore; simp only; split <;> first | rfl | (split <;> simp)

theorem addEdge_keeps (a b : Nat) (d : Bool) : Keeps k (k.addEdge a b d).1 := by
  refine Keeps.of_eq (by simp) (by simp) ?_ ?_ <;> (unfold addEdge; split <;> simp)

theorem addFace_keeps (hes : List Nat) (chk : Bool) (hl : hes.length = 3) : Keeps k (k.addFace hes chk).1 := by
  refine ⟨fun h => addFace_valence k hes chk h hl, ?_, ?_⟩ <;> (unfold addFace; split <;> simp)

theorem addCell_keeps (hfs : List Nat) (chk : Bool) (hl : hfs.length = 4) : Keeps k (k.addCell hfs chk).1 := by
  refine ⟨fun h => addCell_valence k hfs chk h hl, ?_, ?_⟩ <;> (unfold addCell; split <;> simp)

theorem tetAddFace_keeps (hes : List Nat) (chk : Bool) : Keeps k (k.tetAddFace hes chk).1 := by
  unfold tetAddFace; split
  · exact Keeps.refl k
  · rename_i hl; simp at hl; exact addFace_keeps k hes chk hl

theorem tetAddCell_keeps (hfs : List Nat) (chk : Bool) : Keeps k (k.tetAddCell hfs chk).1 := by
  unfold tetAddCell; split
  · exact Keeps.refl k
  · split
    · exact Keeps.refl k
    · split
      · exact Keeps.refl k
      · rename_i hl _ _; simp at hl; exact addCell_keeps k hfs chk hl

/-- the edge-collecting fold of `add_face(vertices)`, now also for the modes -/
theorem foldl_pair_modes {β} (step : Kernel × List Nat → β → Kernel × List Nat)
    (hs : ∀ st x, (step st x).1.deferred = st.1.deferred ∧ (step st x).1.fast = st.1.fast)
    (xs : List β) (st : Kernel × List Nat) :
    (xs.foldl step st).1.deferred = st.1.deferred ∧ (xs.foldl step st).1.fast = st.1.fast := by
  induction xs generalizing st with
  | nil => simp
  | cons x t ih =>
    simp only [List.foldl_cons]
    exact ⟨(ih _).1.trans (hs st x).1, (ih _).2.trans (hs st x).2⟩

theorem addFaceV_keeps (vs : List Nat) (hl : vs.length = 3) : Keeps k (k.addFaceV vs).1 := by
  refine ⟨fun h => addFaceV_valence k vs h hl, ?_, ?_⟩
  all_goals
    unfold addFaceV
    split
    · rfl
    · rename_i v0 t
      simp only
      generalize hr : List.foldl _ (k, ([] : List Nat)) _ = r
      have f := foldl_pair_modes (fun (st : Kernel × List Nat) (ab : Nat × Nat) =>
        match st.1.addEdge ab.1 ab.2 false with
        | (k', e) => (k', st.2 ++ [heOf e (if (k'.edgeAt e).2 == ab.1 then 1 else 0)])) (by
          intro st x; exact ⟨(addEdge_keeps st.1 x.1 x.2 false).deferred, (addEdge_keeps st.1 x.1 x.2 false).fast⟩)
          ((v0 :: t).zip ((v0 :: t).tail ++ [v0])) (k, [])
      rw [hr] at f
      obtain ⟨k1, hes⟩ := r
      simp only at f ⊢
      first
        | exact ((by unfold addFace; split <;> simp : (k1.addFace hes false).1.deferred = k1.deferred)).trans f.1
        | exact ((by unfold addFace; split <;> simp : (k1.addFace hes false).1.fast = k1.fast)).trans f.2
end modes

section keeps2
variable (k : Kernel)

theorem tetAddFaceV_keeps (vs : List Nat) : Keeps k (k.tetAddFaceV vs).1 := by
  unfold tetAddFaceV; split
  · exact Keeps.refl k
  · rename_i hl; simp at hl; exact addFaceV_keeps k vs hl

theorem tetAddHalfedge_keeps (a b : Nat) : Keeps k (k.tetAddHalfedge a b).1 := by
  unfold tetAddHalfedge; split
  · exact Keeps.refl k
  · exact addEdge_keeps k a b false

theorem tetAddHalfface_keeps (hes : List Nat) (chk : Bool) : Keeps k (k.tetAddHalfface hes chk).1 := by
  unfold tetAddHalfface
  split
  · split
    · exact Keeps.refl k
    · exact tetAddFace_keeps k _ chk
  · exact Keeps.of_eq rfl rfl rfl rfl

theorem tetAddHalfface3_keeps (v0 v1 v2 : Nat) (chk : Bool) : Keeps k (k.tetAddHalfface3 v0 v1 v2 chk).1 := by
  simp only [tetAddHalfface3]
  exact ((tetAddHalfedge_keeps k v0 v1).trans (tetAddHalfedge_keeps _ v1 v2)).trans
    ((tetAddHalfedge_keeps _ v2 v0).trans (tetAddHalfface_keeps _ _ chk))

theorem tetAddCell4_keeps (v0 v1 v2 v3 : Nat) (chk : Bool) : Keeps k (k.tetAddCell4 v0 v1 v2 v3 chk).1 := by
  have h4 : Keeps k ((((k.tetAddHalfface3 v0 v1 v2 false).1.tetAddHalfface3 v0 v2 v3 false).1.tetAddHalfface3 v0 v3 v1 false).1.tetAddHalfface3 v1 v3 v2 false).1 :=
    ((tetAddHalfface3_keeps k v0 v1 v2 false).trans (tetAddHalfface3_keeps _ v0 v2 v3 false)).trans
      ((tetAddHalfface3_keeps _ v0 v3 v1 false).trans (tetAddHalfface3_keeps _ v1 v3 v2 false))
  simp only [tetAddCell4]
  generalize k.tetAddHalfface3 v0 v1 v2 false = r0 at h4 ⊢
  generalize r0.1.tetAddHalfface3 v0 v2 v3 false = r1 at h4 ⊢
  generalize r1.1.tetAddHalfface3 v0 v3 v1 false = r2 at h4 ⊢
  generalize r2.1.tetAddHalfface3 v1 v3 v2 false = r3 at h4 ⊢
  split
  · exact h4.trans (tetAddCell_keeps _ _ chk)
  · exact h4.trans (Keeps.of_eq rfl rfl rfl rfl)

theorem findOrAddFaceV_keeps (vs : List Nat) (hl : vs.length = 3) : Keeps k (k.findOrAddFaceV vs).1 := by
  unfold findOrAddFaceV; split
  · exact Keeps.refl k
  · exact addFaceV_keeps k vs hl

theorem tetAddCellV_keeps (vs : List Nat) (chk : Bool) : Keeps k (k.tetAddCellV vs chk).1 := by
  unfold tetAddCellV
  split
  · exact Keeps.refl k
  · split
    · exact Keeps.refl k
    · have h4 : Keeps k ((((k.findOrAddFaceV [vs.getD 0 0, vs.getD 1 0, vs.getD 2 0]).1.findOrAddFaceV [vs.getD 0 0, vs.getD 2 0, vs.getD 3 0]).1.findOrAddFaceV [vs.getD 0 0, vs.getD 3 0, vs.getD 1 0]).1.findOrAddFaceV [vs.getD 1 0, vs.getD 3 0, vs.getD 2 0]).1 :=
        ((findOrAddFaceV_keeps k _ rfl).trans (findOrAddFaceV_keeps _ _ rfl)).trans
          ((findOrAddFaceV_keeps _ _ rfl).trans (findOrAddFaceV_keeps _ _ rfl))
      simp only []
      generalize k.findOrAddFaceV [vs.getD 0 0, vs.getD 1 0, vs.getD 2 0] = r0 at h4 ⊢
      generalize r0.1.findOrAddFaceV [vs.getD 0 0, vs.getD 2 0, vs.getD 3 0] = r1 at h4 ⊢
      generalize r1.1.findOrAddFaceV [vs.getD 0 0, vs.getD 3 0, vs.getD 1 0] = r2 at h4 ⊢
      generalize r2.1.findOrAddFaceV [vs.getD 1 0, vs.getD 3 0, vs.getD 2 0] = r3 at h4 ⊢
      split
      · split
        · exact h4
        · split
          · exact h4
          · exact h4.trans (addCell_keeps _ _ false rfl)
      · exact h4.trans (Keeps.of_eq rfl rfl rfl rfl)

/-! swaps -/
theorem swapCell_keeps (a b : Nat) : Keeps k (k.swapCell a b) := ⟨swapCell_valence k a b, by simp, by simp⟩
theorem swapFace_keeps (a b : Nat) : Keeps k (k.swapFace a b) := ⟨swapFace_valence k a b, by simp, by simp⟩
theorem swapEdge_keeps (a b : Nat) : Keeps k (k.swapEdge a b) := ⟨swapEdge_valence k a b, by simp, by simp⟩
theorem swapVertex_keeps (a b : Nat) : Keeps k (k.swapVertex a b) := ⟨swapVertex_valence k a b, by simp, by simp⟩

/-! deletion cores -/
theorem deleteCellCore_keeps (h : Nat) : Keeps k (k.deleteCellCore h) := by
  refine ⟨fun hv => ?_, by simp, by simp⟩
  unfold deleteCellCore
  simp only []
  split
  · -- fast immediate: swap, unlink, erase
    rename_i hfn
    have h1 := swapCell_valence k h (k.nC - 1) hv
    split
    · exact valenceShape_of_eq (by simp) (by simp) h1
    · exact ⟨by simpa using h1.1, by simpa using all_eraseIdx _ _ h1.2⟩
  · split
    · exact valenceShape_of_eq (by simp) (by simp) hv
    · exact ⟨by simpa using hv.1, by simpa using all_eraseIdx _ _ hv.2⟩

theorem deleteVertexCore_keeps (h : Nat) : Keeps k (k.deleteVertexCore h) := by
  refine ⟨fun hv => ?_, by simp, by simp⟩
  unfold deleteVertexCore
  simp only []
  split
  · have h1 := swapVertex_valence k h (k.nV - 1) hv
    split
    · exact valenceShape_of_eq (by simp) (by simp) h1
    · exact valenceShape_of_eq (by simp) (by simp) h1
  · split
    · exact valenceShape_of_eq (by simp) (by simp) hv
    · exact valenceShape_of_eq (by simp) (by simp) hv
end keeps2

end Kernel
end OVM

namespace OVM

theorem sortedLT_insertSorted (x : Nat) (l : List Nat) (h : SortedLT l) : SortedLT (insertSorted x l) := by
  induction l with
  | nil => simp [insertSorted, SortedLT]
  | cons a t ih =>
    unfold insertSorted
    split
    · rename_i hxa
      cases t with
      | nil => simp [SortedLT, hxa]
      | cons b t' => exact ⟨hxa, h⟩
    · split
      · exact h
      · rename_i h1 h2
        have hax : a < x := by omega
        cases t with
        | nil => simp [insertSorted, SortedLT, hax]
        | cons b t' =>
          have hab : a < b := h.1
          have ht : SortedLT (b :: t') := h.2
          have ih' := ih ht
          unfold insertSorted at ih' ⊢
          split
          · exact ⟨hax, by rename_i hxb; exact ⟨hxb, ht⟩⟩
          · split
            · exact ⟨hab, ht⟩
            · rename_i h3 h4
              simp only [h3, h4, if_false] at ih'
              exact ⟨hab, ih'⟩

theorem toSet_nodup (l : List Nat) : (toSet l).Nodup := by
  apply sortedLT_nodup
  unfold toSet
  have : ∀ (l s : List Nat), SortedLT s → SortedLT (l.foldl (fun s x => insertSorted x s) s) := by
    intro l
    induction l with
    | nil => intro s hs; exact hs
    | cons a t ih => intro s hs; exact ih _ (sortedLT_insertSorted a s hs)
  exact this l [] (by simp [SortedLT])

theorem getElem?_foldl_modify_nodup {α} (f : α → α) (xs : List Nat) (hn : xs.Nodup) (l : List α) (i : Nat) :
    (xs.foldl (fun m j => m.modify j f) l)[i]? = if i ∈ xs then l[i]?.map f else l[i]? := by
  induction xs generalizing l with
  | nil => simp
  | cons x t ih =>
    simp only [List.foldl_cons]
    rw [ih (List.nodup_cons.mp hn).2, List.getElem?_modify]
    have hx : x ∉ t := (List.nodup_cons.mp hn).1
    by_cases hix : x = i
    · subst hix; simp [hx]
    · have : ¬ i = x := fun e => hix e.symm
      simp [hix, this]

/-- modifying at pairwise different positions: every element of the result is an old element or the
    image of one -/
theorem all_foldl_modify_nodup {α} {P Q : α → Prop} (f : α → α) (xs : List Nat) (hn : xs.Nodup) (l : List α)
    (h : ∀ x ∈ l, P x ∧ Q x) (hf : ∀ x, P x → Q x → P (f x)) :
    ∀ y ∈ xs.foldl (fun m j => m.modify j f) l, P y := by
  intro y hy
  obtain ⟨i, hi⟩ := List.getElem?_of_mem hy
  rw [getElem?_foldl_modify_nodup f xs hn l i] at hi
  split at hi
  · cases hl : l[i]? with
    | none => simp [hl] at hi
    | some x =>
      simp [hl] at hi; subst hi
      have := h x (List.mem_of_getElem? hl)
      exact hf x this.1 this.2
  · exact (h y (List.mem_of_getElem? hi)).1

namespace Kernel
section keeps3
variable (k : Kernel)

/-- no stored cell mentions face `h` -/
def NoRefF (k : Kernel) (h : Nat) : Prop := ∀ c ∈ k.cells, ∀ hf ∈ c, hf / 2 ≠ h
/-- no stored face mentions edge `h` -/
def NoRefE (k : Kernel) (h : Nat) : Prop := ∀ f ∈ k.faces, ∀ he ∈ f, he / 2 ≠ h

theorem fixHalfList_length (h : Nat) (l : List Nat) (hn : ∀ x ∈ l, x / 2 ≠ h) : (fixHalfList h l).length = l.length := by
  unfold fixHalfList
  have e1 : l.filter (· != heOf h 0) = l := by
    apply List.filter_eq_self.mpr; intro x hx; have := hn x hx; simp [heOf]; omega
  have e2 : l.filter (· != heOf h 1) = l := by
    apply List.filter_eq_self.mpr; intro x hx; have := hn x hx; simp [heOf]; omega
  rw [e1, e2]; simp

theorem liveCells_nodup : k.liveCells.Nodup := by
  unfold liveCells; exact List.Nodup.sublist List.filter_sublist List.nodup_range
theorem liveFaces_nodup : k.liveFaces.Nodup := by
  unfold liveFaces; exact List.Nodup.sublist List.filter_sublist List.nodup_range

theorem eraseFace_valence (h : Nat) (hv : ValenceShape k) (hm : k.fast = true ∨ NoRefF k h) : ValenceShape (k.eraseFace h) := by
  unfold eraseFace
  refine ⟨by simpa using all_eraseIdx _ _ hv.1, ?_⟩
  simp only
  rcases hm with hf | hn
  · simp [hf]; exact hv.2
  · split
    · have hnd : (if k.fBU = true then toSet (List.filterMap id (List.drop (heOf h 0) k.incCell)) else k.liveCells).Nodup := by
        split
        · exact toSet_nodup _
        · exact liveCells_nodup k
      exact all_foldl_modify_nodup (P := fun c => c.length = 4) (Q := fun c => ∀ hf ∈ c, hf / 2 ≠ h) (fixHalfList h) _ hnd k.cells
        (fun c hc => ⟨hv.2 c hc, hn c hc⟩) (fun x hx hq => by rw [fixHalfList_length h x hq]; exact hx)
    · exact hv.2

theorem eraseEdge_valence (h : Nat) (hv : ValenceShape k) (hm : k.fast = true ∨ NoRefE k h) : ValenceShape (k.eraseEdge h) := by
  unfold eraseEdge
  refine ⟨?_, by simpa using hv.2⟩
  simp only
  rcases hm with hf | hn
  · simp [hf]; exact hv.1
  · split
    · have hnd : (if k.eBU = true then toSet (List.map eOf (List.drop (heOf h 0) k.incHfs).flatten) else k.liveFaces).Nodup := by
        split
        · exact toSet_nodup _
        · exact liveFaces_nodup k
      exact all_foldl_modify_nodup (P := fun c => c.length = 3) (Q := fun c => ∀ hf ∈ c, hf / 2 ≠ h) (fixHalfList h) _ hnd k.faces
        (fun c hc => ⟨hv.1 c hc, hn c hc⟩) (fun x hx hq => by rw [fixHalfList_length h x hq]; exact hx)
    · exact hv.1
end keeps3
section keeps4
variable (k : Kernel)

theorem deleteFaceCore_keeps (h : Nat) (hm : ModeOK k ∨ NoRefF k h) : Keeps k (k.deleteFaceCore h) := by
  refine ⟨fun hv => ?_, by simp, by simp⟩
  unfold deleteFaceCore
  simp only []
  cases hd : k.deferred <;> cases hf : k.fast <;> simp only [unlinkFace_deferred, swapFace_deferred, hd, hf, Bool.and_true, Bool.and_false, Bool.not_false, Bool.not_true, if_true, if_false, Bool.false_eq_true]
  · -- shifting erase: needs the reference-freeness
    rcases hm with hm | hn
    · rcases hm with h1 | h1 <;> simp_all
    · exact eraseFace_valence _ h (valenceShape_of_eq (by simp) (by simp) hv) (Or.inr (by unfold NoRefF at *; simpa using hn))
  · have h1 := swapFace_valence k h (k.nF - 1) hv
    exact eraseFace_valence _ _ (valenceShape_of_eq (k := k.swapFace h (k.nF - 1)) (by simp) (by simp) h1) (Or.inl (by rw [unlinkFace_fast, swapFace_fast]; exact hf))
  · exact valenceShape_of_eq (by simp) (by simp) hv
  · exact valenceShape_of_eq (by simp) (by simp) hv

theorem deleteEdgeCore_keeps (h : Nat) (hm : ModeOK k ∨ NoRefE k h) : Keeps k (k.deleteEdgeCore h) := by
  refine ⟨fun hv => ?_, by simp, by simp⟩
  unfold deleteEdgeCore
  simp only []
  cases hd : k.deferred <;> cases hf : k.fast <;> simp only [unlinkEdge_deferred, swapEdge_deferred, hd, hf, Bool.and_true, Bool.and_false, Bool.not_false, Bool.not_true, if_true, if_false, Bool.false_eq_true]
  · rcases hm with hm | hn
    · rcases hm with h1 | h1 <;> simp_all
    · exact eraseEdge_valence _ h (valenceShape_of_eq (by simp) (by simp) hv) (Or.inr (by unfold NoRefE at *; simpa using hn))
  · have h1 := swapEdge_valence k h (k.nE - 1) hv
    exact eraseEdge_valence _ _ (valenceShape_of_eq (k := k.swapEdge h (k.nE - 1)) (by simp) (by simp) h1) (Or.inl (by rw [unlinkEdge_fast, swapEdge_fast]; exact hf))
  · exact valenceShape_of_eq (by simp) (by simp) hv
  · exact valenceShape_of_eq (by simp) (by simp) hv

/-! the four public deletions, when no index-shifting erase happens (deferred or fast mode) -/
theorem deleteCell_keeps (c : Nat) : Keeps k (k.deleteCell c) := deleteCellCore_keeps k c

theorem deleteFace_keeps (f : Nat) (m : ModeOK k) : Keeps k (k.deleteFace f) := by
  unfold deleteFace
  have a := foldl_keeps deleteCellCore (fun k x => deleteCellCore_keeps k x) (k.incidentCells [f]).reverse k
  exact a.trans (deleteFaceCore_keeps _ f (Or.inl (a.modeOK m)))

theorem deleteEdge_keeps (e : Nat) (m : ModeOK k) : Keeps k (k.deleteEdge e) := by
  unfold deleteEdge
  simp only []
  have a := foldl_keeps deleteCellCore (fun k x => deleteCellCore_keeps k x) (k.incidentCells (k.incidentFaces [e])).reverse k
  have b := foldl_keeps_mode deleteFaceCore (fun k x mk => deleteFaceCore_keeps k x (Or.inl mk)) (k.incidentFaces [e]).reverse _ (a.modeOK m)
  exact (a.trans b).trans (deleteEdgeCore_keeps _ e (Or.inl ((a.trans b).modeOK m)))

theorem deleteVertex_keeps (v : Nat) (m : ModeOK k) : Keeps k (k.deleteVertex v) := by
  unfold deleteVertex
  simp only []
  have a := foldl_keeps deleteCellCore (fun k x => deleteCellCore_keeps k x) (k.incidentCells (k.incidentFaces (k.incidentEdges [v]))).reverse k
  have b := foldl_keeps_mode deleteFaceCore (fun k x mk => deleteFaceCore_keeps k x (Or.inl mk)) (k.incidentFaces (k.incidentEdges [v])).reverse _ (a.modeOK m)
  have c := foldl_keeps_mode deleteEdgeCore (fun k x mk => deleteEdgeCore_keeps k x (Or.inl mk)) (k.incidentEdges [v]).reverse _ ((a.trans b).modeOK m)
  exact ((a.trans b).trans c).trans (deleteVertexCore_keeps _ v)
end keeps4
section keeps5
variable (k : Kernel)

theorem gcSweep_keeps (n : Nat) (isDel : Kernel → Nat → Bool) (unflag core : Kernel → Nat → Kernel)
    (hu : ∀ k i, Keeps k (unflag k i)) (hc : ∀ k i, ModeOK k → Keeps k (core k i)) (m : ModeOK k) :
    Keeps k (gcSweep k n isDel unflag core) := by
  unfold gcSweep
  apply foldl_keeps_mode _ _ _ _ m
  intro k i mk
  split
  · exact (hu k i).trans (hc _ i ((hu k i).modeOK mk))
  · exact Keeps.refl k

theorem gcCells_keeps (m : ModeOK k) : Keeps k k.gcCells := by
  unfold gcCells
  refine Keeps.trans (b := gcSweep k k.nC cDeleted (fun k i => { k with cDel := k.cDel.set i false }) deleteCellCore) ?_ (Keeps.of_eq rfl rfl rfl rfl)
  exact gcSweep_keeps k _ _ _ _ (fun k i => Keeps.of_eq rfl rfl rfl rfl) (fun k i _ => deleteCellCore_keeps k i) m
theorem gcFaces_keeps (m : ModeOK k) : Keeps k k.gcFaces := by
  unfold gcFaces
  refine Keeps.trans (b := gcSweep k k.nF fDeleted (fun k i => { k with fDel := k.fDel.set i false }) deleteFaceCore) ?_ (Keeps.of_eq rfl rfl rfl rfl)
  exact gcSweep_keeps k _ _ _ _ (fun k i => Keeps.of_eq rfl rfl rfl rfl) (fun k i mk => deleteFaceCore_keeps k i (Or.inl mk)) m
theorem gcEdges_keeps (m : ModeOK k) : Keeps k k.gcEdges := by
  unfold gcEdges
  refine Keeps.trans (b := gcSweep k k.nE eDeleted (fun k i => { k with eDel := k.eDel.set i false }) deleteEdgeCore) ?_ (Keeps.of_eq rfl rfl rfl rfl)
  exact gcSweep_keeps k _ _ _ _ (fun k i => Keeps.of_eq rfl rfl rfl rfl) (fun k i mk => deleteEdgeCore_keeps k i (Or.inl mk)) m
theorem gcVerts_keeps (m : ModeOK k) : Keeps k k.gcVerts := by
  unfold gcVerts
  refine Keeps.trans (b := gcSweep k k.nV vDeleted (fun k i => { k with vDel := k.vDel.set i false }) deleteVertexCore) ?_ (Keeps.of_eq rfl rfl rfl rfl)
  exact gcSweep_keeps k _ _ _ _ (fun k i => Keeps.of_eq rfl rfl rfl rfl) (fun k i _ => deleteVertexCore_keeps k i) m

/-- garbage collection in fast mode: swap-and-pop only, no definition is rewritten -/
theorem collectGarbage_keeps (hf : k.fast = true) : Keeps k k.collectGarbage := by
  unfold collectGarbage
  split
  · exact Keeps.refl k
  · rename_i hc
    have hd : k.deferred = true := by
      cases h : k.deferred <;> simp [h] at hc ⊢
    have m0 : ModeOK { k with deferred := false } := Or.inr hf
    have a := gcCells_keeps _ m0
    have b := gcFaces_keeps _ (a.modeOK m0)
    have c := gcEdges_keeps _ ((a.trans b).modeOK m0)
    have d := gcVerts_keeps _ (((a.trans b).trans c).modeOK m0)
    have e := ((a.trans b).trans c).trans d
    generalize ({ k with deferred := false } : Kernel).gcCells.gcFaces.gcEdges.gcVerts = g at e
    refine ⟨fun hv => ?_, ?_, ?_⟩
    · have h0 : ValenceShape ({ k with deferred := false } : Kernel) := hv
      exact e.shape h0
    · exact hd.symm
    · exact e.fast

theorem enableDeferred_fast (b : Bool) (hm : k.fast = true ∨ k.deferred = false ∨ b = true) : (k.enableDeferred b).fast = k.fast := by
  unfold enableDeferred
  simp only
  split
  · rcases hm with h | h | h
    · exact (collectGarbage_keeps k h).fast
    · simp_all
    · simp_all
  · rfl

theorem enableDeferred_valence (b : Bool) (hv : ValenceShape k) (hm : k.fast = true ∨ k.deferred = false ∨ b = true) :
    ValenceShape (k.enableDeferred b) := by
  unfold enableDeferred
  simp only
  split
  · rcases hm with h | h | h
    · exact valenceShape_of_eq rfl rfl ((collectGarbage_keeps k h).shape hv)
    · simp_all
    · simp_all
  · exact valenceShape_of_eq rfl rfl hv

@[simp] theorem enableDeferred_deferred (b : Bool) : (k.enableDeferred b).deferred = b := by
  unfold enableDeferred; rfl

theorem enableFast_valence (b : Bool) (hv : ValenceShape k) : ValenceShape (k.enableFast b) := valenceShape_of_eq rfl rfl hv

theorem enableVBU_valence (b : Bool) (hv : ValenceShape k) : ValenceShape (k.enableVBU b) := by
  unfold enableVBU; refine valenceShape_of_eq ?_ ?_ hv <;> (repeat' split) <;> rfl
theorem enableEBU_valence (b : Bool) (hv : ValenceShape k) : ValenceShape (k.enableEBU b) := by
  unfold enableEBU reorderAll; simp only
  refine valenceShape_of_eq ?_ ?_ hv <;> (repeat' split) <;> simp
theorem enableFBU_valence (b : Bool) (hv : ValenceShape k) : ValenceShape (k.enableFBU b) := by
  unfold enableFBU reorderAll
  refine valenceShape_of_eq ?_ ?_ hv <;> (repeat' split) <;> simp

theorem addVertex_keeps : Keeps k k.addVertex.1 := Keeps.of_eq rfl rfl rfl rfl
theorem addNVertices_keeps (n : Nat) : Keeps k (k.addNVertices n) := Keeps.of_eq rfl rfl rfl rfl
theorem clear_valence (p : Bool) : ValenceShape (k.clear p) := by
  constructor <;> intro x hx <;> simp [clear] at hx
end keeps5
section keeps6

theorem foldl_keeps_fst {β γ} (step : Kernel × γ → β → Kernel × γ) (hs : ∀ st x, Keeps st.1 (step st x).1)
    (xs : List β) (st : Kernel × γ) : Keeps st.1 (xs.foldl step st).1 := by
  induction xs generalizing st with
  | nil => exact Keeps.refl _
  | cons x t ih => exact (hs st x).trans (ih _)

theorem foldl_keeps_fst_mode {β γ} (step : Kernel × γ → β → Kernel × γ) (hs : ∀ st x, ModeOK st.1 → Keeps st.1 (step st x).1)
    (xs : List β) (st : Kernel × γ) (m : ModeOK st.1) : Keeps st.1 (xs.foldl step st).1 := by
  induction xs generalizing st with
  | nil => exact Keeps.refl _
  | cons x t ih => exact (hs st x m).trans (ih _ ((hs st x m).modeOK m))

theorem collapseHe_keeps (a b : Nat) (st : Kernel × List Nat) (h : Nat) : Keeps st.1 (collapseHe a b st h).1 := by
  unfold collapseHe
  simp only []
  exact (tetAddHalfedge_keeps _ _ _).trans (Keeps.of_eq rfl rfl rfl rfl)

theorem collapseHf_keeps (a b : Nat) (c : List Nat) (st : Kernel × List Nat) (i : Nat) : Keeps st.1 (collapseHf a b c st i).1 := by
  unfold collapseHf
  simp only []
  have f := foldl_keeps_fst (fun (s : Kernel × List Nat) j => collapseHe a b s ((st.1.hfHes (c.getD i 0)).getD j 0))
    (fun s x => collapseHe_keeps a b s _) (List.range 3) (st.1, [])
  generalize List.foldl _ (st.1, ([] : List Nat)) (List.range 3) = r at f ⊢
  simp only at f
  have g : Keeps st.1 ({ r.1 with fault := r.1.fault || decide (c.length ≤ i) || decide ((st.1.hfHes (c.getD i 0)).length < 3) } : Kernel) :=
    f.trans (Keeps.of_eq rfl rfl rfl rfl)
  generalize ({ r.1 with fault := r.1.fault || decide (c.length ≤ i) || decide ((st.1.hfHes (c.getD i 0)).length < 3) } : Kernel) = k1 at g ⊢
  have g2 := g.trans (tetAddHalfface_keeps k1 r.2 false)
  generalize k1.tetAddHalfface r.2 false = r2 at g2 ⊢
  split
  · exact g2.trans (Keeps.of_eq rfl rfl rfl rfl)
  · exact g2.trans (Keeps.of_eq rfl rfl rfl rfl)

theorem collapseCell_keeps (a b : Nat) (coll : List Nat) (st : Kernel × List (Nat × List Nat)) (ch : Nat) :
    Keeps st.1 (collapseCell a b coll st ch).1 := by
  unfold collapseCell
  split
  · exact Keeps.refl _
  · simp only []
    have f := foldl_keeps_fst (collapseHf a b (st.1.cellAt ch)) (fun s x => collapseHf_keeps a b _ s x) (List.range 4) (st.1, [])
    exact f.trans (deleteCell_keeps _ ch)

theorem readdCell_keeps (k : Kernel) (n : Nat × List Nat) : Keeps k (readdCell k n) := by
  unfold readdCell
  simp only []
  have g := tetAddCell_keeps k n.2 false
  generalize k.tetAddCell n.2 false = r at g ⊢
  split
  · exact g.trans (Keeps.of_eq rfl rfl rfl rfl)
  · exact g.trans (Keeps.of_eq rfl rfl rfl rfl)

theorem readdCell4_keeps (k : Kernel) (n : Nat × List Nat) : Keeps k (readdCell4 k n) := by
  unfold readdCell4
  simp only []
  have g := tetAddCell4_keeps k (n.2.getD 0 0) (n.2.getD 1 0) (n.2.getD 2 0) (n.2.getD 3 0) false
  generalize k.tetAddCell4 (n.2.getD 0 0) (n.2.getD 1 0) (n.2.getD 2 0) (n.2.getD 3 0) false = r at g ⊢
  split
  · exact g.trans (Keeps.of_eq rfl rfl rfl rfl)
  · exact g.trans (Keeps.of_eq rfl rfl rfl rfl)

/-- what `enable_deferred_deletion(true)` at the start of collapse / split does -/
theorem enterDeferred (k0 : Kernel) (hv : ValenceShape k0) :
    let k := if !k0.deferred then k0.enableDeferred true else k0
    ValenceShape k ∧ k.deferred = true ∧ k.fast = k0.fast := by
  intro k
  cases hd : k0.deferred
  · have : k = k0.enableDeferred true := by simp [k, hd]
    rw [this]
    exact ⟨enableDeferred_valence k0 true hv (Or.inr (Or.inr rfl)), by simp, enableDeferred_fast k0 true (Or.inr (Or.inr rfl))⟩
  · have : k = k0 := by simp [k, hd]
    rw [this]; exact ⟨hv, hd, rfl⟩

/-- leaving the temporarily deferred mode again (`enable_deferred_deletion(tmp)`): garbage collection
    happens exactly when the caller's mode was immediate -/
theorem leaveDeferred (k : Kernel) (tmp : Bool) (hv : ValenceShape k) (hm : tmp = true ∨ k.fast = true) :
    ValenceShape (k.enableDeferred tmp) := by
  rcases hm with h | h
  · exact enableDeferred_valence k tmp hv (Or.inr (Or.inr h))
  · exact enableDeferred_valence k tmp hv (Or.inl h)

theorem collapseStar_keeps (k : Kernel) (a b : Nat) (coll : List Nat) : Keeps k (k.collapseStar a b coll).1 := by
  unfold collapseStar
  exact foldl_keeps_fst (collapseCell a b coll) (fun s x => collapseCell_keeps _ _ _ s x) (k.qVC a) (k, [])

theorem collapseFinish_keeps (r : Kernel × List (Nat × List Nat)) (a : Nat) (m : ModeOK r.1) : Keeps r.1 (collapseFinish r a) := by
  unfold collapseFinish
  exact (deleteVertex_keeps r.1 a m).trans (foldl_keeps readdCell readdCell_keeps r.2 _)

theorem collapseBody_keeps (k : Kernel) (tmp : Bool) (heh : Nat) (m : ModeOK k) : Keeps k (k.collapseBody tmp heh).1 := by
  unfold collapseBody
  simp only []
  have s0 : Keeps k ({ k with fault := k.fault || (!k.fBU && !(k.qHEHF heh).isEmpty) } : Kernel) := Keeps.of_eq rfl rfl rfl rfl
  generalize ({ k with fault := k.fault || (!k.fBU && !(k.qHEHF heh).isEmpty) } : Kernel) = kf at s0 ⊢
  have s1 := s0.trans (collapseStar_keeps kf (k.fromV heh) (k.toV heh) (toSet ((k.qHEHF heh).filterMap kf.cellOf)))
  generalize kf.collapseStar (k.fromV heh) (k.toV heh) (toSet ((k.qHEHF heh).filterMap kf.cellOf)) = r at s1 ⊢
  exact s1.trans (collapseFinish_keeps r _ (s1.modeOK m))

theorem collapseEdge_valence (k0 : Kernel) (heh : Nat) (hv : ValenceShape k0) (hm : ModeOK k0) :
    ValenceShape (k0.collapseEdge heh).1 := by
  unfold collapseEdge
  simp only []
  have e := enterDeferred k0 hv
  simp only at e
  generalize (if (!k0.deferred) = true then k0.enableDeferred true else k0) = k at e ⊢
  obtain ⟨hvk, hdk, hfk⟩ := e
  have b := collapseBody_keeps k k0.deferred heh (Or.inl hdk)
  generalize k.collapseBody k0.deferred heh = r at b ⊢
  apply leaveDeferred _ _ (b.shape hvk)
  rcases hm with h | h
  · exact Or.inl h
  · exact Or.inr (by rw [b.fast, hfk]; exact h)

theorem splitEdgeHf_keeps (heh vh : Nat) (st : Kernel × List (Nat × List Nat)) (hfh : Nat) : Keeps st.1 (splitEdgeHf heh vh st hfh).1 := by
  unfold splitEdgeHf
  simp only []
  split
  · exact Keeps.of_eq rfl rfl rfl rfl
  · exact (deleteCell_keeps _ _).trans (Keeps.of_eq rfl rfl rfl rfl)

theorem splitFaceSide_keeps (fh vh : Nat) (st : Kernel × List (Nat × List Nat)) (i : Nat) : Keeps st.1 (splitFaceSide fh vh st i).1 := by
  unfold splitFaceSide
  simp only []
  split
  · exact Keeps.refl _
  · exact (deleteCell_keeps _ _).trans (Keeps.of_eq rfl rfl rfl rfl)

theorem splitEdgeBody_keeps (k : Kernel) (heh vh : Nat) (m : ModeOK k) : Keeps k (k.splitEdgeBody heh vh) := by
  unfold splitEdgeBody
  simp only []
  have s1 := foldl_keeps_fst (splitEdgeHf heh vh) (fun s x => splitEdgeHf_keeps heh vh s x)
    ((k.qHEHF heh).filter (fun hf => k.cellOf hf != none)) (k, [])
  generalize List.foldl (splitEdgeHf heh vh) (k, []) _ = r at s1 ⊢
  simp only at s1
  exact (s1.trans (deleteEdge_keeps r.1 _ (s1.modeOK m))).trans (foldl_keeps readdCell4 readdCell4_keeps r.2 _)

theorem splitFaceBody_keeps (k : Kernel) (fh vh : Nat) (m : ModeOK k) : Keeps k (k.splitFaceBody fh vh) := by
  unfold splitFaceBody
  simp only []
  have s1 := foldl_keeps_fst (splitFaceSide fh vh) (fun s x => splitFaceSide_keeps fh vh s x) [0, 1] (k, [])
  generalize List.foldl (splitFaceSide fh vh) (k, []) [0, 1] = r at s1 ⊢
  simp only at s1
  exact (s1.trans (deleteFace_keeps r.1 _ (s1.modeOK m))).trans (foldl_keeps readdCell4 readdCell4_keeps r.2 _)

theorem splitEdgeAt_valence (k0 : Kernel) (heh vh : Nat) (hv : ValenceShape k0) (hm : ModeOK k0) :
    ValenceShape (k0.splitEdgeAt heh vh) := by
  unfold splitEdgeAt
  have e := enterDeferred k0 hv
  simp only at e
  generalize (if (!k0.deferred) = true then k0.enableDeferred true else k0) = k at e ⊢
  obtain ⟨hvk, hdk, hfk⟩ := e
  have b := splitEdgeBody_keeps k heh vh (Or.inl hdk)
  apply leaveDeferred _ _ (b.shape hvk)
  rcases hm with h | h
  · exact Or.inl h
  · exact Or.inr (by rw [b.fast, hfk]; exact h)

theorem splitFaceAt_valence (k0 : Kernel) (fh vh : Nat) (hv : ValenceShape k0) (hm : ModeOK k0) :
    ValenceShape (k0.splitFaceAt fh vh) := by
  unfold splitFaceAt
  have e := enterDeferred k0 hv
  simp only at e
  generalize (if (!k0.deferred) = true then k0.enableDeferred true else k0) = k at e ⊢
  obtain ⟨hvk, hdk, hfk⟩ := e
  have b := splitFaceBody_keeps k fh vh (Or.inl hdk)
  apply leaveDeferred _ _ (b.shape hvk)
  rcases hm with h | h
  · exact Or.inl h
  · exact Or.inr (by rw [b.fast, hfk]; exact h)

theorem splitEdge_valence (k : Kernel) (heh : Nat) (hv : ValenceShape k) (hm : ModeOK k) : ValenceShape (k.splitEdge heh).1 := by
  unfold splitEdge
  exact splitEdgeAt_valence _ _ _ ((addVertex_keeps k).shape hv) ((addVertex_keeps k).modeOK hm)
theorem splitFace_valence (k : Kernel) (fh : Nat) (hv : ValenceShape k) (hm : ModeOK k) : ValenceShape (k.splitFace fh).1 := by
  unfold splitFace
  exact splitFaceAt_valence _ _ _ ((addVertex_keeps k).shape hv) ((addVertex_keeps k).modeOK hm)
end keeps6
section stepthm

theorem setEdge_valence (k : Kernel) (e a b : Nat) (hv : ValenceShape k) : ValenceShape (k.setEdge e a b) := by
  unfold setEdge
  refine valenceShape_of_eq ?_ ?_ hv <;> first | rfl | (split <;> rfl)
theorem setFace_valence (k : Kernel) (f : Nat) (hes : List Nat) (hv : ValenceShape k) (hl : hes.length = 3) : ValenceShape (k.setFace f hes) := by
  unfold setFace
  constructor <;> simp only []
  · first | exact all_set _ _ _ hv.1 hl | (split <;> exact all_set _ _ _ hv.1 hl)
  · first | exact hv.2 | (split <;> exact hv.2)
theorem setCell_valence (k : Kernel) (c : Nat) (hfs : List Nat) (hv : ValenceShape k) (hl : hfs.length = 4) : ValenceShape (k.setCell c hfs) := by
  unfold setCell
  constructor <;> simp only []
  · first | exact hv.1 | (split <;> exact hv.1)
  · first | exact all_set _ _ _ hv.2 hl | (split <;> exact all_set _ _ _ hv.2 hl)

/-- `set_face` / `set_cell` are inherited unguarded: their argument must have the right valence -/
def TetOp.argsOK : TetOp → Prop
  | .base (.setFace _ hes) => hes.length = 3
  | .base (.setCell _ hfs) => hfs.length = 4
  | _ => True

/-- the operation does not reach an index-shifting erase of a face or edge slot: it runs in deferred
    or in fast mode (or, for the garbage-collecting ones, there is nothing to collect) -/
def ShiftFree (k : Kernel) : TetOp → Prop
  | .base (.deleteFace _) | .base (.deleteEdge _) | .base (.deleteVertex _) | .collapse _ | .splitEdge _ | .splitFace _ => ModeOK k
  | .base .collectGarbage | .base (.enableDeferred false) | .probeMode false _ => k.fast = true ∨ k.deferred = false
  | _ => True

instance (k : Kernel) : Decidable (ModeOK k) := by unfold ModeOK; infer_instance
instance (op : TetOp) : Decidable op.argsOK := by unfold TetOp.argsOK; split <;> infer_instance
instance (k : Kernel) (op : TetOp) : Decidable (ShiftFree k op) := by unfold ShiftFree; split <;> infer_instance

theorem valenceShape_stepTetX (k : Kernel) (op : TetOp) (hv : ValenceShape k) (ha : op.argsOK) (hs : ShiftFree k op) :
    ValenceShape (k.stepTetX op).1 := by
  cases op with
  | base o =>
    cases o with
    | addVertex => exact (addVertex_keeps k).shape hv
    | addNVertices n => exact (addNVertices_keeps k n).shape hv
    | addEdge a b d => exact (addEdge_keeps k a b d).shape hv
    | addFaceHe chk hes => exact (tetAddFace_keeps k hes chk).shape hv
    | addFaceV vs => exact (tetAddFaceV_keeps k vs).shape hv
    | addCell chk hfs => exact (tetAddCell_keeps k hfs chk).shape hv
    | setEdge e a b => exact setEdge_valence k e a b hv
    | setFace f hes => exact setFace_valence k f hes hv ha
    | setCell c hfs => exact setCell_valence k c hfs hv ha
    | deleteVertex v => exact (deleteVertex_keeps k v hs).shape hv
    | deleteEdge e => exact (deleteEdge_keeps k e hs).shape hv
    | deleteFace f => exact (deleteFace_keeps k f hs).shape hv
    | deleteCell c => exact (deleteCell_keeps k c).shape hv
    | swapVertex a b => exact swapVertex_valence k a b hv
    | swapEdge a b => exact swapEdge_valence k a b hv
    | swapFace a b => exact swapFace_valence k a b hv
    | swapCell a b => exact swapCell_valence k a b hv
    | collectGarbage =>
      rcases hs with h | h
      · exact (collectGarbage_keeps k h).shape hv
      · show ValenceShape k.collectGarbage
        unfold collectGarbage; simp [h]; exact hv
    | enableDeferred b =>
      cases b with
      | true => exact enableDeferred_valence k true hv (Or.inr (Or.inr rfl))
      | false =>
        rcases hs with h | h
        · exact enableDeferred_valence k false hv (Or.inl h)
        · exact enableDeferred_valence k false hv (Or.inr (Or.inl h))
    | enableFast b => exact enableFast_valence k b hv
    | enableBU kind b =>
      show ValenceShape (if kind == 0 then k.enableVBU b else if kind == 1 then k.enableEBU b else k.enableFBU b)
      split
      · exact enableVBU_valence k b hv
      · split
        · exact enableEBU_valence k b hv
        · exact enableFBU_valence k b hv
    | clear p => exact clear_valence k p
  | addHalfedge a b => exact (tetAddHalfedge_keeps k a b).shape hv
  | addHalffaceHe chk hes => exact (tetAddHalfface_keeps k hes chk).shape hv
  | addHalfface3 chk a b c => exact (tetAddHalfface3_keeps k a b c chk).shape hv
  | addCellV chk vs => exact (tetAddCellV_keeps k vs chk).shape hv
  | addCell4 chk a b c d => exact (tetAddCell4_keeps k a b c d chk).shape hv
  | collapse h => exact collapseEdge_valence k h hv hs
  | probeMode d f =>
    show ValenceShape ((k.enableDeferred d).enableFast f)
    apply enableFast_valence
    cases d with
    | true => exact enableDeferred_valence k true hv (Or.inr (Or.inr rfl))
    | false =>
      rcases hs with h | h
      · exact enableDeferred_valence k false hv (Or.inl h)
      · exact enableDeferred_valence k false hv (Or.inr (Or.inl h))
  | splitEdge h => exact splitEdge_valence k h hv hs
  | splitFace f => exact splitFace_valence k f hv hs
end stepthm
end Kernel
end OVM

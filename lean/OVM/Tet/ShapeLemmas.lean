import OVM.Tet.Spec
import OVM.Kernel.Frames
import OVM.Refine.DeleteFrames
/-
  Lemmas for C15(a): which mechanism functions keep `ValenceShape` (every stored face has three
  halfedges, every stored cell four halffaces).  `ValenceShape` only reads `faces` and `cells`;
  all proofs go through the frame lemmas for these two fields.
-/
namespace OVM
namespace Kernel

/-! ### list helpers: a predicate on all elements survives slot exchange, erasure, modification -/
section lists
variable {α : Type} {P : α → Prop}

theorem all_swapAt (l : List α) (i j : Nat) (h : ∀ x ∈ l, P x) : ∀ x ∈ swapAt l i j, P x := by
  unfold swapAt
  split
  · rename_i a b ha hb
    intro x hx
    rcases List.mem_or_eq_of_mem_set hx with hx | rfl
    · rcases List.mem_or_eq_of_mem_set hx with hx | rfl
      · exact h x hx
      · exact h _ (List.mem_of_getElem? hb)
    · exact h _ (List.mem_of_getElem? ha)
  · exact h

theorem all_eraseIdx (l : List α) (i : Nat) (h : ∀ x ∈ l, P x) : ∀ x ∈ l.eraseIdx i, P x :=
  fun x hx => h x ((List.eraseIdx_sublist l i).subset hx)

theorem all_modify (l : List α) (i : Nat) (f : α → α) (h : ∀ x ∈ l, P x) (hf : ∀ x, P x → P (f x)) :
    ∀ x ∈ l.modify i f, P x := by
  induction l generalizing i with
  | nil => intro x hx; simp at hx
  | cons a t ih =>
    cases i with
    | zero =>
      intro x hx
      simp only [List.modify_zero_cons, List.mem_cons] at hx
      rcases hx with rfl | hx
      · exact hf _ (h a (by simp))
      · exact h x (by simp [hx])
    | succ n =>
      intro x hx
      simp only [List.modify_succ_cons, List.mem_cons] at hx
      rcases hx with rfl | hx
      · exact h _ (by simp)
      · exact ih n (fun y hy => h y (by simp [hy])) x hx

theorem all_foldl_modify {β} (idx : β → Nat) (f : α → α) (xs : List β) (l : List α)
    (h : ∀ x ∈ l, P x) (hf : ∀ x, P x → P (f x)) :
    ∀ x ∈ xs.foldl (fun cs c => cs.modify (idx c) f) l, P x := by
  induction xs generalizing l with
  | nil => exact h
  | cons b t ih => exact ih _ (all_modify l (idx b) f h hf)

theorem all_append_one (l : List α) (a : α) (h : ∀ x ∈ l, P x) (ha : P a) : ∀ x ∈ l ++ [a], P x := by
  intro x hx
  rcases List.mem_append.mp hx with hx | hx
  · exact h x hx
  · simp at hx; subst hx; exact ha

theorem all_set (l : List α) (i : Nat) (a : α) (h : ∀ x ∈ l, P x) (ha : P a) : ∀ x ∈ l.set i a, P x := by
  intro x hx
  rcases List.mem_or_eq_of_mem_set hx with hx | rfl
  · exact h x hx
  · exact ha
end lists

/-! ### `ValenceShape` reads only `faces` and `cells` -/
theorem valenceShape_of_eq {k k' : Kernel} (hf : k'.faces = k.faces) (hc : k'.cells = k.cells)
    (h : ValenceShape k) : ValenceShape k' := by
  unfold ValenceShape at *; rw [hf, hc]; exact h

theorem valenceShape_empty : ValenceShape ({} : Kernel) := by
  constructor <;> intro x hx <;> simp at hx

end Kernel
end OVM

import OVM.Tet.CollapseQuads
import OVM.Tet.ShapeRun
/-
  C15: `collapse_edge` on an edge satisfying the link condition keeps K5's global kernel invariant — the gap
  hypothesis of `TetOpOK (.collapse h)` (OVM/Tet/ShapeRun.lean) is a theorem.

  What has to be shown is K5's precondition of every `add_cell` in the re-creation loop (cc:393-397): the four new
  halffaces are live, pairwise different and FREE (in no live cell).  Free is the topological content of the link
  condition:
    * a new halfface cannot be a halfface of another re-created cell (their vertex cycles differ, and in a simplicial
      complex a halfface is determined by its vertex cycle);
    * a new halfface on `(b,y,z)` cannot be a halfface of a surviving cell `T` either: `{y,z}` would lie in
      `Lk(a) ∩ Lk(b) = Lk(ab)`, so the cell `{a,b,y,z}` exists; it is deleted by the collapse, and it is the cell that
      owns the halfface `(b,y,z)` (two faces of a tetrahedron run through their common edge in opposite directions; no
      halfface lies in two live cells).
-/
namespace OVM
namespace Kernel
open Global ScanDel

/-! ### sorted duplicate-free lists -/

theorem pairwise_lt_ext {l m : List Nat} (h1 : l.Pairwise (· < ·)) (h2 : m.Pairwise (· < ·)) (h : ∀ x, x ∈ l ↔ x ∈ m) : l = m := by
  have n1 : l.Nodup := h1.imp (fun hab => Nat.ne_of_lt hab)
  have n2 : m.Nodup := h2.imp (fun hab => Nat.ne_of_lt hab)
  exact List.Perm.eq_of_pairwise (fun a b _ _ h1 h2 => by omega) h1 h2 ((List.perm_ext_iff_of_nodup n1 n2).mpr h)

theorem toSet_pairwise (l : List Nat) : (toSet l).Pairwise (· < ·) :=
  Shift.k4c_pairwise_of_sortedLT _ (Shift.k4c_sortedLT_toSet l)

/-- filtered vertex sets with the same members are the same list -/
theorem filter_toSet_ext {l m : List Nat} (p q : Nat → Bool)
    (h : ∀ x, (x ∈ l ∧ p x = true) ↔ (x ∈ m ∧ q x = true)) : (toSet l).filter p = (toSet m).filter q := by
  apply pairwise_lt_ext ((toSet_pairwise l).filter p) ((toSet_pairwise m).filter q)
  intro x
  simp only [List.mem_filter, mem_toSet]
  exact h x

/-! ### membership in a link -/

theorem mem_insertLex (x y : List Nat) (l : List (List Nat)) : y ∈ insertLex x l ↔ y = x ∨ y ∈ l := by
  induction l with
  | nil => simp [insertLex]
  | cons a t ih =>
    unfold insertLex
    split
    · split
      · rename_i _ he
        have : x = a := by simpa using he
        subst this; simp
      · simp
    · simp only [List.mem_cons, ih]
      constructor
      · rintro (h | h | h)
        · exact Or.inr (Or.inl h)
        · exact Or.inl h
        · exact Or.inr (Or.inr h)
      · rintro (h | h | h)
        · exact Or.inr (Or.inl h)
        · exact Or.inl h
        · exact Or.inr (Or.inr h)

theorem mem_foldr_insertLex (y : List Nat) (l : List (List Nat)) : y ∈ l.foldr insertLex [] ↔ y ∈ l := by
  induction l with
  | nil => simp
  | cons a t ih => simp only [List.foldr_cons, mem_insertLex, ih, List.mem_cons]

theorem mem_linkOf (k : Kernel) (sigma tau : List Nat) :
    tau ∈ k.linkOf sigma ↔ ∃ t ∈ k.simplices, subsetL sigma t = true ∧ t.length ≠ sigma.length ∧
      tau = t.filter (fun v => !sigma.contains v) := by
  unfold linkOf
  rw [mem_foldr_insertLex, List.mem_map]
  constructor
  · rintro ⟨t, ht, rfl⟩
    rw [List.mem_filter] at ht
    simp only [Bool.and_eq_true, bne_iff_ne, ne_eq] at ht
    exact ⟨t, ht.1, ht.2.1, ht.2.2, rfl⟩
  · rintro ⟨t, ht, h1, h2, rfl⟩
    refine ⟨t, ?_, rfl⟩
    rw [List.mem_filter]
    simp only [Bool.and_eq_true, bne_iff_ne, ne_eq]
    exact ⟨ht, h1, h2⟩

/-- the link condition as an implication on members -/
theorem link_inter {k : Kernel} {h : Nat} (hl : k.linkCondition h = true) (tau : List Nat)
    (ha : tau ∈ k.linkOf [k.fromV h]) (hb : tau ∈ k.linkOf [k.toV h]) : tau ∈ k.linkOf (toSet [k.fromV h, k.toV h]) := by
  unfold linkCondition at hl
  simp only [Bool.and_eq_true, beq_iff_eq] at hl
  rw [← hl.2]
  exact List.mem_filter.mpr ⟨ha, by simpa using hb⟩

/-! ### a simplex with four vertices is a live cell -/

theorem nodup_subset_length_le : ∀ {l m : List Nat}, l.Nodup → (∀ x ∈ l, x ∈ m) → l.length ≤ m.length := by
  intro l
  induction l with
  | nil => intro m _ _; simp
  | cons a t ih =>
    intro m hn hs
    have hn' := List.nodup_cons.mp hn
    have ham : a ∈ m := hs a (by simp)
    have := ih (m := m.erase a) hn'.2 (fun x hx => (List.mem_erase_of_ne (fun e => hn'.1 (by rw [← e]; exact hx))).mpr (hs x (by simp [hx])))
    rw [List.length_erase_of_mem ham] at this
    have hpos : 0 < m.length := List.length_pos_of_mem ham
    simp only [List.length_cons]; omega

theorem toSet_length_le (l : List Nat) : (toSet l).length ≤ l.length :=
  nodup_subset_length_le (toSet_nodup l) (fun x hx => (mem_toSet x l).mp hx)

theorem simplex_four {k : Kernel} (hl : FaceLoops k) {t : List Nat} (ht : t ∈ k.simplices) (h4 : 4 ≤ t.length) :
    ∃ c, k.liveC c = true ∧ t = k.cellVertSet c := by
  unfold simplices at ht
  simp only [List.mem_append, List.mem_map] at ht
  rcases ht with ((⟨v, _, rfl⟩ | ⟨e, _, rfl⟩) | ⟨f, hf, rfl⟩) | ⟨c, hc, rfl⟩
  · simp at h4
  · have := toSet_length_le [(k.edgeAt e).1, (k.edgeAt e).2]
    unfold edgeVerts at h4; simp at this; omega
  · exfalso
    have hlf := (mem_liveFaces k f).mp hf
    have hlt : heOf f 0 < k.nHF := by have := liveF_lt hlf; unfold nHF nF heOf at *; omega
    have h3 := (loop3_hfHes hl hlt).length
    have := toSet_length_le (k.hfVerts (heOf f 0))
    unfold faceVerts at h4
    unfold hfVerts at this h4
    rw [List.length_map, h3] at this
    omega
  · exact ⟨c, (mem_liveCells k c).mp hc, rfl⟩

/-! ### a live halfface of a simplicial mesh is determined by its vertex cycle -/

theorem noDupFaces {k : Kernel} (hs : k.simplicial = true) : (k.liveFaces.map k.faceVerts).Nodup := by
  unfold simplicial at hs
  simp only [Bool.and_eq_true, decide_eq_true_eq] at hs
  exact hs.1.1.2

theorem loop3_verts {k : Kernel} {l : List Nat} (h : Loop3 k l) :
    ∃ x y z, l = [x, y, z] ∧ l.map k.fromV = [k.fromV x, k.fromV y, k.fromV z] ∧
      (oppFace l).map k.fromV = [k.fromV x, k.fromV z, k.fromV y] := by
  unfold Loop3 at h
  split at h
  · rename_i x y z
    obtain ⟨l1, l2, l3⟩ := h
    refine ⟨x, y, z, rfl, rfl, ?_⟩
    show [opp z, opp y, opp x].map k.fromV = _
    simp only [List.map_cons, List.map_nil, Lookup.fromV_opp, l1, l2, l3]
  · exact absurd h id

/-- the opposite halfface of a closed triangle `(u,v,w)` runs `(u,w,v)` -/
theorem hfVerts_opp {k : Kernel} {hf : Nat} (hl : Loop3 k (k.hfHes hf)) :
    ∃ u v w, k.hfVerts hf = [u, v, w] ∧ k.hfVerts (opp hf) = [u, w, v] := by
  obtain ⟨x, y, z, _, e2, e3⟩ := loop3_verts hl
  unfold hfVerts
  rw [Fan.hfHes_opp]
  exact ⟨_, _, _, e2, e3⟩

theorem mem_faceVerts {k : Kernel} {hf : Nat} (hl : Loop3 k (k.hfHes hf)) (x : Nat) :
    x ∈ k.faceVerts (eOf hf) ↔ x ∈ k.hfVerts hf := by
  unfold faceVerts
  rw [mem_toSet]
  obtain ⟨u, v, w, e1, e2⟩ := hfVerts_opp hl
  rcases opp_cases hf with ⟨h1, _⟩ | ⟨h1, h2⟩
  · have : heOf (eOf hf) 0 = hf := by unfold heOf; omega
    rw [this]
  · have : heOf (eOf hf) 0 = opp hf := by unfold heOf; omega
    rw [this, e1, e2]
    simp only [List.mem_cons, List.not_mem_nil, or_false]
    constructor <;> rintro (h | h | h) <;> simp [h]

theorem halfface_unique {k : Kernel} (hn : (k.liveFaces.map k.faceVerts).Nodup) {x y : Nat}
    (hx : k.liveF (eOf x) = true) (hy : k.liveF (eOf y) = true) (lx : Loop3 k (k.hfHes x)) (ly : Loop3 k (k.hfHes y))
    (hr : Rot (k.hfVerts x) (k.hfVerts y)) (hd : (k.hfVerts y).Nodup) : x = y := by
  obtain ⟨u, v, w, e1, e2⟩ := hfVerts_opp ly
  have hmem : ∀ z, z ∈ k.hfVerts x ↔ z ∈ k.hfVerts y := hr.mem_iff (by rw [e1]; rfl)
  have e : eOf x = eOf y := by
    apply nodup_map_inj k.faceVerts k.liveFaces hn _ ((mem_liveFaces k _).mpr hx) _ ((mem_liveFaces k _).mpr hy)
    apply pairwise_lt_ext (by unfold faceVerts; exact toSet_pairwise _) (by unfold faceVerts; exact toSet_pairwise _)
    intro z
    rw [mem_faceVerts lx, mem_faceVerts ly, hmem]
  rcases opp_cases y with ⟨h1, h2⟩ | ⟨h1, h2⟩ <;> rcases opp_cases x with ⟨h3, h4⟩ | ⟨h3, h4⟩
  · omega
  · exfalso
    have hxy : x = opp y := by omega
    rw [hxy, e2, e1] at hr
    rw [e1] at hd
    simp only [List.nodup_cons, List.mem_cons, List.not_mem_nil, or_false, not_or, List.nodup_nil, and_true] at hd
    rcases (rot_three _ u v w).mp hr with h | h | h <;> simp at h <;> omega
  · exfalso
    have hxy : x = opp y := by omega
    rw [hxy, e2, e1] at hr
    rw [e1] at hd
    simp only [List.nodup_cons, List.mem_cons, List.not_mem_nil, or_false, not_or, List.nodup_nil, and_true] at hd
    rcases (rot_three _ u v w).mp hr with h | h | h <;> simp at h <;> omega
  · omega

/-- no halfface lies in two live cells -/
theorem cell_unique {k : Kernel} (hi : GInv k) {hf c c' : Nat} (hc : k.liveC c = true) (hc' : k.liveC c' = true)
    (hm : hf ∈ k.cellAt c) (hm' : hf ∈ k.cellAt c') : c = c' := by
  have hlt : hf < k.nHF := hi.wf.range.cells _ (cellAt_mem_cells (liveC_lt hc)) hf hm
  have h1 := sCellOf_of_mem hi.one hlt hc hm
  have h2 := sCellOf_of_mem hi.one hlt hc' hm'
  rw [h1] at h2; exact Option.some.inj h2

/-! ### three-cycles and the triangles of a tetrahedron -/

theorem rot_to_front {l : List Nat} {a : Nat} (hl : l.length = 3) (ha : a ∈ l) : ∃ y z, Rot l [a, y, z] := by
  match l, hl with
  | [u, v, w], _ =>
    simp only [List.mem_cons, List.not_mem_nil, or_false] at ha
    rcases ha with rfl | rfl | rfl
    · exact ⟨v, w, Or.inl rfl⟩
    · exact ⟨w, u, rot_cycle1 u a w |> fun _ => (rot_three _ _ _ _).mpr (Or.inr (Or.inr rfl))⟩
    · exact ⟨u, v, (rot_three _ _ _ _).mpr (Or.inr (Or.inl rfl))⟩

theorem rot_rev {u v w a y z : Nat} (h : Rot [u, v, w] [a, y, z]) : Rot [u, w, v] [a, z, y] := by
  rcases (rot_three _ a y z).mp h with e | e | e <;> simp only [List.cons.injEq, and_true] at e <;>
    obtain ⟨rfl, rfl, rfl⟩ := e
  · exact Or.inl rfl
  · exact (rot_three _ _ _ _).mpr (Or.inr (Or.inr rfl))
  · exact (rot_three _ _ _ _).mpr (Or.inr (Or.inl rfl))

theorem consec_of_mem {l : List Nat} {u v : Nat} (hl : l.length = 3) (hu : u ∈ l) (hv : v ∈ l) (huv : u ≠ v) :
    Consec l u v ∨ Consec l v u := by
  match l, hl with
  | [x, y, z], _ =>
    simp only [List.mem_cons, List.not_mem_nil, or_false] at hu hv
    simp only [Consec]
    rcases hu with rfl | rfl | rfl <;> rcases hv with rfl | rfl | rfl <;> first | exact absurd rfl huv | simp

theorem rot_of_consec {l : List Nat} {y z b : Nat} (hl : l.length = 3) (hn : l.Nodup) (hc : Consec l y z) (hb : b ∈ l)
    (hby : b ≠ y) (hbz : b ≠ z) : Rot l [b, y, z] := by
  match l, hl with
  | [x1, x2, x3], _ =>
    simp only [List.nodup_cons, List.mem_cons, List.not_mem_nil, or_false, not_or, List.nodup_nil, and_true] at hn
    simp only [List.mem_cons, List.not_mem_nil, or_false] at hb
    simp only [Consec] at hc
    rw [rot_three]
    rcases hc with ⟨rfl, rfl⟩ | ⟨rfl, rfl⟩ | ⟨rfl, rfl⟩
    · rcases hb with rfl | rfl | rfl
      · exact absurd rfl hby
      · exact absurd rfl hbz
      · exact Or.inr (Or.inl rfl)
    · rcases hb with rfl | rfl | rfl
      · exact Or.inl rfl
      · exact absurd rfl hby
      · exact absurd rfl hbz
    · rcases hb with rfl | rfl | rfl
      · exact absurd rfl hbz
      · exact Or.inr (Or.inr rfl)
      · exact absurd rfl hby

/-- the halfface of a tetrahedron that misses a given vertex -/
theorem tetOn_face_missing {k : Kernel} {hs : List Nat} {p q r s w : Nat} (hT : TetOn k hs p q r s) (hw : w ∈ [p, q, r, s]) :
    ∃ hf ∈ hs, ∃ t ∈ tris p q r s, Rot (k.hfVerts hf) t ∧ w ∉ t ∧ ∀ v ∈ [p, q, r, s], v ≠ w → v ∈ t := by
  have hd := hT.1
  have hex : ∃ t ∈ tris p q r s, w ∉ t ∧ ∀ v ∈ [p, q, r, s], v ≠ w → v ∈ t := by
    simp only [List.nodup_cons, List.mem_cons, List.not_mem_nil, or_false, not_or, List.nodup_nil, and_true] at hd
    obtain ⟨⟨hpq, hpr, hps⟩, ⟨hqr, hqs⟩, hrs, _⟩ := hd
    simp only [List.mem_cons, List.not_mem_nil, or_false] at hw
    rcases hw with rfl | rfl | rfl | rfl
    · refine ⟨[r, q, s], by simp [tris], by simp; omega, ?_⟩
      intro v hv hne; simp only [List.mem_cons, List.not_mem_nil, or_false] at hv ⊢; omega
    · refine ⟨[p, r, s], by simp [tris], by simp; omega, ?_⟩
      intro v hv hne; simp only [List.mem_cons, List.not_mem_nil, or_false] at hv ⊢; omega
    · refine ⟨[q, p, s], by simp [tris], by simp; omega, ?_⟩
      intro v hv hne; simp only [List.mem_cons, List.not_mem_nil, or_false] at hv ⊢; omega
    · refine ⟨[p, q, r], by simp [tris], by simp; omega, ?_⟩
      intro v hv hne; simp only [List.mem_cons, List.not_mem_nil, or_false] at hv ⊢; omega
  obtain ⟨t, ht, h1, h2⟩ := hex
  obtain ⟨hf, hm, hr⟩ := hT.2.2.2.2.1 t ht
  exact ⟨hf, hm, t, ht, hr, h1, h2⟩

/-! ### a new halfface is not a halfface of a surviving cell -/

theorem rot_nodup {x t : List Nat} (hr : Rot x t) (ht : t.length = 3) (hn : t.Nodup) : x.Nodup := by
  match t, ht with
  | [u, v, w], _ =>
    simp only [List.nodup_cons, List.mem_cons, List.not_mem_nil, or_false, not_or, List.nodup_nil, and_true] at hn
    obtain ⟨⟨h1, h2⟩, h3, _⟩ := hn
    rcases (rot_three x u v w).mp hr with rfl | rfl | rfl <;>
      simp only [List.nodup_cons, List.mem_cons, List.not_mem_nil, or_false, not_or, List.nodup_nil, and_true]
    · exact ⟨⟨h1, h2⟩, h3, not_false⟩
    · exact ⟨⟨h3, Ne.symm h1⟩, Ne.symm h2, not_false⟩
    · exact ⟨⟨Ne.symm h2, Ne.symm h3⟩, h1, not_false⟩

theorem hf_of_cell {k : Kernel} (hi : GInv k) (hl : FaceLoops k) {c hf : Nat} (hc : k.liveC c = true) (hm : hf ∈ k.cellAt c) :
    hf < k.nHF ∧ k.liveF (eOf hf) = true ∧ Loop3 k (k.hfHes hf) := by
  have hhf : hf < k.nHF := hi.wf.range.cells _ (cellAt_mem_cells (liveC_lt hc)) hf hm
  refine ⟨hhf, ?_, loop3_hfHes hl hhf⟩
  unfold liveF; rw [hi.closed.f c hc hf hm]
  simp; unfold nHF nF eOf at *; omega

theorem faceVerts_mem_simplices {k : Kernel} {f : Nat} (h : k.liveF f = true) : k.faceVerts f ∈ k.simplices := by
  unfold simplices
  simp only [List.mem_append, List.mem_map]
  exact Or.inl (Or.inr ⟨f, (mem_liveFaces k f).mpr h, rfl⟩)

theorem subsetL_iff (a b : List Nat) : subsetL a b = true ↔ ∀ x ∈ a, x ∈ b := by
  unfold subsetL; simp

/-- **the topological core**: in a mesh satisfying the link condition for `a → b`, the halfface that carries the
    renamed vertex cycle of a halfface `cj` of a rebuilt cell `T1` (contains `a`, not `b`) is not a halfface of a live
    cell `T` without the vertex `a` -/
theorem newHf_not_in_survivor {k : Kernel} {h : Nat} (P : CPre k h) {T1 T cj nj : Nat} (hT1 : T1 ∈ rebuilt k h)
    (hcj : cj ∈ k.cellAt T1) (hT : k.liveC T = true) (haT : k.fromV h ∉ k.cellVertSet T) (hnj : nj ∈ k.cellAt T)
    (hrot : Rot (k.hfVerts nj) ((k.hfVerts cj).map (substV (k.fromV h) (k.toV h)))) : False := by
  obtain ⟨hl1, ha1, hb1⟩ := (mem_rebuilt_iff P T1).mp hT1
  have hab := P.hab
  have hi := P.ginv
  have hnf := noDupFaces (linkCondition_parts P.link).1
  obtain ⟨cjR, cjL, cjLoop⟩ := hf_of_cell hi P.loops hl1 hcj
  obtain ⟨njR, njL, njLoop⟩ := hf_of_cell hi P.loops hT hnj
  -- the cycle of `cj`
  obtain ⟨p, q, r, s, _, _, hTo⟩ := (P.isTet hl1).elim
  obtain ⟨t0, ht0, hr0⟩ := hTo.2.2.2.1 cj hcj
  have hlen : (k.hfVerts cj).length = 3 := by rw [hr0.length]; exact tris_length p q r s t0 ht0
  have hnd : (k.hfVerts cj).Nodup := rot_nodup hr0 (tris_length p q r s t0 ht0) (tris_nodup p q r s hTo.1 t0 ht0)
  have hsub : ∀ x ∈ k.hfVerts cj, x ∈ k.cellVertSet T1 := by
    intro x hx
    unfold hfVerts at hx
    obtain ⟨he, hhe, rfl⟩ := List.mem_map.mp hx
    exact (mem_cellVertSet k T1 _).mpr ⟨cj, hcj, he, hhe, rfl⟩
  rcases Classical.em (k.fromV h ∈ k.hfVerts cj) with haj | haj
  case inr =>
    -- the face does not contain `a`: the new halfface is the old one
    rw [map_subst_id haj] at hrot
    have := halfface_unique hnf njL cjL njLoop cjLoop hrot hnd
    subst this
    have := cell_unique hi hT hl1 hnj hcj
    subst this
    exact haT ha1
  case inl =>
    obtain ⟨y, z, hyz⟩ := rot_to_front hlen haj
    have hndayz : [k.fromV h, y, z].Nodup := by
      have := Rot.symm3 hyz rfl
      exact rot_nodup this hlen hnd
    simp only [List.nodup_cons, List.mem_cons, List.not_mem_nil, or_false, not_or, List.nodup_nil, and_true] at hndayz
    obtain ⟨⟨hay, haz⟩, hyz', _⟩ := hndayz
    have hyin : y ∈ k.hfVerts cj := (hyz.mem_iff rfl y).mpr (by simp)
    have hzin : z ∈ k.hfVerts cj := (hyz.mem_iff rfl z).mpr (by simp)
    have hby : k.toV h ≠ y := fun e => hb1 (e ▸ hsub y hyin)
    have hbz : k.toV h ≠ z := fun e => hb1 (e ▸ hsub z hzin)
    -- the new cycle is (b, y, z)
    have hmapped : [k.fromV h, y, z].map (substV (k.fromV h) (k.toV h)) = [k.toV h, y, z] := by
      simp [substV, Ne.symm hay, Ne.symm haz]
    have hnjrot : Rot (k.hfVerts nj) [k.toV h, y, z] := by
      have := hyz.map (substV (k.fromV h) (k.toV h))
      rw [hmapped] at this
      exact hrot.trans3 this rfl
    have hmemcj : ∀ x, x ∈ k.hfVerts cj ↔ x ∈ [k.fromV h, y, z] := hyz.mem_iff rfl
    have hmemnj : ∀ x, x ∈ k.hfVerts nj ↔ x ∈ [k.toV h, y, z] := hnjrot.mem_iff rfl
    -- {y,z} in Lk(a) and in Lk(b)
    let tau := (k.faceVerts (eOf cj)).filter (fun v => !([k.fromV h] : List Nat).contains v)
    have hA : tau ∈ k.linkOf [k.fromV h] := by
      rw [mem_linkOf]
      refine ⟨k.faceVerts (eOf cj), faceVerts_mem_simplices cjL, ?_, ?_, rfl⟩
      · rw [subsetL_iff]; intro x hx; simp only [List.mem_singleton] at hx; subst hx
        exact (mem_faceVerts cjLoop _).mpr haj
      · have : [k.fromV h, y].length ≤ (k.faceVerts (eOf cj)).length :=
          nodup_subset_length_le (by simp [hay]) (by
            intro x hx; simp only [List.mem_cons, List.not_mem_nil, or_false] at hx
            rcases hx with rfl | rfl
            · exact (mem_faceVerts cjLoop _).mpr haj
            · exact (mem_faceVerts cjLoop _).mpr hyin)
        simp at this ⊢; omega
    have hB : tau ∈ k.linkOf [k.toV h] := by
      rw [mem_linkOf]
      have hbin : k.toV h ∈ k.hfVerts nj := (hmemnj _).mpr (by simp)
      refine ⟨k.faceVerts (eOf nj), faceVerts_mem_simplices njL, ?_, ?_, ?_⟩
      · rw [subsetL_iff]; intro x hx; simp only [List.mem_singleton] at hx; subst hx
        exact (mem_faceVerts njLoop _).mpr hbin
      · have : [k.toV h, y].length ≤ (k.faceVerts (eOf nj)).length :=
          nodup_subset_length_le (by simp [hby]) (by
            intro x hx; simp only [List.mem_cons, List.not_mem_nil, or_false] at hx
            rcases hx with rfl | rfl
            · exact (mem_faceVerts njLoop _).mpr hbin
            · exact (mem_faceVerts njLoop _).mpr ((hmemnj _).mpr (by simp)))
        simp at this ⊢; omega
      · show (k.faceVerts (eOf cj)).filter _ = (k.faceVerts (eOf nj)).filter _
        unfold faceVerts
        apply filter_toSet_ext
        intro x
        have e1 : x ∈ k.hfVerts (heOf (eOf cj) 0) ↔ x ∈ [k.fromV h, y, z] := by
          rw [← hmemcj, ← mem_faceVerts cjLoop]; unfold faceVerts; rw [mem_toSet]
        have e2 : x ∈ k.hfVerts (heOf (eOf nj) 0) ↔ x ∈ [k.toV h, y, z] := by
          rw [← hmemnj, ← mem_faceVerts njLoop]; unfold faceVerts; rw [mem_toSet]
        rw [e1, e2]
        simp only [List.mem_cons, List.not_mem_nil, or_false, Bool.not_eq_true', List.contains_eq_mem, List.mem_singleton,
          decide_eq_false_iff_not]
        constructor
        · rintro ⟨h1 | h1 | h1, h2⟩
          · exact absurd h1 h2
          · exact ⟨Or.inr (Or.inl h1), by rw [h1]; exact Ne.symm hby⟩
          · exact ⟨Or.inr (Or.inr h1), by rw [h1]; exact Ne.symm hbz⟩
        · rintro ⟨h1 | h1 | h1, h2⟩
          · exact absurd h1 h2
          · exact ⟨Or.inr (Or.inl h1), by rw [h1]; exact Ne.symm hay⟩
          · exact ⟨Or.inr (Or.inr h1), by rw [h1]; exact Ne.symm haz⟩
    -- hence the cell {a,b,y,z} exists
    have hAB := link_inter P.link tau hA hB
    rw [mem_linkOf] at hAB
    obtain ⟨t2, ht2, hsub2, _, htau⟩ := hAB
    rw [subsetL_iff] at hsub2
    have ha2 : k.fromV h ∈ t2 := hsub2 _ ((mem_toSet _ _).mpr (by simp))
    have hb2 : k.toV h ∈ t2 := hsub2 _ ((mem_toSet _ _).mpr (by simp))
    have htaumem : ∀ x, x ∈ tau → x ∈ t2 := by
      intro x hx; rw [htau] at hx; exact (List.mem_filter.mp hx).1
    have hy2 : y ∈ t2 := htaumem y (List.mem_filter.mpr ⟨(mem_faceVerts cjLoop _).mpr hyin, by simp [Ne.symm hay]⟩)
    have hz2 : z ∈ t2 := htaumem z (List.mem_filter.mpr ⟨(mem_faceVerts cjLoop _).mpr hzin, by simp [Ne.symm haz]⟩)
    have hd4 : [k.fromV h, k.toV h, y, z].Nodup := by
      simp only [List.nodup_cons, List.mem_cons, List.not_mem_nil, or_false, not_or, List.nodup_nil, and_true]
      exact ⟨⟨hab, hay, haz⟩, ⟨hby, hbz⟩, hyz', not_false⟩
    have h4 : 4 ≤ t2.length := nodup_subset_length_le hd4 (by
      intro x hx; simp only [List.mem_cons, List.not_mem_nil, or_false] at hx
      rcases hx with rfl | rfl | rfl | rfl <;> assumption)
    obtain ⟨T2, hl2, rfl⟩ := simplex_four P.loops ht2 h4
    obtain ⟨p2, q2, r2, s2, _, _, hT2⟩ := (P.isTet hl2).elim
    have hm2 := cellVertSet_mem_iff hT2
    -- V(T2) = {a,b,y,z}
    have hperm : [k.fromV h, k.toV h, y, z].Perm [p2, q2, r2, s2] :=
      perm_of_nodup_subset_length hd4 (by
        intro x hx; simp only [List.mem_cons, List.not_mem_nil, or_false] at hx
        rcases hx with rfl | rfl | rfl | rfl
        · exact (hm2 _).mp ha2
        · exact (hm2 _).mp hb2
        · exact (hm2 _).mp hy2
        · exact (hm2 _).mp hz2) (by simp)
    have hV2 : ∀ x, x ∈ [p2, q2, r2, s2] ↔ x ∈ [k.fromV h, k.toV h, y, z] := fun x => (hperm.mem_iff).symm
    have hloops2 := P.cellLoops hl2
    -- the halfface of T2 that misses b is opposite to cj
    obtain ⟨X, hXm, t1, ht1, hXr, hbt1, hallt1⟩ := tetOn_face_missing hT2 (w := k.toV h) ((hV2 _).mpr (by simp))
    have l1 := tris_length p2 q2 r2 s2 t1 ht1
    have hsubt1 := (tri_apex p2 q2 r2 s2 hT2.1 t1 ht1).choose_spec.2.2.2
    have hmemt1 : ∀ x, x ∈ t1 ↔ x ∈ [k.fromV h, y, z] := by
      intro x
      constructor
      · intro hx
        have := (hV2 x).mp (hsubt1 x hx)
        simp only [List.mem_cons, List.not_mem_nil, or_false] at this ⊢
        rcases this with e | e | e | e
        · exact Or.inl e
        · exact absurd (e ▸ hx) hbt1
        · exact Or.inr (Or.inl e)
        · exact Or.inr (Or.inr e)
      · intro hx
        simp only [List.mem_cons, List.not_mem_nil, or_false] at hx
        rcases hx with rfl | rfl | rfl
        · exact hallt1 _ ((hV2 _).mpr (by simp)) hab
        · exact hallt1 _ ((hV2 _).mpr (by simp)) (Ne.symm hby)
        · exact hallt1 _ ((hV2 _).mpr (by simp)) (Ne.symm hbz)
    obtain ⟨XR, XL, XLoop⟩ := hf_of_cell hi P.loops hl2 hXm
    have heX : eOf X = eOf cj := by
      apply nodup_map_inj k.faceVerts k.liveFaces hnf _ ((mem_liveFaces k _).mpr XL) _ ((mem_liveFaces k _).mpr cjL)
      apply pairwise_lt_ext (by unfold faceVerts; exact toSet_pairwise _) (by unfold faceVerts; exact toSet_pairwise _)
      intro x
      rw [mem_faceVerts XLoop, mem_faceVerts cjLoop, hXr.mem_iff l1, hmemt1, hmemcj]
    have hXopp : X = opp cj := by
      rcases opp_cases cj with ⟨h1, h2⟩ | ⟨h1, h2⟩ <;> rcases opp_cases X with ⟨h3, h4'⟩ | ⟨h3, h4'⟩
      · exfalso
        have : X = cj := by omega
        subst this
        have := cell_unique hi hl2 hl1 hXm hcj
        subst this
        exact hb1 hb2
      · omega
      · omega
      · exfalso
        have : X = cj := by omega
        subst this
        have := cell_unique hi hl2 hl1 hXm hcj
        subst this
        exact hb1 hb2
    obtain ⟨u, v, w, ev1, ev2⟩ := hfVerts_opp cjLoop
    have hXrot : Rot (k.hfVerts X) [k.fromV h, z, y] := by
      rw [hXopp, ev2]; rw [ev1] at hyz; exact rot_rev hyz
    have hXlen : (k.hfVerts X).length = 3 := by rw [hXrot.length]; rfl
    have hc1 : Consec t1 z y := by
      have : Consec (k.hfVerts X) z y := rot_consec hXrot rfl (by simp [Consec])
      exact consec_of_rot hXr hXlen this
    -- the halfface of T2 that misses a runs (b, y, z)
    obtain ⟨Y, hYm, t2', ht2', hYr, hat2, hallt2⟩ := tetOn_face_missing hT2 (w := k.fromV h) ((hV2 _).mpr (by simp))
    have l2 := tris_length p2 q2 r2 s2 t2' ht2'
    have hb_t2 : k.toV h ∈ t2' := hallt2 _ ((hV2 _).mpr (by simp)) (Ne.symm hab)
    have hy_t2 : y ∈ t2' := hallt2 _ ((hV2 _).mpr (by simp)) (Ne.symm hay)
    have hz_t2 : z ∈ t2' := hallt2 _ ((hV2 _).mpr (by simp)) (Ne.symm haz)
    have hc2 : Consec t2' y z := by
      rcases consec_of_mem l2 hy_t2 hz_t2 hyz' with hc | hc
      · exact hc
      · exfalso
        have := tris_consec_unique p2 q2 r2 s2 hT2.1 ht1 ht2' hc1 hc
        rw [← this] at hat2
        exact hat2 ((hmemt1 _).mpr (by simp))
    have hYrot : Rot (k.hfVerts Y) [k.toV h, y, z] :=
      hYr.trans3 (rot_of_consec l2 (tris_nodup p2 q2 r2 s2 hT2.1 t2' ht2') hc2 hb_t2 hby hbz) rfl
    obtain ⟨YR, YL, YLoop⟩ := hf_of_cell hi P.loops hl2 hYm
    have hYlen : (k.hfVerts Y).length = 3 := by rw [hYrot.length]; rfl
    have hYnd : (k.hfVerts Y).Nodup := rot_nodup hYrot rfl (by
      simp only [List.nodup_cons, List.mem_cons, List.not_mem_nil, or_false, not_or, List.nodup_nil, and_true]
      exact ⟨⟨hby, hbz⟩, hyz', not_false⟩)
    have hnjY : nj = Y :=
      halfface_unique hnf njL YL njLoop YLoop (hnjrot.trans3 (Rot.symm3 hYrot rfl) hYlen) hYnd
    subst hnjY
    have := cell_unique hi hT hl2 hnj hYm
    subst this
    exact haT ha2

/-! ### different rebuilt cells get different halffaces -/

theorem RemOK.fwd {k k1 : Kernel} {a b : Nat} {n : Nat × List Nat} (h : RemOK k k1 a b n) :
    ∀ x ∈ n.2, ∃ c ∈ k.cellAt n.1, Rot (k1.hfVerts x) ((k.hfVerts c).map (substV a b)) := by
  obtain ⟨c0, c1, c2, c3, n0, n1, n2, n3, hc, hn, _, r0, r1, r2, r3⟩ := h
  intro x hx
  rw [hn] at hx; rw [hc]
  simp only [List.mem_cons, List.not_mem_nil, or_false] at hx
  rcases hx with rfl | rfl | rfl | rfl
  · exact ⟨c0, by simp, r0⟩
  · exact ⟨c1, by simp, r1⟩
  · exact ⟨c2, by simp, r2⟩
  · exact ⟨c3, by simp, r3⟩

theorem hfVerts_cell_facts {k : Kernel} {h : Nat} (P : CPre k h) {T c : Nat} (hl : k.liveC T = true) (hc : c ∈ k.cellAt T) :
    (k.hfVerts c).length = 3 ∧ (k.hfVerts c).Nodup ∧ ∀ x ∈ k.hfVerts c, x ∈ k.cellVertSet T := by
  obtain ⟨p, q, r, s, _, _, hTo⟩ := (P.isTet hl).elim
  obtain ⟨t0, ht0, hr0⟩ := hTo.2.2.2.1 c hc
  refine ⟨by rw [hr0.length]; exact tris_length p q r s t0 ht0,
    rot_nodup hr0 (tris_length p q r s t0 ht0) (tris_nodup p q r s hTo.1 t0 ht0), ?_⟩
  intro x hx
  unfold hfVerts at hx
  obtain ⟨he, hhe, rfl⟩ := List.mem_map.mp hx
  exact (mem_cellVertSet k T _).mpr ⟨c, hc, he, hhe, rfl⟩

theorem newHf_disjoint {k k1 : Kernel} {h : Nat} (P : CPre k h) {n m : Nat × List Nat}
    (hn : RemOK k k1 (k.fromV h) (k.toV h) n) (hm : RemOK k k1 (k.fromV h) (k.toV h) m)
    (hn1 : n.1 ∈ rebuilt k h) (hm1 : m.1 ∈ rebuilt k h) (hne : n.1 ≠ m.1) : ∀ x ∈ n.2, x ∉ m.2 := by
  intro x hxn hxm
  obtain ⟨c, hc, rc⟩ := hn.fwd x hxn
  obtain ⟨c', hc', rc'⟩ := hm.fwd x hxm
  obtain ⟨hl1, _, hb1⟩ := (mem_rebuilt_iff P n.1).mp hn1
  obtain ⟨hl3, _, hb3⟩ := (mem_rebuilt_iff P m.1).mp hm1
  obtain ⟨len1, nd1, sub1⟩ := hfVerts_cell_facts P hl1 hc
  obtain ⟨len3, nd3, sub3⟩ := hfVerts_cell_facts P hl3 hc'
  have hrr : Rot ((k.hfVerts c).map (substV (k.fromV h) (k.toV h))) ((k.hfVerts c').map (substV (k.fromV h) (k.toV h))) := by
    have l' : ((k.hfVerts c').map (substV (k.fromV h) (k.toV h))).length = 3 := by simp [len3]
    have lx : (k1.hfVerts x).length = 3 := by rw [rc'.length]; exact l'
    exact (Rot.symm3 rc (by simp [len1])).trans3 rc' l'
  -- renaming is injective away from `b`
  have hinj : ∀ u ∈ k.hfVerts c ++ k.hfVerts c', ∀ v ∈ k.hfVerts c ++ k.hfVerts c',
      substV (k.fromV h) (k.toV h) u = substV (k.fromV h) (k.toV h) v → u = v := by
    have nb : ∀ u ∈ k.hfVerts c ++ k.hfVerts c', u ≠ k.toV h := by
      intro u hu e
      rcases List.mem_append.mp hu with hu | hu
      · exact hb1 (e ▸ sub1 u hu)
      · exact hb3 (e ▸ sub3 u hu)
    intro u hu v hv e
    have hub := nb u hu; have hvb := nb v hv
    unfold substV at e
    by_cases h1 : u = k.fromV h <;> by_cases h2 : v = k.fromV h
    · rw [h1, h2]
    · simp [h1, h2] at e; exact absurd e.symm hvb
    · simp [h1, h2] at e; exact absurd e hub
    · simp [h1, h2] at e; exact e
  have := rot_of_map _ len3 hinj hrr
  obtain ⟨_, cL, cLoop⟩ := hf_of_cell P.ginv P.loops hl1 hc
  obtain ⟨_, cL', cLoop'⟩ := hf_of_cell P.ginv P.loops hl3 hc'
  have e := halfface_unique (noDupFaces (linkCondition_parts P.link).1) cL cL' cLoop cLoop' this nd3
  subst e
  exact hne (cell_unique P.ginv hl1 hl3 hc hc')

/-! ### the re-creation loop keeps the global invariant -/

theorem readdFold_ginv : ∀ (rem : List (Nat × List Nat)) (K : Kernel), GInv K → FaceLoops K →
    (∀ n ∈ rem, n.2.length = 4 ∧ (∀ hf ∈ n.2, HfOk K hf) ∧ (K.spanVertCount n.2 = 4 ∧ K.noParallel n.2 = true) ∧ n.2.Nodup ∧
      ∀ hf ∈ n.2, K.sCellOf hf = none) →
    rem.Pairwise (fun n m => ∀ x ∈ n.2, x ∉ m.2) → GInv (rem.foldl readdCell K) := by
  intro rem
  induction rem with
  | nil => intro K hg _ _ _; exact hg
  | cons n t ih =>
    intro K hg hl hr hp
    obtain ⟨h4, hok, hs, hnd, hfree⟩ := hr n (by simp)
    have hlt : ∀ hf ∈ n.2, hf < K.nHF := fun hf hm => (hok hf hm).1
    obtain ⟨f1, f2, f3, f4, f5⟩ := readdCell_frames hl h4 hlt hs
    -- the state after one re-creation
    have hg1 : GInv (readdCell K n) := by
      have ha := ginv_addCell false (fun hf hm => ⟨hok hf hm, hfree hf hm⟩) hnd hg
      unfold readdCell
      simp only []
      rw [tetAddCell_eq hl h4 hlt hs.1 hs.2]
      have e : K.addCell n.2 false = (K.addCellCore n.2, some K.nC) := by unfold addCell addCellAccepts; simp
      rw [e] at ha ⊢
      exact ginv_swapC ha n.1 K.nC (K.addCellCore n.2).fault
    have hl1 : FaceLoops (readdCell K n) := faceLoops_of_eq f4 f3 hl
    simp only [List.foldl_cons]
    have hp' := List.pairwise_cons.mp hp
    apply ih (readdCell K n) hg1 hl1 ?_ hp'.2
    intro m hm
    obtain ⟨m4, mok, ms, mnd, mfree⟩ := hr m (List.mem_cons_of_mem _ hm)
    have hnHF : (readdCell K n).nHF = K.nHF := by unfold nHF; rw [f3]
    refine ⟨m4, ?_, by rw [spanVertCount_of_eq f4 f3, noParallel_of_eq f4 f3]; exact ms, mnd, ?_⟩
    · intro hf hfm
      obtain ⟨o1, o2⟩ := mok hf hfm
      have hfd : (readdCell K n).fDel = K.fDel := by
        unfold readdCell; simp only []
        rw [tetAddCell_eq hl h4 hlt hs.1 hs.2]
        have e : K.addCell n.2 false = (K.addCellCore n.2, some K.nC) := by unfold addCell addCellAccepts; simp
        rw [e]; simp
      exact ⟨by rw [hnHF]; exact o1, by unfold fDeleted at *; rw [hfd]; exact o2⟩
    · intro hf hfm
      rw [sCellOf_none_iff]
      intro c hc hmem
      have hold := (sCellOf_none_iff K hf).mp (mfree hf hfm)
      have hcl : c < K.nC ∨ c = K.nC := by
        have := liveC_lt hc; unfold nC at *; rw [f1] at this; simp at this; omega
      rcases hcl with hlt' | rfl
      · have hca : (readdCell K n).cellAt c = K.cellAt c := by
          unfold cellAt; rw [f1, getD_append_lt _ _ _ _ hlt']
        have hlc : K.liveC c = true := by
          unfold liveC cDeleted at hc ⊢
          rw [f2, getD_append_lt _ _ _ _ (by rw [hg.wf.len.cDel]; exact hlt')] at hc
          simp only [Bool.and_eq_true, decide_eq_true_eq] at hc ⊢
          exact ⟨hlt', hc.2⟩
        rw [hca] at hmem
        exact hold c hlc hmem
      · have hca : (readdCell K n).cellAt K.nC = n.2 := by
          unfold cellAt; rw [f1]; simp [nC]
        rw [hca] at hmem
        exact hp'.1 m hm hf hmem hfm

/-! ### which faces `delete_vertex(a)` flags -/

theorem deleteVertex_deferred_fDel {k : Kernel} (hd : k.deferred = true) (v : Nat) :
    (k.deleteVertex v).fDel = (k.incidentFaces (k.incidentEdges [v])).reverse.foldl (fun l h => l.set h true) k.fDel := by
  unfold deleteVertex
  simp only []
  obtain ⟨a1, _, _, _, _, _, _, a8, _, _⟩ := foldl_deleteCellCore_deferred
    (k.incidentCells (k.incidentFaces (k.incidentEdges [v]))).reverse k hd
  generalize (k.incidentCells (k.incidentFaces (k.incidentEdges [v]))).reverse.foldl deleteCellCore k = k1 at *
  obtain ⟨b1, _, _, _, _, _, _, _, b9, _⟩ := foldl_deleteFaceCore_deferred
    (k.incidentFaces (k.incidentEdges [v])).reverse k1 a1
  generalize (k.incidentFaces (k.incidentEdges [v])).reverse.foldl deleteFaceCore k1 = k2 at *
  obtain ⟨c1, _, _, _, _, _, c7, _, _, _⟩ := foldl_deleteEdgeCore_deferred (k.incidentEdges [v]).reverse k2 b1
  generalize (k.incidentEdges [v]).reverse.foldl deleteEdgeCore k2 = k3 at *
  rw [deleteVertexCore_deferred_eq v c1]
  show k3.fDel = _
  rw [c7, b9, a8]

/-- a face in the closure of `delete_vertex(v)` has `v` as a vertex (on both halffaces) -/
theorem incidentFaces_vertex_sound {k : Kernel} (hi : GInv k) (hb : k.fullBU = true) (hl : FaceLoops k) {v : Nat}
    (hv : v < k.nV) {y : Nat} (hy : y < k.nHF) (hf : eOf y ∈ k.incidentFaces (k.incidentEdges [v])) : v ∈ k.hfVerts y := by
  obtain ⟨bv, be, bf⟩ := fullBU_split hb
  have hw := hi.wf
  unfold incidentFaces at hf
  simp only [be, if_true] at hf
  rw [k4_mem_toSet, List.mem_flatMap] at hf
  obtain ⟨e, he, hfe⟩ := hf
  obtain ⟨hf1, hm1, hef1⟩ := List.mem_map.mp hfe
  have h2e : heOf e 0 < k.nHE := by
    rcases Nat.lt_or_ge (heOf e 0) k.nHE with h | h
    · exact h
    · unfold hfsOf at hm1; rw [getD_of_ge _ _ _ (by rw [(hw.cache.e be).1]; exact h)] at hm1; cases hm1
  have hs1 := ((hw.cache.e be).2 _ h2e).mem_iff.mp hm1
  rw [mem_sHfsOfHe] at hs1
  unfold incidentEdges at he
  simp only [bv, if_true] at he
  rw [k4_mem_toSet, List.mem_flatMap] at he
  obtain ⟨v', hv', hev⟩ := he
  simp only [List.mem_singleton] at hv'; subst hv'
  obtain ⟨x, hx, hex⟩ := List.mem_map.mp hev
  have hsx := ((hw.cache.v bv).2 _ hv).mem_iff.mp hx
  rw [mem_sOut_iff] at hsx
  have hfl1 : hf1 < k.nHF := by have := liveF_lt hs1.1; unfold nHF nF eOf at *; omega
  have hcase : y = hf1 ∨ y = opp hf1 := by
    rcases opp_cases hf1 with ⟨h1, h2⟩ | ⟨h1, h2⟩ <;> rcases opp_cases y with ⟨h3, h4⟩ | ⟨h3, h4⟩ <;>
      first
      | (left; omega)
      | (right; omega)
  rcases hcase with rfl | rfl
  · have := endpoint_mem_hfVerts (loop3_hfHes hl hfl1) hs1.2 (he := x) (by rw [hex]; unfold eOf heOf; omega)
    rw [hsx.2] at this; exact this
  · have := endpoint_mem_hfVerts (loop3_hfHes hl hy) (mem_hfHes_opp hs1.2) (he := x) (by rw [hex, eOf_opp]; unfold eOf heOf; omega)
    rw [hsx.2] at this; exact this

theorem not_mem_map_subst {a b : Nat} (hab : a ≠ b) (l : List Nat) : a ∉ l.map (substV a b) := by
  intro h
  obtain ⟨v, _, hv⟩ := List.mem_map.mp h
  unfold substV at hv
  split at hv
  · exact hab hv.symm
  · rename_i hva; simp at hva; exact hva hv

/-! ### **`collapse_edge` keeps the global invariant** -/

/-- deferred mode: the state after the whole body of `collapse_edge` (star loop, `delete_vertex(a)`, re-creation) -/
theorem ginv_collapseBody {k : Kernel} {h : Nat} (P : CPre k h) (tmp : Bool) : GInv (k.collapseBody tmp h).1 := by
  have hd := P.deferred
  have hbf := (fullBU_split P.full).2.2
  have hw := P.ginv.wf
  have e2 : (k.collapseBody tmp h).1 = collapseFinish (k.collapseStar (k.fromV h) (k.toV h)
      (toSet ((k.qHEHF h).filterMap k.cellOf))) (k.fromV h) := by
    unfold collapseBody
    simp only [kf_eq k hbf]
  rw [e2]
  obtain ⟨b1, x1, d1, new, q4, q5, q6⟩ := collapseFold_spec (k.fromV h) (k.toV h)
    (toSet ((k.qHEHF h).filterMap k.cellOf)) k hw.range (k.qVC (k.fromV h)) k [] P.binv hd (Ext.refl k)
    (by
      intro ch hm hn
      have hm' : ch ∈ rebuilt k h := by
        unfold rebuilt; exact List.mem_filter.mpr ⟨hm, by simp only [hn, Bool.not_false]⟩
      obtain ⟨hl, ha, hb⟩ := (mem_rebuilt_iff P ch).mp hm'
      exact P.cellReady hl (fun hx => hb hx.2))
  unfold collapseStar
  generalize (k.qVC (k.fromV h)).foldl (collapseCell (k.fromV h) (k.toV h) (toSet ((k.qHEHF h).filterMap k.cellOf))) (k, [])
    = r at b1 x1 d1 q4 q5 q6
  obtain ⟨k1, rem⟩ := r
  simp only [List.nil_append] at b1 x1 d1 q4 q5 q6
  subst q4
  have q5' : rem.map (·.1) = rebuilt k h := q5
  have hd1 : k1.deferred = true := x1.deferred.trans hd
  have hfull1 : k1.fullBU = true := by unfold fullBU; rw [x1.vBU, x1.eBU, x1.fBU]; exact P.full
  have hva1 : k.fromV h < k1.nV := by rw [x1.nV]; exact P.va.1
  obtain ⟨f1, f2, f3, f4, f5, f6⟩ := deleteVertex_deferred_frames hd1 (k.fromV h)
  have f7 := deleteVertex_deferred_fDel hd1 (k.fromV h)
  have hlive2 := liveC_deleteVertex_deferred b1.ginv hd1 hfull1 b1.loops hva1
  have hg2 := ginv_deleteVertex hva1 b1.ginv
  have hl2 : FaceLoops (k1.deleteVertex (k.fromV h)) := faceLoops_of_eq f3 f2 b1.loops
  have hnHF2 : (k1.deleteVertex (k.fromV h)).nHF = k1.nHF := by unfold nHF; rw [f2]
  have hreb : ∀ n ∈ rem, n.1 ∈ rebuilt k h := by
    intro n hn
    have : n.1 ∈ rem.map (·.1) := List.mem_map.mpr ⟨n, hn, rfl⟩
    rw [q5'] at this; exact this
  unfold collapseFinish
  simp only
  apply readdFold_ginv rem _ hg2 hl2
  · intro n hn
    obtain ⟨hl, ha, hb⟩ := (mem_rebuilt_iff P _).mp (hreb n hn)
    obtain ⟨p, q, r, s, hT1⟩ := remOK_tetOn (P.isTet hl) (q6 n hn) (fun hx => hb hx.2)
    have hfwd := (q6 n hn).fwd
    obtain ⟨c0, c1, c2, c3, n0, n1, n2, n3, _, e, ok, _⟩ := q6 n hn
    refine ⟨by rw [e]; rfl, ?_, ?_, hT1.2.2.1, ?_⟩
    · -- the new halffaces are not flagged by `delete_vertex(a)`
      intro hf hm
      refine ⟨by rw [hnHF2]; exact (ok hf hm).1, ?_⟩
      unfold fDeleted
      rw [f7, flagsFold_getD]
      have h0 := (ok hf hm).2; unfold fDeleted at h0
      rw [h0, Bool.false_or, Bool.and_eq_false_iff]
      left
      simp only [decide_eq_false_iff_not, List.mem_reverse]
      intro hin
      have hav := incidentFaces_vertex_sound b1.ginv hfull1 b1.loops hva1 (ok hf hm).1 hin
      obtain ⟨cj, _, hr⟩ := hfwd hf hm
      exact not_mem_map_subst P.hab _ ((hr.mem_iff (by
        have := hr.length
        obtain ⟨l3, _, _⟩ := hfVerts_cell_facts P hl (by assumption : cj ∈ k.cellAt n.1)
        simp [l3]) _).mp hav)
    · rw [spanVertCount_of_eq f3 f2, noParallel_of_eq f3 f2]
      exact ⟨spanVertCount_of_tetOn hT1 (loops_of_hfOk b1.loops (fun hf hm => (ok hf hm).1)),
        noParallel_of_tetOn hT1 (loops_of_hfOk b1.loops (fun hf hm => (ok hf hm).1))⟩
    · -- … and free
      intro hf hm
      rw [sCellOf_none_iff]
      intro T hT hmem
      have hT1' := (hlive2 T).mp hT
      have hTlt : T < k.nC := by have := liveC_lt hT1'.1; unfold nC at *; rw [x1.cells] at this; exact this
      have hTk : k.liveC T = true := by
        have := hT1'.1
        unfold liveC cDeleted nC at this ⊢
        rw [x1.cells, d1, flagsFold_getD] at this
        simp only [Bool.and_eq_true, decide_eq_true_eq, Bool.not_eq_true', Bool.or_eq_false_iff] at this ⊢
        exact ⟨this.1, this.2.1⟩
      have hV : k1.cellVertSet T = k.cellVertSet T :=
        cellVertSet_congr (x1.cellAt T) (fun x hx => x1.hfVerts hw.range (cellAt_range hw.range hTlt x hx))
      have hcell : (k1.deleteVertex (k.fromV h)).cellAt T = k.cellAt T := by
        unfold cellAt; rw [f1, x1.cells]
      rw [hcell] at hmem
      have hfold : hf < k.nHF := cellAt_range hw.range hTlt hf hmem
      obtain ⟨cj, hcj, hr⟩ := hfwd hf hm
      rw [x1.hfVerts hw.range hfold] at hr
      exact newHf_not_in_survivor P (hreb n hn) hcj hTk (by rw [← hV]; exact hT1'.2) hmem hr
  · -- different rebuilt cells, different halffaces
    have hnd : (rem.map (·.1)).Nodup := by rw [q5']; exact rebuilt_nodup k h
    have hpw : rem.Pairwise (fun n m => n.1 ≠ m.1) := by
      unfold List.Nodup at hnd; rw [List.pairwise_map] at hnd; exact hnd
    exact hpw.imp_of_mem (fun {n m} hn hm hne => newHf_disjoint P (q6 n hn) (q6 m hm) (hreb n hn) (hreb m hm) hne)

theorem collapseBody_fst (k : Kernel) (t1 t2 : Bool) (h : Nat) : (k.collapseBody t1 h).1 = (k.collapseBody t2 h).1 := rfl

theorem enableDeferred_true_of_imm {k : Kernel} (hd : k.deferred = false) : k.enableDeferred true = { k with deferred := true } := by
  unfold enableDeferred; simp [hd]

/-- **`collapse_edge(a → b)` on an edge satisfying the link condition keeps the global kernel invariant**, in every
    deletion mode: for a state with the invariant, all three caches and closed triangular faces, the state just
    before the operation switches back to the caller's deletion mode (`collapsePre`) satisfies `GInv` — the former
    gap hypothesis of `TetOpOK (.collapse h)` — and so does the result -/
theorem ginv_collapsePre {k : Kernel} {h : Nat} (hi : GInv k) (hl : FaceLoops k) (hb : k.fullBU = true)
    (hlc : k.linkCondition h = true) : GInv (collapsePre k h) := by
  unfold collapsePre
  cases hd : k.deferred
  · simp only [Bool.not_false, if_true]
    rw [enableDeferred_true_of_imm hd]
    have hg := ginv_enableDeferred true hi
    rw [enableDeferred_true_of_imm hd] at hg
    exact ginv_collapseBody (k := { k with deferred := true }) ⟨hg, hl, hb, rfl, hlc⟩ false
  · simp only [Bool.not_true, Bool.false_eq_true, if_false]
    exact ginv_collapseBody ⟨hi, hl, hb, hd, hlc⟩ true

theorem tetOpOK_collapse {k : Kernel} {h : Nat} (hi : GInv k) (hl : FaceLoops k) (hb : k.fullBU = true)
    (hlc : k.linkCondition h = true) : TetOpOK k (.collapse h) := ginv_collapsePre hi hl hb hlc

theorem ginv_collapseEdge {k : Kernel} {h : Nat} (hi : GInv k) (hl : FaceLoops k) (hb : k.fullBU = true)
    (hlc : k.linkCondition h = true) : GInv (k.collapseEdge h).1 := by
  rw [collapseEdge_eq]; exact ginv_enableDeferred _ (ginv_collapsePre hi hl hb hlc)

end Kernel
end OVM

import OVM.Tet.Spec
/-
  `canonQuad` only depends on the orientation class of an oriented vertex quadruple: `lexLe` is a
  total order on lists of equal length, the fold of `canonQuad` computes the `lexLe`-least member of
  `evenPerms t`, and the twelve even permutations are closed under composition.
-/
namespace OVM
namespace Kernel


theorem lexLe_refl : ∀ x : List Nat, lexLe x x = true
  | [] => by simp [lexLe]
  | a :: as => by simp [lexLe, lexLe_refl as]

theorem lexLe_trans : ∀ x y z : List Nat, lexLe x y = true → lexLe y z = true → lexLe x z = true
  | [], _, _, _, _ => by simp [lexLe]
  | _ :: _, [], _, h, _ => by simp [lexLe] at h
  | _ :: _, _ :: _, [], _, h => by simp [lexLe] at h
  | a :: as, b :: bs, c :: cs, h1, h2 => by
    simp only [lexLe, Bool.or_eq_true, Bool.and_eq_true, decide_eq_true_eq, beq_iff_eq] at h1 h2 ⊢
    rcases h1 with h1 | ⟨rfl, h1⟩
    · rcases h2 with h2 | ⟨rfl, _⟩
      · exact Or.inl (Nat.lt_trans h1 h2)
      · exact Or.inl h1
    · rcases h2 with h2 | ⟨rfl, h2⟩
      · exact Or.inl h2
      · exact Or.inr ⟨rfl, lexLe_trans as bs cs h1 h2⟩

theorem lexLe_total : ∀ x y : List Nat, lexLe x y = true ∨ lexLe y x = true
  | [], _ => by simp [lexLe]
  | _ :: _, [] => by simp [lexLe]
  | a :: as, b :: bs => by
    simp only [lexLe, Bool.or_eq_true, Bool.and_eq_true, decide_eq_true_eq, beq_iff_eq]
    rcases Nat.lt_trichotomy a b with h | rfl | h
    · exact Or.inl (Or.inl h)
    · rcases lexLe_total as bs with h | h
      · exact Or.inl (Or.inr ⟨rfl, h⟩)
      · exact Or.inr (Or.inr ⟨rfl, h⟩)
    · exact Or.inr (Or.inl h)

theorem lexLe_antisymm : ∀ x y : List Nat, lexLe x y = true → lexLe y x = true → x.length = y.length → x = y
  | [], [], _, _, _ => rfl
  | [], _ :: _, _, _, h => by simp at h
  | _ :: _, [], _, _, h => by simp at h
  | a :: as, b :: bs, h1, h2, hl => by
    simp only [lexLe, Bool.or_eq_true, Bool.and_eq_true, decide_eq_true_eq, beq_iff_eq] at h1 h2
    simp only [List.length_cons, Nat.add_right_cancel_iff] at hl
    rcases h1 with h1 | ⟨rfl, h1⟩
    · rcases h2 with h2 | ⟨rfl, _⟩
      · exact absurd h1 (Nat.lt_asymm h2)
      · exact absurd h1 (Nat.lt_irrefl _)
    · rcases h2 with h2 | ⟨_, h2⟩
      · exact absurd h2 (Nat.lt_irrefl _)
      · rw [lexLe_antisymm as bs h1 h2 hl]

/-- the running minimum of a total preorder -/
theorem foldMin_spec {α : Type} (le : α → α → Bool) (htr : ∀ x y z, le x y = true → le y z = true → le x z = true)
    (htot : ∀ x y, le x y = true ∨ le y x = true) :
    ∀ (l : List α) (t : α),
      (l.foldl (fun m x => if le x m then x else m) t = t ∨ l.foldl (fun m x => if le x m then x else m) t ∈ l) ∧
      le (l.foldl (fun m x => if le x m then x else m) t) t = true ∧
      ∀ y ∈ l, le (l.foldl (fun m x => if le x m then x else m) t) y = true
  | [], t => by
    have hr : le t t = true := by rcases htot t t with h | h <;> exact h
    simp [hr]
  | x :: l, t => by
    simp only [List.foldl_cons]
    by_cases hxt : le x t = true
    · simp only [hxt, if_true]
      obtain ⟨h1, h2, h3⟩ := foldMin_spec le htr htot l x
      refine ⟨Or.inr ?_, htr _ _ _ h2 hxt, ?_⟩
      · rcases h1 with h1 | h1
        · rw [h1]; exact List.mem_cons_self
        · exact List.mem_cons_of_mem _ h1
      · intro y hy
        rcases List.mem_cons.mp hy with rfl | hy
        · exact h2
        · exact h3 y hy
    · simp only [hxt]
      obtain ⟨h1, h2, h3⟩ := foldMin_spec le htr htot l t
      have htx : le t x = true := by rcases htot t x with h | h; exact h; exact absurd h hxt
      refine ⟨?_, h2, ?_⟩
      · rcases h1 with h1 | h1
        · exact Or.inl h1
        · exact Or.inr (List.mem_cons_of_mem _ h1)
      · intro y hy
        rcases List.mem_cons.mp hy with rfl | hy
        · exact htr _ _ _ h2 htx
        · exact h3 y hy

/-! ### the twelve even permutations -/

theorem self_mem_evenPerms (t : List Nat) : t ∈ evenPerms t := by
  unfold evenPerms
  split <;> simp

theorem length_of_mem_evenPerms (t x : List Nat) (ht : t.length = 4) (hx : x ∈ evenPerms t) : x.length = 4 := by
  match t, ht with
  | [a, b, c, d], _ =>
    simp only [evenPerms, List.mem_cons, List.not_mem_nil, or_false] at hx
    rcases hx with rfl | rfl | rfl | rfl | rfl | rfl | rfl | rfl | rfl | rfl | rfl | rfl <;> rfl

/-- the even permutations are closed under composition and inverse: every member generates the same
    twelve quadruples -/
theorem evenPerms_closed (a b c d : Nat) (x : List Nat) (hx : x ∈ evenPerms [a, b, c, d]) (y : List Nat) :
    y ∈ evenPerms x ↔ y ∈ evenPerms [a, b, c, d] := by
  simp only [evenPerms, List.mem_cons, List.not_mem_nil, or_false] at hx
  rcases hx with rfl | rfl | rfl | rfl | rfl | rfl | rfl | rfl | rfl | rfl | rfl | rfl <;>
    simp only [evenPerms, List.mem_cons, List.not_mem_nil, or_false] <;>
    constructor <;> intro h <;>
    rcases h with h | h | h | h | h | h | h | h | h | h | h | h <;> simp only [h, true_or, or_true]

theorem mem_evenPerms_congr (t x : List Nat) (ht : t.length = 4) (hx : x ∈ evenPerms t) (y : List Nat) :
    y ∈ evenPerms x ↔ y ∈ evenPerms t := by
  match t, ht with
  | [a, b, c, d], _ => exact evenPerms_closed a b c d x hx y

/-- renaming commutes with the even permutations -/
theorem evenPerms_map_mem (f : Nat → Nat) (t x : List Nat) (ht : t.length = 4) (hx : x ∈ evenPerms t) :
    x.map f ∈ evenPerms (t.map f) := by
  match t, ht with
  | [a, b, c, d], _ =>
    simp only [evenPerms, List.mem_cons, List.not_mem_nil, or_false] at hx
    rcases hx with rfl | rfl | rfl | rfl | rfl | rfl | rfl | rfl | rfl | rfl | rfl | rfl <;>
      simp only [List.map_cons, List.map_nil, evenPerms, List.mem_cons, true_or, or_true]

/-! ### the canonical representative -/

/-- `canonQuad t` is `t` or one of its even permutations, and is `lexLe` every one of them -/
theorem canonQuad_spec (t : List Nat) :
    canonQuad t ∈ evenPerms t ∧ ∀ y ∈ evenPerms t, lexLe (canonQuad t) y = true := by
  obtain ⟨h1, _, h3⟩ := foldMin_spec lexLe lexLe_trans lexLe_total (evenPerms t) t
  refine ⟨?_, h3⟩
  rcases h1 with h1 | h1
  · unfold canonQuad; rw [h1]; exact self_mem_evenPerms t
  · exact h1

theorem canonQuad_mem (t : List Nat) (ht : t.length = 4) : canonQuad t ∈ evenPerms t :=
  have _ := ht
  (canonQuad_spec t).1

theorem canonQuad_le (t y : List Nat) (hy : y ∈ evenPerms t) : lexLe (canonQuad t) y = true :=
  (canonQuad_spec t).2 y hy

theorem canonQuad_length (t : List Nat) (ht : t.length = 4) : (canonQuad t).length = 4 :=
  length_of_mem_evenPerms t _ ht (canonQuad_mem t ht)

/-- the canonical representative only depends on the orientation class -/
theorem canonQuad_of_mem_evenPerms (t x : List Nat) (ht : t.length = 4) (hx : x ∈ evenPerms t) :
    canonQuad x = canonQuad t := by
  have hxl : x.length = 4 := length_of_mem_evenPerms t x ht hx
  have h1 : canonQuad x ∈ evenPerms t := (mem_evenPerms_congr t x ht hx _).mp (canonQuad_mem x hxl)
  have h2 : canonQuad t ∈ evenPerms x := (mem_evenPerms_congr t x ht hx _).mpr (canonQuad_mem t ht)
  exact lexLe_antisymm _ _ (canonQuad_le x _ h2) (canonQuad_le t _ h1)
    ((canonQuad_length x hxl).trans (canonQuad_length t ht).symm)

/-- two quadruples have the same canonical representative iff they are in the same orientation class -/
theorem canonQuad_eq_iff (t x : List Nat) (ht : t.length = 4) (hxl : x.length = 4) :
    canonQuad x = canonQuad t ↔ x ∈ evenPerms t := by
  constructor
  · intro h
    have h1 : canonQuad t ∈ evenPerms x := h ▸ canonQuad_mem x hxl
    have h2 : x ∈ evenPerms (canonQuad t) :=
      (mem_evenPerms_congr x _ hxl h1 x).mpr (self_mem_evenPerms x)
    exact (mem_evenPerms_congr t _ ht (canonQuad_mem t ht) x).mp h2
  · exact canonQuad_of_mem_evenPerms t x ht

theorem canonQuad_rot1 (p q r s : Nat) : canonQuad [q, r, p, s] = canonQuad [p, q, r, s] :=
  canonQuad_of_mem_evenPerms [p, q, r, s] [q, r, p, s] rfl (by simp [evenPerms])

theorem canonQuad_rot2 (p q r s : Nat) : canonQuad [r, p, q, s] = canonQuad [p, q, r, s] :=
  canonQuad_of_mem_evenPerms [p, q, r, s] [r, p, q, s] rfl (by simp [evenPerms])

theorem canonQuad_rot (x : List Nat) (p q r s : Nat) (h : x = [p, q, r] ∨ x = [q, r, p] ∨ x = [r, p, q]) :
    canonQuad (x ++ [s]) = canonQuad [p, q, r, s] := by
  rcases h with rfl | rfl | rfl
  · rfl
  · exact canonQuad_rot1 p q r s
  · exact canonQuad_rot2 p q r s

/-- renaming keeps the orientation class, hence maps canonical representatives of one class to one class -/
theorem canonQuad_map_of_mem (f : Nat → Nat) (t x : List Nat) (ht : t.length = 4) (hx : x ∈ evenPerms t) :
    canonQuad (x.map f) = canonQuad (t.map f) :=
  canonQuad_of_mem_evenPerms (t.map f) (x.map f) (by simp [ht]) (evenPerms_map_mem f t x ht hx)

/-- non-vacuity: a rotation of the first three is canonicalised, an odd permutation lands in the other class -/
example : canonQuad [3, 1, 2, 5] = [1, 2, 3, 5] ∧ canonQuad [1, 2, 3, 5] = [1, 2, 3, 5] ∧
    canonQuad [2, 1, 3, 5] = [1, 2, 5, 3] ∧ canonQuad [2, 1, 3, 5] ≠ canonQuad [1, 2, 3, 5] := by decide

end Kernel
end OVM

import OVM.Tet.CollapseRefine
/-
  C15(d), the assembly: from the description of the state after `collapse_edge` (`collapse_state`,
  OVM/Tet/CollapseRefine.lean) to the statement on oriented vertex quadruples.
-/
namespace OVM
namespace Kernel
open Global ScanDel

/-! ### the oriented quadruple of a tetrahedron -/

theorem eq_singleton_of_nodup {l : List Nat} {s : Nat} (hn : l.Nodup) (hm : ∀ v, v ∈ l ↔ v = s) : l = [s] := by
  match l, hn, hm with
  | [], _, hm => exact absurd ((hm s).mpr rfl) (by simp)
  | [x], _, hm => rw [(hm x).mp (by simp)]
  | x :: y :: t, hn, hm =>
    have h1 := (hm x).mp (by simp)
    have h2 := (hm y).mp (by simp)
    simp only [List.nodup_cons, List.mem_cons, not_or] at hn
    exact absurd (h1.trans h2.symm) hn.1.1

theorem filter_nodup {l : List Nat} (p : Nat → Bool) (h : l.Nodup) : (l.filter p).Nodup :=
  h.sublist List.filter_sublist

/-- the quadruple of a cell described by `TetOn`: the stored cycle of its first halfface, then the fourth vertex -/
theorem cellQuad_of_tetOn {k : Kernel} {c p q r s : Nat} {x : List Nat} (hT : TetOn k (k.cellAt c) p q r s)
    (hx : k.hfVerts ((k.cellAt c).headD 0) = x) (hr : Rot x [p, q, r]) : k.cellQuad c = x ++ [s] := by
  unfold cellQuad sApex
  simp only [hx]
  congr 1
  have hd := hT.1
  simp only [List.nodup_cons, List.mem_cons, List.not_mem_nil, or_false, not_or, List.nodup_nil, and_true] at hd
  obtain ⟨⟨hpq, hpr, hps⟩, ⟨hqr, hqs⟩, hrs, _⟩ := hd
  apply eq_singleton_of_nodup (filter_nodup _ (by unfold cellVertSet; exact toSet_nodup _))
  intro v
  rw [List.mem_filter, cellVertSet_mem_iff hT]
  simp only [Bool.not_eq_true', List.contains_eq_mem, decide_eq_false_iff_not, hr.mem_iff rfl,
    List.mem_cons, List.not_mem_nil, or_false]
  constructor
  · rintro ⟨h1 | h1 | h1 | h1, h2⟩
    · exact absurd (Or.inl h1) h2
    · exact absurd (Or.inr (Or.inl h1)) h2
    · exact absurd (Or.inr (Or.inr h1)) h2
    · exact h1
  · rintro rfl
    refine ⟨Or.inr (Or.inr (Or.inr rfl)), ?_⟩
    rintro (h | h | h)
    · exact hps h.symm
    · exact hqs h.symm
    · exact hrs h.symm

theorem cellQuad_isTet {k : Kernel} {c : Nat} (h : IsTet k c) :
    ∃ p q r s, k.cellQuad c = [p, q, r, s] ∧ TetOn k (k.cellAt c) p q r s ∧ k.hfVerts ((k.cellAt c).headD 0) = [p, q, r] := by
  obtain ⟨p, q, r, s, h1, _, h3⟩ := h.elim
  exact ⟨p, q, r, s, cellQuad_of_tetOn h3 h1 (Or.inl rfl), h3, h1⟩

theorem mem_cellQuad_isTet {k : Kernel} {c : Nat} (h : IsTet k c) (v : Nat) : v ∈ k.cellQuad c ↔ v ∈ k.cellVertSet c := by
  obtain ⟨p, q, r, s, e, hT, _⟩ := cellQuad_isTet h
  rw [e, cellVertSet_mem_iff hT]

theorem cellQuad_congr {k k' : Kernel} {c : Nat} (hl : (k.cellAt c).length = 4) (hc : k'.cellAt c = k.cellAt c)
    (hv : ∀ hf ∈ k.cellAt c, k'.hfVerts hf = k.hfVerts hf) : k'.cellQuad c = k.cellQuad c := by
  have hm := head_getD_mem (k.cellAt c) hl
  have hh : k'.hfVerts ((k.cellAt c).headD 0) = k.hfVerts ((k.cellAt c).headD 0) :=
    hv _ (by have := hm.1; rw [← hm.2] at this; exact this)
  unfold cellQuad sApex
  simp only [hc, cellVertSet_congr hc hv, hh]

theorem map_subst_id {a b : Nat} {t : List Nat} (h : a ∉ t) : t.map (substV a b) = t := by
  have : ∀ v ∈ t, substV a b v = v := by
    intro v hv; unfold substV; split
    · rename_i e; simp at e; subst e; exact absurd hv h
    · rfl
  exact (List.map_congr_left this).trans (List.map_id t)

/-! ### live cells of an extended cell array -/

theorem liveCells_extend {k k' : Kernel} {m : Nat} (q : Nat → Bool) (hn : k'.nC = k.nC + m)
    (hold : ∀ c, c < k.nC → (k'.cDeleted c = false ↔ (k.cDeleted c = false ∧ q c = true)))
    (hnew : ∀ i, i < m → k'.cDeleted (k.nC + i) = false) :
    k'.liveCells = k.liveCells.filter q ++ (List.range m).map (fun i => k.nC + i) := by
  unfold liveCells
  rw [hn, List.range_add, List.filter_append, List.filter_filter]
  congr 1
  · apply List.filter_congr
    intro c hc
    have hc' : c < k.nC := by simpa using hc
    have := hold c hc'
    cases h1 : k'.cDeleted c <;> cases h2 : k.cDeleted c <;> cases h3 : q c <;> simp_all
  · rw [List.filter_eq_self]
    intro x hx
    obtain ⟨i, hi, rfl⟩ := List.mem_map.mp hx
    have hi' : i < m := by simpa using hi
    simp [hnew i hi']

/-! ### a re-created cell -/

/-- a remembered cell, once re-created at slot `j` of a state `K'` that keeps the vertex cycles of its new
    halffaces: it is a tetrahedron again, and its oriented quadruple is an even rearrangement of the old
    quadruple with `a` renamed to `b` -/
theorem newCell_quad {k k1 K' : Kernel} {a b : Nat} {n : Nat × List Nat} {j : Nat} (hT : IsTet k n.1)
    (hrem : RemOK k k1 a b n) (hnb : ¬ (a ∈ k.cellVertSet n.1 ∧ b ∈ k.cellVertSet n.1))
    (hcell : K'.cellAt j = n.2) (hv : ∀ x ∈ n.2, K'.hfVerts x = k1.hfVerts x) :
    IsTet K' j ∧ K'.cellQuad j ∈ evenPerms ((k.cellQuad n.1).map (substV a b)) ∧
    canonQuad (K'.cellQuad j) = canonQuad ((k.cellQuad n.1).map (substV a b)) := by
  obtain ⟨p, q, r, s, eq, hTo, hhd⟩ := cellQuad_isTet hT
  obtain ⟨c0, c1, c2, c3, n0, n1, n2, n3, hc, hn, _, r0, r1, r2, r3⟩ := hrem
  rw [hc] at hTo hhd
  simp only [List.headD_cons] at hhd
  rw [hn] at hv hcell
  have v0 := hv n0 (by simp); have v1 := hv n1 (by simp); have v2 := hv n2 (by simp); have v3 := hv n3 (by simp)
  have hmem := cellVertSet_mem_iff (c := n.1) (by rw [hc]; exact hTo)
  have hd' : [substV a b p, substV a b q, substV a b r, substV a b s].Nodup := by
    have := subst_nodup a b [p, q, r, s] hTo.1 (fun ⟨h1, h2⟩ => hnb ⟨(hmem a).mpr h1, (hmem b).mpr h2⟩)
    simpa using this
  have hT' : TetOn K' [n0, n1, n2, n3] (substV a b p) (substV a b q) (substV a b r) (substV a b s) := by
    apply TetOn.transfer (substV a b) hTo hd' rfl
    · intro y hy
      simp only [List.mem_cons, List.not_mem_nil, or_false] at hy
      rcases hy with rfl | rfl | rfl | rfl
      · exact ⟨c0, by simp, by rw [v0]; exact r0⟩
      · exact ⟨c1, by simp, by rw [v1]; exact r1⟩
      · exact ⟨c2, by simp, by rw [v2]; exact r2⟩
      · exact ⟨c3, by simp, by rw [v3]; exact r3⟩
    · intro x hx
      simp only [List.mem_cons, List.not_mem_nil, or_false] at hx
      rcases hx with rfl | rfl | rfl | rfl
      · exact ⟨n0, by simp, by rw [v0]; exact r0⟩
      · exact ⟨n1, by simp, by rw [v1]; exact r1⟩
      · exact ⟨n2, by simp, by rw [v2]; exact r2⟩
      · exact ⟨n3, by simp, by rw [v3]; exact r3⟩
  have hrot : Rot (K'.hfVerts ((K'.cellAt j).headD 0)) [substV a b p, substV a b q, substV a b r] := by
    rw [hcell]; simp only [List.headD_cons]
    rw [v0]; have := r0; rw [hhd] at this; simpa using this
  have hTj : TetOn K' (K'.cellAt j) (substV a b p) (substV a b q) (substV a b r) (substV a b s) := by
    rw [hcell]; exact hT'
  have hq := cellQuad_of_tetOn hTj rfl hrot
  have hmapq : (k.cellQuad n.1).map (substV a b) = [substV a b p, substV a b q, substV a b r, substV a b s] := by
    rw [eq]; rfl
  have h3 := (rot_three _ _ _ _).mp hrot
  refine ⟨isTet_of_tetOn_rot hrot hTj, ?_, ?_⟩
  · rw [hq, hmapq]
    rcases h3 with e | e | e <;> rw [e] <;> simp [evenPerms]
  · rw [hq, hmapq]
    exact canonQuad_rot _ _ _ _ _ h3

/-! ### **the refinement theorem** -/

/-- C15(d): `collapse_edge(a → b)` in deferred mode refines the abstract collapse.  The canonical oriented vertex
    quadruples of the live cells afterwards are, as a multiset, those of `absCollapse a b` of the quadruples before -/
theorem collapse_refines {k : Kernel} {h : Nat} (P : CPre k h) :
    ((k.collapseEdge h).1.liveCells.map (fun c => canonQuad ((k.collapseEdge h).1.cellQuad c))).Perm
      ((absCollapse (k.fromV h) (k.toV h) (k.liveCells.map k.cellQuad)).map canonQuad) := by
  obtain ⟨rem, k1, b1, x1, q5, q6, s1, s2, s3, s4, s5, s6, _, _, _⟩ := collapse_state P
  generalize (k.collapseEdge h).1 = K' at *
  have hw := P.ginv.wf
  -- live cells afterwards
  have hnC : K'.nC = k.nC + rem.length := by unfold nC; rw [s1]; simp
  have hlive := liveCells_extend (k := k) (k' := K') (m := rem.length)
    (fun c => decide (k.fromV h ∉ k.cellVertSet c)) hnC
    (fun c hc => by rw [s5 c hc]; simp) s6
  rw [hlive, List.map_append]
  clear hlive
  -- the abstract side, split in the same way
  have hA : absCollapse (k.fromV h) (k.toV h) (k.liveCells.map k.cellQuad) =
      (k.liveCells.filter (fun c => !((k.cellQuad c).contains (k.fromV h) && (k.cellQuad c).contains (k.toV h)))).map
        (fun c => (k.cellQuad c).map (substV (k.fromV h) (k.toV h))) := by
    unfold absCollapse
    rw [List.filter_map, List.map_map]; rfl
  have hR : (absCollapse (k.fromV h) (k.toV h) (k.liveCells.map k.cellQuad)).map canonQuad =
      (k.liveCells.filter (fun c => !((k.cellQuad c).contains (k.fromV h) && (k.cellQuad c).contains (k.toV h)))).map
        (fun c => canonQuad ((k.cellQuad c).map (substV (k.fromV h) (k.toV h)))) := by
    rw [hA, List.map_map]; rfl
  rw [hR]
  generalize hp1 : (fun c => !((k.cellQuad c).contains (k.fromV h) && (k.cellQuad c).contains (k.toV h))) = p1
  have hsplit := (List.filter_append_perm (fun c => decide (k.fromV h ∉ k.cellVertSet c)) (k.liveCells.filter p1)).symm
  refine List.Perm.trans ?_ (hsplit.map _).symm
  rw [List.map_append]
  have hLC : ∀ c ∈ k.liveCells, k.liveC c = true := fun c hc => (mem_liveCells k c).mp hc
  have hq : ∀ c ∈ k.liveCells, ∀ v, v ∈ k.cellQuad c ↔ v ∈ k.cellVertSet c :=
    fun c hc v => mem_cellQuad_isTet (P.isTet (hLC c hc)) v
  apply List.Perm.append
  · -- the cells without `a`: unchanged
    rw [List.filter_filter]
    have e1 : k.liveCells.filter (fun c => decide (k.fromV h ∉ k.cellVertSet c) && p1 c) =
        k.liveCells.filter (fun c => decide (k.fromV h ∉ k.cellVertSet c)) := by
      apply List.filter_congr
      intro c hc
      subst hp1
      by_cases ha : k.fromV h ∈ k.cellVertSet c
      · simp [ha]
      · have hna : k.fromV h ∉ k.cellQuad c := fun hx => ha ((hq c hc _).mp hx)
        simp [ha, hna]
    rw [e1]
    apply List.Perm.of_eq
    apply List.map_congr_left
    intro c hc
    obtain ⟨hcl, hca⟩ := List.mem_filter.mp hc
    have hca' : k.fromV h ∉ k.cellVertSet c := by simpa using hca
    have hl := hLC c hcl
    have hlt := liveC_lt hl
    have hT := P.isTet hl
    obtain ⟨p, q, r, s, _, hTo, _⟩ := cellQuad_isTet hT
    have hcq : K'.cellQuad c = k.cellQuad c := by
      apply cellQuad_congr hTo.2.1
      · unfold cellAt; rw [s1, getD_append_lt _ _ _ _ hlt]
      · intro hf hm
        rw [hfVerts_of_eq s3 s2 hf]
        exact x1.hfVerts hw.range (cellAt_range hw.range hlt hf hm)
    show canonQuad (K'.cellQuad c) = canonQuad ((k.cellQuad c).map (substV (k.fromV h) (k.toV h)))
    rw [hcq, map_subst_id (fun hx => hca' ((hq c hcl _).mp hx))]
  · -- the rebuilt cells
    have e2 : ((List.range rem.length).map (fun i => k.nC + i)).map (fun c => canonQuad (K'.cellQuad c)) =
        (rebuilt k h).map (fun c => canonQuad ((k.cellQuad c).map (substV (k.fromV h) (k.toV h)))) := by
      rw [← q5, List.map_map, List.map_map]
      apply List.ext_getElem (by simp)
      intro i h1 h2
      simp only [List.getElem_map, List.getElem_range, Function.comp]
      have hi : i < rem.length := by simpa using h2
      have hmem : rem[i] ∈ rem := List.getElem_mem hi
      have hreb : rem[i].1 ∈ rebuilt k h := by rw [← q5]; exact List.mem_map.mpr ⟨_, hmem, rfl⟩
      obtain ⟨hl, ha, hb⟩ := (mem_rebuilt_iff P _).mp hreb
      have hcell : K'.cellAt (k.nC + i) = rem[i].2 := by
        unfold cellAt; rw [s1, List.getD_eq_getElem?_getD, List.getElem?_append_right (by unfold nC; omega)]
        simp [nC, hi]
      exact (newCell_quad (P.isTet hl) (q6 _ hmem) (fun hx => hb hx.2) hcell
        (fun x _ => hfVerts_of_eq s3 s2 x)).2.2
    rw [e2]
    apply List.Perm.map
    rw [List.filter_filter]
    apply (List.perm_ext_iff_of_nodup (rebuilt_nodup k h) (filter_nodup _ (liveCells_nodup k))).mpr
    intro c
    rw [mem_rebuilt_iff P c, List.mem_filter, mem_liveCells]
    subst hp1
    constructor
    · rintro ⟨hl, ha, hb⟩
      have hc := (mem_liveCells k c).mpr hl
      refine ⟨hl, ?_⟩
      have hnb : k.toV h ∉ k.cellQuad c := fun hx => hb ((hq c hc _).mp hx)
      simp [ha, hnb]
    · rintro ⟨hl, hx⟩
      have hc := (mem_liveCells k c).mpr hl
      simp only [Bool.and_eq_true, Bool.not_eq_true', decide_eq_false_iff_not, Decidable.not_not,
        Bool.and_eq_false_iff, List.contains_eq_mem, decide_eq_true_eq] at hx
      refine ⟨hl, hx.1, ?_⟩
      rcases hx.2 with h1 | h1
      · exact absurd ((hq c hc _).mpr hx.1) h1
      · exact fun hb => h1 ((hq c hc _).mpr hb)

end Kernel
end OVM

import OVM.Tet.Query
/-
  M: the construction conveniences of `TetrahedralMeshTopologyKernel`
  (Mesh/TetrahedralMeshTopologyKernel.cc:98-123 and 572-702): reuse-or-create of halfedges and
  halffaces, `add_cell(vertices)`, `add_cell(v0,v1,v2,v3)`.  They create the missing edges and
  faces *before* the cell is checked; a rejected cell leaves them behind.
-/
namespace OVM
namespace Kernel

/-- `add_halfedge` (cc:98-105) -/
def tetAddHalfedge (k : Kernel) (a b : Nat) : Kernel × Nat :=
  match k.findHalfedge a b with
  | some he => (k, he)
  | none => let r := k.addEdge a b false; (r.1, heOf r.2 0)

/-- `add_halfface(halfedges, check)` (cc:107-114).  `none`: the face was refused by the virtual
    `add_face` (under NDEBUG the C++ then returns `halfface_handle(InvalidFaceHandle, 0)`, the
    handle −2).  The C++ reads `_halfedges[0]` and `[1]` unchecked. -/
def tetAddHalfface (k : Kernel) (hes : List Nat) (chk : Bool) : Kernel × Option Nat :=
  match hes with
  | he0 :: he1 :: _ =>
    match k.findHalffaceHes he0 he1 with
    | some hf => (k, some hf)
    | none => let r := k.tetAddFace hes chk; (r.1, r.2.map (heOf · 0))
  | _ => ({ k with fault := true }, none)

/-- `add_halfface(v0, v1, v2, check)` (cc:116-123) -/
def tetAddHalfface3 (k : Kernel) (v0 v1 v2 : Nat) (chk : Bool) : Kernel × Option Nat :=
  let r0 := k.tetAddHalfedge v0 v1
  let r1 := r0.1.tetAddHalfedge v1 v2
  let r2 := r1.1.tetAddHalfedge v2 v0
  r2.1.tetAddHalfface [r0.2, r1.2, r2.2] chk

/-- `add_cell(v0, v1, v2, v3, check)` (cc:692-700): the four halffaces in this order, created
    unchecked, then the virtual `add_cell(halffaces, check)` -/
def tetAddCell4 (k : Kernel) (v0 v1 v2 v3 : Nat) (chk : Bool) : Kernel × Option Nat :=
  let r0 := k.tetAddHalfface3 v0 v1 v2 false
  let r1 := r0.1.tetAddHalfface3 v0 v2 v3 false
  let r2 := r1.1.tetAddHalfface3 v0 v3 v1 false
  let r3 := r2.1.tetAddHalfface3 v1 v3 v2 false
  match r0.2, r1.2, r2.2, r3.2 with
  | some a, some b, some c, some d => r3.1.tetAddCell [a, b, c, d] chk
  | _, _, _, _ => ({ r3.1 with fault := true }, none)

/-- find-or-create of one face of `add_cell(vertices)` (cc:592-600): `find_halfface(vs)`, else the
    base-class `add_face(vs)` and side 0 of the new face -/
def findOrAddFaceV (k : Kernel) (vs : List Nat) : Kernel × Option Nat :=
  match k.findHalffaceV vs with
  | some hf => (k, some hf)
  | none => let r := k.addFaceV vs; (r.1, r.2.map (heOf · 0))

/-- the manifold test of `add_cell(vertices, true)` (cc:641-665): as many halfedges as twice the
    edges, both counted as sets -/
def tetCellCheckV (k : Kernel) (hfs : List Nat) : Bool :=
  let hes := hfs.flatMap k.hfHes
  (toSet hes).length == 2 * (toSet (hes.map eOf)).length

/-- `add_cell(vertices, check)` (cc:572-690) -/
def tetAddCellV (k : Kernel) (vs : List Nat) (chk : Bool) : Kernel × Option Nat :=
  if vs.length != 4 then (k, none)
  else if !k.fullBU then (k, none)
  else
    let v := fun i => vs.getD i 0
    let r0 := k.findOrAddFaceV [v 0, v 1, v 2]
    let r1 := r0.1.findOrAddFaceV [v 0, v 2, v 3]
    let r2 := r1.1.findOrAddFaceV [v 0, v 3, v 1]
    let r3 := r2.1.findOrAddFaceV [v 1, v 3, v 2]
    match r0.2, r1.2, r2.2, r3.2 with
    | some a, some b, some c, some d =>
      let k4 := r3.1
      let hfs := [a, b, c, d]
      if chk && !k4.tetCellCheckV hfs then (k4, none)
      else if chk && k4.fBU && hfs.any (fun hf => k4.cellOf hf != none) then (k4, none)
      else k4.addCell hfs false
    | _, _, _, _ => ({ r3.1 with fault := true }, none)

/-! ### `swap_property_elements` / `copy_property_elements` (Core/ResourceManagerT_impl.hh:68-84) -/
def swapHEProp (p : Props) (a b : Nat) : Props := { p with he := p.he.map (·.swap a b) }
def swapHFProp (p : Props) (a b : Nat) : Props := { p with hf := p.hf.map (·.swap a b) }
def swapCProp (p : Props) (a b : Nat) : Props := { p with c := p.c.map (·.swap a b) }
def colCopy (src dst : Nat) (c : Col) : Col := { c with vals := c.vals.set dst (c.vals.getD src c.dflt) }
def copyCProp (p : Props) (src dst : Nat) : Props := { p with c := p.c.map (colCopy src dst) }

end Kernel
end OVM

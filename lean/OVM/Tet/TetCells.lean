import OVM.Tet.TetBuild
import OVM.Tet.TetOnLemmas
/-
  C15(a), the vertex part: WHICH construction paths make a tetrahedron.
  * `add_cell(v0,v1,v2,v3)` (`tetAddCell4`, Mesh/TetrahedralMeshTopologyKernel.cc:692-700) on four different
    live vertices, in a mesh whose stored faces are closed triangles and with the vertex/edge caches enabled:
    whenever a cell comes back it is `IsTet` with vertex cycle `(v0,v1,v2)` (up to rotation) and apex `v3`
    (`tetAddCell4_isTet`); every stored cell that was `IsTet` stays `IsTet`, accepted or not (`tetAddCell4_allTet`).
  * `add_cell(halffaces)` does NOT guarantee it, not even with topology check: see `pillow` in Props/C15.lean
    and /verif/findings/C15-pillow-cell.md.
-/
namespace OVM
namespace Kernel
open Global

theorem hfVerts_of_eq {k k' : Kernel} (he : k'.edges = k.edges) (hf : k'.faces = k.faces) (x : Nat) :
    k'.hfVerts x = k.hfVerts x := by
  unfold hfVerts hfHes faceAt fromV halfedge edgeAt; rw [he, hf]

theorem cellVertSet_congr {k k' : Kernel} {c : Nat} (hc : k'.cellAt c = k.cellAt c)
    (hv : ∀ hf ∈ k.cellAt c, k'.hfVerts hf = k.hfVerts hf) : k'.cellVertSet c = k.cellVertSet c := by
  unfold cellVertSet; rw [hc]
  congr 1
  exact k4_flatMap_congr hv

theorem TetOn.congr {k k' : Kernel} {hs : List Nat} {p q r s : Nat} (hv : ∀ hf ∈ hs, k'.hfVerts hf = k.hfVerts hf)
    (h : TetOn k hs p q r s) : TetOn k' hs p q r s := by
  obtain ⟨a, b, c, d, e, f⟩ := h
  refine ⟨a, b, c, ?_, ?_, ?_⟩
  · intro h hh; rw [hv h hh]; exact d h hh
  · intro t ht; obtain ⟨h, hh, hr⟩ := e t ht; exact ⟨h, hh, by rw [hv h hh]; exact hr⟩
  · intro h hh h' hh' t ht r1 r2
    rw [hv h hh] at r1; rw [hv h' hh'] at r2
    exact f h hh h' hh' t ht r1 r2

/-- `IsTet` only reads the halfface list of the cell and the vertex cycles of those halffaces -/
theorem isTet_congr {k k' : Kernel} {c : Nat} (hc : k'.cellAt c = k.cellAt c)
    (hv : ∀ hf ∈ k.cellAt c, k'.hfVerts hf = k.hfVerts hf) (h : IsTet k c) : IsTet k' c := by
  obtain ⟨p, q, r, s, h1, _, h3⟩ := h.elim
  have hm := (head_getD_mem (k.cellAt c) h3.2.1)
  apply isTet_of_tetOn (p := p) (q := q) (r := r) (s := s)
  · rw [hc, hv _ (by rw [hm.2]; exact hm.1)]; exact h1
  · rw [hc]; exact h3.congr hv

theorem cellAt_range {k : Kernel} (hr : RangeInv k) {c : Nat} (hc : c < k.nC) : ∀ hf ∈ k.cellAt c, hf < k.nHF := by
  have hm : k.cellAt c ∈ k.cells := by
    unfold cellAt; rw [List.getD_eq_getElem?_getD, List.getElem?_eq_getElem hc]; exact List.getElem_mem hc
  exact hr.cells _ hm

/-- every stored cell is a tetrahedron -/
def AllTet (k : Kernel) : Prop := ∀ c, c < k.nC → IsTet k c

instance (k : Kernel) : Decidable (AllTet k) := by unfold AllTet; infer_instance

theorem Ext.isTet {k k' : Kernel} (e : Ext k k') (hr : RangeInv k) {c : Nat} (hc : c < k.nC) (h : IsTet k c) : IsTet k' c :=
  isTet_congr (e.cellAt c) (fun hf hm => e.hfVerts hr (cellAt_range hr hc hf hm)) h

theorem Ext.allTet {k k' : Kernel} (e : Ext k k') (hr : RangeInv k) (h : AllTet k) : AllTet k' := by
  intro c hc
  have hc' : c < k.nC := by unfold nC at *; rw [e.cells] at hc; exact hc
  exact e.isTet hr hc' (h c hc')

/-- a stored halfface of a `FaceLoops` mesh has three halfedges -/
theorem faceAt_length_of_loops {k : Kernel} (hl : FaceLoops k) {hf : Nat} (h : hf < k.nHF) : (k.faceAt (eOf hf)).length = 3 := by
  have hlt : eOf hf < k.faces.length := by unfold nHF eOf at *; omega
  have hm : k.faceAt (eOf hf) ∈ k.faces := by
    unfold faceAt; rw [List.getD_eq_getElem?_getD, List.getElem?_eq_getElem hlt]; exact List.getElem_mem hlt
  exact (hl _ hm).length

/-- the vertices `add_cell(halffaces)` of the tet kernel counts (64c6d58): with closed loops these are the vertices of
    the halffaces' cycles -/
theorem mem_span_iff {k : Kernel} {hfs : List Nat} (hl : ∀ hf ∈ hfs, Loop3 k (k.hfHes hf)) (x : Nat) :
    x ∈ (hfs.flatMap k.hfHes).flatMap (fun he => [k.fromV he, k.toV he]) ↔ x ∈ hfs.flatMap k.hfVerts := by
  simp only [List.mem_flatMap, List.mem_cons, List.not_mem_nil, or_false]
  constructor
  · rintro ⟨he, ⟨hf, hm, hhe⟩, rfl | rfl⟩
    · exact ⟨hf, hm, List.mem_map.mpr ⟨he, hhe, rfl⟩⟩
    · exact ⟨hf, hm, loop3_toV_mem (hl hf hm) hhe⟩
  · rintro ⟨hf, hm, hx⟩
    obtain ⟨he, hhe, rfl⟩ := List.mem_map.mp hx
    exact ⟨he, ⟨hf, hm, hhe⟩, Or.inl rfl⟩

theorem spanVertCount_eq {k : Kernel} {hfs L : List Nat} (hl : ∀ hf ∈ hfs, Loop3 k (k.hfHes hf)) (hn : L.Nodup)
    (hm : ∀ x, x ∈ hfs.flatMap k.hfVerts ↔ x ∈ L) : k.spanVertCount hfs = L.length := by
  unfold spanVertCount
  apply List.Perm.length_eq
  apply (List.perm_ext_iff_of_nodup (toSet_nodup _) hn).mpr
  intro x
  rw [mem_toSet, mem_span_iff hl, hm]

theorem spanVertCount_of_tetOn {k : Kernel} {hfs : List Nat} {p q r s : Nat} (hT : TetOn k hfs p q r s)
    (hl : ∀ hf ∈ hfs, Loop3 k (k.hfHes hf)) : k.spanVertCount hfs = 4 :=
  spanVertCount_eq hl hT.1 hT.mem_verts

def prsN (u v w : Nat) : List (Nat × Nat) := [(u, v), (v, w), (w, u)]

theorem loop3_elim {k : Kernel} {l : List Nat} (h : Loop3 k l) :
    ∃ x y z, l = [x, y, z] ∧ k.toV x = k.fromV y ∧ k.toV y = k.fromV z ∧ k.toV z = k.fromV x := by
  unfold Loop3 at h
  split at h
  · rename_i x y z; exact ⟨x, y, z, rfl, h⟩
  · exact absurd h id

theorem pairs_of_loop {k : Kernel} {x y z : Nat} (l1 : k.toV x = k.fromV y) (l2 : k.toV y = k.fromV z)
    (l3 : k.toV z = k.fromV x) :
    [x, y, z].map (fun h => (k.fromV h, k.toV h)) = prsN (k.fromV x) (k.fromV y) (k.fromV z) := by
  simp only [List.map_cons, List.map_nil, prsN, l1, l2, l3]

theorem nodup_flatMap_of {α β} (f : α → List β) : ∀ l : List α, (∀ x ∈ l, (f x).Nodup) →
    l.Pairwise (fun x y => ∀ z ∈ f x, z ∉ f y) → (l.flatMap f).Nodup := by
  intro l
  induction l with
  | nil => intro _ _; simp
  | cons a t ih =>
    intro h1 h2
    have h2' := List.pairwise_cons.mp h2
    simp only [List.flatMap_cons]
    rw [List.nodup_append]
    refine ⟨h1 a (by simp), ih (fun x hx => h1 x (List.mem_cons_of_mem _ hx)) h2'.2, ?_⟩
    intro x hx y hy e
    obtain ⟨b, hb, hyb⟩ := List.mem_flatMap.mp hy
    exact h2'.1 b hb x hx (e ▸ hyb)

/-- the ordered vertex pairs of the halfedges of a closed triangle are the consecutive pairs of its vertex cycle -/
theorem pair_consec {k : Kernel} {hf : Nat} (hl : Loop3 k (k.hfHes hf)) {a b : Nat}
    (h : (a, b) ∈ (k.hfHes hf).map (fun h => (k.fromV h, k.toV h))) : Consec (k.hfVerts hf) a b := by
  obtain ⟨x, y, z, e, l1, l2, l3⟩ := loop3_elim hl
  unfold hfVerts
  rw [e] at h ⊢
  rw [pairs_of_loop l1 l2 l3] at h
  simp only [prsN, List.mem_cons, List.not_mem_nil, or_false, Prod.mk.injEq] at h
  simp only [List.map_cons, List.map_nil, Consec]
  exact h

/-- the twelve halfedges of a tetrahedron with closed triangular faces run through twelve different ordered vertex pairs
    (the guard 4614b67 of `add_cell(halffaces)` accepts every tetrahedron) -/
theorem noParallel_of_tetOn {k : Kernel} {hfs : List Nat} {p q r s : Nat} (hT : TetOn k hfs p q r s)
    (hl : ∀ hf ∈ hfs, Loop3 k (k.hfHes hf)) : k.noParallel hfs = true := by
  unfold noParallel
  rw [decide_eq_true_eq, List.map_flatMap]
  apply nodup_flatMap_of
  · intro hf hm
    obtain ⟨x, y, z, e, l1, l2, l3⟩ := loop3_elim (hl hf hm)
    rw [e, pairs_of_loop l1 l2 l3]
    obtain ⟨t, ht, hr⟩ := hT.2.2.2.1 hf hm
    have hn : (k.hfVerts hf).Nodup := by
      have tn := tris_nodup p q r s hT.1 t ht
      have l3' := tris_length p q r s t ht
      match t, l3', hr, tn with
      | [x', y', z'], _, hr, tn =>
        rcases (rot_three _ x' y' z').mp hr with e' | e' | e' <;> rw [e'] <;> simp_all <;> omega
    unfold hfVerts at hn
    rw [e] at hn
    simp only [List.map_cons, List.map_nil, List.nodup_cons, List.mem_cons, List.not_mem_nil, or_false, not_or,
      List.nodup_nil, and_true] at hn
    simp only [prsN, List.nodup_cons, List.mem_cons, List.not_mem_nil, or_false, not_or, List.nodup_nil, and_true,
      Prod.mk.injEq, not_and]
    obtain ⟨⟨h1, h2⟩, h3, _⟩ := hn
    exact ⟨⟨fun e1 _ => h1 e1, fun e1 _ => h2 e1⟩, fun e1 _ => h3 e1, not_false⟩
  · have hnd : hfs.Pairwise (· ≠ ·) := hT.2.2.1
    refine hnd.imp_of_mem ?_
    intro hf hf' hm hm' hne z hz hz'
    obtain ⟨a, b⟩ := z
    have c1 := pair_consec (hl hf hm) hz
    have c2 := pair_consec (hl hf' hm') hz'
    obtain ⟨t, ht, hr⟩ := hT.2.2.2.1 hf hm
    obtain ⟨t', ht', hr'⟩ := hT.2.2.2.1 hf' hm'
    have l3 : (k.hfVerts hf).length = 3 := by rw [hr.length]; exact tris_length p q r s t ht
    have l3' : (k.hfVerts hf').length = 3 := by rw [hr'.length]; exact tris_length p q r s t' ht'
    have := tris_consec_unique p q r s hT.1 ht ht' (consec_of_rot hr l3 c1) (consec_of_rot hr' l3' c2)
    subst this
    exact hne (hT.2.2.2.2.2 hf hm hf' hm' t ht hr hr')

theorem noParallel_of_eq {k k' : Kernel} (he : k'.edges = k.edges) (hf : k'.faces = k.faces) (hfs : List Nat) :
    k'.noParallel hfs = k.noParallel hfs := by
  unfold noParallel hfHes faceAt fromV toV halfedge edgeAt; rw [he, hf]

/-- the tet override of `add_cell(halffaces)` on four stored halffaces of a `FaceLoops` mesh that span four vertices and
    have no parallel halfedges is the base `add_cell` -/
theorem tetAddCell_eq {k : Kernel} (hl : FaceLoops k) {hfs : List Nat} (h4 : hfs.length = 4) (hh : ∀ hf ∈ hfs, hf < k.nHF)
    (hs : k.spanVertCount hfs = 4) (hp : k.noParallel hfs = true) (chk : Bool) : k.tetAddCell hfs chk = k.addCell hfs chk := by
  unfold tetAddCell
  have : (hfs.any fun hf => (k.faceAt (eOf hf)).length != 3) = false := by
    rw [List.any_eq_false]; intro x hx; simp [faceAt_length_of_loops hl (hh x hx)]
  simp [h4, this, hs, hp]

theorem cellAt_new (k : Kernel) (hfs : List Nat) : (k.addCellCore hfs).cellAt k.nC = hfs := by
  unfold cellAt; rw [addCellCore_cells]; simp [nC]

theorem addCellCore_allTet {k : Kernel} (hfs : List Nat) (h : AllTet k) (hn : IsTet (k.addCellCore hfs) k.nC) :
    AllTet (k.addCellCore hfs) := by
  intro c hc
  have : c < k.nC ∨ c = k.nC := by unfold nC at *; rw [addCellCore_cells] at hc; simp at hc; omega
  rcases this with h1 | rfl
  · refine isTet_congr ?_ (fun hf _ => hfVerts_of_eq (by simp) (by simp) hf) (h c h1)
    unfold cellAt; rw [addCellCore_cells, getD_append_lt _ _ _ _ h1]
  · exact hn

/-- four halffaces on `(v0,v1,v2)`, `(v0,v2,v3)`, `(v0,v3,v1)`, `(v1,v3,v2)` (the order of `add_cell(v0,v1,v2,v3)`) -/
theorem tetOn_of_cell4 {k : Kernel} {a b c d v0 v1 v2 v3 : Nat} (hd : [v0, v1, v2, v3].Nodup)
    (ra : Rot (k.hfVerts a) [v0, v1, v2]) (rb : Rot (k.hfVerts b) [v0, v2, v3]) (rc : Rot (k.hfVerts c) [v0, v3, v1])
    (rd : Rot (k.hfVerts d) [v1, v3, v2]) : TetOn k [a, b, c, d] v0 v1 v2 v3 := by
  have : TetOn k [a, c, d, b] v0 v1 v2 v3 :=
    tetOn_canon hd ra (rc.trans3 (rot_cycle1 v1 v0 v3) rfl) (rd.trans3 (rot_cycle1 v2 v1 v3) rfl) rb
  refine this.perm ?_
  exact List.Perm.cons a ((List.Perm.swap c b [d]).trans (List.Perm.cons c (List.Perm.swap d b [])))

theorem loops_of_hfOk {k : Kernel} (hl : FaceLoops k) {hfs : List Nat} (hh : ∀ hf ∈ hfs, hf < k.nHF) :
    ∀ hf ∈ hfs, Loop3 k (k.hfHes hf) := fun hf hm => loop3_hfHes hl (hh hf hm)

theorem spanVertCount_of_eq {k k' : Kernel} (he : k'.edges = k.edges) (hf : k'.faces = k.faces) (hfs : List Nat) :
    k'.spanVertCount hfs = k.spanVertCount hfs := by
  unfold spanVertCount hfHes faceAt fromV toV halfedge edgeAt; rw [he, hf]

/-- the state in which `add_cell(v0,v1,v2,v3)` calls `add_cell(halffaces)`, and the four halffaces -/
theorem tetAddCell4_faces {k : Kernel} (h : BInv k) {v0 v1 v2 v3 : Nat} (o0 : VOk k v0) (o1 : VOk k v1) (o2 : VOk k v2)
    (o3 : VOk k v3) (hd : [v0, v1, v2, v3].Nodup) (chk : Bool) :
    ∃ k4 a b c d, k.tetAddCell4 v0 v1 v2 v3 chk = k4.tetAddCell [a, b, c, d] chk ∧ BInv k4 ∧ Ext k k4 ∧ k4.cDel = k.cDel ∧
      HfOk k4 a ∧ HfOk k4 b ∧ HfOk k4 c ∧ HfOk k4 d ∧
      Rot (k4.hfVerts a) [v0, v1, v2] ∧ Rot (k4.hfVerts b) [v0, v2, v3] ∧ Rot (k4.hfVerts c) [v0, v3, v1] ∧
      Rot (k4.hfVerts d) [v1, v3, v2] := by
  simp only [List.nodup_cons, List.mem_cons, List.not_mem_nil, or_false, not_or, List.nodup_nil, and_true] at hd
  obtain ⟨⟨h01, h02, h03⟩, ⟨h12, h13⟩, h23, _⟩ := hd
  obtain ⟨a, pa, ba, ea, ca, oa, ra⟩ := tetAddHalfface3_spec h o0 o1 o2 h01 h12 h02
  have e0 : Ext k (k.tetAddHalfface3 v0 v1 v2 false).1 := ea
  generalize hr0 : k.tetAddHalfface3 v0 v1 v2 false = r0 at pa ba ea ca oa ra e0
  obtain ⟨b, pb, bb, eb, cb, ob, rb⟩ := tetAddHalfface3_spec ba (e0.vOk o0) (e0.vOk o2) (e0.vOk o3) h02 h23 h03
  have e1 := e0.trans eb
  generalize hr1 : r0.1.tetAddHalfface3 v0 v2 v3 false = r1 at pb bb eb cb ob rb e1
  obtain ⟨c, pc, bc, ec, cc, oc, rc⟩ := tetAddHalfface3_spec bb (e1.vOk o0) (e1.vOk o3) (e1.vOk o1) h03 (Ne.symm h13) h01
  have e2 := e1.trans ec
  generalize hr2 : r1.1.tetAddHalfface3 v0 v3 v1 false = r2 at pc bc ec cc oc rc e2
  obtain ⟨d, pd, bd, ed, cd, od, rd⟩ := tetAddHalfface3_spec bc (e2.vOk o1) (e2.vOk o3) (e2.vOk o2) h13 (Ne.symm h23) h12
  have e3 := e2.trans ed
  generalize hr3 : r2.1.tetAddHalfface3 v1 v3 v2 false = r3 at pd bd ed cd od rd e3
  refine ⟨r3.1, a, b, c, d, ?_, bd, e3, by rw [cd, cc, cb, ca], (ec.trans ed).hfOk (eb.hfOk oa), (ec.trans ed).hfOk ob,
    ed.hfOk oc, od, ?_, ?_, ?_, rd⟩
  · simp only [tetAddCell4, hr0, hr1, hr2, hr3, pa, pb, pc, pd]
  · rw [(eb.trans (ec.trans ed)).hfVerts ba.ginv.wf.range oa.1]; exact ra
  · rw [(ec.trans ed).hfVerts bb.ginv.wf.range ob.1]; exact rb
  · rw [ed.hfVerts bc.ginv.wf.range oc.1]; exact rc

/-- **`add_cell(v0,v1,v2,v3)` builds a tetrahedron**: on four different live vertices, in a mesh of closed
    triangles with the vertex and edge caches, the cell that comes back (if any: the topology check may refuse)
    is `IsTet`, its first halfface runs `(v0,v1,v2)` up to rotation and its fourth vertex is `v3` -/
theorem tetAddCell4_isTet {k : Kernel} (h : BInv k) {v0 v1 v2 v3 : Nat} (o0 : VOk k v0) (o1 : VOk k v1) (o2 : VOk k v2)
    (o3 : VOk k v3) (hd : [v0, v1, v2, v3].Nodup) (chk : Bool) {c : Nat}
    (hc : (k.tetAddCell4 v0 v1 v2 v3 chk).2 = some c) :
    c = k.nC ∧ IsTet (k.tetAddCell4 v0 v1 v2 v3 chk).1 c ∧
    Rot ((k.tetAddCell4 v0 v1 v2 v3 chk).1.hfVerts (((k.tetAddCell4 v0 v1 v2 v3 chk).1.cellAt c).headD 0)) [v0, v1, v2] ∧
    (∀ x, x ∈ (k.tetAddCell4 v0 v1 v2 v3 chk).1.cellVertSet c ↔ x ∈ [v0, v1, v2, v3]) := by
  obtain ⟨k4, a, b, c', d, e, b4, x4, _, oa, ob, oc, od, ra, rb, rc, rd⟩ := tetAddCell4_faces h o0 o1 o2 o3 hd chk
  rw [e] at hc ⊢
  have hh : ∀ hf ∈ [a, b, c', d], hf < k4.nHF := by
    intro hf hm; simp only [List.mem_cons, List.not_mem_nil, or_false] at hm
    rcases hm with rfl | rfl | rfl | rfl
    · exact oa.1
    · exact ob.1
    · exact oc.1
    · exact od.1
  have hT4 := tetOn_of_cell4 hd ra rb rc rd
  have hs4 := spanVertCount_of_tetOn hT4 (loops_of_hfOk b4.loops hh)
  have hp4 := noParallel_of_tetOn hT4 (loops_of_hfOk b4.loops hh)
  rw [tetAddCell_eq b4.loops rfl hh hs4 hp4] at hc ⊢
  unfold addCell at hc ⊢
  split at hc
  · rename_i hacc
    simp only [hacc, if_true]
    simp only [Option.some.injEq] at hc
    have hn : k4.nC = k.nC := by unfold nC; rw [x4.cells]
    have hv : ∀ x, (k4.addCellCore [a, b, c', d]).hfVerts x = k4.hfVerts x :=
      fun x => hfVerts_of_eq (by simp) (by simp) x
    have hT : TetOn (k4.addCellCore [a, b, c', d]) [a, b, c', d] v0 v1 v2 v3 := hT4.congr (fun x _ => hv x)
    subst hc
    rw [← hn]
    have hca := cellAt_new k4 [a, b, c', d]
    refine ⟨rfl, ?_, ?_, ?_⟩
    · apply isTet_of_tetOn_rot (p := v0) (q := v1) (r := v2) (s := v3)
      · rw [hca]; show Rot ((k4.addCellCore [a, b, c', d]).hfVerts a) _; rw [hv]; exact ra
      · rw [hca]; exact hT
    · rw [hca]; show Rot ((k4.addCellCore [a, b, c', d]).hfVerts a) _; rw [hv]; exact ra
    · exact cellVertSet_mem_iff (by rw [hca]; exact hT)
  · cases hc

/-- … and every stored cell that was a tetrahedron stays one, whether the new cell is accepted or refused -/
theorem tetAddCell4_allTet {k : Kernel} (h : BInv k) (ht : AllTet k) {v0 v1 v2 v3 : Nat} (o0 : VOk k v0) (o1 : VOk k v1)
    (o2 : VOk k v2) (o3 : VOk k v3) (hd : [v0, v1, v2, v3].Nodup) (chk : Bool) :
    AllTet (k.tetAddCell4 v0 v1 v2 v3 chk).1 := by
  cases hc : (k.tetAddCell4 v0 v1 v2 v3 chk).2 with
  | some c =>
    obtain ⟨hcn, hi, _, _⟩ := tetAddCell4_isTet h o0 o1 o2 o3 hd chk hc
    obtain ⟨k4, a, b, c', d, e, b4, x4, _, oa, ob, oc, od, ra, rb, rc, rd⟩ := tetAddCell4_faces h o0 o1 o2 o3 hd chk
    have hh : ∀ hf ∈ [a, b, c', d], hf < k4.nHF := by
      intro hf hm; simp only [List.mem_cons, List.not_mem_nil, or_false] at hm
      rcases hm with rfl | rfl | rfl | rfl
      · exact oa.1
      · exact ob.1
      · exact oc.1
      · exact od.1
    have hn : k4.nC = k.nC := by unfold nC; rw [x4.cells]
    have hs4 := spanVertCount_of_tetOn (tetOn_of_cell4 hd ra rb rc rd) (loops_of_hfOk b4.loops hh)
    have hp4 := noParallel_of_tetOn (tetOn_of_cell4 hd ra rb rc rd) (loops_of_hfOk b4.loops hh)
    rw [e, tetAddCell_eq b4.loops rfl hh hs4 hp4] at hc hi ⊢
    unfold addCell at hc hi ⊢
    split at hc
    · rename_i hacc
      simp only [hacc, if_true] at hi ⊢
      exact addCellCore_allTet _ (x4.allTet h.ginv.wf.range ht) (by rw [hn, ← hcn]; exact hi)
    · cases hc
  | none =>
    obtain ⟨k4, a, b, c', d, e, b4, x4, _, oa, ob, oc, od, ra, rb, rc, rd⟩ := tetAddCell4_faces h o0 o1 o2 o3 hd chk
    have hh : ∀ hf ∈ [a, b, c', d], hf < k4.nHF := by
      intro hf hm; simp only [List.mem_cons, List.not_mem_nil, or_false] at hm
      rcases hm with rfl | rfl | rfl | rfl
      · exact oa.1
      · exact ob.1
      · exact oc.1
      · exact od.1
    have hs4 := spanVertCount_of_tetOn (tetOn_of_cell4 hd ra rb rc rd) (loops_of_hfOk b4.loops hh)
    have hp4 := noParallel_of_tetOn (tetOn_of_cell4 hd ra rb rc rd) (loops_of_hfOk b4.loops hh)
    rw [e, tetAddCell_eq b4.loops rfl hh hs4 hp4] at hc ⊢
    unfold addCell at hc ⊢
    split at hc
    · cases hc
    · rename_i hacc
      simp only [hacc]
      exact x4.allTet h.ginv.wf.range ht

end Kernel
end OVM

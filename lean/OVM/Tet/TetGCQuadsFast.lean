import OVM.Tet.TetGCQuads
/-
  C15(d), IMMEDIATE deletion modes, FAST case (`fast = true`): `collect_garbage` swaps a flagged slot with the last
  one and pops it (K3, OVM/Refine/CacheFastGC.lean; the decomposition of a step is the one of `fastgc_*` in
  OVM/Hex/Stable.lean).  On the vertex cycles `cyc` of the live cells (OVM/Tet/TetGCQuads.lean):

    * the cell step permutes the live cells (`cyc_swapCell`) and pops a flagged slot (`cyc_eraseCell`);
    * the face / edge step renames halfface / halfedge handles consistently (`cyc_swapFace`, `cyc_swapEdge`, K3's
      `swapFace_cellAt_live`, `swapFace_hfHes`, `swapEdge_faceAt_live`, `swapEdge_fromV`) and pops a slot no stored
      definition mentions (`cyc_eraseFace_fast`, `cyc_eraseEdge_fast`);
    * the single step of the vertex sweep renames the vertices by `relabelId a (nV-1)`, then `corr1 (nV-1)` (the
      identity on what is left) (`cyc_fast_vertexStep`).

  Results: `gc_quads_fast` (garbage collection keeps the multiset of canonical oriented quadruples of the live
  cells up to the renaming `relabelId a (nV - 1)`), `collapse_refines_fast` (the collapse corollary; same gap
  hypothesis `hpre` as `collapse_refines_shift`).
-/
namespace OVM
namespace Kernel
open Global ScanDel

/-! ### from a permutation of the vertex cycles to the multiset of canonical quadruples -/

/-- the oriented quadruple as a function of the list of vertex cycles of a cell -/
def qoc (L : List (List Nat)) : List Nat :=
  L.headD [] ++ (toSet L.flatten).filter (fun v => !(L.headD []).contains v)

theorem cellQuad_eq_qoc (k : Kernel) (c : Nat) (hne : k.cellAt c ≠ []) :
    k.cellQuad c = qoc ((k.cellAt c).map k.hfVerts) := by
  unfold cellQuad sApex cellVertSet qoc
  rw [List.flatMap_def]
  cases h : k.cellAt c with
  | nil => exact absurd h hne
  | cons x t => simp only [List.headD_cons, List.map_cons]

/-- `quads_of_cyc` for a PERMUTATION of the vertex cycles (fast mode moves cells around) -/
theorem quads_of_cyc_perm {k k' : Kernel} (σ : Nat → Nat) (hc : (cyc k').Perm ((cyc k).map (·.map (·.map σ))))
    (hT : ∀ c ∈ k.liveCells, IsTet k c) (hinj : ∀ c ∈ k.liveCells, ((k.cellQuad c).map σ).Nodup) :
    (quads k').Perm (quadsσ σ k) ∧ ∀ c ∈ k'.liveCells, IsTet k' c := by
  have key1 : ∀ c' ∈ k'.liveCells, ∃ c ∈ k.liveCells,
      (k'.cellAt c').map k'.hfVerts = ((k.cellAt c).map k.hfVerts).map (·.map σ) := by
    intro c' hc'
    have : (k'.cellAt c').map k'.hfVerts ∈ cyc k' := List.mem_map.mpr ⟨c', hc', rfl⟩
    obtain ⟨x, hx, e⟩ := List.mem_map.mp (hc.mem_iff.mp this)
    obtain ⟨c, hcl, rfl⟩ := List.mem_map.mp hx
    exact ⟨c, hcl, e.symm⟩
  have key2 : ∀ c ∈ k.liveCells, ∃ c' ∈ k'.liveCells,
      (k'.cellAt c').map k'.hfVerts = ((k.cellAt c).map k.hfVerts).map (·.map σ) := by
    intro c hcl
    have : ((k.cellAt c).map k.hfVerts).map (·.map σ) ∈ (cyc k).map (·.map (·.map σ)) :=
      List.mem_map.mpr ⟨_, List.mem_map.mpr ⟨c, hcl, rfl⟩, rfl⟩
    obtain ⟨c', hc', e⟩ := List.mem_map.mp (hc.mem_iff.mpr this)
    exact ⟨c', hc', e⟩
  have hT' : ∀ c' ∈ k'.liveCells, IsTet k' c' := by
    intro c' hc'
    obtain ⟨c, hcl, e⟩ := key1 c' hc'
    exact (quad_transfer σ (hT c hcl) (hinj c hcl) e).1
  have hne : ∀ (K : Kernel) (c : Nat), IsTet K c → K.cellAt c ≠ [] := by
    intro K c h e
    obtain ⟨_, _, _, _, _, hTo, _⟩ := cellQuad_isTet h
    have := hTo.2.1; rw [e] at this; cases this
  refine ⟨?_, hT'⟩
  have e1 : quads k' = (cyc k').map (fun L => canonQuad (qoc L)) := by
    unfold quads cyc
    rw [List.map_map]
    apply List.map_congr_left
    intro c' hc'
    simp only [Function.comp]
    rw [cellQuad_eq_qoc k' c' (hne k' c' (hT' c' hc'))]
  have e2 : quadsσ σ k = ((cyc k).map (·.map (·.map σ))).map (fun L => canonQuad (qoc L)) := by
    unfold quadsσ cyc
    rw [List.map_map, List.map_map]
    apply List.map_congr_left
    intro c hcl
    simp only [Function.comp]
    obtain ⟨c', hc', e⟩ := key2 c hcl
    rw [← e, ← cellQuad_eq_qoc k' c' (hne k' c' (hT' c' hc'))]
    rw [(quad_transfer σ (hT c hcl) (hinj c hcl) e).2]
  rw [e1, e2]
  exact hc.map _

/-! ### congruence helpers for `cyc` -/

/-- same live cells, same halfface lists, every vertex cycle of a live cell renamed by `σ` -/
theorem cyc_map_of {k' k : Kernel} (σ : Nat → Nat) (hlc : k'.liveCells = k.liveCells)
    (hca : ∀ c ∈ k.liveCells, k'.cellAt c = k.cellAt c)
    (hv : ∀ c ∈ k.liveCells, ∀ hf ∈ k.cellAt c, k'.hfVerts hf = (k.hfVerts hf).map σ) :
    cyc k' = (cyc k).map (·.map (·.map σ)) := by
  unfold cyc
  rw [hlc, List.map_map]
  apply List.map_congr_left
  intro c hc
  simp only [Function.comp]
  rw [hca c hc, List.map_map]
  apply List.map_congr_left
  intro a ha
  exact hv c hc a ha

/-- same live cells, halfface handles renamed by `g` consistently in the cells and in the lookups -/
theorem cyc_rename_of {k' k : Kernel} (g : Nat → Nat) (hlc : k'.liveCells = k.liveCells)
    (hca : ∀ c ∈ k.liveCells, k'.cellAt c = (k.cellAt c).map g)
    (hv : ∀ c ∈ k.liveCells, ∀ hf ∈ k.cellAt c, k'.hfVerts (g hf) = k.hfVerts hf) :
    cyc k' = cyc k := by
  unfold cyc
  rw [hlc]
  apply List.map_congr_left
  intro c hc
  rw [hca c hc, List.map_map]
  apply List.map_congr_left
  intro a ha
  exact hv c hc a ha

theorem map3_id (C : List (List (List Nat))) : C.map (·.map (·.map (fun v : Nat => v))) = C := by
  simp

/-! ### the swaps -/

theorem perm_filter_map_invol (n : Nat) (τ : Nat → Nat) (hinv : ∀ x, τ (τ x) = x) (hlt : ∀ x, x < n → τ x < n)
    (p : Nat → Bool) : (((List.range n).filter (fun i => p (τ i))).map τ).Perm ((List.range n).filter p) := by
  apply (List.perm_ext_iff_of_nodup ?_ ?_).mpr
  · intro x
    simp only [List.mem_map, List.mem_filter, List.mem_range]
    constructor
    · rintro ⟨i, ⟨hi, hp⟩, rfl⟩; exact ⟨hlt i hi, hp⟩
    · rintro ⟨hx, hp⟩; exact ⟨τ x, ⟨hlt x hx, by rw [hinv]; exact hp⟩, hinv x⟩
  · apply nodup_map_on _ (List.Pairwise.sublist List.filter_sublist List.nodup_range)
    intro x _ y _ e
    have := congrArg τ e; rwa [hinv, hinv] at this
  · exact List.Pairwise.sublist List.filter_sublist List.nodup_range

/-- `swap_cell_indices` permutes the live cells -/
theorem cyc_swapCell {k : Kernel} {a b : Nat} (hl : k.cDel.length = k.nC) (ha : a < k.nC) (hb : b < k.nC) :
    (cyc (k.swapCell a b)).Perm (cyc k) := by
  by_cases hab : a = b
  · subst hab
    have : k.swapCell a a = k := by unfold swapCell; simp
    rw [this]
  have hv : (k.swapCell a b).hfVerts = k.hfVerts := funext (hfVerts_of_eq (swapCell_edges k a b) (swapCell_faces k a b))
  have hn : (k.swapCell a b).nC = k.nC := by unfold nC; rw [swapCell_cells_eq]; simp
  have e : cyc (k.swapCell a b) =
      (((List.range k.nC).filter (fun i => (fun c => !k.cDeleted c) (relabelId a b i))).map (relabelId a b)).map
        (fun c => (k.cellAt c).map k.hfVerts) := by
    unfold cyc liveCells
    rw [hv, hn, List.map_map]
    have h1 : (fun c => !(k.swapCell a b).cDeleted c) = (fun i => (fun c => !k.cDeleted c) (relabelId a b i)) := by
      funext c; rw [swapCell_cDeleted hab ha hb hl]
    rw [h1]
    apply List.map_congr_left
    intro c _
    simp only [Function.comp]
    rw [swapCell_cellAt hab ha hb]
  rw [e]
  exact (perm_filter_map_invol k.nC (relabelId a b) (relabelId_invol a b) (fun x hx => relabelId_lt ha hb hx)
    (fun c => !k.cDeleted c)).map (fun c => (k.cellAt c).map k.hfVerts)

/-- `swap_face_indices` renames the halffaces consistently -/
theorem cyc_swapFace {k : Kernel} {a b : Nat} (hw : WF k) (h1 : k.oneCell = true) (ha : a < k.nF) (hb : b < k.nF) :
    cyc (k.swapFace a b) = cyc k := by
  by_cases hab : a = b
  · subst hab
    have : k.swapFace a a = k := by unfold swapFace; simp
    rw [this]
  apply cyc_rename_of (relabelHalf a b)
  · unfold liveCells nC cDeleted
    rw [swapFace_cells_length, swapFace_cDel]
  · intro c hc
    exact swapFace_cellAt_live hab ha hb hw.cache.f (fun _ => h1) (fun _ => (mem_liveCells k c).mp hc)
  · intro c _ hf _
    unfold hfVerts
    rw [swapFace_hfHes hab ha hb, k3_relabelHalf_invol]
    apply List.map_congr_left
    intro y _
    unfold fromV halfedge edgeAt; rw [swapFace_edges]

/-- `swap_edge_indices` renames the halfedges consistently (no face is flagged) -/
theorem cyc_swapEdge {k : Kernel} {a b : Nat} (hw : WF k) (hnf : NoFlag k.fDel) (ha : a < k.nE) (hb : b < k.nE) :
    cyc (k.swapEdge a b) = cyc k := by
  by_cases hab : a = b
  · subst hab
    have : k.swapEdge a a = k := by unfold swapEdge; simp
    rw [this]
  have := cyc_map_of (k' := k.swapEdge a b) (k := k) (fun v => v)
    (by unfold liveCells nC cDeleted; rw [swapEdge_cells, swapEdge_cDel])
    (by intro c _; unfold cellAt; rw [swapEdge_cells])
    (by
      intro c hc hf hm
      have hlt := liveC_lt ((mem_liveCells k c).mp hc)
      have hhf : hf < k.nHF := cellAt_range hw.range hlt hf hm
      have hlf : k.liveF (eOf hf) = true := by
        unfold liveF fDeleted; rw [hnf.getD]; simp; unfold nHF nF eOf at *; omega
      have hfa : (k.swapEdge a b).faceAt (eOf hf) = (k.faceAt (eOf hf)).map (relabelHalf a b) :=
        swapEdge_faceAt_live hab ha hb hw.cache.e (fun _ => hlf)
      have hh : (k.swapEdge a b).hfHes hf = (k.hfHes hf).map (relabelHalf a b) := by
        unfold hfHes
        simp only [hfa]
        split
        · rfl
        · exact k3_oppFace_map_relabelHalf a b _
      unfold hfVerts
      rw [hh, List.map_map, List.map_id']
      apply List.map_congr_left
      intro y _
      simp only [Function.comp]
      rw [swapEdge_fromV hab ha hb, k3_relabelHalf_invol])
  rw [this, map3_id]

theorem relabelId_self (a x : Nat) : relabelId a a x = x := by
  unfold relabelId; by_cases h : x = a <;> simp [h]

/-- `swap_vertex_indices` renames the vertices (no edge is flagged) -/
theorem cyc_swapVertex {k : Kernel} {a b : Nat} (hw : WF k) (hnfE : NoFlag k.eDel)
    (ha : a < k.nV) (hb : b < k.nV) :
    cyc (k.swapVertex a b) = (cyc k).map (·.map (·.map (relabelId a b))) := by
  by_cases hab : a = b
  · subst hab
    have : k.swapVertex a a = k := by unfold swapVertex; simp
    rw [this]
    have : relabelId a a = fun v => v := funext (relabelId_self a)
    rw [this, map3_id]
  have hfaces : (k.swapVertex a b).faces = k.faces := by unfold swapVertex; split <;> rfl
  have hcells : (k.swapVertex a b).cells = k.cells := by unfold swapVertex; split <;> rfl
  apply cyc_map_of
  · unfold liveCells nC cDeleted; rw [hcells, swapVertex_cDel]
  · intro c _; unfold cellAt; rw [hcells]
  · intro c hc hf hm
    have hlt := liveC_lt ((mem_liveCells k c).mp hc)
    have hhf : hf < k.nHF := cellAt_range hw.range hlt hf hm
    have hh : (k.swapVertex a b).hfHes hf = k.hfHes hf := by unfold hfHes faceAt; rw [hfaces]
    unfold hfVerts
    rw [hh, List.map_map]
    apply List.map_congr_left
    intro y hy
    simp only [Function.comp]
    have hyr : y < k.nHE := hfHes_range hw.range hhf y hy
    have he : eOf y < k.edges.length := by unfold nHE eOf at *; omega
    have hle : k.liveE (eOf y) = true := by
      unfold liveE eDeleted; rw [hnfE.getD]; simp; exact he
    have := swapVertex_edgeAt_live hab ha hb hw.cache.v he (fun _ => hle)
    unfold fromV halfedge
    rw [this]
    unfold relabelEdgeV
    split <;> rfl


/-! ### popping the last slot in fast mode -/

/-- fast mode: the last face slot is popped, no stored cell mentions it -/
theorem cyc_eraseFace_fast {k : Kernel} {h : Nat} (hf : k.fast = true) (hlow : ∀ c ∈ k.cells, ∀ a ∈ c, a < 2 * h) :
    cyc (k.eraseFace h) = cyc k := by
  have hcells := eraseFace_cells_fast k h hf
  have := cyc_map_of (k' := k.eraseFace h) (k := k) (fun v => v)
    (by unfold liveCells nC cDeleted; rw [hcells, eraseFace_cDel])
    (by intro c _; unfold cellAt; rw [hcells])
    (by
      intro c hc x hx
      have hlt := liveC_lt ((mem_liveCells k c).mp hc)
      have hxl := hlow _ (cellAt_mem_cells hlt) x hx
      unfold hfVerts
      rw [eraseFace_hfHes, List.map_id']
      have : up2 h x = x := by unfold up2; simp [hxl]
      rw [this]
      apply List.map_congr_left
      intro y _
      unfold fromV halfedge edgeAt; rw [eraseFace_edges])
  rw [this, map3_id]

theorem faceAt_low {k : Kernel} {h : Nat} (hlow : ∀ f ∈ k.faces, ∀ a ∈ f, a < 2 * h) (f : Nat) :
    ∀ a ∈ k.faceAt f, a < 2 * h := by
  intro a ha
  rcases Nat.lt_or_ge f k.nF with hc | hc
  · exact hlow _ (faceAt_mem_faces hc) a ha
  · unfold faceAt at ha; rw [getD_of_ge _ _ _ hc] at ha; cases ha

/-- fast mode: the last edge slot is popped, no stored face mentions it -/
theorem cyc_eraseEdge_fast {k : Kernel} {h : Nat} (hf : k.fast = true) (hlow : ∀ f ∈ k.faces, ∀ a ∈ f, a < 2 * h) :
    cyc (k.eraseEdge h) = cyc k := by
  have hfaces := eraseEdge_faces_fast k h hf
  have := cyc_map_of (k' := k.eraseEdge h) (k := k) (fun v => v)
    (by unfold liveCells nC cDeleted; rw [eraseEdge_cells, eraseEdge_cDel])
    (by intro c _; unfold cellAt; rw [eraseEdge_cells])
    (by
      intro c _ x _
      have hh : (k.eraseEdge h).hfHes x = k.hfHes x := by unfold hfHes faceAt; rw [hfaces]
      unfold hfVerts
      rw [hh, List.map_id']
      apply List.map_congr_left
      intro y hy
      obtain ⟨z, hz, hez⟩ := mem_hfHes_face hy
      have hzl := faceAt_low hlow _ z hz
      have hyl : y < 2 * h := by unfold eOf at hez; omega
      rw [eraseEdge_fromV]
      have : up2 h y = y := by unfold up2; simp [hyl]
      rw [this])
  rw [this, map3_id]

/-! ### one flagged step of each fast sweep, on the vertex cycles -/

/-- cells: swap with the last slot, pop -/
theorem cyc_fast_cellStep {k : Kernel} (hi : FastGCInv k) {m : Nat} (hm : m < k.nC) (hdel : k.cDeleted m = true) :
    (cyc (deleteCellCore (unflagC k m) m)).Perm (cyc k) ∧ (deleteCellCore (unflagC k m) m).nV = k.nV ∧
    (deleteCellCore (unflagC k m) m).vDel = k.vDel := by
  have hlC := hi.wf.len.cDel
  have hlast : k.nC - 1 < k.nC := by omega
  have e0 : deleteCellCore (unflagC k m) m =
      ((unflagC (k.swapCell m (k.nC - 1)) (k.nC - 1)).unlinkCell (k.nC - 1)).eraseCell (k.nC - 1) := by
    rw [deleteCellCore_fast_eq m (by simpa [unflagC] using hi.imm) (by simpa [unflagC] using hi.fast)]
    have : (unflagC k m).nC = k.nC := rfl
    rw [this, unflagC_swapCell k (by rw [hlC]; exact hm) (by rw [hlC]; exact hlast)]
  rw [e0]
  have hn1 : (k.swapCell m (k.nC - 1)).nC = k.nC := by unfold nC; rw [swapCell_cells_eq]; simp
  have hd1 : (k.swapCell m (k.nC - 1)).cDeleted (k.nC - 1) = true := by
    by_cases hab : m = k.nC - 1
    · have : k.swapCell m (k.nC - 1) = k := by rw [← hab]; unfold swapCell; simp
      rw [this, ← hab]; exact hdel
    · rw [swapCell_cDeleted hab hm hlast hlC, k3_relabelId_last]; exact hdel
  refine ⟨?_, by simp [unflagC, swapCell_nV], by simp [unflagC, swapCell_vDel]⟩
  have e1 : cyc (((unflagC (k.swapCell m (k.nC - 1)) (k.nC - 1)).unlinkCell (k.nC - 1)).eraseCell (k.nC - 1)) =
      cyc ((k.swapCell m (k.nC - 1)).eraseCell (k.nC - 1)) :=
    cyc_of_eq (by simp [unflagC]) (by simp [unflagC]) (by simp [unflagC]) (by simp [unflagC, k4_eraseIdx_set_same])
  rw [e1, cyc_eraseCell _ _ (by rw [hn1]; exact hlast) hd1]
  exact cyc_swapCell hlC hm hlast

/-- faces: swap with the last slot, pop (no flagged cell is left) -/
theorem cyc_fast_faceStep {k : Kernel} (hi : FastGCInv k) {m : Nat} (hm : m < k.nF) (hdel : k.fDeleted m = true)
    (hnfC : NoFlag k.cDel) (hcl : Closed k) :
    cyc (deleteFaceCore (unflagF k m) m) = cyc k ∧ (deleteFaceCore (unflagF k m) m).nV = k.nV ∧
    (deleteFaceCore (unflagF k m) m).vDel = k.vDel := by
  have hlF := hi.wf.len.fDel
  have hlast : k.nF - 1 < k.nF := by omega
  have e0 : deleteFaceCore (unflagF k m) m =
      ((unflagF (k.swapFace m (k.nF - 1)) (k.nF - 1)).unlinkFace (k.nF - 1)).eraseFace (k.nF - 1) := by
    rw [deleteFaceCore_fast_eq m (by simpa [unflagF] using hi.imm) (by simpa [unflagF] using hi.fast)]
    have : (unflagF k m).nF = k.nF := rfl
    rw [this, unflagF_swapFace k (by rw [hlF]; exact hm) (by rw [hlF]; exact hlast)]
  rw [e0]
  have hw1 := wf_swapFace hm hlast hi.wf hi.one
  have hno : ∀ c ∈ k.cells, ∀ x ∈ c, x / 2 ≠ m := by
    intro c hc x hx e
    obtain ⟨i, hil, rfl⟩ := k3_mem_getD [] hc
    have hl : k.liveC i = true := by unfold liveC cDeleted; rw [hnfC.getD i]; simp [show i < k.nC from hil]
    have := hcl.f i hl x hx
    unfold eOf at this; rw [e, hdel] at this; cases this
  have hno1 := swapFace_unused hm hlast hi.wf.cache.f (fun _ => hi.one) (fun _ => hnfC) hno
  have hfast1 : ((unflagF (k.swapFace m (k.nF - 1)) (k.nF - 1)).unlinkFace (k.nF - 1)).fast = true := by
    simpa [unflagF] using hi.fast
  refine ⟨?_, by simp [unflagF, swapFace_nV], by simp [unflagF, swapFace_vDel]⟩
  rw [cyc_eraseFace_fast hfast1 ?_, ← cyc_swapFace hi.wf hi.one hm hlast]
  · exact cyc_of_eq (by simp [unflagF]) (by simp [unflagF]) (by simp [unflagF]) (by simp [unflagF])
  · intro c hc a ha
    have hc' : c ∈ (k.swapFace m (k.nF - 1)).cells := by simpa [unflagF] using hc
    have h1 := hw1.range.cells c hc' a ha
    have h2 := hno1 c hc' a ha
    unfold nHF at h1; rw [swapFace_faces_length] at h1; unfold nF at *; omega

/-- edges: swap with the last slot, pop (no flagged cell or face is left) -/
theorem cyc_fast_edgeStep {k : Kernel} (hi : FastGCInv k) {m : Nat} (hm : m < k.nE) (hdel : k.eDeleted m = true)
    (hnfF : NoFlag k.fDel) (hcl : Closed k) :
    cyc (deleteEdgeCore (unflagE k m) m) = cyc k ∧ (deleteEdgeCore (unflagE k m) m).nV = k.nV ∧
    (deleteEdgeCore (unflagE k m) m).vDel = k.vDel := by
  have hlE := hi.wf.len.eDel
  have hlast : k.nE - 1 < k.nE := by omega
  have e0 : deleteEdgeCore (unflagE k m) m =
      ((unflagE (k.swapEdge m (k.nE - 1)) (k.nE - 1)).unlinkEdge (k.nE - 1)).eraseEdge (k.nE - 1) := by
    rw [deleteEdgeCore_fast_eq m (by simpa [unflagE] using hi.imm) (by simpa [unflagE] using hi.fast)]
    have : (unflagE k m).nE = k.nE := rfl
    rw [this, unflagE_swapEdge k (by rw [hlE]; exact hm) (by rw [hlE]; exact hlast)]
  rw [e0]
  have hw1 := wf_swapEdge hm hlast hi.wf
  have hno : ∀ c ∈ k.faces, ∀ x ∈ c, x / 2 ≠ m := by
    intro c hc x hx e
    obtain ⟨i, hil, rfl⟩ := k3_mem_getD [] hc
    have hl : k.liveF i = true := by unfold liveF fDeleted; rw [hnfF.getD i]; simp [show i < k.nF from hil]
    have := hcl.e i hl x hx
    unfold eOf at this; rw [e, hdel] at this; cases this
  have hno1 := swapEdge_unused hm hlast hi.wf.cache.e (fun _ => hnfF) hno
  have hfast1 : ((unflagE (k.swapEdge m (k.nE - 1)) (k.nE - 1)).unlinkEdge (k.nE - 1)).fast = true := by
    simpa [unflagE] using hi.fast
  refine ⟨?_, by simp [unflagE, swapEdge_nV], by simp [unflagE, swapEdge_vDel]⟩
  rw [cyc_eraseEdge_fast hfast1 ?_, ← cyc_swapEdge hi.wf hnfF hm hlast]
  · exact cyc_of_eq (by simp [unflagE]) (by simp [unflagE]) (by simp [unflagE]) (by simp [unflagE])
  · intro c hc a ha
    have hc' : c ∈ (k.swapEdge m (k.nE - 1)).faces := by simpa [unflagE] using hc
    have h1 := hw1.range.faces c hc' a ha
    have h2 := hno1 c hc' a ha
    unfold nHE at h1; rw [swapEdge_edges_length] at h1; unfold nE at *; omega


/-- vertices: swap with the last slot, pop; every vertex is renamed -/
theorem cyc_fast_vertexStep {k : Kernel} (hi : FastGCInv k) {m : Nat} (hm : m < k.nV) (hdel : k.vDeleted m = true)
    (hnfE : NoFlag k.eDel) (hR : VRef k) :
    cyc (deleteVertexCore (unflagV k m) m) =
      (cyc k).map (·.map (·.map (fun v => corr1 (k.nV - 1) (relabelId m (k.nV - 1) v)))) ∧
    (deleteVertexCore (unflagV k m) m).nV = k.nV - 1 ∧
    (deleteVertexCore (unflagV k m) m).vDel = (swapAt k.vDel m (k.nV - 1)).eraseIdx (k.nV - 1) := by
  have hlV := hi.wf.len.vDel
  have hlast : k.nV - 1 < k.nV := by omega
  have e0 : deleteVertexCore (unflagV k m) m = (unflagV (k.swapVertex m (k.nV - 1)) (k.nV - 1)).eraseVertex (k.nV - 1) := by
    rw [deleteVertexCore_fast_eq m (by simpa [unflagV] using hi.imm) (by simpa [unflagV] using hi.fast)]
    have : (unflagV k m).nV = k.nV := rfl
    rw [this, unflagV_swapVertex k (by rw [hlV]; exact hm) (by rw [hlV]; exact hlast)]
  rw [e0]
  have hw0 := wf_swapVertex hm hlast hi.wf
  have hw1 := wf_unflagV (k.nV - 1) hw0
  have hno0 : ∀ e ∈ k.edges, e.1 ≠ m ∧ e.2 ≠ m := by
    intro e he
    have := hR e he
    constructor
    · intro h; rw [h, hdel] at this; cases this.1
    · intro h; rw [h, hdel] at this; cases this.2
  have hno1 := swapVertex_unused hm hlast hi.wf.cache.v (fun _ => hnfE) hno0
  have hel : ∀ e, e < (unflagV (k.swapVertex m (k.nV - 1)) (k.nV - 1)).nE →
      (unflagV (k.swapVertex m (k.nV - 1)) (k.nV - 1)).eDeleted e = false := by
    intro e _; unfold eDeleted; simp only [unflagV]; rw [swapVertex_eDel]; exact hnfE.getD e
  have hnV1 : (unflagV (k.swapVertex m (k.nV - 1)) (k.nV - 1)).nV = k.nV := by
    simp only [unflagV]; unfold swapVertex; split <;> rfl
  have ok : EraseVertexOK (unflagV (k.swapVertex m (k.nV - 1)) (k.nV - 1)) (k.nV - 1) :=
    ⟨by rw [hnV1]; exact hlast, hel, by simpa [unflagV] using hno1⟩
  refine ⟨?_, by rw [eraseVertex_nV, hnV1], ?_⟩
  · rw [cyc_eraseVertex hw1 ok]
    have : cyc (unflagV (k.swapVertex m (k.nV - 1)) (k.nV - 1)) = cyc (k.swapVertex m (k.nV - 1)) :=
      cyc_of_eq (by simp [unflagV]) (by simp [unflagV]) (by simp [unflagV]) (by simp [unflagV])
    rw [this, cyc_swapVertex hi.wf hnfE hm hlast]
    simp [List.map_map, Function.comp]
  · rw [eraseVertex_vDel]
    simp only [unflagV]
    rw [k4_eraseIdx_set_same, Global.swapVertex_vDel_eq]

/-! ### threading a predicate through K3's fast sweeps (as `fastgc_*` of OVM/Hex/Stable.lean, with the
    "the erased slot is flagged" hypothesis the multiset of live-cell quadruples needs) -/

theorem fthread_cells (X : Kernel → Prop)
    (hnd : ∀ (k : Kernel) (n : Nat), X k → X { k with nDelC := n })
    (hstep : ∀ (k : Kernel) (m : Nat), FastGCInv k → m < k.nC → k.cDeleted m = true → X k →
      X (deleteCellCore (unflagC k m) m))
    {k : Kernel} (hi : FastGCInv k) (hC : UpC k) (hF : UpF k) (hE : UpE k) (hq : X k) : X (gcCells k) := by
  have key := k3_gcSweep_induct
    (fun m k => (FastGCInv k ∧ m ≤ k.nC ∧ (∀ j, m ≤ j → k.cDeleted j = false) ∧ UpC k ∧ UpF k ∧ UpE k) ∧ X k)
    cDeleted (fun k i => { k with cDel := k.cDel.set i false }) deleteCellCore
    (by
      intro m k ⟨⟨h1, h2, h3, h4, h5, h6⟩, hq⟩
      by_cases hd : k.cDeleted m = true
      · rw [if_pos hd]
        exact ⟨gcStepC h1 (by omega) hd (fun j hj => h3 j (by omega)) h4 h5 h6, hstep k m h1 (by omega) hd hq⟩
      · rw [if_neg hd]
        refine ⟨⟨h1, by omega, ?_, h4, h5, h6⟩, hq⟩
        intro j hj
        by_cases e : j = m
        · subst e; simpa using hd
        · exact h3 j (by omega))
    k.nC k
    ⟨⟨hi, Nat.le_refl _, fun j hj => by
        unfold cDeleted; exact getD_of_ge _ _ _ (by rw [hi.wf.len.cDel]; exact hj), hC, hF, hE⟩, hq⟩
  unfold gcCells
  exact hnd _ 0 key.2

theorem fthread_faces (X : Kernel → Prop)
    (hnd : ∀ (k : Kernel) (n : Nat), X k → X { k with nDelF := n })
    (hstep : ∀ (k : Kernel) (m : Nat), FastGCInv k → m < k.nF → k.fDeleted m = true → NoFlag k.cDel → Closed k → X k →
      X (deleteFaceCore (unflagF k m) m))
    {k : Kernel} (hi : FastGCInv k) (hnfC : NoFlag k.cDel) (hC : UpC k) (hF : UpF k) (hE : UpE k) (hq : X k) :
    X (gcFaces k) := by
  have key := k3_gcSweep_induct
    (fun m k => (FastGCInv k ∧ m ≤ k.nF ∧ (∀ j, m ≤ j → k.fDeleted j = false) ∧ NoFlag k.cDel ∧ UpC k ∧ UpF k ∧ UpE k) ∧ X k)
    fDeleted (fun k i => { k with fDel := k.fDel.set i false }) deleteFaceCore
    (by
      intro m k ⟨⟨h1, h2, h3, h4, h5, h6, h7⟩, hq⟩
      by_cases hd : k.fDeleted m = true
      · rw [if_pos hd]
        exact ⟨gcStepF h1 (by omega) hd (fun j hj => h3 j (by omega)) h4 h5 h6 h7,
          hstep k m h1 (by omega) hd h4 ((closed_iff_up k).mpr ⟨h5, h6, h7⟩) hq⟩
      · rw [if_neg hd]
        refine ⟨⟨h1, by omega, ?_, h4, h5, h6, h7⟩, hq⟩
        intro j hj
        by_cases e : j = m
        · subst e; simpa using hd
        · exact h3 j (by omega))
    k.nF k
    ⟨⟨hi, Nat.le_refl _, fun j hj => by
        unfold fDeleted; exact getD_of_ge _ _ _ (by rw [hi.wf.len.fDel]; exact hj), hnfC, hC, hF, hE⟩, hq⟩
  unfold gcFaces
  exact hnd _ 0 key.2

theorem upC_of_noFlagF {k : Kernel} (hf : NoFlag k.fDel) : UpC k := fun _ _ _ x _ => by unfold fDeleted; exact hf.getD _

theorem fthread_edges (X : Kernel → Prop)
    (hnd : ∀ (k : Kernel) (n : Nat), X k → X { k with nDelE := n })
    (hstep : ∀ (k : Kernel) (m : Nat), FastGCInv k → m < k.nE → k.eDeleted m = true → NoFlag k.fDel → Closed k → X k →
      X (deleteEdgeCore (unflagE k m) m))
    {k : Kernel} (hi : FastGCInv k) (hnfC : NoFlag k.cDel) (hnfF : NoFlag k.fDel) (hF : UpF k) (hE : UpE k) (hq : X k) :
    X (gcEdges k) := by
  have key := k3_gcSweep_induct
    (fun m k => (FastGCInv k ∧ m ≤ k.nE ∧ (∀ j, m ≤ j → k.eDeleted j = false) ∧ NoFlag k.cDel ∧ NoFlag k.fDel ∧ UpF k ∧ UpE k) ∧ X k)
    eDeleted (fun k i => { k with eDel := k.eDel.set i false }) deleteEdgeCore
    (by
      intro m k ⟨⟨h1, h2, h3, h4, h5, h6, h7⟩, hq⟩
      by_cases hd : k.eDeleted m = true
      · rw [if_pos hd]
        exact ⟨gcStepE h1 (by omega) hd (fun j hj => h3 j (by omega)) h4 h5 h6 h7,
          hstep k m h1 (by omega) hd h5 ((closed_iff_up k).mpr ⟨upC_of_noFlagF h5, h6, h7⟩) hq⟩
      · rw [if_neg hd]
        refine ⟨⟨h1, by omega, ?_, h4, h5, h6, h7⟩, hq⟩
        intro j hj
        by_cases e : j = m
        · subst e; simpa using hd
        · exact h3 j (by omega))
    k.nE k
    ⟨⟨hi, Nat.le_refl _, fun j hj => by
        unfold eDeleted; exact getD_of_ge _ _ _ (by rw [hi.wf.len.eDel]; exact hj), hnfC, hnfF, hF, hE⟩, hq⟩
  unfold gcEdges
  exact hnd _ 0 key.2

/-- the vertex sweep in fast mode when exactly one vertex is flagged: one swap-and-pop -/
theorem sweepVerts_single_fast {k : Kernel} {a : Nat} (hi : FastGCInv k) (ha : a < k.nV)
    (hda : k.vDeleted a = true) (hone : ∀ v, v < k.nV → v ≠ a → k.vDeleted v = false)
    (hnfE : NoFlag k.eDel) (hR : VRef k) :
    gcSweep k k.nV vDeleted (fun k i => { k with vDel := k.vDel.set i false }) deleteVertexCore =
      deleteVertexCore (unflagV k a) a := by
  have hvd := (cyc_fast_vertexStep hi ha hda hnfE hR).2.2
  have := gcSweep_induct (fun k' m => m ≤ k.nV ∧ if a < m then k' = k else k' = deleteVertexCore (unflagV k a) a)
    vDeleted (fun k i => { k with vDel := k.vDel.set i false }) deleteVertexCore ?_ k.nV k
    ⟨Nat.le_refl _, by simp [ha]⟩
  · simpa using this.2
  · intro k' m ⟨hm, hP⟩
    refine ⟨by omega, ?_⟩
    rcases Nat.lt_trichotomy a m with h | h | h
    · have h1 : a < m + 1 := by omega
      simp only [h1, if_true] at hP
      subst hP
      simp only [h, if_true]
      rw [hone m (by omega) (by omega)]; simp
    · subst h
      simp only [Nat.lt_succ_self, if_true] at hP
      subst hP
      simp only [Nat.lt_irrefl, if_false, hda, if_true]
      rfl
    · have h1 : ¬ a < m + 1 := by omega
      have h2 : ¬ a < m := by omega
      simp only [h1, if_false] at hP
      subst hP
      simp only [h2, if_false]
      have : (deleteVertexCore (unflagV k a) a).vDeleted m = false := by
        unfold vDeleted
        rw [hvd, k3_getD_swapAt_pop' k.vDel a m false (by rw [hi.wf.len.vDel]; exact ha) k.nV hi.wf.len.vDel.symm (by omega)]
        have hma : ¬ m = a := by omega
        rw [if_neg hma]
        exact hone m (by omega) hma
      rw [this]; simp


/-! ### `collect_garbage` (fast mode) on the vertex cycles of the live cells -/

/-- what the fast cell, face and edge sweeps keep: the vertex cycles of the live cells UP TO THE ORDER OF THE CELLS,
    and the vertex flags -/
def KeepP (C0 : List (List (List Nat))) (n0 : Nat) (D0 : List Bool) (k : Kernel) : Prop :=
  (cyc k).Perm C0 ∧ k.nV = n0 ∧ k.vDel = D0

theorem keepP_of_eq {C0 n0 D0} {k' k : Kernel} (he : k'.edges = k.edges) (hf : k'.faces = k.faces)
    (hc : k'.cells = k.cells) (hd : k'.cDel = k.cDel) (hn : k'.nV = k.nV) (hv : k'.vDel = k.vDel)
    (h : KeepP C0 n0 D0 k) : KeepP C0 n0 D0 k' :=
  ⟨(cyc_of_eq he hf hc hd) ▸ h.1, hn.trans h.2.1, hv.trans h.2.2⟩

/-- **fast `collect_garbage` with exactly one flagged vertex `a`**: the vertex cycles of the live cells are kept up
    to the order of the cells, every vertex renamed by "exchange `a` with the last vertex, drop the last slot" -/
theorem gc_cyc_fast {k : Kernel} {a : Nat} (hf : k.fast = true) (hd : k.deferred = true) (hg : k.needsGC = true)
    (hw : WF k) (h1 : k.oneCell = true) (hcl : Closed k) (ha : a < k.nV) (hda : k.vDeleted a = true)
    (hone : ∀ v, v < k.nV → v ≠ a → k.vDeleted v = false) :
    (cyc k.collectGarbage).Perm ((cyc k).map (·.map (·.map (fun v => corr1 (k.nV - 1) (relabelId a (k.nV - 1) v))))) ∧
    k.collectGarbage.nV = k.nV - 1 := by
  obtain ⟨hC, hF, hE⟩ := (closed_iff_up k).mp hcl
  have hcg : k.collectGarbage =
      { gcVerts (gcEdges (gcFaces (gcCells { k with deferred := false }))) with deferred := true } := by
    unfold collectGarbage; simp [hd, hg]
  rw [hcg]
  have hi0 : FastGCInv { k with deferred := false } :=
    ⟨rfl, hf, wf_withDeferred false hw, (oneCell_withDeferred k false).trans h1⟩
  have x0 : KeepP (cyc k) k.nV k.vDel ({ k with deferred := false } : Kernel) :=
    keepP_of_eq (k := k) rfl rfl rfl rfl rfl rfl ⟨List.Perm.refl _, rfl, rfl⟩
  have hC0 : UpC ({ k with deferred := false } : Kernel) := hC
  have hF0 : UpF ({ k with deferred := false } : Kernel) := hF
  have hE0 : UpE ({ k with deferred := false } : Kernel) := hE
  generalize ({ k with deferred := false } : Kernel) = k0 at hi0 x0 hC0 hF0 hE0
  obtain ⟨c1, c2, c3, c4, c5⟩ := gcCells_fast hi0 hC0 hF0 hE0
  have x1 := fthread_cells (KeepP (cyc k) k.nV k.vDel)
    (fun k n h => keepP_of_eq (k := k) rfl rfl rfl rfl rfl rfl h)
    (fun k m hi hm hdel h => by
      obtain ⟨s1, s2, s3⟩ := cyc_fast_cellStep hi hm hdel
      exact ⟨s1.trans h.1, s2.trans h.2.1, s3.trans h.2.2⟩) hi0 hC0 hF0 hE0 x0
  generalize gcCells k0 = k1 at c1 c2 c3 c4 c5 x1
  obtain ⟨f1, f2, f3, f4, f5⟩ := gcFaces_fast c1 c2 c3 c4 c5
  have x2 := fthread_faces (KeepP (cyc k) k.nV k.vDel)
    (fun k n h => keepP_of_eq (k := k) rfl rfl rfl rfl rfl rfl h)
    (fun k m hi hm hdel hnf hcl h => by
      obtain ⟨s1, s2, s3⟩ := cyc_fast_faceStep hi hm hdel hnf hcl
      exact ⟨s1 ▸ h.1, s2.trans h.2.1, s3.trans h.2.2⟩) c1 c2 c3 c4 c5 x1
  generalize gcFaces k1 = k2 at f1 f2 f3 f4 f5 x2
  obtain ⟨e1, e2, e3, e4, e5⟩ := gcEdges_fast f1 f2 f3 f4 f5
  have x3 := fthread_edges (KeepP (cyc k) k.nV k.vDel)
    (fun k n h => keepP_of_eq (k := k) rfl rfl rfl rfl rfl rfl h)
    (fun k m hi hm hdel hnf hcl h => by
      obtain ⟨s1, s2, s3⟩ := cyc_fast_edgeStep hi hm hdel hnf hcl
      exact ⟨s1 ▸ h.1, s2.trans h.2.1, s3.trans h.2.2⟩) f1 f2 f3 f4 f5 x2
  generalize gcEdges k2 = k3 at e1 e2 e3 e4 e5 x3
  obtain ⟨y1, y2, y3⟩ := x3
  have hR : VRef k3 := by
    intro e he
    obtain ⟨i, hil, rfl⟩ := k3_mem_getD (0, 0) he
    exact e5 i hil (by unfold eDeleted; exact e4.getD i)
  have ha3 : a < k3.nV := by rw [y2]; exact ha
  have hda3 : k3.vDeleted a = true := by unfold vDeleted at hda ⊢; rw [y3]; exact hda
  have hone3 : ∀ v, v < k3.nV → v ≠ a → k3.vDeleted v = false := by
    intro v hv hne; have := hone v (by rw [← y2]; exact hv) hne
    unfold vDeleted at this ⊢; rw [y3]; exact this
  have hsw := sweepVerts_single_fast e1 ha3 hda3 hone3 e4 hR
  obtain ⟨z1, z2, _⟩ := cyc_fast_vertexStep e1 ha3 hda3 e4 hR
  have hgv : gcVerts k3 = { deleteVertexCore (unflagV k3 a) a with nDelV := 0 } := by unfold gcVerts; rw [hsw]
  rw [hgv]
  constructor
  · have : cyc ({ ({ deleteVertexCore (unflagV k3 a) a with nDelV := 0 } : Kernel) with deferred := true } : Kernel) =
        cyc (deleteVertexCore (unflagV k3 a) a) := cyc_of_eq rfl rfl rfl rfl
    rw [this, z1, y2]
    exact y1.map _
  · show (deleteVertexCore (unflagV k3 a) a).nV = k.nV - 1
    rw [z2, y2]

theorem relabelId_last_facts (a n v : Nat) (ha : a < n) (hv : v < n) (hne : v ≠ a) :
    relabelId a (n - 1) v < n - 1 ∧ corr1 (n - 1) (relabelId a (n - 1) v) = relabelId a (n - 1) v := by
  have e : relabelId a (n - 1) v = if v = n - 1 then a else v := by unfold relabelId; simp [hne]
  by_cases h1 : v = n - 1
  · have : relabelId a (n - 1) v = a := by rw [e, if_pos h1]
    rw [this]; exact ⟨by omega, by unfold corr1; rw [if_neg (by omega)]⟩
  · have : relabelId a (n - 1) v = v := by rw [e, if_neg h1]
    rw [this]; exact ⟨by omega, by unfold corr1; rw [if_neg (by omega)]⟩

/-- **C15(d), garbage collection in fast mode**: as `gc_quads_shift`, with the renaming `relabelId a (nV - 1)`
    (the last vertex takes the handle of the flagged one), as a multiset -/
theorem gc_quads_fast {k : Kernel} {a : Nat} (hi : GInv k) (hf : k.fast = true) (hd : k.deferred = true)
    (hT : ∀ c ∈ k.liveCells, IsTet k c) (ha : a < k.nV) (hda : k.vDeleted a = true)
    (hone : ∀ v, v < k.nV → v ≠ a → k.vDeleted v = false) :
    (quads k.collectGarbage).Perm (quadsσ (relabelId a (k.nV - 1)) k) ∧
    k.collectGarbage.nV = k.nV - 1 ∧
    (∀ b, b ≠ a → b < k.nV → relabelId a (k.nV - 1) b < k.collectGarbage.nV) ∧
    (∀ c ∈ k.collectGarbage.liveCells, IsTet k.collectGarbage c) := by
  have hg : k.needsGC = true := by
    cases hg : k.needsGC
    · have := (hi.noFlag_of_noGC hg).2.2.2.getD a
      unfold vDeleted at hda; rw [this] at hda; cases hda
    · rfl
  obtain ⟨hc, hn⟩ := gc_cyc_fast hf hd hg hi.wf hi.one hi.closed ha hda hone
  -- on the vertices of live cells the two renamings agree
  have hagree : ∀ v, v < k.nV → v ≠ a → corr1 (k.nV - 1) (relabelId a (k.nV - 1) v) = relabelId a (k.nV - 1) v := by
    intro v hv hne
    exact (relabelId_last_facts a k.nV v ha hv hne).2
  have hvok : ∀ c ∈ k.liveCells, ∀ v ∈ k.cellQuad c, v < k.nV ∧ v ≠ a := by
    intro c hcl v hv
    have := vOk_of_mem_cellQuad hi hcl (hT c hcl) hv
    refine ⟨this.1, fun e => ?_⟩
    have h2 := this.2; rw [e, hda] at h2; cases h2
  have hmapeq : ∀ c ∈ k.liveCells, (k.cellQuad c).map (fun v => corr1 (k.nV - 1) (relabelId a (k.nV - 1) v)) =
      (k.cellQuad c).map (relabelId a (k.nV - 1)) := by
    intro c hcl
    apply List.map_congr_left
    intro v hv
    exact hagree v (hvok c hcl v hv).1 (hvok c hcl v hv).2
  have hinj : ∀ c ∈ k.liveCells,
      ((k.cellQuad c).map (fun v => corr1 (k.nV - 1) (relabelId a (k.nV - 1) v))).Nodup := by
    intro c hcl
    rw [hmapeq c hcl]
    obtain ⟨p, q, r, s, eq, hTo, _⟩ := cellQuad_isTet (hT c hcl)
    apply nodup_map_on _ (by rw [eq]; exact hTo.1)
    intro x _ y _ e
    have := congrArg (relabelId a (k.nV - 1)) e
    rwa [relabelId_invol, relabelId_invol] at this
  obtain ⟨hq, hT'⟩ := quads_of_cyc_perm _ hc hT hinj
  refine ⟨?_, hn, ?_, hT'⟩
  · have : quadsσ (fun v => corr1 (k.nV - 1) (relabelId a (k.nV - 1) v)) k = quadsσ (relabelId a (k.nV - 1)) k := by
      unfold quadsσ
      apply List.map_congr_left
      intro c hcl
      rw [hmapeq c hcl]
    rw [← this]; exact hq
  · intro b hb hlt
    rw [hn]
    exact (relabelId_last_facts a k.nV b ha hlt hb).1

/-! ### C15(d) in immediate fast mode -/

/-- **C15(d), immediate fast mode** (`deferred = false`, `fast = true`): `collapse_edge(a → b)` refines the abstract
    collapse followed by the renaming `relabelId a (nV - 1)` (the garbage collection at the end of the call moves the
    last vertex into the slot of `a`); the returned handle is the image of `b`, it is in range, one vertex slot is
    gone, and every live cell is a tetrahedron.  `hpre`: the gap hypothesis of `TetOpOK (.collapse h)`. -/
theorem collapse_refines_fast {k : Kernel} {h : Nat} (hd : k.deferred = false) (hfa : k.fast = true)
    (hi : GInv k) (hl : FaceLoops k) (hb : k.fullBU = true) (hlk : k.linkCondition h = true)
    (hpre : GInv (collapsePre k h)) :
    ((k.collapseEdge h).1.liveCells.map (fun c => canonQuad ((k.collapseEdge h).1.cellQuad c))).Perm
      ((absCollapse (k.fromV h) (k.toV h) (k.liveCells.map k.cellQuad)).map
        (fun t => canonQuad (t.map (relabelId (k.fromV h) (k.nV - 1))))) ∧
    (k.collapseEdge h).2 = relabelId (k.fromV h) (k.nV - 1) (k.toV h) ∧
    (k.collapseEdge h).1.nV = k.nV - 1 ∧ (k.collapseEdge h).2 < (k.collapseEdge h).1.nV ∧
    (∀ c ∈ (k.collapseEdge h).1.liveCells, IsTet (k.collapseEdge h).1 c) := by
  obtain ⟨hKd, hKf, R1, hT, hnV, hda, hone, hfin, hsnd, ha, hbv, hab, hTk⟩ := collapse_immediate_core hd hi hl hb hlk hpre
  generalize collapsePre k h = K at *
  obtain ⟨g1, g2, g3, g5⟩ := gc_quads_fast hpre (hKf.trans hfa) hKd hT (by rw [hnV]; exact ha) hda hone
  rw [hnV] at g1 g3
  have hsnd' : (k.collapseEdge h).2 = relabelId (k.fromV h) (k.nV - 1) (k.toV h) := by
    rw [hsnd, hfa]; exact survivingVertex_fast _ _ _ hab
  rw [hfin]
  refine ⟨collapse_finish _ _ _ _ (cellQuads_length hTk) hT R1 g1, hsnd',
    by show K.collectGarbage.nV = k.nV - 1; rw [g2, hnV], ?_, g5⟩
  show (k.collapseEdge h).2 < K.collectGarbage.nV
  rw [hsnd']
  exact g3 _ (fun e => hab e.symm) hbv


/-! ### non-vacuity -/

/-- the three-tet fan of OVM/Props/C15.lean, built in immediate FAST mode -/
def gcFanF : Kernel :=
  runTetX {} [.probeMode false true, .base (.addNVertices 6), .addCell4 true 0 1 2 3, .addCell4 true 0 2 1 4,
    .addCell4 true 0 3 2 5]

-- TEST (evaluation on one state, labelled so): on the fan, halfedge `0 → 1`, immediate fast mode, both sides of
-- `collapse_refines_fast` are the same list; vertex 5 takes the handle 0; the returned handle is `1`
example : gcFanF.deferred = false ∧ gcFanF.fast = true ∧ gcFanF.fullBU = true ∧ gcFanF.linkCondition 0 = true ∧
    FaceLoops gcFanF ∧ gcFanF.fromV 0 = 0 ∧ gcFanF.toV 0 = 1 ∧ gcFanF.nV = 6 ∧
    (gcFanF.collapseEdge 0).1.liveCells.map (fun c => canonQuad ((gcFanF.collapseEdge 0).1.cellQuad c)) = [[0, 1, 2, 3]] ∧
    (absCollapse 0 1 (gcFanF.liveCells.map gcFanF.cellQuad)).map (fun t => canonQuad (t.map (relabelId 0 5))) = [[0, 1, 2, 3]] ∧
    (gcFanF.collapseEdge 0).2 = 1 ∧ (gcFanF.collapseEdge 0).1.nV = 5 ∧ (gcFanF.collapseEdge 0).1.deferred = false := by
  decide +kernel

/-- `sampleCol0` of OVM/Tet/ShapeRun.lean, in immediate fast mode -/
def sampleColF0 : List TetOp :=
  [.probeMode false true, .base (.addNVertices 6), .addCell4 true 0 1 2 3, .addCell4 true 0 2 1 4,
   .addCell4 true 1 2 3 5]

/-- inside the call deletion is deferred, so the replay of OVM/Tet/ShapeRun.lean (`sampleColInside`) is the same -/
theorem sampleColF_pre : collapsePre (runTetX {} sampleColF0) 15 = runTetX {} (sampleColF0 ++ sampleColInside) := by
  decide +kernel

/-- every hypothesis of `collapse_refines_fast` holds there for the halfedge `15 = 0 → 4` -/
theorem sampleColF_fast_pre :
    (runTetX {} sampleColF0).deferred = false ∧ (runTetX {} sampleColF0).fast = true ∧ GInv (runTetX {} sampleColF0) ∧
    FaceLoops (runTetX {} sampleColF0) ∧ (runTetX {} sampleColF0).fullBU = true ∧
    (runTetX {} sampleColF0).linkCondition 15 = true ∧ GInv (collapsePre (runTetX {} sampleColF0) 15) := by
  refine ⟨by decide +kernel, by decide +kernel,
    (tinv_reachable _ (admissibleAll_of_B _ _ (by decide +kernel))).ginv, by decide +kernel, by decide +kernel,
    by decide +kernel, ?_⟩
  rw [sampleColF_pre]
  exact (tinv_reachable _ (admissibleAll_of_B _ _ (by decide +kernel))).ginv

example := collapse_refines_fast sampleColF_fast_pre.1 sampleColF_fast_pre.2.1 sampleColF_fast_pre.2.2.1
  sampleColF_fast_pre.2.2.2.1 sampleColF_fast_pre.2.2.2.2.1 sampleColF_fast_pre.2.2.2.2.2.1 sampleColF_fast_pre.2.2.2.2.2.2

-- TEST (evaluation, labelled so): what the theorem says there — a genuine permutation; vertex 5 now has the handle 0
-- and the handle of `4` is still `4`
example : (runTetX {} sampleColF0).fromV 15 = 0 ∧ (runTetX {} sampleColF0).toV 15 = 4 ∧ (runTetX {} sampleColF0).nV = 6 ∧
    ((runTetX {} sampleColF0).collapseEdge 15).1.liveCells.map
      (fun c => canonQuad (((runTetX {} sampleColF0).collapseEdge 15).1.cellQuad c)) = [[0, 1, 3, 2], [1, 2, 4, 3]] ∧
    (absCollapse 0 4 ((runTetX {} sampleColF0).liveCells.map (runTetX {} sampleColF0).cellQuad)).map
      (fun t => canonQuad (t.map (relabelId 0 5))) = [[1, 2, 4, 3], [0, 1, 3, 2]] ∧
    ((runTetX {} sampleColF0).collapseEdge 15).2 = 4 := by
  decide +kernel

end Kernel
end OVM

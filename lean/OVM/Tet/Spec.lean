import OVM.Tet.Collapse
import OVM.Spec.Incidence
/-
  S — specification layer for C15: the shape predicates of a tetrahedral mesh, the decidable
  `IsTet`, the brute-force contracts of the vertex-order queries, the abstract edge collapse on
  oriented vertex quadruples, and the link condition on the simplicial complex of the live mesh.
  Nothing here looks at a cache or follows the C++ control flow.
-/
namespace OVM
namespace Kernel

/-! ### shape -/

/-- the valence part of the shape, over every *stored* definition (deleted slots included): what
    the overrides of `add_face` / `add_cell` guard -/
def ValenceShape (k : Kernel) : Prop := (∀ f ∈ k.faces, f.length = 3) ∧ (∀ c ∈ k.cells, c.length = 4)

instance (k : Kernel) : Decidable (ValenceShape k) := by unfold ValenceShape; infer_instance

/-- the vertices of a cell: ascending, duplicate-free -/
def cellVertSet (k : Kernel) (c : Nat) : List Nat := toSet ((k.cellAt c).flatMap k.hfVerts)

/-- every live face has three halfedges, every live cell four halffaces and four distinct vertices -/
def TetShape (k : Kernel) : Prop :=
  (∀ f ∈ k.liveFaces, (k.faceAt f).length = 3) ∧
  (∀ c ∈ k.liveCells, (k.cellAt c).length = 4 ∧ (k.cellVertSet c).length = 4)

instance (k : Kernel) : Decidable (TetShape k) := by unfold TetShape; infer_instance

/-! ### `IsTet`: four triangles on four vertices forming the oriented boundary of a tetrahedron -/

/-- the four oriented triangles of the tetrahedron with base `(p,q,r)` and apex `s` -/
def tris (p q r s : Nat) : List (List Nat) := [[p, q, r], [q, p, s], [r, q, s], [p, r, s]]

/-- `a` is `b` read from some starting position (three-element cycles) -/
def Rot (a b : List Nat) : Prop := a = b ∨ a = b.rotateLeft 1 ∨ a = b.rotateLeft 2

instance (a b : List Nat) : Decidable (Rot a b) := by unfold Rot; infer_instance

/-- the halffaces `hs` are, one to one, the four triangles of the tetrahedron `(p,q,r;s)`, each read
    from some starting vertex -/
def TetOn (k : Kernel) (hs : List Nat) (p q r s : Nat) : Prop :=
  [p, q, r, s].Nodup ∧ hs.length = 4 ∧ hs.Nodup ∧
  (∀ h ∈ hs, ∃ t ∈ tris p q r s, Rot (k.hfVerts h) t) ∧
  (∀ t ∈ tris p q r s, ∃ h ∈ hs, Rot (k.hfVerts h) t) ∧
  (∀ h ∈ hs, ∀ h' ∈ hs, ∀ t ∈ tris p q r s, Rot (k.hfVerts h) t → Rot (k.hfVerts h') t → h = h')

instance (k : Kernel) (hs : List Nat) (p q r s : Nat) : Decidable (TetOn k hs p q r s) := by
  unfold TetOn; infer_instance

/-- cell `c` is a topological tetrahedron: with `(p,q,r)` the vertex cycle of its first halfface
    there is a fourth vertex `s` such that its halffaces are exactly the four oriented triangles -/
def IsTet (k : Kernel) (c : Nat) : Prop :=
  match k.hfVerts ((k.cellAt c).headD 0) with
  | [p, q, r] => ∃ s ∈ k.cellVertSet c, TetOn k (k.cellAt c) p q r s
  | _ => False

instance (k : Kernel) (c : Nat) : Decidable (IsTet k c) := by
  unfold IsTet; split <;> infer_instance

/-! ### brute-force contracts of the queries (oracles; evaluated on the implementation's states) -/

def isRot3 (a b : List Nat) : Bool := a == b || a == b.rotateLeft 1 || a == b.rotateLeft 2

/-- the vertices of cell `c` that are not on halfface `hf` -/
def sApex (k : Kernel) (c hf : Nat) : List Nat := (k.cellVertSet c).filter (fun v => !(k.hfVerts hf).contains v)

/-- `res` lists the cycle of `hf` (from `start`, or exactly as stored when `start = none`) and then
    the one vertex of `c` that is not on `hf` -/
def gcvOK (k : Kernel) (c hf : Nat) (start : Option Nat) (res : List Nat) : Bool :=
  match res with
  | [x, y, z, w] =>
    (match start with
     | none => [x, y, z] == k.hfVerts hf
     | some v => x == v && isRot3 [x, y, z] (k.hfVerts hf)) && k.sApex c hf == [w]
  | _ => false

/-- the live cells containing halfface `hf` (S-level `incident_cell`) is `sCellOf`; a halfface of a
    live cell `c` whose vertex cycle starts … : the contract of `get_cell_vertices(ch, vh)` -/
def gcvCVOK (k : Kernel) (c vh : Nat) (res : List Nat) : Bool :=
  let first := (k.cellAt c).headD 0
  if (k.hfVerts first).contains vh then k.gcvOK c first (some vh) res
  else (k.cellAt c).any (fun hf => k.gcvOK c hf (some vh) res)

/-! ### oriented vertex quadruples and the abstract collapse -/

/-- the twelve even permutations of a quadruple -/
def evenPerms (t : List Nat) : List (List Nat) :=
  match t with
  | [a, b, c, d] => [[a, b, c, d], [b, c, a, d], [c, a, b, d], [b, a, d, c], [a, d, b, c], [d, b, a, c],
                     [c, b, d, a], [b, d, c, a], [d, c, b, a], [a, c, d, b], [c, d, a, b], [d, a, c, b]]
  | _ => [t]

def lexLe : List Nat → List Nat → Bool
  | [], _ => true
  | _ :: _, [] => false
  | a :: as, b :: bs => a < b || (a == b && lexLe as bs)

/-- canonical representative of the orientation class -/
def canonQuad (t : List Nat) : List Nat := (evenPerms t).foldl (fun m x => if lexLe x m then x else m) t

/-- a cell as an oriented quadruple: the cycle of its first halfface, then the remaining vertices -/
def cellQuad (k : Kernel) (c : Nat) : List Nat :=
  let hf := (k.cellAt c).headD 0
  k.hfVerts hf ++ k.sApex c hf

def substV (a b v : Nat) : Nat := if v == a then b else v

/-- the abstract operation: the cells that do not contain both `a` and `b`, with `a` renamed to `b`
    (renaming a quadruple entry-wise keeps its orientation) -/
def absCollapse (a b : Nat) (cells : List (List Nat)) : List (List Nat) :=
  (cells.filter (fun t => !(t.contains a && t.contains b))).map (·.map (substV a b))

/-! ### the live mesh as a simplicial complex; link condition -/

def edgeVerts (k : Kernel) (e : Nat) : List Nat := toSet [(k.edgeAt e).1, (k.edgeAt e).2]
def faceVerts (k : Kernel) (f : Nat) : List Nat := toSet (k.hfVerts (heOf f 0))

/-- all simplices, each as an ascending vertex list -/
def simplices (k : Kernel) : List (List Nat) :=
  k.liveVerts.map (fun v => [v]) ++ k.liveEdges.map k.edgeVerts ++ k.liveFaces.map k.faceVerts ++ k.liveCells.map k.cellVertSet

/-- the live mesh is a simplicial complex of tetrahedra, triangles, edges and vertices -/
def simplicial (k : Kernel) : Bool :=
  k.liveEdges.all (fun e => (k.edgeVerts e).length == 2 && (k.edgeVerts e).all k.liveV) &&
  k.liveFaces.all (fun f => (k.faceAt f).length == 3 && (k.faceVerts f).length == 3 && (k.faceAt f).all (fun h => k.liveE (eOf h))) &&
  k.liveCells.all (fun c => decide (IsTet k c) && (k.cellAt c).all (fun hf => k.liveF (eOf hf))) &&
  (k.liveEdges.map k.edgeVerts).Nodup && (k.liveFaces.map k.faceVerts).Nodup && (k.liveCells.map k.cellVertSet).Nodup &&
  k.oneCell

def subsetL (a b : List Nat) : Bool := a.all b.contains

def insertLex (x : List Nat) : List (List Nat) → List (List Nat)
  | [] => [x]
  | y :: ys => if lexLe x y then (if x == y then y :: ys else x :: y :: ys) else y :: insertLex x ys

/-- link of a simplex: the faces opposite to it in its cofaces (ascending, duplicate-free) -/
def linkOf (k : Kernel) (sigma : List Nat) : List (List Nat) :=
  ((k.simplices.filter (fun t => subsetL sigma t && t.length != sigma.length)).map
    (fun t => t.filter (fun v => !sigma.contains v))).foldr insertLex []

/-- `Lk(a) ∩ Lk(b) = Lk(ab)` for the halfedge `h = a → b` of a simplicial live mesh -/
def linkCondition (k : Kernel) (h : Nat) : Bool :=
  let a := k.fromV h
  let b := k.toV h
  k.simplicial && k.liveE (eOf h) && a != b &&
  ((k.linkOf [a]).filter (k.linkOf [b]).contains) == k.linkOf (toSet [a, b])

end Kernel
end OVM

import OVM.Kernel.Step
/-
  M: the overrides of `TetrahedralMeshTopologyKernel` (Mesh/TetrahedralMeshTopologyKernel.cc):
  valence-guarded `add_face` / `add_cell`.
-/
namespace OVM
namespace Kernel

/-- cc:43-54: faces must have exactly three halfedges -/
def tetAddFace (k : Kernel) (hes : List Nat) (chk : Bool) : Kernel × Option Nat :=
  if hes.length != 3 then (k, none) else k.addFace hes chk

/-- `add_cell(halffaces)` override: four halffaces, each a triangle, spanning exactly four vertices, no ordered vertex pair used twice (64c6d58, 4614b67) -/
def tetAddCell (k : Kernel) (hfs : List Nat) (chk : Bool) : Kernel × Option Nat :=
  if hfs.length != 4 then (k, none)
  else if hfs.any (fun hf => (k.faceAt (eOf hf)).length != 3) then (k, none)
  else if k.spanVertCount hfs != 4 || !k.noParallel hfs then (k, none)   -- 64c6d58, 4614b67
  else k.addCell hfs chk

/-- `add_face(vertices)` override (cc:58-69): exactly three vertices, then the base-class
    function (which ends in the virtual `add_face(halfedges)` with three halfedges) -/
def tetAddFaceV (k : Kernel) (vs : List Nat) : Kernel × Option Nat :=
  if vs.length != 3 then (k, none) else k.addFaceV vs

/-- one driver operation on a tetrahedral mesh -/
def stepTet (k : Kernel) : Op → Kernel × Int
  | .addFaceHe chk hes => let (k', f) := k.tetAddFace hes chk; (k', optH f)
  | .addFaceV vs => let (k', f) := k.tetAddFaceV vs; (k', optH f)
  | .addCell chk hfs => let (k', c) := k.tetAddCell hfs chk; (k', optH c)
  | op => k.step op

end Kernel
end OVM

import OVM.Tet.TetCells
/-
  `collapse_edge`, first half (Mesh/TetrahedralMeshTopologyKernel.cc:333-373): the loop that re-creates the
  halfedges and halffaces of one cell of the star of `a` with `a` replaced by `b` (`collapseHe`, `collapseHf`,
  `collapseCell` of OVM/Tet/Collapse.lean).  For a state with K5's global invariant, vertex and edge caches and
  closed triangular faces (`BInv`): every re-created halfface carries the renamed vertex cycle of the old one (up
  to rotation), the old definitions are untouched, and the invariants survive.
-/
namespace OVM
namespace Kernel
open Global

/-! ### exchanging property slots does not touch the topology -/

theorem colsLen_map_swap {cs : List Col} {n : Nat} (h : ColsLen cs n) (a b : Nat) : ColsLen (cs.map (·.swap a b)) n := by
  intro c hc
  obtain ⟨c0, hc0, rfl⟩ := List.mem_map.mp hc
  show (swapAt c0.vals a b).length = n
  rw [length_swapAt]; exact h c0 hc0

/-- a state that differs only in the property columns (same lengths) and the ghost flag -/
theorem ginv_withProps {k : Kernel} (hi : GInv k) (p : Props) (f : Bool)
    (pv : ColsLen p.v k.nV) (pe : ColsLen p.e k.nE) (phe : ColsLen p.he k.nHE) (pf : ColsLen p.f k.nF)
    (phf : ColsLen p.hf k.nHF) (pc : ColsLen p.c k.nC) : GInv ({ k with props := p, fault := f } : Kernel) := by
  have hw : WF ({ k with props := p, fault := f } : Kernel) := by
    refine ⟨?_, rangeInv_of_eq (k := k) rfl rfl rfl rfl hi.wf.range,
      ⟨cacheInvV_of_eq (k := k) rfl rfl rfl rfl rfl hi.wf.cache.v, cacheInvE_of_eq (k := k) rfl rfl rfl rfl rfl hi.wf.cache.e,
       cacheInvF_of_eq (k := k) rfl rfl rfl rfl rfl hi.wf.cache.f⟩⟩
    exact { vDel := hi.wf.len.vDel, eDel := hi.wf.len.eDel, fDel := hi.wf.len.fDel, cDel := hi.wf.len.cDel,
            outHes := hi.wf.len.outHes, incHfs := hi.wf.len.incHfs, incCell := hi.wf.len.incCell,
            pv := pv, pe := pe, phe := phe, pf := pf, phf := phf, pc := pc }
  exact ginv_of_same (k := k) hw (oneCell_congr k _ rfl rfl rfl ▸ hi.one) rfl rfl rfl rfl rfl rfl rfl rfl rfl rfl rfl rfl rfl hi

theorem ginv_swapHE {k : Kernel} (hi : GInv k) (x y : Nat) (f : Bool) :
    GInv ({ k with props := swapHEProp k.props x y, fault := f } : Kernel) :=
  ginv_withProps hi _ f hi.wf.len.pv hi.wf.len.pe (colsLen_map_swap hi.wf.len.phe x y) hi.wf.len.pf hi.wf.len.phf hi.wf.len.pc

theorem ginv_swapHF {k : Kernel} (hi : GInv k) (x y : Nat) (f : Bool) :
    GInv ({ k with props := swapHFProp k.props x y, fault := f } : Kernel) :=
  ginv_withProps hi _ f hi.wf.len.pv hi.wf.len.pe hi.wf.len.phe hi.wf.len.pf (colsLen_map_swap hi.wf.len.phf x y) hi.wf.len.pc

theorem ginv_swapC {k : Kernel} (hi : GInv k) (x y : Nat) (f : Bool) :
    GInv ({ k with props := swapCProp k.props x y, fault := f } : Kernel) :=
  ginv_withProps hi _ f hi.wf.len.pv hi.wf.len.pe hi.wf.len.phe hi.wf.len.pf hi.wf.len.phf (colsLen_map_swap hi.wf.len.pc x y)

theorem ext_withProps {k k' : Kernel} (e : Ext k k') (p : Props) (f : Bool) : Ext k ({ k' with props := p, fault := f } : Kernel) :=
  ⟨e.nV, e.vDel, e.edges, e.faces, e.eDel, e.fDel, e.cells, e.deferred, e.fast, e.vBU, e.eBU, e.fBU⟩

theorem binv_withProps {k : Kernel} (h : BInv k) (p : Props) (f : Bool) (hg : GInv ({ k with props := p, fault := f } : Kernel)) :
    BInv ({ k with props := p, fault := f } : Kernel) :=
  ⟨hg, h.vBU, h.eBU, fun x hx => h.loops x hx⟩

/-! ### one halfedge -/

/-- one halfedge of a halfface that is rebuilt on `b` (cc:352-362) -/
theorem collapseHe_spec {k : Kernel} (hb : BInv k) (a b : Nat) {h : Nat} (acc : List Nat)
    (v1 : VOk k (substV a b (k.fromV h))) (v2 : VOk k (substV a b (k.toV h))) :
    BInv (collapseHe a b (k, acc) h).1 ∧ Ext k (collapseHe a b (k, acc) h).1 ∧ (collapseHe a b (k, acc) h).1.cDel = k.cDel ∧
    ∃ h', (collapseHe a b (k, acc) h).2 = acc ++ [h'] ∧ HeOk (collapseHe a b (k, acc) h).1 h' ∧
      (collapseHe a b (k, acc) h).1.fromV h' = substV a b (k.fromV h) ∧
      (collapseHe a b (k, acc) h).1.toV h' = substV a b (k.toV h) := by
  have e1 : (if (k.halfedge h).1 == a then b else (k.halfedge h).1) = substV a b (k.fromV h) := rfl
  have e2 : (if (k.halfedge h).2 == a then b else (k.halfedge h).2) = substV a b (k.toV h) := rfl
  unfold collapseHe
  simp only [e1, e2]
  obtain ⟨g, x, c, o, f, t⟩ := tetAddHalfedge_spec hb.ginv hb.vBU v1 v2
  have b1 := tetAddHalfedge_binv hb v1 v2
  generalize k.tetAddHalfedge (substV a b (k.fromV h)) (substV a b (k.toV h)) = r at g x c o f t b1
  have hg := ginv_swapHE g h r.2 r.1.fault
  have hb2 : BInv ({ r.1 with props := swapHEProp r.1.props h r.2 } : Kernel) := binv_withProps b1 _ r.1.fault hg
  exact ⟨hb2, ext_withProps x _ _, c, r.2, rfl, o, f, t⟩

/-! ### one halfface -/

theorem range3 : List.range 3 = [0, 1, 2] := by decide
theorem range4 : List.range 4 = [0, 1, 2, 3] := by decide

/-- one halfface of a cell that is rebuilt on `b` (cc:347-367): the new halfface carries the renamed vertex
    cycle of the old one, up to rotation -/
theorem collapseHf_spec {k : Kernel} (hb : BInv k) (a b : Nat) (c : List Nat) (i : Nat) (acc : List Nat)
    (hlt : c.getD i 0 < k.nHF)
    (hv : ∀ v ∈ k.hfVerts (c.getD i 0), VOk k (substV a b v))
    (hd : ((k.hfVerts (c.getD i 0)).map (substV a b)).Nodup) :
    BInv (collapseHf a b c (k, acc) i).1 ∧ Ext k (collapseHf a b c (k, acc) i).1 ∧
    (collapseHf a b c (k, acc) i).1.cDel = k.cDel ∧
    ∃ nhf, (collapseHf a b c (k, acc) i).2 = acc ++ [nhf] ∧ HfOk (collapseHf a b c (k, acc) i).1 nhf ∧
      Rot ((collapseHf a b c (k, acc) i).1.hfVerts nhf) ((k.hfVerts (c.getD i 0)).map (substV a b)) := by
  have hL := loop3_hfHes hb.loops hlt
  have hR := hfHes_range hb.ginv.wf.range hlt
  unfold collapseHf
  simp only []
  unfold hfVerts at hv hd ⊢
  generalize c.getD i 0 = hfh at hL hR hv hd ⊢
  generalize hys : k.hfHes hfh = ys at hL hR hv hd ⊢
  unfold Loop3 at hL
  split at hL
  · rename_i y0 y1 y2
    obtain ⟨l1, l2, l3⟩ := hL
    simp only [List.mem_cons, List.not_mem_nil, or_false, forall_eq_or_imp, forall_eq, List.map_cons, List.map_nil] at hR hv hd
    obtain ⟨r0, r1, r2⟩ := hR
    obtain ⟨w0, w1, w2⟩ := hv
    simp only [range3, List.foldl_cons, List.foldl_nil, List.getD_cons_zero, List.getD_cons_succ]
    -- first halfedge
    obtain ⟨b1, x1, c1, h0', q1, o1, f1, t1⟩ := collapseHe_spec hb a b (h := y0) [] w0 (by rw [l1]; exact w1)
    generalize collapseHe a b (k, []) y0 = s1 at b1 x1 c1 q1 o1 f1 t1
    obtain ⟨k1, a1⟩ := s1
    simp only at b1 x1 c1 q1 o1 f1 t1
    subst q1
    -- second
    have F1 : k1.fromV y1 = k.fromV y1 := x1.fromV r1
    have T1 : k1.toV y1 = k.toV y1 := x1.toV r1
    obtain ⟨b2, x2, c2, h1', q2, o2, f2, t2⟩ := collapseHe_spec b1 a b (h := y1) ([] ++ [h0'])
      (by rw [F1]; exact x1.vOk w1) (by rw [T1, l2]; exact x1.vOk w2)
    generalize collapseHe a b (k1, [] ++ [h0']) y1 = s2 at b2 x2 c2 q2 o2 f2 t2
    obtain ⟨k2, a2⟩ := s2
    simp only at b2 x2 c2 q2 o2 f2 t2
    subst q2
    -- third
    have x12 := x1.trans x2
    have F2 : k2.fromV y2 = k.fromV y2 := x12.fromV r2
    have T2 : k2.toV y2 = k.toV y2 := x12.toV r2
    obtain ⟨b3, x3, c3, h2', q3, o3, f3, t3⟩ := collapseHe_spec b2 a b (h := y2) ([] ++ [h0'] ++ [h1'])
      (by rw [F2]; exact x12.vOk w2) (by rw [T2, l3]; exact x12.vOk w0)
    generalize collapseHe a b (k2, [] ++ [h0'] ++ [h1']) y2 = s3 at b3 x3 c3 q3 o3 f3 t3
    obtain ⟨k3, a3⟩ := s3
    simp only at b3 x3 c3 q3 o3 f3 t3
    subst q3
    simp only [List.nil_append, List.cons_append]
    -- the three new halfedges in the last state
    have x23 := x2.trans x3
    have A0 : k3.fromV h0' = substV a b (k.fromV y0) := by rw [x23.fromV o1.1]; exact f1
    have B0 : k3.toV h0' = substV a b (k.fromV y1) := by rw [x23.toV o1.1, t1, l1]
    have A1 : k3.fromV h1' = substV a b (k.fromV y1) := by rw [x3.fromV o2.1, f2, F1]
    have B1 : k3.toV h1' = substV a b (k.fromV y2) := by rw [x3.toV o2.1, t2, T1, l2]
    have A2 : k3.fromV h2' = substV a b (k.fromV y2) := by rw [f3, F2]
    have B2 : k3.toV h2' = substV a b (k.fromV y0) := by rw [t3, T2, l3]
    have hnd : substV a b (k.fromV y0) ≠ substV a b (k.fromV y1) ∧ substV a b (k.fromV y1) ≠ substV a b (k.fromV y2) ∧
        substV a b (k.fromV y0) ≠ substV a b (k.fromV y2) := by
      simp only [List.nodup_cons, List.mem_cons, List.not_mem_nil, or_false, not_or, List.nodup_nil, and_true] at hd
      exact ⟨hd.1.1, hd.2.1, hd.1.2⟩
    -- the ghost flag does not matter
    have hg : GInv ({ k3 with fault := k3.fault || decide (c.length ≤ i) || decide ([y0, y1, y2].length < 3) } : Kernel) :=
      ginv_withProps b3.ginv k3.props _ b3.ginv.wf.len.pv b3.ginv.wf.len.pe b3.ginv.wf.len.phe b3.ginv.wf.len.pf
        b3.ginv.wf.len.phf b3.ginv.wf.len.pc
    have b4 := binv_withProps b3 k3.props (k3.fault || decide (c.length ≤ i) || decide ([y0, y1, y2].length < 3)) hg
    have x4 : Ext k3 ({ k3 with fault := k3.fault || decide (c.length ≤ i) || decide ([y0, y1, y2].length < 3) } : Kernel) :=
      ext_withProps (Ext.refl k3) k3.props _
    have c4 : ({ k3 with fault := k3.fault || decide (c.length ≤ i) || decide ([y0, y1, y2].length < 3) } : Kernel).cDel = k3.cDel := rfl
    generalize ({ k3 with fault := k3.fault || decide (c.length ≤ i) || decide ([y0, y1, y2].length < 3) } : Kernel) = k4
      at hg b4 x4 c4
    obtain ⟨nhf, p1, p2, p3, p4, p5, p6, p7⟩ := tetAddHalfface_spec (k := k4) b4.ginv b4.eBU b4.loops
      (h0 := h0') (h1 := h1') (h2 := h2') (x4.heOk (x23.heOk o1)) (x4.heOk (x3.heOk o2)) (x4.heOk o3)
      (by
        show _ ∧ _ ∧ _
        rw [x4.toV (x23.heOk o1).1, x4.toV (x3.heOk o2).1, x4.toV o3.1, x4.fromV (x23.heOk o1).1,
          x4.fromV (x3.heOk o2).1, x4.fromV o3.1, A0, B0, A1, B1, A2, B2]
        exact ⟨rfl, rfl, rfl⟩)
      (by
        rw [x4.fromV (x23.heOk o1).1, x4.fromV (x3.heOk o2).1, x4.fromV o3.1, A0, A1, A2]; exact hnd)
    rw [x4.fromV (x23.heOk o1).1, x4.fromV (x3.heOk o2).1, x4.fromV o3.1, A0, A1, A2] at p7
    have b5 : BInv (k4.tetAddHalfface [h0', h1', h2'] false).1 := b4.ext p3 p2 p5
    generalize k4.tetAddHalfface [h0', h1', h2'] false = r2 at p1 p2 p3 p4 p5 p6 p7 b5
    rw [p1]
    simp only
    have hg6 := ginv_swapHF b5.ginv hfh nhf r2.1.fault
    have xall : Ext k r2.1 := ((x1.trans x23).trans x4).trans p3
    refine ⟨binv_withProps b5 _ _ hg6, ext_withProps xall _ _, ?_, nhf, rfl, ?_, ?_⟩
    · show r2.1.cDel = k.cDel
      rw [p4, c4, c3, c2, c1]
    · exact ⟨p6.1, p6.2⟩
    · exact p7
  · exact absurd hL id

/-! ### one cell -/

theorem ext_of_same {k k' : Kernel} (nV : k'.nV = k.nV) (vDel : k'.vDel = k.vDel) (edges : k'.edges = k.edges)
    (faces : k'.faces = k.faces) (eDel : k'.eDel = k.eDel) (fDel : k'.fDel = k.fDel) (cells : k'.cells = k.cells)
    (deferred : k'.deferred = k.deferred) (fast : k'.fast = k.fast) (vBU : k'.vBU = k.vBU) (eBU : k'.eBU = k.eBU)
    (fBU : k'.fBU = k.fBU) : Ext k k' :=
  ⟨nV, vDel, ⟨[], by rw [edges]; simp⟩, ⟨[], by rw [faces]; simp⟩, fun e _ => by unfold eDeleted; rw [eDel],
   fun f _ => by unfold fDeleted; rw [fDel], cells, deferred, fast, vBU, eBU, fBU⟩

theorem ext_deleteCell_deferred {k : Kernel} (hd : k.deferred = true) (ch : Nat) :
    Ext k (k.deleteCell ch) ∧ (k.deleteCell ch).cDel = k.cDel.set ch true ∧ (k.deleteCell ch).edges = k.edges ∧
    (k.deleteCell ch).faces = k.faces := by
  unfold deleteCell
  rw [deleteCellCore_deferred_eq ch hd]
  refine ⟨ext_of_same (by simp) (by simp) (by simp) (by simp) (by simp) (by simp) (by simp) (by simp) (by simp) (by simp)
    (by simp) (by simp), by simp, by simp, by simp⟩

theorem faceLoops_of_eq {k k' : Kernel} (he : k'.edges = k.edges) (hf : k'.faces = k.faces) (h : FaceLoops k) : FaceLoops k' := by
  intro f hm
  rw [hf] at hm
  have := h f hm
  unfold Loop3 at *
  split
  · rename_i x y z
    simp only at this
    unfold toV fromV halfedge edgeAt at *
    rw [he]; exact this
  · rename_i hne
    split at this
    · rename_i x y z; exact absurd rfl (hne x y z)
    · exact this

/-- what one step of the star loop needs to know about the cell it rebuilds -/
structure CellReady (k : Kernel) (a b ch : Nat) : Prop where
  lt : ch < k.nC
  len : (k.cellAt ch).length = 4
  vok : ∀ hf ∈ k.cellAt ch, ∀ v ∈ k.hfVerts hf, VOk k (substV a b v)
  nodup : ∀ hf ∈ k.cellAt ch, ((k.hfVerts hf).map (substV a b)).Nodup

/-- one cell of the star (cc:337-373), not one of the cells around the collapsing edge: its four halffaces are
    re-created on `b` (each with the renamed vertex cycle, up to rotation), the cell is flagged deleted -/
theorem collapseCell_spec {k : Kernel} (hb : BInv k) (hd : k.deferred = true) (a b : Nat) (coll : List Nat)
    (rem : List (Nat × List Nat)) {ch : Nat} (hn : coll.contains ch = false) (rdy : CellReady k a b ch) :
    BInv (collapseCell a b coll (k, rem) ch).1 ∧ Ext k (collapseCell a b coll (k, rem) ch).1 ∧
    (collapseCell a b coll (k, rem) ch).1.cDel = k.cDel.set ch true ∧
    ∃ c0 c1 c2 c3 n0 n1 n2 n3, k.cellAt ch = [c0, c1, c2, c3] ∧
      (collapseCell a b coll (k, rem) ch).2 = rem ++ [(ch, [n0, n1, n2, n3])] ∧
      (∀ n ∈ [n0, n1, n2, n3], HfOk (collapseCell a b coll (k, rem) ch).1 n) ∧
      Rot ((collapseCell a b coll (k, rem) ch).1.hfVerts n0) ((k.hfVerts c0).map (substV a b)) ∧
      Rot ((collapseCell a b coll (k, rem) ch).1.hfVerts n1) ((k.hfVerts c1).map (substV a b)) ∧
      Rot ((collapseCell a b coll (k, rem) ch).1.hfVerts n2) ((k.hfVerts c2).map (substV a b)) ∧
      Rot ((collapseCell a b coll (k, rem) ch).1.hfVerts n3) ((k.hfVerts c3).map (substV a b)) := by
  obtain ⟨hlt, hlen, hvok, hnod⟩ := rdy
  have hrange := cellAt_range hb.ginv.wf.range hlt
  unfold collapseCell
  simp only [hn, Bool.false_eq_true, if_false, range4, List.foldl_cons, List.foldl_nil]
  match hc : k.cellAt ch, hlen with
  | [c0, c1, c2, c3], _ =>
    rw [hc] at hvok hnod hrange
    simp only [List.mem_cons, List.not_mem_nil, or_false, forall_eq_or_imp, forall_eq] at hvok hnod hrange
    obtain ⟨g0, g1, g2, g3⟩ := hrange
    obtain ⟨u0, u1, u2, u3⟩ := hvok
    obtain ⟨d0, d1, d2, d3⟩ := hnod
    have hr := hb.ginv.wf.range
    -- halfface 0
    obtain ⟨b1, x1, e1, m0, q1, o1, t1⟩ := collapseHf_spec hb a b [c0, c1, c2, c3] 0 [] (by simpa using g0)
      (by simpa using u0) (by simpa using d0)
    generalize collapseHf a b [c0, c1, c2, c3] (k, []) 0 = s1 at b1 x1 e1 q1 o1 t1
    obtain ⟨k1, a1⟩ := s1
    simp only [List.getD_cons_zero] at b1 x1 e1 q1 o1 t1
    subst q1
    -- halfface 1
    have V1 : k1.hfVerts c1 = k.hfVerts c1 := x1.hfVerts hr g1
    obtain ⟨b2, x2, e2, m1, q2, o2, t2⟩ := collapseHf_spec b1 a b [c0, c1, c2, c3] 1 ([] ++ [m0])
      (by simp; exact Nat.lt_of_lt_of_le g1 x1.nHF_le)
      (by simp only [List.getD_cons_succ, List.getD_cons_zero]; rw [V1]; exact fun v hv => x1.vOk (u1 v hv))
      (by simp only [List.getD_cons_succ, List.getD_cons_zero]; rw [V1]; exact d1)
    generalize collapseHf a b [c0, c1, c2, c3] (k1, [] ++ [m0]) 1 = s2 at b2 x2 e2 q2 o2 t2
    obtain ⟨k2, a2⟩ := s2
    simp only [List.getD_cons_succ, List.getD_cons_zero] at b2 x2 e2 q2 o2 t2
    subst q2
    have x12 := x1.trans x2
    -- halfface 2
    have V2 : k2.hfVerts c2 = k.hfVerts c2 := x12.hfVerts hr g2
    obtain ⟨b3, x3, e3, m2, q3, o3, t3⟩ := collapseHf_spec b2 a b [c0, c1, c2, c3] 2 ([] ++ [m0] ++ [m1])
      (by simp; exact Nat.lt_of_lt_of_le g2 x12.nHF_le)
      (by simp only [List.getD_cons_succ, List.getD_cons_zero]; rw [V2]; exact fun v hv => x12.vOk (u2 v hv))
      (by simp only [List.getD_cons_succ, List.getD_cons_zero]; rw [V2]; exact d2)
    generalize collapseHf a b [c0, c1, c2, c3] (k2, [] ++ [m0] ++ [m1]) 2 = s3 at b3 x3 e3 q3 o3 t3
    obtain ⟨k3, a3⟩ := s3
    simp only [List.getD_cons_succ, List.getD_cons_zero] at b3 x3 e3 q3 o3 t3
    subst q3
    have x13 := x12.trans x3
    -- halfface 3
    have V3 : k3.hfVerts c3 = k.hfVerts c3 := x13.hfVerts hr g3
    obtain ⟨b4, x4, e4, m3, q4, o4, t4⟩ := collapseHf_spec b3 a b [c0, c1, c2, c3] 3 ([] ++ [m0] ++ [m1] ++ [m2])
      (by simp; exact Nat.lt_of_lt_of_le g3 x13.nHF_le)
      (by simp only [List.getD_cons_succ, List.getD_cons_zero]; rw [V3]; exact fun v hv => x13.vOk (u3 v hv))
      (by simp only [List.getD_cons_succ, List.getD_cons_zero]; rw [V3]; exact d3)
    generalize collapseHf a b [c0, c1, c2, c3] (k3, [] ++ [m0] ++ [m1] ++ [m2]) 3 = s4 at b4 x4 e4 q4 o4 t4
    obtain ⟨k4, a4⟩ := s4
    simp only [List.getD_cons_succ, List.getD_cons_zero] at b4 x4 e4 q4 o4 t4
    subst q4
    have x14 := x13.trans x4
    simp only [List.nil_append, List.cons_append]
    -- delete the old cell
    have hd4 : k4.deferred = true := x14.deferred.trans hd
    obtain ⟨x5, e5, ed5, fa5⟩ := ext_deleteCell_deferred hd4 ch
    have hlt4 : ch < k4.nC := by unfold nC at *; rw [x14.cells]; exact hlt
    have g5 := ginv_deleteCell hlt4 b4.ginv
    have b5 : BInv (k4.deleteCell ch) := b4.ext x5 g5 (faceLoops_of_eq ed5 fa5 b4.loops)
    have hv5 : ∀ x, (k4.deleteCell ch).hfVerts x = k4.hfVerts x := fun x => hfVerts_of_eq ed5 fa5 x
    refine ⟨b5, x14.trans x5, by rw [e5, e4, e3, e2, e1], c0, c1, c2, c3, m0, m1, m2, m3, rfl, rfl, ?_, ?_, ?_, ?_, ?_⟩
    · intro n hn
      simp only [List.mem_cons, List.not_mem_nil, or_false] at hn
      rcases hn with rfl | rfl | rfl | rfl
      · exact x5.hfOk (x4.hfOk (x3.hfOk (x2.hfOk o1)))
      · exact x5.hfOk (x4.hfOk (x3.hfOk o2))
      · exact x5.hfOk (x4.hfOk o3)
      · exact x5.hfOk o4
    · rw [hv5, (x2.trans (x3.trans x4)).hfVerts b1.ginv.wf.range o1.1]; exact t1
    · rw [hv5, (x3.trans x4).hfVerts b2.ginv.wf.range o2.1, ← V1]; exact t2
    · rw [hv5, x4.hfVerts b3.ginv.wf.range o3.1, ← V2]; exact t3
    · rw [hv5, ← V3]; exact t4

/-! ### the loop over the star -/

theorem CellReady.ext {k0 k : Kernel} {a b ch : Nat} (e : Ext k0 k) (hr : RangeInv k0) (h : CellReady k0 a b ch) :
    CellReady k a b ch := by
  have hc := e.cellAt ch
  have hv : ∀ hf ∈ k0.cellAt ch, k.hfVerts hf = k0.hfVerts hf :=
    fun hf hm => e.hfVerts hr (cellAt_range hr h.lt hf hm)
  refine ⟨by unfold nC; rw [e.cells]; exact h.lt, by rw [hc]; exact h.len, ?_, ?_⟩
  · intro hf hm v hvm
    rw [hc] at hm; rw [hv hf hm] at hvm
    exact e.vOk (h.vok hf hm v hvm)
  · intro hf hm
    rw [hc] at hm; rw [hv hf hm]
    exact h.nodup hf hm

/-- `(ch, nhfs)` is a remembered cell: the four new halffaces are live in `k` and carry, one for one, the renamed
    vertex cycles (up to rotation) of the halffaces the cell `ch` had in `k0` -/
def RemOK (k0 k : Kernel) (a b : Nat) (n : Nat × List Nat) : Prop :=
  ∃ c0 c1 c2 c3 n0 n1 n2 n3, k0.cellAt n.1 = [c0, c1, c2, c3] ∧ n.2 = [n0, n1, n2, n3] ∧ (∀ x ∈ n.2, HfOk k x) ∧
    Rot (k.hfVerts n0) ((k0.hfVerts c0).map (substV a b)) ∧ Rot (k.hfVerts n1) ((k0.hfVerts c1).map (substV a b)) ∧
    Rot (k.hfVerts n2) ((k0.hfVerts c2).map (substV a b)) ∧ Rot (k.hfVerts n3) ((k0.hfVerts c3).map (substV a b))

theorem RemOK.ext {k0 k k' : Kernel} {a b : Nat} {n : Nat × List Nat} (e : Ext k k') (hr : RangeInv k)
    (h : RemOK k0 k a b n) : RemOK k0 k' a b n := by
  obtain ⟨c0, c1, c2, c3, n0, n1, n2, n3, h1, h2, h3, r0, r1, r2, r3⟩ := h
  have hv : ∀ x ∈ n.2, k'.hfVerts x = k.hfVerts x := fun x hx => e.hfVerts hr (h3 x hx).1
  refine ⟨c0, c1, c2, c3, n0, n1, n2, n3, h1, h2, fun x hx => e.hfOk (h3 x hx), ?_, ?_, ?_, ?_⟩
  · rw [hv n0 (by rw [h2]; simp)]; exact r0
  · rw [hv n1 (by rw [h2]; simp)]; exact r1
  · rw [hv n2 (by rw [h2]; simp)]; exact r2
  · rw [hv n3 (by rw [h2]; simp)]; exact r3

theorem filter_notContains_cons_true {coll : List Nat} {ch : Nat} (t : List Nat) (h : coll.contains ch = true) :
    (ch :: t).filter (fun c => !coll.contains c) = t.filter (fun c => !coll.contains c) := by
  rw [List.filter_cons]; simp only [h, Bool.not_true, Bool.false_eq_true, if_false]
theorem filter_notContains_cons_false {coll : List Nat} {ch : Nat} (t : List Nat) (h : coll.contains ch = false) :
    (ch :: t).filter (fun c => !coll.contains c) = ch :: t.filter (fun c => !coll.contains c) := by
  rw [List.filter_cons]; simp only [h, Bool.not_false, if_true]

/-- **the loop over the cells incident to `a`** (cc:333-373), from any intermediate state `k` that extends the
    initial state `k0`: every cell of the list that is not around the collapsing edge is remembered with four
    new halffaces carrying its renamed vertex cycles and is flagged deleted; nothing else changes in the old part -/
theorem collapseFold_spec (a b : Nat) (coll : List Nat) (k0 : Kernel) (hr0 : RangeInv k0) :
    ∀ (L : List Nat) (k : Kernel) (rem : List (Nat × List Nat)), BInv k → k.deferred = true → Ext k0 k →
      (∀ ch ∈ L, coll.contains ch = false → CellReady k0 a b ch) →
      BInv (L.foldl (collapseCell a b coll) (k, rem)).1 ∧ Ext k (L.foldl (collapseCell a b coll) (k, rem)).1 ∧
      (L.foldl (collapseCell a b coll) (k, rem)).1.cDel =
        (L.filter (fun ch => !coll.contains ch)).foldl (fun l h => l.set h true) k.cDel ∧
      ∃ new, (L.foldl (collapseCell a b coll) (k, rem)).2 = rem ++ new ∧
        new.map (·.1) = L.filter (fun ch => !coll.contains ch) ∧
        ∀ n ∈ new, RemOK k0 (L.foldl (collapseCell a b coll) (k, rem)).1 a b n := by
  intro L
  induction L with
  | nil =>
    intro k rem hb _ _ _
    exact ⟨hb, Ext.refl k, rfl, [], by simp, rfl, fun n hn => by cases hn⟩
  | cons ch t ih =>
    intro k rem hb hd e0 hrdy
    simp only [List.foldl_cons]
    cases hc : coll.contains ch with
    | true =>
      have e : collapseCell a b coll (k, rem) ch = (k, rem) := by unfold collapseCell; simp only [hc, if_true]
      rw [e]
      obtain ⟨i1, i2, i3, new, i4, i5, i6⟩ := ih k rem hb hd e0 (fun c hm hn => hrdy c (List.mem_cons_of_mem _ hm) hn)
      refine ⟨i1, i2, ?_, new, i4, ?_, i6⟩
      · rw [i3, filter_notContains_cons_true t hc]
      · rw [i5, filter_notContains_cons_true t hc]
    | false =>
      have rdy : CellReady k a b ch := (hrdy ch (by simp) hc).ext e0 hr0
      obtain ⟨b1, x1, d1, c0, c1, c2, c3, n0, n1, n2, n3, q1, q2, q3, r0, r1, r2, r3⟩ :=
        collapseCell_spec hb hd a b coll rem hc rdy
      generalize collapseCell a b coll (k, rem) ch = s1 at b1 x1 d1 q2 q3 r0 r1 r2 r3
      obtain ⟨k1, rem1⟩ := s1
      simp only at b1 x1 d1 q2 q3 r0 r1 r2 r3
      subst q2
      have hd1 : k1.deferred = true := x1.deferred.trans hd
      obtain ⟨i1, i2, i3, new, i4, i5, i6⟩ := ih k1 (rem ++ [(ch, [n0, n1, n2, n3])]) b1 hd1 (e0.trans x1)
        (fun c hm hn => hrdy c (List.mem_cons_of_mem _ hm) hn)
      have hv0 : ∀ hf ∈ k0.cellAt ch, k.hfVerts hf = k0.hfVerts hf :=
        fun hf hm => e0.hfVerts hr0 (cellAt_range hr0 (hrdy ch (by simp) hc).lt hf hm)
      have hce : k0.cellAt ch = [c0, c1, c2, c3] := by rw [← e0.cellAt ch]; exact q1
      have this1 : RemOK k0 k1 a b (ch, [n0, n1, n2, n3]) := by
        refine ⟨c0, c1, c2, c3, n0, n1, n2, n3, hce, rfl, q3, ?_, ?_, ?_, ?_⟩
        · rw [← hv0 c0 (by rw [hce]; simp)]; exact r0
        · rw [← hv0 c1 (by rw [hce]; simp)]; exact r1
        · rw [← hv0 c2 (by rw [hce]; simp)]; exact r2
        · rw [← hv0 c3 (by rw [hce]; simp)]; exact r3
      refine ⟨i1, x1.trans i2, ?_, (ch, [n0, n1, n2, n3]) :: new, ?_, ?_, ?_⟩
      · rw [i3, d1, filter_notContains_cons_false t hc]; rfl
      · rw [i4]; simp
      · simp only [List.map_cons]; rw [i5, filter_notContains_cons_false t hc]
      · intro n hn
        rcases List.mem_cons.mp hn with rfl | hn
        · exact this1.ext i2 b1.ginv.wf.range
        · exact i6 n hn

end Kernel
end OVM

import OVM.Tet.TetConstruct
/-
  C15(a): `add_cell(const std::vector<VertexHandle>&, bool)` of the tetrahedral kernel
  (`tetAddCellV`, Mesh/TetrahedralMeshTopologyKernel.cc:572-690) builds a tetrahedron — the sibling of
  `tetAddCell4_isTet` / `tetAddCell4_allTet` / `tetAddCell4_binv` (OVM/Tet/TetCells.lean, TetConstruct.lean) for the
  vertex-list path.
  * `findOrAddFaceV_spec`: the find-or-create of one triangle (cc:592-600: `find_halfface(vs)`, else the BASE-class
    `add_face(vertices)`, TopologyKernel.cc:235-267, and side 0 of the new face) returns a live halfface whose vertex
    cycle is the requested one up to rotation, keeps `BInv` and only extends the state (`Ext`).
    The created branch needs which halfedge the edge loop of `add_face(vertices)` picks on the edge `add_edge` returns
    (`addEdge_pick_spec`: found through the vertex cache, possibly stored the other way round, or new).
  * `tetAddCellV_isTet`: on four different live vertices the cell that comes back is the next index, `IsTet` on
    exactly these vertices, first halfface `(v0,v1,v2)` up to rotation.
  * `tetAddCellV_allTet`, `tetAddCellV_binv`, `tetAddCellV_cinv`: the invariant of construction histories
    (`CInv = BInv ∧ AllTet`) is kept, accepted or refused, for a vertex list of any length.
  Hypotheses: `BInv` (global invariant, vertex/edge caches, stored faces closed triangles), the vertices live and
  pairwise different (needed: see the last `example`), for `GInv` of an accepted cell K5's precondition `CellVFree`.
-/
namespace OVM
namespace Kernel
open Global

/-! ### `add_edge` as used by `add_face(vertices)`: which halfedge the loop picks -/

theorem faceV_addEdge_cDel (k : Kernel) (a b : Nat) (d : Bool) : (k.addEdge a b d).1.cDel = k.cDel := by
  unfold addEdge; split <;> simp

/-- the side `add_face(vertices)` picks (cc:256-258) on an edge stored as `(a,b)` or as `(b,a)` -/
theorem halfedge_pick (k : Kernel) (e a b : Nat) (hab : a ≠ b) (h : k.edgeAt e = (a, b) ∨ k.edgeAt e = (b, a)) :
    k.halfedge (heOf e (if (k.edgeAt e).2 == a then 1 else 0)) = (a, b) := by
  rcases h with h | h
  · have hne : ((k.edgeAt e).2 == a) = false := by rw [h]; simpa using Ne.symm hab
    rw [hne]
    simp only [Bool.false_eq_true, if_false]
    unfold halfedge
    have h1 : eOf (heOf e 0) = e := by unfold eOf heOf; omega
    have h2 : side (heOf e 0) = 0 := by unfold side heOf; omega
    simp only [h1, h2, if_true, h]
  · have hne : ((k.edgeAt e).2 == a) = true := by rw [h]; simp
    rw [hne]
    simp only [if_true]
    unfold halfedge
    have h1 : eOf (heOf e 1) = e := by unfold eOf heOf; omega
    have h2 : side (heOf e 1) = 1 := by unfold side heOf; omega
    simp only [h1, h2, h]
    simp

/-- a duplicate found by `add_edge` through the vertex cache joins the two requested vertices -/
theorem findEdge_some_ends {k : Kernel} (hi : GInv k) (hb : k.vBU = true) {a b e : Nat} (ha : a < k.nV)
    (h : k.findEdge a b false = some e) : k.edgeAt e = (a, b) ∨ k.edgeAt e = (b, a) := by
  unfold findEdge at h
  simp only [Bool.false_eq_true, if_false, hb, if_true] at h
  obtain ⟨x, hm, ht, rfl⟩ := findEdgeBU_some h
  have hs := ((hi.wf.cache.v hb).2 a ha).mem_iff.mp hm
  have hf : k.fromV x = a := (mem_sOut hs).1
  unfold fromV at hf; unfold toV at ht
  unfold halfedge at hf ht
  simp only at hf ht
  by_cases hs : side x = 0
  · simp only [hs, if_true] at hf ht
    left; exact Prod.ext hf ht
  · simp only [hs, if_false] at hf ht
    right; exact Prod.ext ht hf

/-- **one round of the edge loop of `add_face(vertices)`**: `add_edge(a, b)` (no duplicates) and the side
    selection give a live halfedge from `a` to `b` -/
theorem addEdge_pick_spec {k : Kernel} (hi : GInv k) (hb : k.vBU = true) {a b : Nat} (ha : VOk k a) (hbb : VOk k b)
    (hab : a ≠ b) :
    GInv (k.addEdge a b false).1 ∧ Ext k (k.addEdge a b false).1 ∧ (k.addEdge a b false).1.cDel = k.cDel ∧
    HeOk (k.addEdge a b false).1
      (heOf (k.addEdge a b false).2 (if ((k.addEdge a b false).1.edgeAt (k.addEdge a b false).2).2 == a then 1 else 0)) ∧
    (k.addEdge a b false).1.halfedge
      (heOf (k.addEdge a b false).2 (if ((k.addEdge a b false).1.edgeAt (k.addEdge a b false).2).2 == a then 1 else 0))
      = (a, b) := by
  refine ⟨ginv_addEdge false ha hbb hi, ext_addEdge k a b false, faceV_addEdge_cDel k a b false, ?_, ?_⟩
  · split
    · exact addEdge_result_heOk false hi ha 1 (Nat.le_refl _)
    · exact addEdge_result_heOk false hi ha 0 (Nat.zero_le _)
  · apply halfedge_pick _ _ _ _ hab
    unfold addEdge
    split
    · rename_i e he
      exact findEdge_some_ends hi hb ha.1 he
    · left
      show (k.addEdgeCore a b).edgeAt k.nE = (a, b)
      unfold edgeAt; rw [addEdgeCore_edges]; simp [nE]

/-- the halfedge the loop of `add_face(vertices)` appends for the pair `(a, b)` -/
def faceVPick (k : Kernel) (a b : Nat) : Nat :=
  heOf (k.addEdge a b false).2 (if ((k.addEdge a b false).1.edgeAt (k.addEdge a b false).2).2 == a then 1 else 0)

/-- `add_face([a,b,c])` unrolled: three rounds of the edge loop, then the unchecked `add_face` -/
theorem addFaceV3_eq (k : Kernel) (a b c : Nat) :
    k.addFaceV [a, b, c] =
      let k1 := (k.addEdge a b false).1
      let k2 := (k1.addEdge b c false).1
      let k3 := (k2.addEdge c a false).1
      (k3.addFaceCore [k.faceVPick a b, k1.faceVPick b c, k2.faceVPick c a], some k3.nF) := by
  unfold addFaceV addFace addFaceAccepts faceVPick
  simp

theorem faceV_addEdge_binv {k : Kernel} (h : BInv k) {a b : Nat} (ha : VOk k a) (hb : VOk k b) :
    BInv (k.addEdge a b false).1 := by
  have e := ext_addEdge k a b false
  refine h.ext e (ginv_addEdge false ha hb h.ginv) ?_
  intro f hf
  rw [addEdge_faces] at hf
  exact e.faceLoops_old h.ginv.wf.range h.loops f hf

theorem faceVPick_spec {k : Kernel} (h : BInv k) {a b : Nat} (ha : VOk k a) (hb : VOk k b) (hab : a ≠ b) :
    BInv (k.addEdge a b false).1 ∧ Ext k (k.addEdge a b false).1 ∧ (k.addEdge a b false).1.cDel = k.cDel ∧
    HeOk (k.addEdge a b false).1 (k.faceVPick a b) ∧ (k.addEdge a b false).1.fromV (k.faceVPick a b) = a ∧
    (k.addEdge a b false).1.toV (k.faceVPick a b) = b := by
  obtain ⟨_, e, c, o, hh⟩ := addEdge_pick_spec h.ginv h.vBU ha hb hab
  refine ⟨faceV_addEdge_binv h ha hb, e, c, o, ?_, ?_⟩
  · unfold fromV faceVPick; rw [hh]
  · unfold toV faceVPick; rw [hh]

/-- **`add_face([a, b, c])`** (base class, cc:235-267) for three different live vertices: a new face comes back whose
    side 0 is live and has the vertex cycle `(a, b, c)` exactly; the old definitions are untouched -/
theorem addFaceV3_spec {k : Kernel} (h : BInv k) {a b c : Nat} (ha : VOk k a) (hb : VOk k b) (hc : VOk k c)
    (hab : a ≠ b) (hbc : b ≠ c) (hac : a ≠ c) :
    ∃ f, (k.addFaceV [a, b, c]).2 = some f ∧ BInv (k.addFaceV [a, b, c]).1 ∧ Ext k (k.addFaceV [a, b, c]).1 ∧
      (k.addFaceV [a, b, c]).1.cDel = k.cDel ∧ HfOk (k.addFaceV [a, b, c]).1 (heOf f 0) ∧
      (k.addFaceV [a, b, c]).1.hfVerts (heOf f 0) = [a, b, c] := by
  rw [addFaceV3_eq]
  simp only
  obtain ⟨b1, e1, c1, o1, f1, t1⟩ := faceVPick_spec h ha hb hab
  generalize k.faceVPick a b = h0 at o1 f1 t1 ⊢
  generalize (k.addEdge a b false).1 = k1 at b1 e1 c1 o1 f1 t1 ⊢
  obtain ⟨b2, e2, c2, o2, f2, t2⟩ := faceVPick_spec b1 (e1.vOk hb) (e1.vOk hc) hbc
  generalize k1.faceVPick b c = h1 at o2 f2 t2 ⊢
  generalize (k1.addEdge b c false).1 = k2 at b2 e2 c2 o2 f2 t2 ⊢
  have e12 := e1.trans e2
  obtain ⟨b3, e3, c3, o3, f3, t3⟩ := faceVPick_spec b2 (e12.vOk hc) (e12.vOk ha) (Ne.symm hac)
  generalize k2.faceVPick c a = h2 at o3 f3 t3 ⊢
  generalize (k2.addEdge c a false).1 = k3 at b3 e3 c3 o3 f3 t3 ⊢
  have e23 := e2.trans e3
  have O0 : HeOk k3 h0 := e23.heOk o1
  have O1 : HeOk k3 h1 := e3.heOk o2
  have F0 : k3.fromV h0 = a := by rw [e23.fromV o1.1]; exact f1
  have T0 : k3.toV h0 = b := by rw [e23.toV o1.1]; exact t1
  have F1 : k3.fromV h1 = b := by rw [e3.fromV o2.1]; exact f2
  have T1 : k3.toV h1 = c := by rw [e3.toV o2.1]; exact t2
  have hh : ∀ x ∈ [h0, h1, h2], HeOk k3 x := by
    intro x hm; simp only [List.mem_cons, List.not_mem_nil, or_false] at hm
    rcases hm with rfl | rfl | rfl <;> assumption
  have hg : GInv (k3.addFaceCore [h0, h1, h2]) := by
    have := ginv_addFace false hh b3.ginv
    unfold addFace addFaceAccepts at this; simpa using this
  have hx := ext_addFaceCore k3 [h0, h1, h2]
  have hloop : Loop3 k3 [h0, h1, h2] := by
    show _ ∧ _ ∧ _; rw [T0, F1, T1, f3, t3, F0]; exact ⟨rfl, rfl, rfl⟩
  refine ⟨k3.nF, rfl, b3.ext hx hg ?_, (e1.trans e23).trans hx, by simp [c3, c2, c1],
    addFaceCore_new_hfOk b3.ginv _, ?_⟩
  · exact faceLoops_addFaceCore b3.ginv.wf.range b3.loops (fun x hm => (hh x hm).1) hloop
  · unfold hfVerts; rw [hfHes_new]
    simp only [List.map_cons, List.map_nil, hx.fromV O0.1, hx.fromV O1.1, hx.fromV o3.1, F0, F1, f3]

/-- in a mesh of closed triangles, a halfface with a halfedge `a→b` and a halfedge `b→c` (`a`, `b`, `c` different)
    has the vertex cycle `(a, b, c)` up to rotation -/
theorem rot_of_two_halfedges {k : Kernel} {ys : List Nat} (hL : Loop3 k ys) {a b c : Nat} (hab : a ≠ b) (hac : a ≠ c)
    (s3 : ∃ x ∈ ys, k.fromV x = a ∧ k.toV x = b) (s4 : ∃ y ∈ ys, k.fromV y = b ∧ k.toV y = c) :
    Rot (ys.map k.fromV) [a, b, c] := by
  obtain ⟨x, hx, fx, tx⟩ := s3
  obtain ⟨y, hy, fy, ty⟩ := s4
  unfold Loop3 at hL
  split at hL
  · rename_i y0 y1 y2
    obtain ⟨m1, m2, m3⟩ := hL
    simp only [List.mem_cons, List.not_mem_nil, or_false] at hx hy
    simp only [List.map_cons, List.map_nil]
    rcases hx with rfl | rfl | rfl <;> rcases hy with rfl | rfl | rfl
    · exact absurd (fx.symm.trans fy) hab
    · left; rw [fx, fy, ← m2, ty]
    · exfalso; apply hac; rw [← fx, ← m3, ty]
    · exfalso; apply hac; rw [← fx, ← m1, ty]
    · exact absurd (fx.symm.trans fy) hab
    · right; right; simp [List.rotateLeft]; rw [fx, fy, ← m3, ty]; exact ⟨rfl, rfl, rfl⟩
    · right; left; simp [List.rotateLeft]; rw [fx, fy, ← m1, ty]; exact ⟨rfl, rfl, rfl⟩
    · exfalso; apply hac; rw [← fx, ← m2, ty]
    · exact absurd (fx.symm.trans fy) hab
  · exact absurd hL id

/-- **the find-or-create of one face of `add_cell(vertices)`** (cc:592-600) for three different live vertices: a live
    halfface with vertex cycle `(a, b, c)` up to rotation comes back — the stored one `find_halfface` returns, or
    side 0 of the face the base-class `add_face(vertices)` creates; the old definitions are untouched -/
theorem findOrAddFaceV_spec {k : Kernel} (h : BInv k) {a b c : Nat} (ha : VOk k a) (hb : VOk k b) (hc : VOk k c)
    (hab : a ≠ b) (hbc : b ≠ c) (hac : a ≠ c) :
    ∃ hf, (k.findOrAddFaceV [a, b, c]).2 = some hf ∧ BInv (k.findOrAddFaceV [a, b, c]).1 ∧
      Ext k (k.findOrAddFaceV [a, b, c]).1 ∧ (k.findOrAddFaceV [a, b, c]).1.cDel = k.cDel ∧
      HfOk (k.findOrAddFaceV [a, b, c]).1 hf ∧ Rot ((k.findOrAddFaceV [a, b, c]).1.hfVerts hf) [a, b, c] := by
  cases hfd : k.findHalffaceV [a, b, c] with
  | some hf =>
    have e : k.findOrAddFaceV [a, b, c] = (k, some hf) := by unfold findOrAddFaceV; rw [hfd]
    rw [e]
    have ok : HfOk k hf := findHalffaceV_ok h.ginv (by
      intro v hm; simp only [List.mem_cons, List.not_mem_nil, or_false] at hm
      rcases hm with rfl | rfl | rfl
      · exact ha.1
      · exact hb.1
      · exact hc.1) hfd
    obtain ⟨_, s3, s4⟩ := OVM.Props.C10.findHalffaceV_sound k h.ginv.wf.cache h.vBU h.eBU a b c [] hf ha.1 hb.1 hfd
    exact ⟨hf, rfl, h, Ext.refl k, rfl, ok, rot_of_two_halfedges (loop3_hfHes h.loops ok.1) hab hac s3 s4⟩
  | none =>
    obtain ⟨f, p1, p2, p3, p4, p5, p6⟩ := addFaceV3_spec h ha hb hc hab hbc hac
    have e : k.findOrAddFaceV [a, b, c] = ((k.addFaceV [a, b, c]).1, some (heOf f 0)) := by
      unfold findOrAddFaceV; rw [hfd]; simp only [p1, Option.map_some]
    rw [e]
    exact ⟨heOf f 0, rfl, p2, p3, p4, p5, by rw [p6]; exact rot_refl _⟩

/-! ### `add_cell(vertices)` -/

/-- what `add_cell(vertices, check)` does after the four find-or-create calls (cc:641-690): the two manifold tests
    of `check`, then the BASE-class `add_cell(halffaces, false)` -/
def cellVTail (k4 : Kernel) (hfs : List Nat) (chk : Bool) : Kernel × Option Nat :=
  if chk && !k4.tetCellCheckV hfs then (k4, none)
  else if chk && k4.fBU && hfs.any (fun hf => k4.cellOf hf != none) then (k4, none)
  else k4.addCell hfs false

/-- refused: the state after the find-or-create calls; accepted: the cell is appended to it -/
theorem cellVTail_cases (k4 : Kernel) (hfs : List Nat) (chk : Bool) :
    cellVTail k4 hfs chk = (k4, none) ∨ cellVTail k4 hfs chk = (k4.addCellCore hfs, some k4.nC) := by
  unfold cellVTail
  split
  · exact Or.inl rfl
  · split
    · exact Or.inl rfl
    · right; unfold addCell addCellAccepts; simp

/-- the state in which `add_cell(vertices)` runs its tests and calls the base `add_cell(halffaces)`, and the four
    halffaces: the same four triangles, in the same order, as `add_cell(v0,v1,v2,v3)` (`tetAddCell4_faces`) -/
theorem tetAddCellV_faces {k : Kernel} (h : BInv k) (hfb : k.fullBU = true) {v0 v1 v2 v3 : Nat} (o0 : VOk k v0)
    (o1 : VOk k v1) (o2 : VOk k v2) (o3 : VOk k v3) (hd : [v0, v1, v2, v3].Nodup) (chk : Bool) :
    ∃ k4 a b c d, k.tetAddCellV [v0, v1, v2, v3] chk = cellVTail k4 [a, b, c, d] chk ∧ BInv k4 ∧ Ext k k4 ∧
      k4.cDel = k.cDel ∧ HfOk k4 a ∧ HfOk k4 b ∧ HfOk k4 c ∧ HfOk k4 d ∧
      Rot (k4.hfVerts a) [v0, v1, v2] ∧ Rot (k4.hfVerts b) [v0, v2, v3] ∧ Rot (k4.hfVerts c) [v0, v3, v1] ∧
      Rot (k4.hfVerts d) [v1, v3, v2] := by
  simp only [List.nodup_cons, List.mem_cons, List.not_mem_nil, or_false, not_or, List.nodup_nil, and_true] at hd
  obtain ⟨⟨h01, h02, h03⟩, ⟨h12, h13⟩, h23, _⟩ := hd
  obtain ⟨a, pa, ba, ea, ca, oa, ra⟩ := findOrAddFaceV_spec h o0 o1 o2 h01 h12 h02
  have e0 : Ext k (k.findOrAddFaceV [v0, v1, v2]).1 := ea
  generalize hr0 : k.findOrAddFaceV [v0, v1, v2] = r0 at pa ba ea ca oa ra e0
  obtain ⟨b, pb, bb, eb, cb, ob, rb⟩ := findOrAddFaceV_spec ba (e0.vOk o0) (e0.vOk o2) (e0.vOk o3) h02 h23 h03
  have e1 := e0.trans eb
  generalize hr1 : r0.1.findOrAddFaceV [v0, v2, v3] = r1 at pb bb eb cb ob rb e1
  obtain ⟨c, pc, bc, ec, cc, oc, rc⟩ := findOrAddFaceV_spec bb (e1.vOk o0) (e1.vOk o3) (e1.vOk o1) h03 (Ne.symm h13) h01
  have e2 := e1.trans ec
  generalize hr2 : r1.1.findOrAddFaceV [v0, v3, v1] = r2 at pc bc ec cc oc rc e2
  obtain ⟨d, pd, bd, ed, cd, od, rd⟩ := findOrAddFaceV_spec bc (e2.vOk o1) (e2.vOk o3) (e2.vOk o2) h13 (Ne.symm h23) h12
  have e3 := e2.trans ed
  generalize hr3 : r2.1.findOrAddFaceV [v1, v3, v2] = r3 at pd bd ed cd od rd e3
  refine ⟨r3.1, a, b, c, d, ?_, bd, e3, by rw [cd, cc, cb, ca], (ec.trans ed).hfOk (eb.hfOk oa), (ec.trans ed).hfOk ob,
    ed.hfOk oc, od, ?_, ?_, ?_, rd⟩
  · unfold tetAddCellV cellVTail
    simp only [List.length_cons, List.length_nil, bne_self_eq_false, Bool.false_eq_true, if_false, hfb, Bool.not_true,
      List.getD_cons_zero, List.getD_cons_succ, hr0, hr1, hr2, hr3, pa, pb, pc, pd]
  · rw [(eb.trans (ec.trans ed)).hfVerts ba.ginv.wf.range oa.1]; exact ra
  · rw [(ec.trans ed).hfVerts bb.ginv.wf.range ob.1]; exact rb
  · rw [ed.hfVerts bc.ginv.wf.range oc.1]; exact rc

theorem cellV_mem4_lt {k4 : Kernel} {a b c d : Nat} (oa : HfOk k4 a) (ob : HfOk k4 b) (oc : HfOk k4 c) (od : HfOk k4 d) :
    ∀ hf ∈ [a, b, c, d], hf < k4.nHF := by
  intro hf hm; simp only [List.mem_cons, List.not_mem_nil, or_false] at hm
  rcases hm with rfl | rfl | rfl | rfl
  · exact oa.1
  · exact ob.1
  · exact oc.1
  · exact od.1

/-- the appended cell on the four triangles of `(v0,v1,v2;v3)` is a tetrahedron -/
theorem addCellCore_isTet_of_rot {k4 : Kernel} {a b c d v0 v1 v2 v3 : Nat} (hd : [v0, v1, v2, v3].Nodup)
    (ra : Rot (k4.hfVerts a) [v0, v1, v2]) (rb : Rot (k4.hfVerts b) [v0, v2, v3]) (rc : Rot (k4.hfVerts c) [v0, v3, v1])
    (rd : Rot (k4.hfVerts d) [v1, v3, v2]) :
    IsTet (k4.addCellCore [a, b, c, d]) k4.nC ∧
    (∀ x, x ∈ (k4.addCellCore [a, b, c, d]).cellVertSet k4.nC ↔ x ∈ [v0, v1, v2, v3]) ∧
    Rot ((k4.addCellCore [a, b, c, d]).hfVerts (((k4.addCellCore [a, b, c, d]).cellAt k4.nC).headD 0)) [v0, v1, v2] := by
  have hT4 := tetOn_of_cell4 hd ra rb rc rd
  have hv : ∀ x, (k4.addCellCore [a, b, c, d]).hfVerts x = k4.hfVerts x :=
    fun x => hfVerts_of_eq (by simp) (by simp) x
  have hT : TetOn (k4.addCellCore [a, b, c, d]) [a, b, c, d] v0 v1 v2 v3 := hT4.congr (fun x _ => hv x)
  have hca := cellAt_new k4 [a, b, c, d]
  have hr : Rot ((k4.addCellCore [a, b, c, d]).hfVerts (((k4.addCellCore [a, b, c, d]).cellAt k4.nC).headD 0))
      [v0, v1, v2] := by
    rw [hca]; show Rot ((k4.addCellCore [a, b, c, d]).hfVerts a) _; rw [hv]; exact ra
  refine ⟨?_, ?_, hr⟩
  · exact isTet_of_tetOn_rot (p := v0) (q := v1) (r := v2) (s := v3) hr (by rw [hca]; exact hT)
  · exact cellVertSet_mem_iff (by rw [hca]; exact hT)

/-- **`add_cell([v0,v1,v2,v3], check)` builds a tetrahedron**: on four different live vertices, in a mesh of closed
    triangles with the vertex and edge caches, the cell that comes back (if any: without all three bottom-up
    incidences the call is refused at once, with `check` the manifold tests may refuse) is the next cell index, is `IsTet` on exactly the four given vertices, and its first halfface runs
    `(v0,v1,v2)` up to rotation -/
theorem tetAddCellV_isTet {k : Kernel} (h : BInv k) {v0 v1 v2 v3 : Nat} (o0 : VOk k v0)
    (o1 : VOk k v1) (o2 : VOk k v2) (o3 : VOk k v3) (hd : [v0, v1, v2, v3].Nodup) (chk : Bool) {c : Nat}
    (hc : (k.tetAddCellV [v0, v1, v2, v3] chk).2 = some c) :
    c = k.nC ∧ IsTet (k.tetAddCellV [v0, v1, v2, v3] chk).1 c ∧
    (∀ x, x ∈ (k.tetAddCellV [v0, v1, v2, v3] chk).1.cellVertSet c ↔ x ∈ [v0, v1, v2, v3]) ∧
    Rot ((k.tetAddCellV [v0, v1, v2, v3] chk).1.hfVerts (((k.tetAddCellV [v0, v1, v2, v3] chk).1.cellAt c).headD 0))
      [v0, v1, v2] := by
  have hfb : k.fullBU = true := by
    cases hb : k.fullBU
    · have e : k.tetAddCellV [v0, v1, v2, v3] chk = (k, none) := by unfold tetAddCellV; simp [hb]
      rw [e] at hc; cases hc
    · rfl
  obtain ⟨k4, a, b, c', d, e, b4, x4, _, oa, ob, oc, od, ra, rb, rc, rd⟩ := tetAddCellV_faces h hfb o0 o1 o2 o3 hd chk
  rw [e] at hc ⊢
  have hn : k4.nC = k.nC := by unfold nC; rw [x4.cells]
  rcases cellVTail_cases k4 [a, b, c', d] chk with e' | e'
  · rw [e'] at hc; cases hc
  · rw [e'] at hc ⊢
    simp only [Option.some.injEq] at hc
    subst hc
    obtain ⟨t1, t2, t3⟩ := addCellCore_isTet_of_rot hd ra rb rc rd
    exact ⟨hn, t1, t2, t3⟩

/-- … and every stored cell that was a tetrahedron stays one, whether the new cell is accepted or refused, and
    whatever the length of the vertex list (a list of length ≠ 4 is refused at once) -/
theorem tetAddCellV_allTet {k : Kernel} (h : BInv k) (ht : AllTet k) {vs : List Nat} (hv : ∀ v ∈ vs, VOk k v)
    (hd : vs.Nodup) (chk : Bool) : AllTet (k.tetAddCellV vs chk).1 := by
  by_cases hl : vs.length = 4
  · by_cases hfb : k.fullBU = true
    · match vs, hl with
      | [v0, v1, v2, v3], _ =>
        obtain ⟨k4, a, b, c', d, e, b4, x4, _, oa, ob, oc, od, ra, rb, rc, rd⟩ :=
          tetAddCellV_faces h hfb (hv v0 (by simp)) (hv v1 (by simp)) (hv v2 (by simp)) (hv v3 (by simp)) hd chk
        rw [e]
        have h4 : AllTet k4 := x4.allTet h.ginv.wf.range ht
        rcases cellVTail_cases k4 [a, b, c', d] chk with e' | e'
        · rw [e']; exact h4
        · rw [e']
          exact addCellCore_allTet _ h4 (addCellCore_isTet_of_rot hd ra rb rc rd).1
    · have e : k.tetAddCellV vs chk = (k, none) := by
        unfold tetAddCellV; simp [hl, hfb]
      rw [e]; exact ht
  · have e : k.tetAddCellV vs chk = (k, none) := by
      unfold tetAddCellV; simp [hl]
    rw [e]; exact ht

/-- `add_cell(vertices)` keeps the invariant bundle of the construction theorems -/
theorem tetAddCellV_binv {k : Kernel} (h : BInv k) {vs : List Nat} (hv : ∀ v ∈ vs, VOk k v) (hd : vs.Nodup)
    (chk : Bool) (hf : CellVFree k vs chk) : BInv (k.tetAddCellV vs chk).1 := by
  have hg := tetAddCellV_ginv h.ginv hv hf
  by_cases hl : vs.length = 4
  · by_cases hfb : k.fullBU = true
    · match vs, hl with
      | [v0, v1, v2, v3], _ =>
        obtain ⟨k4, a, b, c', d, e, b4, x4, _, oa, ob, oc, od, ra, rb, rc, rd⟩ :=
          tetAddCellV_faces h hfb (hv v0 (by simp)) (hv v1 (by simp)) (hv v2 (by simp)) (hv v3 (by simp)) hd chk
        rw [e] at hg ⊢
        rcases cellVTail_cases k4 [a, b, c', d] chk with e' | e'
        · rw [e']; exact b4
        · rw [e'] at hg ⊢
          obtain ⟨m1, m2⟩ := addCellCore_modes k4 [a, b, c', d]
          exact ⟨hg, m1.trans b4.vBU, m2.trans b4.eBU, faceLoops_of_eq (by simp) (by simp) b4.loops⟩
    · have e : k.tetAddCellV vs chk = (k, none) := by
        unfold tetAddCellV; simp [hl, hfb]
      rw [e]; exact h
  · have e : k.tetAddCellV vs chk = (k, none) := by
      unfold tetAddCellV; simp [hl]
    rw [e]; exact h

/-- **`add_cell(vertices, check)` keeps the invariant of construction histories** (`CInv = BInv ∧ AllTet`,
    OVM/Tet/TetConstruct.lean), accepted or refused -/
theorem tetAddCellV_cinv {k : Kernel} (h : CInv k) {vs : List Nat} (hv : ∀ v ∈ vs, VOk k v) (hd : vs.Nodup)
    (chk : Bool) (hf : CellVFree k vs chk) : CInv (k.tetAddCellV vs chk).1 :=
  ⟨tetAddCellV_binv h.binv hv hd chk hf, tetAddCellV_allTet h.binv h.allTet hv hd chk⟩

/-! ### non-vacuity

  Two tetrahedra glued on the face `(0,1,2)`, both through `add_cell(vertices, true)`; the hypotheses of the theorems
  are evaluated by `decide` (a complete evaluation of these concrete instances), `IsTet` / `CInv` of the results then
  FOLLOW from the theorems.  The `decide` evaluations of `IsTet` / `AllTet` on the same states are TESTS of the
  theorems' conclusions. -/

local instance instDecidableVOkCellV (k : Kernel) (v : Nat) : Decidable (VOk k v) := by unfold VOk; infer_instance

def cvK0 : Kernel := ({} : Kernel).addNVertices 5
def cvK1 : Kernel := (cvK0.tetAddCellV [0, 1, 2, 3] true).1
def cvK2 : Kernel := (cvK1.tetAddCellV [0, 2, 1, 4] true).1
def cvK3 : Kernel := (cvK2.tetAddCellV [0, 1, 2, 4] true).1

theorem cvK0_cinv : CInv cvK0 :=
  ⟨binv_of_sameTopo cinv_empty.binv (ginv_addNVertices 5 cinv_empty.binv.ginv) rfl rfl rfl rfl,
   allTet_of_sameTopo cinv_empty.allTet rfl rfl rfl⟩

-- first cell: all four faces are created (`add_face(vertices)` branch)
theorem cvK0_hyps : cvK0.fullBU = true ∧ (∀ v ∈ [0, 1, 2, 3], VOk cvK0 v) ∧ CellVFree cvK0 [0, 1, 2, 3] true ∧
    cvK0.findHalffaceV [0, 1, 2] = none ∧ (cvK0.tetAddCellV [0, 1, 2, 3] true).2 = some 0 := by decide +kernel
theorem cvK1_cinv : CInv cvK1 :=
  tetAddCellV_cinv cvK0_cinv cvK0_hyps.2.1 (by decide) true cvK0_hyps.2.2.1
example : IsTet cvK1 0 ∧ (∀ x, x ∈ cvK1.cellVertSet 0 ↔ x ∈ [0, 1, 2, 3]) :=
  have h := tetAddCellV_isTet cvK0_cinv.binv (cvK0_hyps.2.1 0 (by simp)) (cvK0_hyps.2.1 1 (by simp))
    (cvK0_hyps.2.1 2 (by simp)) (cvK0_hyps.2.1 3 (by simp)) (by decide) true cvK0_hyps.2.2.2.2
  ⟨h.2.1, h.2.2.1⟩

-- second cell, glued on the shared face: `(0,2,1)` is FOUND (halfface 1, the other side of face 0), three faces created
theorem cvK1_hyps : cvK1.fullBU = true ∧ (∀ v ∈ [0, 2, 1, 4], VOk cvK1 v) ∧ CellVFree cvK1 [0, 2, 1, 4] true ∧
    cvK1.findHalffaceV [0, 2, 1] = some 1 ∧ (cvK1.tetAddCellV [0, 2, 1, 4] true).2 = some 1 := by decide +kernel
theorem cvK2_cinv : CInv cvK2 :=
  tetAddCellV_cinv cvK1_cinv cvK1_hyps.2.1 (by decide) true cvK1_hyps.2.2.1
example : IsTet cvK2 1 ∧ (∀ x, x ∈ cvK2.cellVertSet 1 ↔ x ∈ [0, 2, 1, 4]) :=
  have h := tetAddCellV_isTet cvK1_cinv.binv (cvK1_hyps.2.1 0 (by simp)) (cvK1_hyps.2.1 2 (by simp))
    (cvK1_hyps.2.1 1 (by simp)) (cvK1_hyps.2.1 4 (by simp)) (by decide) true cvK1_hyps.2.2.2.2
  ⟨h.2.1, h.2.2.1⟩
-- test (cross-check of the conclusions by evaluation)
example : cvK2.cells = [[0, 2, 4, 6], [1, 8, 10, 12]] ∧ IsTet cvK2 0 ∧ IsTet cvK2 1 ∧ FaceLoops cvK2 := by decide +kernel

-- a REFUSED call: `[0,1,2,4]` with `check` — all four halffaces are found, `(0,1,2)` = halfface 0 is taken by cell 0
-- (the occupied-halfface test, cc:667-680); the cells are left alone and the invariant is kept
theorem cvK2_hyps : (∀ v ∈ [0, 1, 2, 4], VOk cvK2 v) ∧ CellVFree cvK2 [0, 1, 2, 4] true ∧
    (cvK2.tetAddCellV [0, 1, 2, 4] true).2 = none ∧ cvK3.cells = cvK2.cells := by decide +kernel
example : CInv cvK3 := tetAddCellV_cinv cvK2_cinv cvK2_hyps.1 (by decide) true cvK2_hyps.2.1
example : AllTet cvK3 := by decide +kernel   -- test
-- without `check` the same call is accepted on the taken halfface: `CellVFree` (K5's precondition of `add_cell`) fails
example : (cvK2.tetAddCellV [0, 1, 2, 4] false).2 = some 2 ∧ ¬ CellVFree cvK2 [0, 1, 2, 4] false := by decide +kernel

/-- why the theorems ask for four DIFFERENT vertices: `add_cell([0,0,1,2], false)` is accepted (and `CellVFree` holds)
    but the stored cell is no tetrahedron — the C++ does not test the vertices for repetitions (cc:572-690) -/
example : (cvK0.tetAddCellV [0, 0, 1, 2] false).2 = some 0 ∧ CellVFree cvK0 [0, 0, 1, 2] false ∧
    ¬ IsTet (cvK0.tetAddCellV [0, 0, 1, 2] false).1 0 := by decide +kernel

end Kernel
end OVM

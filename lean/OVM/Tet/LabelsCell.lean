import OVM.Tet.Topology
import OVM.Tet.TetLemmas
import OVM.Tet.ShapeTet
import OVM.Tet.LabelLemmas
import OVM.Refine.CellCheck
/-
  C15(c) "LabelsConsistent": the constructor walk of `TetTopology` (model OVM/Tet/Topology.lean, `Tet.mk`;
  C++ Unstable/Topology/TetTopology.cc:19-78) labels a tetrahedral cell consistently with the generated
  label tables (OVM/Gen/TetLabels.lean).

  `IsTet` alone is NOT enough (Task A, section "witnesses" at the end): `IsTet` only speaks about the
  vertex cycles (`hfVerts` = start vertices of the halfedges) of the four halffaces.  Needed in addition,
  and together sufficient (`TetHyps`):
    * every halfface of the cell is a closed loop of halfedges (`LoopHF`; what `add_face` with topology
      check verifies and what `add_face(vertices)` constructs), and
    * with every halfedge of the cell its opposite is a halfedge of the cell (`OppClosedCell`, the second half
      of `ClosedSurface`, i.e. of what `add_cell` with topology check verifies; the first half, the halfedges
      being pairwise distinct, follows for an `IsTet` cell with loops).
  Each of the two is necessary: see `labelsConsistent_needs_closed`, `labelsConsistent_needs_loops`.

  Under `TetHyps` the result of the constructor is computed explicitly (`mk_eval`:
  vh = [A,B,C,D], heh = [ab,bc,ca,cd,ad,bd], hfh = [X2,X3,X1,abc] for the anatomy `Anat` below) and the
  conclusions 1-5 (`mk_no_fault`, `mk_vertices`, `mk_halfedges`, `mk_halffaces`, `mk_getLabel`; summary
  `labels_consistent`) are finite case analyses over the COMPLETE
  tables `hel` (12 rows), `hfl` (32 rows), `hflv` (24 rows): if a header changes so that a row changes, this
  file no longer compiles.  Proof-only, core only.

  Layout: handle arithmetic; `Tri` (a triangle halfface with its three halfedges); re-basing `TetOn`;
  the structure lemma `anat_of` (from `IsTet` + loops + closure under `opp` to `Anat`: base halfface `abc`
  with ab, bc, ca; the other halffaces X1 ∋ opp ab, X2 ∋ opp bc, X3 ∋ opp ca with ad, bd, cd to the apex);
  the walk (`walkFace_X*`, `mk_eval`); the conclusions on the explicit result; the theorems; witnesses;
  non-vacuity.
-/
set_option linter.unusedSimpArgs false
namespace OVM.Tet.LabelsCell
open OVM OVM.Kernel OVM.Tet OVM.Gen.TetLabels

/-- the halfedges of halfface `hf` form a closed loop: each ends where the next (cyclically) starts.
    This is what `add_face(halfedges, topologyCheck = true)` verifies (`faceLoopOk`) and what
    `add_face(vertices)` constructs.  (`i` ranges below the length, so the `getD` defaults are never used.) -/
def LoopHF (k : Kernel) (hf : Nat) : Prop :=
  ∀ i < (k.hfHes hf).length, k.toV ((k.hfHes hf).getD i 0) = k.fromV ((k.hfHes hf).getD ((i + 1) % (k.hfHes hf).length) 0)
instance (k : Kernel) (hf : Nat) : Decidable (LoopHF k hf) := by unfold LoopHF; infer_instance

/-! ### handle arithmetic -/
theorem opp_opp (h : Nat) : opp (opp h) = h := CellCheck.opp_opp h
theorem opp_ne (h : Nat) : opp h ≠ h := CellCheck.opp_ne h
theorem ne_opp (h : Nat) : h ≠ opp h := fun e => CellCheck.opp_ne h e.symm
theorem eOf_opp (h : Nat) : eOf (opp h) = eOf h := CellCheck.opp_div h
theorem opp_inj {a b : Nat} (h : opp a = opp b) : a = b := by
  have := congrArg opp h; rwa [opp_opp, opp_opp] at this
theorem eq_or_opp_of_eOf {a b : Nat} (h : eOf a = eOf b) : b = a ∨ b = opp a := by
  by_cases e : a = b
  · exact Or.inl e.symm
  · exact Or.inr (CellCheck.eq_opp_of_div_eq h e)

theorem halfedge_opp (k : Kernel) (h : Nat) : k.halfedge (opp h) = ((k.halfedge h).2, (k.halfedge h).1) := by
  unfold halfedge
  have h1 : eOf (opp h) = eOf h := eOf_opp h
  have h2 : side (opp h) = 1 - side h := xor_one_mod h
  rw [h1, h2]
  unfold side
  by_cases hh : h % 2 = 0
  · have : ¬ (1 - h % 2 = 0) := by omega
    simp [hh]
  · have : 1 - h % 2 = 0 := by omega
    simp [hh, this]
theorem fromV_opp (k : Kernel) (h : Nat) : k.fromV (opp h) = k.toV h := by
  unfold fromV toV; rw [halfedge_opp]
theorem toV_opp (k : Kernel) (h : Nat) : k.toV (opp h) = k.fromV h := by
  unfold fromV toV; rw [halfedge_opp]

theorem oppFace_oppFace (l : List Nat) : oppFace (oppFace l) = l := by
  unfold oppFace
  simp [List.map_reverse, Function.comp_def, opp, Nat.xor_assoc]

theorem hfHes_opp (k : Kernel) (hf : Nat) : k.hfHes (opp hf) = oppFace (k.hfHes hf) := by
  unfold hfHes
  have h1 : eOf (opp hf) = eOf hf := eOf_opp hf
  have h2 : side (opp hf) = 1 - side hf := xor_one_mod hf
  simp only [h1, h2]
  unfold side
  by_cases hh : hf % 2 = 0
  · have : ¬ (1 - hf % 2 = 0) := by omega
    simp [hh]
  · have : 1 - hf % 2 = 0 := by omega
    simp [hh, this, oppFace_oppFace]

/-- same edge ⇒ same or exchanged end points -/
theorem ends_of_eOf (k : Kernel) {x y : Nat} (h : eOf x = eOf y) :
    (k.fromV y = k.fromV x ∧ k.toV y = k.toV x) ∨ (k.fromV y = k.toV x ∧ k.toV y = k.fromV x) := by
  rcases eq_or_opp_of_eOf h with e | e
  · subst e; exact Or.inl ⟨rfl, rfl⟩
  · subst e; exact Or.inr ⟨fromV_opp k x, toV_opp k x⟩

/-! ### a triangle face with its three halfedges -/
structure Tri (k : Kernel) (hf x y z e1 e2 e3 : Nat) : Prop where
  hes : k.hfHes hf = [e1, e2, e3] ∨ k.hfHes hf = [e2, e3, e1] ∨ k.hfHes hf = [e3, e1, e2]
  f1 : k.fromV e1 = x
  t1 : k.toV e1 = y
  f2 : k.fromV e2 = y
  t2 : k.toV e2 = z
  f3 : k.fromV e3 = z
  t3 : k.toV e3 = x

theorem Tri.rotate {k : Kernel} {hf x y z e1 e2 e3 : Nat} (h : Tri k hf x y z e1 e2 e3) : Tri k hf y z x e2 e3 e1 :=
  ⟨by rcases h.hes with e | e | e <;> simp [e], h.f2, h.t2, h.f3, h.t3, h.f1, h.t1⟩

theorem Tri.opp {k : Kernel} {hf x y z e1 e2 e3 : Nat} (h : Tri k hf x y z e1 e2 e3) :
    Tri k (opp hf) x z y (opp e3) (opp e2) (opp e1) := by
  refine ⟨?_, by rw [fromV_opp]; exact h.t3, by rw [toV_opp]; exact h.f3, by rw [fromV_opp]; exact h.t2,
    by rw [toV_opp]; exact h.f2, by rw [fromV_opp]; exact h.t1, by rw [toV_opp]; exact h.f1⟩
  rw [hfHes_opp]
  rcases h.hes with e | e | e <;> simp [e, oppFace]

theorem Tri.verts {k : Kernel} {hf x y z e1 e2 e3 : Nat} (h : Tri k hf x y z e1 e2 e3) :
    k.hfVerts hf = [x, y, z] ∨ k.hfVerts hf = [y, z, x] ∨ k.hfVerts hf = [z, x, y] := by
  unfold hfVerts
  rcases h.hes with e | e | e <;> simp [e, h.f1, h.f2, h.f3]

theorem Tri.rotV {k : Kernel} {hf x y z e1 e2 e3 : Nat} (h : Tri k hf x y z e1 e2 e3) : Rot [x, y, z] (k.hfVerts hf) := by
  rcases h.verts with e | e | e <;> rw [e] <;> simp [Rot, List.rotateLeft]

theorem Tri.mem_verts {k : Kernel} {hf x y z e1 e2 e3 : Nat} (h : Tri k hf x y z e1 e2 e3) (v : Nat) :
    v ∈ k.hfVerts hf ↔ v = x ∨ v = y ∨ v = z := by
  rcases h.verts with e | e | e <;> rw [e] <;> simp <;> omega

theorem Tri.mem_hes {k : Kernel} {hf x y z e1 e2 e3 : Nat} (h : Tri k hf x y z e1 e2 e3) (g : Nat) :
    g ∈ k.hfHes hf ↔ g = e1 ∨ g = e2 ∨ g = e3 := by
  rcases h.hes with e | e | e <;> rw [e] <;> simp <;> omega

/-- a closed loop of three halfedges whose start vertices are `x, y, z` up to rotation -/
theorem tri_of_rot {k : Kernel} {hf x y z : Nat} (hr : Rot (k.hfVerts hf) [x, y, z]) (hl : LoopHF k hf) :
    ∃ e1 e2 e3, Tri k hf x y z e1 e2 e3 := by
  have hlen : (k.hfHes hf).length = 3 := by
    have : (k.hfVerts hf).length = 3 := by
      rcases (rot_three _ x y z).mp hr with e | e | e <;> rw [e] <;> rfl
    simpa [hfVerts] using this
  match hh : k.hfHes hf, hlen with
  | [g0, g1, g2], _ =>
    have l0 := hl 0 (by rw [hh]; simp)
    have l1 := hl 1 (by rw [hh]; simp)
    have l2 := hl 2 (by rw [hh]; simp)
    simp only [hh, List.length_cons, List.length_nil, Nat.reduceAdd, Nat.reduceMod, List.getD_cons_zero,
      List.getD_cons_succ] at l0 l1 l2
    have hv : k.hfVerts hf = [k.fromV g0, k.fromV g1, k.fromV g2] := by simp [hfVerts, hh]
    rw [hv] at hr
    rcases (rot_three _ x y z).mp hr with e | e | e
    · simp only [List.cons.injEq, and_true] at e
      exact ⟨g0, g1, g2, Or.inl hh, e.1, by rw [l0]; exact e.2.1, e.2.1, by rw [l1]; exact e.2.2, e.2.2, by rw [l2]; exact e.1⟩
    · simp only [List.cons.injEq, and_true] at e
      exact ⟨g2, g0, g1, Or.inr (Or.inl hh), e.2.2, by rw [l2]; exact e.1, e.1, by rw [l0]; exact e.2.1, e.2.1, by rw [l1]; exact e.2.2⟩
    · simp only [List.cons.injEq, and_true] at e
      exact ⟨g1, g2, g0, Or.inr (Or.inr hh), e.2.1, by rw [l1]; exact e.2.2, e.2.2, by rw [l2]; exact e.1, e.1, by rw [l0]; exact e.2.1⟩

/-! ### re-basing `TetOn` -/
theorem nodup4 (p q r s : Nat) : [p, q, r, s].Nodup ↔ p ≠ q ∧ p ≠ r ∧ p ≠ s ∧ q ≠ r ∧ q ≠ s ∧ r ≠ s := by
  simp only [List.nodup_cons, List.mem_cons, List.not_mem_nil, or_false, not_or, List.nodup_nil, and_true, not_false_eq_true]
  constructor
  · rintro ⟨⟨a, b, c⟩, ⟨d, e⟩, f⟩; exact ⟨a, b, c, d, e, f⟩
  · rintro ⟨a, b, c, d, e, f⟩; exact ⟨⟨a, b, c⟩, ⟨d, e⟩, f⟩

theorem rot_iff1 (l : List Nat) (p q r : Nat) : Rot l [q, r, p] ↔ Rot l [p, q, r] := by
  simp only [rot_three]
  constructor <;> rintro (h | h | h) <;> simp [h]

theorem tetOn_congr {k : Kernel} {hs : List Nat} {p q r s x y z w : Nat} (hT : TetOn k hs p q r s) (hnd : [x, y, z, w].Nodup)
    (h1 : ∀ t' ∈ tris x y z w, ∃ t ∈ tris p q r s, ∀ l, Rot l t' ↔ Rot l t)
    (h2 : ∀ t ∈ tris p q r s, ∃ t' ∈ tris x y z w, ∀ l, Rot l t' ↔ Rot l t) : TetOn k hs x y z w := by
  obtain ⟨_, hlen, hnd', hall, hsurj, hinj⟩ := hT
  refine ⟨hnd, hlen, hnd', ?_, ?_, ?_⟩
  · intro h hh
    obtain ⟨t, ht, hr⟩ := hall h hh
    obtain ⟨t', ht', hi⟩ := h2 t ht
    exact ⟨t', ht', (hi _).mpr hr⟩
  · intro t' ht'
    obtain ⟨t, ht, hi⟩ := h1 t' ht'
    obtain ⟨h, hh, hr⟩ := hsurj t ht
    exact ⟨h, hh, (hi _).mpr hr⟩
  · intro h hh h' hh' t' ht' hr hr'
    obtain ⟨t, ht, hi⟩ := h1 t' ht'
    exact hinj h hh h' hh' t ht ((hi _).mp hr) ((hi _).mp hr')

theorem tetOn_rot {k : Kernel} {hs : List Nat} {p q r s : Nat} (hT : TetOn k hs p q r s) : TetOn k hs q r p s := by
  have hd := hT.1
  apply tetOn_congr hT
  · rw [nodup4] at hd ⊢; omega
  · intro t' ht'
    simp only [tris, List.mem_cons, List.not_mem_nil, or_false] at ht'
    rcases ht' with rfl | rfl | rfl | rfl
    · exact ⟨[p, q, r], by simp [tris], fun l => rot_iff1 l p q r⟩
    · exact ⟨[r, q, s], by simp [tris], fun l => Iff.rfl⟩
    · exact ⟨[p, r, s], by simp [tris], fun l => Iff.rfl⟩
    · exact ⟨[q, p, s], by simp [tris], fun l => Iff.rfl⟩
  · intro t ht
    simp only [tris, List.mem_cons, List.not_mem_nil, or_false] at ht
    rcases ht with rfl | rfl | rfl | rfl
    · exact ⟨[q, r, p], by simp [tris], fun l => rot_iff1 l p q r⟩
    · exact ⟨[q, p, s], by simp [tris], fun l => Iff.rfl⟩
    · exact ⟨[r, q, s], by simp [tris], fun l => Iff.rfl⟩
    · exact ⟨[p, r, s], by simp [tris], fun l => Iff.rfl⟩

theorem tetOn_flip {k : Kernel} {hs : List Nat} {p q r s : Nat} (hT : TetOn k hs p q r s) : TetOn k hs q p s r := by
  have hd := hT.1
  apply tetOn_congr hT
  · rw [nodup4] at hd ⊢; omega
  · intro t' ht'
    simp only [tris, List.mem_cons, List.not_mem_nil, or_false] at ht'
    rcases ht' with rfl | rfl | rfl | rfl
    · exact ⟨[q, p, s], by simp [tris], fun l => Iff.rfl⟩
    · exact ⟨[p, q, r], by simp [tris], fun l => Iff.rfl⟩
    · exact ⟨[p, r, s], by simp [tris], fun l => (rot_iff1 l r s p).trans (rot_iff1 l p r s)⟩
    · exact ⟨[r, q, s], by simp [tris], fun l => rot_iff1 l r q s⟩
  · intro t ht
    simp only [tris, List.mem_cons, List.not_mem_nil, or_false] at ht
    rcases ht with rfl | rfl | rfl | rfl
    · exact ⟨[p, q, r], by simp [tris], fun l => Iff.rfl⟩
    · exact ⟨[q, p, s], by simp [tris], fun l => Iff.rfl⟩
    · exact ⟨[q, s, r], by simp [tris], fun l => rot_iff1 l r q s⟩
    · exact ⟨[s, p, r], by simp [tris], fun l => (rot_iff1 l r s p).trans (rot_iff1 l p r s)⟩

/-- every halfface of a `TetOn` cell can serve as the base triangle, read as stored -/
theorem tetOn_rebase {k : Kernel} {hs : List Nat} {p q r s hf : Nat} (hT : TetOn k hs p q r s) (hm : hf ∈ hs) :
    ∃ x y z w, k.hfVerts hf = [x, y, z] ∧ TetOn k hs x y z w := by
  obtain ⟨t, ht, hr⟩ := hT.2.2.2.1 hf hm
  have key : ∀ {x y z w : Nat}, TetOn k hs x y z w → Rot (k.hfVerts hf) [x, y, z] →
      ∃ x y z w, k.hfVerts hf = [x, y, z] ∧ TetOn k hs x y z w := by
    intro x y z w hT' hr'
    rcases (rot_three _ x y z).mp hr' with e | e | e
    · exact ⟨x, y, z, w, e, hT'⟩
    · exact ⟨y, z, x, w, e, tetOn_rot hT'⟩
    · exact ⟨z, x, y, w, e, tetOn_rot (tetOn_rot hT')⟩
  simp only [tris, List.mem_cons, List.not_mem_nil, or_false] at ht
  rcases ht with rfl | rfl | rfl | rfl
  · exact key hT hr
  · exact key (tetOn_flip hT) hr
  · exact key (tetOn_flip (tetOn_rot hT)) hr
  · exact key (tetOn_flip (tetOn_rot (tetOn_rot hT))) hr

/-- what the constructor reads from `abc`: the position it starts at and the three halfedges from there -/
def StartAt (k : Kernel) (abc : Nat) (a : Option Nat) (ab bc ca : Nat) : Prop :=
  ∃ i, (match a with | none => some 0 | some v => (k.hfHes abc).findIdx? (fun h => k.fromV h == v)) = some i ∧
    cyc (k.hfHes abc) i = ab ∧ cyc (k.hfHes abc) (i + 1) = bc ∧ cyc (k.hfHes abc) (i + 2) = ca ∧
    (k.hfHes abc).isEmpty = false

theorem base_choice {k : Kernel} {c abc x y z w : Nat} {a : Option Nat} (hT : TetOn k (k.cellAt c) x y z w)
    (hv : k.hfVerts abc = [x, y, z]) (hl : LoopHF k abc) (ha : ∀ v, a = some v → v ∈ k.hfVerts abc) :
    ∃ A B C ab bc ca, TetOn k (k.cellAt c) A B C w ∧ Tri k abc A B C ab bc ca ∧ StartAt k abc a ab bc ca ∧
      (∀ v, a = some v → A = v) ∧ (a = none → [A, B, C] = k.hfVerts abc) := by
  have hlen : (k.hfHes abc).length = 3 := by
    have : (k.hfVerts abc).length = 3 := by rw [hv]; rfl
    simpa [hfVerts] using this
  have hd := (nodup4 x y z w).mp hT.1
  match hh : k.hfHes abc, hlen with
  | [g0, g1, g2], _ =>
    have l0 := hl 0 (by rw [hh]; simp)
    have l1 := hl 1 (by rw [hh]; simp)
    have l2 := hl 2 (by rw [hh]; simp)
    simp only [hh, List.length_cons, List.length_nil, Nat.reduceAdd, Nat.reduceMod, List.getD_cons_zero,
      List.getD_cons_succ] at l0 l1 l2
    have hv' : [k.fromV g0, k.fromV g1, k.fromV g2] = [x, y, z] := by rw [← hv]; simp [hfVerts, hh]
    simp only [List.cons.injEq, and_true] at hv'
    obtain ⟨f0, f1, f2⟩ := hv'
    have T0 : Tri k abc x y z g0 g1 g2 :=
      ⟨Or.inl hh, f0, by rw [l0]; exact f1, f1, by rw [l1]; exact f2, f2, by rw [l2]; exact f0⟩
    cases a with
    | none =>
      refine ⟨x, y, z, g0, g1, g2, hT, T0, ⟨0, rfl, ?_, ?_, ?_, ?_⟩, (fun v hv => by cases hv), fun _ => hv.symm⟩ <;> simp [cyc, hh]
    | some v =>
      have hvm := ha v rfl
      rw [hv] at hvm
      simp only [List.mem_cons, List.not_mem_nil, or_false] at hvm
      rcases hvm with e | e | e
      · subst e
        refine ⟨v, y, z, g0, g1, g2, hT, T0, ⟨0, ?_, ?_, ?_, ?_, ?_⟩, (fun v' hv' => by cases hv'; rfl), (fun h => by cases h)⟩ <;>
          simp [cyc, hh, List.findIdx?_cons, f0]
      · subst e
        have n0 : k.fromV g0 ≠ v := by omega
        refine ⟨v, z, x, g1, g2, g0, tetOn_rot hT, T0.rotate, ⟨1, ?_, ?_, ?_, ?_, ?_⟩, (fun v' hv' => by cases hv'; rfl), (fun h => by cases h)⟩ <;>
          simp [cyc, hh, List.findIdx?_cons, f1, n0]
      · subst e
        have n0 : k.fromV g0 ≠ v := by omega
        have n1 : k.fromV g1 ≠ v := by omega
        refine ⟨v, x, y, g2, g0, g1, tetOn_rot (tetOn_rot hT), T0.rotate.rotate, ⟨2, ?_, ?_, ?_, ?_, ?_⟩, (fun v' hv' => by cases hv'; rfl), (fun h => by cases h)⟩ <;>
          simp [cyc, hh, List.findIdx?_cons, f2, n0, n1]

/-! ### the anatomy of the cell -/

/-- two faces whose vertex sets differ lie on different faces (so neither equals the other nor its opposite) -/
theorem tri_eOf_ne {k : Kernel} {X Y x y z x' y' z' e1 e2 e3 g1 g2 g3 : Nat} (hX : Tri k X x y z e1 e2 e3)
    (hY : Tri k Y x' y' z' g1 g2 g3) (v : Nat) (hvX : v = x ∨ v = y ∨ v = z) (hv : v ≠ x' ∧ v ≠ y' ∧ v ≠ z') :
    eOf X ≠ eOf Y := by
  intro h
  have hx : v ∈ k.hfVerts Y := by
    rcases eq_or_opp_of_eOf h with e | e
    · rw [e]; exact (hX.mem_verts v).mpr hvX
    · rw [e]; exact (hX.opp.mem_verts v).mpr (by omega)
  have := (hY.mem_verts v).mp hx
  omega

theorem ne_of_eOf_ne {a b : Nat} (h : eOf a ≠ eOf b) : a ≠ b ∧ a ≠ opp b ∧ opp a ≠ b ∧ opp a ≠ opp b := by
  refine ⟨fun e => h (by rw [e]), fun e => h (by rw [e, eOf_opp]), fun e => h (by rw [← e, eOf_opp]),
    fun e => h (by rw [opp_inj e])⟩

structure Anat (k : Kernel) (c abc A B C D ab bc ca ad bd cd X1 X2 X3 : Nat) : Prop where
  nd : A ≠ B ∧ A ≠ C ∧ A ≠ D ∧ B ≠ C ∧ B ≠ D ∧ C ≠ D
  t0 : Tri k abc A B C ab bc ca
  t1 : Tri k X1 B A D (opp ab) ad (opp bd)
  t2 : Tri k X2 C B D (opp bc) bd (opp cd)
  t3 : Tri k X3 A C D (opp ca) cd (opp ad)
  cell : (k.cellAt c).Perm [abc, X1, X2, X3]

/-- among the twelve halfedges of the four triangles, the one with given end points -/
theorem pick_by_ends {k : Kernel} {abc X1 X2 X3 A B C D ab bc ca g1 ad db g2 bd dc g3 cd da : Nat}
    (nd : A ≠ B ∧ A ≠ C ∧ A ≠ D ∧ B ≠ C ∧ B ≠ D ∧ C ≠ D)
    (t0 : Tri k abc A B C ab bc ca) (t1 : Tri k X1 B A D g1 ad db) (t2 : Tri k X2 C B D g2 bd dc)
    (t3 : Tri k X3 A C D g3 cd da) (h : Nat)
    (hm : h ∈ k.hfHes abc ∨ h ∈ k.hfHes X1 ∨ h ∈ k.hfHes X2 ∨ h ∈ k.hfHes X3) :
    (k.fromV h = B → k.toV h = A → h = g1) ∧ (k.fromV h = C → k.toV h = B → h = g2) ∧
    (k.fromV h = A → k.toV h = C → h = g3) ∧ (k.fromV h = D → k.toV h = A → h = da) ∧
    (k.fromV h = D → k.toV h = B → h = db) ∧ (k.fromV h = D → k.toV h = C → h = dc) := by
  rw [t0.mem_hes, t1.mem_hes, t2.mem_hes, t3.mem_hes] at hm
  have hm' : (k.fromV h = A ∧ k.toV h = B ∧ True) ∨ (k.fromV h = B ∧ k.toV h = C ∧ True) ∨ (k.fromV h = C ∧ k.toV h = A ∧ True) ∨
      (k.fromV h = B ∧ k.toV h = A ∧ h = g1) ∨ (k.fromV h = A ∧ k.toV h = D ∧ True) ∨ (k.fromV h = D ∧ k.toV h = B ∧ h = db) ∨
      (k.fromV h = C ∧ k.toV h = B ∧ h = g2) ∨ (k.fromV h = B ∧ k.toV h = D ∧ True) ∨ (k.fromV h = D ∧ k.toV h = C ∧ h = dc) ∨
      (k.fromV h = A ∧ k.toV h = C ∧ h = g3) ∨ (k.fromV h = C ∧ k.toV h = D ∧ True) ∨ (k.fromV h = D ∧ k.toV h = A ∧ h = da) := by
    rcases hm with (e | e | e) | (e | e | e) | (e | e | e) | (e | e | e) <;> subst e
    · exact Or.inl ⟨t0.f1, t0.t1, trivial⟩
    · exact Or.inr (Or.inl ⟨t0.f2, t0.t2, trivial⟩)
    · exact Or.inr (Or.inr (Or.inl ⟨t0.f3, t0.t3, trivial⟩))
    · exact Or.inr (Or.inr (Or.inr (Or.inl ⟨t1.f1, t1.t1, rfl⟩)))
    · exact Or.inr (Or.inr (Or.inr (Or.inr (Or.inl ⟨t1.f2, t1.t2, trivial⟩))))
    · exact Or.inr (Or.inr (Or.inr (Or.inr (Or.inr (Or.inl ⟨t1.f3, t1.t3, rfl⟩)))))
    · exact Or.inr (Or.inr (Or.inr (Or.inr (Or.inr (Or.inr (Or.inl ⟨t2.f1, t2.t1, rfl⟩))))))
    · exact Or.inr (Or.inr (Or.inr (Or.inr (Or.inr (Or.inr (Or.inr (Or.inl ⟨t2.f2, t2.t2, trivial⟩)))))))
    · exact Or.inr (Or.inr (Or.inr (Or.inr (Or.inr (Or.inr (Or.inr (Or.inr (Or.inl ⟨t2.f3, t2.t3, rfl⟩))))))))
    · exact Or.inr (Or.inr (Or.inr (Or.inr (Or.inr (Or.inr (Or.inr (Or.inr (Or.inr (Or.inl ⟨t3.f1, t3.t1, rfl⟩)))))))))
    · exact Or.inr (Or.inr (Or.inr (Or.inr (Or.inr (Or.inr (Or.inr (Or.inr (Or.inr (Or.inr (Or.inl ⟨t3.f2, t3.t2, trivial⟩))))))))))
    · exact Or.inr (Or.inr (Or.inr (Or.inr (Or.inr (Or.inr (Or.inr (Or.inr (Or.inr (Or.inr (Or.inr ⟨t3.f3, t3.t3, rfl⟩))))))))))
  clear hm t0 t1 t2 t3
  refine ⟨?_, ?_, ?_, ?_, ?_, ?_⟩ <;> intro h1 h2 <;> omega

/-- closed under `opp`: the second half of `ClosedSurface` -/
def OppClosedCell (k : Kernel) (c : Nat) : Prop :=
  ∀ h ∈ k.cellHalfedges (k.cellAt c), opp h ∈ k.cellHalfedges (k.cellAt c)

theorem anat_of {k : Kernel} {c abc A B C D ab bc ca : Nat} (hT : TetOn k (k.cellAt c) A B C D)
    (t0 : Tri k abc A B C ab bc ca) (hm : abc ∈ k.cellAt c) (hloop : ∀ hf ∈ k.cellAt c, LoopHF k hf)
    (hcl : OppClosedCell k c) :
    ∃ ad bd cd X1 X2 X3, Anat k c abc A B C D ab bc ca ad bd cd X1 X2 X3 := by
  obtain ⟨hd, hlen, hnd, hall, hsurj, hinj⟩ := hT
  have nd := (nodup4 A B C D).mp hd
  obtain ⟨X1, m1, r1⟩ := hsurj [B, A, D] (by simp [tris])
  obtain ⟨X2, m2, r2⟩ := hsurj [C, B, D] (by simp [tris])
  obtain ⟨X3, m3, r3⟩ := hsurj [A, C, D] (by simp [tris])
  obtain ⟨g1, ad, db, t1⟩ := tri_of_rot r1 (hloop X1 m1)
  obtain ⟨g2, bd, dc, t2⟩ := tri_of_rot r2 (hloop X2 m2)
  obtain ⟨g3, cd, da, t3⟩ := tri_of_rot r3 (hloop X3 m3)
  have r0 : Rot (k.hfVerts abc) [A, B, C] := (rot_three _ A B C).mpr t0.verts
  -- the cell has exactly these four halffaces
  have hmem : ∀ hf, hf ∈ k.cellAt c ↔ hf ∈ [abc, X1, X2, X3] := by
    intro hf
    constructor
    · intro hh
      obtain ⟨t, ht, hr⟩ := hall hf hh
      simp only [tris, List.mem_cons, List.not_mem_nil, or_false] at ht
      rcases ht with rfl | rfl | rfl | rfl
      · have := hinj hf hh abc hm _ (by simp [tris]) hr r0; simp [this]
      · have := hinj hf hh X1 m1 _ (by simp [tris]) hr r1; simp [this]
      · have := hinj hf hh X2 m2 _ (by simp [tris]) hr r2; simp [this]
      · have := hinj hf hh X3 m3 _ (by simp [tris]) hr r3; simp [this]
    · intro hh
      simp only [List.mem_cons, List.not_mem_nil, or_false] at hh
      rcases hh with rfl | rfl | rfl | rfl <;> assumption
  have e01 := tri_eOf_ne t0 t1 C (by simp) (by omega)
  have e02 := tri_eOf_ne t0 t2 A (by simp) (by omega)
  have e03 := tri_eOf_ne t0 t3 B (by simp) (by omega)
  have e12 := tri_eOf_ne t1 t2 A (by simp) (by omega)
  have e13 := tri_eOf_ne t1 t3 B (by simp) (by omega)
  have e23 := tri_eOf_ne t2 t3 B (by simp) (by omega)
  have hperm : (k.cellAt c).Perm [abc, X1, X2, X3] := by
    apply (List.perm_ext_iff_of_nodup hnd ?_).mpr hmem
    have := (ne_of_eOf_ne e01).1; have := (ne_of_eOf_ne e02).1; have := (ne_of_eOf_ne e03).1
    have := (ne_of_eOf_ne e12).1; have := (ne_of_eOf_ne e13).1; have := (ne_of_eOf_ne e23).1
    rw [nodup4]; omega
  -- every halfedge of the cell is one of the twelve
  have h12 : ∀ h, h ∈ k.cellHalfedges (k.cellAt c) ↔
      (h ∈ k.hfHes abc ∨ h ∈ k.hfHes X1 ∨ h ∈ k.hfHes X2 ∨ h ∈ k.hfHes X3) := by
    intro h
    unfold cellHalfedges
    rw [List.mem_flatMap]
    constructor
    · rintro ⟨hf, hfm, hh⟩
      have := (hmem hf).mp hfm
      simp only [List.mem_cons, List.not_mem_nil, or_false] at this
      rcases this with rfl | rfl | rfl | rfl <;> simp [hh]
    · rintro (hh | hh | hh | hh)
      · exact ⟨abc, hm, hh⟩
      · exact ⟨X1, m1, hh⟩
      · exact ⟨X2, m2, hh⟩
      · exact ⟨X3, m3, hh⟩
  have pick := fun h hh => pick_by_ends nd t0 t1 t2 t3 (opp h) ((h12 (opp h)).mp (hcl h ((h12 h).mpr hh)))
  have q1 : opp ab = g1 := (pick ab (Or.inl ((t0.mem_hes _).mpr (Or.inl rfl)))).1
    (by rw [fromV_opp]; exact t0.t1) (by rw [toV_opp]; exact t0.f1)
  have q2 : opp bc = g2 := (pick bc (Or.inl ((t0.mem_hes _).mpr (Or.inr (Or.inl rfl))))).2.1
    (by rw [fromV_opp]; exact t0.t2) (by rw [toV_opp]; exact t0.f2)
  have q3 : opp ca = g3 := (pick ca (Or.inl ((t0.mem_hes _).mpr (Or.inr (Or.inr rfl))))).2.2.1
    (by rw [fromV_opp]; exact t0.t3) (by rw [toV_opp]; exact t0.f3)
  have q4 : opp ad = da := (pick ad (Or.inr (Or.inl ((t1.mem_hes _).mpr (Or.inr (Or.inl rfl)))))).2.2.2.1
    (by rw [fromV_opp]; exact t1.t2) (by rw [toV_opp]; exact t1.f2)
  have q5 : opp bd = db := (pick bd (Or.inr (Or.inr (Or.inl ((t2.mem_hes _).mpr (Or.inr (Or.inl rfl))))))).2.2.2.2.1
    (by rw [fromV_opp]; exact t2.t2) (by rw [toV_opp]; exact t2.f2)
  have q6 : opp cd = dc := (pick cd (Or.inr (Or.inr (Or.inr ((t3.mem_hes _).mpr (Or.inr (Or.inl rfl))))))).2.2.2.2.2
    (by rw [fromV_opp]; exact t3.t2) (by rw [toV_opp]; exact t3.f2)
  subst q1 q2 q3 q4 q5 q6
  exact ⟨ad, bd, cd, X1, X2, X3, nd, t0, t1, t2, t3, hperm⟩

/-! ## the constructor walk on the anatomy -/


theorem helVal_AB : helVal "AB" = 0 := by decide
theorem helVal_BC : helVal "BC" = 1 := by decide
theorem helVal_CA : helVal "CA" = 2 := by decide
theorem helVal_CD : helVal "CD" = 3 := by decide
theorem helVal_AD : helVal "AD" = 4 := by decide
theorem helVal_BD : helVal "BD" = 5 := by decide
theorem hflVal_BAD : hflVal "BAD" = 10 := by decide
theorem hflVal_CBD : hflVal "CBD" = 2 := by decide
theorem hflVal_ACD : hflVal "ACD" = 5 := by decide
theorem hflVal_ABC : hflVal "ABC" = 13 := by decide
theorem hflVal_OppA : hflVal "OppA" = 0 := by decide
theorem hflVal_OppB : hflVal "OppB" = 4 := by decide
theorem hflVal_OppC : hflVal "OppC" = 8 := by decide
theorem hflVal_OppD : hflVal "OppD" = 12 := by decide
theorem vlOf_A : vlOf "A" = 0 := by decide
theorem vlOf_B : vlOf "B" = 1 := by decide
theorem vlOf_C : vlOf "C" = 2 := by decide
theorem vlOf_D : vlOf "D" = 3 := by decide

theorem hehSlot_0 : hehSlot 0 = some (0, false) := by decide
theorem hehSlot_1 : hehSlot 1 = some (1, false) := by decide
theorem hehSlot_2 : hehSlot 2 = some (2, false) := by decide
theorem hehSlot_3 : hehSlot 3 = some (3, false) := by decide
theorem hehSlot_4 : hehSlot 4 = some (4, false) := by decide
theorem hehSlot_5 : hehSlot 5 = some (5, false) := by decide
theorem hfhSlot_2 : hfhSlot 2 = some (0, false) := by decide
theorem hfhSlot_5 : hfhSlot 5 = some (1, false) := by decide
theorem hfhSlot_10 : hfhSlot 10 = some (2, false) := by decide
theorem hfhSlot_13 : hfhSlot 13 = some (3, false) := by decide

/-- the explicit result of the constructor walk -/
def tetOf (A B C D ab bc ca ad bd cd abc X1 X2 X3 : Nat) : TetTopo :=
  { vh := [some A, some B, some C, some D], heh := [some ab, some bc, some ca, some cd, some ad, some bd],
    hfh := [some X2, some X3, some X1, some abc], fault := false }


/-- the six edges of the tetrahedron are pairwise different -/
structure EdgesNe (ab bc ca cd ad bd : Nat) : Prop where
  ab_bc : eOf ab ≠ eOf bc
  ab_ca : eOf ab ≠ eOf ca
  ab_cd : eOf ab ≠ eOf cd
  ab_ad : eOf ab ≠ eOf ad
  ab_bd : eOf ab ≠ eOf bd
  bc_ca : eOf bc ≠ eOf ca
  bc_cd : eOf bc ≠ eOf cd
  bc_ad : eOf bc ≠ eOf ad
  bc_bd : eOf bc ≠ eOf bd
  ca_cd : eOf ca ≠ eOf cd
  ca_ad : eOf ca ≠ eOf ad
  ca_bd : eOf ca ≠ eOf bd
  cd_ad : eOf cd ≠ eOf ad
  cd_bd : eOf cd ≠ eOf bd
  ad_bd : eOf ad ≠ eOf bd

theorem Anat.edgesNe {k : Kernel} {c abc A B C D ab bc ca ad bd cd X1 X2 X3 : Nat}
    (h : Anat k c abc A B C D ab bc ca ad bd cd X1 X2 X3) : EdgesNe ab bc ca cd ad bd := by
  have nd := h.nd
  have a1 := h.t0.f1; have a2 := h.t0.t1; have a3 := h.t0.f2; have a4 := h.t0.t2; have a5 := h.t0.f3; have a6 := h.t0.t3
  have b1 := h.t1.f2; have b2 := h.t1.t2; have b3 := h.t2.f2; have b4 := h.t2.t2; have b5 := h.t3.f2; have b6 := h.t3.t2
  clear h
  constructor <;> intro e <;> have := ends_of_eOf k e <;> omega

/-- the four faces of the tetrahedron are pairwise different -/
structure FacesNe (abc X1 X2 X3 : Nat) : Prop where
  f01 : eOf abc ≠ eOf X1
  f02 : eOf abc ≠ eOf X2
  f03 : eOf abc ≠ eOf X3
  f12 : eOf X1 ≠ eOf X2
  f13 : eOf X1 ≠ eOf X3
  f23 : eOf X2 ≠ eOf X3

theorem Anat.facesNe {k : Kernel} {c abc A B C D ab bc ca ad bd cd X1 X2 X3 : Nat}
    (h : Anat k c abc A B C D ab bc ca ad bd cd X1 X2 X3) : FacesNe abc X1 X2 X3 := by
  have nd := h.nd
  exact ⟨tri_eOf_ne h.t0 h.t1 C (by simp) (by omega), tri_eOf_ne h.t0 h.t2 A (by simp) (by omega),
    tri_eOf_ne h.t0 h.t3 B (by simp) (by omega), tri_eOf_ne h.t1 h.t2 A (by simp) (by omega),
    tri_eOf_ne h.t1 h.t3 B (by simp) (by omega), tri_eOf_ne h.t2 h.t3 B (by simp) (by omega)⟩

/-! conditional rewrite rules: handles on different edges / faces are different -/
theorem ne1 {a b : Nat} (h : eOf a ≠ eOf b) : (a = b) = False := eq_false (ne_of_eOf_ne h).1
theorem ne2 {a b : Nat} (h : eOf a ≠ eOf b) : (a = opp b) = False := eq_false (ne_of_eOf_ne h).2.1
theorem ne3 {a b : Nat} (h : eOf a ≠ eOf b) : (opp a = b) = False := eq_false (ne_of_eOf_ne h).2.2.1
theorem ne4 {a b : Nat} (h : eOf a ≠ eOf b) : (opp a = opp b) = False := eq_false (ne_of_eOf_ne h).2.2.2
theorem opp_eq_self (a : Nat) : (opp a = a) = False := eq_false (opp_ne a)
theorem self_eq_opp (a : Nat) : (a = opp a) = False := eq_false (ne_opp a)

theorem walkFace_X1 {k : Kernel} {c abc A B C D ab bc ca ad bd cd X1 X2 X3 : Nat}
    (h : Anat k c abc A B C D ab bc ca ad bd cd X1 X2 X3) (t : TetTopo) :
    walkFace k (opp ab) (opp bc) (opp ca) t X1 = { t with hfh := t.hfh.set 2 (some X1), heh := t.heh.set 4 (some ad) } := by
  have E := h.edgesNe
  unfold walkFace
  rcases h.t1.hes with e | e | e <;>
    simp [e, List.findIdx?_cons, cyc, helVal_AD, hflVal_BAD, TetTopo.setHfh, TetTopo.setHeh, hfhSlot_10, hehSlot_4,
      ne1, ne2, ne3, ne4, E.ab_bc, E.ab_bc.symm, E.ab_ca, E.ab_ca.symm, E.ab_cd, E.ab_cd.symm, E.ab_ad, E.ab_ad.symm, E.ab_bd, E.ab_bd.symm, E.bc_ca, E.bc_ca.symm, E.bc_cd, E.bc_cd.symm, E.bc_ad, E.bc_ad.symm, E.bc_bd, E.bc_bd.symm, E.ca_cd, E.ca_cd.symm, E.ca_ad, E.ca_ad.symm, E.ca_bd, E.ca_bd.symm, E.cd_ad, E.cd_ad.symm, E.cd_bd, E.cd_bd.symm, E.ad_bd, E.ad_bd.symm]

theorem walkFace_X2 {k : Kernel} {c abc A B C D ab bc ca ad bd cd X1 X2 X3 : Nat}
    (h : Anat k c abc A B C D ab bc ca ad bd cd X1 X2 X3) (t : TetTopo) :
    walkFace k (opp ab) (opp bc) (opp ca) t X2 = { t with hfh := t.hfh.set 0 (some X2), heh := t.heh.set 5 (some bd) } := by
  have E := h.edgesNe
  unfold walkFace
  rcases h.t2.hes with e | e | e <;>
    simp [e, List.findIdx?_cons, cyc, helVal_BD, hflVal_CBD, TetTopo.setHfh, TetTopo.setHeh, hfhSlot_2, hehSlot_5,
      ne1, ne2, ne3, ne4, E.ab_bc, E.ab_bc.symm, E.ab_ca, E.ab_ca.symm, E.ab_cd, E.ab_cd.symm, E.ab_ad, E.ab_ad.symm, E.ab_bd, E.ab_bd.symm, E.bc_ca, E.bc_ca.symm, E.bc_cd, E.bc_cd.symm, E.bc_ad, E.bc_ad.symm, E.bc_bd, E.bc_bd.symm, E.ca_cd, E.ca_cd.symm, E.ca_ad, E.ca_ad.symm, E.ca_bd, E.ca_bd.symm, E.cd_ad, E.cd_ad.symm, E.cd_bd, E.cd_bd.symm, E.ad_bd, E.ad_bd.symm]

theorem walkFace_X3 {k : Kernel} {c abc A B C D ab bc ca ad bd cd X1 X2 X3 : Nat}
    (h : Anat k c abc A B C D ab bc ca ad bd cd X1 X2 X3) (t : TetTopo) :
    walkFace k (opp ab) (opp bc) (opp ca) t X3 = { t with hfh := t.hfh.set 1 (some X3), heh := t.heh.set 3 (some cd) } := by
  have E := h.edgesNe
  unfold walkFace
  rcases h.t3.hes with e | e | e <;>
    simp [e, List.findIdx?_cons, cyc, helVal_CD, hflVal_ACD, TetTopo.setHfh, TetTopo.setHeh, hfhSlot_5, hehSlot_3,
      ne1, ne2, ne3, ne4, E.ab_bc, E.ab_bc.symm, E.ab_ca, E.ab_ca.symm, E.ab_cd, E.ab_cd.symm, E.ab_ad, E.ab_ad.symm, E.ab_bd, E.ab_bd.symm, E.bc_ca, E.bc_ca.symm, E.bc_cd, E.bc_cd.symm, E.bc_ad, E.bc_ad.symm, E.bc_bd, E.bc_bd.symm, E.ca_cd, E.ca_cd.symm, E.ca_ad, E.ca_ad.symm, E.ca_bd, E.ca_bd.symm, E.cd_ad, E.cd_ad.symm, E.cd_bd, E.cd_bd.symm, E.ad_bd, E.ad_bd.symm]


theorem mk_eval {k : Kernel} {c abc A B C D ab bc ca ad bd cd X1 X2 X3 : Nat} {a : Option Nat}
    (h : Anat k c abc A B C D ab bc ca ad bd cd X1 X2 X3) (hS : StartAt k abc a ab bc ca) :
    Tet.mk k c abc a = tetOf A B C D ab bc ca ad bd cd abc X1 X2 X3 := by
  have F := h.facesNe
  obtain ⟨i, hs, h1, h2, h3, hne⟩ := hS
  -- the three other halffaces, in the order the cell stores them
  have hperm : ((k.cellAt c).filter (· != abc)).Perm [X1, X2, X3] := by
    have := h.cell.filter (· != abc)
    simpa [List.filter_cons, ne1, F.f01, F.f01.symm, F.f02, F.f02.symm, F.f03, F.f03.symm, F.f12, F.f12.symm, F.f13, F.f13.symm, F.f23, F.f23.symm] using this
  have hfold : ∀ t0 : TetTopo, ((k.cellAt c).filter (· != abc)).foldl (walkFace k (opp ab) (opp bc) (opp ca)) t0 =
      [X1, X2, X3].foldl (walkFace k (opp ab) (opp bc) (opp ca)) t0 := by
    intro t0
    apply List.Perm.foldl_eq' hperm
    intro x hx y hy z
    have hx' := hperm.mem_iff.mp hx
    have hy' := hperm.mem_iff.mp hy
    simp only [List.mem_cons, List.not_mem_nil, or_false] at hx' hy'
    rcases hx' with rfl | rfl | rfl <;> rcases hy' with rfl | rfl | rfl <;>
      simp only [walkFace_X1 h, walkFace_X2 h, walkFace_X3 h] <;> first | rfl | skip
    all_goals (congr 1 <;> apply List.set_comm <;> decide)
  have hemp : (k.hfHes abc).isEmpty = false := hne
  have key : ∀ i, cyc (k.hfHes abc) i = ab → cyc (k.hfHes abc) (i + 1) = bc → cyc (k.hfHes abc) (i + 2) = ca →
      (match some i with
      | none => ({ fault := true } : TetTopo)
      | some i =>
        let hes := k.hfHes abc
        let ab := cyc hes i
        let bc := cyc hes (i + 1)
        let ca := cyc hes (i + 2)
        let t : TetTopo := { fault := hes.isEmpty }
        let t := ((t.setHeh (helVal "AB") ab).setHeh (helVal "BC") bc).setHeh (helVal "CA") ca
        let t := ((t.setVh (vlOf "A") (k.fromV ab)).setVh (vlOf "B") (k.fromV bc)).setVh (vlOf "C") (k.fromV ca)
        let t := t.setHfh (hflVal "ABC") abc
        let t := ((k.cellAt c).filter (· != abc)).foldl (walkFace k (opp ab) (opp bc) (opp ca)) t
        match t.hehL (helVal "AD") with
        | some ad => t.setVh (vlOf "D") (k.toV ad)
        | none => { t with fault := true }) = tetOf A B C D ab bc ca ad bd cd abc X1 X2 X3 := by
    intro i h1 h2 h3
    simp only [h1, h2, h3, hfold, hemp]
    simp [walkFace_X1 h, walkFace_X2 h, walkFace_X3 h, TetTopo.setHeh, TetTopo.setVh, TetTopo.setHfh, TetTopo.hehL,
      helVal_AB, helVal_BC, helVal_CA, helVal_AD, vlOf_A, vlOf_B, vlOf_C, vlOf_D, hflVal_ABC, hehSlot_0, hehSlot_1, hehSlot_2,
      hehSlot_4, hfhSlot_13, tetOf, h.t0.f1, h.t0.f2, h.t0.f3, h.t1.t2]
  cases a with
  | none =>
    have hi : i = 0 := by simpa using hs.symm
    subst hi
    exact key 0 h1 h2 h3
  | some v =>
    have hs' : (k.hfHes abc).findIdx? (fun h => k.fromV h == v) = some i := hs
    unfold Tet.mk
    simp only [hs']
    exact key i h1 h2 h3

/-! ### the accessors on the explicit result -/
section accessors
variable (A B C D ab bc ca ad bd cd abc X1 X2 X3 : Nat)
local notation "T" => tetOf A B C D ab bc ca ad bd cd abc X1 X2 X3
theorem vhL_T_0 : (T).vhL 0 = some A := rfl
theorem vhL_T_1 : (T).vhL 1 = some B := rfl
theorem vhL_T_2 : (T).vhL 2 = some C := rfl
theorem vhL_T_3 : (T).vhL 3 = some D := rfl
theorem hehL_T_0 : (T).hehL 0 = some ab := rfl
theorem hehL_T_1 : (T).hehL 1 = some bc := rfl
theorem hehL_T_2 : (T).hehL 2 = some ca := rfl
theorem hehL_T_3 : (T).hehL 3 = some cd := rfl
theorem hehL_T_4 : (T).hehL 4 = some ad := rfl
theorem hehL_T_5 : (T).hehL 5 = some bd := rfl
theorem hehL_T_8 : (T).hehL 8 = some (opp ab) := rfl
theorem hehL_T_9 : (T).hehL 9 = some (opp bc) := rfl
theorem hehL_T_10 : (T).hehL 10 = some (opp ca) := rfl
theorem hehL_T_11 : (T).hehL 11 = some (opp cd) := rfl
theorem hehL_T_12 : (T).hehL 12 = some (opp ad) := rfl
theorem hehL_T_13 : (T).hehL 13 = some (opp bd) := rfl
theorem hfhL_T_0 : (T).hfhL 0 = some X2 := rfl
theorem hfhL_T_1 : (T).hfhL 1 = some X2 := rfl
theorem hfhL_T_2 : (T).hfhL 2 = some X2 := rfl
theorem hfhL_T_3 : (T).hfhL 3 = some X2 := rfl
theorem hfhL_T_4 : (T).hfhL 4 = some X3 := rfl
theorem hfhL_T_5 : (T).hfhL 5 = some X3 := rfl
theorem hfhL_T_6 : (T).hfhL 6 = some X3 := rfl
theorem hfhL_T_7 : (T).hfhL 7 = some X3 := rfl
theorem hfhL_T_8 : (T).hfhL 8 = some X1 := rfl
theorem hfhL_T_9 : (T).hfhL 9 = some X1 := rfl
theorem hfhL_T_10 : (T).hfhL 10 = some X1 := rfl
theorem hfhL_T_11 : (T).hfhL 11 = some X1 := rfl
theorem hfhL_T_12 : (T).hfhL 12 = some abc := rfl
theorem hfhL_T_13 : (T).hfhL 13 = some abc := rfl
theorem hfhL_T_14 : (T).hfhL 14 = some abc := rfl
theorem hfhL_T_15 : (T).hfhL 15 = some abc := rfl
theorem hfhL_T_16 : (T).hfhL 16 = some (opp X2) := rfl
theorem hfhL_T_17 : (T).hfhL 17 = some (opp X2) := rfl
theorem hfhL_T_18 : (T).hfhL 18 = some (opp X2) := rfl
theorem hfhL_T_19 : (T).hfhL 19 = some (opp X2) := rfl
theorem hfhL_T_20 : (T).hfhL 20 = some (opp X3) := rfl
theorem hfhL_T_21 : (T).hfhL 21 = some (opp X3) := rfl
theorem hfhL_T_22 : (T).hfhL 22 = some (opp X3) := rfl
theorem hfhL_T_23 : (T).hfhL 23 = some (opp X3) := rfl
theorem hfhL_T_24 : (T).hfhL 24 = some (opp X1) := rfl
theorem hfhL_T_25 : (T).hfhL 25 = some (opp X1) := rfl
theorem hfhL_T_26 : (T).hfhL 26 = some (opp X1) := rfl
theorem hfhL_T_27 : (T).hfhL 27 = some (opp X1) := rfl
theorem hfhL_T_28 : (T).hfhL 28 = some (opp abc) := rfl
theorem hfhL_T_29 : (T).hfhL 29 = some (opp abc) := rfl
theorem hfhL_T_30 : (T).hfhL 30 = some (opp abc) := rfl
theorem hfhL_T_31 : (T).hfhL 31 = some (opp abc) := rfl
end accessors

/-! ### conclusions -/
theorem Anat.mem_cell {k : Kernel} {c abc A B C D ab bc ca ad bd cd X1 X2 X3 : Nat}
    (h : Anat k c abc A B C D ab bc ca ad bd cd X1 X2 X3) :
    abc ∈ k.cellAt c ∧ X1 ∈ k.cellAt c ∧ X2 ∈ k.cellAt c ∧ X3 ∈ k.cellAt c := by
  refine ⟨?_, ?_, ?_, ?_⟩ <;> rw [h.cell.mem_iff] <;> simp

theorem mem_cellHalfedges {k : Kernel} {c hf g : Nat} (hm : hf ∈ k.cellAt c) (hg : g ∈ k.hfHes hf) :
    g ∈ k.cellHalfedges (k.cellAt c) := by
  unfold cellHalfedges; exact List.mem_flatMap.mpr ⟨hf, hm, hg⟩

/-- the twelve halfedges of the cell -/
theorem Anat.mem12 {k : Kernel} {c abc A B C D ab bc ca ad bd cd X1 X2 X3 : Nat}
    (h : Anat k c abc A B C D ab bc ca ad bd cd X1 X2 X3) :
    ∀ g ∈ [ab, bc, ca, cd, ad, bd, opp ab, opp bc, opp ca, opp cd, opp ad, opp bd], g ∈ k.cellHalfedges (k.cellAt c) := by
  obtain ⟨m0, m1, m2, m3⟩ := h.mem_cell
  intro g hg
  simp only [List.mem_cons, List.not_mem_nil, or_false] at hg
  rcases hg with rfl | rfl | rfl | rfl | rfl | rfl | rfl | rfl | rfl | rfl | rfl | rfl
  · exact mem_cellHalfedges m0 ((h.t0.mem_hes _).mpr (by simp))
  · exact mem_cellHalfedges m0 ((h.t0.mem_hes _).mpr (by simp))
  · exact mem_cellHalfedges m0 ((h.t0.mem_hes _).mpr (by simp))
  · exact mem_cellHalfedges m3 ((h.t3.mem_hes _).mpr (by simp))
  · exact mem_cellHalfedges m1 ((h.t1.mem_hes _).mpr (by simp))
  · exact mem_cellHalfedges m2 ((h.t2.mem_hes _).mpr (by simp))
  · exact mem_cellHalfedges m1 ((h.t1.mem_hes _).mpr (by simp))
  · exact mem_cellHalfedges m2 ((h.t2.mem_hes _).mpr (by simp))
  · exact mem_cellHalfedges m3 ((h.t3.mem_hes _).mpr (by simp))
  · exact mem_cellHalfedges m2 ((h.t2.mem_hes _).mpr (by simp))
  · exact mem_cellHalfedges m3 ((h.t3.mem_hes _).mpr (by simp))
  · exact mem_cellHalfedges m1 ((h.t1.mem_hes _).mpr (by simp))

/-- conclusion 3: every labelled halfedge joins its two labelled vertices and is a halfedge of the cell -/
theorem halfedges_T {k : Kernel} {c abc A B C D ab bc ca ad bd cd X1 X2 X3 : Nat}
    (h : Anat k c abc A B C D ab bc ca ad bd cd X1 X2 X3) :
    ∀ r ∈ hel, ∃ g, (tetOf A B C D ab bc ca ad bd cd abc X1 X2 X3).hehL r.val = some g ∧
      some (k.fromV g) = (tetOf A B C D ab bc ca ad bd cd abc X1 X2 X3).vhL r.from_ ∧ some (k.toV g) = (tetOf A B C D ab bc ca ad bd cd abc X1 X2 X3).vhL r.to_ ∧ g ∈ k.cellHalfedges (k.cellAt c) := by
  have M := h.mem12
  have a1 := h.t0.f1; have a2 := h.t0.t1; have a3 := h.t0.f2; have a4 := h.t0.t2; have a5 := h.t0.f3; have a6 := h.t0.t3
  have b1 := h.t1.f2; have b2 := h.t1.t2; have b3 := h.t2.f2; have b4 := h.t2.t2; have b5 := h.t3.f2; have b6 := h.t3.t2
  intro r hr
  simp only [hel, List.mem_cons, List.not_mem_nil, or_false] at hr
  rcases hr with rfl | rfl | rfl | rfl | rfl | rfl | rfl | rfl | rfl | rfl | rfl | rfl
  · exact ⟨_, hehL_T_0 .., by simp [vhL_T_0, fromV_opp, *], by simp [vhL_T_1, toV_opp, *], M _ (by simp)⟩
  · exact ⟨_, hehL_T_1 .., by simp [vhL_T_1, fromV_opp, *], by simp [vhL_T_2, toV_opp, *], M _ (by simp)⟩
  · exact ⟨_, hehL_T_2 .., by simp [vhL_T_2, fromV_opp, *], by simp [vhL_T_0, toV_opp, *], M _ (by simp)⟩
  · exact ⟨_, hehL_T_3 .., by simp [vhL_T_2, fromV_opp, *], by simp [vhL_T_3, toV_opp, *], M _ (by simp)⟩
  · exact ⟨_, hehL_T_4 .., by simp [vhL_T_0, fromV_opp, *], by simp [vhL_T_3, toV_opp, *], M _ (by simp)⟩
  · exact ⟨_, hehL_T_5 .., by simp [vhL_T_1, fromV_opp, *], by simp [vhL_T_3, toV_opp, *], M _ (by simp)⟩
  · exact ⟨_, hehL_T_8 .., by simp [vhL_T_1, fromV_opp, *], by simp [vhL_T_0, toV_opp, *], M _ (by simp)⟩
  · exact ⟨_, hehL_T_9 .., by simp [vhL_T_2, fromV_opp, *], by simp [vhL_T_1, toV_opp, *], M _ (by simp)⟩
  · exact ⟨_, hehL_T_10 .., by simp [vhL_T_0, fromV_opp, *], by simp [vhL_T_2, toV_opp, *], M _ (by simp)⟩
  · exact ⟨_, hehL_T_11 .., by simp [vhL_T_3, fromV_opp, *], by simp [vhL_T_2, toV_opp, *], M _ (by simp)⟩
  · exact ⟨_, hehL_T_12 .., by simp [vhL_T_3, fromV_opp, *], by simp [vhL_T_0, toV_opp, *], M _ (by simp)⟩
  · exact ⟨_, hehL_T_13 .., by simp [vhL_T_3, fromV_opp, *], by simp [vhL_T_1, toV_opp, *], M _ (by simp)⟩

/-- conclusion 4: every halfface label designates the halfface of the cell (outer labels: the opposite
    halfface) on the named vertices; labels with a start vertex come with their `triangle_topology`:
    the three vertices and the three halfedges in that rotation -/
theorem halffaces_T {k : Kernel} {c abc A B C D ab bc ca ad bd cd X1 X2 X3 : Nat}
    (h : Anat k c abc A B C D ab bc ca ad bd cd X1 X2 X3) :
    ∀ r ∈ hfl, ∃ hf, (tetOf A B C D ab bc ca ad bd cd abc X1 X2 X3).hfhL r.val = some hf ∧
      (if r.isInner then hf ∈ k.cellAt c else opp hf ∈ k.cellAt c) ∧
      match r.omits with
      | some x => ∀ v, (tetOf A B C D ab bc ca ad bd cd abc X1 X2 X3).vhL x = some v → v ∉ k.hfVerts hf
      | none => ∃ v0 v1 v2 h0 h1 h2, r.spelled.map (tetOf A B C D ab bc ca ad bd cd abc X1 X2 X3).vhL = [some v0, some v1, some v2] ∧
          (tetOf A B C D ab bc ca ad bd cd abc X1 X2 X3).triangle r.val = some ([some v0, some v1, some v2], [some h0, some h1, some h2]) ∧
          Tri k hf v0 v1 v2 h0 h1 h2 := by
  obtain ⟨m0, m1, m2, m3⟩ := h.mem_cell
  have nd := h.nd
  have o0 : Tri k (opp abc) A C B (opp ca) (opp bc) (opp ab) := h.t0.opp
  have o1 : Tri k (opp X1) B D A bd (opp ad) ab := by simpa [opp_opp] using h.t1.opp
  have o2 : Tri k (opp X2) C D B cd (opp bd) bc := by simpa [opp_opp] using h.t2.opp
  have o3 : Tri k (opp X3) A D C ad (opp cd) ca := by simpa [opp_opp] using h.t3.opp
  intro r hr
  simp only [hfl, List.mem_cons, List.not_mem_nil, or_false] at hr
  rcases hr with rfl | rfl | rfl | rfl | rfl | rfl | rfl | rfl | rfl | rfl | rfl | rfl | rfl | rfl | rfl | rfl | rfl | rfl | rfl | rfl | rfl | rfl | rfl | rfl | rfl | rfl | rfl | rfl | rfl | rfl | rfl | rfl
  · refine ⟨_, hfhL_T_0 .., by simpa using m2, ?_⟩
    intro v hv; cases hv; rw [(h.t2).mem_verts]; omega
  · exact ⟨_, hfhL_T_1 .., by simpa using m2, _, _, _, _, _, _, rfl, rfl, (h.t2).rotate⟩
  · exact ⟨_, hfhL_T_2 .., by simpa using m2, _, _, _, _, _, _, rfl, rfl, (h.t2)⟩
  · exact ⟨_, hfhL_T_3 .., by simpa using m2, _, _, _, _, _, _, rfl, rfl, (h.t2).rotate.rotate⟩
  · refine ⟨_, hfhL_T_4 .., by simpa using m3, ?_⟩
    intro v hv; cases hv; rw [(h.t3).mem_verts]; omega
  · exact ⟨_, hfhL_T_5 .., by simpa using m3, _, _, _, _, _, _, rfl, rfl, (h.t3)⟩
  · exact ⟨_, hfhL_T_6 .., by simpa using m3, _, _, _, _, _, _, rfl, rfl, (h.t3).rotate⟩
  · exact ⟨_, hfhL_T_7 .., by simpa using m3, _, _, _, _, _, _, rfl, rfl, (h.t3).rotate.rotate⟩
  · refine ⟨_, hfhL_T_8 .., by simpa using m1, ?_⟩
    intro v hv; cases hv; rw [(h.t1).mem_verts]; omega
  · exact ⟨_, hfhL_T_9 .., by simpa using m1, _, _, _, _, _, _, rfl, rfl, (h.t1).rotate⟩
  · exact ⟨_, hfhL_T_10 .., by simpa using m1, _, _, _, _, _, _, rfl, rfl, (h.t1)⟩
  · exact ⟨_, hfhL_T_11 .., by simpa using m1, _, _, _, _, _, _, rfl, rfl, (h.t1).rotate.rotate⟩
  · refine ⟨_, hfhL_T_12 .., by simpa using m0, ?_⟩
    intro v hv; cases hv; rw [(h.t0).mem_verts]; omega
  · exact ⟨_, hfhL_T_13 .., by simpa using m0, _, _, _, _, _, _, rfl, rfl, (h.t0)⟩
  · exact ⟨_, hfhL_T_14 .., by simpa using m0, _, _, _, _, _, _, rfl, rfl, (h.t0).rotate⟩
  · exact ⟨_, hfhL_T_15 .., by simpa using m0, _, _, _, _, _, _, rfl, rfl, (h.t0).rotate.rotate⟩
  · refine ⟨_, hfhL_T_16 .., by simpa [opp_opp] using m2, ?_⟩
    intro v hv; cases hv; rw [(o2).mem_verts]; omega
  · exact ⟨_, hfhL_T_17 .., by simpa [opp_opp] using m2, _, _, _, _, _, _, rfl, rfl, (o2).rotate.rotate⟩
  · exact ⟨_, hfhL_T_18 .., by simpa [opp_opp] using m2, _, _, _, _, _, _, rfl, rfl, (o2)⟩
  · exact ⟨_, hfhL_T_19 .., by simpa [opp_opp] using m2, _, _, _, _, _, _, rfl, rfl, (o2).rotate⟩
  · refine ⟨_, hfhL_T_20 .., by simpa [opp_opp] using m3, ?_⟩
    intro v hv; cases hv; rw [(o3).mem_verts]; omega
  · exact ⟨_, hfhL_T_21 .., by simpa [opp_opp] using m3, _, _, _, _, _, _, rfl, rfl, (o3)⟩
  · exact ⟨_, hfhL_T_22 .., by simpa [opp_opp] using m3, _, _, _, _, _, _, rfl, rfl, (o3).rotate.rotate⟩
  · exact ⟨_, hfhL_T_23 .., by simpa [opp_opp] using m3, _, _, _, _, _, _, rfl, rfl, (o3).rotate⟩
  · refine ⟨_, hfhL_T_24 .., by simpa [opp_opp] using m1, ?_⟩
    intro v hv; cases hv; rw [(o1).mem_verts]; omega
  · exact ⟨_, hfhL_T_25 .., by simpa [opp_opp] using m1, _, _, _, _, _, _, rfl, rfl, (o1).rotate.rotate⟩
  · exact ⟨_, hfhL_T_26 .., by simpa [opp_opp] using m1, _, _, _, _, _, _, rfl, rfl, (o1)⟩
  · exact ⟨_, hfhL_T_27 .., by simpa [opp_opp] using m1, _, _, _, _, _, _, rfl, rfl, (o1).rotate⟩
  · refine ⟨_, hfhL_T_28 .., by simpa [opp_opp] using m0, ?_⟩
    intro v hv; cases hv; rw [(o0).mem_verts]; omega
  · exact ⟨_, hfhL_T_29 .., by simpa [opp_opp] using m0, _, _, _, _, _, _, rfl, rfl, (o0)⟩
  · exact ⟨_, hfhL_T_30 .., by simpa [opp_opp] using m0, _, _, _, _, _, _, rfl, rfl, (o0).rotate.rotate⟩
  · exact ⟨_, hfhL_T_31 .., by simpa [opp_opp] using m0, _, _, _, _, _, _, rfl, rfl, (o0).rotate⟩

/-! ### `get_label` -/
theorem helOpp_0 : helOpp 0 = some 8 := by decide
theorem helOpp_1 : helOpp 1 = some 9 := by decide
theorem helOpp_2 : helOpp 2 = some 10 := by decide
theorem helOpp_3 : helOpp 3 = some 11 := by decide
theorem helOpp_4 : helOpp 4 = some 12 := by decide
theorem helOpp_5 : helOpp 5 = some 13 := by decide
theorem hflOpp_0 : hflOpp 0 = some 16 := by decide
theorem hflRow_oppT_0 : (hflRow? 0).map (·.oppT) = some 16 := by decide
theorem hflOpp_4 : hflOpp 4 = some 20 := by decide
theorem hflRow_oppT_4 : (hflRow? 4).map (·.oppT) = some 20 := by decide
theorem hflOpp_8 : hflOpp 8 = some 24 := by decide
theorem hflRow_oppT_8 : (hflRow? 8).map (·.oppT) = some 24 := by decide
theorem hflOpp_12 : hflOpp 12 = some 28 := by decide
theorem hflRow_oppT_12 : (hflRow? 12).map (·.oppT) = some 28 := by decide
theorem hflHead_1 : (hflVl 1).bind (fun x => x.head?) = some 1 := by decide
theorem hflHead_2 : (hflVl 2).bind (fun x => x.head?) = some 2 := by decide
theorem hflHead_3 : (hflVl 3).bind (fun x => x.head?) = some 3 := by decide
theorem hflHead_5 : (hflVl 5).bind (fun x => x.head?) = some 0 := by decide
theorem hflHead_6 : (hflVl 6).bind (fun x => x.head?) = some 2 := by decide
theorem hflHead_7 : (hflVl 7).bind (fun x => x.head?) = some 3 := by decide
theorem hflHead_9 : (hflVl 9).bind (fun x => x.head?) = some 0 := by decide
theorem hflHead_10 : (hflVl 10).bind (fun x => x.head?) = some 1 := by decide
theorem hflHead_11 : (hflVl 11).bind (fun x => x.head?) = some 3 := by decide
theorem hflHead_13 : (hflVl 13).bind (fun x => x.head?) = some 0 := by decide
theorem hflHead_14 : (hflVl 14).bind (fun x => x.head?) = some 1 := by decide
theorem hflHead_15 : (hflVl 15).bind (fun x => x.head?) = some 2 := by decide
theorem hflHead_17 : (hflVl 17).bind (fun x => x.head?) = some 1 := by decide
theorem hflHead_18 : (hflVl 18).bind (fun x => x.head?) = some 2 := by decide
theorem hflHead_19 : (hflVl 19).bind (fun x => x.head?) = some 3 := by decide
theorem hflHead_21 : (hflVl 21).bind (fun x => x.head?) = some 0 := by decide
theorem hflHead_22 : (hflVl 22).bind (fun x => x.head?) = some 2 := by decide
theorem hflHead_23 : (hflVl 23).bind (fun x => x.head?) = some 3 := by decide
theorem hflHead_25 : (hflVl 25).bind (fun x => x.head?) = some 0 := by decide
theorem hflHead_26 : (hflVl 26).bind (fun x => x.head?) = some 1 := by decide
theorem hflHead_27 : (hflVl 27).bind (fun x => x.head?) = some 3 := by decide
theorem hflHead_29 : (hflVl 29).bind (fun x => x.head?) = some 0 := by decide
theorem hflHead_30 : (hflVl 30).bind (fun x => x.head?) = some 1 := by decide
theorem hflHead_31 : (hflVl 31).bind (fun x => x.head?) = some 2 := by decide

theorem getLabelV_T {k : Kernel} {c abc A B C D ab bc ca ad bd cd X1 X2 X3 : Nat}
    (h : Anat k c abc A B C D ab bc ca ad bd cd X1 X2 X3) :
    (tetOf A B C D ab bc ca ad bd cd abc X1 X2 X3).getLabelV A = some 0 ∧ (tetOf A B C D ab bc ca ad bd cd abc X1 X2 X3).getLabelV B = some 1 ∧ (tetOf A B C D ab bc ca ad bd cd abc X1 X2 X3).getLabelV C = some 2 ∧ (tetOf A B C D ab bc ca ad bd cd abc X1 X2 X3).getLabelV D = some 3 := by
  obtain ⟨n1, n2, n3, n4, n5, n6⟩ := h.nd
  refine ⟨?_, ?_, ?_, ?_⟩ <;>
    simp [TetTopo.getLabelV, tetOf, List.findIdx?_cons, n1, n2, n3, n4, n5, n6, n1.symm, n2.symm, n3.symm, n4.symm, n5.symm, n6.symm]

theorem getLabelHE_T {k : Kernel} {c abc A B C D ab bc ca ad bd cd X1 X2 X3 : Nat}
    (h : Anat k c abc A B C D ab bc ca ad bd cd X1 X2 X3) :
    (tetOf A B C D ab bc ca ad bd cd abc X1 X2 X3).getLabelHE ab = some 0 ∧ (tetOf A B C D ab bc ca ad bd cd abc X1 X2 X3).getLabelHE bc = some 1 ∧ (tetOf A B C D ab bc ca ad bd cd abc X1 X2 X3).getLabelHE ca = some 2 ∧ (tetOf A B C D ab bc ca ad bd cd abc X1 X2 X3).getLabelHE cd = some 3 ∧ (tetOf A B C D ab bc ca ad bd cd abc X1 X2 X3).getLabelHE ad = some 4 ∧ (tetOf A B C D ab bc ca ad bd cd abc X1 X2 X3).getLabelHE bd = some 5 ∧
    (tetOf A B C D ab bc ca ad bd cd abc X1 X2 X3).getLabelHE (opp ab) = some 8 ∧ (tetOf A B C D ab bc ca ad bd cd abc X1 X2 X3).getLabelHE (opp bc) = some 9 ∧ (tetOf A B C D ab bc ca ad bd cd abc X1 X2 X3).getLabelHE (opp ca) = some 10 ∧ (tetOf A B C D ab bc ca ad bd cd abc X1 X2 X3).getLabelHE (opp cd) = some 11 ∧ (tetOf A B C D ab bc ca ad bd cd abc X1 X2 X3).getLabelHE (opp ad) = some 12 ∧ (tetOf A B C D ab bc ca ad bd cd abc X1 X2 X3).getLabelHE (opp bd) = some 13 := by
  have E := h.edgesNe
  refine ⟨?_, ?_, ?_, ?_, ?_, ?_, ?_, ?_, ?_, ?_, ?_, ?_⟩ <;>
    simp [TetTopo.getLabelHE, tetOf, List.findIdx?_cons, eOf_opp, self_eq_opp, opp_eq_self,
      helOpp_0, helOpp_1, helOpp_2, helOpp_3, helOpp_4, helOpp_5, E.ab_bc, E.ab_bc.symm, E.ab_ca, E.ab_ca.symm, E.ab_cd, E.ab_cd.symm, E.ab_ad, E.ab_ad.symm, E.ab_bd, E.ab_bd.symm, E.bc_ca, E.bc_ca.symm, E.bc_cd, E.bc_cd.symm, E.bc_ad, E.bc_ad.symm, E.bc_bd, E.bc_bd.symm, E.ca_cd, E.ca_cd.symm, E.ca_ad, E.ca_ad.symm, E.ca_bd, E.ca_bd.symm, E.cd_ad, E.cd_ad.symm, E.cd_bd, E.cd_bd.symm, E.ad_bd, E.ad_bd.symm]

theorem getLabelHF_T {k : Kernel} {c abc A B C D ab bc ca ad bd cd X1 X2 X3 : Nat}
    (h : Anat k c abc A B C D ab bc ca ad bd cd X1 X2 X3) :
    (tetOf A B C D ab bc ca ad bd cd abc X1 X2 X3).getLabelHF X2 = some 0 ∧ (tetOf A B C D ab bc ca ad bd cd abc X1 X2 X3).getLabelHF X3 = some 4 ∧ (tetOf A B C D ab bc ca ad bd cd abc X1 X2 X3).getLabelHF X1 = some 8 ∧ (tetOf A B C D ab bc ca ad bd cd abc X1 X2 X3).getLabelHF abc = some 12 ∧
    (tetOf A B C D ab bc ca ad bd cd abc X1 X2 X3).getLabelHF (opp X2) = some 16 ∧ (tetOf A B C D ab bc ca ad bd cd abc X1 X2 X3).getLabelHF (opp X3) = some 20 ∧ (tetOf A B C D ab bc ca ad bd cd abc X1 X2 X3).getLabelHF (opp X1) = some 24 ∧ (tetOf A B C D ab bc ca ad bd cd abc X1 X2 X3).getLabelHF (opp abc) = some 28 := by
  have F := h.facesNe
  refine ⟨?_, ?_, ?_, ?_, ?_, ?_, ?_, ?_⟩ <;>
    simp [TetTopo.getLabelHF, tetOf, List.findIdx?_cons, eOf_opp, self_eq_opp, opp_eq_self,
      hflOpp_0, hflOpp_4, hflOpp_8, hflOpp_12, F.f01, F.f01.symm, F.f02, F.f02.symm, F.f03, F.f03.symm, F.f12, F.f12.symm, F.f13, F.f13.symm, F.f23, F.f23.symm]
theorem hflRow_0 : hflRow? 0 = some ⟨"OppA", 0, some 0, false, [], 16, 16, true, 0, 0, 16, 16, false⟩ := by decide
theorem hflRow_4 : hflRow? 4 = some ⟨"OppB", 4, some 1, false, [], 20, 20, true, 4, 4, 20, 20, false⟩ := by decide
theorem hflRow_8 : hflRow? 8 = some ⟨"OppC", 8, some 2, false, [], 24, 24, true, 8, 8, 24, 24, false⟩ := by decide
theorem hflRow_12 : hflRow? 12 = some ⟨"OppD", 12, some 3, false, [], 28, 28, true, 12, 12, 28, 28, false⟩ := by decide

theorem getLabelHFV_T {k : Kernel} {c abc A B C D ab bc ca ad bd cd X1 X2 X3 : Nat}
    (h : Anat k c abc A B C D ab bc ca ad bd cd X1 X2 X3) :
    (tetOf A B C D ab bc ca ad bd cd abc X1 X2 X3).getLabelHFV X2 B = some 1 ∧
    (tetOf A B C D ab bc ca ad bd cd abc X1 X2 X3).getLabelHFV X2 C = some 2 ∧
    (tetOf A B C D ab bc ca ad bd cd abc X1 X2 X3).getLabelHFV X2 D = some 3 ∧
    (tetOf A B C D ab bc ca ad bd cd abc X1 X2 X3).getLabelHFV X3 A = some 5 ∧
    (tetOf A B C D ab bc ca ad bd cd abc X1 X2 X3).getLabelHFV X3 C = some 6 ∧
    (tetOf A B C D ab bc ca ad bd cd abc X1 X2 X3).getLabelHFV X3 D = some 7 ∧
    (tetOf A B C D ab bc ca ad bd cd abc X1 X2 X3).getLabelHFV X1 A = some 9 ∧
    (tetOf A B C D ab bc ca ad bd cd abc X1 X2 X3).getLabelHFV X1 B = some 10 ∧
    (tetOf A B C D ab bc ca ad bd cd abc X1 X2 X3).getLabelHFV X1 D = some 11 ∧
    (tetOf A B C D ab bc ca ad bd cd abc X1 X2 X3).getLabelHFV abc A = some 13 ∧
    (tetOf A B C D ab bc ca ad bd cd abc X1 X2 X3).getLabelHFV abc B = some 14 ∧
    (tetOf A B C D ab bc ca ad bd cd abc X1 X2 X3).getLabelHFV abc C = some 15 ∧
    (tetOf A B C D ab bc ca ad bd cd abc X1 X2 X3).getLabelHFV (opp X2) B = some 17 ∧
    (tetOf A B C D ab bc ca ad bd cd abc X1 X2 X3).getLabelHFV (opp X2) C = some 18 ∧
    (tetOf A B C D ab bc ca ad bd cd abc X1 X2 X3).getLabelHFV (opp X2) D = some 19 ∧
    (tetOf A B C D ab bc ca ad bd cd abc X1 X2 X3).getLabelHFV (opp X3) A = some 21 ∧
    (tetOf A B C D ab bc ca ad bd cd abc X1 X2 X3).getLabelHFV (opp X3) C = some 22 ∧
    (tetOf A B C D ab bc ca ad bd cd abc X1 X2 X3).getLabelHFV (opp X3) D = some 23 ∧
    (tetOf A B C D ab bc ca ad bd cd abc X1 X2 X3).getLabelHFV (opp X1) A = some 25 ∧
    (tetOf A B C D ab bc ca ad bd cd abc X1 X2 X3).getLabelHFV (opp X1) B = some 26 ∧
    (tetOf A B C D ab bc ca ad bd cd abc X1 X2 X3).getLabelHFV (opp X1) D = some 27 ∧
    (tetOf A B C D ab bc ca ad bd cd abc X1 X2 X3).getLabelHFV (opp abc) A = some 29 ∧
    (tetOf A B C D ab bc ca ad bd cd abc X1 X2 X3).getLabelHFV (opp abc) B = some 30 ∧
    (tetOf A B C D ab bc ca ad bd cd abc X1 X2 X3).getLabelHFV (opp abc) C = some 31 := by
  have F := h.facesNe
  obtain ⟨g0, g1, g2, g3⟩ := getLabelV_T h
  refine ⟨?_, ?_, ?_, ?_, ?_, ?_, ?_, ?_, ?_, ?_, ?_, ?_, ?_, ?_, ?_, ?_, ?_, ?_, ?_, ?_, ?_, ?_, ?_, ?_⟩ <;>
    simp [TetTopo.getLabelHFV, TetTopo.tryGetLabel, g0, g1, g2, g3, hflVal_OppA, hflVal_OppB, hflVal_OppC, hflVal_OppD,
      hflRow_0, hflRow_4, hflRow_8, hflRow_12, opp_opp, self_eq_opp, opp_eq_self, ne1, ne2, ne3, ne4, F.f01, F.f01.symm, F.f02, F.f02.symm, F.f03, F.f03.symm, F.f12, F.f12.symm, F.f13, F.f13.symm, F.f23, F.f23.symm,
      hfhL_T_0, hfhL_T_4, hfhL_T_8, hfhL_T_12, hfhL_T_16, hfhL_T_20, hfhL_T_24, hfhL_T_28,
      hflHead_1, hflHead_2, hflHead_3, hflHead_5, hflHead_6, hflHead_7, hflHead_9, hflHead_10, hflHead_11, hflHead_13, hflHead_14, hflHead_15, hflHead_17, hflHead_18, hflHead_19, hflHead_21, hflHead_22, hflHead_23, hflHead_25, hflHead_26, hflHead_27, hflHead_29, hflHead_30, hflHead_31]

/-- conclusion 5: `get_label` gives every accessor's label back -/
theorem getLabel_T {k : Kernel} {c abc A B C D ab bc ca ad bd cd X1 X2 X3 : Nat}
    (h : Anat k c abc A B C D ab bc ca ad bd cd X1 X2 X3) :
    (∀ l < 4, ∀ v, (tetOf A B C D ab bc ca ad bd cd abc X1 X2 X3).vhL l = some v → (tetOf A B C D ab bc ca ad bd cd abc X1 X2 X3).getLabelV v = some l) ∧
    (∀ r ∈ hel, ∀ g, (tetOf A B C D ab bc ca ad bd cd abc X1 X2 X3).hehL r.val = some g → (tetOf A B C D ab bc ca ad bd cd abc X1 X2 X3).getLabelHE g = some r.val) ∧
    (∀ r ∈ hfl, ∀ hf, (tetOf A B C D ab bc ca ad bd cd abc X1 X2 X3).hfhL r.val = some hf → (tetOf A B C D ab bc ca ad bd cd abc X1 X2 X3).getLabelHF hf = some (r.val - r.val % 4)) ∧
    (∀ r ∈ hfl, r.hasStart = true → ∀ hf v, (tetOf A B C D ab bc ca ad bd cd abc X1 X2 X3).hfhL r.val = some hf → (tetOf A B C D ab bc ca ad bd cd abc X1 X2 X3).vhL (r.spelled.getD 0 0) = some v →
      (tetOf A B C D ab bc ca ad bd cd abc X1 X2 X3).getLabelHFV hf v = some r.val) := by
  refine ⟨?_, ?_, ?_, ?_⟩
  · obtain ⟨g0, g1, g2, g3⟩ := getLabelV_T h
    intro l hl v hv
    have : l = 0 ∨ l = 1 ∨ l = 2 ∨ l = 3 := by omega
    rcases this with rfl | rfl | rfl | rfl <;> cases hv <;> assumption
  · obtain ⟨e0, e1, e2, e3, e4, e5, e8, e9, e10, e11, e12, e13⟩ := getLabelHE_T h
    intro r hr g hg
    simp only [hel, List.mem_cons, List.not_mem_nil, or_false] at hr
    rcases hr with rfl | rfl | rfl | rfl | rfl | rfl | rfl | rfl | rfl | rfl | rfl | rfl <;> cases hg <;> assumption
  · obtain ⟨f0, f4, f8, f12, f16, f20, f24, f28⟩ := getLabelHF_T h
    intro r hr hf hh
    simp only [hfl, List.mem_cons, List.not_mem_nil, or_false] at hr
    rcases hr with rfl | rfl | rfl | rfl | rfl | rfl | rfl | rfl | rfl | rfl | rfl | rfl | rfl | rfl | rfl | rfl | rfl | rfl | rfl | rfl | rfl | rfl | rfl | rfl | rfl | rfl | rfl | rfl | rfl | rfl | rfl | rfl <;> cases hh <;> assumption
  · obtain ⟨q1, q2, q3, q5, q6, q7, q9, q10, q11, q13, q14, q15, q17, q18, q19, q21, q22, q23, q25, q26, q27, q29, q30, q31⟩ := getLabelHFV_T h
    intro r hr hst hf v hh hv
    simp only [hfl, List.mem_cons, List.not_mem_nil, or_false] at hr
    rcases hr with rfl | rfl | rfl | rfl | rfl | rfl | rfl | rfl | rfl | rfl | rfl | rfl | rfl | rfl | rfl | rfl | rfl | rfl | rfl | rfl | rfl | rfl | rfl | rfl | rfl | rfl | rfl | rfl | rfl | rfl | rfl | rfl <;> first | (exact absurd hst (by decide)) | (cases hh; cases hv; assumption)

/-! ### from the hypotheses to the anatomy -/

/-- what the theorems assume about the cell `c`, its halfface `abc` and the optional start vertex `a` -/
structure TetHyps (k : Kernel) (c abc : Nat) (a : Option Nat) : Prop where
  /-- the cell is a tetrahedron in the sense of the vertex cycles of its halffaces -/
  isTet : IsTet k c
  /-- `abc` is a halfface of the cell -/
  mem : abc ∈ k.cellAt c
  /-- the start vertex, if given, lies on `abc` -/
  start : ∀ v, a = some v → v ∈ k.hfVerts abc
  /-- every halfface of the cell is a closed loop of halfedges (what `add_face` checks) -/
  loops : ∀ hf ∈ k.cellAt c, LoopHF k hf
  /-- with every halfedge of the cell its opposite is a halfedge of the cell (second half of what
      `add_cell` checks, `ClosedSurface`) -/
  closed : OppClosedCell k c

theorem TetHyps.of_closedSurface {k : Kernel} {c abc : Nat} {a : Option Nat} (ht : IsTet k c) (hm : abc ∈ k.cellAt c)
    (ha : ∀ v, a = some v → v ∈ k.hfVerts abc) (hloop : ∀ hf ∈ k.cellAt c, LoopHF k hf)
    (hcl : ClosedSurface k (k.cellAt c)) : TetHyps k c abc a := ⟨ht, hm, ha, hloop, hcl.2⟩

/-- the structure lemma: vertices A B C D, halfedges ab bc ca ad bd cd, halffaces X1 X2 X3 -/
theorem TetHyps.anat {k : Kernel} {c abc : Nat} {a : Option Nat} (H : TetHyps k c abc a) :
    ∃ A B C D ab bc ca ad bd cd X1 X2 X3, Anat k c abc A B C D ab bc ca ad bd cd X1 X2 X3 ∧
      StartAt k abc a ab bc ca ∧ (∀ v, a = some v → A = v) ∧ (a = none → [A, B, C] = k.hfVerts abc) ∧
      (∀ x, x ∈ k.cellVertSet c ↔ x ∈ [A, B, C, D]) := by
  obtain ⟨p, q, r, s, _, _, hT⟩ := H.isTet.elim
  obtain ⟨x, y, z, w, hv, hT'⟩ := tetOn_rebase hT H.mem
  obtain ⟨A, B, C, ab, bc, ca, hT'', t0, hS, ha1, ha2⟩ := base_choice hT' hv (H.loops abc H.mem) H.start
  obtain ⟨ad, bd, cd, X1, X2, X3, hA⟩ := anat_of hT'' t0 H.mem H.loops H.closed
  exact ⟨A, B, C, w, ab, bc, ca, ad, bd, cd, X1, X2, X3, hA, hS, ha1, ha2, cellVertSet_mem_iff hT''⟩

theorem Tri.rotH {k : Kernel} {hf x y z e1 e2 e3 : Nat} (h : Tri k hf x y z e1 e2 e3) : Rot [e1, e2, e3] (k.hfHes hf) := by
  rcases h.hes with e | e | e <;> rw [e] <;> simp [Rot, List.rotateLeft]

/-! ### the theorems about `TetTopology(mesh, ch, abc, a)` -/

/-- 1: the constructor neither loops for ever nor reads an invalid handle -/
theorem mk_no_fault {k : Kernel} {c abc : Nat} {a : Option Nat} (H : TetHyps k c abc a) : (Tet.mk k c abc a).fault = false := by
  obtain ⟨A, B, C, D, ab, bc, ca, ad, bd, cd, X1, X2, X3, hA, hS, _⟩ := H.anat
  rw [mk_eval hA hS]; rfl

/-- 2: the four vertex labels are the four vertices of the cell; (A, B, C) is the cycle of `abc` read from `a`
    (as stored when no `a` is given) -/
theorem mk_vertices {k : Kernel} {c abc : Nat} {a : Option Nat} (H : TetHyps k c abc a) :
    ∃ A B C D, (Tet.mk k c abc a).vh = [some A, some B, some C, some D] ∧ [A, B, C, D].Nodup ∧
      (∀ x, x ∈ k.cellVertSet c ↔ x ∈ [A, B, C, D]) ∧ Rot [A, B, C] (k.hfVerts abc) ∧
      (∀ v, a = some v → A = v) ∧ (a = none → [A, B, C] = k.hfVerts abc) := by
  obtain ⟨A, B, C, D, ab, bc, ca, ad, bd, cd, X1, X2, X3, hA, hS, h1, h2, h3⟩ := H.anat
  refine ⟨A, B, C, D, ?_, (nodup4 A B C D).mpr hA.nd, h3, hA.t0.rotV, h1, h2⟩
  rw [mk_eval hA hS]; rfl

/-- 3: every labelled halfedge joins its two labelled vertices and is a halfedge of the cell -/
theorem mk_halfedges {k : Kernel} {c abc : Nat} {a : Option Nat} (H : TetHyps k c abc a) :
    ∀ r ∈ hel, ∃ g, (Tet.mk k c abc a).hehL r.val = some g ∧ some (k.fromV g) = (Tet.mk k c abc a).vhL r.from_ ∧
      some (k.toV g) = (Tet.mk k c abc a).vhL r.to_ ∧ g ∈ k.cellHalfedges (k.cellAt c) := by
  obtain ⟨A, B, C, D, ab, bc, ca, ad, bd, cd, X1, X2, X3, hA, hS, _⟩ := H.anat
  rw [mk_eval hA hS]; exact halfedges_T hA

/-- 4: every halfface label designates the cell's halfface (outer labels: the halfface whose opposite is
    the cell's) that misses the omitted vertex / lies on the spelled vertices; for a label with start
    vertex, `triangle_topology` gives the spelled vertices and three halfedges that join them in turn and
    are the halfedges of that halfface in that rotation -/
theorem mk_halffaces {k : Kernel} {c abc : Nat} {a : Option Nat} (H : TetHyps k c abc a) :
    ∀ r ∈ hfl, ∃ hf, (Tet.mk k c abc a).hfhL r.val = some hf ∧
      (if r.isInner then hf ∈ k.cellAt c else opp hf ∈ k.cellAt c) ∧
      match r.omits with
      | some x => ∀ v, (Tet.mk k c abc a).vhL x = some v → v ∉ k.hfVerts hf
      | none => ∃ v0 v1 v2 h0 h1 h2, r.spelled.map (Tet.mk k c abc a).vhL = [some v0, some v1, some v2] ∧
          (Tet.mk k c abc a).triangle r.val = some ([some v0, some v1, some v2], [some h0, some h1, some h2]) ∧
          Rot [v0, v1, v2] (k.hfVerts hf) ∧ Rot [h0, h1, h2] (k.hfHes hf) ∧
          k.fromV h0 = v0 ∧ k.toV h0 = v1 ∧ k.fromV h1 = v1 ∧ k.toV h1 = v2 ∧ k.fromV h2 = v2 ∧ k.toV h2 = v0 := by
  obtain ⟨A, B, C, D, ab, bc, ca, ad, bd, cd, X1, X2, X3, hA, hS, _⟩ := H.anat
  rw [mk_eval hA hS]
  intro r hr
  obtain ⟨hf, h1, h2, h3⟩ := halffaces_T hA r hr
  refine ⟨hf, h1, h2, ?_⟩
  split
  · rename_i x hx; rw [hx] at h3; exact h3
  · rename_i hx; rw [hx] at h3
    obtain ⟨v0, v1, v2, h0, h1', h2', e1, e2, tr⟩ := h3
    exact ⟨v0, v1, v2, h0, h1', h2', e1, e2, tr.rotV, tr.rotH, tr.f1, tr.t1, tr.f2, tr.t2, tr.f3, tr.t3⟩

/-- 5: `get_label` inverts the accessors (`get_label(HFH)` gives the label without start vertex of the
    same side, `OppX` / `OuterOppX`) -/
theorem mk_getLabel {k : Kernel} {c abc : Nat} {a : Option Nat} (H : TetHyps k c abc a) :
    (∀ l < 4, ∀ v, (Tet.mk k c abc a).vhL l = some v → (Tet.mk k c abc a).getLabelV v = some l) ∧
    (∀ r ∈ hel, ∀ g, (Tet.mk k c abc a).hehL r.val = some g → (Tet.mk k c abc a).getLabelHE g = some r.val) ∧
    (∀ r ∈ hfl, ∀ hf, (Tet.mk k c abc a).hfhL r.val = some hf →
      (Tet.mk k c abc a).getLabelHF hf = some (r.val - r.val % 4)) ∧
    (∀ r ∈ hfl, r.hasStart = true → ∀ hf v, (Tet.mk k c abc a).hfhL r.val = some hf →
      (Tet.mk k c abc a).vhL (r.spelled.getD 0 0) = some v → (Tet.mk k c abc a).getLabelHFV hf v = some r.val) := by
  obtain ⟨A, B, C, D, ab, bc, ca, ad, bd, cd, X1, X2, X3, hA, hS, _⟩ := H.anat
  rw [mk_eval hA hS]; exact getLabel_T hA

/-! ### summary -/

/-- conclusions 1-5 for a constructed `t` -/
structure LabelsOK (k : Kernel) (c abc : Nat) (a : Option Nat) (t : TetTopo) : Prop where
  no_fault : t.fault = false
  vertices : ∃ A B C D, t.vh = [some A, some B, some C, some D] ∧ [A, B, C, D].Nodup ∧
      (∀ x, x ∈ k.cellVertSet c ↔ x ∈ [A, B, C, D]) ∧ Rot [A, B, C] (k.hfVerts abc) ∧
      (∀ v, a = some v → A = v) ∧ (a = none → [A, B, C] = k.hfVerts abc)
  halfedges : ∀ r ∈ hel, ∃ g, t.hehL r.val = some g ∧ some (k.fromV g) = t.vhL r.from_ ∧
      some (k.toV g) = t.vhL r.to_ ∧ g ∈ k.cellHalfedges (k.cellAt c)
  halffaces : ∀ r ∈ hfl, ∃ hf, t.hfhL r.val = some hf ∧
      (if r.isInner then hf ∈ k.cellAt c else opp hf ∈ k.cellAt c) ∧
      match r.omits with
      | some x => ∀ v, t.vhL x = some v → v ∉ k.hfVerts hf
      | none => ∃ v0 v1 v2 h0 h1 h2, r.spelled.map t.vhL = [some v0, some v1, some v2] ∧
          t.triangle r.val = some ([some v0, some v1, some v2], [some h0, some h1, some h2]) ∧
          Rot [v0, v1, v2] (k.hfVerts hf) ∧ Rot [h0, h1, h2] (k.hfHes hf) ∧
          k.fromV h0 = v0 ∧ k.toV h0 = v1 ∧ k.fromV h1 = v1 ∧ k.toV h1 = v2 ∧ k.fromV h2 = v2 ∧ k.toV h2 = v0
  getLabelV : ∀ l < 4, ∀ v, t.vhL l = some v → t.getLabelV v = some l
  getLabelHE : ∀ r ∈ hel, ∀ g, t.hehL r.val = some g → t.getLabelHE g = some r.val
  getLabelHF : ∀ r ∈ hfl, ∀ hf, t.hfhL r.val = some hf → t.getLabelHF hf = some (r.val - r.val % 4)
  getLabelHFV : ∀ r ∈ hfl, r.hasStart = true → ∀ hf v, t.hfhL r.val = some hf →
      t.vhL (r.spelled.getD 0 0) = some v → t.getLabelHFV hf v = some r.val

theorem labels_consistent_of {k : Kernel} {c abc : Nat} {a : Option Nat} (H : TetHyps k c abc a) :
    LabelsOK k c abc a (Tet.mk k c abc a) :=
  ⟨mk_no_fault H, mk_vertices H, mk_halfedges H, mk_halffaces H, (mk_getLabel H).1, (mk_getLabel H).2.1,
   (mk_getLabel H).2.2.1, (mk_getLabel H).2.2.2⟩

/-- **C15(c)**: for a cell that is a tetrahedron (`IsTet`), whose halffaces are closed loops and which
    passes the closed-surface test of `add_cell`, `TetTopology(mesh, c, abc, a)` labels vertices, halfedges
    and halffaces consistently with the label tables, and `get_label` inverts every accessor -/
theorem labels_consistent (k : Kernel) (c abc : Nat) (a : Option Nat) (ht : IsTet k c) (hm : abc ∈ k.cellAt c)
    (ha : ∀ v, a = some v → v ∈ k.hfVerts abc) (hloop : ∀ hf ∈ k.cellAt c, LoopHF k hf)
    (hcl : ClosedSurface k (k.cellAt c)) : LabelsOK k c abc a (Tet.mk k c abc a) :=
  labels_consistent_of (TetHyps.of_closedSurface ht hm ha hloop hcl)

/-- the body of `OVM.Props.C15.LabelsConsistent` (copied, so that this file does not import `Props`) -/
def LabelsConsistentStmt : Prop :=
  ∀ (k : Kernel) (c abc : Nat) (a : Option Nat), IsTet k c → abc ∈ k.cellAt c → (∀ v, a = some v → v ∈ k.hfVerts abc) →
    let t := Tet.mk k c abc a
    t.fault = false ∧ (∀ r ∈ OVM.Gen.TetLabels.hel, ∃ h, t.hehL r.val = some h ∧
      some (k.fromV h) = t.vhL r.from_ ∧ some (k.toV h) = t.vhL r.to_)

/-- the conclusion of `LabelsConsistent` under the two additional hypotheses -/
theorem labelsConsistent_of_closed (k : Kernel) (c abc : Nat) (a : Option Nat) (ht : IsTet k c) (hm : abc ∈ k.cellAt c)
    (ha : ∀ v, a = some v → v ∈ k.hfVerts abc) (hloop : ∀ hf ∈ k.cellAt c, LoopHF k hf)
    (hcl : ClosedSurface k (k.cellAt c)) :
    let t := Tet.mk k c abc a
    t.fault = false ∧ (∀ r ∈ OVM.Gen.TetLabels.hel, ∃ h, t.hehL r.val = some h ∧
      some (k.fromV h) = t.vhL r.from_ ∧ some (k.toV h) = t.vhL r.to_) := by
  have L := labels_consistent k c abc a ht hm ha hloop hcl
  refine ⟨L.no_fault, fun r hr => ?_⟩
  obtain ⟨g, h1, h2, h3, _⟩ := L.halfedges r hr
  exact ⟨g, h1, h2, h3⟩

/-! ### witnesses (Task A): `IsTet` alone is not enough

  What the C++ does on these cells (TetTopology.cc:19-78, read on the pinned tree): the constructor has
  no run-time test at all, only `assert`s (cc:38-40, 67-77), which the pinned build compiles out (NDEBUG).
  It searches the other three halffaces for the *handles* `ba()`, `cb()`, `ac()`; a slot whose handle is
  not found keeps the default-constructed invalid handle, and cc:65 then evaluates
  `mesh.to_vertex_handle(ad())` on it (the model's `fault`).  With NDEBUG `HEH(-1).edge_handle()` is
  `EH(-1/2) = EH(0)`, so this reads edge 0 (in range whenever the mesh has an edge): no memory error, a
  silently wrong `d()`; with assertions enabled it is an assertion failure in `halfedge()`.
  So "the cell is the closed boundary of a tetrahedron made of proper (loop) faces" is a precondition of
  `TetTopology`, not a defect: `dupEdgeTet` is refused by `add_cell(…, topologyCheck = true)`;
  `unloopTet` and `backForthTet` ARE accepted by `add_cell(…, true)`, but their faces are not loops and can
  only be created by `add_face(halfedges, topologyCheck = false)` (the default of that parameter;
  `add_face(…, true)` refuses them).  `backForthTet` replayed against the pinned build (NDEBUG, ASan+UBSan on
  the caller's side): no abort; `a b c d = 0 1 2 0` (so `d() == a()`), `ad() = bd() = -1`, `cd() = 8` — exactly
  the model's arrays `heh = [0,1,2,8,none,none]` with `fault = true`. -/

def addEdges (k : Kernel) (es : List (Nat × Nat)) : Kernel := es.foldl (fun k e => (k.addEdge e.1 e.2 true).1) k
def addFaces (k : Kernel) (fs : List (List Nat)) : Kernel := fs.foldl (fun k f => (k.addFace f false).1) k

/-- (ii) a duplicate edge between 0 and 1: the face (1,0,3) uses the *other* edge 1→0 (halfedge 13), so
    `ba()` = 1 is in no halfface of the cell.  All faces are loops; not a closed surface. -/
def dupEdgeTet : Kernel :=
  let k := addEdges (({} : Kernel).addNVertices 4) [(0, 1), (1, 2), (2, 0), (0, 3), (1, 3), (2, 3), (0, 1)]
  let k := addFaces k [[0, 2, 4], [13, 6, 9], [3, 8, 11], [5, 10, 7]]
  (k.addCell [0, 2, 4, 6] false).1

/-- (i) every face lists, for its vertex cycle (x,y,z), the halfedges x→z, y→x, z→y: the right start
    vertices, but no loop.  Closed surface (all twelve halfedges, each once). -/
def unloopTet : Kernel :=
  let k := addEdges (({} : Kernel).addNVertices 4) [(0, 1), (1, 2), (2, 0), (0, 3), (1, 3), (2, 3)]
  let k := addFaces k [[5, 1, 3], [8, 0, 7], [10, 2, 9], [6, 4, 11]]
  (k.addCell [0, 2, 4, 6] true).1

/-- (iii) the base face is 0→1, 1→0, 2→0 (vertex cycle (0,1,2)); `ba()` = 1 lies in the base face itself,
    so no other halfface contains it.  Closed surface. -/
def backForthTet : Kernel :=
  let k := addEdges (({} : Kernel).addNVertices 4) [(0, 1), (2, 0), (0, 3), (1, 3), (2, 3), (1, 2)]
  let k := addFaces k [[0, 1, 2], [6, 4, 5], [11, 10, 7], [3, 8, 9]]
  (k.addCell [0, 2, 4, 6] true).1

/-- WITNESS: `IsTet` and closed loops, but not closed under `opp`: the slot AD stays invalid (`fault`).
    The hypothesis `ClosedSurface` / `OppClosedCell` cannot be dropped. -/
theorem labelsConsistent_needs_closed :
    ∃ k c abc, IsTet k c ∧ abc ∈ k.cellAt c ∧ (∀ hf ∈ k.cellAt c, LoopHF k hf) ∧
      ¬ ClosedSurface k (k.cellAt c) ∧ (Tet.mk k c abc none).fault = true :=
  ⟨dupEdgeTet, 0, 0, by decide +kernel⟩

/-- WITNESS: `IsTet` and a closed surface (accepted by `add_cell` with topology check: the cell exists), but
    the faces are not loops: no fault, yet the halfedge labelled AB (handle 5, 0→2) does not end in the
    vertex labelled B.  The hypothesis `LoopHF` cannot be dropped. -/
theorem labelsConsistent_needs_loops :
    ∃ k c abc, IsTet k c ∧ abc ∈ k.cellAt c ∧ ClosedSurface k (k.cellAt c) ∧ k.cells.length = 1 ∧
      (Tet.mk k c abc none).fault = false ∧ (Tet.mk k c abc none).hehL 0 = some 5 ∧
      some (k.toV 5) ≠ (Tet.mk k c abc none).vhL 1 :=
  ⟨unloopTet, 0, 0, by decide +kernel⟩

/-- WITNESS: `IsTet` and a closed surface (accepted by `add_cell` with topology check), faces not loops:
    the constructor reads the invalid handle. -/
theorem labelsConsistent_fault_on_accepted_cell :
    ∃ k c abc, IsTet k c ∧ abc ∈ k.cellAt c ∧ ClosedSurface k (k.cellAt c) ∧ k.cells.length = 1 ∧
      (Tet.mk k c abc none).fault = true :=
  ⟨backForthTet, 0, 0, by decide +kernel⟩

/-- `LabelsConsistent` as stated in Props/C15.lean is false -/
theorem not_labelsConsistentStmt : ¬ LabelsConsistentStmt := by
  intro H
  have h1 : (Tet.mk dupEdgeTet 0 0 none).fault = false :=
    (H dupEdgeTet 0 0 none (by decide +kernel) (by decide +kernel) (fun v hv => by cases hv)).1
  revert h1
  decide +kernel

/-! ### non-vacuity -/

/-- two tetrahedra glued along the face (0,1,2), stored once: cell 1 uses its odd halfface (as `twoTets` in
    Props/C15.lean) -/
def labTwoTets : Kernel :=
  let k1 := ({} : Kernel).addNVertices 5
  let k2 := (k1.tetAddCell4 0 1 2 3 true).1
  (k2.tetAddCell4 0 2 1 4 true).1

/-- the hypotheses hold for cell 1 (halffaces 1, 8, 10, 12), base halfface 1 = opposite of the first cell's
    halfface 0, start vertex 2 -/
theorem labTwoTets_hyps : TetHyps labTwoTets 1 1 (some 2) := by
  have h : IsTet labTwoTets 1 ∧ 1 ∈ labTwoTets.cellAt 1 ∧ 2 ∈ labTwoTets.hfVerts 1 ∧
      (∀ hf ∈ labTwoTets.cellAt 1, LoopHF labTwoTets hf) ∧ ClosedSurface labTwoTets (labTwoTets.cellAt 1) := by
    decide +kernel
  exact TetHyps.of_closedSurface h.1 h.2.1 (fun v hv => by cases hv; exact h.2.2.1) h.2.2.2.1 h.2.2.2.2

example : LabelsOK labTwoTets 1 1 (some 2) (Tet.mk labTwoTets 1 1 (some 2)) := labels_consistent_of labTwoTets_hyps

-- the same instance evaluated (a test, labelled so): A = 2, the cycle of halfface 1 is (0,2,1) read from 2;
-- the outer label ABD (25) is halfface 13 = opp 12 on (2,1,4); `get_label(hfh 0, vertex 1)` = BAC (30)
example : labTwoTets.hfVerts 1 = [0, 2, 1] ∧
    Tet.mk labTwoTets 1 1 (some 2) =
      { vh := [some 2, some 1, some 0, some 4], heh := [some 3, some 1, some 5, some 15, some 17, some 12],
        hfh := [some 8, some 10, some 12, some 1], fault := false } ∧
    (Tet.mk labTwoTets 1 1 (some 2)).hfhL 25 = some 13 ∧
    (Tet.mk labTwoTets 1 1 (some 2)).triangle 25 = some ([some 2, some 1, some 4], [some 3, some 12, some 16]) ∧
    (Tet.mk labTwoTets 1 1 (some 2)).getLabelHFV 0 1 = some 30 ∧
    (Tet.mk labTwoTets 1 1 (some 2)).getLabelHE 16 = some 12 := by decide +kernel

end OVM.Tet.LabelsCell

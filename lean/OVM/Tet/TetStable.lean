import OVM.Hex.Stable
import OVM.Tet.TetConstruct
import OVM.Tet.CollapseQuads
/-
  C15, deleting / swapping / collecting histories: EVERY LIVE CELL OF A TETRAHEDRAL MESH IS A TETRAHEDRON ON FOUR
  DISTINCT VERTICES AFTER ANY HISTORY of the covered operations, in every deletion mode (deferred, immediate
  index-shifting, immediate fast) and every bottom-up configuration.

  * `TetQ k := LiveLoops k ∧ LiveTet k`: every LIVE face is a closed triangle (`Loop3`), every LIVE cell is `IsTet`.
    The version over all STORED faces / cells (`FaceLoops ∧ AllTet`, OVM/Tet/TetBuild.lean, TetCells.lean) is NOT an
    invariant of the swaps: in deferred mode the cache-guided `swap_edge_indices` / `swap_face_indices` /
    `swap_vertex_indices` do not rename inside the definitions of entities that are flagged as deleted (K3,
    OVM/Refine/CacheSwapSpec.lean) — witness `sampleStale` at the end of this file.  C15 speaks about live cells.
  * `stable_tetQ : HexAll.Stable TetQ` — the ten atomic definition changes of H1's skeleton (OVM/Hex/Stable.lean):
    `Loop3` and `IsTet` are invariant under a consistent renaming of halfface / halfedge / vertex handles
    (`TetSt.loop3_map`, `TetSt.isTet_transport`, the latter through `TetOn.transfer`), and every atom is such a
    renaming on what a live face / cell uses (`corr2`, `corr1`, `relabelHalf`, `relabelId`).
  * `tetQ_step` (= `HexAll.stable_step`): every `delete_*`, `swap_*_indices`, `collect_garbage`, `enable_*` keeps `TetQ`
    on `Global.GInv` states for valid arguments; `tetQ_deleteVertex` … `tetQ_enableDeferred`.
  * `TetQ.tetShape : TetQ k → TetShape k`.
  * `tetQ_collapsePre` / `tetQ_collapseEdge`: `collapse_edge` keeps `TetQ` (from `collapse_state`, `newCell_quad`).
  * history theorem `tetShape_run` / `tetShape_reachable` over the tet driver vocabulary `TetOp`, invariant
    `TetSInv = GInv ∧ ValenceShape ∧ TetQ` (`GInv ∧ ValenceShape` through T1's `tinv_stepTetX`; the name `SInv` is taken
    by OVM/Refine/CacheAssembly.lean), side conditions `ShapeOK`:
      - every deleting / swapping / collecting / mode-switching base operation, `add_vertex`, `add_n_vertices`,
        `add_edge`, `clear`: K5's `Global.OpOK` (handles in range, `add_edge` on live vertices);
      - `add_halfface(a,b,c)` (unchecked), `add_cell(v0..v3)`, topology-CHECKED `add_cell(halffaces)`: `BuildOK`
        (OVM/Tet/TetConstruct.lean) + vertex and edge caches on + `Unflagged` (no face / cell flag pending: automatic
        in immediate mode and after `collect_garbage`, `unflagged_of_immediate`, `unflagged_of_noGC`) — the construction
        theorems are stated for meshes ALL of whose stored faces are closed triangles, which pending flags + swaps break;
      - `probeMode`: nothing;
      - `collapse_edge h`: `CPre'` = stored faces closed triangles, all caches, link condition (in the state with
        deferred deletion switched on, `collapseK0`), and the GAP hypothesis `GInv (collapsePre k h)`;
      - NOT covered (`False`): `set_edge/face/cell`, `add_face(halfedges)`, `add_face(vertices)`, unchecked
        `add_cell(halffaces)`, `add_halfedge`, `add_halfface(halfedges)`, checked `add_halfface(a,b,c)`,
        `add_cell(vertex vector)`, `split_edge`, `split_face`.
  Proof-only file.
-/
namespace OVM
namespace Kernel
open Global ScanDel HexAll

/-! ### the predicate -/

/-- every LIVE face is a closed triangle -/
def LiveLoops (k : Kernel) : Prop := ∀ f, k.liveF f = true → Loop3 k (k.faceAt f)
/-- every LIVE cell is a tetrahedron -/
def LiveTet (k : Kernel) : Prop := ∀ c, k.liveC c = true → IsTet k c

instance (k : Kernel) : Decidable (LiveLoops k) :=
  decidable_of_iff (∀ f ∈ List.range k.nF, k.liveF f = true → Loop3 k (k.faceAt f))
    ⟨fun h f hl => h f (List.mem_range.mpr (liveF_lt hl)) hl, fun h f _ hl => h f hl⟩
instance (k : Kernel) : Decidable (LiveTet k) :=
  decidable_of_iff (∀ c ∈ List.range k.nC, k.liveC c = true → IsTet k c)
    ⟨fun h c hl => h c (List.mem_range.mpr (liveC_lt hl)) hl, fun h c _ hl => h c hl⟩

def TetQ (k : Kernel) : Prop := LiveLoops k ∧ LiveTet k

instance (k : Kernel) : Decidable (TetQ k) := by unfold TetQ; infer_instance

namespace TetSt

/-! ### renaming transport of `Loop3` and `IsTet` -/

theorem loop3_map {k k' : Kernel} {l : List Nat} (σ τ : Nat → Nat)
    (hf : ∀ a ∈ l, k'.fromV (σ a) = τ (k.fromV a)) (ht : ∀ a ∈ l, k'.toV (σ a) = τ (k.toV a))
    (h : Loop3 k l) : Loop3 k' (l.map σ) := by
  unfold Loop3 at h
  split at h
  · rename_i x y z
    obtain ⟨h1, h2, h3⟩ := h
    show k'.toV (σ x) = k'.fromV (σ y) ∧ k'.toV (σ y) = k'.fromV (σ z) ∧ k'.toV (σ z) = k'.fromV (σ x)
    rw [hf x (by simp), hf y (by simp), hf z (by simp), ht x (by simp), ht y (by simp), ht z (by simp), h1, h2, h3]
    exact ⟨rfl, rfl, rfl⟩
  · exact absurd h id

theorem loop3_congr {k k' : Kernel} {l : List Nat} (hh : ∀ a, k'.halfedge a = k.halfedge a) (h : Loop3 k l) : Loop3 k' l := by
  have := loop3_map (k' := k') id id (fun a _ => by unfold fromV; rw [hh]; rfl) (fun a _ => by unfold toV; rw [hh]; rfl) h
  rwa [List.map_id] at this

theorem halfedge_of_edges {k k' : Kernel} (he : k'.edges = k.edges) (a : Nat) : k'.halfedge a = k.halfedge a := by
  unfold halfedge edgeAt; rw [he]

theorem hfVerts_map {k k' : Kernel} {x y : Nat} (σ τ : Nat → Nat) (hh : k'.hfHes y = (k.hfHes x).map σ)
    (hv : ∀ a ∈ k.hfHes x, k'.fromV (σ a) = τ (k.fromV a)) : k'.hfVerts y = (k.hfVerts x).map τ := by
  unfold hfVerts
  rw [hh, List.map_map, List.map_map]
  exact List.map_congr_left (fun a ha => hv a ha)

theorem nodup4_map {p q r s : Nat} (τ : Nat → Nat) (S : Nat → Prop) (hS : ∀ x ∈ [p, q, r, s], S x)
    (hinj : ∀ u v, S u → S v → τ u = τ v → u = v) (hd : [p, q, r, s].Nodup) : [τ p, τ q, τ r, τ s].Nodup := by
  have sp := hS p (by simp); have sq := hS q (by simp); have sr := hS r (by simp); have ss := hS s (by simp)
  simp only [List.nodup_cons, List.mem_cons, List.not_mem_nil, or_false, not_or, List.nodup_nil, and_true] at hd ⊢
  obtain ⟨⟨h1, h2, h3⟩, ⟨h4, h5⟩, h6, _⟩ := hd
  exact ⟨⟨fun e => h1 (hinj _ _ sp sq e), fun e => h2 (hinj _ _ sp sr e), fun e => h3 (hinj _ _ sp ss e)⟩,
    ⟨fun e => h4 (hinj _ _ sq sr e), fun e => h5 (hinj _ _ sq ss e)⟩, fun e => h6 (hinj _ _ sr ss e), not_false⟩

/-- **`IsTet` is invariant under a consistent renaming** of the halffaces (`ρ`) and the vertices (`τ`, injective on
    the vertices of the cell) -/
theorem isTet_transport {k k' : Kernel} {c c' : Nat} (ρ τ : Nat → Nat) (S : Nat → Prop)
    (hc : k'.cellAt c' = (k.cellAt c).map ρ)
    (hv : ∀ x ∈ k.cellAt c, k'.hfVerts (ρ x) = (k.hfVerts x).map τ)
    (hS : ∀ x ∈ k.cellAt c, ∀ u ∈ k.hfVerts x, S u)
    (hinj : ∀ u v, S u → S v → τ u = τ v → u = v)
    (h : IsTet k c) : IsTet k' c' := by
  obtain ⟨p, q, r, s, h1, _, h3⟩ := h.elim
  have hm := head_getD_mem (k.cellAt c) h3.2.1
  have hSv : ∀ x ∈ [p, q, r, s], S x := by
    intro x hx
    obtain ⟨y, hy, hu⟩ := List.mem_flatMap.mp ((h3.mem_verts x).mpr hx)
    exact hS y hy x hu
  have hd := nodup4_map τ S hSv hinj h3.1
  have hT : TetOn k' (k'.cellAt c') (τ p) (τ q) (τ r) (τ s) := by
    apply TetOn.transfer τ h3 hd (by rw [hc, List.length_map]; exact h3.2.1)
    · intro y hy
      rw [hc] at hy
      obtain ⟨x, hx, rfl⟩ := List.mem_map.mp hy
      exact ⟨x, hx, Or.inl (hv x hx)⟩
    · intro x hx
      exact ⟨ρ x, by rw [hc]; exact List.mem_map_of_mem hx, Or.inl (hv x hx)⟩
  apply isTet_of_tetOn (p := τ p) (q := τ q) (r := τ r) (s := τ s) _ hT
  have hhead : (k'.cellAt c').headD 0 = ρ ((k.cellAt c).headD 0) := by
    rw [hc]
    match k.cellAt c, h3.2.1 with
    | [a, b, c, d], _ => rfl
  rw [hhead, hv _ (by rw [hm.2]; exact hm.1), h1]
  rfl

/-! ### handle arithmetic of the erase renumberings (as in OVM/Hex/ConvAll.lean) -/

theorem side_corr2 (h x : Nat) : side (corr2 (2 * h + 1) x) = side x := by unfold side corr2; split <;> omega

theorem corr2_opp (h a : Nat) : corr2 (2 * h + 1) (opp a) = opp (corr2 (2 * h + 1) a) := by
  unfold opp
  have e1 := xor_one_eq a
  by_cases hgt : a > 2 * h + 1
  · have h2 : a ^^^ 1 > 2 * h + 1 := by rw [e1]; split <;> omega
    unfold corr2; rw [if_pos hgt, if_pos h2, xor_one_eq (a - 2), e1]; split <;> split <;> omega
  · have h2 : ¬ a ^^^ 1 > 2 * h + 1 := by rw [e1]; split <;> omega
    unfold corr2; rw [if_neg hgt, if_neg h2]

theorem oppFace_map (σ : Nat → Nat) (hσ : ∀ a, σ (opp a) = opp (σ a)) (l : List Nat) :
    oppFace (l.map σ) = (oppFace l).map σ := by
  unfold oppFace
  rw [← List.map_reverse, List.map_map, List.map_map]
  exact List.map_congr_left (fun a _ => (hσ a).symm)

theorem eOf_opp (a : Nat) : eOf (opp a) = eOf a := by unfold eOf opp; exact xor_one_div a

theorem hfHes_face (k : Kernel) (x a : Nat) (ha : a ∈ k.hfHes x) : a ∈ k.faceAt (eOf x) ∨ opp a ∈ k.faceAt (eOf x) := by
  unfold hfHes at ha
  split at ha
  · exact Or.inl ha
  · exact Or.inr ((k3_mem_oppFace _ _).mp ha)

theorem hfHes_unrefE {k : Kernel} {h : Nat} (hun : UnrefE k h) (x a : Nat) (ha : a ∈ k.hfHes x) : eOf a ≠ h := by
  rcases Kernel.faceAt_mem_or_nil k (eOf x) with hm | hm
  · rcases hfHes_face k x a ha with h1 | h1
    · exact hun _ hm a h1
    · have := hun _ hm _ h1; rwa [eOf_opp] at this
  · rcases hfHes_face k x a ha with h1 | h1 <;> (rw [hm] at h1; cases h1)

theorem hfHes_lt' {k : Kernel} (hw : WF k) (x a : Nat) (ha : a ∈ k.hfHes x) : a < k.nHE := by
  rcases Kernel.faceAt_mem_or_nil k (eOf x) with hm | hm
  · rcases hfHes_face k x a ha with h1 | h1
    · exact hw.range.faces _ hm a h1
    · have := hw.range.faces _ hm _ h1
      have e := eOf_opp a
      unfold eOf nHE at *; omega
  · rcases hfHes_face k x a ha with h1 | h1 <;> (rw [hm] at h1; cases h1)

theorem liveC_of_cells {k k' : Kernel} (hl : k'.cells.length = k.cells.length) (hd : k'.cDel = k.cDel) (c : Nat) :
    k'.liveC c = k.liveC c := by unfold liveC nC cDeleted; rw [hl, hd]

theorem liveF_of_faces {k k' : Kernel} (hl : k'.faces.length = k.faces.length) (hd : k'.fDel = k.fDel) (f : Nat) :
    k'.liveF f = k.liveF f := by unfold liveF nF fDeleted; rw [hl, hd]

theorem halfedge_of_edgeAt {k k' : Kernel} {a b : Nat} (he : k'.edgeAt (eOf b) = k.edgeAt (eOf a)) (hs : side b = side a) :
    k'.halfedge b = k.halfedge a := by unfold halfedge; rw [he, hs]

end TetSt

namespace TetSt

/-! ### the erase atoms -/

theorem liveF_mono {k k' : Kernel} (hf : k'.faces = k.faces) (hd : ∀ x, k.fDeleted x = true → k'.fDeleted x = true)
    {f : Nat} (hl : k'.liveF f = true) : k.liveF f = true := by
  unfold liveF nF at *
  rw [hf] at hl
  simp only [Bool.and_eq_true, decide_eq_true_eq, Bool.not_eq_true'] at hl ⊢
  refine ⟨hl.1, ?_⟩
  cases hx : k.fDeleted f with
  | false => rfl
  | true => rw [hd f hx] at hl; exact absurd hl.2 (by simp)

theorem liveC_mono {k k' : Kernel} (hc : k'.cells = k.cells) (hd : ∀ x, k.cDeleted x = true → k'.cDeleted x = true)
    {c : Nat} (hl : k'.liveC c = true) : k.liveC c = true := by
  unfold liveC nC at *
  rw [hc] at hl
  simp only [Bool.and_eq_true, decide_eq_true_eq, Bool.not_eq_true'] at hl ⊢
  refine ⟨hl.1, ?_⟩
  cases hx : k.cDeleted c with
  | false => rfl
  | true => rw [hd c hx] at hl; exact absurd hl.2 (by simp)

/-- same edges and faces: the cell at `c'` of `k'` is the cell at `c` of `k` -/
theorem isTet_sameTopo {k k' : Kernel} {c c' : Nat} (he : k'.edges = k.edges) (hf : k'.faces = k.faces)
    (hc : k'.cellAt c' = k.cellAt c) (h : IsTet k c) : IsTet k' c' :=
  isTet_transport id id (fun _ => True) (by rw [hc, List.map_id])
    (fun x _ => by rw [List.map_id]; exact hfVerts_of_eq he hf x) (fun _ _ _ _ => trivial) (fun _ _ _ _ e => e) h

theorem tetQ_mono {k k' : Kernel} (he : k'.edges = k.edges) (hf : k'.faces = k.faces) (hc : k'.cells = k.cells)
    (hfd : ∀ x, k.fDeleted x = true → k'.fDeleted x = true) (hcd : ∀ x, k.cDeleted x = true → k'.cDeleted x = true)
    (hq : TetQ k) : TetQ k' := by
  refine ⟨fun f hl => ?_, fun c hl => ?_⟩
  · have := hq.1 f (liveF_mono hf hfd hl)
    have e : k'.faceAt f = k.faceAt f := by unfold faceAt; rw [hf]
    rw [e]; exact loop3_congr (halfedge_of_edges he) this
  · exact isTet_sameTopo he hf (by unfold cellAt; rw [hc]) (hq.2 c (liveC_mono hc hcd hl))

theorem tetQ_eraseC {k k' : Kernel} (h : Nat) (hh : h < k.nC) (he : k'.edges = k.edges) (hf : k'.faces = k.faces)
    (hc : k'.cells = k.cells.eraseIdx h) (hfd : k'.fDel = k.fDel) (hcd : k'.cDel = k.cDel.eraseIdx h)
    (hq : TetQ k) : TetQ k' := by
  refine ⟨fun f hl => ?_, fun c hl => ?_⟩
  · have hl0 : k.liveF f = true := by rw [← liveF_of_faces (by rw [hf]) hfd]; exact hl
    have e : k'.faceAt f = k.faceAt f := by unfold faceAt; rw [hf]
    rw [e]; exact loop3_congr (halfedge_of_edges he) (hq.1 f hl0)
  · have hl0 : k.liveC (up h c) = true := by
      unfold liveC nC cDeleted at *
      rw [hc, hcd, getD_eraseIdx, List.length_eraseIdx, if_pos hh] at hl
      simp only [Bool.and_eq_true, decide_eq_true_eq] at hl ⊢
      exact ⟨(up_lt h c _ hh).mpr hl.1, hl.2⟩
    exact isTet_sameTopo he hf (by unfold cellAt; rw [hc, getD_eraseIdx]) (hq.2 _ hl0)

theorem tetQ_eraseF {k k' : Kernel} (h : Nat) (hh : h < k.nF) (hun : UnrefF k h) (he : k'.edges = k.edges)
    (hf : k'.faces = k.faces.eraseIdx h) (hc : k'.cells = k.cells.map (·.map (corr2 (2 * h + 1))))
    (hfd : k'.fDel = k.fDel.eraseIdx h) (hcd : k'.cDel = k.cDel) (hq : TetQ k) : TetQ k' := by
  have hv : ∀ a, k'.fromV a = k.fromV a := by intro a; unfold fromV; rw [halfedge_of_edges he]
  refine ⟨fun f hl => ?_, fun c hl => ?_⟩
  · have hl0 : k.liveF (up h f) = true := by
      unfold liveF nF fDeleted at *
      rw [hf, hfd, getD_eraseIdx, List.length_eraseIdx, if_pos hh] at hl
      simp only [Bool.and_eq_true, decide_eq_true_eq] at hl ⊢
      exact ⟨(up_lt h f _ hh).mpr hl.1, hl.2⟩
    have e : k'.faceAt f = k.faceAt (up h f) := by unfold faceAt; rw [hf, getD_eraseIdx]
    rw [e]; exact loop3_congr (halfedge_of_edges he) (hq.1 _ hl0)
  · have hl0 : k.liveC c = true := by rw [← liveC_of_cells (by rw [hc, List.length_map]) hcd]; exact hl
    have hca : k'.cellAt c = (k.cellAt c).map (corr2 (2 * h + 1)) := by unfold cellAt; rw [hc]; exact k4_getD_map_list _ _ _
    have hunc : ∀ x ∈ k.cellAt c, eOf x ≠ h := fun x hx => hun _ (cellAt_mem_cells (liveC_lt hl0)) x hx
    refine isTet_transport (corr2 (2 * h + 1)) id (fun _ => True) hca ?_ (fun _ _ _ _ => trivial) (fun _ _ _ _ e => e)
      (hq.2 c hl0)
    intro x hx
    have hne := hunc x hx
    apply hfVerts_map id id
    · rw [List.map_id]
      unfold hfHes faceAt
      rw [hf, getD_eraseIdx, eOf_corr2 h x hne, up_corr1 h _ hne, side_corr2]
    · intro a _; exact hv a

theorem halfedge_eraseE {k k' : Kernel} (h : Nat) (he : k'.edges = k.edges.eraseIdx h) (a : Nat) (hne : eOf a ≠ h) :
    k'.halfedge (corr2 (2 * h + 1) a) = k.halfedge a := by
  apply halfedge_of_edgeAt _ (side_corr2 h a)
  unfold edgeAt
  rw [he, getD_eraseIdx, eOf_corr2 h a hne, up_corr1 h _ hne]

theorem tetQ_eraseE {k k' : Kernel} (h : Nat) (hun : UnrefE k h) (he : k'.edges = k.edges.eraseIdx h)
    (hf : k'.faces = k.faces.map (·.map (corr2 (2 * h + 1)))) (hc : k'.cells = k.cells)
    (hfd : k'.fDel = k.fDel) (hcd : k'.cDel = k.cDel) (hq : TetQ k) : TetQ k' := by
  have hfa : ∀ f, k'.faceAt f = (k.faceAt f).map (corr2 (2 * h + 1)) := by
    intro f; unfold faceAt; rw [hf]; exact k4_getD_map_list _ _ _
  refine ⟨fun f hl => ?_, fun c hl => ?_⟩
  · have hl0 : k.liveF f = true := by rw [← liveF_of_faces (by rw [hf, List.length_map]) hfd]; exact hl
    rw [hfa]
    have hne : ∀ a ∈ k.faceAt f, eOf a ≠ h := fun a ha => hun _ (faceAt_mem_faces (liveF_lt hl0)) a ha
    exact loop3_map _ id (fun a ha => by unfold fromV; rw [halfedge_eraseE h he a (hne a ha)]; rfl)
      (fun a ha => by unfold toV; rw [halfedge_eraseE h he a (hne a ha)]; rfl) (hq.1 f hl0)
  · have hl0 : k.liveC c = true := by rw [← liveC_of_cells (by rw [hc]) hcd]; exact hl
    refine isTet_transport id id (fun _ => True) (by unfold cellAt; rw [hc, List.map_id]) ?_ (fun _ _ _ _ => trivial)
      (fun _ _ _ _ e => e) (hq.2 c hl0)
    intro x _
    apply hfVerts_map (corr2 (2 * h + 1)) id
    · show k'.hfHes x = _
      unfold hfHes
      rw [hfa]
      split
      · rfl
      · exact oppFace_map _ (corr2_opp h) _
    · intro a ha
      unfold fromV; rw [halfedge_eraseE h he a (hfHes_unrefE hun x a ha)]; rfl

theorem halfedge_eraseV {k k' : Kernel} (h : Nat) (he : k'.edges = k.edges.map (fun p => (corr1 h p.1, corr1 h p.2)))
    (a : Nat) : k'.halfedge a = (corr1 h (k.halfedge a).1, corr1 h (k.halfedge a).2) := by
  have hea : k'.edgeAt (eOf a) = (corr1 h (k.edgeAt (eOf a)).1, corr1 h (k.edgeAt (eOf a)).2) := by
    unfold edgeAt
    rw [he]
    simp only [List.getD_eq_getElem?_getD, List.getElem?_map]
    cases k.edges[eOf a]? with
    | none => simp [corr1]
    | some p => rfl
  unfold halfedge
  rw [hea]
  split <;> rfl

theorem tetQ_eraseV {k k' : Kernel} (h : Nat) (hw : WF k) (hun : UnrefV k h)
    (he : k'.edges = k.edges.map (fun p => (corr1 h p.1, corr1 h p.2))) (hf : k'.faces = k.faces) (hc : k'.cells = k.cells)
    (hfd : k'.fDel = k.fDel) (hcd : k'.cDel = k.cDel) (hq : TetQ k) : TetQ k' := by
  have hfv : ∀ a, k'.fromV a = corr1 h (k.fromV a) := by intro a; unfold fromV; rw [halfedge_eraseV h he]
  have htv : ∀ a, k'.toV a = corr1 h (k.toV a) := by intro a; unfold toV; rw [halfedge_eraseV h he]
  refine ⟨fun f hl => ?_, fun c hl => ?_⟩
  · have hl0 : k.liveF f = true := by rw [← liveF_of_faces (by rw [hf]) hfd]; exact hl
    have e : k'.faceAt f = (k.faceAt f).map id := by unfold faceAt; rw [hf, List.map_id]
    rw [e]
    exact loop3_map id (corr1 h) (fun a _ => hfv a) (fun a _ => htv a) (hq.1 f hl0)
  · have hl0 : k.liveC c = true := by rw [← liveC_of_cells (by rw [hc]) hcd]; exact hl
    refine isTet_transport id (corr1 h) (fun v => v ≠ h) (by unfold cellAt; rw [hc, List.map_id]) ?_ ?_ ?_ (hq.2 c hl0)
    · intro x _
      apply hfVerts_map id (corr1 h)
      · rw [List.map_id]; exact hfHes_congr k k' hf x
      · intro a _; exact hfv a
    · intro x _ u hu
      unfold hfVerts at hu
      obtain ⟨a, ha, rfl⟩ := List.mem_map.mp hu
      have hlt := hfHes_lt' hw x a ha
      have hm : k.edgeAt (eOf a) ∈ k.edges := k4_edgeAt_mem (by unfold eOf nHE nE at *; omega)
      have := hun _ hm
      unfold fromV halfedge
      split
      · exact this.1
      · exact this.2
    · intro u v hu hv e
      have := congrArg (up h) e
      rwa [up_corr1 h u hu, up_corr1 h v hv] at this

end TetSt

namespace TetSt

/-! ### the swap atoms -/

theorem tetQ_swapC {k : Kernel} (a b : Nat) (hw : WF k) (ha : a < k.nC) (hb : b < k.nC) (hq : TetQ k) :
    TetQ (k.swapCell a b) := by
  by_cases hab : a = b
  · subst hab; rw [Global.swapCell_self]; exact hq
  have hff : (k.swapCell a b).faces = k.faces := by unfold swapCell; split <;> rfl
  have hee : (k.swapCell a b).edges = k.edges := by unfold swapCell; split <;> rfl
  have hfd : (k.swapCell a b).fDel = k.fDel := by unfold swapCell; split <;> rfl
  refine ⟨fun f hl => ?_, fun c hl => ?_⟩
  · have hl0 : k.liveF f = true := by rw [← liveF_of_faces (by rw [hff]) hfd]; exact hl
    have e : (k.swapCell a b).faceAt f = k.faceAt f := by unfold faceAt; rw [hff]
    rw [e]; exact loop3_congr (halfedge_of_edges hee) (hq.1 f hl0)
  · rw [swapCell_liveC hab ha hb hw.len.cDel] at hl
    exact isTet_sameTopo hee hff (swapCell_cellAt hab ha hb c) (hq.2 _ hl)

theorem tetQ_swapF {k : Kernel} (a b : Nat) (hw : WF k) (h1 : k.oneCell = true) (ha : a < k.nF) (hb : b < k.nF)
    (hq : TetQ k) : TetQ (k.swapFace a b) := by
  by_cases hab : a = b
  · subst hab; rw [Global.swapFace_self]; exact hq
  have hv : ∀ x, (k.swapFace a b).fromV x = k.fromV x := by
    intro x; unfold fromV; rw [halfedge_of_edges (swapFace_edges k a b)]
  refine ⟨fun f hl => ?_, fun c hl => ?_⟩
  · rw [swapFace_liveF hab ha hb hw.len.fDel] at hl
    rw [swapFace_faceAt hab ha hb]
    exact loop3_congr (halfedge_of_edges (swapFace_edges k a b)) (hq.1 _ hl)
  · have hl0 : k.liveC c = true := by
      rw [← liveC_of_cells (swapFace_cells_length k a b) (swapFace_cDel k a b)]; exact hl
    have hca := swapFace_cellAt_live hab ha hb hw.cache.f (fun _ => h1) (c := c) (fun _ => hl0)
    refine isTet_transport (relabelHalf a b) id (fun _ => True) hca ?_ (fun _ _ _ _ => trivial) (fun _ _ _ _ e => e)
      (hq.2 c hl0)
    intro x _
    apply hfVerts_map id id
    · rw [swapFace_hfHes hab ha hb, k3_relabelHalf_invol, List.map_id]
    · intro y _; exact hv y

theorem swapEdge_halfedge {k : Kernel} {a b : Nat} (hab : a ≠ b) (ha : a < k.nE) (hb : b < k.nE) (h : Nat) :
    (k.swapEdge a b).halfedge h = k.halfedge (relabelHalf a b h) := by
  unfold halfedge eOf side
  rw [swapEdge_edgeAt hab ha hb, k3_relabelHalf_div, k3_relabelHalf_mod]

theorem tetQ_swapE {k : Kernel} (a b : Nat) (hw : WF k) (hcl : Closed k) (ha : a < k.nE) (hb : b < k.nE)
    (hq : TetQ k) : TetQ (k.swapEdge a b) := by
  by_cases hab : a = b
  · subst hab; rw [Global.swapEdge_self]; exact hq
  have hhe : ∀ y, (k.swapEdge a b).halfedge (relabelHalf a b y) = k.halfedge y := by
    intro y; rw [swapEdge_halfedge hab ha hb, k3_relabelHalf_invol]
  refine ⟨fun f hl => ?_, fun c hl => ?_⟩
  · have hl0 : k.liveF f = true := by
      rw [← liveF_of_faces (swapEdge_faces_length k a b) (swapEdge_fDel k a b)]; exact hl
    rw [swapEdge_faceAt_live hab ha hb hw.cache.e (fun _ => hl0)]
    exact loop3_map _ id (fun y _ => by unfold fromV; rw [hhe]; rfl) (fun y _ => by unfold toV; rw [hhe]; rfl) (hq.1 f hl0)
  · have hl0 : k.liveC c = true := by
      rw [← liveC_of_cells (by rw [swapEdge_cells]) (swapEdge_cDel k a b)]; exact hl
    refine isTet_transport id id (fun _ => True) (by unfold cellAt; rw [swapEdge_cells, List.map_id]) ?_
      (fun _ _ _ _ => trivial) (fun _ _ _ _ e => e) (hq.2 c hl0)
    intro x hx
    apply hfVerts_map (relabelHalf a b) id
    · show (k.swapEdge a b).hfHes x = _
      apply swapEdge_hfHes_live hab ha hb hw.cache.e
      intro _
      have hxl : x < k.nHF := hw.range.cells _ (cellAt_mem_cells (liveC_lt hl0)) x hx
      have := hcl.f c hl0 x hx
      unfold liveF; rw [this]
      simp; unfold eOf nHF nF at *; omega
    · intro y _; unfold fromV; rw [hhe]; rfl

theorem swapVertex_halfedge_live {k : Kernel} {a b : Nat} (hab : a ≠ b) (ha : a < k.nV) (hb : b < k.nV) (hw : WF k)
    {y : Nat} (hy : k.liveE (eOf y) = true) :
    (k.swapVertex a b).halfedge y = (relabelId a b (k.halfedge y).1, relabelId a b (k.halfedge y).2) := by
  have hlt : eOf y < k.edges.length := by unfold liveE nE at hy; simp at hy; exact hy.1
  have hea := swapVertex_edgeAt_live hab ha hb hw.cache.v (e := eOf y) hlt (fun _ => hy)
  unfold halfedge
  rw [hea]
  unfold relabelEdgeV
  split <;> rfl

theorem tetQ_swapV {k : Kernel} (a b : Nat) (hw : WF k) (hcl : Closed k) (ha : a < k.nV) (hb : b < k.nV)
    (hq : TetQ k) : TetQ (k.swapVertex a b) := by
  by_cases hab : a = b
  · subst hab; rw [Global.swapVertex_self]; exact hq
  have hfaces : (k.swapVertex a b).faces = k.faces := swapVertex_faces k a b
  have hcells : (k.swapVertex a b).cells = k.cells := swapVertex_cells k a b
  -- the halfedges of a live face are live
  have hliveHe : ∀ f, k.liveF f = true → ∀ y, (y ∈ k.faceAt f ∨ opp y ∈ k.faceAt f) → k.liveE (eOf y) = true := by
    intro f hf y hy
    have hm := faceAt_mem_faces (liveF_lt hf)
    rcases hy with h1 | h1
    · have hd := hcl.e _ hf y h1
      have hlt := hw.range.faces _ hm y h1
      unfold liveE; rw [hd]; simp; unfold eOf nHE nE at *; omega
    · have hd := hcl.e _ hf _ h1
      have hlt := hw.range.faces _ hm _ h1
      rw [eOf_opp] at hd
      have e := eOf_opp y
      unfold liveE; rw [hd]; simp; unfold eOf nHE nE at *; omega
  refine ⟨fun f hl => ?_, fun c hl => ?_⟩
  · have hl0 : k.liveF f = true := by
      rw [← liveF_of_faces (by rw [hfaces]) (swapVertex_fDel (k := k) (a := a) (b := b))]; exact hl
    have e : (k.swapVertex a b).faceAt f = (k.faceAt f).map id := by unfold faceAt; rw [hfaces, List.map_id]
    rw [e]
    exact loop3_map id (relabelId a b)
      (fun y hy => by show ((k.swapVertex a b).halfedge y).1 = _
                      rw [swapVertex_halfedge_live hab ha hb hw (hliveHe f hl0 y (Or.inl hy))]; rfl)
      (fun y hy => by show ((k.swapVertex a b).halfedge y).2 = _
                      rw [swapVertex_halfedge_live hab ha hb hw (hliveHe f hl0 y (Or.inl hy))]; rfl)
      (hq.1 f hl0)
  · have hl0 : k.liveC c = true := by
      rw [← liveC_of_cells (by rw [hcells]) (swapVertex_cDel (k := k) (a := a) (b := b))]; exact hl
    refine isTet_transport id (relabelId a b) (fun _ => True) (by unfold cellAt; rw [hcells, List.map_id]) ?_
      (fun _ _ _ _ => trivial) ?_ (hq.2 c hl0)
    · intro x hx
      apply hfVerts_map id (relabelId a b)
      · rw [List.map_id]; exact hfHes_congr k _ hfaces x
      · intro y hy
        have hxl : x < k.nHF := hw.range.cells _ (cellAt_mem_cells (liveC_lt hl0)) x hx
        have hfl : k.liveF (eOf x) = true := by
          have := hcl.f c hl0 x hx
          unfold liveF; rw [this]; simp; unfold eOf nHF nF at *; omega
        show (k.swapVertex a b).fromV y = _
        unfold fromV
        rw [swapVertex_halfedge_live hab ha hb hw (hliveHe _ hfl y (hfHes_face k x y hy))]
    · intro u v _ _ e
      have := congrArg (relabelId a b) e
      rwa [relabelId_invol, relabelId_invol] at this

end TetSt

/-- **`TetQ` survives every atomic definition change** -/
theorem stable_tetQ : HexAll.Stable TetQ where
  mono := fun _ he hf hc _ _ hfd hcd hq => TetSt.tetQ_mono he hf hc hfd hcd hq
  eraseC := fun h _ hh _ he hf hc _ _ hfd hcd hq => TetSt.tetQ_eraseC h hh he hf hc hfd hcd hq
  eraseF := fun h _ hh hun _ he hf hc _ _ hfd hcd hq => TetSt.tetQ_eraseF h hh hun he hf hc hfd hcd hq
  eraseE := fun h _ _ hun _ he hf hc _ _ hfd hcd hq => TetSt.tetQ_eraseE h hun he hf hc hfd hcd hq
  eraseV := fun h hw _ hun _ he hf hc _ _ hfd hcd hq => TetSt.tetQ_eraseV h hw hun he hf hc hfd hcd hq
  swapC := fun a b hw _ _ ha hb hq => TetSt.tetQ_swapC a b hw ha hb hq
  swapF := fun a b hw h1 _ ha hb hq => TetSt.tetQ_swapF a b hw h1 ha hb hq
  swapE := fun a b hw _ hcl ha hb hq => TetSt.tetQ_swapE a b hw hcl ha hb hq
  swapV := fun a b hw _ hcl ha hb hq => TetSt.tetQ_swapV a b hw hcl ha hb hq

/-! ### every non-creating operation, every deletion mode -/

theorem tetQ_step (k : Kernel) (op : Op) (hn : HexAll.NonCreating op) (hi : GInv k) (hok : Global.OpOK k op)
    (hq : TetQ k) : TetQ (k.step op).1 := HexAll.stable_step stable_tetQ k op hn hi hok hq

theorem tetQ_deleteVertex {k : Kernel} (hi : GInv k) {v : Nat} (hv : v < k.nV) (hq : TetQ k) : TetQ (k.deleteVertex v) :=
  HexAll.stable_deleteVertex stable_tetQ hi hv hq
theorem tetQ_deleteEdge {k : Kernel} (hi : GInv k) {e : Nat} (he : e < k.nE) (hq : TetQ k) : TetQ (k.deleteEdge e) :=
  HexAll.stable_deleteEdge stable_tetQ hi he hq
theorem tetQ_deleteFace {k : Kernel} (hi : GInv k) {f : Nat} (hf : f < k.nF) (hq : TetQ k) : TetQ (k.deleteFace f) :=
  HexAll.stable_deleteFace stable_tetQ hi hf hq
theorem tetQ_deleteCell {k : Kernel} (hi : GInv k) {c : Nat} (hc : c < k.nC) (hq : TetQ k) : TetQ (k.deleteCell c) :=
  HexAll.stable_deleteCell stable_tetQ hi hc hq
theorem tetQ_collectGarbage {k : Kernel} (hi : GInv k) (hq : TetQ k) : TetQ k.collectGarbage :=
  HexAll.stable_collectGarbage stable_tetQ hi hq
theorem tetQ_enableDeferred {k : Kernel} (hi : GInv k) (b : Bool) (hq : TetQ k) : TetQ (k.enableDeferred b) :=
  HexAll.stable_enableDeferred stable_tetQ hi b hq
theorem tetQ_enableFast {k : Kernel} (b : Bool) (hq : TetQ k) : TetQ (k.enableFast b) :=
  stable_tetQ.same (k := k) rfl rfl rfl rfl rfl rfl rfl rfl hq

/-! ### the shape -/

/-- every live face has three halfedges, every live cell four halffaces on four distinct vertices -/
theorem TetQ.tetShape {k : Kernel} (hq : TetQ k) : TetShape k := by
  refine ⟨fun f hf => (hq.1 f ((mem_liveFaces k f).mp hf)).length, fun c hc => ?_⟩
  have ht := hq.2 c ((mem_liveCells k c).mp hc)
  obtain ⟨_, _, _, _, _, _, hT⟩ := ht.elim
  exact ⟨hT.2.1, isTet_fourVerts ht⟩

/-! ### live and stored versions -/

/-- no face and no cell is flagged as deleted (always so in immediate mode and after `collect_garbage`) -/
def Unflagged (k : Kernel) : Prop := NoFlag k.fDel ∧ NoFlag k.cDel

instance (k : Kernel) : Decidable (Unflagged k) := by unfold Unflagged NoFlag; infer_instance

theorem unflagged_of_immediate {k : Kernel} (hi : GInv k) (hd : k.deferred = false) : Unflagged k :=
  ⟨(hi.noFlag_of_immediate hd).2.1, (hi.noFlag_of_immediate hd).1⟩

theorem unflagged_of_noGC {k : Kernel} (hi : GInv k) (hn : k.needsGC = false) : Unflagged k :=
  ⟨(hi.noFlag_of_noGC hn).2.1, (hi.noFlag_of_noGC hn).1⟩

theorem liveLoops_of_faceLoops {k : Kernel} (h : FaceLoops k) : LiveLoops k :=
  fun _ hl => h _ (faceAt_mem_faces (liveF_lt hl))

theorem liveTet_of_allTet {k : Kernel} (h : AllTet k) : LiveTet k := fun c hl => h c (liveC_lt hl)

theorem tetQ_of_stored {k : Kernel} (hl : FaceLoops k) (ht : AllTet k) : TetQ k :=
  ⟨liveLoops_of_faceLoops hl, liveTet_of_allTet ht⟩

theorem faceLoops_of_live {k : Kernel} (hn : NoFlag k.fDel) (h : LiveLoops k) : FaceLoops k := by
  intro f hf
  obtain ⟨i, hi, rfl⟩ := List.getElem_of_mem hf
  have hl : k.liveF i = true := by unfold liveF fDeleted nF; rw [hn.getD i]; simp [hi]
  have := h i hl
  unfold faceAt at this
  rwa [List.getD_eq_getElem?_getD, List.getElem?_eq_getElem hi] at this

theorem allTet_of_live {k : Kernel} (hn : NoFlag k.cDel) (h : LiveTet k) : AllTet k := by
  intro c hc
  exact h c (by unfold liveC cDeleted; rw [hn.getD c]; simp [hc])

/-! ### creating operations that touch no face and no cell -/

namespace TetSt

theorem tetQ_ext_old {k k' : Kernel} (e : Ext k k') (hr : RangeInv k) (hf : k'.faces = k.faces) (hfd : k'.fDel = k.fDel)
    (hcd : k'.cDel = k.cDel) (hq : TetQ k) : TetQ k' := by
  refine ⟨fun f hl => ?_, fun c hl => ?_⟩
  · have hl0 : k.liveF f = true := by rw [← liveF_of_faces (by rw [hf]) hfd]; exact hl
    have e1 : k'.faceAt f = k.faceAt f := by unfold faceAt; rw [hf]
    rw [e1]
    exact e.loop3 (hr.faces _ (faceAt_mem_faces (liveF_lt hl0))) (hq.1 f hl0)
  · have hl0 : k.liveC c = true := by rw [← liveC_of_cells (by rw [e.cells]) hcd]; exact hl
    exact e.isTet hr (liveC_lt hl0) (hq.2 c hl0)

theorem tetQ_addEdge {k : Kernel} (hi : GInv k) (a b : Nat) (d : Bool) (hq : TetQ k) : TetQ (k.addEdge a b d).1 := by
  unfold addEdge
  split
  · exact hq
  · exact tetQ_ext_old (ext_addEdgeCore k a b) hi.wf.range (by simp) (by simp) (by simp) hq

theorem tetQ_clear (k : Kernel) (p : Bool) : TetQ (k.clear p) := by
  refine ⟨fun f hl => ?_, fun c hl => ?_⟩
  · have := liveF_lt hl; simp [clear, nF] at this
  · have := liveC_lt hl; simp [clear, nC] at this

end TetSt

/-! ### `collapse_edge` -/

/-- the state in which `collapse_edge` works: deferred deletion switched on -/
def collapseK0 (k : Kernel) : Kernel := if !k.deferred then k.enableDeferred true else k

/-- the hypotheses of `CPre` (OVM/Tet/CollapseRefine.lean) for the state `collapseK0 k`, and the GAP hypothesis: the
    global invariant of the state just before the final mode switch (proved separately; to be removed) -/
structure CPre' (k : Kernel) (h : Nat) : Prop where
  loops : FaceLoops k
  full : (collapseK0 k).fullBU = true
  link : (collapseK0 k).linkCondition h = true
  gap : GInv (collapsePre k h)

namespace TetSt

theorem collapseK0_facts {k : Kernel} (hi : GInv k) (hq : TetQ k) :
    GInv (collapseK0 k) ∧ TetQ (collapseK0 k) ∧ (collapseK0 k).deferred = true ∧ (collapseK0 k).edges = k.edges ∧
    (collapseK0 k).faces = k.faces := by
  unfold collapseK0
  split
  · rename_i hd
    obtain ⟨_, _, f3, f4, _, _⟩ := enableDeferred_true_frames k
    exact ⟨ginv_enableDeferred true hi, tetQ_enableDeferred hi true hq, by unfold enableDeferred; simp, f4, f3⟩
  · rename_i hd
    exact ⟨hi, hq, by simpa using hd, rfl, rfl⟩

theorem cpre_of {k : Kernel} {h : Nat} (hi : GInv k) (hq : TetQ k) (P : CPre' k h) : CPre (collapseK0 k) h := by
  obtain ⟨g0, _, d0, e0, f0⟩ := collapseK0_facts hi hq
  exact ⟨g0, faceLoops_of_eq e0 f0 P.loops, P.full, d0, P.link⟩

/-- the state of `collapse_state`, restated for the live predicates -/
theorem tetQ_collapseEdge_deferred {k : Kernel} {h : Nat} (P : CPre k h) (hq : TetQ k) : TetQ (k.collapseEdge h).1 := by
  obtain ⟨rem, k1, b1, x1, q5, q6, s1, s2, s3, s4, s5, s6, _, _, _⟩ := collapse_state P
  have hr := P.ginv.wf.range
  refine ⟨liveLoops_of_faceLoops (faceLoops_of_eq s3 s2 b1.loops), fun c hl => ?_⟩
  have hlt : c < k.nC + rem.length := by
    have := liveC_lt hl; unfold nC at *; rw [s1] at this; simpa using this
  have hnd : (k.collapseEdge h).1.cDeleted c = false := liveC_notDel hl
  by_cases hc : c < k.nC
  · have hl0 : k.liveC c = true := by
      have := ((s5 c hc).mp hnd).1
      unfold liveC; rw [this]; simp [hc]
    have h1 : IsTet k1 c := x1.isTet hr hc (hq.2 c hl0)
    refine isTet_sameTopo s3 s2 ?_ h1
    unfold cellAt
    rw [s1, x1.cells, getD_append_lt _ _ _ _ hc]
  · obtain ⟨i, rfl⟩ : ∃ i, c = k.nC + i := ⟨c - k.nC, by omega⟩
    have hi : i < rem.length := by omega
    have hmem : rem[i] ∈ rem := List.getElem_mem hi
    have hreb : rem[i].1 ∈ rebuilt k h := by rw [← q5]; exact List.mem_map.mpr ⟨_, hmem, rfl⟩
    obtain ⟨hl0, _, hb⟩ := (mem_rebuilt_iff P _).mp hreb
    have hcell : (k.collapseEdge h).1.cellAt (k.nC + i) = rem[i].2 := by
      unfold cellAt; rw [s1, List.getD_eq_getElem?_getD, List.getElem?_append_right (by unfold nC; omega)]
      simp [nC, hi]
    exact (newCell_quad (hq.2 _ hl0) (q6 _ hmem) (fun hx => hb hx.2) hcell (fun x _ => hfVerts_of_eq s3 s2 x)).1

end TetSt

/-- **`collapse_edge` just before the final mode switch keeps `TetQ`** (in every mode of the caller) -/
theorem tetQ_collapsePre {k : Kernel} {h : Nat} (hi : GInv k) (hq : TetQ k) (P : CPre' k h) : TetQ (collapsePre k h) := by
  obtain ⟨g0, q0, d0, _, _⟩ := TetSt.collapseK0_facts hi hq
  have P0 := TetSt.cpre_of hi hq P
  have hY := TetSt.tetQ_collapseEdge_deferred P0 q0
  have e1 : ((collapseK0 k).collapseEdge h).1 = (collapsePre k h).enableDeferred true := by
    unfold collapseEdge
    simp only [d0, Bool.not_true, Bool.false_eq_true, if_false]
    rfl
  rw [e1] at hY
  have hfr : ∀ X : Kernel, (X.enableDeferred true).edges = X.edges ∧ (X.enableDeferred true).faces = X.faces ∧
      (X.enableDeferred true).cells = X.cells ∧ (X.enableDeferred true).fDel = X.fDel ∧ (X.enableDeferred true).cDel = X.cDel := by
    intro X; unfold enableDeferred; simp
  obtain ⟨f1, f2, f3, f4, f5⟩ := hfr (collapsePre k h)
  exact TetSt.tetQ_mono f1.symm f2.symm f3.symm (fun x hx => by unfold fDeleted at *; rw [← f4]; exact hx)
    (fun x hx => by unfold cDeleted at *; rw [← f5]; exact hx) hY

/-- `collapse_edge`, the whole call -/
theorem tetQ_collapseEdge {k : Kernel} {h : Nat} (hi : GInv k) (hq : TetQ k) (P : CPre' k h) : TetQ (k.collapseEdge h).1 := by
  rw [collapseEdge_eq]
  exact tetQ_enableDeferred P.gap _ (tetQ_collapsePre hi hq P)

/-! ### the history theorem over the tet driver vocabulary -/

/-- the invariant: K5's global invariant, the valence shape of the stored definitions, `TetQ` -/
structure TetSInv (k : Kernel) : Prop where
  ginv : GInv k
  shape : ValenceShape k
  tetQ : TetQ k

theorem sinv_empty : TetSInv ({} : Kernel) :=
  ⟨ginv_empty, valenceShape_empty, fun f hl => by have := liveF_lt hl; simp [nF] at this,
    fun c hl => by have := liveC_lt hl; simp [nC] at this⟩

/-- side conditions of the operations of the base vocabulary -/
def BaseOK (k : Kernel) : Op → Prop
  | .addFaceHe _ _ | .addFaceV _ | .setEdge _ _ _ | .setFace _ _ | .setCell _ _ => False
  | .addCell chk hfs => chk = true ∧ k.vBU = true ∧ k.eBU = true ∧ Unflagged k ∧ BuildOK k (.addCellHF hfs)
  | op => Global.OpOK k op

/-- side conditions of the operations of the tet driver vocabulary -/
def ShapeOK (k : Kernel) : TetOp → Prop
  | .base op => BaseOK k op
  | .addHalfface3 chk a b c => chk = false ∧ k.vBU = true ∧ k.eBU = true ∧ Unflagged k ∧ BuildOK k (.addHalfface3 a b c)
  | .addCell4 chk a b c d => k.vBU = true ∧ k.eBU = true ∧ Unflagged k ∧ BuildOK k (.addCell4 chk a b c d)
  | .probeMode _ _ => True
  | .collapse h => CPre' k h
  | _ => False

theorem tetOpOK_of_shapeOK {k : Kernel} {op : TetOp} (h : ShapeOK k op) : TetOpOK k op := by
  cases op with
  | base o =>
    cases o with
    | addFaceHe chk hes => exact absurd h id
    | addFaceV vs => exact absurd h id
    | setEdge e a b => exact absurd h id
    | setFace f hes => exact absurd h id
    | setCell c hfs => exact absurd h id
    | addCell chk hfs => exact ⟨⟨h.2.2.2.2.1, h.2.2.2.2.2⟩, trivial⟩
    | _ => exact ⟨h, trivial⟩
  | addHalfface3 chk a b c => exact ⟨h.2.2.2.2.1, h.2.2.2.2.2.1, h.2.2.2.2.2.2.1⟩
  | addCell4 chk a b c d =>
    obtain ⟨_, _, _, o0, o1, o2, o3, _, hf⟩ := h
    exact ⟨o0, o1, o2, o3, hf⟩
  | probeMode d f => trivial
  | collapse h' => exact h.gap
  | _ => exact absurd h id

namespace TetSt

theorem tetQ_build {k : Kernel} (hi : GInv k) (hv : k.vBU = true) (he : k.eBU = true) (hu : Unflagged k) (hq : TetQ k)
    (op : BuildOp) (hok : BuildOK k op) : TetQ (k.stepTetX op.toTet).1 := by
  have ci : CInv k := ⟨⟨hi, hv, he, faceLoops_of_live hu.1 hq.1⟩, allTet_of_live hu.2 hq.2⟩
  have := cinv_step k op ci hok
  exact tetQ_of_stored this.binv.loops this.allTet

theorem tetQ_sameDefs {k k' : Kernel} (he : k'.edges = k.edges) (hf : k'.faces = k.faces) (hc : k'.cells = k.cells)
    (hfd : k'.fDel = k.fDel) (hcd : k'.cDel = k.cDel) (hq : TetQ k) : TetQ k' :=
  tetQ_mono he hf hc (fun x hx => by unfold fDeleted at *; rw [hfd]; exact hx)
    (fun x hx => by unfold cDeleted at *; rw [hcd]; exact hx) hq

theorem tetQ_baseStep {k : Kernel} (hi : GInv k) (hq : TetQ k) (op : Op) (hok : BaseOK k op) : TetQ (k.stepTet op).1 := by
  cases op with
  | addFaceHe chk hes => exact absurd hok id
  | addFaceV vs => exact absurd hok id
  | setEdge e a b => exact absurd hok id
  | setFace f hes => exact absurd hok id
  | setCell c hfs => exact absurd hok id
  | addCell chk hfs =>
    obtain ⟨rfl, hv, he, hu, hb⟩ := hok
    exact tetQ_build hi hv he hu hq (.addCellHF hfs) hb
  | addVertex => exact tetQ_sameDefs (k := k) (k' := k.addVertex.1) rfl rfl rfl rfl rfl hq
  | addNVertices n => exact tetQ_sameDefs (k := k) (k' := k.addNVertices n) rfl rfl rfl rfl rfl hq
  | addEdge a b d => exact tetQ_addEdge hi a b d hq
  | clear p => exact tetQ_clear k p
  | deleteVertex v => exact tetQ_step k _ trivial hi hok hq
  | deleteEdge v => exact tetQ_step k _ trivial hi hok hq
  | deleteFace v => exact tetQ_step k _ trivial hi hok hq
  | deleteCell v => exact tetQ_step k _ trivial hi hok hq
  | swapVertex a b => exact tetQ_step k _ trivial hi hok hq
  | swapEdge a b => exact tetQ_step k _ trivial hi hok hq
  | swapFace a b => exact tetQ_step k _ trivial hi hok hq
  | swapCell a b => exact tetQ_step k _ trivial hi hok hq
  | collectGarbage => exact tetQ_step k _ trivial hi hok hq
  | enableDeferred b => exact tetQ_step k _ trivial hi hok hq
  | enableFast b => exact tetQ_step k _ trivial hi hok hq
  | enableBU kind b => exact tetQ_step k _ trivial hi hok hq

end TetSt

/-- **one operation keeps the invariant**, in every deletion mode and every bottom-up configuration -/
theorem sinv_stepTetX (k : Kernel) (op : TetOp) (hi : TetSInv k) (hok : ShapeOK k op) : TetSInv (k.stepTetX op).1 := by
  have ht := tinv_stepTetX k op ⟨hi.shape, hi.ginv⟩ (tetOpOK_of_shapeOK hok)
  refine ⟨ht.ginv, ht.shape, ?_⟩
  cases op with
  | base o => exact TetSt.tetQ_baseStep hi.ginv hi.tetQ o hok
  | addHalfface3 chk a b c =>
    obtain ⟨rfl, hv, he, hu, hb⟩ := hok
    exact TetSt.tetQ_build hi.ginv hv he hu hi.tetQ (.addHalfface3 a b c) hb
  | addCell4 chk a b c d =>
    obtain ⟨hv, he, hu, hb⟩ := hok
    exact TetSt.tetQ_build hi.ginv hv he hu hi.tetQ (.addCell4 chk a b c d) hb
  | probeMode d f => exact tetQ_enableFast f (tetQ_enableDeferred hi.ginv d hi.tetQ)
  | collapse h => exact tetQ_collapseEdge hi.ginv hi.tetQ hok
  | _ => exact absurd hok id

def ShapeAdmissible : Kernel → List TetOp → Prop
  | _, [] => True
  | k, op :: rest => ShapeOK k op ∧ ShapeAdmissible (k.stepTetX op).1 rest

theorem sinv_run (ops : List TetOp) (k : Kernel) (hi : TetSInv k) (h : ShapeAdmissible k ops) : TetSInv (runTetX k ops) := by
  induction ops generalizing k with
  | nil => exact hi
  | cons op t ih =>
    simp only [runTetX, List.foldl_cons]
    exact ih _ (sinv_stepTetX k op hi h.1) h.2

theorem tetShape_run (ops : List TetOp) (k : Kernel) (hi : TetSInv k) (h : ShapeAdmissible k ops) :
    TetSInv (runTetX k ops) ∧ TetShape (runTetX k ops) :=
  ⟨sinv_run ops k hi h, (sinv_run ops k hi h).tetQ.tetShape⟩

/-- what the invariant gives: stored faces have three halfedges, stored cells four halffaces; every live face is a
    triangle and every live cell has four halffaces on four distinct vertices -/
theorem TetSInv.tetShape {k : Kernel} (hi : TetSInv k) : ValenceShape k ∧ TetShape k := ⟨hi.shape, hi.tetQ.tetShape⟩

theorem tetShape_reachable (ops : List TetOp) (h : ShapeAdmissible {} ops) : TetShape (runTetX {} ops) :=
  (tetShape_run ops {} sinv_empty h).2

/-! ### Boolean forms (for `decide` on concrete histories; `false` on `collapse`) -/

def baseOKB (k : Kernel) : Op → Bool
  | .addFaceHe _ _ | .addFaceV _ | .setEdge _ _ _ | .setFace _ _ | .setCell _ _ => false
  | .addCell chk hfs => chk && k.vBU && k.eBU && decide (Unflagged k) && decide (BuildOK k (.addCellHF hfs))
  | op => opOKB k op

def shapeOKB (k : Kernel) : TetOp → Bool
  | .base op => baseOKB k op
  | .addHalfface3 chk a b c => !chk && k.vBU && k.eBU && decide (Unflagged k) && decide (BuildOK k (.addHalfface3 a b c))
  | .addCell4 chk a b c d => k.vBU && k.eBU && decide (Unflagged k) && decide (BuildOK k (.addCell4 chk a b c d))
  | .probeMode _ _ => true
  | _ => false

theorem shapeOK_of_B (k : Kernel) (op : TetOp) (h : shapeOKB k op = true) : ShapeOK k op := by
  cases op with
  | base o =>
    cases o with
    | addFaceHe chk hes => exact absurd h (by simp [shapeOKB, baseOKB])
    | addFaceV vs => exact absurd h (by simp [shapeOKB, baseOKB])
    | setEdge e a b => exact absurd h (by simp [shapeOKB, baseOKB])
    | setFace f hes => exact absurd h (by simp [shapeOKB, baseOKB])
    | setCell c hfs => exact absurd h (by simp [shapeOKB, baseOKB])
    | addCell chk hfs =>
      simp only [shapeOKB, baseOKB, Bool.and_eq_true, decide_eq_true_eq] at h
      exact ⟨h.1.1.1.1, h.1.1.1.2, h.1.1.2, h.1.2, h.2⟩
    | _ => exact opOK_of_B k _ (by simpa only [shapeOKB, baseOKB] using h)
  | addHalfface3 chk a b c =>
    simp only [shapeOKB, Bool.and_eq_true, decide_eq_true_eq, Bool.not_eq_true'] at h
    exact ⟨h.1.1.1.1, h.1.1.1.2, h.1.1.2, h.1.2, h.2⟩
  | addCell4 chk a b c d =>
    simp only [shapeOKB, Bool.and_eq_true, decide_eq_true_eq] at h
    exact ⟨h.1.1.1, h.1.1.2, h.1.2, h.2⟩
  | probeMode d f => trivial
  | _ => exact absurd h (by simp [shapeOKB])

def shapeAdmissibleB : Kernel → List TetOp → Bool
  | _, [] => true
  | k, op :: rest => shapeOKB k op && shapeAdmissibleB (k.stepTetX op).1 rest

theorem shapeAdmissible_of_B (k : Kernel) (ops : List TetOp) (h : shapeAdmissibleB k ops = true) : ShapeAdmissible k ops := by
  induction ops generalizing k with
  | nil => trivial
  | cons op t ih =>
    simp only [shapeAdmissibleB, Bool.and_eq_true] at h
    exact ⟨shapeOK_of_B k op h.1, ih _ h.2⟩

/-! ### non-vacuity -/

/-- IMMEDIATE NON-FAST mode: two tets glued along a face, `delete_vertex(4)` (removes the second tet, its three other
    faces and edges, and the vertex slot), then the vertices 0 and 3 are swapped -/
def sampleStable : List TetOp :=
  [.probeMode false false, .base (.addNVertices 5), .addCell4 true 0 1 2 3, .addCell4 true 0 2 1 4,
   .base (.deleteVertex 4), .base (.swapVertex 0 3)]

theorem sampleStable_admissible : ShapeAdmissible {} sampleStable := shapeAdmissible_of_B _ _ (by decide +kernel)

example : TetShape (runTetX {} sampleStable) := tetShape_reachable sampleStable sampleStable_admissible
/-- the history does something: one cell, four faces and four vertices are left, the cell is on `(3,1,2;0)` -/
example : (runTetX {} sampleStable).nC = 1 ∧ (runTetX {} sampleStable).nF = 4 ∧ (runTetX {} sampleStable).nV = 4 ∧
    (runTetX {} sampleStable).cellVertSet 0 = [0, 1, 2, 3] ∧
    (runTetX {} sampleStable).hfVerts (((runTetX {} sampleStable).cellAt 0).headD 0) = [3, 1, 2] := by decide +kernel
/-- TEST (cross-check of the conclusion on this one state) -/
example : TetShape (runTetX {} sampleStable) ∧ TetQ (runTetX {} sampleStable) := by decide +kernel

/-- DEFERRED mode, index-swapping with flagged entities: after `delete_face(0)` (flags face 0 and both cells) the edge swap
    leaves the definition of the flagged face alone -/
def sampleStale : List TetOp :=
  [.probeMode true false, .base (.addNVertices 5), .addCell4 true 0 1 2 3, .addCell4 true 0 2 1 4, .addCell4 true 1 2 3 4,
   .base (.deleteFace 0), .base (.swapEdge 0 5), .base (.swapFace 0 3), .base (.swapVertex 1 2)]

theorem sampleStale_admissible : ShapeAdmissible {} sampleStale := shapeAdmissible_of_B _ _ (by decide +kernel)
example : TetShape (runTetX {} sampleStale) := tetShape_reachable sampleStale sampleStale_admissible
example : (runTetX {} sampleStale).liveCells = [2] := by decide +kernel

/-- **WITNESS: the STORED versions (`FaceLoops`: every stored face a closed triangle, `AllTet`: every stored cell a
    tetrahedron) are NOT kept by the swaps** — in deferred mode the cache-guided `swap_edge_indices` does not rename
    the halfedges of a face that is flagged as deleted (K3: OVM/Refine/CacheSwapSpec.lean), so after this admissible
    history the flagged face and the flagged cells are stale.  This is why `TetQ` speaks about live faces and cells. -/
example : ¬ FaceLoops (runTetX {} sampleStale) ∧ ¬ AllTet (runTetX {} sampleStale) ∧ TetQ (runTetX {} sampleStale) := by
  decide +kernel

theorem shapeAdmissible_append (a b : List TetOp) (k : Kernel) (ha : ShapeAdmissible k a)
    (hb : ShapeAdmissible (runTetX k a) b) : ShapeAdmissible k (a ++ b) := by
  induction a generalizing k with
  | nil => exact hb
  | cons op t ih => exact ⟨ha.1, ih _ ha.2 hb⟩

/-- a real `collapse_edge(0 → 4)` in IMMEDIATE non-fast mode on the three tets of `sampleCol0` (OVM/Tet/ShapeRun.lean);
    the gap hypothesis is discharged for this state by the replay `sampleCol_pre` -/
theorem sampleCol_shapeAdmissible : ShapeAdmissible {} (sampleCol0 ++ [.collapse 15]) := by
  refine shapeAdmissible_append _ _ _ (shapeAdmissible_of_B _ _ (by decide +kernel)) ⟨?_, trivial⟩
  refine ⟨by decide +kernel, by decide +kernel, by decide +kernel, ?_⟩
  rw [sampleCol_pre]
  exact (tinv_reachable _ (admissibleAll_of_B _ _ (by decide +kernel))).ginv

example : TetShape (runTetX {} (sampleCol0 ++ [.collapse 15])) := tetShape_reachable _ sampleCol_shapeAdmissible
example : (runTetX {} (sampleCol0 ++ [.collapse 15])).liveCells.map (runTetX {} (sampleCol0 ++ [.collapse 15])).cellVertSet =
    [[0, 1, 2, 4], [0, 1, 2, 3]] := by decide +kernel

end Kernel
end OVM

import OVM.Tet.Spec
/-
  Lemmas for C15(b): the vertex-order queries on a cell that satisfies `IsTet`.
-/
set_option maxHeartbeats 400000
namespace OVM
namespace Kernel

/-! ### rotations of three-element cycles -/
theorem rot_three (a : List Nat) (x y z : Nat) :
    Rot a [x, y, z] ↔ a = [x, y, z] ∨ a = [y, z, x] ∨ a = [z, x, y] := by
  unfold Rot; simp [List.rotateLeft]

theorem Rot.mem_iff {a b : List Nat} (h : Rot a b) (hb : b.length = 3) (v : Nat) : v ∈ a ↔ v ∈ b := by
  match b, hb with
  | [x, y, z], _ =>
    rcases (rot_three a x y z).mp h with rfl | rfl | rfl <;> simp <;> omega

/-- the first vertex of `o` outside `vs` is `w` when `w` is the only such vertex -/
theorem fourthVertex_unique (vs o : List Nat) (w : Nat) (hw : w ∈ o) (hn : w ∉ vs)
    (hall : ∀ x ∈ o, x ≠ w → x ∈ vs) : fourthVertex vs o = some w := by
  unfold fourthVertex
  have e : (fun v => !vs.contains v) = fun v => !decide (v ∈ vs) := by funext v; simp
  rw [e]
  induction o with
  | nil => simp at hw
  | cons a t ih =>
    simp only [List.find?_cons]
    by_cases ha : a = w
    · subst ha; simp [hn]
    · have : a ∈ vs := hall a (by simp) ha
      simp only [this, decide_true, Bool.not_true]
      apply ih
      · rcases List.mem_cons.mp hw with h | h
        · exact absurd h.symm ha
        · exact h
      · intro x hx hxw; exact hall x (by simp [hx]) hxw

/-- two different triangles of a tetrahedron: the second contains the vertex the first one misses,
    and nothing else that the first does not contain -/
theorem tris_pair (p q r s : Nat) (hd : [p, q, r, s].Nodup) (t1 t2 : List Nat)
    (h1 : t1 ∈ tris p q r s) (h2 : t2 ∈ tris p q r s) (hne : t1 ≠ t2) :
    ∃ w, w ∈ t2 ∧ w ∉ t1 ∧ (∀ x ∈ t2, x ≠ w → x ∈ t1) ∧ w ∈ [p, q, r, s] ∧ (∀ v ∈ [p, q, r, s], v ∉ t1 → v = w) := by
  simp only [List.nodup_cons, List.mem_cons, List.not_mem_nil, or_false, not_or, List.nodup_nil, and_true] at hd
  obtain ⟨⟨hpq, hpr, hps⟩, ⟨hqr, hqs⟩, hrs, _⟩ := hd
  have hqp := Ne.symm hpq; have hrp := Ne.symm hpr; have hsp := Ne.symm hps
  have hrq := Ne.symm hqr; have hsq := Ne.symm hqs; have hsr := Ne.symm hrs
  simp only [tris, List.mem_cons, List.not_mem_nil, or_false] at h1 h2
  rcases h1 with rfl | rfl | rfl | rfl <;> rcases h2 with rfl | rfl | rfl | rfl <;>
    first
    | exact absurd rfl hne
    | (refine ⟨s, ?_⟩; simp_all; done)
    | (refine ⟨r, ?_⟩; simp_all; done)
    | (refine ⟨p, ?_⟩; simp_all; done)
    | (refine ⟨q, ?_⟩; simp_all; done)

theorem tris_length (p q r s : Nat) (t : List Nat) (h : t ∈ tris p q r s) : t.length = 3 := by
  simp only [tris, List.mem_cons, List.not_mem_nil, or_false] at h
  rcases h with rfl | rfl | rfl | rfl <;> rfl

/-- what `IsTet` provides -/
theorem IsTet.elim {k : Kernel} {c : Nat} (h : IsTet k c) :
    ∃ p q r s, k.hfVerts ((k.cellAt c).headD 0) = [p, q, r] ∧ s ∈ k.cellVertSet c ∧ TetOn k (k.cellAt c) p q r s := by
  unfold IsTet at h
  split at h
  · rename_i p q r heq
    obtain ⟨s, hs, ht⟩ := h
    exact ⟨p, q, r, s, heq, hs, ht⟩
  · exact absurd h id

/-- the vertex of the tetrahedron that a triangle misses; unique -/
theorem tri_apex (p q r s : Nat) (hd : [p, q, r, s].Nodup) (t : List Nat) (ht : t ∈ tris p q r s) :
    ∃ w, w ∈ [p, q, r, s] ∧ w ∉ t ∧ (∀ v ∈ [p, q, r, s], v ∉ t → v = w) ∧ (∀ v ∈ t, v ∈ [p, q, r, s]) := by
  -- take any other triangle and use `tris_pair`
  have : ∃ t2 ∈ tris p q r s, t ≠ t2 := by
    simp only [List.nodup_cons, List.mem_cons, List.not_mem_nil, or_false, not_or, List.nodup_nil, and_true] at hd
    simp only [tris, List.mem_cons, List.not_mem_nil, or_false] at ht
    rcases ht with rfl | rfl | rfl | rfl
    · exact ⟨[q, p, s], by simp [tris], by simp; omega⟩
    · exact ⟨[p, q, r], by simp [tris], by simp; omega⟩
    · exact ⟨[p, q, r], by simp [tris], by simp; omega⟩
    · exact ⟨[q, p, s], by simp [tris], by simp; omega⟩
  obtain ⟨t2, h2, hne⟩ := this
  obtain ⟨w, _, hw1, _, hw3, hw4⟩ := tris_pair p q r s hd t t2 ht h2 hne
  refine ⟨w, hw3, hw1, hw4, ?_⟩
  simp only [tris, List.mem_cons, List.not_mem_nil, or_false] at ht
  rcases ht with rfl | rfl | rfl | rfl <;> simp

/-- `get_cell_vertices(hfh)` on a tetrahedron given by `TetOn`: the cycle of `hfh`, then the one vertex
    of `{p,q,r,s}` that is not on `hfh` -/
theorem getCellVerticesHF_tetOn {k : Kernel} {c hf p q r s : Nat} (hT : TetOn k (k.cellAt c) p q r s)
    (hc : ∀ h ∈ k.cellAt c, k.cellOf h = some c) (hm : hf ∈ k.cellAt c) :
    ∃ w, k.getCellVerticesHF hf = k.hfVerts hf ++ [w] ∧ w ∉ k.hfVerts hf ∧ w ∈ [p, q, r, s] ∧
      (∀ v ∈ [p, q, r, s], v ∉ k.hfVerts hf → v = w) ∧ (∀ v ∈ k.hfVerts hf, v ∈ [p, q, r, s]) ∧
      (k.hfVerts hf).length = 3 := by
  obtain ⟨hd, hlen, hnd, hall, hsurj, hinj⟩ := hT
  match hcs : k.cellAt c, hlen with
  | [a0, a1, a2, a3], _ =>
    rw [hcs] at hm hall hsurj hinj hnd hc
    have h01 : a0 ≠ a1 := by
      intro e; simp [e] at hnd
    let other := if hf != a0 then a0 else a1
    have hother : other ∈ [a0, a1, a2, a3] ∧ other ≠ hf := by
      by_cases e : hf = a0
      · subst e; simp [other]; exact fun e => h01 e.symm
      · simp [other, e]; exact fun e' => e e'.symm
    obtain ⟨t1, ht1, hr1⟩ := hall hf hm
    obtain ⟨t2, ht2, hr2⟩ := hall other hother.1
    have hne : t1 ≠ t2 := by
      intro e; subst e
      exact hother.2 (hinj other hother.1 hf hm t1 ht1 hr2 hr1)
    obtain ⟨w, hw2, hw1, hwall, hwin, hwuniq⟩ := tris_pair p q r s hd t1 t2 ht1 ht2 hne
    have l1 := tris_length p q r s t1 ht1
    have l2 := tris_length p q r s t2 ht2
    obtain ⟨_, _, _, _, hsub⟩ := tri_apex p q r s hd t1 ht1
    refine ⟨w, ?_, fun h => hw1 ((hr1.mem_iff l1 w).mp h), hwin,
      fun v hv hn => hwuniq v hv (fun h => hn ((hr1.mem_iff l1 v).mpr h)),
      fun v hv => hsub v ((hr1.mem_iff l1 v).mp hv), ?_⟩
    · unfold getCellVerticesHF
      rw [hc hf hm]
      simp only [hcs, List.getD_cons_zero, List.getD_cons_succ]
      have : fourthVertex (k.hfVerts hf) (k.hfVerts other) = some w := by
        apply fourthVertex_unique
        · exact (hr2.mem_iff l2 w).mpr hw2
        · exact fun h => hw1 ((hr1.mem_iff l1 w).mp h)
        · intro x hx hxw
          exact (hr1.mem_iff l1 x).mpr (hwall x ((hr2.mem_iff l2 x).mp hx) hxw)
      simp only [other] at this
      rw [this]
    · match t1, l1, hr1 with
      | [x, y, z], _, hr1 => rcases (rot_three _ x y z).mp hr1 with e | e | e <;> rw [e] <;> rfl


theorem find?_unique {α} (p : α → Bool) (l : List α) (a : α) (ha : a ∈ l) (hp : p a = true)
    (hu : ∀ x ∈ l, p x = true → x = a) : l.find? p = some a := by
  induction l with
  | nil => simp at ha
  | cons b t ih =>
    simp only [List.find?_cons]
    by_cases hb : p b = true
    · have := hu b (by simp) hb; subst this; simp [hb]
    · simp only [hb]
      apply ih
      · rcases List.mem_cons.mp ha with e | e
        · subst e; exact absurd hp hb
        · exact e
      · intro x hx hpx; exact hu x (by simp [hx]) hpx

theorem tris_nodup (p q r s : Nat) (hd : [p, q, r, s].Nodup) (t : List Nat) (ht : t ∈ tris p q r s) : t.Nodup := by
  simp only [List.nodup_cons, List.mem_cons, List.not_mem_nil, or_false, not_or, List.nodup_nil, and_true] at hd
  obtain ⟨⟨hpq, hpr, hps⟩, ⟨hqr, hqs⟩, hrs, _⟩ := hd
  have hqp := Ne.symm hpq; have hrp := Ne.symm hpr; have hsp := Ne.symm hps
  have hrq := Ne.symm hqr; have hsq := Ne.symm hqs; have hsr := Ne.symm hrs
  simp only [tris, List.mem_cons, List.not_mem_nil, or_false] at ht
  rcases ht with rfl | rfl | rfl | rfl <;> simp_all

theorem Rot.symm3 {a b : List Nat} (h : Rot a b) (hb : b.length = 3) : Rot b a := by
  match b, hb with
  | [x, y, z], _ =>
    rcases (rot_three a x y z).mp h with rfl | rfl | rfl
    · exact Or.inl rfl
    · exact Or.inr (Or.inr (by simp [List.rotateLeft]))
    · exact Or.inr (Or.inl (by simp [List.rotateLeft]))

theorem head_getD_mem (l : List Nat) (h : l.length = 4) : l.getD 0 0 ∈ l ∧ l.headD 0 = l.getD 0 0 := by
  match l, h with
  | [a, b, c, d], _ => simp

/-- C15(b), `get_cell_vertices(ch)`: the cycle of the first halfface as stored, then the fourth vertex -/
theorem getCellVertices_isTet {k : Kernel} {c : Nat} (ht : IsTet k c) (hc : ∀ h ∈ k.cellAt c, k.cellOf h = some c) :
    ∃ p q r s, k.hfVerts ((k.cellAt c).headD 0) = [p, q, r] ∧ [p, q, r, s].Nodup ∧ TetOn k (k.cellAt c) p q r s ∧
      k.getCellVertices c = [p, q, r, s] := by
  obtain ⟨p, q, r, s, hv, _, hT⟩ := ht.elim
  have hh := head_getD_mem (k.cellAt c) hT.2.1
  obtain ⟨w, hres, hwn, hwin, _, _, _⟩ := getCellVerticesHF_tetOn hT hc hh.1
  rw [← hh.2, hv] at hres hwn
  have : w = s := by
    simp only [List.mem_cons, List.not_mem_nil, or_false, not_or] at hwin hwn
    rcases hwin with e | e | e | e
    · exact absurd e hwn.1
    · exact absurd e hwn.2.1
    · exact absurd e hwn.2.2
    · exact e
  subst this
  refine ⟨p, q, r, w, hv, hT.1, hT, ?_⟩
  unfold getCellVertices
  rw [← hh.2] ; exact hres

/-- C15(b), `get_cell_vertices(hfh, heh)`: the cycle of `hfh` read from the start of `heh`, then the apex -/
theorem getCellVerticesHE_isTet {k : Kernel} {c hf heh : Nat} (ht : IsTet k c)
    (hc : ∀ h ∈ k.cellAt c, k.cellOf h = some c) (hm : hf ∈ k.cellAt c) (hh : heh ∈ k.hfHes hf) :
    ∃ l w, Rot l (k.hfVerts hf) ∧ l.head? = some (k.fromV heh) ∧ k.getCellVerticesHE hf heh = l ++ [w] ∧
      w ∉ k.hfVerts hf ∧ k.getCellVerticesHF hf = k.hfVerts hf ++ [w] := by
  obtain ⟨p, q, r, s, _, _, hT⟩ := ht.elim
  obtain ⟨w, hres, hwn, _, _, _, hl⟩ := getCellVerticesHF_tetOn hT hc hm
  obtain ⟨t, htt, hr⟩ := hT.2.2.2.1 hf hm
  have hnd : (k.hfVerts hf).Nodup := by
    have l3 := tris_length p q r s t htt
    have tn := tris_nodup p q r s hT.1 t htt
    match t, l3, hr, tn with
    | [x, y, z], _, hr, tn =>
      rcases (rot_three _ x y z).mp hr with e | e | e <;> rw [e] <;> simp_all <;> omega
  have hfrom : k.fromV heh ∈ k.hfVerts hf := by
    unfold hfVerts; exact List.mem_map.mpr ⟨heh, hh, rfl⟩
  match hv : k.hfVerts hf, hl with
  | [x, y, z], _ =>
    rw [hv] at hres hnd hfrom hwn
    simp only [List.nodup_cons, List.mem_cons, List.not_mem_nil, or_false, not_or, List.nodup_nil, and_true] at hnd
    unfold getCellVerticesHE
    rw [hres]
    simp only [List.mem_cons, List.not_mem_nil, or_false] at hfrom
    obtain ⟨⟨hxy, hxz⟩, hyz, _⟩ := hnd
    have hyx := Ne.symm hxy; have hzx := Ne.symm hxz; have hzy := Ne.symm hyz
    rcases hfrom with e | e | e
    · refine ⟨[x, y, z], w, Or.inl rfl, by simp [e], ?_, hwn, rfl⟩
      rw [e]; simp [rotTo, hyx, hzx]
    · refine ⟨[y, z, x], w, Or.inr (Or.inl (by simp [List.rotateLeft])), by simp [e], ?_, hwn, rfl⟩
      rw [e]; simp [rotTo]
    · refine ⟨[z, x, y], w, Or.inr (Or.inr (by simp [List.rotateLeft])), by simp [e], ?_, hwn, rfl⟩
      rw [e]; simp [rotTo, hyz]

/-- C15(b), `get_cell_vertices(ch, vh)` for a vertex of the cell: some halfface of the cell (the first
    one if it contains `vh`) read from `vh`, then the vertex that halfface misses -/
theorem getCellVerticesCV_isTet {k : Kernel} {c v : Nat} (ht : IsTet k c) (hc : ∀ h ∈ k.cellAt c, k.cellOf h = some c)
    (hv : ∃ h ∈ k.cellAt c, v ∈ k.hfVerts h) :
    ∃ h' ∈ k.cellAt c, ∃ l w, Rot l (k.hfVerts h') ∧ l.head? = some v ∧ k.getCellVerticesCV c v = l ++ [w] ∧
      w ∉ k.hfVerts h' ∧ (∃ h'' ∈ k.cellAt c, w ∈ k.hfVerts h'') ∧
      (v ∈ k.hfVerts ((k.cellAt c).headD 0) → h' = (k.cellAt c).headD 0) := by
  obtain ⟨p, q, r, s, hhead, hd, hT, hres⟩ := getCellVertices_isTet ht hc
  have hh := head_getD_mem (k.cellAt c) hT.2.1
  -- v is one of p q r s
  have hvin : v ∈ [p, q, r, s] := by
    obtain ⟨h, hm, hvh⟩ := hv
    obtain ⟨t, htt, hr⟩ := hT.2.2.2.1 h hm
    obtain ⟨_, _, _, _, hsub⟩ := tri_apex p q r s hd t htt
    exact hsub v ((hr.mem_iff (tris_length p q r s t htt) v).mp hvh)
  have hd' := hd
  simp only [List.nodup_cons, List.mem_cons, List.not_mem_nil, or_false, not_or, List.nodup_nil, and_true] at hd'
  obtain ⟨⟨hpq, hpr, hps⟩, ⟨hqr, hqs⟩, hrs, _⟩ := hd'
  have hqp := Ne.symm hpq; have hrp := Ne.symm hpr; have hsp := Ne.symm hps
  have hrq := Ne.symm hqr; have hsq := Ne.symm hqs; have hsr := Ne.symm hrs
  unfold getCellVerticesCV
  rw [hres]
  -- the apex s lies on some halfface
  obtain ⟨h2, hm2, hr2⟩ := hT.2.2.2.2.1 [q, p, s] (by simp [tris])
  have hs_on : ∃ h'' ∈ k.cellAt c, s ∈ k.hfVerts h'' := ⟨h2, hm2, (hr2.mem_iff rfl s).mpr (by simp)⟩
  simp only [List.mem_cons, List.not_mem_nil, or_false] at hvin
  rcases hvin with e | e | e | e
  · subst e
    refine ⟨(k.cellAt c).headD 0, by rw [hh.2]; exact hh.1, [v, q, r], s, by rw [hhead]; exact Or.inl rfl, rfl, ?_, by rw [hhead]; simp [hsp, hsq, hsr], hs_on, fun _ => rfl⟩
    simp [startAt, hqp, hrp, hsp]
  · subst e
    refine ⟨(k.cellAt c).headD 0, by rw [hh.2]; exact hh.1, [v, r, p], s, by rw [hhead]; exact Or.inr (Or.inl (by simp [List.rotateLeft])), rfl, ?_, by rw [hhead]; simp [hsp, hsq, hsr], hs_on, fun _ => rfl⟩
    simp [startAt]
  · subst e
    refine ⟨(k.cellAt c).headD 0, by rw [hh.2]; exact hh.1, [v, p, q], s, by rw [hhead]; exact Or.inr (Or.inr (by simp [List.rotateLeft])), rfl, ?_, by rw [hhead]; simp [hsp, hsq, hsr], hs_on, fun _ => rfl⟩
    simp [startAt, hqr]
  · subst e
    -- the face (q, p, s) read from s; its missing vertex is r
    have hr_on : ∃ h'' ∈ k.cellAt c, r ∈ k.hfVerts h'' :=
      ⟨(k.cellAt c).headD 0, by rw [hh.2]; exact hh.1, by rw [hhead]; simp⟩
    refine ⟨h2, hm2, [v, q, p], r, ?_, rfl, ?_, ?_, hr_on, ?_⟩
    · rcases (rot_three _ q p v).mp hr2 with e | e | e <;> rw [e]
      · exact Or.inr (Or.inr (by simp [List.rotateLeft]))
      · exact Or.inr (Or.inl (by simp [List.rotateLeft]))
      · exact Or.inl rfl
    · simp [startAt, hqs, hrs]
    · intro hin; have := (hr2.mem_iff rfl r).mp hin; simp at this; omega
    · intro hin; rw [hhead] at hin; simp at hin; omega

/-- C15(b): `halfface_opposite_vertex` followed by `vertex_opposite_halfface` gives the halfface back -/
theorem voh_hov_isTet {k : Kernel} {c hf : Nat} (ht : IsTet k c) (hc : ∀ h ∈ k.cellAt c, k.cellOf h = some c)
    (hm : hf ∈ k.cellAt c) :
    ∃ w, k.halffaceOppositeVertex hf = some w ∧ w ∉ k.hfVerts hf ∧ k.vertexOppositeHalfface c w = some hf := by
  obtain ⟨p, q, r, s, _, _, hT⟩ := ht.elim
  obtain ⟨w, hres, hwn, hwin, hwuniq, _, hl⟩ := getCellVerticesHF_tetOn hT hc hm
  refine ⟨w, ?_, hwn, ?_⟩
  · unfold halffaceOppositeVertex
    rw [hc hf hm, hres]
    simp [hl]
  · unfold vertexOppositeHalfface
    apply find?_unique
    · exact hm
    · simpa using hwn
    · intro x hx hpx
      simp only [Bool.not_eq_true', List.contains_eq_mem, decide_eq_false_iff_not] at hpx
      -- x misses w; so does hf; two halffaces missing the same vertex coincide
      obtain ⟨t1, ht1, hr1⟩ := hT.2.2.2.1 hf hm
      obtain ⟨t2, ht2, hr2⟩ := hT.2.2.2.1 x hx
      by_cases e : t1 = t2
      · subst e; exact hT.2.2.2.2.2 x hx hf hm t1 ht1 hr2 hr1
      · obtain ⟨w', hw2, hw1, _, hw'in, _⟩ := tris_pair p q r s hT.1 t1 t2 ht1 ht2 e
        have : w' = w := hwuniq w' hw'in (fun h => hw1 ((hr1.mem_iff (tris_length p q r s t1 ht1) w').mp h))
        subst this
        exact absurd ((hr2.mem_iff (tris_length p q r s t2 ht2) w').mpr hw2) hpx

/-- C15(b): `vertex_opposite_halfface` followed by `halfface_opposite_vertex` gives the vertex back -/
theorem hov_voh_isTet {k : Kernel} {c v : Nat} (ht : IsTet k c) (hc : ∀ h ∈ k.cellAt c, k.cellOf h = some c)
    (hv : ∃ h ∈ k.cellAt c, v ∈ k.hfVerts h) :
    ∃ hf, k.vertexOppositeHalfface c v = some hf ∧ hf ∈ k.cellAt c ∧ v ∉ k.hfVerts hf ∧ k.halffaceOppositeVertex hf = some v := by
  obtain ⟨p, q, r, s, _, _, hT⟩ := ht.elim
  have hd := hT.1
  have hvin : v ∈ [p, q, r, s] := by
    obtain ⟨h, hm, hvh⟩ := hv
    obtain ⟨t, htt, hr⟩ := hT.2.2.2.1 h hm
    obtain ⟨_, _, _, _, hsub⟩ := tri_apex p q r s hd t htt
    exact hsub v ((hr.mem_iff (tris_length p q r s t htt) v).mp hvh)
  -- some triangle misses v, hence some halfface of the cell does
  have hex : ∃ t ∈ tris p q r s, v ∉ t := by
    simp only [List.nodup_cons, List.mem_cons, List.not_mem_nil, or_false, not_or, List.nodup_nil, and_true] at hd
    obtain ⟨⟨hpq, hpr, hps⟩, ⟨hqr, hqs⟩, hrs, _⟩ := hd
    simp only [List.mem_cons, List.not_mem_nil, or_false] at hvin
    rcases hvin with e | e | e | e <;> subst e
    · exact ⟨[r, q, s], by simp [tris], by simp; omega⟩
    · exact ⟨[p, r, s], by simp [tris], by simp; omega⟩
    · exact ⟨[q, p, s], by simp [tris], by simp; omega⟩
    · exact ⟨[p, q, r], by simp [tris], by simp; omega⟩
  obtain ⟨t, htt, hvt⟩ := hex
  obtain ⟨h0, hm0, hr0⟩ := hT.2.2.2.2.1 t htt
  have hp0 : (fun hf => !(k.hfVerts hf).contains v) h0 = true := by
    have : v ∉ k.hfVerts h0 := fun h => hvt ((hr0.mem_iff (tris_length p q r s t htt) v).mp h)
    simpa using this
  have hsome : ((k.cellAt c).find? (fun hf => !(k.hfVerts hf).contains v)).isSome := by
    rw [List.find?_isSome]; exact ⟨h0, hm0, hp0⟩
  obtain ⟨hf, hfe⟩ := Option.isSome_iff_exists.mp hsome
  have hmem := List.mem_of_find?_eq_some hfe
  have hpf := List.find?_some hfe
  have hvn : v ∉ k.hfVerts hf := by simpa using hpf
  refine ⟨hf, hfe, hmem, hvn, ?_⟩
  obtain ⟨w, hres, hwn, hwin, hwuniq, _, hl⟩ := getCellVerticesHF_tetOn hT hc hmem
  have : v = w := hwuniq v hvin hvn
  subst this
  unfold halffaceOppositeVertex
  rw [hc hf hmem, hres]
  simp [hl]
end Kernel
end OVM

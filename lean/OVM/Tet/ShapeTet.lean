import OVM.Tet.TetLemmas
import OVM.Tet.ShapeLemmas
/-
  C15(a), vertex part: `IsTet` cells have exactly four vertices; `TetShape` from the valence shape.
-/
namespace OVM

theorem mem_insertSorted (x y : Nat) (l : List Nat) : y ∈ insertSorted x l ↔ y = x ∨ y ∈ l := by
  induction l with
  | nil => simp [insertSorted]
  | cons a t ih =>
    unfold insertSorted
    split
    · simp
    · split
      · rename_i h1 h2; subst h2; simp
      · simp [ih]; constructor
        · rintro (h | h | h) <;> simp [h]
        · rintro (h | h | h) <;> simp [h]

theorem mem_toSet (y : Nat) (l : List Nat) : y ∈ toSet l ↔ y ∈ l := by
  unfold toSet
  have : ∀ (l s : List Nat), y ∈ l.foldl (fun s x => insertSorted x s) s ↔ y ∈ l ∨ y ∈ s := by
    intro l
    induction l with
    | nil => intro s; simp
    | cons a t ih =>
      intro s; simp only [List.foldl_cons]; rw [ih, mem_insertSorted]
      simp only [List.mem_cons]
      constructor
      · rintro (h | h | h)
        · exact Or.inl (Or.inr h)
        · exact Or.inl (Or.inl h)
        · exact Or.inr h
      · rintro ((h | h) | h)
        · exact Or.inr (Or.inl h)
        · exact Or.inl h
        · exact Or.inr (Or.inr h)
  simpa using this l []

namespace Kernel

/-- the vertices of a cell described by `TetOn` are exactly `p, q, r, s` -/
theorem cellVertSet_mem_iff {k : Kernel} {c p q r s : Nat} (hT : TetOn k (k.cellAt c) p q r s) :
    ∀ x, x ∈ k.cellVertSet c ↔ x ∈ [p, q, r, s] := by
  have hd := hT.1
  intro x
  unfold cellVertSet
  rw [mem_toSet, List.mem_flatMap]
  constructor
  · rintro ⟨h, hm, hx⟩
    obtain ⟨t, htt, hr⟩ := hT.2.2.2.1 h hm
    obtain ⟨_, _, _, _, hsub⟩ := tri_apex p q r s hd t htt
    exact hsub x ((hr.mem_iff (tris_length p q r s t htt) x).mp hx)
  · intro hx
    have : x ∈ [p, q, r] ∨ x ∈ [q, p, s] := by
      simp only [List.mem_cons, List.not_mem_nil, or_false] at hx ⊢
      rcases hx with e | e | e | e <;> simp [e]
    rcases this with h1 | h1
    · obtain ⟨h, hm, hr⟩ := hT.2.2.2.2.1 [p, q, r] (by simp [tris])
      exact ⟨h, hm, (hr.mem_iff rfl x).mpr h1⟩
    · obtain ⟨h, hm, hr⟩ := hT.2.2.2.2.1 [q, p, s] (by simp [tris])
      exact ⟨h, hm, (hr.mem_iff rfl x).mpr h1⟩

/-- a tetrahedron in the sense of `IsTet` has exactly four vertices -/
theorem isTet_fourVerts {k : Kernel} {c : Nat} (ht : IsTet k c) : (k.cellVertSet c).length = 4 := by
  obtain ⟨p, q, r, s, _, _, hT⟩ := ht.elim
  have hnd : (k.cellVertSet c).Nodup := by unfold cellVertSet; exact toSet_nodup _
  have := (List.perm_ext_iff_of_nodup hnd hT.1).mpr (cellVertSet_mem_iff hT)
  simpa using this.length_eq

/-- the valence shape implies the valence part of `TetShape` -/
theorem valenceShape_live {k : Kernel} (h : ValenceShape k) :
    (∀ f ∈ k.liveFaces, (k.faceAt f).length = 3) ∧ (∀ c ∈ k.liveCells, (k.cellAt c).length = 4) := by
  constructor
  · intro f hf
    unfold liveFaces at hf
    have hlt : f < k.faces.length := by
      have := (List.mem_filter.mp hf).1; simpa [nF] using this
    unfold faceAt
    rw [List.getD_eq_getElem?_getD, List.getElem?_eq_getElem hlt]
    exact h.1 _ (List.getElem_mem hlt)
  · intro c hc
    unfold liveCells at hc
    have hlt : c < k.cells.length := by
      have := (List.mem_filter.mp hc).1; simpa [nC] using this
    unfold cellAt
    rw [List.getD_eq_getElem?_getD, List.getElem?_eq_getElem hlt]
    exact h.2 _ (List.getElem_mem hlt)

/-- `TetShape` from the valence shape and `IsTet` of the live cells -/
theorem tetShape_of {k : Kernel} (h : ValenceShape k) (ht : ∀ c ∈ k.liveCells, IsTet k c) : TetShape k :=
  ⟨(valenceShape_live h).1, fun c hc => ⟨(valenceShape_live h).2 c hc, isTet_fourVerts (ht c hc)⟩⟩
end Kernel
end OVM

import OVM.Tet.ShapeLemmas
import OVM.Tet.ShapeTet
import OVM.Refine.Global
/-
  C15(a) for EVERY deletion mode: `ValenceShape` (every stored face has three halfedges, every stored
  cell four halffaces) is kept by the index-shifting erase stages as well.  OVM/Tet/ShapeLemmas.lean has
  the deferred and the fast modes; what was missing there is that in immediate non-fast mode
  `delete_face/edge/vertex` and (non-fast) `collect_garbage` reach `fixHalfList` only for a slot that no
  stored definition mentions.  Builder K4 proved exactly that (OVM/Refine/CacheImmediate.lean: the
  closure versions under `Shift.ImmInv`; OVM/Refine/CacheGC.lean: the four sweeps under `GCInv`, whose
  `Closed` part gives `EraseFaceOK.unref` / `EraseEdgeOK.unref`).  This file threads `ValenceShape`
  through those inductions, and states the all-mode step theorem on top of K5's global invariant
  `Global.GInv = WF ∧ oneCell ∧ Closed ∧ FlagInv` (OVM/Refine/Global.lean).
-/
namespace OVM
namespace Kernel
open ScanDel

/-! ## immediate index-shifting mode: the closure versions `delete_face/edge/vertex` -/
namespace Shift

/-- the face loop of `delete_edge/vertex` keeps the shape: at every step no stored cell uses the victim -/
theorem shape_foldFaces (L : List Nat) (hd : Desc L) : ∀ k : Kernel, ImmInv k → (∀ x ∈ L, x < k.nF) →
    (∀ c ∈ k.cells, ∀ a ∈ c, eOf a ∉ L) → ValenceShape k → ValenceShape (L.foldl deleteFaceCore k) := by
  induction L with
  | nil => intro k _ _ _ hv; exact hv
  | cons x t ih =>
    intro k hi hlt hun hv
    have hx : x < k.nF := hlt x (by simp)
    have htx : ∀ y ∈ t, y < x := fun y hy => List.rel_of_pairwise_cons hd hy
    have hunx : ∀ c ∈ k.cells, ∀ a ∈ c, eOf a ≠ x := fun c hc a ha e => hun c hc a ha (by rw [e]; simp)
    obtain ⟨hi1, hcells, hfaces, _, _⟩ := imm_faceCore hi hx hunx
    have hn1 : (k.deleteFaceCore x).nF = k.nF - 1 := by unfold nF at *; rw [hfaces, List.length_eraseIdx, if_pos hx]
    have hv1 : ValenceShape (k.deleteFaceCore x) := (deleteFaceCore_keeps k x (Or.inr hunx)).shape hv
    simp only [List.foldl_cons]
    refine ih (List.Pairwise.of_cons hd) (k.deleteFaceCore x) hi1
      (fun y hy => by rw [hn1]; have := htx y hy; omega) ?_ hv1
    intro c1 hc1 a1 ha1
    rw [hcells] at hc1
    obtain ⟨c0, hc0, rfl⟩ := List.mem_map.mp hc1
    obtain ⟨a0, ha0, rfl⟩ := List.mem_map.mp ha1
    rw [eOf_corr2 x a0 (hunx c0 hc0 a0 ha0)]
    exact k4c_corr1_not_mem htx (fun hm => hun c0 hc0 a0 ha0 (List.mem_cons_of_mem _ hm))

/-- the edge loop of `delete_vertex` keeps the shape -/
theorem shape_foldEdges (L : List Nat) (hd : Desc L) : ∀ k : Kernel, ImmInv k → (∀ x ∈ L, x < k.nE) →
    (∀ c ∈ k.faces, ∀ a ∈ c, eOf a ∉ L) → ValenceShape k → ValenceShape (L.foldl deleteEdgeCore k) := by
  induction L with
  | nil => intro k _ _ _ hv; exact hv
  | cons x t ih =>
    intro k hi hlt hun hv
    have hx : x < k.nE := hlt x (by simp)
    have htx : ∀ y ∈ t, y < x := fun y hy => List.rel_of_pairwise_cons hd hy
    have hunx : ∀ c ∈ k.faces, ∀ a ∈ c, eOf a ≠ x := fun c hc a ha e => hun c hc a ha (by rw [e]; simp)
    obtain ⟨hi1, hfaces, hedges, _⟩ := imm_edgeCore hi hx hunx
    have hn1 : (k.deleteEdgeCore x).nE = k.nE - 1 := by unfold nE at *; rw [hedges, List.length_eraseIdx, if_pos hx]
    have hv1 : ValenceShape (k.deleteEdgeCore x) := (deleteEdgeCore_keeps k x (Or.inr hunx)).shape hv
    simp only [List.foldl_cons]
    refine ih (List.Pairwise.of_cons hd) (k.deleteEdgeCore x) hi1
      (fun y hy => by rw [hn1]; have := htx y hy; omega) ?_ hv1
    intro c1 hc1 a1 ha1
    rw [hfaces] at hc1
    obtain ⟨c0, hc0, rfl⟩ := List.mem_map.mp hc1
    obtain ⟨a0, ha0, rfl⟩ := List.mem_map.mp ha1
    rw [eOf_corr2 x a0 (hunx c0 hc0 a0 ha0)]
    exact k4c_corr1_not_mem htx (fun hm => hun c0 hc0 a0 ha0 (List.mem_cons_of_mem _ hm))

theorem shape_foldCells (L : List Nat) (k : Kernel) (hv : ValenceShape k) : ValenceShape (L.foldl deleteCellCore k) :=
  (foldl_keeps deleteCellCore (fun k x => deleteCellCore_keeps k x) L k).shape hv

/-- `delete_face` in immediate index-shifting mode -/
theorem shape_deleteFace {k : Kernel} {f : Nat} (hi : ImmInv k) (_hf : f < k.nF) (hv : ValenceShape k) :
    ValenceShape (k.deleteFace f) := by
  unfold deleteFace
  obtain ⟨_, _, _, _, a5⟩ := imm_cellsGone hi [f]
  exact (deleteFaceCore_keeps _ f (Or.inr (fun c hc a ha e => a5 c hc a ha (by
    have : eOf a = f := e
    rw [this]; simp)))).shape (shape_foldCells _ k hv)

/-- `delete_edge` in immediate index-shifting mode -/
theorem shape_deleteEdge {k : Kernel} {e : Nat} (hi : ImmInv k) (_he : e < k.nE) (hv : ValenceShape k) :
    ValenceShape (k.deleteEdge e) := by
  unfold deleteEdge
  simp only []
  obtain ⟨_, _, _, b5⟩ := imm_facesGone hi [e]
  obtain ⟨a1, a2, _, _, a5⟩ := imm_cellsGone hi (k.incidentFaces [e])
  have hv1 := shape_foldCells (k.incidentCells (k.incidentFaces [e])).reverse k hv
  generalize (k.incidentCells (k.incidentFaces [e])).reverse.foldl deleteCellCore k = k1 at a1 a2 a5 b5 hv1
  have hv2 := shape_foldFaces _ (desc_incidentFaces k [e]) k1 a1
    (fun x hx => by unfold nF; rw [a2]; exact incidentFaces_lt hi.wf (List.mem_reverse.mp hx))
    (fun c hc a ha hm => a5 c hc a ha (List.mem_reverse.mp hm)) hv1
  exact (deleteEdgeCore_keeps _ e (Or.inr (fun c hc a ha e1 => b5 c hc a ha (by
    have : eOf a = e := e1
    rw [this]; simp)))).shape hv2

/-- `delete_vertex` in immediate index-shifting mode -/
theorem shape_deleteVertex {k : Kernel} {v : Nat} (hi : ImmInv k) (hv : ValenceShape k) :
    ValenceShape (k.deleteVertex v) := by
  unfold deleteVertex
  simp only []
  obtain ⟨b1, b2, _, b5⟩ := imm_facesGone hi (k.incidentEdges [v])
  obtain ⟨a1, a2, _, _, a5⟩ := imm_cellsGone hi (k.incidentFaces (k.incidentEdges [v]))
  have hv1 := shape_foldCells (k.incidentCells (k.incidentFaces (k.incidentEdges [v]))).reverse k hv
  generalize (k.incidentCells (k.incidentFaces (k.incidentEdges [v]))).reverse.foldl deleteCellCore k = k1
    at a1 a2 a5 b1 b2 b5 hv1
  have hv2 := shape_foldFaces _ (desc_incidentFaces k (k.incidentEdges [v])) k1 a1
    (fun x hx => by unfold nF; rw [a2]; exact incidentFaces_lt hi.wf (List.mem_reverse.mp hx))
    (fun c hc a ha hm => a5 c hc a ha (List.mem_reverse.mp hm)) hv1
  generalize (k.incidentFaces (k.incidentEdges [v])).reverse.foldl deleteFaceCore k1 = k2 at b1 b2 b5 hv2
  have hv3 := shape_foldEdges _ (desc_incidentEdges k [v]) k2 b1
    (fun x hx => by unfold nE; rw [b2]; exact incidentEdges_lt hi.wf (List.mem_reverse.mp hx))
    (fun c hc a ha hm => b5 c hc a ha (List.mem_reverse.mp hm)) hv2
  exact (deleteVertexCore_keeps _ v).shape hv3

end Shift

/-! ## `collect_garbage` in index-shifting mode -/

theorem valenceShape_fanEq {k' k : Kernel} (e : FanEq k' k) (hv : ValenceShape k) : ValenceShape k' :=
  valenceShape_of_eq e.faces e.cells hv

/-- a sweep all of whose steps keep the shape unconditionally (cells, vertices) -/
theorem shape_gcSweep_free (n : Nat) (isDel : Kernel → Nat → Bool) (unflag core : Kernel → Nat → Kernel)
    (hu : ∀ k i, Keeps k (unflag k i)) (hc : ∀ k i, Keeps k (core k i)) (k : Kernel) :
    Keeps k (gcSweep k n isDel unflag core) := by
  unfold gcSweep
  apply foldl_keeps
  intro k i
  split
  · exact (hu k i).trans (hc _ i)
  · exact Keeps.refl k

theorem shape_sweepCells (k : Kernel) (hv : ValenceShape k) :
    ValenceShape (gcSweep k k.nC cDeleted (fun k i => { k with cDel := k.cDel.set i false }) deleteCellCore) :=
  (shape_gcSweep_free k.nC cDeleted (fun k i => { k with cDel := k.cDel.set i false }) deleteCellCore
    (fun _ _ => Keeps.of_eq rfl rfl rfl rfl) (fun k i => deleteCellCore_keeps k i) k).shape hv

theorem shape_sweepVerts (k : Kernel) (hv : ValenceShape k) :
    ValenceShape (gcSweep k k.nV vDeleted (fun k i => { k with vDel := k.vDel.set i false }) deleteVertexCore) :=
  (shape_gcSweep_free k.nV vDeleted (fun k i => { k with vDel := k.vDel.set i false }) deleteVertexCore
    (fun _ _ => Keeps.of_eq rfl rfl rfl rfl) (fun k i => deleteVertexCore_keeps k i) k).shape hv

/-- the face sweep (cc:759-766) keeps the shape: K4's sweep invariant, with `ValenceShape` added -/
theorem shape_sweepFaces {k : Kernel} (hi : GCInv k) (hc : CellsLive k) (hv : ValenceShape k) :
    ValenceShape (gcSweep k k.nF fDeleted (fun k i => { k with fDel := k.fDel.set i false }) deleteFaceCore) := by
  have := gcSweep_induct (fun k m => (GCInv k ∧ CellsLive k ∧ m ≤ k.nF ∧ ∀ c, m ≤ c → c < k.nF → k.fDeleted c = false) ∧
      ValenceShape k)
    fDeleted (fun k i => { k with fDel := k.fDel.set i false }) deleteFaceCore ?_ k.nF k
    ⟨⟨hi, hc, Nat.le_refl _, fun c h1 h2 => by omega⟩, hv⟩
  · exact this.2
  · intro k m ⟨⟨hi, hc, hm, hl⟩, hv⟩
    by_cases hd : k.fDeleted m = true
    · simp only [hd, if_true]
      obtain ⟨k3, e3, heq⟩ := gcFaceStep (h := m) hi.deferred hi.fast hi.wf hd
      rw [heq]
      have hi3 := GCInv.of_fanEq e3 hi
      have hm3 : m < k3.nF := by rw [fanEq_nF e3]; omega
      have hc3 : CellsLive k3 := cellsLive_of_eq (by rw [e3.cells]) e3.cDel hc
      have ok := eraseFaceOK_of_gc hi3 hm3 (by rw [fanEq_fDeleted e3]; exact hd) hc3
      refine ⟨⟨gcInv_eraseFace hi3 ok, ?_, ?_, ?_⟩, ?_⟩
      · exact cellsLive_of_eq (by rw [eraseFace_cells ok.fast hi3.wf ok.one ok.cellsLive ok.unref, List.length_map])
          (by simp) hc3
      · rw [eraseFace_nF k3 m hm3, fanEq_nF e3]; omega
      · intro c h1 h2
        rw [eraseFace_nF k3 m hm3, fanEq_nF e3] at h2
        rw [eraseFace_fDeleted, fanEq_fDeleted e3]
        have : up m c = c + 1 := by unfold up; split <;> omega
        rw [this]; exact hl (c + 1) (by omega) (by omega)
      · exact eraseFace_valence k3 m (valenceShape_fanEq e3 hv) (Or.inr ok.unref)
    · simp only [hd, Bool.false_eq_true, if_false]
      refine ⟨⟨hi, hc, by omega, fun c h1 h2 => ?_⟩, hv⟩
      rcases Nat.eq_or_lt_of_le h1 with e | e
      · subst e; simpa using hd
      · exact hl c e h2

/-- the edge sweep (cc:768-775) keeps the shape -/
theorem shape_sweepEdges {k : Kernel} (hi : GCInv k) (hc : CellsLive k) (hfl : FacesLive k) (hv : ValenceShape k) :
    ValenceShape (gcSweep k k.nE eDeleted (fun k i => { k with eDel := k.eDel.set i false }) deleteEdgeCore) := by
  have := gcSweep_induct (fun k m => (GCInv k ∧ CellsLive k ∧ FacesLive k ∧ m ≤ k.nE ∧
      ∀ c, m ≤ c → c < k.nE → k.eDeleted c = false) ∧ ValenceShape k)
    eDeleted (fun k i => { k with eDel := k.eDel.set i false }) deleteEdgeCore ?_ k.nE k
    ⟨⟨hi, hc, hfl, Nat.le_refl _, fun c h1 h2 => by omega⟩, hv⟩
  · exact this.2
  · intro k m ⟨⟨hi, hc, hfl, hm, hl⟩, hv⟩
    by_cases hd : k.eDeleted m = true
    · simp only [hd, if_true]
      rw [gcEdgeStep (h := m) hi.deferred hi.fast hi.wf hd]
      have hm3 : m < k.nE := by omega
      have ok := eraseEdgeOK_of_gc hi hm3 hd hfl
      refine ⟨⟨gcInv_eraseEdge hi ok, ?_, ?_, ?_, ?_⟩, ?_⟩
      · exact cellsLive_of_eq (by simp) (by simp) hc
      · exact facesLive_of_eq (by rw [eraseEdge_faces hi.wf ok, List.length_map]) (by simp) hfl
      · rw [eraseEdge_nE k m hm3]; omega
      · intro c h1 h2
        rw [eraseEdge_nE k m hm3] at h2
        rw [eraseEdge_eDeleted]
        have : up m c = c + 1 := by unfold up; split <;> omega
        rw [this]; exact hl (c + 1) (by omega) (by omega)
      · exact eraseEdge_valence k m hv (Or.inr ok.unref)
    · simp only [hd, Bool.false_eq_true, if_false]
      refine ⟨⟨hi, hc, hfl, by omega, fun c h1 h2 => ?_⟩, hv⟩
      rcases Nat.eq_or_lt_of_le h1 with e | e
      · subst e; simpa using hd
      · exact hl c e h2

/-- **`collect_garbage` in index-shifting mode keeps the valence shape**, given the cache invariant, C01's
    `oneCell` and closure-consistent flags -/
theorem shape_collectGarbage_shift {k : Kernel} (hf : k.fast = false) (hw : WF k) (h1 : k.oneCell = true)
    (hc : Closed k) (hv : ValenceShape k) : ValenceShape k.collectGarbage := by
  rcases Classical.em (k.deferred = true) with hd | hd
  case inr =>
    have : k.collectGarbage = k := by unfold collectGarbage; simp [hd]
    rw [this]; exact hv
  rcases Classical.em (k.needsGC = true) with hg | hg
  case inr =>
    have : k.collectGarbage = k := by unfold collectGarbage; simp [hg]
    rw [this]; exact hv
  have hcg : k.collectGarbage =
      { gcVerts (gcEdges (gcFaces (gcCells { k with deferred := false }))) with deferred := true } := by
    unfold collectGarbage; simp [hd, hg]
  rw [hcg]
  have hk0 : GCInv ({ k with deferred := false } : Kernel) :=
    ⟨rfl, hf, wf_of_fans_perm (k := k) (k' := { k with deferred := false }) rfl rfl rfl rfl rfl rfl rfl rfl rfl rfl rfl
        rfl rfl rfl rfl (fun _ => List.Perm.refl _) hw,
     oneCell_of_same (k := k) (k' := { k with deferred := false }) rfl rfl rfl h1,
     closed_of_eq (k := k) (k' := { k with deferred := false }) rfl rfl rfl rfl rfl rfl rfl rfl hc⟩
  have hv0 : ValenceShape ({ k with deferred := false } : Kernel) := hv
  generalize ({ k with deferred := false } : Kernel) = k0 at hk0 hv0
  have s1 := gcInv_sweepCells hk0
  have v1 : ValenceShape (gcCells k0) := valenceShape_of_eq (k := gcSweep k0 k0.nC cDeleted _ deleteCellCore) rfl rfl
    (shape_sweepCells k0 hv0)
  have i1 : GCInv (gcCells k0) := gcInv_congr (k := gcSweep k0 k0.nC cDeleted _ deleteCellCore) (k' := gcCells k0)
    rfl rfl rfl rfl rfl rfl rfl rfl rfl rfl rfl rfl rfl rfl rfl rfl rfl s1.1
  have c1 : CellsLive (gcCells k0) :=
    cellsLive_of_eq (k := gcSweep k0 k0.nC cDeleted _ deleteCellCore) (k' := gcCells k0) rfl rfl s1.2
  generalize gcCells k0 = k1 at i1 c1 v1
  have s2 := gcInv_sweepFaces i1 c1
  have v2 : ValenceShape (gcFaces k1) := valenceShape_of_eq (k := gcSweep k1 k1.nF fDeleted _ deleteFaceCore) rfl rfl
    (shape_sweepFaces i1 c1 v1)
  have i2 : GCInv (gcFaces k1) := gcInv_congr (k := gcSweep k1 k1.nF fDeleted _ deleteFaceCore) (k' := gcFaces k1)
    rfl rfl rfl rfl rfl rfl rfl rfl rfl rfl rfl rfl rfl rfl rfl rfl rfl s2.1
  have c2 : CellsLive (gcFaces k1) :=
    cellsLive_of_eq (k := gcSweep k1 k1.nF fDeleted _ deleteFaceCore) (k' := gcFaces k1) rfl rfl s2.2.1
  have f2 : FacesLive (gcFaces k1) :=
    facesLive_of_eq (k := gcSweep k1 k1.nF fDeleted _ deleteFaceCore) (k' := gcFaces k1) rfl rfl s2.2.2
  generalize gcFaces k1 = k2 at i2 c2 f2 v2
  have v3 : ValenceShape (gcEdges k2) := valenceShape_of_eq (k := gcSweep k2 k2.nE eDeleted _ deleteEdgeCore) rfl rfl
    (shape_sweepEdges i2 c2 f2 v2)
  generalize gcEdges k2 = k3 at v3
  have v4 : ValenceShape (gcVerts k3) := valenceShape_of_eq (k := gcSweep k3 k3.nV vDeleted _ deleteVertexCore) rfl rfl
    (shape_sweepVerts k3 v3)
  exact valenceShape_of_eq (k := gcVerts k3) rfl rfl v4

/-! ## one base operation, any mode, on top of the global invariant -/
namespace Global

/-- immediate index-shifting mode under the global invariant is K4's `Shift.ImmInv` -/
theorem GInv.immInv {k : Kernel} (hi : GInv k) (hd : k.deferred = false) (hf : k.fast = false) : Shift.ImmInv k := by
  obtain ⟨nc, nf, ne, _⟩ := hi.noFlag_of_immediate hd
  exact ⟨hd, hf, hi.wf, hi.one, cellsLive_of_noFlag nc, facesLive_of_noFlag nf, edgesLive_of_noFlag ne⟩

theorem modeOK_or_shift (k : Kernel) : ModeOK k ∨ (k.deferred = false ∧ k.fast = false) := by
  unfold ModeOK
  cases k.deferred <;> cases k.fast <;> simp

/-- `collect_garbage`, any mode -/
theorem shape_collectGarbage {k : Kernel} (hi : GInv k) (hv : ValenceShape k) : ValenceShape k.collectGarbage := by
  cases hf : k.fast
  · exact shape_collectGarbage_shift hf hi.wf hi.one hi.closed hv
  · exact (collectGarbage_keeps k hf).shape hv

/-- `enable_deferred_deletion`, any mode (switching it off collects the garbage) -/
theorem shape_enableDeferred {k : Kernel} (hi : GInv k) (b : Bool) (hv : ValenceShape k) :
    ValenceShape (k.enableDeferred b) := by
  unfold enableDeferred
  simp only
  split
  · exact valenceShape_of_eq rfl rfl (shape_collectGarbage hi hv)
  · exact valenceShape_of_eq rfl rfl hv

theorem shape_deleteFace {k : Kernel} (hi : GInv k) {f : Nat} (hf : f < k.nF) (hv : ValenceShape k) :
    ValenceShape (k.deleteFace f) := by
  rcases modeOK_or_shift k with m | ⟨hd, hfa⟩
  · exact (deleteFace_keeps k f m).shape hv
  · exact Shift.shape_deleteFace (hi.immInv hd hfa) hf hv

theorem shape_deleteEdge {k : Kernel} (hi : GInv k) {e : Nat} (he : e < k.nE) (hv : ValenceShape k) :
    ValenceShape (k.deleteEdge e) := by
  rcases modeOK_or_shift k with m | ⟨hd, hfa⟩
  · exact (deleteEdge_keeps k e m).shape hv
  · exact Shift.shape_deleteEdge (hi.immInv hd hfa) he hv

theorem shape_deleteVertex {k : Kernel} (hi : GInv k) (v : Nat) (hv : ValenceShape k) :
    ValenceShape (k.deleteVertex v) := by
  rcases modeOK_or_shift k with m | ⟨hd, hfa⟩
  · exact (deleteVertex_keeps k v m).shape hv
  · exact Shift.shape_deleteVertex (hi.immInv hd hfa) hv

/-- the only argument condition the shape itself needs: the inherited, unguarded `set_face` / `set_cell`
    must be given three halfedges / four halffaces -/
def ValenceArgs : Op → Prop
  | .setFace _ hes => hes.length = 3
  | .setCell _ hfs => hfs.length = 4
  | _ => True

instance (op : Op) : Decidable (ValenceArgs op) := by unfold ValenceArgs; split <;> infer_instance

/-- **one operation of the base vocabulary with the tet overrides keeps the valence shape in every
    deletion mode**, on a state satisfying the global invariant, for valid arguments (`Global.OpOK`) -/
theorem shape_stepTet (k : Kernel) (op : Op) (hi : GInv k) (hok : OpOK k op) (ha : ValenceArgs op)
    (hv : ValenceShape k) : ValenceShape (k.stepTet op).1 := by
  cases op with
  | addVertex => exact (addVertex_keeps k).shape hv
  | addNVertices n => exact (addNVertices_keeps k n).shape hv
  | addEdge a b d => exact (addEdge_keeps k a b d).shape hv
  | addFaceHe chk hes => exact (tetAddFace_keeps k hes chk).shape hv
  | addFaceV vs => exact (tetAddFaceV_keeps k vs).shape hv
  | addCell chk hfs => exact (tetAddCell_keeps k hfs chk).shape hv
  | setEdge e a b => exact setEdge_valence k e a b hv
  | setFace f hes => exact setFace_valence k f hes hv ha
  | setCell c hfs => exact setCell_valence k c hfs hv ha
  | deleteVertex v => exact shape_deleteVertex hi v hv
  | deleteEdge e => exact shape_deleteEdge hi hok hv
  | deleteFace f => exact shape_deleteFace hi hok hv
  | deleteCell c => exact (deleteCell_keeps k c).shape hv
  | swapVertex a b => exact swapVertex_valence k a b hv
  | swapEdge a b => exact swapEdge_valence k a b hv
  | swapFace a b => exact swapFace_valence k a b hv
  | swapCell a b => exact swapCell_valence k a b hv
  | collectGarbage => exact shape_collectGarbage hi hv
  | enableDeferred b => exact shape_enableDeferred hi b hv
  | enableFast b => exact enableFast_valence k b hv
  | enableBU kind b =>
    show ValenceShape (if kind == 0 then k.enableVBU b else if kind == 1 then k.enableEBU b else k.enableFBU b)
    split
    · exact enableVBU_valence k b hv
    · split
      · exact enableEBU_valence k b hv
      · exact enableFBU_valence k b hv
  | clear p => exact clear_valence k p

end Global

end Kernel
end OVM

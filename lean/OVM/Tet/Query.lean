import OVM.Tet.Kernel
import OVM.Kernel.Lookup
/-
  M: the vertex-order queries of `TetrahedralMeshTopologyKernel`
  (Mesh/TetrahedralMeshTopologyKernel.cc:486-566) and the tet vertex iterator
  (Mesh/TetrahedralMeshIterators.cc).  `hfVerts` (Kernel/Lookup.lean) is what
  `halfface_vertices(hfh)` / `get_halfface_vertices(hfh)` enumerate.
-/
namespace OVM
namespace Kernel

/-- the search for the fourth vertex (cc:520-527): the first vertex of `other` that is none of
    the vertices already collected.  (The C++ compares with `cell_vhs[0..2]`; every face of a
    tetrahedral mesh has exactly three vertices.) -/
def fourthVertex (vs other : List Nat) : Option Nat := other.find? (fun v => !vs.contains v)

/-- `get_cell_vertices(HalfFaceHandle)` (cc:503-531).  `[]` = the empty vector. -/
def getCellVerticesHF (k : Kernel) (hfh : Nat) : List Nat :=
  match k.cellOf hfh with
  | none => []
  | some ch =>
    let hfhs := k.cellAt ch
    let vs := k.hfVerts hfh
    let other := if hfh != hfhs.getD 0 0 then hfhs.getD 0 0 else hfhs.getD 1 0
    match fourthVertex vs (k.hfVerts other) with
    | some w => vs ++ [w]
    | none => []

/-- `get_cell_vertices(CellHandle)` (cc:486-489) -/
def getCellVertices (k : Kernel) (ch : Nat) : List Nat := k.getCellVerticesHF ((k.cellAt ch).getD 0 0)

/-- the three re-orderings of cc:495-498 -/
def startAt (vh : Nat) (vhs : List Nat) : List Nat :=
  match vhs with
  | [v0, v1, v2, v3] =>
    if v1 == vh then [v1, v2, v0, v3] else if v2 == vh then [v2, v0, v1, v3] else if v3 == vh then [v3, v1, v0, v2] else vhs
  | _ => vhs

/-- `get_cell_vertices(CellHandle, VertexHandle)` (cc:491-501) -/
def getCellVerticesCV (k : Kernel) (ch vh : Nat) : List Nat := startAt vh (k.getCellVertices ch)

/-- the rotation of cc:541-543 (the second adjustment, cc:546-547, assigns the vector to itself) -/
def rotTo (vh0 : Nat) (vhs : List Nat) : List Nat :=
  match vhs with
  | [v0, v1, v2, v3] => if v1 == vh0 then [v1, v2, v0, v3] else if v2 == vh0 then [v2, v0, v1, v3] else [v0, v1, v2, v3]
  | _ => vhs

/-- `get_cell_vertices(HalfFaceHandle, HalfEdgeHandle)` (cc:533-550) -/
def getCellVerticesHE (k : Kernel) (hfh heh : Nat) : List Nat := rotTo (k.fromV heh) (k.getCellVerticesHF hfh)

/-- `halfface_opposite_vertex` (cc:552-555); `none` = InvalidVertexHandle -/
def halffaceOppositeVertex (k : Kernel) (hfh : Nat) : Option Nat :=
  if k.cellOf hfh == none then none else (k.getCellVerticesHF hfh)[3]?

/-- `vertex_opposite_halfface` (cc:557-568): the first halfface of the cell without `vh` -/
def vertexOppositeHalfface (k : Kernel) (ch vh : Nat) : Option Nat :=
  (k.cellAt ch).find? (fun hf => !(k.hfVerts hf).contains vh)

/-- the vertices a `TetVertexIter` constructed with `max_laps` visits while `valid()`
    (TetrahedralMeshIterators.cc:47-99: the four vertices of `get_cell_vertices(ch)`, lap by lap) -/
def tvIter (k : Kernel) (ch laps : Nat) : List Nat := (List.replicate laps (k.getCellVertices ch)).flatten

/-- stepping a one-lap `TetVertexIter` to its end and then backwards four times (`operator--`) -/
def tvIterBack (k : Kernel) (ch : Nat) : List Nat := (k.getCellVertices ch).reverse

end Kernel
end OVM

import Judge.Parse
import Judge.Check
import Judge.Oracles
import OVM.Tet.Spec
import OVM.Tet.Topology
import Std.Data.HashMap
import Std.Data.HashSet
/-
  tetjudge: reads traces of harness/tet_drv.cc (format of kernel_drv, DESIGN.md Appendix A) and
  prints one line per finding, like ovmjudge:
    XFAIL  trace=<t> step=<k> op=<op> field=<f> model=<..> impl=<..>   model and implementation disagree
    ORACLE trace=<t> step=<k> op=<op> prop=C15 witness=<..>            the property itself fails on the implementation's own states / answers
    DRIFT  trace=<t> step=<k> op=<op> field=<f>                         informational
    TRACE  <t> steps=<n> crash=<b>      STAT <key> <value>      HIST <what> <key> <value>
  For every step: X (model step on the implementation's previous state vs. its next state, whole
  dump, and the returned handle); the shape oracle on the next state; every `t…` query line
  against the model *and* against the brute-force contract of OVM/Tet/Spec.lean; every collapse
  against the abstract operation through the identity tokens of the vertices.
  `probe_mode` / `probe_collapse` steps branch off the trace: they do not advance its state.
-/
open OVM OVM.Kernel OVM.Tet Judge
open OVM.Gen.TetLabels (vl hel hfl hflv)

namespace TetJudge

def iToO (i : Int) : Option Nat := if i < 0 then none else some i.toNat
def oToI (o : Option Nat) : Int := match o with | some x => x | none => -1
def natsI (l : List Int) : List Nat := l.map Int.toNat

def opOfTetStep (s : Step) : Option TetOp :=
  let a := s.args.map Int.toNat
  match s.op, a with
  | "tet_add_halfedge", [x, y] => some (.addHalfedge x y)
  | "tet_add_halfface_he", c :: _n :: hes => some (.addHalffaceHe (c != 0) hes)
  | "tet_add_halfface3", [c, x, y, z] => some (.addHalfface3 (c != 0) x y z)
  | "tet_add_cell_v", c :: _n :: vs => some (.addCellV (c != 0) vs)
  | "tet_add_cell4", [c, x, y, z, w] => some (.addCell4 (c != 0) x y z w)
  | "collapse_edge", [h] => some (.collapse h)
  | "probe_collapse", [h] => some (.collapse h)
  | "probe_mode", [d, f] => some (.probeMode (d != 0) (f != 0))
  | "split_edge", [h] => some (.splitEdge h)
  | "split_face", [f] => some (.splitFace f)
  | _, _ => (opOfStep s).map .base

/-! ### shape oracle -/
def shapeFindings (k : Kernel) : List Finding :=
  let badF := k.liveFaces.filter (fun f => (k.faceAt f).length != 3)
  let badC := k.liveCells.filter (fun c => (k.cellAt c).length != 4 || (k.cellVertSet c).length != 4)
  (if badF.isEmpty then [] else [Finding.oracle "C15" s!"shape: live faces {badF} do not have three halfedges"]) ++
  (if badC.isEmpty then [] else [Finding.oracle "C15" s!"shape: live cells {badC} do not have four halffaces on four distinct vertices"])

/-! ### collapse: abstract operation through vertex tokens -/
def tokOf (k : Kernel) : Nat → Int :=
  let tv := (idCol k.props.v "idv").getD []
  fun v => tv.getD v (-1)

def quadLe (a b : List Int) : Bool :=
  match a, b with
  | [], _ => true
  | _ :: _, [] => false
  | x :: xs, y :: ys => x < y || (x == y && quadLe xs ys)

def evenPermsI (t : List Int) : List (List Int) :=
  match t with
  | [a, b, c, d] => [[a, b, c, d], [b, c, a, d], [c, a, b, d], [b, a, d, c], [a, d, b, c], [d, b, a, c],
                     [c, b, d, a], [b, d, c, a], [d, c, b, a], [a, c, d, b], [c, d, a, b], [d, a, c, b]]
  | _ => [t]
def canonI (t : List Int) : List Int := (evenPermsI t).foldl (fun m x => if quadLe x m then x else m) t

/-- live cells as canonical oriented quadruples of vertex tokens, sorted -/
def tokenCells (k : Kernel) : List (List Int) :=
  let tk := tokOf k
  (k.liveCells.map (fun c => canonI ((k.cellQuad c).map tk))).mergeSort quadLe

def collapseFindings (pre post : Kernel) (h : Nat) (ret : Int) : List Finding × Bool :=
  if !pre.linkCondition h then ([Finding.drift "link-condition-disagrees-with-driver"], false)
  else
    let a := pre.fromV h
    let b := pre.toV h
    let ta := tokOf pre a
    let tb := tokOf pre b
    let before := pre.liveCells.map (fun c => (pre.cellQuad c).map (tokOf pre))
    let exp := ((before.filter (fun t => !(t.contains ta && t.contains tb))).map
      (fun t => canonI (t.map (fun v => if v == ta then tb else v)))).mergeSort quadLe
    let got := tokenCells post
    let f1 := if exp != got then
        [Finding.oracle "C15" s!"collapse_edge {h} ({a}->{b}): cells (as oriented vertex-token quadruples) expected {exp} got {got}"] else []
    let f2 := if ret < 0 || !post.liveV ret.toNat || tokOf post ret.toNat != tb then
        [Finding.oracle "C15" s!"collapse_edge {h} ({a}->{b}) returned {ret}, which designates token {tokOf post ret.toNat}, not that of the target vertex {tb} (deferred={pre.deferred} fast={pre.fast})"] else []
    let f3 := if (post.liveVerts.map (tokOf post)).contains ta then
        [Finding.oracle "C15" s!"collapse_edge {h}: the collapsed vertex (token {ta}) is still alive"] else []
    (f1 ++ f2 ++ f3, true)

/-! ### queries -/
structure QCtx where
  k : Kernel
  hov : Std.HashMap Nat Int := {}        -- the implementation's halfface_opposite_vertex answers of this step
  voh : Std.HashMap (Nat × Nat) Int := {}
  gcv : Std.HashMap Nat (List Nat) := {}

def lenList (l : List Int) : List Nat := match l with | _n :: r => natsI r | [] => []

def checkTetQuery (cx : QCtx) (q : QLine) : List Finding :=
  let k := cx.k
  let xf := fun (m i : String) => if m == i then [] else [Finding.xfail s!"query:{q.name}" s!"{q.args.take 2}: {m}" i]
  let orc := fun (ok : Bool) (w : String) => if ok then [] else [Finding.oracle "C15" s!"{q.name} {q.args}: {w}"]
  match q.name, q.args with
  | "thov", [hf, v] =>
    let hf := hf.toNat
    xf (toString (oToI (k.halffaceOppositeVertex hf))) (toString v) ++
    (match k.sCellOf hf with
     | none => orc (v == -1) "boundary halfface must give the invalid vertex"
     | some c => orc (k.sApex c hf == (if v < 0 then [] else [v.toNat])) s!"the vertex of cell {c} not on the halfface is {k.sApex c hf}")
  | "tgcvh", hf :: rest =>
    let hf := hf.toNat
    let r := lenList rest
    xf (showL (k.getCellVerticesHF hf)) (showL r) ++
    (match k.sCellOf hf with
     | none => orc r.isEmpty "boundary halfface must give the empty vector"
     | some c => orc (k.gcvOK c hf none r) s!"expected cycle {k.hfVerts hf} then apex {k.sApex c hf}")
  | "tgcv", c :: rest =>
    let c := c.toNat
    let r := lenList rest
    let hf := (k.cellAt c).headD 0
    xf (showL (k.getCellVertices c)) (showL r) ++ orc (k.gcvOK c hf none r) s!"expected cycle {k.hfVerts hf} of the first halfface then apex {k.sApex c hf}"
  | "tgcvv", c :: v :: rest =>
    let c := c.toNat
    let r := lenList rest
    xf (showL (k.getCellVerticesCV c v.toNat)) (showL r) ++
    orc (k.gcvCVOK c v.toNat r) s!"expected a halfface cycle of the cell starting at {v} (the first halfface {k.hfVerts ((k.cellAt c).headD 0)} if it contains it) then its apex"
  | "tgcvhe", hf :: he :: rest =>
    let hf := hf.toNat
    let he := he.toNat
    let r := lenList rest
    xf (showL (k.getCellVerticesHE hf he)) (showL r) ++
    (match k.sCellOf hf with
     | none => []
     | some c => orc (k.gcvOK c hf (some (k.fromV he)) r && r.getD 1 0 == k.toV he)
         s!"expected cycle of {k.hfVerts hf} from {k.fromV he} via {k.toV he} then apex {k.sApex c hf}")
  | "tvoh", [c, v, hf] =>
    let c := c.toNat
    let v := v.toNat
    xf (toString (oToI (k.vertexOppositeHalfface c v))) (toString hf) ++
    orc (hf ≥ 0 && (k.cellAt c).contains hf.toNat && !(k.hfVerts hf.toNat).contains v) "must be a halfface of the cell that does not contain the vertex" ++
    orc (cx.hov.getD hf.toNat (-7) == (v : Int)) s!"halfface_opposite_vertex of the answer is {cx.hov.getD hf.toNat (-7)}: not mutually inverse" ++
    -- the other direction, asked once per cell (at its smallest vertex)
    (if (k.cellVertSet c).head? == some v then
      (k.cellAt c).flatMap (fun h =>
        let w := cx.hov.getD h (-7)
        orc (w ≥ 0 && cx.voh.getD (c, w.toNat) (-7) == (h : Int)) s!"vertex_opposite_halfface(cell, halfface_opposite_vertex({h}) = {w}) = {cx.voh.getD (c, w.toNat) (-7)}: not mutually inverse")
     else [])
  | "ttv", c :: laps :: rest =>
    let c := c.toNat
    let r := lenList rest
    xf (showL (k.tvIter c laps.toNat)) (showL r) ++
    orc (r == (List.replicate laps.toNat (cx.gcv.getD c [])).flatten) s!"tv_iter differs from get_cell_vertices = {cx.gcv.getD c []}"
  | "ttvr", c :: rest =>
    let r := lenList rest
    xf (showL (k.tvIter c.toNat 1)) (showL r) ++ orc (r == cx.gcv.getD c.toNat []) "tet_vertices range differs from get_cell_vertices"
  | "ttvb", c :: rest =>
    let r := lenList rest
    xf (showL (k.tvIterBack c.toNat)) (showL r) ++ orc (r == (cx.gcv.getD c.toNat []).reverse) "stepping back does not visit get_cell_vertices in reverse"
  | "ttri", hf :: a :: rest =>
    let hf := hf.toNat
    let vs := natsI (rest.take 3)
    let hs := natsI (rest.drop 3)
    let m := triMk k hf (iToO a)
    xf (toString (m.map (fun p => (p.1, p.2)))) (toString (some (vs, hs))) ++
    orc ((if a < 0 then hs == k.hfHes hf else (isRot3 hs (k.hfHes hf) && vs.head? == some a.toNat)) && vs == hs.map k.fromV)
      s!"expected the halfedge cycle {k.hfHes hf} of the halfface (from {a}) and their from-vertices"
  | _, _ => []

/-! ### TetTopology lines -/
structure TopoObs where
  id : Nat
  ctor : Nat
  c : Nat
  abc : Int
  a : Int
  vhs : List Int
  hehs : List Int
  hfhs : List Int
  hfs : List Int
deriving Inhabited

def parseTopo (q : QLine) : Option TopoObs :=
  match q.args with
  | id :: ctor :: c :: abc :: a :: rest =>
    let nv := vl.length
    let ne := hel.length
    let nf := hfl.length
    if rest.length != nv + ne + nf + 4 then none else
    some { id := id.toNat, ctor := ctor.toNat, c := c.toNat, abc := abc, a := a, vhs := rest.take nv,
           hehs := (rest.drop nv).take ne, hfhs := (rest.drop (nv + ne)).take nf, hfs := rest.drop (nv + ne + nf) }
  | _ => none

/-- the private arrays as far as the accessors show them -/
def TopoObs.toTopo (o : TopoObs) : TetTopo :=
  let heh := (List.range 6).map (fun j =>
    match (hel.zip o.hehs).find? (fun p => hehSlot p.1.val == some (j, false)) with
    | some p => iToO p.2
    | none => none)
  { vh := o.vhs.map iToO, heh := heh, hfh := o.hfs.map iToO }

def vlIdx (v : Nat) : Nat := vl.findIdx (·.2 == v)

/-- parity of the arrangement `spelled ++ [missing]` of the vertex labels (true = even) -/
def evenQuad (l : List Nat) : Bool :=
  let inv := (List.range l.length).foldl (fun n i => n + ((List.range i).filter (fun j => l.getD j 0 > l.getD i 0)).length) 0
  inv % 2 == 0

def topoFindings (k : Kernel) (o : TopoObs) : List Finding := Id.run do
  let mut out : List Finding := []
  let tag := s!"TetTopology ctor={o.ctor} cell={o.c} abc={o.abc} a={o.a}"
  -- model
  let m : TetTopo := match o.ctor with
    | 0 => Tet.mk k o.c o.abc.toNat (iToO o.a)
    | 1 => Tet.mkHF k o.abc.toNat (iToO o.a)
    | 2 => Tet.mkCV k o.c o.a.toNat
    | _ => Tet.mkC k o.c
  let mv := vl.map (fun r => oToI (m.vhL r.2))
  let mh := hel.map (fun r => oToI (m.hehL r.val))
  let mf := hfl.map (fun r => oToI (m.hfhL r.val))
  if m.fault then out := out ++ [Finding.xfail "topo:fault" "model constructor does not terminate / reads an invalid handle" tag]
  if mv != o.vhs then out := out ++ [Finding.xfail "topo:vh" s!"{tag}: {mv}" (toString o.vhs)]
  if mh != o.hehs then out := out ++ [Finding.xfail "topo:heh" s!"{tag}: {mh}" (toString o.hehs)]
  if mf != o.hfhs then out := out ++ [Finding.xfail "topo:hfh" s!"{tag}: {mf}" (toString o.hfhs)]
  if m.hfh.map oToI != o.hfs then out := out ++ [Finding.xfail "topo:halfface_handles" s!"{tag}: {m.hfh.map oToI}" (toString o.hfs)]
  -- oracle: label consistency on the implementation's own answers
  let bad := fun (w : String) => Finding.oracle "C15" s!"{tag}: {w}"
  let vOf := fun (lab : Nat) => o.vhs.getD (vlIdx lab) (-1)
  let cellVs := k.cellVertSet o.c
  if o.vhs.any (· < 0) || !(natsI o.vhs).Nodup || sortL (natsI o.vhs) != cellVs then
    out := out ++ [bad s!"labelled vertices {o.vhs} are not the four distinct vertices {cellVs} of the cell"]
  for (r, h) in hel.zip o.hehs do
    let okh := h ≥ 0 && (k.fromV h.toNat : Int) == vOf (r.spelled.getD 0 0) && (k.toV h.toNat : Int) == vOf (r.spelled.getD 1 0) && k.liveE (eOf h.toNat)
    if !okh then out := out ++ [bad s!"halfedge label {r.name} = {h} does not join its labelled vertices {vOf (r.spelled.getD 0 0)} -> {vOf (r.spelled.getD 1 0)}"]
  let cellHfs := k.cellAt o.c
  for (r, h) in hfl.zip o.hfhs do
    if h < 0 then out := out ++ [bad s!"halfface label {r.name} is invalid"] else
    let hv := k.hfVerts h.toNat
    match r.omits with
    | some x =>
      -- OppX / OuterOppX: the (opposite of the) cell's halfface without vertex X
      let inCell := if r.outerName then cellHfs.contains (opp h.toNat) else cellHfs.contains h.toNat
      if !inCell || hv.contains (vOf x).toNat then
        out := out ++ [bad s!"halfface label {r.name} = {h} (vertices {hv}) must be the {if r.outerName then "opposite of the " else ""}cell halfface without vertex {vOf x}"]
    | none =>
      let want := r.spelled.map (fun l => (vOf l).toNat)
      let missing := (vl.map (·.2)).filter (fun l => !r.spelled.contains l)
      let inner := evenQuad ((r.spelled ++ missing).map vlIdx)
      let inCell := if inner then cellHfs.contains h.toNat else cellHfs.contains (opp h.toNat)
      if !isRot3 hv want || !inCell then
        out := out ++ [bad s!"halfface label {r.name} = {h} has vertex cycle {hv}, expected {want} on the {if inner then "cell's" else "opposite"} halfface"]
  -- constructor contract
  let abcLab := (o.hfhs.getD (hfl.findIdx (·.name == "ABC")) (-1))
  let aLab := vOf (vlOf "A")
  if (o.ctor == 0 || o.ctor == 1) && abcLab != o.abc then out := out ++ [bad s!"hfh<ABC> = {abcLab} is not the given halfface"]
  if o.ctor == 3 && some abcLab.toNat != cellHfs.head? then out := out ++ [bad s!"hfh<ABC> = {abcLab} is not the first halfface of the cell"]
  if o.a ≥ 0 && aLab != o.a then out := out ++ [bad s!"vh<A> = {aLab} is not the given vertex"]
  return out

def pairs2 (l : List Int) : List (Int × Int) :=
  match l with
  | a :: b :: r => (a, b) :: pairs2 r
  | _ => []
def triples3 (l : List Int) : List (Int × Int × Int) :=
  match l with
  | a :: b :: c :: r => (a, b, c) :: triples3 r
  | _ => []
def octets (l : List Int) : List (List Int) :=
  if l.length < 8 then [] else l.take 8 :: octets (l.drop 8)
termination_by l.length
decreasing_by simp [List.length_drop]; omega

/-- `get_label` lines of one constructed labelling -/
def labelFindings (k : Kernel) (o : TopoObs) (q : QLine) : List Finding := Id.run do
  let t := o.toTopo
  let tag := s!"TetTopology ctor={o.ctor} cell={o.c} abc={o.abc} a={o.a}"
  let bad := fun (w : String) => Finding.oracle "C15" s!"{tag}: {w}"
  let mut out : List Finding := []
  let body := (q.args.drop 2)
  match q.name with
  | "ttgv" =>
    for (v, l) in pairs2 body do
      let m := oToI (t.getLabelV v.toNat)
      if m != l then out := out ++ [Finding.xfail "topo:get_label(vh)" s!"{tag} {v}: {m}" (toString l)]
      -- inverse of vh<X>
      let want : Int := match (vl.zip o.vhs).find? (·.2 == v) with | some p => p.1.2 | none => -1
      if want != l then out := out ++ [bad s!"get_label(vertex {v}) = {l}, but it is vh<{want}>"]
  | "ttghe" =>
    for (h, l) in pairs2 body do
      let m := oToI (t.getLabelHE h.toNat)
      if m != l then out := out ++ [Finding.xfail "topo:get_label(heh)" s!"{tag} {h}: {m}" (toString l)]
      let want : Int := match (hel.zip o.hehs).find? (·.2 == h) with | some p => p.1.val | none => -1
      if want != l then out := out ++ [bad s!"get_label(halfedge {h}) = {l}, but it is heh<{want}>"]
  | "ttghf" =>
    for (h, l) in pairs2 body do
      let m := oToI (t.getLabelHF h.toNat)
      if m != l then out := out ++ [Finding.xfail "topo:get_label(hfh)" s!"{tag} {h}: {m}" (toString l)]
      let want : Int := match (hfl.zip o.hfhs).find? (fun p => p.2 == h && !p.1.hasStart) with | some p => p.1.val | none => -1
      if want != l then out := out ++ [bad s!"get_label(halfface {h}) = {l}, but it is hfh<{want}>"]
  | "ttghfv" =>
    for (h, v, l) in triples3 body do
      let m := oToI (t.getLabelHFV h.toNat v.toNat)
      if m != l then out := out ++ [Finding.xfail "topo:get_label(hfh,vh)" s!"{tag} {h} {v}: {m}" (toString l)]
      let want : Int := match (hfl.zip o.hfhs).find? (fun p => p.2 == h && p.1.hasStart &&
          o.vhs.getD (vlIdx (p.1.spelled.getD 0 0)) (-1) == v) with | some p => p.1.val | none => -1
      if want != l then out := out ++ [bad s!"get_label(halfface {h}, first vertex {v}) = {l}, but that is hfh<{want}>"]
  | "ttt" =>
    for oc in octets (q.args.drop 1) do
      match oc with
      | [l, a, b, c, ab, bc, ca, eq] =>
        let got := ([a, b, c], [ab, bc, ca])
        let m := (t.triangle l.toNat).map (fun p => (p.1.map oToI, p.2.map oToI))
        if m != some got then out := out ++ [Finding.xfail "topo:triangle_topology" s!"{tag} label {l}: {m}" (toString got)]
        match hflRow? l.toNat with
        | some r =>
          let want := r.spelled.map (fun x => o.vhs.getD (vlIdx x) (-1))
          let okv := [a, b, c] == want
          let okh := ([ab, bc, ca].zip [(a, b), (b, c), (c, a)]).all (fun p => p.1 ≥ 0 && (k.fromV p.1.toNat : Int) == p.2.1 && (k.toV p.1.toNat : Int) == p.2.2)
          if !okv || !okh || eq != 1 then
            out := out ++ [bad s!"triangle_topology<{r.name}>: vertices {[a, b, c]} (expected {want}), halfedges {[ab, bc, ca]}, run-time overload equal: {eq}"]
        | none => out := out ++ [bad s!"triangle_topology for unknown label {l}"]
      | _ => pure ()
  | _ => pure ()
  return out

/-! ### one step -/
structure StepRes where
  findings : List Finding := []
  nQueries : Nat := 0
  nTopo : Nat := 0
  topoChoices : List (Nat × Nat × Nat) := []       -- (ctor, position of abc in the cell, position of a in abc) + 1, 0 = absent
  collapseJudged : Bool := false
  rejected : Bool := false

def judgeTetStep (pre : Obs) (s : Step) : StepRes := Id.run do
  let mut out : List Finding := []
  match s.crashed with
  | some why => return { findings := [Finding.oracle "CRASH" s!"{s.op} {s.args}: {why}"] }
  | none => pure ()
  let ret := s.res.toInt?
  let mut rejected := false
  -- X: the model step on the implementation's previous state
  match opOfTetStep s with
  | some op =>
    let (m', r) := pre.k.stepTetX op
    out := out ++ cmpKernel m' s.post.k true
    match ret with
    | some ri => if ri != r then out := out ++ [Finding.xfail "return" (toString r) (toString ri)]
    | none => pure ()
  | none =>
    if s.op == "retoken" then
      let strip := fun (k : Kernel) => { k with props := {} }
      if strip s.post.k != strip pre.k then out := out ++ [Finding.xfail "retoken" "topology unchanged" "topology changed"]
    else out := out ++ [Finding.xfail "unknown-op" s.op ""]
  -- shape, after every operation including rejected ones
  out := out ++ shapeFindings s.post.k
  out := out ++ checkBookkeeping s.post
  -- rejected single-stage calls leave everything unchanged; a refused add_cell(vertices) leaves at least the cells alone
  if s.malformed then
    let r := ret.getD 0
    if r < 0 then
      rejected := true
      let whole := s.op == "add_face_he" || s.op == "add_face_v" || s.op == "add_cell" || s.op == "tet_add_halfface_he" ||
        (s.op == "tet_add_cell_v" && (s.args.getD 1 0 != 4 || !pre.k.fullBU))
      if whole && s.post.k != pre.k then out := out ++ [Finding.oracle "C15" s!"{s.op} {s.args} was refused ({r}) but the mesh changed"]
      if s.post.k.cells != pre.k.cells || s.post.k.cDel != pre.k.cDel then
        out := out ++ [Finding.oracle "C15" s!"{s.op} {s.args} was refused ({r}) but the cells changed"]
    else if s.op != "tet_add_halfface_he" then
      out := out ++ [Finding.oracle "C15" s!"{s.op} {s.args} must be refused (wrong valence / occupied halfface / missing incidences) but returned {r}"]
  -- collapse against the abstract operation
  let mut cj := false
  if s.op == "collapse_edge" || s.op == "probe_collapse" then
    let (f, judged) := collapseFindings pre.k s.post.k (s.args.getD 0 0).toNat (ret.getD (-1))
    out := out ++ f
    cj := judged
  -- queries
  let k := s.post.k
  let mut cx : QCtx := { k := k }
  for q in s.post.q do
    match q.name, q.args with
    | "thov", [hf, v] => cx := { cx with hov := cx.hov.insert hf.toNat v }
    | "tvoh", [c, v, hf] => cx := { cx with voh := cx.voh.insert (c.toNat, v.toNat) hf }
    | "tgcv", c :: rest => cx := { cx with gcv := cx.gcv.insert c.toNat (lenList rest) }
    | _, _ => pure ()
  let mut topos : Std.HashMap Nat TopoObs := {}
  let mut nq := 0
  let mut nt := 0
  let mut choices : List (Nat × Nat × Nat) := []
  for q in s.post.q do
    if q.name == "tt" then
      match parseTopo q with
      | some o =>
        topos := topos.insert o.id o
        out := out ++ topoFindings k o
        nt := nt + 1
        let pa := if o.abc < 0 then 0 else (k.cellAt o.c).findIdx (· == o.abc.toNat) + 1
        let pv := if o.a < 0 then 0 else if o.abc < 0 then (k.cellVertSet o.c).findIdx (· == o.a.toNat) + 1 else (k.hfVerts o.abc.toNat).findIdx (· == o.a.toNat) + 1
        choices := (o.ctor, pa, pv) :: choices
      | none => out := out ++ [Finding.xfail "topo:parse" "a tt line with the generated number of labels" (toString q.args.length)]
    else if q.name.startsWith "ttg" || q.name == "ttt" then
      match topos.get? (q.args.headD 0).toNat with
      | some o => out := out ++ labelFindings k o q
      | none => pure ()
      nq := nq + 1
    else if q.name.startsWith "t" then
      out := out ++ checkTetQuery cx q
      nq := nq + 1
  return { findings := out, nQueries := nq, nTopo := nt, topoChoices := choices, collapseJudged := cj, rejected := rejected }

def fmtF (t : String) (k : Nat) (op : String) : Finding → String
  | .xfail f m i => s!"XFAIL trace={t} step={k} op={op} field={f} model={m} impl={i}"
  | .oracle p w => s!"ORACLE trace={t} step={k} op={op} prop={p} witness={w}"
  | .drift f => s!"DRIFT trace={t} step={k} op={op} field={f}"

def traceNo (h : String) : String :=
  match (toks h).find? (·.startsWith "trace=") with
  | some s => (s.drop 6).toString
  | none => "?"

def stateKey (k : Kernel) : UInt64 :=
  hash (k.nV, k.edges, k.faces, k.cells, k.vDel, k.eDel, k.fDel, k.cDel, k.deferred, k.fast, k.vBU, k.eBU, k.fBU)

end TetJudge

open TetJudge in
def main (args : List String) : IO UInt32 := do
  let mut nSteps := 0
  let mut nTraces := 0
  let mut nFind := 0
  let mut nQueries := 0
  let mut nTopo := 0
  let mut nRejected := 0
  let mut states : Std.HashSet UInt64 := {}
  let mut nontriv : Std.HashSet UInt64 := {}
  let mut ops : Std.HashMap String Nat := {}
  let mut collapses : Std.HashMap String Nat := {}
  let mut choices : Std.HashSet (Nat × Nat × Nat) := {}
  let mut gluings : Std.HashMap String Nat := {}
  for path in args do
    let lines ← IO.FS.lines path
    let traces := parseFile lines
    for tr in traces do
      nTraces := nTraces + 1
      let t := traceNo tr.header
      let mut pre := tr.init
      let mut probeBase := tr.init
      let mut idx := 0
      for s in tr.steps do
        let isProbeMode := s.op == "probe_mode"
        let isProbe := s.op == "probe_collapse"
        let base := if isProbe then probeBase else pre
        let r := judgeTetStep base s
        for f in r.findings do
          IO.println (fmtF t idx s.op f)
          match f with | .drift _ => pure () | _ => nFind := nFind + 1
        nSteps := nSteps + 1
        nQueries := nQueries + r.nQueries
        nTopo := nTopo + r.nTopo
        if r.rejected then nRejected := nRejected + 1
        for c in r.topoChoices do choices := choices.insert c
        ops := ops.insert s.op (ops.getD s.op 0 + 1)
        if r.collapseJudged then
          let mk := s!"deferred={base.k.deferred},fast={base.k.fast}"
          collapses := collapses.insert mk (collapses.getD mk 0 + 1)
        let k := s.post.k
        let h := stateKey k
        states := states.insert h
        if k.liveCells.length ≥ 1 then nontriv := nontriv.insert h
        -- how are the live cells glued? (pairs of cells by number of shared vertices)
        if !isProbe && !isProbeMode && s.op != "retoken" then
          let cs := k.liveCells
          for c in cs do
            for d in cs do
              if c < d then
                let sh := ((k.cellVertSet c).filter (k.cellVertSet d).contains).length
                let key := match sh with | 3 => "face" | 2 => "edge" | 1 => "vertex" | 0 => "none" | _ => "other"
                gluings := gluings.insert key (gluings.getD key 0 + 1)
        if isProbeMode then probeBase := s.post
        else if !isProbe then
          pre := s.post
          probeBase := s.post
        idx := idx + 1
      IO.println s!"TRACE {t} steps={tr.steps.size} crash={tr.crash.isSome}"
  IO.println s!"STAT traces {nTraces}"
  IO.println s!"STAT steps {nSteps}"
  IO.println s!"STAT findings {nFind}"
  IO.println s!"STAT queries {nQueries}"
  IO.println s!"STAT topologies {nTopo}"
  IO.println s!"STAT rejected_calls {nRejected}"
  IO.println s!"STAT label_choices {choices.size}"
  IO.println s!"STAT distinct_states {states.size}"
  IO.println s!"STAT distinct_nontrivial_states {nontriv.size}"
  for (k, v) in ops.toList do IO.println s!"HIST op {k} {v}"
  for (k, v) in collapses.toList do IO.println s!"HIST collapse {k} {v}"
  for (k, v) in gluings.toList do IO.println s!"HIST glue {k} {v}"
  return 0

import OVM.Tet.CollapseStar
import OVM.Tet.ShapeRun
import OVM.Tet.TetChecked
/-
  C15(a), "four distinct vertices" along construction histories: any sequence of `add_vertex`, `add_n_vertices`,
  `add_cell(v0,v1,v2,v3)` (with or without topology check, accepted or refused) on valid arguments —
  four different live vertices; the four halffaces of an accepted cell free and pairwise different (`Cell4Free`,
  K5's precondition of `add_cell`) — and topology-CHECKED `add_cell(halffaces)` (64c6d58, 4614b67) on live, free,
  pairwise different halffaces, starting from the empty mesh keeps
      `CInv = BInv ∧ AllTet`
  (global kernel invariant, vertex/edge caches, every stored face a closed triangle, every stored cell `IsTet`),
  hence `TetShape`: every live face three halfedges, every live cell four halffaces on four distinct vertices.
-/
namespace OVM
namespace Kernel
open Global

theorem addCellCore_modes (k : Kernel) (hfs : List Nat) :
    (k.addCellCore hfs).vBU = k.vBU ∧ (k.addCellCore hfs).eBU = k.eBU := by
  unfold addCellCore; simp only; split
  · split
    · simp
    · exact ⟨rfl, rfl⟩
  · exact ⟨rfl, rfl⟩

/-- `add_cell(v0,v1,v2,v3)` keeps the invariant bundle of the construction theorems -/
theorem tetAddCell4_binv {k : Kernel} (h : BInv k) {v0 v1 v2 v3 : Nat} (o0 : VOk k v0) (o1 : VOk k v1) (o2 : VOk k v2)
    (o3 : VOk k v3) (hd : [v0, v1, v2, v3].Nodup) (chk : Bool) (hf : Cell4Free k v0 v1 v2 v3 chk) :
    BInv (k.tetAddCell4 v0 v1 v2 v3 chk).1 := by
  have hg := tetAddCell4_ginv h.ginv o0 o1 o2 o3 hf
  obtain ⟨k4, a, b, c, d, e, b4, _, _, oa, ob, oc, od, ra, rb, rc, rd⟩ := tetAddCell4_faces h o0 o1 o2 o3 hd chk
  have hh : ∀ hf ∈ [a, b, c, d], hf < k4.nHF := by
    intro hf hm; simp only [List.mem_cons, List.not_mem_nil, or_false] at hm
    rcases hm with rfl | rfl | rfl | rfl
    · exact oa.1
    · exact ob.1
    · exact oc.1
    · exact od.1
  have hs4 := spanVertCount_of_tetOn (tetOn_of_cell4 hd ra rb rc rd) (loops_of_hfOk b4.loops hh)
  have hp4 := noParallel_of_tetOn (tetOn_of_cell4 hd ra rb rc rd) (loops_of_hfOk b4.loops hh)
  rw [e, tetAddCell_eq b4.loops rfl hh hs4 hp4] at hg ⊢
  unfold addCell at hg ⊢
  split
  · rename_i hacc
    simp only [hacc, if_true] at hg
    obtain ⟨m1, m2⟩ := addCellCore_modes k4 [a, b, c, d]
    exact ⟨hg, m1.trans b4.vBU, m2.trans b4.eBU, faceLoops_of_eq (by simp) (by simp) b4.loops⟩
  · exact b4

/-- the operations of a construction history -/
inductive BuildOp where
  | addVertex
  | addNVertices (n : Nat)
  | addCell4 (chk : Bool) (a b c d : Nat)
  | addCellHF (hfs : List Nat)          -- `add_cell(halffaces, topologyCheck = true)`
  | addHalfface3 (a b c : Nat)          -- `add_halfface(a, b, c)`: find or create the triangle
deriving Repr, DecidableEq

def BuildOp.toTet : BuildOp → TetOp
  | .addVertex => .base .addVertex
  | .addNVertices n => .base (.addNVertices n)
  | .addCell4 chk a b c d => .addCell4 chk a b c d
  | .addCellHF hfs => .base (.addCell true hfs)
  | .addHalfface3 a b c => .addHalfface3 false a b c

/-- valid arguments: four different live vertices; the halffaces of an accepted cell free and pairwise different;
    for `add_cell(halffaces)` K5's `OpOK` (live, free, pairwise different halffaces) -/
def BuildOK (k : Kernel) : BuildOp → Prop
  | .addCell4 chk a b c d => VOk k a ∧ VOk k b ∧ VOk k c ∧ VOk k d ∧ [a, b, c, d].Nodup ∧ Cell4Free k a b c d chk
  | .addCellHF hfs => (∀ hf ∈ hfs, HfOk k hf ∧ k.sCellOf hf = none) ∧ hfs.Nodup
  | .addHalfface3 a b c => VOk k a ∧ VOk k b ∧ VOk k c ∧ a ≠ b ∧ b ≠ c ∧ a ≠ c
  | _ => True

instance (k : Kernel) (op : BuildOp) : Decidable (BuildOK k op) := by
  unfold BuildOK VOk HfOk; split <;> infer_instance

/-- topology-checked `add_cell(halffaces)` keeps the construction invariant: refused calls change nothing, an accepted
    cell is a tetrahedron -/
theorem tetAddCell_checked_cinv {k : Kernel} (hb : BInv k) (ht : AllTet k) {hfs : List Nat}
    (hh : ∀ hf ∈ hfs, HfOk k hf ∧ k.sCellOf hf = none) (hn : hfs.Nodup) :
    BInv (k.tetAddCell hfs true).1 ∧ AllTet (k.tetAddCell hfs true).1 := by
  have hg := tetAddCell_ginv (k := k) (hfs := hfs) true hb.ginv (fun x hx => (hh x hx).1)
    (fun _ => ⟨fun x hx => (hh x hx).2, hn⟩)
  cases hr : (k.tetAddCell hfs true).2 with
  | none => rw [tetAddCell_refused k hfs true hr]; exact ⟨hb, ht⟩
  | some c =>
    have hl := loops_of_hfOk hb.loops (fun x hx => (hh x hx).1.1)
    have hi := tetAddCell_checked_isTet hr hl
    obtain ⟨rfl, _, _, _, e⟩ := tetAddCell_accepted hr
    rw [e] at hg hi ⊢
    obtain ⟨m1, m2⟩ := addCellCore_modes k hfs
    exact ⟨⟨hg, m1.trans hb.vBU, m2.trans hb.eBU, faceLoops_of_eq (by simp) (by simp) hb.loops⟩,
      addCellCore_allTet hfs ht hi⟩

/-- the invariant of construction histories -/
structure CInv (k : Kernel) : Prop where
  binv : BInv k
  allTet : AllTet k

theorem cinv_empty : CInv ({} : Kernel) :=
  ⟨⟨ginv_empty, rfl, rfl, fun f hf => by cases hf⟩, fun c hc => by simp [nC] at hc⟩

theorem binv_of_sameTopo {k k' : Kernel} (h : BInv k) (hg : GInv k') (hv : k'.vBU = k.vBU) (he : k'.eBU = k.eBU)
    (hed : k'.edges = k.edges) (hf : k'.faces = k.faces) : BInv k' :=
  ⟨hg, hv.trans h.vBU, he.trans h.eBU, faceLoops_of_eq hed hf h.loops⟩

theorem allTet_of_sameTopo {k k' : Kernel} (h : AllTet k) (hc : k'.cells = k.cells) (hed : k'.edges = k.edges)
    (hf : k'.faces = k.faces) : AllTet k' := by
  intro c hlt
  have hlt' : c < k.nC := by unfold nC at *; rw [hc] at hlt; exact hlt
  exact isTet_congr (by unfold cellAt; rw [hc]) (fun hf' _ => hfVerts_of_eq hed hf hf') (h c hlt')

theorem cinv_step (k : Kernel) (op : BuildOp) (hi : CInv k) (hok : BuildOK k op) : CInv (k.stepTetX op.toTet).1 := by
  cases op with
  | addVertex =>
    show CInv k.addVertex.1
    exact ⟨binv_of_sameTopo hi.binv (ginv_addVertex hi.binv.ginv) rfl rfl rfl rfl, allTet_of_sameTopo hi.allTet rfl rfl rfl⟩
  | addNVertices n =>
    show CInv (k.addNVertices n)
    exact ⟨binv_of_sameTopo hi.binv (ginv_addNVertices n hi.binv.ginv) rfl rfl rfl rfl, allTet_of_sameTopo hi.allTet rfl rfl rfl⟩
  | addCell4 chk a b c d =>
    obtain ⟨o0, o1, o2, o3, hd, hf⟩ := hok
    show CInv (k.tetAddCell4 a b c d chk).1
    exact ⟨tetAddCell4_binv hi.binv o0 o1 o2 o3 hd chk hf, tetAddCell4_allTet hi.binv hi.allTet o0 o1 o2 o3 hd chk⟩
  | addHalfface3 a b c =>
    obtain ⟨oa, ob, oc, hab, hbc, hac⟩ := hok
    show CInv (k.tetAddHalfface3 a b c false).1
    obtain ⟨_, _, b1, x1, _, _, _⟩ := tetAddHalfface3_spec hi.binv oa ob oc hab hbc hac
    exact ⟨b1, x1.allTet hi.binv.ginv.wf.range hi.allTet⟩
  | addCellHF hfs =>
    obtain ⟨hh, hn⟩ := hok
    show CInv (k.tetAddCell hfs true).1
    obtain ⟨h1, h2⟩ := tetAddCell_checked_cinv hi.binv hi.allTet hh hn
    exact ⟨h1, h2⟩

def BuildAdmissible : Kernel → List BuildOp → Prop
  | _, [] => True
  | k, op :: rest => BuildOK k op ∧ BuildAdmissible (k.stepTetX op.toTet).1 rest

instance : (k : Kernel) → (ops : List BuildOp) → Decidable (BuildAdmissible k ops)
  | _, [] => isTrue trivial
  | k, op :: rest =>
    have := instDecidableBuildAdmissible (k.stepTetX op.toTet).1 rest
    by unfold BuildAdmissible; infer_instance

def runBuild (k : Kernel) (ops : List BuildOp) : Kernel := ops.foldl (fun k op => (k.stepTetX op.toTet).1) k

theorem cinv_run (ops : List BuildOp) (k : Kernel) (hi : CInv k) (h : BuildAdmissible k ops) : CInv (runBuild k ops) := by
  induction ops generalizing k with
  | nil => exact hi
  | cons op t ih => exact ih _ (cinv_step k op hi h.1) h.2

/-- the shape that the construction invariant gives: stored faces are triangles, stored cells have four halffaces,
    and every live cell has four distinct vertices -/
theorem CInv.tetShape {k : Kernel} (hi : CInv k) : ValenceShape k ∧ TetShape k := by
  have hv : ValenceShape k := by
    constructor
    · intro f hf; exact (hi.binv.loops f hf).length
    · intro c hc
      obtain ⟨i, hlt, rfl⟩ := List.getElem_of_mem hc
      obtain ⟨_, _, _, _, _, _, hT⟩ := (hi.allTet i hlt).elim
      have : k.cellAt i = k.cells[i] := by
        unfold cellAt; rw [List.getD_eq_getElem?_getD, List.getElem?_eq_getElem hlt]; rfl
      rw [← this]; exact hT.2.1
  refine ⟨hv, tetShape_of hv (fun c hc => ?_)⟩
  have : c < k.nC := by unfold liveCells at hc; simpa using (List.mem_filter.mp hc).1
  exact hi.allTet c this

/-- **every construction history through `add_cell(v0,v1,v2,v3)` from the empty mesh yields a tetrahedral mesh**:
    every face three halfedges, every cell four halffaces and four distinct vertices -/
theorem tetShape_construct (ops : List BuildOp) (h : BuildAdmissible {} ops) :
    ValenceShape (runBuild {} ops) ∧ TetShape (runBuild {} ops) ∧ AllTet (runBuild {} ops) :=
  have hi := cinv_run ops {} cinv_empty h
  ⟨hi.tetShape.1, hi.tetShape.2, hi.allTet⟩

/-- non-vacuity: two glued tets and a third one on the face (0,2,3), with and without topology check -/
def sampleBuild : List BuildOp :=
  [.addNVertices 6, .addCell4 true 0 1 2 3, .addCell4 true 0 2 1 4, .addVertex, .addCell4 false 0 3 2 5]

example : BuildAdmissible {} sampleBuild ∧ (runBuild {} sampleBuild).nC = 3 := by decide +kernel
example : TetShape (runBuild {} sampleBuild) := (tetShape_construct sampleBuild (by decide +kernel)).2.1
/-- a tetrahedron assembled from four faces given by their vertices, through the CHECKED `add_cell(halffaces)` -/
def sampleBuildHF : List BuildOp :=
  [.addNVertices 5, .addHalfface3 0 1 2, .addHalfface3 0 2 3, .addHalfface3 0 3 1, .addHalfface3 1 3 2, .addCellHF [0, 2, 4, 6],
   .addCell4 true 0 2 1 4]
example : BuildAdmissible {} sampleBuildHF ∧ (runBuild {} sampleBuildHF).cells = [[0, 2, 4, 6], [1, 8, 10, 12]] := by decide +kernel
example : TetShape (runBuild {} sampleBuildHF) := (tetShape_construct sampleBuildHF (by decide +kernel)).2.1
-- building the same tetrahedron twice is NOT admissible: its halffaces are taken (`Cell4Free` fails)
example : ¬ BuildAdmissible {} [.addNVertices 4, .addCell4 false 0 1 2 3, .addCell4 false 0 1 2 3] := by decide +kernel

end Kernel
end OVM

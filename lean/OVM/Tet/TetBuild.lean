import OVM.Tet.ShapeAll
import OVM.Refine.GlobalStep
import OVM.Refine.LookupLemmas
import OVM.Props.C10
/-
  Specifications of the reuse-or-create conveniences of the tetrahedral kernel
  (`add_halfedge`, `add_halfface`, Mesh/TetrahedralMeshTopologyKernel.cc:98-123) on states satisfying K5's
  global invariant, for meshes all of whose faces are closed triangles (`FaceLoops`):
  which halfedge / halfface comes back, that the old definitions are untouched (`Ext`), and that the
  invariants survive.  Shared by the construction theorems (OVM/Tet/TetCells.lean: `add_cell(4 vertices)`
  builds an `IsTet` cell) and by the collapse refinement (OVM/Tet/CollapseRefine.lean).
-/
namespace OVM
namespace Kernel
open Global

/-! ### closed triangles -/

/-- three halfedges forming a closed loop -/
def Loop3 (k : Kernel) (hes : List Nat) : Prop :=
  match hes with
  | [x, y, z] => k.toV x = k.fromV y ∧ k.toV y = k.fromV z ∧ k.toV z = k.fromV x
  | _ => False

instance (k : Kernel) (hes : List Nat) : Decidable (Loop3 k hes) := by unfold Loop3; split <;> infer_instance

/-- every stored face is a closed triangle (what `add_face` with topology check, `add_face(vertices)` and the
    tet conveniences create; an unchecked `add_face(halfedges)` / `set_face` / `set_edge` can break it) -/
def FaceLoops (k : Kernel) : Prop := ∀ f ∈ k.faces, Loop3 k f

instance (k : Kernel) : Decidable (FaceLoops k) := by unfold FaceLoops; infer_instance

theorem Loop3.length {k : Kernel} {hes : List Nat} (h : Loop3 k hes) : hes.length = 3 := by
  unfold Loop3 at h; split at h
  · rfl
  · exact absurd h id

theorem loop3_oppFace {k : Kernel} {hes : List Nat} (h : Loop3 k hes) : Loop3 k (oppFace hes) := by
  unfold Loop3 at h; split at h
  · rename_i x y z
    obtain ⟨h1, h2, h3⟩ := h
    show Loop3 k [opp z, opp y, opp x]
    simp only [Loop3, Lookup.fromV_opp, Lookup.toV_opp]
    exact ⟨h2.symm, h1.symm, h3.symm⟩
  · exact absurd h id

theorem loop3_toV_mem {k : Kernel} {l : List Nat} (h : Loop3 k l) {x : Nat} (hx : x ∈ l) : k.toV x ∈ l.map k.fromV := by
  unfold Loop3 at h
  split at h
  · rename_i y0 y1 y2
    obtain ⟨l1, l2, l3⟩ := h
    simp only [List.mem_cons, List.not_mem_nil, or_false] at hx
    simp only [List.map_cons, List.map_nil, List.mem_cons, List.not_mem_nil, or_false]
    rcases hx with rfl | rfl | rfl
    · exact Or.inr (Or.inl l1)
    · exact Or.inr (Or.inr l2)
    · exact Or.inl l3
  · exact absurd h id

theorem faceAt_mem_or_nil (k : Kernel) (f : Nat) : k.faceAt f ∈ k.faces ∨ k.faceAt f = [] := by
  unfold faceAt
  by_cases h : f < k.faces.length
  · left; rw [List.getD_eq_getElem?_getD, List.getElem?_eq_getElem h]; exact List.getElem_mem h
  · right; rw [List.getD_eq_getElem?_getD, List.getElem?_eq_none (by omega)]; rfl

/-- the halfedges of a stored halfface of a `FaceLoops` mesh form a closed triangle -/
theorem loop3_hfHes {k : Kernel} (hl : FaceLoops k) {hf : Nat} (h : hf < k.nHF) : Loop3 k (k.hfHes hf) := by
  have hlt : eOf hf < k.faces.length := by unfold nHF eOf at *; omega
  have hm : k.faceAt (eOf hf) ∈ k.faces := by
    unfold faceAt; rw [List.getD_eq_getElem?_getD, List.getElem?_eq_getElem hlt]; exact List.getElem_mem hlt
  unfold hfHes
  simp only
  split
  · exact hl _ hm
  · exact loop3_oppFace (hl _ hm)

/-! ### extension of a state: nothing old is touched -/

/-- `k'` extends `k`: same vertices, the old edge / face slots unchanged (new ones may have been appended), the
    same cells, the same modes -/
structure Ext (k k' : Kernel) : Prop where
  nV : k'.nV = k.nV
  vDel : k'.vDel = k.vDel
  edges : ∃ l, k'.edges = k.edges ++ l
  faces : ∃ l, k'.faces = k.faces ++ l
  eDel : ∀ e, e < k.nE → k'.eDeleted e = k.eDeleted e
  fDel : ∀ f, f < k.nF → k'.fDeleted f = k.fDeleted f
  cells : k'.cells = k.cells
  deferred : k'.deferred = k.deferred
  fast : k'.fast = k.fast
  vBU : k'.vBU = k.vBU
  eBU : k'.eBU = k.eBU
  fBU : k'.fBU = k.fBU

theorem Ext.refl (k : Kernel) : Ext k k :=
  ⟨rfl, rfl, ⟨[], by simp⟩, ⟨[], by simp⟩, fun _ _ => rfl, fun _ _ => rfl, rfl, rfl, rfl, rfl, rfl, rfl⟩

theorem Ext.nE_le {k k' : Kernel} (e : Ext k k') : k.nE ≤ k'.nE := by
  obtain ⟨l, hl⟩ := e.edges; unfold nE; rw [hl]; simp
theorem Ext.nF_le {k k' : Kernel} (e : Ext k k') : k.nF ≤ k'.nF := by
  obtain ⟨l, hl⟩ := e.faces; unfold nF; rw [hl]; simp
theorem Ext.nHE_le {k k' : Kernel} (e : Ext k k') : k.nHE ≤ k'.nHE := by
  have := e.nE_le; unfold nHE nE at *; omega
theorem Ext.nHF_le {k k' : Kernel} (e : Ext k k') : k.nHF ≤ k'.nHF := by
  have := e.nF_le; unfold nHF nF at *; omega

theorem Ext.trans {a b c : Kernel} (h1 : Ext a b) (h2 : Ext b c) : Ext a c := by
  obtain ⟨l1, e1⟩ := h1.edges; obtain ⟨l2, e2⟩ := h2.edges
  obtain ⟨m1, f1⟩ := h1.faces; obtain ⟨m2, f2⟩ := h2.faces
  exact ⟨h2.nV.trans h1.nV, h2.vDel.trans h1.vDel, ⟨l1 ++ l2, by rw [e2, e1, List.append_assoc]⟩,
    ⟨m1 ++ m2, by rw [f2, f1, List.append_assoc]⟩,
    fun e he => (h2.eDel e (Nat.lt_of_lt_of_le he h1.nE_le)).trans (h1.eDel e he),
    fun f hf => (h2.fDel f (Nat.lt_of_lt_of_le hf h1.nF_le)).trans (h1.fDel f hf),
    h2.cells.trans h1.cells, h2.deferred.trans h1.deferred, h2.fast.trans h1.fast, h2.vBU.trans h1.vBU,
    h2.eBU.trans h1.eBU, h2.fBU.trans h1.fBU⟩

theorem getD_append_lt {α} (l m : List α) (d : α) (i : Nat) (h : i < l.length) : (l ++ m).getD i d = l.getD i d := by
  rw [List.getD_eq_getElem?_getD, List.getD_eq_getElem?_getD, List.getElem?_append_left h]

theorem Ext.edgeAt {k k' : Kernel} (e : Ext k k') {x : Nat} (h : x < k.nE) : k'.edgeAt x = k.edgeAt x := by
  obtain ⟨l, hl⟩ := e.edges
  unfold Kernel.edgeAt; rw [hl]; exact getD_append_lt _ _ _ _ h
theorem Ext.faceAt {k k' : Kernel} (e : Ext k k') {x : Nat} (h : x < k.nF) : k'.faceAt x = k.faceAt x := by
  obtain ⟨l, hl⟩ := e.faces
  unfold Kernel.faceAt; rw [hl]; exact getD_append_lt _ _ _ _ h
theorem Ext.cellAt {k k' : Kernel} (e : Ext k k') (x : Nat) : k'.cellAt x = k.cellAt x := by
  unfold Kernel.cellAt; rw [e.cells]
theorem Ext.halfedge {k k' : Kernel} (e : Ext k k') {h : Nat} (hh : h < k.nHE) : k'.halfedge h = k.halfedge h := by
  unfold Kernel.halfedge; rw [e.edgeAt (by unfold nHE eOf nE at *; omega)]
theorem Ext.fromV {k k' : Kernel} (e : Ext k k') {h : Nat} (hh : h < k.nHE) : k'.fromV h = k.fromV h := by
  unfold Kernel.fromV; rw [e.halfedge hh]
theorem Ext.toV {k k' : Kernel} (e : Ext k k') {h : Nat} (hh : h < k.nHE) : k'.toV h = k.toV h := by
  unfold Kernel.toV; rw [e.halfedge hh]
theorem Ext.hfHes {k k' : Kernel} (e : Ext k k') {hf : Nat} (hh : hf < k.nHF) : k'.hfHes hf = k.hfHes hf := by
  unfold Kernel.hfHes; rw [e.faceAt (by unfold nHF eOf nF at *; omega)]

theorem hfHes_range {k : Kernel} (hr : RangeInv k) {hf : Nat} (hh : hf < k.nHF) : ∀ h ∈ k.hfHes hf, h < k.nHE := by
  have hlt : eOf hf < k.faces.length := by unfold nHF eOf at *; omega
  have hm : k.faceAt (eOf hf) ∈ k.faces := by
    unfold Kernel.faceAt; rw [List.getD_eq_getElem?_getD, List.getElem?_eq_getElem hlt]; exact List.getElem_mem hlt
  intro h hmem
  unfold Kernel.hfHes at hmem
  simp only at hmem
  split at hmem
  · exact hr.faces _ hm h hmem
  · unfold oppFace at hmem
    obtain ⟨x, hx, rfl⟩ := List.mem_map.mp hmem
    have := hr.faces _ hm x (List.mem_reverse.mp hx)
    unfold nHE at *; unfold opp; rw [xor_one_eq]; split <;> omega

theorem Ext.hfVerts {k k' : Kernel} (e : Ext k k') (hr : RangeInv k) {hf : Nat} (hh : hf < k.nHF) :
    k'.hfVerts hf = k.hfVerts hf := by
  unfold Kernel.hfVerts
  rw [e.hfHes hh]
  exact List.map_congr_left (fun h hm => e.fromV (hfHes_range hr hh h hm))

theorem Ext.loop3 {k k' : Kernel} (e : Ext k k') {hes : List Nat} (hh : ∀ h ∈ hes, h < k.nHE) (h : Loop3 k hes) :
    Loop3 k' hes := by
  unfold Loop3 at *
  split at h
  · rename_i x y z
    simp only [List.mem_cons, List.not_mem_nil, or_false, forall_eq_or_imp, forall_eq] at hh
    simp only [e.fromV hh.1, e.fromV hh.2.1, e.fromV hh.2.2, e.toV hh.1, e.toV hh.2.1, e.toV hh.2.2]
    exact h
  · exact absurd h id

theorem Ext.vOk {k k' : Kernel} (e : Ext k k') {v : Nat} (h : VOk k v) : VOk k' v := by
  unfold VOk vDeleted at *; rw [e.nV, e.vDel]; exact h
theorem Ext.heOk {k k' : Kernel} (e : Ext k k') {h : Nat} (hh : HeOk k h) : HeOk k' h := by
  unfold HeOk at *
  refine ⟨Nat.lt_of_lt_of_le hh.1 e.nHE_le, ?_⟩
  rw [e.eDel _ (by have := hh.1; unfold nHE eOf nE at *; omega)]; exact hh.2
theorem Ext.hfOk {k k' : Kernel} (e : Ext k k') {h : Nat} (hh : HfOk k h) : HfOk k' h := by
  unfold HfOk at *
  refine ⟨Nat.lt_of_lt_of_le hh.1 e.nHF_le, ?_⟩
  rw [e.fDel _ (by have := hh.1; unfold nHF eOf nF at *; omega)]; exact hh.2

/-- stored faces stay closed triangles when the state is extended by closed triangles -/
theorem Ext.faceLoops_old {k k' : Kernel} (e : Ext k k') (hr : RangeInv k) (hl : FaceLoops k) :
    ∀ f ∈ k.faces, Loop3 k' f :=
  fun f hf => e.loop3 (hr.faces f hf) (hl f hf)

/-! ### `add_halfedge` -/

theorem addEdgeCore_modes (k : Kernel) (a b : Nat) :
    (k.addEdgeCore a b).fast = k.fast ∧ (k.addEdgeCore a b).vBU = k.vBU ∧ (k.addEdgeCore a b).eBU = k.eBU ∧
    (k.addEdgeCore a b).fBU = k.fBU ∧ (k.addEdgeCore a b).deferred = k.deferred := by
  unfold addEdgeCore; simp only; split <;> split <;> exact ⟨rfl, rfl, rfl, rfl, rfl⟩

theorem addFaceCore_modes (k : Kernel) (hes : List Nat) :
    (k.addFaceCore hes).fast = k.fast ∧ (k.addFaceCore hes).vBU = k.vBU ∧ (k.addFaceCore hes).eBU = k.eBU ∧
    (k.addFaceCore hes).fBU = k.fBU ∧ (k.addFaceCore hes).deferred = k.deferred := by
  unfold addFaceCore; simp only; split <;> split <;> exact ⟨rfl, rfl, rfl, rfl, rfl⟩

theorem ext_addEdgeCore (k : Kernel) (a b : Nat) : Ext k (k.addEdgeCore a b) := by
  obtain ⟨m1, m2, m3, m4, m5⟩ := addEdgeCore_modes k a b
  refine ⟨by simp, by simp, ⟨[(a, b)], by simp⟩, ⟨[], by simp⟩, ?_, ?_, by simp, m5, m1, m2, m3, m4⟩
  · intro e _; unfold eDeleted; rw [addEdgeCore_eDel, getD_snoc_false]
  · intro f _; unfold fDeleted; rw [addEdgeCore_fDel]

theorem ext_addFaceCore (k : Kernel) (hes : List Nat) : Ext k (k.addFaceCore hes) := by
  obtain ⟨m1, m2, m3, m4, m5⟩ := addFaceCore_modes k hes
  refine ⟨by simp, by simp, ⟨[], by simp⟩, ⟨[hes], by simp⟩, ?_, ?_, by simp, m5, m1, m2, m3, m4⟩
  · intro e _; unfold eDeleted; rw [addFaceCore_eDel]
  · intro f _; unfold fDeleted; rw [addFaceCore_fDel, getD_snoc_false]

/-- with the vertex cache enabled, a failed `find_halfedge` means `add_edge` finds no duplicate either -/
theorem tetAddHalfedge_none {k : Kernel} (hb : k.vBU = true) {a b : Nat} (hn : k.findHalfedge a b = none) :
    k.tetAddHalfedge a b = (k.addEdgeCore a b, heOf k.nE 0) := by
  have hfe : k.findEdge a b false = none := by
    unfold findEdge findEdgeBU
    simp only [Bool.false_eq_true, if_false, hb, if_true]
    unfold findHalfedge qVOH at hn
    simp only [hb, if_true] at hn
    have hflt : (k.outOf a).filter (fun he => k.toV he == b) = [] := by
      rw [List.filter_eq_nil_iff]
      intro x hx
      have := List.find?_eq_none.mp hn x hx
      simpa using this
    rw [hflt]; rfl
  unfold tetAddHalfedge
  rw [hn]
  simp only
  unfold addEdge
  rw [hfe]

theorem halfedge_new (k : Kernel) (a b : Nat) : (k.addEdgeCore a b).halfedge (heOf k.nE 0) = (a, b) := by
  unfold halfedge edgeAt
  have h1 : eOf (heOf k.nE 0) = k.nE := by unfold eOf heOf; omega
  have h2 : side (heOf k.nE 0) = 0 := by unfold side heOf; omega
  rw [h1, h2, addEdgeCore_edges]
  simp [nE]

/-- **`add_halfedge(a, b)`** on a state with the global invariant and the vertex cache: a live halfedge from
    `a` to `b` comes back; the old definitions are untouched -/
theorem tetAddHalfedge_spec {k : Kernel} (hi : GInv k) (hb : k.vBU = true) {a b : Nat} (ha : VOk k a) (hbb : VOk k b) :
    GInv (k.tetAddHalfedge a b).1 ∧ Ext k (k.tetAddHalfedge a b).1 ∧ (k.tetAddHalfedge a b).1.cDel = k.cDel ∧
    HeOk (k.tetAddHalfedge a b).1 (k.tetAddHalfedge a b).2 ∧
    (k.tetAddHalfedge a b).1.fromV (k.tetAddHalfedge a b).2 = a ∧
    (k.tetAddHalfedge a b).1.toV (k.tetAddHalfedge a b).2 = b := by
  cases hf : k.findHalfedge a b with
  | some he =>
    have e : k.tetAddHalfedge a b = (k, he) := by unfold tetAddHalfedge; rw [hf]
    rw [e]
    obtain ⟨h1, h2, h3, h4⟩ := OVM.Props.C10.findHalfedge_sound k hi.wf.cache hb a b he ha.1 hf
    refine ⟨hi, Ext.refl k, rfl, ⟨h1, ?_⟩, h3, h4⟩
    unfold liveE at h2; simp at h2; exact h2.2
  | none =>
    rw [tetAddHalfedge_none hb hf]
    have hg : GInv (k.addEdgeCore a b) := by
      have := ginv_addEdge false ha hbb hi
      have e : (k.addEdge a b false).1 = k.addEdgeCore a b := by
        have := tetAddHalfedge_none hb hf
        unfold tetAddHalfedge at this; rw [hf] at this
        simp only at this
        exact congrArg Prod.fst this
      rw [e] at this; exact this
    refine ⟨hg, ext_addEdgeCore k a b, by simp, ⟨?_, ?_⟩, ?_, ?_⟩
    · unfold nHE heOf nE; simp
    · have h1 : eOf (heOf k.nE 0) = k.nE := by unfold eOf heOf; omega
      rw [h1]; unfold eDeleted; rw [addEdgeCore_eDel]
      rw [List.getD_eq_getElem?_getD, List.getElem?_append_right (by rw [hi.wf.len.eDel]; exact Nat.le_refl _)]
      simp [hi.wf.len.eDel]
    · unfold fromV; rw [halfedge_new]
    · unfold toV; rw [halfedge_new]

/-! ### `add_halfface` -/

theorem faceLoops_addFaceCore {k : Kernel} (hr : RangeInv k) (hl : FaceLoops k) {hes : List Nat}
    (hh : ∀ h ∈ hes, h < k.nHE) (hloop : Loop3 k hes) : FaceLoops (k.addFaceCore hes) := by
  intro f hf
  rw [addFaceCore_faces] at hf
  rcases List.mem_append.mp hf with h | h
  · exact (ext_addFaceCore k hes).faceLoops_old hr hl f h
  · simp only [List.mem_singleton] at h; subst h
    exact (ext_addFaceCore k f).loop3 hh hloop

theorem hfHes_new (k : Kernel) (hes : List Nat) : (k.addFaceCore hes).hfHes (heOf k.nF 0) = hes := by
  unfold hfHes faceAt
  have h1 : eOf (heOf k.nF 0) = k.nF := by unfold eOf heOf; omega
  have h2 : side (heOf k.nF 0) = 0 := by unfold side heOf; omega
  rw [h1, h2, addFaceCore_faces]
  simp [nF]

theorem rot_refl (a : List Nat) : Rot a a := Or.inl rfl

/-- **`add_halfface([h0,h1,h2], false)`** for a closed triangle of live halfedges on three different
    vertices, in a mesh of closed triangles with the edge cache: a live halfface comes back whose vertex cycle
    is that of the three halfedges up to rotation; the old definitions are untouched -/
theorem tetAddHalfface_spec {k : Kernel} (hi : GInv k) (hb : k.eBU = true) (hl : FaceLoops k) {h0 h1 h2 : Nat}
    (ok0 : HeOk k h0) (ok1 : HeOk k h1) (ok2 : HeOk k h2) (hloop : Loop3 k [h0, h1, h2])
    (hd : k.fromV h0 ≠ k.fromV h1 ∧ k.fromV h1 ≠ k.fromV h2 ∧ k.fromV h0 ≠ k.fromV h2) :
    ∃ hf, (k.tetAddHalfface [h0, h1, h2] false).2 = some hf ∧ GInv (k.tetAddHalfface [h0, h1, h2] false).1 ∧
      Ext k (k.tetAddHalfface [h0, h1, h2] false).1 ∧ (k.tetAddHalfface [h0, h1, h2] false).1.cDel = k.cDel ∧
      FaceLoops (k.tetAddHalfface [h0, h1, h2] false).1 ∧ HfOk (k.tetAddHalfface [h0, h1, h2] false).1 hf ∧
      Rot ((k.tetAddHalfface [h0, h1, h2] false).1.hfVerts hf) [k.fromV h0, k.fromV h1, k.fromV h2] := by
  obtain ⟨l1, l2, l3⟩ := hloop
  cases hfd : k.findHalffaceHes h0 h1 with
  | some hf =>
    have e : k.tetAddHalfface [h0, h1, h2] false = (k, some hf) := by unfold tetAddHalfface; simp only [hfd]
    rw [e]
    obtain ⟨s1, s2, s3, s4⟩ := OVM.Props.C10.findHalffaceHes_sound k hi.wf.cache hb h0 h1 hf ok0.1 hfd
    have hfl : k.fDeleted (eOf hf) = false := by unfold liveF at s2; simp at s2; exact s2.2
    refine ⟨hf, rfl, hi, Ext.refl k, rfl, hl, ⟨s1, hfl⟩, ?_⟩
    have hL := loop3_hfHes hl s1
    unfold hfVerts
    generalize k.hfHes hf = ys at hL s3 s4
    unfold Loop3 at hL
    split at hL
    · rename_i y0 y1 y2
      obtain ⟨m1, m2, m3⟩ := hL
      simp only [List.mem_cons, List.not_mem_nil, or_false] at s3 s4
      simp only [List.map_cons, List.map_nil]
      rcases s3 with rfl | rfl | rfl <;> rcases s4 with rfl | rfl | rfl
      · exact absurd rfl hd.1
      · -- h0 = y0, h1 = y1
        left; rw [← m2, l2]
      · -- h0 = y0, h1 = y2 : impossible
        exfalso; apply hd.2.2; rw [← m3, l2]
      · exfalso; apply hd.2.2; rw [← m1, l2]
      · exact absurd rfl hd.1
      · -- h0 = y1, h1 = y2
        right; right; simp [List.rotateLeft]; rw [← m3, l2]
      · -- h0 = y2, h1 = y0
        right; left; simp [List.rotateLeft]; rw [← m1, l2]
      · exfalso; apply hd.2.2; rw [← m2, l2]
      · exact absurd rfl hd.1
    · exact absurd hL id
  | none =>
    have e : k.tetAddHalfface [h0, h1, h2] false = (k.addFaceCore [h0, h1, h2], some (heOf k.nF 0)) := by
      unfold tetAddHalfface; simp only [hfd]
      unfold tetAddFace addFace addFaceAccepts
      simp
    rw [e]
    have hh : ∀ h ∈ [h0, h1, h2], HeOk k h := by
      intro h hm; simp only [List.mem_cons, List.not_mem_nil, or_false] at hm
      rcases hm with rfl | rfl | rfl <;> assumption
    have hg : GInv (k.addFaceCore [h0, h1, h2]) := by
      have := ginv_addFace false hh hi
      unfold addFace addFaceAccepts at this; simpa using this
    have hx := ext_addFaceCore k [h0, h1, h2]
    refine ⟨heOf k.nF 0, rfl, hg, hx, by simp, ?_, ⟨?_, ?_⟩, ?_⟩
    · exact faceLoops_addFaceCore hi.wf.range hl (fun h hm => (hh h hm).1) ⟨l1, l2, l3⟩
    · unfold nHF heOf nF; simp
    · have h1' : eOf (heOf k.nF 0) = k.nF := by unfold eOf heOf; omega
      rw [h1']; unfold fDeleted; rw [addFaceCore_fDel]
      rw [List.getD_eq_getElem?_getD, List.getElem?_append_right (by rw [hi.wf.len.fDel]; exact Nat.le_refl _)]
      simp [hi.wf.len.fDel]
    · unfold hfVerts; rw [hfHes_new]
      simp only [List.map_cons, List.map_nil, hx.fromV ok0.1, hx.fromV ok1.1, hx.fromV ok2.1]
      exact rot_refl _

/-! ### the invariant bundle of the construction theorems -/

/-- K5's global invariant, vertex and edge caches enabled, every stored face a closed triangle -/
structure BInv (k : Kernel) : Prop where
  ginv : GInv k
  vBU : k.vBU = true
  eBU : k.eBU = true
  loops : FaceLoops k

theorem BInv.ext {k k' : Kernel} (h : BInv k) (e : Ext k k') (hg : GInv k') (hl : FaceLoops k') : BInv k' :=
  ⟨hg, e.vBU.trans h.vBU, e.eBU.trans h.eBU, hl⟩

theorem tetAddHalfedge_binv {k : Kernel} (h : BInv k) {a b : Nat} (ha : VOk k a) (hb : VOk k b) :
    BInv (k.tetAddHalfedge a b).1 := by
  obtain ⟨g, e, _, _, _, _⟩ := tetAddHalfedge_spec h.ginv h.vBU ha hb
  refine h.ext e g ?_
  intro f hf
  rw [tetAddHalfedge_faces] at hf
  exact e.faceLoops_old h.ginv.wf.range h.loops f hf

/-- **`add_halfface(a, b, c, false)`** for three different live vertices: a live halfface with vertex cycle
    `(a, b, c)` up to rotation -/
theorem tetAddHalfface3_spec {k : Kernel} (h : BInv k) {a b c : Nat} (ha : VOk k a) (hb : VOk k b) (hc : VOk k c)
    (hab : a ≠ b) (hbc : b ≠ c) (hac : a ≠ c) :
    ∃ hf, (k.tetAddHalfface3 a b c false).2 = some hf ∧ BInv (k.tetAddHalfface3 a b c false).1 ∧
      Ext k (k.tetAddHalfface3 a b c false).1 ∧ (k.tetAddHalfface3 a b c false).1.cDel = k.cDel ∧
      HfOk (k.tetAddHalfface3 a b c false).1 hf ∧ Rot ((k.tetAddHalfface3 a b c false).1.hfVerts hf) [a, b, c] := by
  simp only [tetAddHalfface3]
  obtain ⟨g1, e1, c1, o1, f1, t1⟩ := tetAddHalfedge_spec h.ginv h.vBU ha hb
  have b1 := tetAddHalfedge_binv h ha hb
  generalize k.tetAddHalfedge a b = r0 at g1 e1 c1 o1 f1 t1 b1 ⊢
  obtain ⟨g2, e2, c2, o2, f2, t2⟩ := tetAddHalfedge_spec b1.ginv b1.vBU (e1.vOk hb) (e1.vOk hc)
  have b2 := tetAddHalfedge_binv b1 (e1.vOk hb) (e1.vOk hc)
  generalize r0.1.tetAddHalfedge b c = r1 at g2 e2 c2 o2 f2 t2 b2 ⊢
  have e12 := e1.trans e2
  obtain ⟨g3, e3, c3, o3, f3, t3⟩ := tetAddHalfedge_spec b2.ginv b2.vBU (e12.vOk hc) (e12.vOk ha)
  have b3 := tetAddHalfedge_binv b2 (e12.vOk hc) (e12.vOk ha)
  generalize r1.1.tetAddHalfedge c a = r2 at g3 e3 c3 o3 f3 t3 b3 ⊢
  have e23 := e2.trans e3
  -- the three halfedges in the final state
  have F0 : r2.1.fromV r0.2 = a := by rw [e23.fromV o1.1]; exact f1
  have T0 : r2.1.toV r0.2 = b := by rw [e23.toV o1.1]; exact t1
  have F1 : r2.1.fromV r1.2 = b := by rw [e3.fromV o2.1]; exact f2
  have T1 : r2.1.toV r1.2 = c := by rw [e3.toV o2.1]; exact t2
  obtain ⟨hf, p1, p2, p3, p4, p5, p6, p7⟩ := tetAddHalfface_spec (k := r2.1) b3.ginv b3.eBU b3.loops
    (h0 := r0.2) (h1 := r1.2) (h2 := r2.2) (e23.heOk o1) (e3.heOk o2) o3
    (by show _ ∧ _ ∧ _; rw [T0, F1, T1, f3, t3, F0]; exact ⟨rfl, rfl, rfl⟩)
    (by rw [F0, F1, f3]; exact ⟨hab, hbc, hac⟩)
  rw [F0, F1, f3] at p7
  exact ⟨hf, p1, b3.ext p3 p2 p5, (e1.trans e23).trans p3, by rw [p4, c3, c2, c1], p6, p7⟩

end Kernel
end OVM

import OVM.Tet.Query
import OVM.Gen.TetLabels
/-
  M: `TetTopology` and `TriangleTopology` (Unstable/Topology/TetTopology.{hh,cc},
  TetTopology_impl.hh, TriangleTopology.{hh,cc}).  The label algebra (which array slot and
  which orientation an accessor reads, the vertices of a halfface label, `opposite`, …) is not
  re-typed here: it is looked up in the tables of `OVM.Gen.TetLabels`, which are regenerated from
  the headers on every run.  Hand-written: the constructor walk and the `get_label` searches.
-/
namespace OVM
namespace Tet
open Kernel
open OVM.Gen.TetLabels

/-! ### lookups in the generated tables -/
def vlOf (name : String) : Nat := ((vl.find? (·.1 == name)).map (·.2)).getD 0
def helRow? (v : Nat) : Option HelRow := hel.find? (·.val == v)
def hflRow? (v : Nat) : Option HflRow := hfl.find? (·.val == v)
def helVal (name : String) : Nat := ((hel.find? (·.name == name)).map (·.val)).getD 0
def hflVal (name : String) : Nat := ((hfl.find? (·.name == name)).map (·.val)).getD 0
/-- `hel<From,To>()` -/
def helOfFT (f t : Nat) : Option Nat := (helFT.find? (fun r => r.1 == f && r.2.1 == t)).map (·.2.2)
/-- `opposite(HalfEdgeLabel)` -/
def helOpp (l : Nat) : Option Nat := (helRow? l).map (·.opp)
/-- `opposite(HalfFaceLabel)` -/
def hflOpp (l : Nat) : Option Nat := (hflRow? l).map (·.opp)
/-- array slot and orientation read by `heh<L>()` -/
def hehSlot (l : Nat) : Option (Nat × Bool) := (instHeh.find? (·.1 == l)).map (fun r => (r.2.2.1, r.2.2.2.1))
/-- array slot and orientation read by `hfh<L>()` -/
def hfhSlot (l : Nat) : Option (Nat × Bool) := (instHfh.find? (·.1 == l)).map (fun r => (r.2.2.1, r.2.2.2.1))
/-- `hfl_vl<L,0..2>()` and `hfl_hel<L,0..2>()` -/
def hflVl (l : Nat) : Option (List Nat) := (hflv.find? (·.1 == l)).map (·.2.1)
def hflHel (l : Nat) : Option (List Nat) := (hflv.find? (·.1 == l)).map (·.2.2)

/-- the three private arrays; `none` = a default-constructed (invalid) handle -/
structure TetTopo where
  vh : List (Option Nat) := List.replicate 4 none
  heh : List (Option Nat) := List.replicate 6 none
  hfh : List (Option Nat) := List.replicate 4 none
  fault : Bool := false            -- the C++ loop would not terminate / read an invalid handle
deriving Repr, DecidableEq, Inhabited

namespace TetTopo
def vhL (t : TetTopo) (l : Nat) : Option Nat := (t.vh.getD l none)
def hehL (t : TetTopo) (l : Nat) : Option Nat :=
  match hehSlot l with
  | some (j, flip) => (t.heh.getD j none).map (fun h => if flip then opp h else h)
  | none => none
def hfhL (t : TetTopo) (l : Nat) : Option Nat :=
  match hfhSlot l with
  | some (j, flip) => (t.hfh.getD j none).map (fun h => if flip then opp h else h)
  | none => none
def setHeh (t : TetTopo) (l : Nat) (h : Nat) : TetTopo :=
  match hehSlot l with | some (j, _) => { t with heh := t.heh.set j (some h) } | none => t
def setHfh (t : TetTopo) (l : Nat) (h : Nat) : TetTopo :=
  match hfhSlot l with | some (j, _) => { t with hfh := t.hfh.set j (some h) } | none => t
def setVh (t : TetTopo) (l : Nat) (v : Nat) : TetTopo := { t with vh := t.vh.set l (some v) }
end TetTopo

def cyc (l : List Nat) (i : Nat) : Nat := l.getD (i % l.length) 0

/-- one other halfface of the cell (cc:41-62): scan its halfedges (two laps of the circulator) for
    `ba`, `cb`, `ac`; the halfedge after the hit is `ad`, `bd`, `cd` -/
def walkFace (k : Kernel) (ba cb ac : Nat) (t : TetTopo) (cur : Nat) : TetTopo :=
  let hes := k.hfHes cur
  match hes.findIdx? (fun h => h == ba || h == cb || h == ac) with
  | none => t
  | some i =>
    let h := hes.getD i 0
    let nxt := cyc hes (i + 1)
    if h == ba then (t.setHfh (hflVal "BAD") cur).setHeh (helVal "AD") nxt
    else if h == cb then (t.setHfh (hflVal "CBD") cur).setHeh (helVal "BD") nxt
    else (t.setHfh (hflVal "ACD") cur).setHeh (helVal "CD") nxt

/-- `TetTopology(mesh, ch, abc, a)` (TetTopology.cc:19-78); `a = none` is the default `VH()` -/
def mk (k : Kernel) (ch abc : Nat) (a : Option Nat) : TetTopo :=
  let hes := k.hfHes abc
  let start : Option Nat := match a with
    | none => some 0
    | some v => hes.findIdx? (fun h => k.fromV h == v)
  match start with
  | none => { fault := true }       -- `while (from_vertex_handle(*it) != _a) ++it;` never ends
  | some i =>
    let ab := cyc hes i
    let bc := cyc hes (i + 1)
    let ca := cyc hes (i + 2)
    let t : TetTopo := { fault := hes.isEmpty }
    let t := ((t.setHeh (helVal "AB") ab).setHeh (helVal "BC") bc).setHeh (helVal "CA") ca
    let t := ((t.setVh (vlOf "A") (k.fromV ab)).setVh (vlOf "B") (k.fromV bc)).setVh (vlOf "C") (k.fromV ca)
    let t := t.setHfh (hflVal "ABC") abc
    let t := ((k.cellAt ch).filter (· != abc)).foldl (walkFace k (opp ab) (opp bc) (opp ca)) t
    match t.hehL (helVal "AD") with
    | some ad => t.setVh (vlOf "D") (k.toV ad)
    | none => { t with fault := true }

/-- `TetTopology(mesh, abc, a)` (cc:81-84) -/
def mkHF (k : Kernel) (abc : Nat) (a : Option Nat) : TetTopo :=
  match k.cellOf abc with
  | some ch => mk k ch abc a
  | none => { fault := true }

/-- `find_halfface(mesh, ch, vh)` (cc:7-16) -/
def findHfWith (k : Kernel) (ch v : Nat) : Option Nat := (k.cellAt ch).find? (fun hf => (k.hfVerts hf).contains v)

/-- `TetTopology(mesh, ch, a)` (cc:86-89) -/
def mkCV (k : Kernel) (ch a : Nat) : TetTopo :=
  match findHfWith k ch a with
  | some abc => mk k ch abc (some a)
  | none => { fault := true }

/-- `TetTopology(mesh, ch)` (cc:91-94) -/
def mkC (k : Kernel) (ch : Nat) : TetTopo :=
  match (k.cellAt ch).head? with
  | some abc => mk k ch abc none
  | none => { fault := true }

namespace TetTopo
/-- `get_label(VH)` (cc:103-112) -/
def getLabelV (t : TetTopo) (v : Nat) : Option Nat := t.vh.findIdx? (· == some v)

/-- `get_label(HEH)` (cc:113-129): first slot on the same edge; the label or its `opposite` -/
def getLabelHE (t : TetTopo) (h : Nat) : Option Nat :=
  match t.heh.findIdx? (fun x => x.map eOf == some (eOf h)) with
  | none => none
  | some idx => if t.heh.getD idx none == some h then some idx else helOpp idx

/-- `get_label(HFH)` (cc:130-146): first slot on the same face; `idx << 2` or its `opposite` -/
def getLabelHF (t : TetTopo) (h : Nat) : Option Nat :=
  match t.hfh.findIdx? (fun x => x.map eOf == some (eOf h)) with
  | none => none
  | some idx => if t.hfh.getD idx none == some h then some (idx * 4) else hflOpp (idx * 4)

/-- `detail::try_get_label<HFL>` (cc:148-162) for a label `l0` without start vertex -/
def tryGetLabel (t : TetTopo) (l0 hfh first : Nat) : Option Nat :=
  let pick := fun (base : Nat) =>
    [base + 1, base + 2, base + 3].find? (fun l => (hflVl l).bind (·.head?) == some first)
  if t.hfhL l0 == some hfh then pick l0
  else if t.hfhL l0 == some (opp hfh) then
    match hflRow? l0 with
    | some r => if t.hfhL r.oppT == some hfh then pick r.oppT else none
    | none => none
  else none

/-- `get_label(HFH, VH)` (cc:163-174) -/
def getLabelHFV (t : TetTopo) (hfh first : Nat) : Option Nat :=
  match t.getLabelV first with
  | none => none
  | some fl =>
    [hflVal "OppA", hflVal "OppB", hflVal "OppC", hflVal "OppD"].findSome? (fun l0 => t.tryGetLabel l0 hfh fl)

/-- `triangle_topology<HFL>()` (TetTopology_impl.hh:9-24): (a, b, c) and (ab, bc, ca) -/
def triangle (t : TetTopo) (l : Nat) : Option (List (Option Nat) × List (Option Nat)) :=
  match hflVl l, hflHel l with
  | some vs, some hs => some (vs.map t.vhL, hs.map t.hehL)
  | _, _ => none
end TetTopo

/-- `TriangleTopology(mesh, hfh)` / `(mesh, hfh, a)` (TriangleTopology.cc:5-40): vertices and halfedges -/
def triMk (k : Kernel) (hfh : Nat) (a : Option Nat) : Option (List Nat × List Nat) :=
  let hes := k.hfHes hfh
  match a with
  | none => if hes.length == 3 then some (hes.map k.fromV, hes) else none
  | some v =>
    match hes.findIdx? (fun h => k.fromV h == v) with
    | none => none
    | some i =>
      let l := [cyc hes i, cyc hes (i + 1), cyc hes (i + 2)]
      some (l.map k.fromV, l)

end Tet
end OVM

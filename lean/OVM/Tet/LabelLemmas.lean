import OVM.Tet.Topology
/-
  C15(c): the label algebra of TetTopology, proved by kernel `decide` over the WHOLE tables of
  OVM/Gen/TetLabels.lean (regenerated from the headers on every run: if the header changes so that a
  statement becomes false, this file no longer compiles).
-/
namespace OVM.Tet
open OVM.Gen.TetLabels

/-- parity of a list of label values (true = even permutation of 0..n-1) -/
def evenPerm (l : List Nat) : Bool :=
  ((List.range l.length).foldl (fun n i => n + ((List.range i).filter (fun j => l.getD j 0 > l.getD i 0)).length) 0) % 2 == 0

/-- the vertex labels are exactly 0,1,2,3 (four distinct values, usable as array indices) -/
theorem vl_distinct : vl.map (·.2) = [0, 1, 2, 3] := by decide

/-- every halfedge label: distinct values; `hel_from` / `hel_to` are the two vertices the name spells;
    `hel<from,to>()` gives the label back; `opposite` exchanges the two vertices, is an involution and
    flips `is_forward`; forward labels are exactly the array indices 0..5 -/
def HelTableOK : Prop :=
    (hel.map (·.val)).Nodup ∧
    hel.all (fun r => r.spelled == [r.from_, r.to_] && r.from_ != r.to_ && r.from_ < 4 && r.to_ < 4 &&
      helOfFT r.from_ r.to_ == some r.val &&
      (match helRow? r.opp with
       | some o => o.from_ == r.to_ && o.to_ == r.from_ && o.opp == r.val && o.fwd != r.fwd
       | none => false) &&
      (r.fwd == decide (r.val < 6))) = true ∧
    helFT.all (fun p => (helRow? p.2.2).any (fun r => r.from_ == p.1 && r.to_ == p.2.1)) = true ∧
    hel.length = 12 ∧ helFT.length = 12
theorem hel_table_ok : HelTableOK := by unfold HelTableOK; decide



def rot1 (l : List Nat) : List Nat := l.rotateLeft 1
def hflBySpelled (sp : List Nat) : Option HflRow := hfl.find? (fun r => r.hasStart && r.spelled == sp)
def missingOf (sp : List Nat) : List Nat := [0, 1, 2, 3].filter (fun v => !sp.contains v)

/-- labels without a start vertex (`OppX`, `OuterOppX`) -/
def HflOppRowsOK : Prop :=
    (hfl.map (·.val)).Nodup ∧ hfl.length = 32 ∧ (hfl.filter (·.hasStart)).length = 24 ∧
    hfl.all (fun r => r.oppT == r.opp && r.innerOfT == r.innerOf && r.outerOfT == r.outerOf &&
      r.innerOf == (if r.isInner then r.val else r.opp) && r.outerOf == (if r.isInner then r.opp else r.val) &&
      r.hasStart == r.omits.isNone &&
      (match hflRow? r.opp with
       | some o => o.opp == r.val && o.isInner != r.isInner && o.hasStart == r.hasStart &&
                   hfhSlot o.val == (hfhSlot r.val).map (fun p => (p.1, !p.2))
       | none => false) &&
      hfhSlot r.val == some ((r.val % 16) / 4, !r.isInner)) = true ∧
    (hfl.filter (fun r => !r.hasStart)).all (fun r =>
      (match r.omits, hflRow? r.opp with
       | some x, some o => x < 4 && o.omits == some x && o.outerName != r.outerName && r.isInner == !r.outerName
       | _, _ => false)) = true
theorem hfl_opp_rows_ok : HflOppRowsOK := by unfold HflOppRowsOK; decide

/-- labels with a start vertex: `hfl_vl` / `hfl_hel` are what the name spells; the three rotations of a
    name are labels of the same halfface; the label without start of that halfface omits the fourth
    vertex; `opposite` is the same start vertex with the other two exchanged (the outer side);
    inner labels are exactly the even arrangements of (A,B,C,D) -/
def HflStartRowsOK : Prop :=
    (hfl.filter (·.hasStart)).all (fun r =>
      r.spelled.length == 3 && r.spelled.all (· < 4) && (r.spelled.eraseDups.length == 3) &&
      hflVl r.val == some r.spelled &&
      hflHel r.val == some [(helOfFT (r.spelled.getD 0 0) (r.spelled.getD 1 0)).getD 99,
                           (helOfFT (r.spelled.getD 1 0) (r.spelled.getD 2 0)).getD 99,
                           (helOfFT (r.spelled.getD 2 0) (r.spelled.getD 0 0)).getD 99] &&
      (match hflBySpelled (rot1 r.spelled) with
       | some n => hfhSlot n.val == hfhSlot r.val && n.val / 4 == r.val / 4
       | none => false) &&
      (match hflRow? (r.val - r.val % 4), missingOf r.spelled with
       | some b, [w] => b.omits == some w && !b.hasStart && hfhSlot b.val == hfhSlot r.val && b.isInner == r.isInner
       | _, _ => false) &&
      (match hflRow? r.opp with
       | some o => o.spelled == [r.spelled.getD 0 0, r.spelled.getD 2 0, r.spelled.getD 1 0]
       | none => false) &&
      r.isInner == evenPerm (r.spelled ++ missingOf r.spelled)) = true
theorem hfl_start_rows_ok : HflStartRowsOK := by unfold HflStartRowsOK; decide

/-- `heh<L>()` reads slot `L` itself when `L` is forward and the slot of `opposite(L)`, reversed, otherwise -/
def HehSlotsOK : Prop :=
    hel.all (fun r => hehSlot r.val == some (if r.fwd then r.val else r.opp, !r.fwd)) = true
theorem heh_slots_ok : HehSlotsOK := by unfold HehSlotsOK; decide

/-! the reference instance (one concrete tetrahedron with pairwise distinct handles) -/
def refHalfedge (h : Nat) : Nat × Nat :=
  let e := refEdges.getD (h / 2) (0, 0)
  if h % 2 == 0 then e else (e.2, e.1)
def refHfVerts (hf : Nat) : List Nat :=
  let f := refFaces.getD (hf / 2) []
  let hes := if hf % 2 == 0 then f else (f.reverse.map (· ^^^ 1))
  hes.map (fun h => (refHalfedge h).1)
def refVh (l : Nat) : Nat := ((instVh.find? (·.1 == l)).map (·.2.1)).getD 99

/-- on the reference instance: four distinct vertices; every labelled halfedge joins its two labelled
    vertices; every labelled halfface is the cell's (outer labels: the opposite) halfface on the spelled
    vertices in that rotation; `get_label` gives every accessor's label back; `triangle_topology` and
    the named convenience accessors agree -/
def ReferenceInstanceOK : Prop :=
    (instVh.map (·.2.1)).Nodup ∧ instVh.all (fun r => r.2.2 == (r.1 : Int)) = true ∧
    instHeh.all (fun r => match helRow? r.1 with
      | some l => refHalfedge r.2.1 == (refVh l.from_, refVh l.to_) && r.2.2.2.2.1 == (r.1 : Int) && r.2.2.2.2.2 == r.2.1
      | none => false) = true ∧
    instHfh.all (fun r => match hflRow? r.1 with
      | some l =>
        (if l.isInner then refCell.contains r.2.1 else refCell.contains (r.2.1 ^^^ 1)) &&
        (match l.omits with
         | some x => !(refHfVerts r.2.1).contains (refVh x) && r.2.2.2.2.1 == (l.val : Int) && r.2.2.2.2.2 == -2
         | none =>
           let want := l.spelled.map refVh
           (refHfVerts r.2.1 == want || refHfVerts r.2.1 == want.rotateLeft 1 || refHfVerts r.2.1 == want.rotateLeft 2) &&
           r.2.2.2.2.1 == ((l.val - l.val % 4 : Nat) : Int) && r.2.2.2.2.2 == (l.val : Int))
      | none => false) = true ∧
    instTri.all (fun r => match hflRow? r.1 with
      | some l => r.2.1 == l.spelled.map refVh && r.2.2.2 &&
          ((r.2.2.1.zip [(r.2.1.getD 0 0, r.2.1.getD 1 0), (r.2.1.getD 1 0, r.2.1.getD 2 0), (r.2.1.getD 2 0, r.2.1.getD 0 0)]).all
            (fun p => refHalfedge p.1 == p.2))
      | none => false) = true ∧
    instTri.length = 24 ∧ instConv = true
theorem reference_instance_ok : ReferenceInstanceOK := by unfold ReferenceInstanceOK; decide

end OVM.Tet

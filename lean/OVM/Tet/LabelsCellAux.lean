import OVM.Tet.Topology
import OVM.Tet.TetLemmas
import OVM.Tet.ShapeTet
import OVM.Tet.LabelLemmas
import OVM.Refine.CellCheck
/-
  C15(c), auxiliary file of OVM/Tet/LabelsCell.lean: from `IsTet` + closed loops + closure under `opp`
  to the concrete anatomy of a tetrahedral cell (`Anat`): the base halfface `abc` with its halfedges
  ab, bc, ca; the three other halffaces X1 ∋ opp ab, X2 ∋ opp bc, X3 ∋ opp ca with the halfedges
  ad, bd, cd to the apex and their opposites.  Proof-only, core only.
-/
namespace OVM.Tet
open OVM OVM.Kernel OVM.Gen.TetLabels

def LoopHF (k : Kernel) (hf : Nat) : Prop :=
  ∀ i < (k.hfHes hf).length, k.toV ((k.hfHes hf).getD i 0) = k.fromV ((k.hfHes hf).getD ((i + 1) % (k.hfHes hf).length) 0)
instance (k : Kernel) (hf : Nat) : Decidable (LoopHF k hf) := by unfold LoopHF; infer_instance

/-! ### handle arithmetic -/
theorem opp_opp (h : Nat) : opp (opp h) = h := CellCheck.opp_opp h
theorem opp_ne (h : Nat) : opp h ≠ h := CellCheck.opp_ne h
theorem ne_opp (h : Nat) : h ≠ opp h := fun e => CellCheck.opp_ne h e.symm
theorem eOf_opp (h : Nat) : eOf (opp h) = eOf h := CellCheck.opp_div h
theorem opp_inj {a b : Nat} (h : opp a = opp b) : a = b := by
  have := congrArg opp h; rwa [opp_opp, opp_opp] at this
theorem eq_or_opp_of_eOf {a b : Nat} (h : eOf a = eOf b) : b = a ∨ b = opp a := by
  by_cases e : a = b
  · exact Or.inl e.symm
  · exact Or.inr (CellCheck.eq_opp_of_div_eq h e)

theorem halfedge_opp (k : Kernel) (h : Nat) : k.halfedge (opp h) = ((k.halfedge h).2, (k.halfedge h).1) := by
  unfold halfedge
  have h1 : eOf (opp h) = eOf h := eOf_opp h
  have h2 : side (opp h) = 1 - side h := xor_one_mod h
  rw [h1, h2]
  unfold side
  by_cases hh : h % 2 = 0
  · have : ¬ (1 - h % 2 = 0) := by omega
    simp [hh]
  · have : 1 - h % 2 = 0 := by omega
    simp [hh, this]
theorem fromV_opp (k : Kernel) (h : Nat) : k.fromV (opp h) = k.toV h := by
  unfold fromV toV; rw [halfedge_opp]
theorem toV_opp (k : Kernel) (h : Nat) : k.toV (opp h) = k.fromV h := by
  unfold fromV toV; rw [halfedge_opp]

theorem oppFace_oppFace (l : List Nat) : oppFace (oppFace l) = l := by
  unfold oppFace
  simp [List.map_reverse, Function.comp_def, opp, Nat.xor_assoc]

theorem hfHes_opp (k : Kernel) (hf : Nat) : k.hfHes (opp hf) = oppFace (k.hfHes hf) := by
  unfold hfHes
  have h1 : eOf (opp hf) = eOf hf := eOf_opp hf
  have h2 : side (opp hf) = 1 - side hf := xor_one_mod hf
  simp only [h1, h2]
  unfold side
  by_cases hh : hf % 2 = 0
  · have : ¬ (1 - hf % 2 = 0) := by omega
    simp [hh]
  · have : 1 - hf % 2 = 0 := by omega
    simp [hh, this, oppFace_oppFace]

/-- same edge ⇒ same or exchanged end points -/
theorem ends_of_eOf (k : Kernel) {x y : Nat} (h : eOf x = eOf y) :
    (k.fromV y = k.fromV x ∧ k.toV y = k.toV x) ∨ (k.fromV y = k.toV x ∧ k.toV y = k.fromV x) := by
  rcases eq_or_opp_of_eOf h with e | e
  · subst e; exact Or.inl ⟨rfl, rfl⟩
  · subst e; exact Or.inr ⟨fromV_opp k x, toV_opp k x⟩

/-! ### a triangle face with its three halfedges -/
structure Tri (k : Kernel) (hf x y z e1 e2 e3 : Nat) : Prop where
  hes : k.hfHes hf = [e1, e2, e3] ∨ k.hfHes hf = [e2, e3, e1] ∨ k.hfHes hf = [e3, e1, e2]
  f1 : k.fromV e1 = x
  t1 : k.toV e1 = y
  f2 : k.fromV e2 = y
  t2 : k.toV e2 = z
  f3 : k.fromV e3 = z
  t3 : k.toV e3 = x

theorem Tri.rotate {k : Kernel} {hf x y z e1 e2 e3 : Nat} (h : Tri k hf x y z e1 e2 e3) : Tri k hf y z x e2 e3 e1 :=
  ⟨by rcases h.hes with e | e | e <;> simp [e], h.f2, h.t2, h.f3, h.t3, h.f1, h.t1⟩

theorem Tri.opp {k : Kernel} {hf x y z e1 e2 e3 : Nat} (h : Tri k hf x y z e1 e2 e3) :
    Tri k (opp hf) x z y (opp e3) (opp e2) (opp e1) := by
  refine ⟨?_, by rw [fromV_opp]; exact h.t3, by rw [toV_opp]; exact h.f3, by rw [fromV_opp]; exact h.t2,
    by rw [toV_opp]; exact h.f2, by rw [fromV_opp]; exact h.t1, by rw [toV_opp]; exact h.f1⟩
  rw [hfHes_opp]
  rcases h.hes with e | e | e <;> simp [e, oppFace]

theorem Tri.verts {k : Kernel} {hf x y z e1 e2 e3 : Nat} (h : Tri k hf x y z e1 e2 e3) :
    k.hfVerts hf = [x, y, z] ∨ k.hfVerts hf = [y, z, x] ∨ k.hfVerts hf = [z, x, y] := by
  unfold hfVerts
  rcases h.hes with e | e | e <;> simp [e, h.f1, h.f2, h.f3]

theorem Tri.rotV {k : Kernel} {hf x y z e1 e2 e3 : Nat} (h : Tri k hf x y z e1 e2 e3) : Rot [x, y, z] (k.hfVerts hf) := by
  rcases h.verts with e | e | e <;> rw [e] <;> simp [Rot, List.rotateLeft]

theorem Tri.mem_verts {k : Kernel} {hf x y z e1 e2 e3 : Nat} (h : Tri k hf x y z e1 e2 e3) (v : Nat) :
    v ∈ k.hfVerts hf ↔ v = x ∨ v = y ∨ v = z := by
  rcases h.verts with e | e | e <;> rw [e] <;> simp <;> omega

theorem Tri.mem_hes {k : Kernel} {hf x y z e1 e2 e3 : Nat} (h : Tri k hf x y z e1 e2 e3) (g : Nat) :
    g ∈ k.hfHes hf ↔ g = e1 ∨ g = e2 ∨ g = e3 := by
  rcases h.hes with e | e | e <;> rw [e] <;> simp <;> omega

/-- a closed loop of three halfedges whose start vertices are `x, y, z` up to rotation -/
theorem tri_of_rot {k : Kernel} {hf x y z : Nat} (hr : Rot (k.hfVerts hf) [x, y, z]) (hl : LoopHF k hf) :
    ∃ e1 e2 e3, Tri k hf x y z e1 e2 e3 := by
  have hlen : (k.hfHes hf).length = 3 := by
    have : (k.hfVerts hf).length = 3 := by
      rcases (rot_three _ x y z).mp hr with e | e | e <;> rw [e] <;> rfl
    simpa [hfVerts] using this
  match hh : k.hfHes hf, hlen with
  | [g0, g1, g2], _ =>
    have l0 := hl 0 (by rw [hh]; simp)
    have l1 := hl 1 (by rw [hh]; simp)
    have l2 := hl 2 (by rw [hh]; simp)
    simp only [hh, List.length_cons, List.length_nil, Nat.reduceAdd, Nat.reduceMod, List.getD_cons_zero,
      List.getD_cons_succ] at l0 l1 l2
    have hv : k.hfVerts hf = [k.fromV g0, k.fromV g1, k.fromV g2] := by simp [hfVerts, hh]
    rw [hv] at hr
    rcases (rot_three _ x y z).mp hr with e | e | e
    · simp only [List.cons.injEq, and_true] at e
      exact ⟨g0, g1, g2, Or.inl hh, e.1, by rw [l0]; exact e.2.1, e.2.1, by rw [l1]; exact e.2.2, e.2.2, by rw [l2]; exact e.1⟩
    · simp only [List.cons.injEq, and_true] at e
      exact ⟨g2, g0, g1, Or.inr (Or.inl hh), e.2.2, by rw [l2]; exact e.1, e.1, by rw [l0]; exact e.2.1, e.2.1, by rw [l1]; exact e.2.2⟩
    · simp only [List.cons.injEq, and_true] at e
      exact ⟨g1, g2, g0, Or.inr (Or.inr hh), e.2.1, by rw [l1]; exact e.2.2, e.2.2, by rw [l2]; exact e.1, e.1, by rw [l0]; exact e.2.1⟩

/-! ### re-basing `TetOn` -/
theorem nodup4 (p q r s : Nat) : [p, q, r, s].Nodup ↔ p ≠ q ∧ p ≠ r ∧ p ≠ s ∧ q ≠ r ∧ q ≠ s ∧ r ≠ s := by
  simp only [List.nodup_cons, List.mem_cons, List.not_mem_nil, or_false, not_or, List.nodup_nil, and_true, not_false_eq_true]
  constructor
  · rintro ⟨⟨a, b, c⟩, ⟨d, e⟩, f⟩; exact ⟨a, b, c, d, e, f⟩
  · rintro ⟨a, b, c, d, e, f⟩; exact ⟨⟨a, b, c⟩, ⟨d, e⟩, f⟩

theorem rot_iff1 (l : List Nat) (p q r : Nat) : Rot l [q, r, p] ↔ Rot l [p, q, r] := by
  simp only [rot_three]
  constructor <;> rintro (h | h | h) <;> simp [h]

theorem tetOn_congr {k : Kernel} {hs : List Nat} {p q r s x y z w : Nat} (hT : TetOn k hs p q r s) (hnd : [x, y, z, w].Nodup)
    (h1 : ∀ t' ∈ tris x y z w, ∃ t ∈ tris p q r s, ∀ l, Rot l t' ↔ Rot l t)
    (h2 : ∀ t ∈ tris p q r s, ∃ t' ∈ tris x y z w, ∀ l, Rot l t' ↔ Rot l t) : TetOn k hs x y z w := by
  obtain ⟨_, hlen, hnd', hall, hsurj, hinj⟩ := hT
  refine ⟨hnd, hlen, hnd', ?_, ?_, ?_⟩
  · intro h hh
    obtain ⟨t, ht, hr⟩ := hall h hh
    obtain ⟨t', ht', hi⟩ := h2 t ht
    exact ⟨t', ht', (hi _).mpr hr⟩
  · intro t' ht'
    obtain ⟨t, ht, hi⟩ := h1 t' ht'
    obtain ⟨h, hh, hr⟩ := hsurj t ht
    exact ⟨h, hh, (hi _).mpr hr⟩
  · intro h hh h' hh' t' ht' hr hr'
    obtain ⟨t, ht, hi⟩ := h1 t' ht'
    exact hinj h hh h' hh' t ht ((hi _).mp hr) ((hi _).mp hr')

theorem tetOn_rot {k : Kernel} {hs : List Nat} {p q r s : Nat} (hT : TetOn k hs p q r s) : TetOn k hs q r p s := by
  have hd := hT.1
  apply tetOn_congr hT
  · rw [nodup4] at hd ⊢; omega
  · intro t' ht'
    simp only [tris, List.mem_cons, List.not_mem_nil, or_false] at ht'
    rcases ht' with rfl | rfl | rfl | rfl
    · exact ⟨[p, q, r], by simp [tris], fun l => rot_iff1 l p q r⟩
    · exact ⟨[r, q, s], by simp [tris], fun l => Iff.rfl⟩
    · exact ⟨[p, r, s], by simp [tris], fun l => Iff.rfl⟩
    · exact ⟨[q, p, s], by simp [tris], fun l => Iff.rfl⟩
  · intro t ht
    simp only [tris, List.mem_cons, List.not_mem_nil, or_false] at ht
    rcases ht with rfl | rfl | rfl | rfl
    · exact ⟨[q, r, p], by simp [tris], fun l => rot_iff1 l p q r⟩
    · exact ⟨[q, p, s], by simp [tris], fun l => Iff.rfl⟩
    · exact ⟨[r, q, s], by simp [tris], fun l => Iff.rfl⟩
    · exact ⟨[p, r, s], by simp [tris], fun l => Iff.rfl⟩

theorem tetOn_flip {k : Kernel} {hs : List Nat} {p q r s : Nat} (hT : TetOn k hs p q r s) : TetOn k hs q p s r := by
  have hd := hT.1
  apply tetOn_congr hT
  · rw [nodup4] at hd ⊢; omega
  · intro t' ht'
    simp only [tris, List.mem_cons, List.not_mem_nil, or_false] at ht'
    rcases ht' with rfl | rfl | rfl | rfl
    · exact ⟨[q, p, s], by simp [tris], fun l => Iff.rfl⟩
    · exact ⟨[p, q, r], by simp [tris], fun l => Iff.rfl⟩
    · exact ⟨[p, r, s], by simp [tris], fun l => (rot_iff1 l r s p).trans (rot_iff1 l p r s)⟩
    · exact ⟨[r, q, s], by simp [tris], fun l => rot_iff1 l r q s⟩
  · intro t ht
    simp only [tris, List.mem_cons, List.not_mem_nil, or_false] at ht
    rcases ht with rfl | rfl | rfl | rfl
    · exact ⟨[p, q, r], by simp [tris], fun l => Iff.rfl⟩
    · exact ⟨[q, p, s], by simp [tris], fun l => Iff.rfl⟩
    · exact ⟨[q, s, r], by simp [tris], fun l => rot_iff1 l r q s⟩
    · exact ⟨[s, p, r], by simp [tris], fun l => (rot_iff1 l r s p).trans (rot_iff1 l p r s)⟩

/-- every halfface of a `TetOn` cell can serve as the base triangle, read as stored -/
theorem tetOn_rebase {k : Kernel} {hs : List Nat} {p q r s hf : Nat} (hT : TetOn k hs p q r s) (hm : hf ∈ hs) :
    ∃ x y z w, k.hfVerts hf = [x, y, z] ∧ TetOn k hs x y z w := by
  obtain ⟨t, ht, hr⟩ := hT.2.2.2.1 hf hm
  have key : ∀ {x y z w : Nat}, TetOn k hs x y z w → Rot (k.hfVerts hf) [x, y, z] →
      ∃ x y z w, k.hfVerts hf = [x, y, z] ∧ TetOn k hs x y z w := by
    intro x y z w hT' hr'
    rcases (rot_three _ x y z).mp hr' with e | e | e
    · exact ⟨x, y, z, w, e, hT'⟩
    · exact ⟨y, z, x, w, e, tetOn_rot hT'⟩
    · exact ⟨z, x, y, w, e, tetOn_rot (tetOn_rot hT')⟩
  simp only [tris, List.mem_cons, List.not_mem_nil, or_false] at ht
  rcases ht with rfl | rfl | rfl | rfl
  · exact key hT hr
  · exact key (tetOn_flip hT) hr
  · exact key (tetOn_flip (tetOn_rot hT)) hr
  · exact key (tetOn_flip (tetOn_rot (tetOn_rot hT))) hr

/-- what the constructor reads from `abc`: the position it starts at and the three halfedges from there -/
def StartAt (k : Kernel) (abc : Nat) (a : Option Nat) (ab bc ca : Nat) : Prop :=
  ∃ i, (match a with | none => some 0 | some v => (k.hfHes abc).findIdx? (fun h => k.fromV h == v)) = some i ∧
    cyc (k.hfHes abc) i = ab ∧ cyc (k.hfHes abc) (i + 1) = bc ∧ cyc (k.hfHes abc) (i + 2) = ca ∧
    (k.hfHes abc).isEmpty = false

theorem base_choice {k : Kernel} {c abc x y z w : Nat} {a : Option Nat} (hT : TetOn k (k.cellAt c) x y z w)
    (hv : k.hfVerts abc = [x, y, z]) (hl : LoopHF k abc) (ha : ∀ v, a = some v → v ∈ k.hfVerts abc) :
    ∃ A B C ab bc ca, TetOn k (k.cellAt c) A B C w ∧ Tri k abc A B C ab bc ca ∧ StartAt k abc a ab bc ca ∧
      (∀ v, a = some v → A = v) ∧ (a = none → [A, B, C] = k.hfVerts abc) := by
  have hlen : (k.hfHes abc).length = 3 := by
    have : (k.hfVerts abc).length = 3 := by rw [hv]; rfl
    simpa [hfVerts] using this
  have hd := (nodup4 x y z w).mp hT.1
  match hh : k.hfHes abc, hlen with
  | [g0, g1, g2], _ =>
    have l0 := hl 0 (by rw [hh]; simp)
    have l1 := hl 1 (by rw [hh]; simp)
    have l2 := hl 2 (by rw [hh]; simp)
    simp only [hh, List.length_cons, List.length_nil, Nat.reduceAdd, Nat.reduceMod, List.getD_cons_zero,
      List.getD_cons_succ] at l0 l1 l2
    have hv' : [k.fromV g0, k.fromV g1, k.fromV g2] = [x, y, z] := by rw [← hv]; simp [hfVerts, hh]
    simp only [List.cons.injEq, and_true] at hv'
    obtain ⟨f0, f1, f2⟩ := hv'
    have T0 : Tri k abc x y z g0 g1 g2 :=
      ⟨Or.inl hh, f0, by rw [l0]; exact f1, f1, by rw [l1]; exact f2, f2, by rw [l2]; exact f0⟩
    cases a with
    | none =>
      refine ⟨x, y, z, g0, g1, g2, hT, T0, ⟨0, rfl, ?_, ?_, ?_, ?_⟩, (fun v hv => by cases hv), fun _ => hv.symm⟩ <;> simp [cyc, hh]
    | some v =>
      have hvm := ha v rfl
      rw [hv] at hvm
      simp only [List.mem_cons, List.not_mem_nil, or_false] at hvm
      rcases hvm with e | e | e
      · subst e
        refine ⟨v, y, z, g0, g1, g2, hT, T0, ⟨0, ?_, ?_, ?_, ?_, ?_⟩, (fun v' hv' => by cases hv'; rfl), (fun h => by cases h)⟩ <;>
          simp [cyc, hh, List.findIdx?_cons, f0]
      · subst e
        have n0 : k.fromV g0 ≠ v := by omega
        refine ⟨v, z, x, g1, g2, g0, tetOn_rot hT, T0.rotate, ⟨1, ?_, ?_, ?_, ?_, ?_⟩, (fun v' hv' => by cases hv'; rfl), (fun h => by cases h)⟩ <;>
          simp [cyc, hh, List.findIdx?_cons, f1, n0]
      · subst e
        have n0 : k.fromV g0 ≠ v := by omega
        have n1 : k.fromV g1 ≠ v := by omega
        refine ⟨v, x, y, g2, g0, g1, tetOn_rot (tetOn_rot hT), T0.rotate.rotate, ⟨2, ?_, ?_, ?_, ?_, ?_⟩, (fun v' hv' => by cases hv'; rfl), (fun h => by cases h)⟩ <;>
          simp [cyc, hh, List.findIdx?_cons, f2, n0, n1]

/-! ### the anatomy of the cell -/

/-- two faces whose vertex sets differ lie on different faces (so neither equals the other nor its opposite) -/
theorem tri_eOf_ne {k : Kernel} {X Y x y z x' y' z' e1 e2 e3 g1 g2 g3 : Nat} (hX : Tri k X x y z e1 e2 e3)
    (hY : Tri k Y x' y' z' g1 g2 g3) (v : Nat) (hvX : v = x ∨ v = y ∨ v = z) (hv : v ≠ x' ∧ v ≠ y' ∧ v ≠ z') :
    eOf X ≠ eOf Y := by
  intro h
  have hx : v ∈ k.hfVerts Y := by
    rcases eq_or_opp_of_eOf h with e | e
    · rw [e]; exact (hX.mem_verts v).mpr hvX
    · rw [e]; exact (hX.opp.mem_verts v).mpr (by omega)
  have := (hY.mem_verts v).mp hx
  omega

theorem ne_of_eOf_ne {a b : Nat} (h : eOf a ≠ eOf b) : a ≠ b ∧ a ≠ opp b ∧ opp a ≠ b ∧ opp a ≠ opp b := by
  refine ⟨fun e => h (by rw [e]), fun e => h (by rw [e, eOf_opp]), fun e => h (by rw [← e, eOf_opp]),
    fun e => h (by rw [opp_inj e])⟩

structure Anat (k : Kernel) (c abc A B C D ab bc ca ad bd cd X1 X2 X3 : Nat) : Prop where
  nd : A ≠ B ∧ A ≠ C ∧ A ≠ D ∧ B ≠ C ∧ B ≠ D ∧ C ≠ D
  t0 : Tri k abc A B C ab bc ca
  t1 : Tri k X1 B A D (opp ab) ad (opp bd)
  t2 : Tri k X2 C B D (opp bc) bd (opp cd)
  t3 : Tri k X3 A C D (opp ca) cd (opp ad)
  cell : (k.cellAt c).Perm [abc, X1, X2, X3]

/-- among the twelve halfedges of the four triangles, the one with given end points -/
theorem pick_by_ends {k : Kernel} {abc X1 X2 X3 A B C D ab bc ca g1 ad db g2 bd dc g3 cd da : Nat}
    (nd : A ≠ B ∧ A ≠ C ∧ A ≠ D ∧ B ≠ C ∧ B ≠ D ∧ C ≠ D)
    (t0 : Tri k abc A B C ab bc ca) (t1 : Tri k X1 B A D g1 ad db) (t2 : Tri k X2 C B D g2 bd dc)
    (t3 : Tri k X3 A C D g3 cd da) (h : Nat)
    (hm : h ∈ k.hfHes abc ∨ h ∈ k.hfHes X1 ∨ h ∈ k.hfHes X2 ∨ h ∈ k.hfHes X3) :
    (k.fromV h = B → k.toV h = A → h = g1) ∧ (k.fromV h = C → k.toV h = B → h = g2) ∧
    (k.fromV h = A → k.toV h = C → h = g3) ∧ (k.fromV h = D → k.toV h = A → h = da) ∧
    (k.fromV h = D → k.toV h = B → h = db) ∧ (k.fromV h = D → k.toV h = C → h = dc) := by
  rw [t0.mem_hes, t1.mem_hes, t2.mem_hes, t3.mem_hes] at hm
  have hm' : (k.fromV h = A ∧ k.toV h = B ∧ True) ∨ (k.fromV h = B ∧ k.toV h = C ∧ True) ∨ (k.fromV h = C ∧ k.toV h = A ∧ True) ∨
      (k.fromV h = B ∧ k.toV h = A ∧ h = g1) ∨ (k.fromV h = A ∧ k.toV h = D ∧ True) ∨ (k.fromV h = D ∧ k.toV h = B ∧ h = db) ∨
      (k.fromV h = C ∧ k.toV h = B ∧ h = g2) ∨ (k.fromV h = B ∧ k.toV h = D ∧ True) ∨ (k.fromV h = D ∧ k.toV h = C ∧ h = dc) ∨
      (k.fromV h = A ∧ k.toV h = C ∧ h = g3) ∨ (k.fromV h = C ∧ k.toV h = D ∧ True) ∨ (k.fromV h = D ∧ k.toV h = A ∧ h = da) := by
    rcases hm with (e | e | e) | (e | e | e) | (e | e | e) | (e | e | e) <;> subst e
    · exact Or.inl ⟨t0.f1, t0.t1, trivial⟩
    · exact Or.inr (Or.inl ⟨t0.f2, t0.t2, trivial⟩)
    · exact Or.inr (Or.inr (Or.inl ⟨t0.f3, t0.t3, trivial⟩))
    · exact Or.inr (Or.inr (Or.inr (Or.inl ⟨t1.f1, t1.t1, rfl⟩)))
    · exact Or.inr (Or.inr (Or.inr (Or.inr (Or.inl ⟨t1.f2, t1.t2, trivial⟩))))
    · exact Or.inr (Or.inr (Or.inr (Or.inr (Or.inr (Or.inl ⟨t1.f3, t1.t3, rfl⟩)))))
    · exact Or.inr (Or.inr (Or.inr (Or.inr (Or.inr (Or.inr (Or.inl ⟨t2.f1, t2.t1, rfl⟩))))))
    · exact Or.inr (Or.inr (Or.inr (Or.inr (Or.inr (Or.inr (Or.inr (Or.inl ⟨t2.f2, t2.t2, trivial⟩)))))))
    · exact Or.inr (Or.inr (Or.inr (Or.inr (Or.inr (Or.inr (Or.inr (Or.inr (Or.inl ⟨t2.f3, t2.t3, rfl⟩))))))))
    · exact Or.inr (Or.inr (Or.inr (Or.inr (Or.inr (Or.inr (Or.inr (Or.inr (Or.inr (Or.inl ⟨t3.f1, t3.t1, rfl⟩)))))))))
    · exact Or.inr (Or.inr (Or.inr (Or.inr (Or.inr (Or.inr (Or.inr (Or.inr (Or.inr (Or.inr (Or.inl ⟨t3.f2, t3.t2, trivial⟩))))))))))
    · exact Or.inr (Or.inr (Or.inr (Or.inr (Or.inr (Or.inr (Or.inr (Or.inr (Or.inr (Or.inr (Or.inr ⟨t3.f3, t3.t3, rfl⟩))))))))))
  clear hm t0 t1 t2 t3
  refine ⟨?_, ?_, ?_, ?_, ?_, ?_⟩ <;> intro h1 h2 <;> omega

/-- closed under `opp`: the second half of `ClosedSurface` -/
def OppClosedCell (k : Kernel) (c : Nat) : Prop :=
  ∀ h ∈ k.cellHalfedges (k.cellAt c), opp h ∈ k.cellHalfedges (k.cellAt c)

theorem anat_of {k : Kernel} {c abc A B C D ab bc ca : Nat} (hT : TetOn k (k.cellAt c) A B C D)
    (t0 : Tri k abc A B C ab bc ca) (hm : abc ∈ k.cellAt c) (hloop : ∀ hf ∈ k.cellAt c, LoopHF k hf)
    (hcl : OppClosedCell k c) :
    ∃ ad bd cd X1 X2 X3, Anat k c abc A B C D ab bc ca ad bd cd X1 X2 X3 := by
  obtain ⟨hd, hlen, hnd, hall, hsurj, hinj⟩ := hT
  have nd := (nodup4 A B C D).mp hd
  obtain ⟨X1, m1, r1⟩ := hsurj [B, A, D] (by simp [tris])
  obtain ⟨X2, m2, r2⟩ := hsurj [C, B, D] (by simp [tris])
  obtain ⟨X3, m3, r3⟩ := hsurj [A, C, D] (by simp [tris])
  obtain ⟨g1, ad, db, t1⟩ := tri_of_rot r1 (hloop X1 m1)
  obtain ⟨g2, bd, dc, t2⟩ := tri_of_rot r2 (hloop X2 m2)
  obtain ⟨g3, cd, da, t3⟩ := tri_of_rot r3 (hloop X3 m3)
  have r0 : Rot (k.hfVerts abc) [A, B, C] := (rot_three _ A B C).mpr t0.verts
  -- the cell has exactly these four halffaces
  have hmem : ∀ hf, hf ∈ k.cellAt c ↔ hf ∈ [abc, X1, X2, X3] := by
    intro hf
    constructor
    · intro hh
      obtain ⟨t, ht, hr⟩ := hall hf hh
      simp only [tris, List.mem_cons, List.not_mem_nil, or_false] at ht
      rcases ht with rfl | rfl | rfl | rfl
      · have := hinj hf hh abc hm _ (by simp [tris]) hr r0; simp [this]
      · have := hinj hf hh X1 m1 _ (by simp [tris]) hr r1; simp [this]
      · have := hinj hf hh X2 m2 _ (by simp [tris]) hr r2; simp [this]
      · have := hinj hf hh X3 m3 _ (by simp [tris]) hr r3; simp [this]
    · intro hh
      simp only [List.mem_cons, List.not_mem_nil, or_false] at hh
      rcases hh with rfl | rfl | rfl | rfl <;> assumption
  have e01 := tri_eOf_ne t0 t1 C (by simp) (by omega)
  have e02 := tri_eOf_ne t0 t2 A (by simp) (by omega)
  have e03 := tri_eOf_ne t0 t3 B (by simp) (by omega)
  have e12 := tri_eOf_ne t1 t2 A (by simp) (by omega)
  have e13 := tri_eOf_ne t1 t3 B (by simp) (by omega)
  have e23 := tri_eOf_ne t2 t3 B (by simp) (by omega)
  have hperm : (k.cellAt c).Perm [abc, X1, X2, X3] := by
    apply (List.perm_ext_iff_of_nodup hnd ?_).mpr hmem
    have := (ne_of_eOf_ne e01).1; have := (ne_of_eOf_ne e02).1; have := (ne_of_eOf_ne e03).1
    have := (ne_of_eOf_ne e12).1; have := (ne_of_eOf_ne e13).1; have := (ne_of_eOf_ne e23).1
    rw [nodup4]; omega
  -- every halfedge of the cell is one of the twelve
  have h12 : ∀ h, h ∈ k.cellHalfedges (k.cellAt c) ↔
      (h ∈ k.hfHes abc ∨ h ∈ k.hfHes X1 ∨ h ∈ k.hfHes X2 ∨ h ∈ k.hfHes X3) := by
    intro h
    unfold cellHalfedges
    rw [List.mem_flatMap]
    constructor
    · rintro ⟨hf, hfm, hh⟩
      have := (hmem hf).mp hfm
      simp only [List.mem_cons, List.not_mem_nil, or_false] at this
      rcases this with rfl | rfl | rfl | rfl <;> simp [hh]
    · rintro (hh | hh | hh | hh)
      · exact ⟨abc, hm, hh⟩
      · exact ⟨X1, m1, hh⟩
      · exact ⟨X2, m2, hh⟩
      · exact ⟨X3, m3, hh⟩
  have pick := fun h hh => pick_by_ends nd t0 t1 t2 t3 (opp h) ((h12 (opp h)).mp (hcl h ((h12 h).mpr hh)))
  have q1 : opp ab = g1 := (pick ab (Or.inl ((t0.mem_hes _).mpr (Or.inl rfl)))).1
    (by rw [fromV_opp]; exact t0.t1) (by rw [toV_opp]; exact t0.f1)
  have q2 : opp bc = g2 := (pick bc (Or.inl ((t0.mem_hes _).mpr (Or.inr (Or.inl rfl))))).2.1
    (by rw [fromV_opp]; exact t0.t2) (by rw [toV_opp]; exact t0.f2)
  have q3 : opp ca = g3 := (pick ca (Or.inl ((t0.mem_hes _).mpr (Or.inr (Or.inr rfl))))).2.2.1
    (by rw [fromV_opp]; exact t0.t3) (by rw [toV_opp]; exact t0.f3)
  have q4 : opp ad = da := (pick ad (Or.inr (Or.inl ((t1.mem_hes _).mpr (Or.inr (Or.inl rfl)))))).2.2.2.1
    (by rw [fromV_opp]; exact t1.t2) (by rw [toV_opp]; exact t1.f2)
  have q5 : opp bd = db := (pick bd (Or.inr (Or.inr (Or.inl ((t2.mem_hes _).mpr (Or.inr (Or.inl rfl))))))).2.2.2.2.1
    (by rw [fromV_opp]; exact t2.t2) (by rw [toV_opp]; exact t2.f2)
  have q6 : opp cd = dc := (pick cd (Or.inr (Or.inr (Or.inr ((t3.mem_hes _).mpr (Or.inr (Or.inl rfl))))))).2.2.2.2.2
    (by rw [fromV_opp]; exact t3.t2) (by rw [toV_opp]; exact t3.f2)
  subst q1 q2 q3 q4 q5 q6
  exact ⟨ad, bd, cd, X1, X2, X3, nd, t0, t1, t2, t3, hperm⟩
end OVM.Tet

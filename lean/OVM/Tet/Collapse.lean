import OVM.Tet.Ops
/-
  M: `collapse_edge`, `split_edge`, `split_face` of `TetrahedralMeshTopologyKernel`
  (Mesh/TetrahedralMeshTopologyKernel.cc:311-483) and the public wrappers of
  `TetrahedralGeometryKernel` (Mesh/TetrahedralGeometryKernel.hh:56-86).
-/
namespace OVM
namespace Kernel

/-- one halfedge of one halfface of a cell that is rebuilt on `b` (cc:352-362): the end points with
    `a` replaced by `b`, find-or-create of that halfedge, exchange of the two halfedge property slots -/
def collapseHe (a b : Nat) (st : Kernel × List Nat) (h : Nat) : Kernel × List Nat :=
  let k := st.1
  let e := k.halfedge h
  let ns := if e.1 == a then b else e.1
  let ne := if e.2 == a then b else e.2
  let r := k.tetAddHalfedge ns ne
  ({ r.1 with props := swapHEProp r.1.props h r.2 }, st.2 ++ [r.2])

/-- one halfface of such a cell (cc:347-367); `c` is the copy of the cell's halfface list -/
def collapseHf (a b : Nat) (c : List Nat) (st : Kernel × List Nat) (i : Nat) : Kernel × List Nat :=
  let k := st.1
  let hfh := c.getD i 0
  let hes := k.hfHes hfh
  let r := (List.range 3).foldl (fun s j => collapseHe a b s (hes.getD j 0)) (k, [])
  let k1 := { r.1 with fault := r.1.fault || decide (c.length ≤ i) || decide (hes.length < 3) }
  let r2 := k1.tetAddHalfface r.2 false
  match r2.2 with
  | some nhf => ({ r2.1 with props := swapHFProp r2.1.props hfh nhf }, st.2 ++ [nhf])
  | none => ({ r2.1 with fault := true }, st.2)

/-- one cell incident to `a` (cc:337-373): cells around the collapsing halfedge are skipped, every
    other one is re-created face by face on `b`, deleted, and remembered -/
def collapseCell (a b : Nat) (collapsing : List Nat) (st : Kernel × List (Nat × List Nat)) (ch : Nat) :
    Kernel × List (Nat × List Nat) :=
  if collapsing.contains ch then st else
  let k := st.1
  let c := k.cellAt ch
  let r := (List.range 4).foldl (collapseHf a b c) (k, [])
  (r.1.deleteCell ch, st.2 ++ [(ch, r.2)])

/-- the prediction of cc:375-391: the handle `to_vh` will carry once `from_vh` is gone -/
def survivingVertex (deferred fast : Bool) (a b n : Nat) : Nat :=
  if deferred then b
  else if fast then (if b == n - 1 then a else b)
  else (if a < b then b - 1 else b)

/-- add one remembered cell and give it the property values of the cell it replaces (cc:393-396) -/
def readdCell (k : Kernel) (n : Nat × List Nat) : Kernel :=
  let r := k.tetAddCell n.2 false
  match r.2 with
  | some nc => { r.1 with props := swapCProp r.1.props n.1 nc }
  | none => { r.1 with fault := true }

/-- the loop over the cells incident to `a` (cc:333-373) -/
def collapseStar (k : Kernel) (a b : Nat) (collapsing : List Nat) : Kernel × List (Nat × List Nat) :=
  (k.qVC a).foldl (collapseCell a b collapsing) (k, [])

/-- `delete_vertex(from_vh)` and the re-creation of the remembered cells (cc:393-397) -/
def collapseFinish (r : Kernel × List (Nat × List Nat)) (a : Nat) : Kernel :=
  r.2.foldl readdCell (r.1.deleteVertex a)

/-- `collapse_edge` between the two mode switches: `k` is in deferred mode, `defTmp` was the caller's -/
def collapseBody (k : Kernel) (defTmp : Bool) (heh : Nat) : Kernel × Nat :=
  let a := k.fromV heh
  let b := k.toV heh
  let around := k.qHEHF heh
  let kf : Kernel := { k with fault := k.fault || (!k.fBU && !around.isEmpty) }
  let r := kf.collapseStar a b (toSet (around.filterMap kf.cellOf))
  (collapseFinish r a, survivingVertex defTmp r.1.fast a b r.1.nV)

/-- `collapse_edge` (cc:311-403); returns the surviving vertex handle -/
def collapseEdge (k0 : Kernel) (heh : Nat) : Kernel × Nat :=
  let r := (if !k0.deferred then k0.enableDeferred true else k0).collapseBody k0.deferred heh
  (r.1.enableDeferred k0.deferred, r.2)

/-- re-creation of a cell through `add_cell(v0,v1,v2,v3)` with a *copy* of the old cell's property
    values (cc:437-441, 475-479) -/
def readdCell4 (k : Kernel) (n : Nat × List Nat) : Kernel :=
  let r := k.tetAddCell4 (n.2.getD 0 0) (n.2.getD 1 0) (n.2.getD 2 0) (n.2.getD 3 0) false
  match r.2 with
  | some nc => { r.1 with props := copyCProp r.1.props n.1 nc }
  | none => { r.1 with fault := true }

/-- one halfface around the split edge that bounds a cell (cc:422-432) -/
def splitEdgeHf (heh vh : Nat) (st : Kernel × List (Nat × List Nat)) (hfh : Nat) : Kernel × List (Nat × List Nat) :=
  let k := st.1
  match k.cellOf hfh with
  | none => ({ k with fault := true }, st.2)
  | some ch =>
    let vs := k.getCellVerticesHE hfh heh
    let v := fun i => vs.getD i 0
    ({ (k.deleteCell ch) with fault := k.fault || decide (vs.length < 4) },
     st.2 ++ [(ch, [v 0, vh, v 2, v 3]), (ch, [vh, v 1, v 2, v 3])])

/-- `split_edge` between the two mode switches -/
def splitEdgeBody (k : Kernel) (heh vh : Nat) : Kernel :=
  let hfs := (k.qHEHF heh).filter (fun hf => k.cellOf hf != none)
  let r := hfs.foldl (splitEdgeHf heh vh) (k, [])
  r.2.foldl readdCell4 (r.1.deleteEdge (eOf heh))

/-- `split_edge(heh, vh)` (cc:406-447) -/
def splitEdgeAt (k0 : Kernel) (heh vh : Nat) : Kernel :=
  ((if !k0.deferred then k0.enableDeferred true else k0).splitEdgeBody heh vh).enableDeferred k0.deferred

/-- one side of the split face (cc:460-472) -/
def splitFaceSide (fh vh : Nat) (st : Kernel × List (Nat × List Nat)) (i : Nat) : Kernel × List (Nat × List Nat) :=
  let k := st.1
  let hfh := heOf fh i
  match k.cellOf hfh with
  | none => st
  | some ch =>
    let vs := k.getCellVerticesHF hfh
    let v := fun i => vs.getD i 0
    ({ (k.deleteCell ch) with fault := k.fault || decide (vs.length < 4) },
     st.2 ++ [(ch, [v 0, v 1, vh, v 3]), (ch, [v 0, vh, v 2, v 3]), (ch, [vh, v 1, v 2, v 3])])

/-- `split_face` between the two mode switches -/
def splitFaceBody (k : Kernel) (fh vh : Nat) : Kernel :=
  let r := [0, 1].foldl (splitFaceSide fh vh) (k, [])
  r.2.foldl readdCell4 (r.1.deleteFace fh)

/-- `split_face(fh, vh)` (cc:450-483) -/
def splitFaceAt (k0 : Kernel) (fh vh : Nat) : Kernel :=
  ((if !k0.deferred then k0.enableDeferred true else k0).splitFaceBody fh vh).enableDeferred k0.deferred

/-- `TetrahedralGeometryKernel::split_edge(heh, alpha)`: new vertex, then the topological split -/
def splitEdge (k : Kernel) (heh : Nat) : Kernel × Nat :=
  let r := k.addVertex
  (r.1.splitEdgeAt heh r.2, r.2)

/-- `TetrahedralGeometryKernel::split_face(fh, pos)` -/
def splitFace (k : Kernel) (fh : Nat) : Kernel × Nat :=
  let r := k.addVertex
  (r.1.splitFaceAt fh r.2, r.2)

/-! ### the driver vocabulary of `harness/tet_drv.cc` -/
inductive TetOp where
  | base (op : Op)
  | addHalfedge (a b : Nat)
  | addHalffaceHe (chk : Bool) (hes : List Nat)
  | addHalfface3 (chk : Bool) (a b c : Nat)
  | addCellV (chk : Bool) (vs : List Nat)
  | addCell4 (chk : Bool) (a b c d : Nat)
  | collapse (h : Nat)
  | probeMode (d f : Bool)
  | splitEdge (h : Nat)
  | splitFace (f : Nat)
deriving Repr, DecidableEq

/-- the transition and the returned handle (−1 invalid; −2 what a refused `add_halfface` returns) -/
def stepTetX (k : Kernel) : TetOp → Kernel × Int
  | .base op => k.stepTet op
  | .addHalfedge a b => let r := k.tetAddHalfedge a b; (r.1, r.2)
  | .addHalffaceHe chk hes => let r := k.tetAddHalfface hes chk; (r.1, match r.2 with | some h => (h : Int) | none => -2)
  | .addHalfface3 chk a b c => let r := k.tetAddHalfface3 a b c chk; (r.1, match r.2 with | some h => (h : Int) | none => -2)
  | .addCellV chk vs => let r := k.tetAddCellV vs chk; (r.1, optH r.2)
  | .addCell4 chk a b c d => let r := k.tetAddCell4 a b c d chk; (r.1, optH r.2)
  | .collapse h => let r := k.collapseEdge h; (r.1, r.2)
  | .probeMode d f => ((k.enableDeferred d).enableFast f, 0)
  | .splitEdge h => let r := k.splitEdge h; (r.1, r.2)
  | .splitFace f => let r := k.splitFace f; (r.1, r.2)

end Kernel
end OVM

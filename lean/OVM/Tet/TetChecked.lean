import OVM.Tet.TetCells
/-
  C15(a): `add_cell(halffaces)` of the tetrahedral kernel after 64c6d58 (four halffaces, each a triangle, spanning
  exactly four vertices).
  * an ACCEPTED call (any `topologyCheck`) on halffaces that are closed loops stores a cell with exactly four
    distinct vertices (`tetAddCell_fourVerts`); without the loop hypothesis the count of 64c6d58 (end points of the
    halfedges) and the vertices of the cell (start points) can differ — witness in Props/C15.lean;
  * with `topologyCheck = true`, closed loops, and no two different halfedges of the cell on the same ordered vertex
    pair (`NoParallel`: no duplicate edges inside the cell), the new cell is `IsTet` — four triangles on four
    vertices with every halfedge matched once by its opposite ARE the boundary of a tetrahedron
    (`tetAddCell_checked_isTet`).  The combinatorial core is decided over `Fin 4` (`fin_tet`: 64 · 24 · 24 cases
    after pruning).  `NoParallel` cannot be dropped: two triangle pairs on (0,1,2) and (0,1,3) through a DUPLICATE
    edge 0–1 are accepted with topology check (witness in Props/C15.lean; the real `tet_vertices` still crashes on it).
-/
namespace OVM
namespace Kernel

/-! ### the finite core -/

abbrev T4 := Fin 4 × Fin 4 × Fin 4
def t4ok (t : T4) : Bool := t.1 != t.2.1 && t.2.1 != t.2.2 && t.2.2 != t.1
def t4prs (t : T4) : List (Fin 4 × Fin 4) := [(t.1, t.2.1), (t.2.1, t.2.2), (t.2.2, t.1)]
def t4rot (t u : T4) : Bool := t == u || t == (u.2.1, u.2.2, u.1) || t == (u.2.2, u.1, u.2.1)
def t4cover (t1 t2 t3 : T4) : Bool :=
  let want : List T4 := [(1, 0, 3), (2, 1, 3), (0, 2, 3)]
  [t1, t2, t3].all (fun t => want.any (t4rot t)) && want.all (fun w => [t1, t2, t3].any (fun t => t4rot t w))
def t4nd (l : List (Fin 4 × Fin 4)) : Bool := decide l.Nodup

/-- four directed triangles on four points, the first one `(0,1,2)`, whose twelve ordered pairs are pairwise
    different and closed under reversal: the other three are `(1,0,3)`, `(2,1,3)`, `(0,2,3)` up to rotation -/
theorem fin_tet : ∀ a1 b1 c1 : Fin 4, (t4ok (a1, b1, c1) && t4nd (t4prs (0, 1, 2) ++ t4prs (a1, b1, c1))) = true →
    ∀ a2 b2 c2 : Fin 4, (t4ok (a2, b2, c2) && t4nd (t4prs (0, 1, 2) ++ t4prs (a1, b1, c1) ++ t4prs (a2, b2, c2))) = true →
    ∀ a3 b3 c3 : Fin 4, (t4ok (a3, b3, c3) &&
      t4nd (t4prs (0, 1, 2) ++ t4prs (a1, b1, c1) ++ t4prs (a2, b2, c2) ++ t4prs (a3, b3, c3))) = true →
    ((t4prs (0, 1, 2) ++ t4prs (a1, b1, c1) ++ t4prs (a2, b2, c2) ++ t4prs (a3, b3, c3)).all
      (fun p => (t4prs (0, 1, 2) ++ t4prs (a1, b1, c1) ++ t4prs (a2, b2, c2) ++ t4prs (a3, b3, c3)).contains (p.2, p.1))) = true →
    t4cover (a1, b1, c1) (a2, b2, c2) (a3, b3, c3) = true := by decide +kernel

/-! ### the same over vertex handles -/


theorem t4rot_sound (D : Fin 4 → Nat) (i j l a b c : Fin 4) (h : t4rot (i, j, l) (a, b, c) = true) :
    Rot [D i, D j, D l] [D a, D b, D c] := by
  unfold t4rot at h
  simp only [Bool.or_eq_true, beq_iff_eq, Prod.mk.injEq] at h
  rw [rot_three]
  rcases h with (⟨rfl, rfl, rfl⟩ | ⟨rfl, rfl, rfl⟩) | ⟨rfl, rfl, rfl⟩
  · exact Or.inl rfl
  · exact Or.inr (Or.inl rfl)
  · exact Or.inr (Or.inr rfl)

theorem tet_classify {p q r s u1 v1 w1 u2 v2 w2 u3 v3 w3 : Nat} (hd : [p, q, r, s].Nodup)
    (hin : ∀ x ∈ [u1, v1, w1, u2, v2, w2, u3, v3, w3], x ∈ [p, q, r, s])
    (hnd : (prsN p q r ++ prsN u1 v1 w1 ++ prsN u2 v2 w2 ++ prsN u3 v3 w3).Nodup)
    (hrev : ∀ pr ∈ prsN p q r ++ prsN u1 v1 w1 ++ prsN u2 v2 w2 ++ prsN u3 v3 w3,
      (pr.2, pr.1) ∈ prsN p q r ++ prsN u1 v1 w1 ++ prsN u2 v2 w2 ++ prsN u3 v3 w3)
    (hns : ∀ pr ∈ prsN p q r ++ prsN u1 v1 w1 ++ prsN u2 v2 w2 ++ prsN u3 v3 w3, pr.1 ≠ pr.2) :
    (∀ c ∈ [[u1, v1, w1], [u2, v2, w2], [u3, v3, w3]], ∃ t ∈ [[q, p, s], [r, q, s], [p, r, s]], Rot c t) ∧
    (∀ t ∈ [[q, p, s], [r, q, s], [p, r, s]], ∃ c ∈ [[u1, v1, w1], [u2, v2, w2], [u3, v3, w3]], Rot c t) := by
  -- index the four vertices
  let D : Fin 4 → Nat := fun i => [p, q, r, s][i.val]'(by simp)
  have Dinj : ∀ i j : Fin 4, D i = D j → i = j := fun i j h => Fin.ext ((List.getElem_inj hd).mp h)
  have idx : ∀ x ∈ [p, q, r, s], ∃ i : Fin 4, D i = x := by
    intro x hx
    obtain ⟨i, hi, e⟩ := List.getElem_of_mem hx
    exact ⟨⟨i, by simpa using hi⟩, e⟩
  have D0 : D 0 = p := rfl
  have D1 : D 1 = q := rfl
  have D2 : D 2 = r := rfl
  have D3 : D 3 = s := rfl
  obtain ⟨a1, rfl⟩ := idx u1 (hin _ (by simp)); obtain ⟨b1, rfl⟩ := idx v1 (hin _ (by simp))
  obtain ⟨c1, rfl⟩ := idx w1 (hin _ (by simp)); obtain ⟨a2, rfl⟩ := idx u2 (hin _ (by simp))
  obtain ⟨b2, rfl⟩ := idx v2 (hin _ (by simp)); obtain ⟨c2, rfl⟩ := idx w2 (hin _ (by simp))
  obtain ⟨a3, rfl⟩ := idx u3 (hin _ (by simp)); obtain ⟨b3, rfl⟩ := idx v3 (hin _ (by simp))
  obtain ⟨c3, rfl⟩ := idx w3 (hin _ (by simp))
  rw [← D0, ← D1, ← D2] at hnd hrev hns
  -- the pair list is the image of the index pair list
  let Dp : Fin 4 × Fin 4 → Nat × Nat := fun x => (D x.1, D x.2)
  have hmap : ∀ a b c : Fin 4, prsN (D a) (D b) (D c) = (t4prs (a, b, c)).map Dp := fun _ _ _ => rfl
  have hall : prsN (D 0) (D 1) (D 2) ++ prsN (D a1) (D b1) (D c1) ++ prsN (D a2) (D b2) (D c2) ++ prsN (D a3) (D b3) (D c3) =
      (t4prs (0, 1, 2) ++ t4prs (a1, b1, c1) ++ t4prs (a2, b2, c2) ++ t4prs (a3, b3, c3)).map Dp := by
    simp only [hmap, List.map_append]
  rw [hall] at hnd hrev hns
  have ndF := nodup_of_map' Dp _ hnd
  have nsF : ∀ x ∈ t4prs (0, 1, 2) ++ t4prs (a1, b1, c1) ++ t4prs (a2, b2, c2) ++ t4prs (a3, b3, c3), x.1 ≠ x.2 :=
    fun x hx e => hns (Dp x) (List.mem_map.mpr ⟨x, hx, rfl⟩) (by show D x.1 = D x.2; rw [e])
  have revF : ∀ x ∈ t4prs (0, 1, 2) ++ t4prs (a1, b1, c1) ++ t4prs (a2, b2, c2) ++ t4prs (a3, b3, c3),
      (x.2, x.1) ∈ t4prs (0, 1, 2) ++ t4prs (a1, b1, c1) ++ t4prs (a2, b2, c2) ++ t4prs (a3, b3, c3) := by
    intro x hx
    have := hrev (Dp x) (List.mem_map.mpr ⟨x, hx, rfl⟩)
    obtain ⟨y, hy, e⟩ := List.mem_map.mp this
    have e1 : y.1 = x.2 := Dinj _ _ (congrArg Prod.fst e)
    have e2 : y.2 = x.1 := Dinj _ _ (congrArg Prod.snd e)
    have : y = (x.2, x.1) := Prod.ext e1 e2
    rw [← this]; exact hy
  have okOf : ∀ a b c : Fin 4, (∀ x ∈ t4prs (a, b, c), x.1 ≠ x.2) → t4ok (a, b, c) = true := by
    intro a b c h
    unfold t4ok
    simp only [Bool.and_eq_true, bne_iff_ne, ne_eq]
    exact ⟨⟨h (a, b) (by simp [t4prs]), h (b, c) (by simp [t4prs])⟩, h (c, a) (by simp [t4prs])⟩
  have nd3 : (t4prs (0, 1, 2) ++ t4prs (a1, b1, c1) ++ t4prs (a2, b2, c2)).Nodup := ndF.sublist (List.sublist_append_left _ _)
  have nd2 : (t4prs (0, 1, 2) ++ t4prs (a1, b1, c1)).Nodup := nd3.sublist (List.sublist_append_left _ _)
  have mem4 : ∀ x, x ∈ t4prs (0, 1, 2) ++ t4prs (a1, b1, c1) ++ t4prs (a2, b2, c2) ++ t4prs (a3, b3, c3) ↔
      (x ∈ t4prs (0, 1, 2) ∨ x ∈ t4prs (a1, b1, c1) ∨ x ∈ t4prs (a2, b2, c2) ∨ x ∈ t4prs (a3, b3, c3)) := by
    intro x; simp only [List.mem_append, or_assoc]
  have hcov := fin_tet a1 b1 c1
    (by rw [Bool.and_eq_true]
        exact ⟨okOf _ _ _ (fun x hx => nsF x ((mem4 x).mpr (Or.inr (Or.inl hx)))), by unfold t4nd; exact decide_eq_true nd2⟩)
    a2 b2 c2
    (by rw [Bool.and_eq_true]
        exact ⟨okOf _ _ _ (fun x hx => nsF x ((mem4 x).mpr (Or.inr (Or.inr (Or.inl hx))))), by unfold t4nd; exact decide_eq_true nd3⟩)
    a3 b3 c3
    (by rw [Bool.and_eq_true]
        exact ⟨okOf _ _ _ (fun x hx => nsF x ((mem4 x).mpr (Or.inr (Or.inr (Or.inr hx))))), by unfold t4nd; exact decide_eq_true ndF⟩)
    (by rw [List.all_eq_true]; intro x hx; simpa using revF x hx)
  unfold t4cover at hcov
  simp only [List.all_cons, List.all_nil, List.any_cons, List.any_nil, Bool.and_true, Bool.or_false,
    Bool.and_eq_true, Bool.or_eq_true] at hcov
  obtain ⟨⟨h1, h2, h3⟩, g1, g2, g3⟩ := hcov
  have S := t4rot_sound D
  constructor
  · intro c hc
    simp only [List.mem_cons, List.not_mem_nil, or_false] at hc
    rcases hc with rfl | rfl | rfl
    · rcases h1 with h | h | h
      · exact ⟨_, by simp [D0, D1, D2, D3], S _ _ _ _ _ _ h⟩
      · exact ⟨_, by simp [D0, D1, D2, D3], S _ _ _ _ _ _ h⟩
      · exact ⟨_, by simp [D0, D1, D2, D3], S _ _ _ _ _ _ h⟩
    · rcases h2 with h | h | h
      · exact ⟨_, by simp [D0, D1, D2, D3], S _ _ _ _ _ _ h⟩
      · exact ⟨_, by simp [D0, D1, D2, D3], S _ _ _ _ _ _ h⟩
      · exact ⟨_, by simp [D0, D1, D2, D3], S _ _ _ _ _ _ h⟩
    · rcases h3 with h | h | h
      · exact ⟨_, by simp [D0, D1, D2, D3], S _ _ _ _ _ _ h⟩
      · exact ⟨_, by simp [D0, D1, D2, D3], S _ _ _ _ _ _ h⟩
      · exact ⟨_, by simp [D0, D1, D2, D3], S _ _ _ _ _ _ h⟩
  · intro t ht
    simp only [List.mem_cons, List.not_mem_nil, or_false] at ht
    rcases ht with rfl | rfl | rfl
    · rcases g1 with h | h | h
      · exact ⟨_, by simp [D0, D1, D2, D3], S _ _ _ _ _ _ h⟩
      · exact ⟨_, by simp [D0, D1, D2, D3], S _ _ _ _ _ _ h⟩
      · exact ⟨_, by simp [D0, D1, D2, D3], S _ _ _ _ _ _ h⟩
    · rcases g2 with h | h | h
      · exact ⟨_, by simp [D0, D1, D2, D3], S _ _ _ _ _ _ h⟩
      · exact ⟨_, by simp [D0, D1, D2, D3], S _ _ _ _ _ _ h⟩
      · exact ⟨_, by simp [D0, D1, D2, D3], S _ _ _ _ _ _ h⟩
    · rcases g3 with h | h | h
      · exact ⟨_, by simp [D0, D1, D2, D3], S _ _ _ _ _ _ h⟩
      · exact ⟨_, by simp [D0, D1, D2, D3], S _ _ _ _ _ _ h⟩
      · exact ⟨_, by simp [D0, D1, D2, D3], S _ _ _ _ _ _ h⟩

/-! ### the kernel level -/

/-- no two different halfedges of the halffaces run between the same ordered pair of vertices (no duplicate edge and
    no edge from a vertex to itself inside the cell) -/
def NoParallel (k : Kernel) (hfs : List Nat) : Prop :=
  ∀ h ∈ k.cellHalfedges hfs, ∀ h' ∈ k.cellHalfedges hfs, k.fromV h = k.fromV h' → k.toV h = k.toV h' → h = h'

instance (k : Kernel) (hfs : List Nat) : Decidable (NoParallel k hfs) := by unfold NoParallel; infer_instance

/-- the guard 4614b67 of the tet `add_cell(halffaces)` (`Kernel.noParallel`: the ordered end point pairs of the halfedges
    are pairwise different, as a list) gives `NoParallel` and that the halfedges themselves are pairwise different -/
theorem noParallel_spec {k : Kernel} {hfs : List Nat} (h : k.noParallel hfs = true) :
    NoParallel k hfs ∧ (k.cellHalfedges hfs).Nodup := by
  unfold noParallel at h
  rw [decide_eq_true_eq] at h
  refine ⟨fun x hx y hy e1 e2 => ?_, nodup_of_map' _ _ h⟩
  exact nodup_map_inj (fun h => (k.fromV h, k.toV h)) _ h x hx y hy (Prod.ext e1 e2)

/-- what an accepted `add_cell(halffaces)` of the tet kernel has checked (64c6d58) -/
theorem tetAddCell_accepted {k : Kernel} {hfs : List Nat} {chk : Bool} {c : Nat} (h : (k.tetAddCell hfs chk).2 = some c) :
    c = k.nC ∧ hfs.length = 4 ∧ (k.spanVertCount hfs = 4 ∧ k.noParallel hfs = true) ∧ k.addCellAccepts hfs chk = true ∧
    (k.tetAddCell hfs chk).1 = k.addCellCore hfs := by
  unfold tetAddCell at h ⊢
  split at h
  · cases h
  · rename_i h4
    split at h
    · cases h
    · split at h
      · cases h
      · rename_i _ hs
        unfold addCell at h ⊢
        split at h
        · rename_i hacc
          simp only [Option.some.injEq] at h
          refine ⟨h.symm, by simpa using h4, by simpa using hs, hacc, ?_⟩
          simp only [hacc, if_true]
          split
          · rename_i hx; exact absurd hx h4
          · first
            | rfl
            | (split
               · rename_i hx; rename_i h3 _; exact absurd hx h3
               · first
                 | rfl
                 | (split
                    · rename_i hx; exact absurd hx hs
                    · rfl))
        · cases h

/-- **an accepted `add_cell(halffaces)` (any `topologyCheck`) on halffaces that are closed loops stores a cell with
    exactly four distinct vertices** -/
theorem tetAddCell_fourVerts {k : Kernel} {hfs : List Nat} {chk : Bool} {c : Nat} (h : (k.tetAddCell hfs chk).2 = some c)
    (hl : ∀ hf ∈ hfs, Loop3 k (k.hfHes hf)) :
    ((k.tetAddCell hfs chk).1.cellAt c).length = 4 ∧ ((k.tetAddCell hfs chk).1.cellVertSet c).length = 4 := by
  obtain ⟨rfl, h4, hs, _, e⟩ := tetAddCell_accepted h
  rw [e]
  have hca := cellAt_new k hfs
  refine ⟨by rw [hca]; exact h4, ?_⟩
  unfold cellVertSet
  rw [hca]
  have hv : hfs.flatMap (k.addCellCore hfs).hfVerts = hfs.flatMap k.hfVerts :=
    k4_flatMap_congr (fun x _ => hfVerts_of_eq (by simp) (by simp) x)
  rw [hv, ← hs.1]
  unfold spanVertCount
  apply List.Perm.length_eq
  apply (List.perm_ext_iff_of_nodup (toSet_nodup _) (toSet_nodup _)).mpr
  intro x
  rw [mem_toSet, mem_toSet, mem_span_iff hl]

/-- **with topology check and closed loops, an accepted `add_cell(halffaces)` of the tet kernel stores a tetrahedron**
    (64c6d58 + 4614b67): four triangles spanning four vertices whose twelve halfedges run through twelve different
    ordered vertex pairs and are matched by their opposites are the boundary of a tetrahedron -/
theorem tetAddCell_checked_isTet {k : Kernel} {hfs : List Nat} {c : Nat} (h : (k.tetAddCell hfs true).2 = some c)
    (hl : ∀ hf ∈ hfs, Loop3 k (k.hfHes hf)) : IsTet (k.tetAddCell hfs true).1 c := by
  obtain ⟨rfl, h4, ⟨hs, hpar⟩, hacc, e⟩ := tetAddCell_accepted h
  have hnp := (noParallel_spec hpar).1
  rw [e]
  have hcs : ClosedSurface k hfs := by
    apply (cellCheck_iff k hfs).mp
    unfold addCellAccepts at hacc; simp at hacc; exact hacc.2
  obtain ⟨hnd, hopp⟩ := hcs
  match hfs, h4 with
  | [f0, f1, f2, f3], _ =>
    obtain ⟨x0, y0, z0, e0, a0, b0, c0⟩ := loop3_elim (hl f0 (by simp))
    obtain ⟨x1, y1, z1, e1, a1, b1, c1⟩ := loop3_elim (hl f1 (by simp))
    obtain ⟨x2, y2, z2, e2, a2, b2, c2⟩ := loop3_elim (hl f2 (by simp))
    obtain ⟨x3, y3, z3, e3, a3, b3, c3⟩ := loop3_elim (hl f3 (by simp))
    have hCH : k.cellHalfedges [f0, f1, f2, f3] = [x0, y0, z0] ++ [x1, y1, z1] ++ [x2, y2, z2] ++ [x3, y3, z3] := by
      unfold cellHalfedges; simp [e0, e1, e2, e3]
    -- the ordered vertex pairs of the twelve halfedges
    have hPL : (k.cellHalfedges [f0, f1, f2, f3]).map (fun h => (k.fromV h, k.toV h)) =
        prsN (k.fromV x0) (k.fromV y0) (k.fromV z0) ++ prsN (k.fromV x1) (k.fromV y1) (k.fromV z1) ++
        prsN (k.fromV x2) (k.fromV y2) (k.fromV z2) ++ prsN (k.fromV x3) (k.fromV y3) (k.fromV z3) := by
      rw [hCH, List.map_append, List.map_append, List.map_append, pairs_of_loop a0 b0 c0, pairs_of_loop a1 b1 c1,
        pairs_of_loop a2 b2 c2, pairs_of_loop a3 b3 c3]
    have pnd : ((k.cellHalfedges [f0, f1, f2, f3]).map (fun h => (k.fromV h, k.toV h))).Nodup :=
      nodup_map_on' _ _ (fun x hx y hy e => hnp x hx y hy (congrArg Prod.fst e) (congrArg Prod.snd e)) hnd
    have prev : ∀ pr ∈ (k.cellHalfedges [f0, f1, f2, f3]).map (fun h => (k.fromV h, k.toV h)),
        (pr.2, pr.1) ∈ (k.cellHalfedges [f0, f1, f2, f3]).map (fun h => (k.fromV h, k.toV h)) := by
      intro pr hpr
      obtain ⟨g, hg, rfl⟩ := List.mem_map.mp hpr
      exact List.mem_map.mpr ⟨opp g, hopp g hg, by rw [Lookup.fromV_opp, Lookup.toV_opp]⟩
    have pns : ∀ pr ∈ (k.cellHalfedges [f0, f1, f2, f3]).map (fun h => (k.fromV h, k.toV h)), pr.1 ≠ pr.2 := by
      intro pr hpr e
      obtain ⟨g, hg, rfl⟩ := List.mem_map.mp hpr
      simp only at e
      have := hnp (opp g) (hopp g hg) g hg (by rw [Lookup.fromV_opp, e]) (by rw [Lookup.toV_opp, e])
      exact CellCheck.opp_ne g this
    rw [hPL] at pnd prev pns
    -- names for the vertices
    generalize hp : k.fromV x0 = p at *
    generalize hq : k.fromV y0 = q at *
    generalize hr : k.fromV z0 = r at *
    have hpq : p ≠ q := pns (p, q) (by simp [prsN])
    have hqr : q ≠ r := pns (q, r) (by simp [prsN])
    have hrp : r ≠ p := pns (r, p) (by simp [prsN])
    -- the vertex cycles
    have V0 : k.hfVerts f0 = [p, q, r] := by unfold hfVerts; rw [e0]; simp [hp, hq, hr]
    have V1 : k.hfVerts f1 = [k.fromV x1, k.fromV y1, k.fromV z1] := by unfold hfVerts; rw [e1]; rfl
    have V2 : k.hfVerts f2 = [k.fromV x2, k.fromV y2, k.fromV z2] := by unfold hfVerts; rw [e2]; rfl
    have V3 : k.hfVerts f3 = [k.fromV x3, k.fromV y3, k.fromV z3] := by unfold hfVerts; rw [e3]; rfl
    -- the fourth vertex
    have hspan : ∀ x, x ∈ toSet (((([f0, f1, f2, f3] : List Nat).flatMap k.hfHes).flatMap (fun he => [k.fromV he, k.toV he]))) ↔
        x ∈ [p, q, r, k.fromV x1, k.fromV y1, k.fromV z1, k.fromV x2, k.fromV y2, k.fromV z2, k.fromV x3, k.fromV y3, k.fromV z3] := by
      intro x
      rw [mem_toSet, mem_span_iff hl]
      simp only [List.flatMap_cons, List.flatMap_nil, V0, V1, V2, V3, List.append_nil, List.mem_append, List.mem_cons,
        List.not_mem_nil, or_false, or_assoc]
    have hSn : (toSet ((([f0, f1, f2, f3] : List Nat).flatMap k.hfHes).flatMap (fun he => [k.fromV he, k.toV he]))).Nodup :=
      toSet_nodup _
    have hSl : (toSet ((([f0, f1, f2, f3] : List Nat).flatMap k.hfHes).flatMap (fun he => [k.fromV he, k.toV he]))).length = 4 := hs
    generalize toSet ((([f0, f1, f2, f3] : List Nat).flatMap k.hfHes).flatMap (fun he => [k.fromV he, k.toV he])) = S at hspan hSn hSl
    have hs4 : ∃ s ∈ S, s ∉ [p, q, r] := by
      apply Classical.byContradiction
      intro hno
      have hsub : ∀ x ∈ S, x ∈ [p, q, r] := fun x hx => Classical.byContradiction (fun hn => hno ⟨x, hx, hn⟩)
      have := (ScanDel.perm_of_nodup_subset_length hSn hsub (by rw [hSl]; simp)).length_eq
      rw [hSl] at this; simp at this
    obtain ⟨s, hsS, hsn⟩ := hs4
    have hd : [p, q, r, s].Nodup := by
      simp only [List.mem_cons, List.not_mem_nil, or_false, not_or] at hsn
      simp only [List.nodup_cons, List.mem_cons, List.not_mem_nil, or_false, not_or, List.nodup_nil, and_true]
      exact ⟨⟨hpq, fun e => hrp e.symm, fun e => hsn.1 e.symm⟩, ⟨hqr, fun e => hsn.2.1 e.symm⟩, fun e => hsn.2.2 e.symm, not_false⟩
    have hall : ∀ x ∈ S, x ∈ [p, q, r, s] := by
      have hp4 := ScanDel.perm_of_nodup_subset_length hd (m := S) (by
        intro x hx
        simp only [List.mem_cons, List.not_mem_nil, or_false] at hx
        rcases hx with rfl | rfl | rfl | rfl
        · exact (hspan _).mpr (by simp)
        · exact (hspan _).mpr (by simp)
        · exact (hspan _).mpr (by simp)
        · exact hsS) (by rw [hSl]; simp)
      exact fun x hx => hp4.mem_iff.mpr hx
    have hin : ∀ x ∈ [k.fromV x1, k.fromV y1, k.fromV z1, k.fromV x2, k.fromV y2, k.fromV z2, k.fromV x3, k.fromV y3, k.fromV z3],
        x ∈ [p, q, r, s] := by
      intro x hx
      apply hall x ((hspan x).mpr ?_)
      simp only [List.mem_cons, List.not_mem_nil, or_false] at hx ⊢
      rcases hx with e | e | e | e | e | e | e | e | e <;> simp [e]
    obtain ⟨cov1, cov2⟩ := tet_classify hd hin pnd prev pns
    -- assemble `TetOn` in the new state
    have hv : ∀ x, (k.addCellCore [f0, f1, f2, f3]).hfVerts x = k.hfVerts x := fun x => hfVerts_of_eq (by simp) (by simp) x
    have hca := cellAt_new k [f0, f1, f2, f3]
    apply isTet_of_tetOn (p := p) (q := q) (r := r) (s := s)
    · rw [hca]; simp only [List.headD_cons]; rw [hv, V0]
    · rw [hca]
      apply tetOn_of_cover hd rfl
      · intro f hf
        simp only [List.mem_cons, List.not_mem_nil, or_false] at hf
        rcases hf with rfl | rfl | rfl | rfl
        · exact ⟨[p, q, r], by simp [tris], by rw [hv, V0]; exact Or.inl rfl⟩
        · obtain ⟨t, ht, hrot⟩ := cov1 _ (by simp : [k.fromV x1, k.fromV y1, k.fromV z1] ∈ _)
          exact ⟨t, by simp only [List.mem_cons, List.not_mem_nil, or_false] at ht; rcases ht with rfl | rfl | rfl <;> simp [tris],
            by rw [hv, V1]; exact hrot⟩
        · obtain ⟨t, ht, hrot⟩ := cov1 _ (by simp : [k.fromV x2, k.fromV y2, k.fromV z2] ∈ _)
          exact ⟨t, by simp only [List.mem_cons, List.not_mem_nil, or_false] at ht; rcases ht with rfl | rfl | rfl <;> simp [tris],
            by rw [hv, V2]; exact hrot⟩
        · obtain ⟨t, ht, hrot⟩ := cov1 _ (by simp : [k.fromV x3, k.fromV y3, k.fromV z3] ∈ _)
          exact ⟨t, by simp only [List.mem_cons, List.not_mem_nil, or_false] at ht; rcases ht with rfl | rfl | rfl <;> simp [tris],
            by rw [hv, V3]; exact hrot⟩
      · intro t ht
        simp only [tris, List.mem_cons, List.not_mem_nil, or_false] at ht
        have key : ∀ t', t' ∈ [[q, p, s], [r, q, s], [p, r, s]] → ∃ f ∈ [f0, f1, f2, f3], Rot ((k.addCellCore [f0, f1, f2, f3]).hfVerts f) t' := by
          intro t' ht'
          obtain ⟨cy, hcy, hrot⟩ := cov2 t' ht'
          simp only [List.mem_cons, List.not_mem_nil, or_false] at hcy
          rcases hcy with rfl | rfl | rfl
          · exact ⟨f1, by simp, by rw [hv, V1]; exact hrot⟩
          · exact ⟨f2, by simp, by rw [hv, V2]; exact hrot⟩
          · exact ⟨f3, by simp, by rw [hv, V3]; exact hrot⟩
        rcases ht with rfl | rfl | rfl | rfl
        · exact ⟨f0, by simp, by rw [hv, V0]; exact Or.inl rfl⟩
        · exact key _ (by simp)
        · exact key _ (by simp)
        · exact key _ (by simp)

end Kernel
end OVM

import OVM.Tet.TetBuild
import OVM.Tet.Collapse
/-
  C15(a), the history theorem for the WHOLE driver vocabulary `TetOp` (OVM/Tet/Collapse.lean,
  `harness/tet_drv.cc`) and EVERY deletion mode:

      TInv k  :=  ValenceShape k ∧ Global.GInv k

  is kept by every `stepTetX` whose arguments are valid (`TetOpOK`), hence by every admissible history
  (`tinv_run`), in particular from the empty mesh.  No clause assumes a bottom-up cache to be enabled, and
  none assumes the stored faces to be closed loops.

  * base vocabulary with the three overrides: `Global.shape_stepTet` (OVM/Tet/ShapeAll.lean) and K5's
    `Global.ginv_step` (OVM/Refine/GlobalStep.lean) — a refused override returns the state it was given;
  * the reuse-or-create conveniences (`add_halfedge`, `add_halfface`, `add_cell(vertices)`,
    `add_cell(v0..v3)`): new here — they keep `GInv` for valid (in range, not deleted) arguments, return valid
    handles, and only extend the state (`Ext`); the final `add_cell` needs K5's precondition of `add_cell`
    (the four halffaces free and pairwise different), stated as the decidable side conditions `Cell4Free` /
    `CellVFree` on the intermediate state;
  * `collapse_edge`, `split_edge`, `split_face`: the shape part is proved; the `GInv` part of the state just
    before the call switches back to the caller's deletion mode is an explicit GAP hypothesis of `TetOpOK`
    (`collapsePre`, `splitEdgePre`, `splitFacePre`), see the docstring of `TetOpOK`.
-/
namespace OVM
namespace Kernel
open Global

/-! ### small transfer lemmas -/

/-- raising the ghost `fault` flag changes nothing the invariants read -/
theorem ginv_fault {k : Kernel} (b : Bool) (hi : GInv k) : GInv ({ k with fault := b } : Kernel) :=
  ginv_of_same (k := k) (k' := { k with fault := b })
    (wf_of_fans_perm (k := k) (k' := { k with fault := b }) rfl rfl rfl rfl rfl rfl rfl rfl rfl rfl rfl rfl rfl rfl rfl
      (fun _ => List.Perm.refl _) hi.wf)
    (oneCell_of_same (k := k) (k' := { k with fault := b }) rfl rfl rfl hi.one)
    rfl rfl rfl rfl rfl rfl rfl rfl rfl rfl rfl rfl rfl hi

theorem ext_fault (k : Kernel) (b : Bool) : Ext k ({ k with fault := b } : Kernel) :=
  ⟨rfl, rfl, ⟨[], by simp⟩, ⟨[], by simp⟩, fun _ _ => rfl, fun _ _ => rfl, rfl, rfl, rfl, rfl, rfl, rfl⟩

theorem ext_addEdge (k : Kernel) (a b : Nat) (d : Bool) : Ext k (k.addEdge a b d).1 := by
  unfold addEdge; split
  · exact Ext.refl k
  · exact ext_addEdgeCore k a b

theorem eOf_heOf (e s : Nat) (hs : s ≤ 1) : eOf (heOf e s) = e := by unfold eOf heOf; omega

/-- the halfedges of the edge `add_edge` returns are valid handles of the new state -/
theorem addEdge_result_heOk {k : Kernel} {a b : Nat} (d : Bool) (hi : GInv k) (ha : VOk k a) (s : Nat) (hs : s ≤ 1) :
    HeOk (k.addEdge a b d).1 (heOf (k.addEdge a b d).2 s) := by
  have h1 := addEdge_result_lt k a b d hi.wf ha.1
  have h2 := addEdge_result_live k a b d hi.wf ha.1
  refine ⟨?_, by rw [eOf_heOf _ _ hs]; exact h2⟩
  unfold heOf nHE; unfold nE at h1; omega

/-! ### the lookups return valid handles (they can only succeed through an enabled cache) -/

theorem findHalfedge_ok {k : Kernel} (hi : GInv k) {a b h : Nat} (ha : a < k.nV) (hf : k.findHalfedge a b = some h) :
    HeOk k h := by
  have hb : k.vBU = true := by
    cases hv : k.vBU
    · unfold findHalfedge qVOH at hf; simp [hv] at hf
    · rfl
  obtain ⟨h1, h2, _, _⟩ := OVM.Props.C10.findHalfedge_sound k hi.wf.cache hb a b h ha hf
  refine ⟨h1, ?_⟩
  unfold liveE at h2; simp at h2; exact h2.2

theorem findHalffaceHes_ok {k : Kernel} (hi : GInv k) {he0 he1 hf : Nat} (h0 : he0 < k.nHE)
    (hfd : k.findHalffaceHes he0 he1 = some hf) : HfOk k hf := by
  have hb : k.eBU = true := by
    cases hv : k.eBU
    · unfold findHalffaceHes qHEHF at hfd; simp [hv] at hfd
    · rfl
  obtain ⟨h1, h2, _, _⟩ := OVM.Props.C10.findHalffaceHes_sound k hi.wf.cache hb he0 he1 hf h0 hfd
  refine ⟨h1, ?_⟩
  unfold liveF at h2; simp at h2; exact h2.2

theorem findHalffaceV_ok {k : Kernel} (hi : GInv k) {vs : List Nat} (hv : ∀ v ∈ vs, v < k.nV) {hf : Nat}
    (hfd : k.findHalffaceV vs = some hf) : HfOk k hf := by
  unfold findHalffaceV at hfd
  split at hfd
  · rename_i v0 v1 v2 rest
    split at hfd
    · rename_i he0 he1 e0 _
      exact findHalffaceHes_ok hi (findHalfedge_ok hi (hv v0 (by simp)) e0).1 hfd
    · cases hfd
  · cases hfd

/-! ### `add_halfedge` -/

/-- **`add_halfedge(a, b)`** for two valid vertices keeps the global invariant, returns a valid halfedge and only
    extends the state — whatever the deletion mode and the bottom-up configuration -/
theorem tetAddHalfedge_ginv {k : Kernel} {a b : Nat} (hi : GInv k) (ha : VOk k a) (hb : VOk k b) :
    GInv (k.tetAddHalfedge a b).1 ∧ HeOk (k.tetAddHalfedge a b).1 (k.tetAddHalfedge a b).2 ∧
    Ext k (k.tetAddHalfedge a b).1 := by
  unfold tetAddHalfedge
  split
  · rename_i he hf
    exact ⟨hi, findHalfedge_ok hi ha.1 hf, Ext.refl k⟩
  · exact ⟨ginv_addEdge false ha hb hi, addEdge_result_heOk false hi ha 0 (Nat.zero_le _), ext_addEdge k a b false⟩

/-! ### `add_face` / `add_halfface` -/

theorem addFaceCore_new_hfOk {k : Kernel} (hi : GInv k) (hes : List Nat) : HfOk (k.addFaceCore hes) (heOf k.nF 0) := by
  refine ⟨by unfold nHF heOf nF; simp, ?_⟩
  rw [eOf_heOf _ _ (Nat.zero_le _)]
  unfold fDeleted; rw [addFaceCore_fDel]
  rw [List.getD_eq_getElem?_getD, List.getElem?_append_right (by rw [hi.wf.len.fDel]; exact Nat.le_refl _)]
  simp [hi.wf.len.fDel]

/-- `add_face(halfedges)` on valid halfedges: invariant, extension, and side 0 of the new face is valid -/
theorem addFace_spec {k : Kernel} {hes : List Nat} (chk : Bool) (hi : GInv k) (hh : ∀ h ∈ hes, HeOk k h) :
    GInv (k.addFace hes chk).1 ∧ Ext k (k.addFace hes chk).1 ∧
    ∀ f, (k.addFace hes chk).2 = some f → HfOk (k.addFace hes chk).1 (heOf f 0) := by
  refine ⟨ginv_addFace chk hh hi, ?_, ?_⟩
  · unfold addFace; split
    · exact ext_addFaceCore k hes
    · exact Ext.refl k
  · unfold addFace; split
    · intro f hf; cases hf; exact addFaceCore_new_hfOk hi hes
    · intro f hf; cases hf

theorem tetAddFace_spec {k : Kernel} {hes : List Nat} (chk : Bool) (hi : GInv k) (hh : ∀ h ∈ hes, HeOk k h) :
    GInv (k.tetAddFace hes chk).1 ∧ Ext k (k.tetAddFace hes chk).1 ∧
    ∀ f, (k.tetAddFace hes chk).2 = some f → HfOk (k.tetAddFace hes chk).1 (heOf f 0) := by
  unfold tetAddFace; split
  · exact ⟨hi, Ext.refl k, fun f hf => by cases hf⟩
  · exact addFace_spec chk hi hh

/-- **`add_halfface(halfedges, check)`** on valid halfedges keeps the global invariant, returns a valid halfface
    (if any) and only extends the state -/
theorem tetAddHalfface_ginv {k : Kernel} {hes : List Nat} {chk : Bool} (hi : GInv k) (hh : ∀ h ∈ hes, HeOk k h) :
    GInv (k.tetAddHalfface hes chk).1 ∧
    (∀ hf, (k.tetAddHalfface hes chk).2 = some hf → HfOk (k.tetAddHalfface hes chk).1 hf) ∧
    Ext k (k.tetAddHalfface hes chk).1 := by
  unfold tetAddHalfface
  split
  · rename_i he0 he1 rest
    split
    · rename_i hf hfd
      refine ⟨hi, ?_, Ext.refl k⟩
      intro x hx; cases hx
      exact findHalffaceHes_ok hi (hh he0 (by simp)).1 hfd
    · obtain ⟨g, e, r⟩ := tetAddFace_spec chk hi hh
      refine ⟨g, ?_, e⟩
      intro x hx
      simp only [Option.map_eq_some_iff] at hx
      obtain ⟨f, hf, rfl⟩ := hx
      exact r f hf
  · exact ⟨ginv_fault true hi, fun x hx => (by cases hx), ext_fault k true⟩

/-- **`add_halfface(v0, v1, v2, check)`** on three valid vertices -/
theorem tetAddHalfface3_ginv {k : Kernel} {a b c : Nat} {chk : Bool} (hi : GInv k) (ha : VOk k a) (hb : VOk k b)
    (hc : VOk k c) :
    GInv (k.tetAddHalfface3 a b c chk).1 ∧
    (∀ hf, (k.tetAddHalfface3 a b c chk).2 = some hf → HfOk (k.tetAddHalfface3 a b c chk).1 hf) ∧
    Ext k (k.tetAddHalfface3 a b c chk).1 := by
  simp only [tetAddHalfface3]
  obtain ⟨g1, o1, e1⟩ := tetAddHalfedge_ginv hi ha hb
  generalize k.tetAddHalfedge a b = r0 at g1 o1 e1 ⊢
  obtain ⟨g2, o2, e2⟩ := tetAddHalfedge_ginv g1 (e1.vOk hb) (e1.vOk hc)
  generalize r0.1.tetAddHalfedge b c = r1 at g2 o2 e2 ⊢
  have e12 := e1.trans e2
  obtain ⟨g3, o3, e3⟩ := tetAddHalfedge_ginv g2 (e12.vOk hc) (e12.vOk ha)
  generalize r1.1.tetAddHalfedge c a = r2 at g3 o3 e3 ⊢
  obtain ⟨g4, o4, e4⟩ := tetAddHalfface_ginv (hes := [r0.2, r1.2, r2.2]) (chk := chk) g3 (by
    intro h hm
    simp only [List.mem_cons, List.not_mem_nil, or_false] at hm
    rcases hm with rfl | rfl | rfl
    · exact (e2.trans e3).heOk o1
    · exact e3.heOk o2
    · exact o3)
  exact ⟨g4, o4, (e12.trans e3).trans e4⟩

/-! ### `add_face(vertices)` and the find-or-create of `add_cell(vertices)` -/

/-- the edge-collecting loop of `add_face(vertices)` (cc:249-263) -/
theorem addFaceV_fold {k : Kernel} (ps : List (Nat × Nat)) (hps : ∀ p ∈ ps, VOk k p.1 ∧ VOk k p.2) :
    ∀ (st : Kernel × List Nat), GInv st.1 → Ext k st.1 → (∀ x ∈ st.2, HeOk st.1 x) →
    let r := ps.foldl (fun (st : Kernel × List Nat) (ab : Nat × Nat) =>
        ((st.1.addEdge ab.1 ab.2 false).1,
         st.2 ++ [heOf (st.1.addEdge ab.1 ab.2 false).2
           (if (((st.1.addEdge ab.1 ab.2 false).1).edgeAt (st.1.addEdge ab.1 ab.2 false).2).2 == ab.1 then 1 else 0)])) st
    GInv r.1 ∧ Ext k r.1 ∧ (∀ x ∈ r.2, HeOk r.1 x) := by
  induction ps with
  | nil => intro st hg he hx; exact ⟨hg, he, hx⟩
  | cons p ps ih =>
    intro st hg he hx
    simp only [List.foldl_cons]
    have hp := hps p (by simp)
    have e1 := ext_addEdge st.1 p.1 p.2 false
    apply ih (fun q hq => hps q (by simp [hq]))
    · exact ginv_addEdge false (he.vOk hp.1) (he.vOk hp.2) hg
    · exact he.trans e1
    · intro x hm
      simp only [List.mem_append, List.mem_singleton] at hm
      rcases hm with hm | rfl
      · exact e1.heOk (hx x hm)
      · split
        · exact addEdge_result_heOk false hg (he.vOk hp.1) 1 (Nat.le_refl _)
        · exact addEdge_result_heOk false hg (he.vOk hp.1) 0 (Nat.zero_le _)

/-- `add_face(vertices)` on valid vertices: invariant, extension, and side 0 of the new face is valid -/
theorem addFaceV_spec {k : Kernel} {vs : List Nat} (hi : GInv k) (hv : ∀ v ∈ vs, VOk k v) :
    GInv (k.addFaceV vs).1 ∧ Ext k (k.addFaceV vs).1 ∧
    ∀ f, (k.addFaceV vs).2 = some f → HfOk (k.addFaceV vs).1 (heOf f 0) := by
  unfold addFaceV
  cases vs with
  | nil => exact ⟨ginv_fault true hi, ext_fault k true, fun f hf => (by cases hf)⟩
  | cons v0 t =>
    simp only
    have hpairs : ∀ p ∈ (v0 :: t).zip ((v0 :: t).tail ++ [v0]), VOk k p.1 ∧ VOk k p.2 := by
      intro p hp
      have h1 := (List.of_mem_zip hp).1
      have h2 := (List.of_mem_zip hp).2
      refine ⟨hv _ h1, ?_⟩
      simp only [List.tail_cons, List.mem_append, List.mem_singleton] at h2
      rcases h2 with h2 | h2
      · exact hv _ (by simp [h2])
      · rw [h2]; exact hv _ (by simp)
    obtain ⟨hw, he, hx⟩ := addFaceV_fold _ hpairs (k, []) hi (Ext.refl k) (by intro x hx; cases hx)
    obtain ⟨g, e, r⟩ := addFace_spec false hw hx
    exact ⟨g, he.trans e, r⟩

/-- the find-or-create of one face of `add_cell(vertices)` -/
theorem findOrAddFaceV_ginv {k : Kernel} {vs : List Nat} (hi : GInv k) (hv : ∀ v ∈ vs, VOk k v) :
    GInv (k.findOrAddFaceV vs).1 ∧
    (∀ hf, (k.findOrAddFaceV vs).2 = some hf → HfOk (k.findOrAddFaceV vs).1 hf) ∧
    Ext k (k.findOrAddFaceV vs).1 := by
  unfold findOrAddFaceV
  split
  · rename_i hf hfd
    refine ⟨hi, ?_, Ext.refl k⟩
    intro x hx; cases hx
    exact findHalffaceV_ok hi (fun v hm => (hv v hm).1) hfd
  · obtain ⟨g, e, r⟩ := addFaceV_spec hi hv
    refine ⟨g, ?_, e⟩
    intro x hx
    simp only [Option.map_eq_some_iff] at hx
    obtain ⟨f, hf, rfl⟩ := hx
    exact r f hf

/-! ### the two `add_cell` conveniences -/

/-- K5's precondition of `add_cell`: the halffaces are in no live cell and pairwise different -/
def FreeNodup (k : Kernel) (hfs : List Nat) : Prop := (∀ hf ∈ hfs, k.sCellOf hf = none) ∧ hfs.Nodup

instance (k : Kernel) (hfs : List Nat) : Decidable (FreeNodup k hfs) := by unfold FreeNodup; infer_instance

theorem tetAddCell_ginv {k : Kernel} {hfs : List Nat} (chk : Bool) (hi : GInv k) (hh : ∀ hf ∈ hfs, HfOk k hf)
    (hf : (k.tetAddCell hfs chk).2 ≠ none → FreeNodup k hfs) : GInv (k.tetAddCell hfs chk).1 := by
  cases hr : (k.tetAddCell hfs chk).2 with
  | none => rw [tetAddCell_refused k hfs chk hr]; exact hi
  | some c =>
    obtain ⟨hfree, hn⟩ := hf (by rw [hr]; simp)
    unfold tetAddCell
    split
    · exact hi
    · split
      · exact hi
      · split
        · exact hi
        · exact ginv_addCell chk (fun x hx => ⟨hh x hx, hfree x hx⟩) hn hi

/-- the side condition of `add_cell(v0, v1, v2, v3, check)`: **if** the four find-or-create calls return
    halffaces and the final virtual `add_cell(halffaces, check)` accepts them, they are in no live cell and
    pairwise different (cc:393, 2280 — what `add_cell` asserts in debug builds; C01's precondition).  The `let`s
    mirror `tetAddCell4`. -/
def Cell4Free (k : Kernel) (v0 v1 v2 v3 : Nat) (chk : Bool) : Prop :=
  let r0 := k.tetAddHalfface3 v0 v1 v2 false
  let r1 := r0.1.tetAddHalfface3 v0 v2 v3 false
  let r2 := r1.1.tetAddHalfface3 v0 v3 v1 false
  let r3 := r2.1.tetAddHalfface3 v1 v3 v2 false
  match r0.2, r1.2, r2.2, r3.2 with
  | some a, some b, some c, some d => (r3.1.tetAddCell [a, b, c, d] chk).2 ≠ none → FreeNodup r3.1 [a, b, c, d]
  | _, _, _, _ => True

instance (k : Kernel) (v0 v1 v2 v3 : Nat) (chk : Bool) : Decidable (Cell4Free k v0 v1 v2 v3 chk) := by
  unfold Cell4Free
  simp only []
  split <;> infer_instance

/-- **`add_cell(v0, v1, v2, v3, check)`** on four valid vertices keeps the global invariant -/
theorem tetAddCell4_ginv {k : Kernel} {v0 v1 v2 v3 : Nat} {chk : Bool} (hi : GInv k) (h0 : VOk k v0) (h1 : VOk k v1)
    (h2 : VOk k v2) (h3 : VOk k v3) (hf : Cell4Free k v0 v1 v2 v3 chk) : GInv (k.tetAddCell4 v0 v1 v2 v3 chk).1 := by
  simp only [tetAddCell4]
  simp only [Cell4Free] at hf
  obtain ⟨g0, o0, e0⟩ := tetAddHalfface3_ginv (chk := false) hi h0 h1 h2
  generalize k.tetAddHalfface3 v0 v1 v2 false = r0 at g0 o0 e0 hf ⊢
  obtain ⟨g1, o1, e1⟩ := tetAddHalfface3_ginv (chk := false) g0 (e0.vOk h0) (e0.vOk h2) (e0.vOk h3)
  generalize r0.1.tetAddHalfface3 v0 v2 v3 false = r1 at g1 o1 e1 hf ⊢
  have e01 := e0.trans e1
  obtain ⟨g2, o2, e2⟩ := tetAddHalfface3_ginv (chk := false) g1 (e01.vOk h0) (e01.vOk h3) (e01.vOk h1)
  generalize r1.1.tetAddHalfface3 v0 v3 v1 false = r2 at g2 o2 e2 hf ⊢
  have e02 := e01.trans e2
  obtain ⟨g3, o3, e3⟩ := tetAddHalfface3_ginv (chk := false) g2 (e02.vOk h1) (e02.vOk h3) (e02.vOk h2)
  generalize r2.1.tetAddHalfface3 v1 v3 v2 false = r3 at g3 o3 e3 hf ⊢
  split
  · rename_i a b c d ea eb ec ed
    simp only [ea, eb, ec, ed] at hf
    refine tetAddCell_ginv chk g3 ?_ hf
    intro x hx
    simp only [List.mem_cons, List.not_mem_nil, or_false] at hx
    rcases hx with rfl | rfl | rfl | rfl
    · exact ((e1.trans e2).trans e3).hfOk (o0 _ ea)
    · exact (e2.trans e3).hfOk (o1 _ eb)
    · exact e3.hfOk (o2 _ ec)
    · exact o3 _ ed
  · exact ginv_fault true g3

/-- the side condition of `add_cell(vertices, check)`: **if** the call reaches the final unchecked
    `add_cell(halffaces)` (four vertices, all bottom-up incidences, four halffaces found or created, the
    manifold tests of `check` passed), the four halffaces are in no live cell and pairwise different.
    The `let`s mirror `tetAddCellV`. -/
def CellVFree (k : Kernel) (vs : List Nat) (chk : Bool) : Prop :=
  if vs.length != 4 then True
  else if !k.fullBU then True
  else
    let v := fun i => vs.getD i 0
    let r0 := k.findOrAddFaceV [v 0, v 1, v 2]
    let r1 := r0.1.findOrAddFaceV [v 0, v 2, v 3]
    let r2 := r1.1.findOrAddFaceV [v 0, v 3, v 1]
    let r3 := r2.1.findOrAddFaceV [v 1, v 3, v 2]
    match r0.2, r1.2, r2.2, r3.2 with
    | some a, some b, some c, some d =>
      let k4 := r3.1
      let hfs := [a, b, c, d]
      if chk && !k4.tetCellCheckV hfs then True
      else if chk && k4.fBU && hfs.any (fun hf => k4.cellOf hf != none) then True
      else FreeNodup k4 hfs
    | _, _, _, _ => True

instance (k : Kernel) (vs : List Nat) (chk : Bool) : Decidable (CellVFree k vs chk) := by
  unfold CellVFree
  simp only []
  split
  · infer_instance
  · split
    · infer_instance
    · split
      · split
        · infer_instance
        · split <;> infer_instance
      · infer_instance

theorem getD_mem_of_lt_length {α} (l : List α) (d : α) (i : Nat) (h : i < l.length) : l.getD i d ∈ l := by
  rw [List.getD_eq_getElem?_getD, List.getElem?_eq_getElem h]; exact List.getElem_mem h

/-- **`add_cell(vertices, check)`** on valid vertices keeps the global invariant -/
theorem tetAddCellV_ginv {k : Kernel} {vs : List Nat} {chk : Bool} (hi : GInv k) (hv : ∀ v ∈ vs, VOk k v)
    (hf : CellVFree k vs chk) : GInv (k.tetAddCellV vs chk).1 := by
  unfold tetAddCellV
  unfold CellVFree at hf
  split
  · exact hi
  · rename_i hl
    split
    · exact hi
    · rename_i hb
      simp only [hl, hb] at hf
      simp only [] at hf ⊢
      have hl4 : vs.length = 4 := by simpa using hl
      have V : ∀ i, i < 4 → VOk k (vs.getD i 0) := fun i h => hv _ (getD_mem_of_lt_length vs 0 i (by omega))
      have L : ∀ {k' : Kernel} (a b c : Nat), Ext k k' → a < 4 → b < 4 → c < 4 →
          ∀ v ∈ [vs.getD a 0, vs.getD b 0, vs.getD c 0], VOk k' v := by
        intro k' a b c e ha hb hc v hm
        simp only [List.mem_cons, List.not_mem_nil, or_false] at hm
        rcases hm with rfl | rfl | rfl
        · exact e.vOk (V a ha)
        · exact e.vOk (V b hb)
        · exact e.vOk (V c hc)
      obtain ⟨g0, o0, e0⟩ := findOrAddFaceV_ginv hi (L 0 1 2 (Ext.refl k) (by omega) (by omega) (by omega))
      generalize k.findOrAddFaceV [vs.getD 0 0, vs.getD 1 0, vs.getD 2 0] = r0 at g0 o0 e0 hf ⊢
      obtain ⟨g1, o1, e1⟩ := findOrAddFaceV_ginv g0 (L 0 2 3 e0 (by omega) (by omega) (by omega))
      generalize r0.1.findOrAddFaceV [vs.getD 0 0, vs.getD 2 0, vs.getD 3 0] = r1 at g1 o1 e1 hf ⊢
      have e01 := e0.trans e1
      obtain ⟨g2, o2, e2⟩ := findOrAddFaceV_ginv g1 (L 0 3 1 e01 (by omega) (by omega) (by omega))
      generalize r1.1.findOrAddFaceV [vs.getD 0 0, vs.getD 3 0, vs.getD 1 0] = r2 at g2 o2 e2 hf ⊢
      have e02 := e01.trans e2
      obtain ⟨g3, o3, e3⟩ := findOrAddFaceV_ginv g2 (L 1 3 2 e02 (by omega) (by omega) (by omega))
      generalize r2.1.findOrAddFaceV [vs.getD 1 0, vs.getD 3 0, vs.getD 2 0] = r3 at g3 o3 e3 hf ⊢
      split
      · rename_i a b c d ea eb ec ed
        simp only [ea, eb, ec, ed] at hf
        split
        · exact g3
        · rename_i c1
          split
          · exact g3
          · rename_i c2
            simp only [c1, c2] at hf
            obtain ⟨hfree, hn⟩ := hf
            refine ginv_addCell false (fun x hx => ⟨?_, hfree x hx⟩) hn g3
            simp only [List.mem_cons, List.not_mem_nil, or_false] at hx
            rcases hx with rfl | rfl | rfl | rfl
            · exact ((e1.trans e2).trans e3).hfOk (o0 _ ea)
            · exact (e2.trans e3).hfOk (o1 _ eb)
            · exact e3.hfOk (o2 _ ec)
            · exact o3 _ ed
      · exact ginv_fault true g3

/-! ### `collapse_edge`, `split_edge`, `split_face`: the state before the final mode switch -/

/-- `collapse_edge` just before it switches back to the caller's deletion mode (cc:399-401) -/
def collapsePre (k0 : Kernel) (heh : Nat) : Kernel :=
  ((if !k0.deferred then k0.enableDeferred true else k0).collapseBody k0.deferred heh).1

/-- `TetrahedralGeometryKernel::split_edge` (new vertex, `split_edge(heh, vh)`) just before the final mode switch -/
def splitEdgePre (k0 : Kernel) (heh : Nat) : Kernel :=
  let r := k0.addVertex
  (if !r.1.deferred then r.1.enableDeferred true else r.1).splitEdgeBody heh r.2

/-- `TetrahedralGeometryKernel::split_face` just before the final mode switch -/
def splitFacePre (k0 : Kernel) (fh : Nat) : Kernel :=
  let r := k0.addVertex
  (if !r.1.deferred then r.1.enableDeferred true else r.1).splitFaceBody fh r.2

theorem collapseEdge_eq (k : Kernel) (h : Nat) : (k.collapseEdge h).1 = (collapsePre k h).enableDeferred k.deferred := rfl
theorem splitEdge_eq (k : Kernel) (h : Nat) : (k.splitEdge h).1 = (splitEdgePre k h).enableDeferred k.deferred := rfl
theorem splitFace_eq (k : Kernel) (f : Nat) : (k.splitFace f).1 = (splitFacePre k f).enableDeferred k.deferred := rfl

/-- inside `collapse_edge` deletion is deferred, so the rebuilt star keeps the valence shape in every mode of
    the caller -/
theorem shape_collapsePre (k : Kernel) (h : Nat) (hv : ValenceShape k) : ValenceShape (collapsePre k h) := by
  unfold collapsePre
  have e := enterDeferred k hv
  simp only at e
  generalize (if (!k.deferred) = true then k.enableDeferred true else k) = k1 at e ⊢
  obtain ⟨hvk, hdk, _⟩ := e
  exact (collapseBody_keeps k1 k.deferred h (Or.inl hdk)).shape hvk

theorem shape_splitEdgePre (k : Kernel) (h : Nat) (hv : ValenceShape k) : ValenceShape (splitEdgePre k h) := by
  unfold splitEdgePre
  simp only []
  have e := enterDeferred k.addVertex.1 ((addVertex_keeps k).shape hv)
  simp only at e
  generalize (if (!k.addVertex.1.deferred) = true then k.addVertex.1.enableDeferred true else k.addVertex.1) = k1 at e ⊢
  obtain ⟨hvk, hdk, _⟩ := e
  exact (splitEdgeBody_keeps k1 h _ (Or.inl hdk)).shape hvk

theorem shape_splitFacePre (k : Kernel) (f : Nat) (hv : ValenceShape k) : ValenceShape (splitFacePre k f) := by
  unfold splitFacePre
  simp only []
  have e := enterDeferred k.addVertex.1 ((addVertex_keeps k).shape hv)
  simp only at e
  generalize (if (!k.addVertex.1.deferred) = true then k.addVertex.1.enableDeferred true else k.addVertex.1) = k1 at e ⊢
  obtain ⟨hvk, hdk, _⟩ := e
  exact (splitFaceBody_keeps k1 f _ (Or.inl hdk)).shape hvk

/-! ### valid arguments of one driver operation -/

/-- **valid arguments of one operation of the tet driver vocabulary.**  No clause mentions the deletion mode or
    the bottom-up configuration.

    * `.base op`: K5's `Global.OpOK` (handles in range, built-upon entities not deleted, `add_cell` on free and
      pairwise different halffaces, …) and `Global.ValenceArgs` (the inherited, unguarded `set_face` / `set_cell`
      get three halfedges / four halffaces).
    * `add_halfedge`, `add_halfface`, `add_halfface(v0,v1,v2)`: the vertices / halfedges are valid (in range, not
      deleted).
    * `add_cell(vertices)`, `add_cell(v0..v3)`: the vertices are valid, and the side condition `CellVFree` /
      `Cell4Free`: the halffaces handed to the final `add_cell` are free and pairwise different (K5's precondition
      of `add_cell`, evaluated on the intermediate state; decidable).
    * `probeMode`: none.
    * **GAP hypotheses** — `.collapse h`: `GInv (collapsePre k h)`, the global kernel invariant of the state
      `collapse_edge` has built just before it switches back to the caller's deletion mode (and, in immediate
      mode, collects the garbage).  That the rebuilt star satisfies the kernel invariant is what the link
      condition of an admissible collapse guarantees; it is NOT proved here (it is the subject of
      OVM/Tet/CollapseRefine.lean).  The valence shape of that state IS proved here for every argument
      (`shape_collapsePre`); the hypothesis is only used to let `collect_garbage` renumber safely.
      `.splitEdge h` / `.splitFace f`: the same for `split_edge` / `split_face` (`splitEdgePre`, `splitFacePre`:
      after `add_vertex` and the body, before the final `enable_deferred_deletion`).  These two are protected
      members of the topology kernel, reachable only through `TetrahedralGeometryKernel`, and are not part of
      C15's statement. -/
def TetOpOK (k : Kernel) : TetOp → Prop
  | .base op => Global.OpOK k op ∧ ValenceArgs op
  | .addHalfedge a b => VOk k a ∧ VOk k b
  | .addHalffaceHe _ hes => ∀ h ∈ hes, HeOk k h
  | .addHalfface3 _ a b c => VOk k a ∧ VOk k b ∧ VOk k c
  | .addCellV chk vs => (∀ v ∈ vs, VOk k v) ∧ CellVFree k vs chk
  | .addCell4 chk a b c d => VOk k a ∧ VOk k b ∧ VOk k c ∧ VOk k d ∧ Cell4Free k a b c d chk
  | .collapse h => GInv (collapsePre k h)
  | .probeMode _ _ => True
  | .splitEdge h => GInv (splitEdgePre k h)
  | .splitFace f => GInv (splitFacePre k f)

/-- Boolean form of `TetOpOK` for the operations without a gap hypothesis (for `decide` on concrete histories);
    `false` on `collapse` / `split_*` -/
def tetOpOKB (k : Kernel) : TetOp → Bool
  | .base op => opOKB k op && decide (ValenceArgs op)
  | .addHalfedge a b => vOkB k a && vOkB k b
  | .addHalffaceHe _ hes => hes.all (heOkB k)
  | .addHalfface3 _ a b c => vOkB k a && vOkB k b && vOkB k c
  | .addCellV chk vs => vs.all (vOkB k) && decide (CellVFree k vs chk)
  | .addCell4 chk a b c d => vOkB k a && vOkB k b && vOkB k c && vOkB k d && decide (Cell4Free k a b c d chk)
  | .probeMode _ _ => true
  | .collapse _ => false
  | .splitEdge _ => false
  | .splitFace _ => false

theorem tetOpOK_of_B (k : Kernel) (op : TetOp) (h : tetOpOKB k op = true) : TetOpOK k op := by
  cases op with
  | base op =>
    simp only [tetOpOKB, Bool.and_eq_true, decide_eq_true_eq] at h
    exact ⟨opOK_of_B k op h.1, h.2⟩
  | addHalfedge a b =>
    simp only [tetOpOKB, Bool.and_eq_true] at h
    exact ⟨vOk_of_B h.1, vOk_of_B h.2⟩
  | addHalffaceHe c hes =>
    simp only [tetOpOKB, List.all_eq_true] at h
    exact fun x hx => heOk_of_B (h x hx)
  | addHalfface3 chk a b c =>
    simp only [tetOpOKB, Bool.and_eq_true] at h
    exact ⟨vOk_of_B h.1.1, vOk_of_B h.1.2, vOk_of_B h.2⟩
  | addCellV chk vs =>
    simp only [tetOpOKB, Bool.and_eq_true, List.all_eq_true, decide_eq_true_eq] at h
    exact ⟨fun x hx => vOk_of_B (h.1 x hx), h.2⟩
  | addCell4 chk a b c d =>
    simp only [tetOpOKB, Bool.and_eq_true, decide_eq_true_eq] at h
    exact ⟨vOk_of_B h.1.1.1.1, vOk_of_B h.1.1.1.2, vOk_of_B h.1.1.2, vOk_of_B h.1.2, h.2⟩
  | probeMode d f => trivial
  | collapse h' => exact absurd h (by simp [tetOpOKB])
  | splitEdge h' => exact absurd h (by simp [tetOpOKB])
  | splitFace f => exact absurd h (by simp [tetOpOKB])

/-! ### the step theorem -/

/-- C15(a)'s invariant: every stored face has three halfedges and every stored cell four halffaces, together with
    K5's global kernel invariant (which is what makes the renumbering deletions safe) -/
structure TInv (k : Kernel) : Prop where
  shape : ValenceShape k
  ginv : GInv k

/-- an override of the tet kernel either refuses (state unchanged) or is the base-class call -/
theorem stepTet_fst (k : Kernel) (op : Op) : (k.stepTet op).1 = k ∨ (k.stepTet op).1 = (k.step op).1 := by
  cases op with
  | addFaceHe chk hes =>
    show (k.tetAddFace hes chk).1 = k ∨ (k.tetAddFace hes chk).1 = (k.addFace hes chk).1
    unfold tetAddFace; split
    · exact Or.inl rfl
    · exact Or.inr rfl
  | addFaceV vs =>
    show (k.tetAddFaceV vs).1 = k ∨ (k.tetAddFaceV vs).1 = (k.addFaceV vs).1
    unfold tetAddFaceV; split
    · exact Or.inl rfl
    · exact Or.inr rfl
  | addCell chk hfs =>
    show (k.tetAddCell hfs chk).1 = k ∨ (k.tetAddCell hfs chk).1 = (k.addCell hfs chk).1
    unfold tetAddCell; split
    · exact Or.inl rfl
    · split
      · exact Or.inl rfl
      · split
        · exact Or.inl rfl
        · exact Or.inr rfl
  | _ => exact Or.inr rfl

/-- one base operation with the tet overrides keeps the global invariant -/
theorem ginv_stepTet (k : Kernel) (op : Op) (hi : GInv k) (hok : Global.OpOK k op) : GInv (k.stepTet op).1 := by
  rcases stepTet_fst k op with e | e
  · rw [e]; exact hi
  · rw [e]; exact ginv_step k op hi hok

/-- **one operation of the tet driver vocabulary with valid arguments keeps `ValenceShape ∧ GInv` — in every
    deletion mode (deferred × fast) and every bottom-up configuration** -/
theorem tinv_stepTetX (k : Kernel) (op : TetOp) (hi : TInv k) (hok : TetOpOK k op) : TInv (k.stepTetX op).1 := by
  obtain ⟨hv, hg⟩ := hi
  cases op with
  | base o => exact ⟨shape_stepTet k o hg hok.1 hok.2 hv, ginv_stepTet k o hg hok.1⟩
  | addHalfedge a b => exact ⟨(tetAddHalfedge_keeps k a b).shape hv, (tetAddHalfedge_ginv hg hok.1 hok.2).1⟩
  | addHalffaceHe chk hes => exact ⟨(tetAddHalfface_keeps k hes chk).shape hv, (tetAddHalfface_ginv hg hok).1⟩
  | addHalfface3 chk a b c =>
    exact ⟨(tetAddHalfface3_keeps k a b c chk).shape hv, (tetAddHalfface3_ginv hg hok.1 hok.2.1 hok.2.2).1⟩
  | addCellV chk vs => exact ⟨(tetAddCellV_keeps k vs chk).shape hv, tetAddCellV_ginv hg hok.1 hok.2⟩
  | addCell4 chk a b c d =>
    exact ⟨(tetAddCell4_keeps k a b c d chk).shape hv,
      tetAddCell4_ginv hg hok.1 hok.2.1 hok.2.2.1 hok.2.2.2.1 hok.2.2.2.2⟩
  | collapse h =>
    show TInv (k.collapseEdge h).1
    rw [collapseEdge_eq]
    exact ⟨shape_enableDeferred hok _ (shape_collapsePre k h hv), ginv_enableDeferred _ hok⟩
  | probeMode d f =>
    show TInv ((k.enableDeferred d).enableFast f)
    exact ⟨enableFast_valence _ f (shape_enableDeferred hg d hv), ginv_enableFast f (ginv_enableDeferred d hg)⟩
  | splitEdge h =>
    show TInv (k.splitEdge h).1
    rw [splitEdge_eq]
    exact ⟨shape_enableDeferred hok _ (shape_splitEdgePre k h hv), ginv_enableDeferred _ hok⟩
  | splitFace f =>
    show TInv (k.splitFace f).1
    rw [splitFace_eq]
    exact ⟨shape_enableDeferred hok _ (shape_splitFacePre k f hv), ginv_enableDeferred _ hok⟩

/-! ### histories -/

/-- a history whose every call has valid arguments at the time it is made -/
def AdmissibleAll : Kernel → List TetOp → Prop
  | _, [] => True
  | k, op :: rest => TetOpOK k op ∧ AdmissibleAll (k.stepTetX op).1 rest

def runTetX (k : Kernel) (ops : List TetOp) : Kernel := ops.foldl (fun k op => (k.stepTetX op).1) k

/-- **every admissible history of the tet driver vocabulary keeps `ValenceShape ∧ GInv`**, whatever deletion
    modes it switches through -/
theorem tinv_run (ops : List TetOp) (k : Kernel) (hi : TInv k) (h : AdmissibleAll k ops) : TInv (runTetX k ops) := by
  induction ops generalizing k with
  | nil => exact hi
  | cons op t ih =>
    simp only [runTetX, List.foldl_cons]
    exact ih _ (tinv_stepTetX k op hi h.1) h.2

theorem tinv_empty : TInv ({} : Kernel) := ⟨valenceShape_empty, ginv_empty⟩

/-- every state reachable from the empty mesh by an admissible history -/
theorem tinv_reachable (ops : List TetOp) (h : AdmissibleAll {} ops) : TInv (runTetX {} ops) :=
  tinv_run ops {} tinv_empty h

def admissibleAllB : Kernel → List TetOp → Bool
  | _, [] => true
  | k, op :: rest => tetOpOKB k op && admissibleAllB (k.stepTetX op).1 rest

theorem admissibleAll_of_B (k : Kernel) (ops : List TetOp) (h : admissibleAllB k ops = true) : AdmissibleAll k ops := by
  induction ops generalizing k with
  | nil => trivial
  | cons op t ih =>
    simp only [admissibleAllB, Bool.and_eq_true] at h
    exact ⟨tetOpOK_of_B k op h.1, ih _ h.2⟩

/-! ### non-vacuity: concrete admissible histories that renumber by shifting

  The admissibility of each sample history is decided by kernel evaluation of `admissibleAllB` (a complete
  evaluation of that one history, not a sample of it); `TInv` of the final state then follows from the theorem.
  The `decide` cross-checks of `ValenceShape` on the same final states are TESTS of the theorem's conclusion. -/

/-- IMMEDIATE NON-FAST mode: five vertices, two tets sharing face 0, then `delete_face(0)` (kills both cells and
    shifts every face index) and `delete_vertex(1)` (shifts vertex, edge and face indices) -/
def sampleImm : List TetOp :=
  [.probeMode false false, .base .addVertex, .base .addVertex, .base .addVertex, .base .addVertex, .base .addVertex,
   .addCell4 true 0 1 2 3, .addCell4 true 0 2 1 4, .base (.deleteFace 0), .base (.deleteVertex 1)]

theorem sampleImm_admissible : AdmissibleAll {} sampleImm := admissibleAll_of_B _ _ (by decide +kernel)

example : TInv (runTetX {} sampleImm) := tinv_reachable sampleImm sampleImm_admissible

/-- the mode really is immediate non-fast when the deletions run, both tets are built, and both are gone -/
example : (runTetX {} (sampleImm.take 8)).deferred = false ∧ (runTetX {} (sampleImm.take 8)).fast = false ∧
    (runTetX {} (sampleImm.take 8)).cells = [[0, 2, 4, 6], [1, 8, 10, 12]] ∧ (runTetX {} (sampleImm.take 8)).nF = 7 ∧
    (runTetX {} sampleImm).cells = [] ∧ (runTetX {} sampleImm).faces = [[1, 2, 4], [7, 8, 0]] ∧
    (runTetX {} sampleImm).nV = 4 := by decide +kernel

/-- test: the conclusion of the theorem, evaluated -/
example : ValenceShape (runTetX {} sampleImm) := by decide +kernel

/-- IMMEDIATE NON-FAST mode through the base switches, with a third tet (built by `add_cell(vertices)`) that
    survives both deletions and is renumbered -/
def sampleImm2 : List TetOp :=
  [.base (.enableDeferred false), .base (.enableFast false), .base (.addNVertices 9),
   .addCell4 true 0 1 2 3, .addCell4 true 0 2 1 4, .addCellV true [5, 6, 7, 8], .base (.deleteFace 0),
   .base (.deleteVertex 1)]

theorem sampleImm2_admissible : AdmissibleAll {} sampleImm2 := admissibleAll_of_B _ _ (by decide +kernel)

example : TInv (runTetX {} sampleImm2) := tinv_reachable sampleImm2 sampleImm2_admissible

example : (runTetX {} (sampleImm2.take 6)).nC = 3 ∧ (runTetX {} (sampleImm2.take 6)).nF = 11 ∧
    (runTetX {} sampleImm2).cells = [[4, 6, 8, 10]] ∧
    (runTetX {} sampleImm2).faces = [[1, 2, 4], [7, 8, 0], [10, 12, 14], [15, 16, 18], [19, 20, 11], [21, 17, 13]] ∧
    (runTetX {} sampleImm2).fault = false := by decide +kernel

example : ValenceShape (runTetX {} sampleImm2) := by decide +kernel

/-- DEFERRED NON-FAST mode: every convenience once, deletions that only flag, the index-shifting
    `collect_garbage`, a reuse after the renumbering, then the switch to immediate mode and a shifting
    `delete_edge` under the surviving tet -/
def sampleDef : List TetOp :=
  [.probeMode true false, .base (.addNVertices 9),
   .addCellV true [0, 1, 2, 3], .addCell4 true 0 2 1 4, .addCell4 false 5 6 7 8, .addHalfedge 4 5,
   .addHalfface3 true 3 4 5, .base (.deleteFace 0), .base (.deleteVertex 1), .base .collectGarbage,
   .addHalffaceHe false [0, 2, 4], .probeMode false false, .base (.deleteEdge 0)]

theorem sampleDef_admissible : AdmissibleAll {} sampleDef := admissibleAll_of_B _ _ (by decide +kernel)

example : TInv (runTetX {} sampleDef) := tinv_reachable sampleDef sampleDef_admissible

example : (runTetX {} (sampleDef.take 9)).nC = 3 ∧ (runTetX {} (sampleDef.take 9)).nF = 12 ∧
    (runTetX {} (sampleDef.take 10)).nC = 1 ∧ (runTetX {} (sampleDef.take 10)).nF = 7 ∧
    (runTetX {} sampleDef).cells = [[0, 2, 4, 6]] ∧
    (runTetX {} sampleDef).faces = [[8, 10, 12], [13, 14, 16], [17, 18, 9], [19, 15, 11], [22, 20, 24]] ∧
    (runTetX {} sampleDef).fault = false := by decide +kernel

example : ValenceShape (runTetX {} sampleDef) := by decide +kernel

/-- the side condition is not vacuous: building the same tet twice hands the final `add_cell` four occupied
    halffaces, and the state after it violates C01's precondition `oneCell` (so `GInv` is lost) -/
example : ¬ Cell4Free (runTetX {} (sampleImm.take 7)) 0 1 2 3 false ∧
    ((runTetX {} (sampleImm.take 7)).tetAddCell4 0 1 2 3 false).1.oneCell = false := by decide +kernel

/-! ### non-vacuity of the gap hypotheses: a real `collapse_edge`, `split_edge`, `split_face` in immediate
    non-fast mode

  For a concrete state the gap hypothesis `GInv (collapsePre k h)` is discharged by replaying what the call does
  inside as a history of operations WITHOUT gap hypothesis (`add_halfedge`, `add_halfface`, `delete_cell`,
  `delete_vertex`, `add_cell`): the two states are equal (kernel evaluation), and the replay is admissible. -/

theorem admissibleAll_append (a b : List TetOp) (k : Kernel) (ha : AdmissibleAll k a)
    (hb : AdmissibleAll (runTetX k a) b) : AdmissibleAll k (a ++ b) := by
  induction a generalizing k with
  | nil => exact hb
  | cons op t ih => exact ⟨ha.1, ih _ ha.2 hb⟩

/-- three tets: `(0,1,2,3)` and `(0,2,1,4)` share a face, `(1,2,3,5)` shares another face with the first -/
def sampleCol0 : List TetOp :=
  [.probeMode false false, .base (.addNVertices 6), .addCell4 true 0 1 2 3, .addCell4 true 0 2 1 4,
   .addCell4 true 1 2 3 5]

/-- what `collapse_edge(0 → 4)` (halfedge 15) does inside: the tet `(0,1,2,3)` is rebuilt on vertex 4, face by face -/
def sampleColInside : List TetOp :=
  [.base (.enableDeferred true),
   .addHalfedge 4 1, .addHalfedge 1 2, .addHalfedge 2 4, .addHalffaceHe false [13, 2, 17],
   .addHalfedge 4 2, .addHalfedge 2 3, .addHalfedge 3 4, .addHalffaceHe false [16, 6, 24],
   .addHalfedge 4 3, .addHalfedge 3 1, .addHalfedge 1 4, .addHalffaceHe false [25, 10, 12],
   .addHalfedge 1 3, .addHalfedge 3 2, .addHalfedge 2 1, .addHalffaceHe false [11, 7, 3],
   .base (.deleteCell 0), .base (.deleteVertex 0), .base (.addCell false [12, 20, 22, 6])]

theorem sampleCol_pre : collapsePre (runTetX {} sampleCol0) 15 = runTetX {} (sampleCol0 ++ sampleColInside) := by
  decide +kernel

theorem sampleCol_admissible : AdmissibleAll {} (sampleCol0 ++ [.collapse 15]) := by
  refine admissibleAll_append _ _ _ (admissibleAll_of_B _ _ (by decide +kernel)) ⟨?_, trivial⟩
  show GInv (collapsePre (runTetX {} sampleCol0) 15)
  rw [sampleCol_pre]
  exact (tinv_reachable _ (admissibleAll_of_B _ _ (by decide +kernel))).ginv

example : TInv (runTetX {} (sampleCol0 ++ [.collapse 15])) := tinv_reachable _ sampleCol_admissible

/-- the collapse happened in immediate non-fast mode: two tets are left, renumbered by the garbage collection -/
example : (runTetX {} (sampleCol0 ++ [.collapse 15])).cells = [[1, 4, 6, 8], [2, 10, 12, 0]] ∧
    (runTetX {} (sampleCol0 ++ [.collapse 15])).nF = 7 ∧ (runTetX {} (sampleCol0 ++ [.collapse 15])).nV = 5 ∧
    (runTetX {} (sampleCol0 ++ [.collapse 15])).deferred = false ∧
    (runTetX {} (sampleCol0 ++ [.collapse 15])).fast = false := by decide +kernel

/-- two tets sharing face 0 -/
def sampleTwo : List TetOp :=
  [.probeMode false false, .base (.addNVertices 5), .addCell4 true 0 1 2 3, .addCell4 true 0 2 1 4]

/-- what `split_edge(1 → 2)` (halfedge 2) does inside -/
def sampleSplitEInside : List TetOp :=
  [.base .addVertex, .base (.enableDeferred true), .base (.deleteCell 1), .base (.deleteCell 0), .base (.deleteEdge 1),
   .addCell4 false 1 5 4 0, .addCell4 false 5 2 4 0, .addCell4 false 1 5 0 3, .addCell4 false 5 2 0 3]

/-- what `split_face(0)` does inside -/
def sampleSplitFInside : List TetOp :=
  [.base .addVertex, .base (.enableDeferred true), .base (.deleteCell 0), .base (.deleteCell 1), .base (.deleteFace 0),
   .addCell4 false 0 1 5 3, .addCell4 false 0 5 2 3, .addCell4 false 5 1 2 3,
   .addCell4 false 0 2 5 4, .addCell4 false 0 5 1 4, .addCell4 false 5 2 1 4]

theorem sampleSplitE_pre : splitEdgePre (runTetX {} sampleTwo) 2 = runTetX {} (sampleTwo ++ sampleSplitEInside) := by
  decide +kernel

theorem sampleSplitF_pre : splitFacePre (runTetX {} sampleTwo) 0 = runTetX {} (sampleTwo ++ sampleSplitFInside) := by
  decide +kernel

theorem sampleSplitE_admissible : AdmissibleAll {} (sampleTwo ++ [.splitEdge 2]) := by
  refine admissibleAll_append _ _ _ (admissibleAll_of_B _ _ (by decide +kernel)) ⟨?_, trivial⟩
  show GInv (splitEdgePre (runTetX {} sampleTwo) 2)
  rw [sampleSplitE_pre]
  exact (tinv_reachable _ (admissibleAll_of_B _ _ (by decide +kernel))).ginv

theorem sampleSplitF_admissible : AdmissibleAll {} (sampleTwo ++ [.splitFace 0]) := by
  refine admissibleAll_append _ _ _ (admissibleAll_of_B _ _ (by decide +kernel)) ⟨?_, trivial⟩
  show GInv (splitFacePre (runTetX {} sampleTwo) 0)
  rw [sampleSplitF_pre]
  exact (tinv_reachable _ (admissibleAll_of_B _ _ (by decide +kernel))).ginv

example : TInv (runTetX {} (sampleTwo ++ [.splitEdge 2])) := tinv_reachable _ sampleSplitE_admissible
example : TInv (runTetX {} (sampleTwo ++ [.splitFace 0])) := tinv_reachable _ sampleSplitF_admissible

example : (runTetX {} (sampleTwo ++ [.splitEdge 2])).cells = [[8, 4, 10, 12], [14, 13, 16, 6], [11, 2, 18, 20], [17, 21, 22, 0]] ∧
    (runTetX {} (sampleTwo ++ [.splitFace 0])).nC = 6 ∧ (runTetX {} (sampleTwo ++ [.splitFace 0])).fault = false := by
  decide +kernel

end Kernel
end OVM

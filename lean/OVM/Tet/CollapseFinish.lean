import OVM.Tet.CollapseStar
/-
  `collapse_edge`, second half (Mesh/TetrahedralMeshTopologyKernel.cc:393-397): `delete_vertex(a)` in deferred
  mode flags exactly the live cells that have `a` as a vertex (all three caches enabled, closed triangular
  faces), and the re-creation of the remembered cells appends them to the cell array.
-/
namespace OVM
namespace Kernel
open Global ScanDel

/-! ### vertices of a cell -/

theorem mem_cellVertSet (k : Kernel) (c v : Nat) :
    v ∈ k.cellVertSet c ↔ ∃ hf ∈ k.cellAt c, ∃ he ∈ k.hfHes hf, k.fromV he = v := by
  unfold cellVertSet hfVerts
  rw [mem_toSet, List.mem_flatMap]
  constructor
  · rintro ⟨hf, hm, hv⟩
    obtain ⟨he, hhe, rfl⟩ := List.mem_map.mp hv
    exact ⟨hf, hm, he, hhe, rfl⟩
  · rintro ⟨hf, hm, he, hhe, rfl⟩
    exact ⟨hf, hm, List.mem_map.mpr ⟨he, hhe, rfl⟩⟩

theorem mem_hfHes_opp {k : Kernel} {hf x : Nat} (h : x ∈ k.hfHes hf) : opp x ∈ k.hfHes (opp hf) := by
  rw [Fan.hfHes_opp]
  unfold oppFace
  exact List.mem_map.mpr ⟨x, List.mem_reverse.mpr h, rfl⟩

theorem opp_cases (x : Nat) : (x = 2 * eOf x ∧ opp x = 2 * eOf x + 1) ∨ (x = 2 * eOf x + 1 ∧ opp x = 2 * eOf x) := by
  unfold opp eOf; rw [xor_one_eq]; split <;> omega

/-- the halfedge of edge `e` that starts at an end point of `e`, inside a closed triangle that uses `e`:
    that end point is a vertex of the triangle -/
theorem endpoint_mem_hfVerts {k : Kernel} {hf x he : Nat} (hl : Loop3 k (k.hfHes hf)) (hx : x ∈ k.hfHes hf)
    (he_e : eOf he = eOf x) : k.fromV he ∈ k.hfVerts hf := by
  unfold hfVerts
  have : he = x ∨ he = opp x := by
    rcases opp_cases x with ⟨h1, h2⟩ | ⟨h1, h2⟩ <;> rcases opp_cases he with ⟨h3, h4⟩ | ⟨h3, h4⟩ <;>
      first
      | (left; omega)
      | (right; omega)
  rcases this with rfl | rfl
  · exact List.mem_map.mpr ⟨he, hx, rfl⟩
  · rw [Lookup.fromV_opp]; exact loop3_toV_mem hl hx

/-! ### the closure of `delete_vertex(v)` is the set of live cells with vertex `v` -/

theorem fullBU_split {k : Kernel} (h : k.fullBU = true) : k.vBU = true ∧ k.eBU = true ∧ k.fBU = true := by
  unfold fullBU at h; simp only [Bool.and_eq_true] at h; exact ⟨h.1.1, h.1.2, h.2⟩

theorem fromV_endpoint (k : Kernel) (he : Nat) : (k.edgeAt (eOf he)).1 = k.fromV he ∨ (k.edgeAt (eOf he)).2 = k.fromV he := by
  unfold fromV halfedge
  simp only
  split
  · exact Or.inl rfl
  · exact Or.inr rfl

theorem mem_hfHes_face {k : Kernel} {hf he : Nat} (h : he ∈ k.hfHes hf) : ∃ x ∈ k.faceAt (eOf hf), eOf x = eOf he := by
  unfold hfHes at h
  simp only at h
  split at h
  · exact ⟨he, h, rfl⟩
  · unfold oppFace at h
    obtain ⟨x, hx, rfl⟩ := List.mem_map.mp h
    exact ⟨x, List.mem_reverse.mp hx, (eOf_opp x).symm⟩

theorem incidentCells_vertex_iff {k : Kernel} (hi : GInv k) (hb : k.fullBU = true) (hl : FaceLoops k) {v : Nat}
    (hv : v < k.nV) (c : Nat) :
    c ∈ k.incidentCells (k.incidentFaces (k.incidentEdges [v])) ↔ (k.liveC c = true ∧ v ∈ k.cellVertSet c) := by
  obtain ⟨bv, be, bf⟩ := fullBU_split hb
  have hw := hi.wf
  constructor
  · intro hc
    unfold incidentCells at hc
    simp only [bf, if_true] at hc
    rw [k4_mem_toSet, List.mem_flatMap] at hc
    obtain ⟨f, hf, hcf⟩ := hc
    -- a halfface `hf0` of the cell on face `f`
    have hcell : ∃ hf0, k.cellOf hf0 = some c ∧ eOf hf0 = f := by
      simp only [List.filterMap_cons, List.filterMap_nil] at hcf
      cases h0 : k.cellOf (heOf f 0) <;> cases h1 : k.cellOf (heOf f 1) <;> simp [h0, h1] at hcf
      · exact ⟨heOf f 1, by rw [h1, hcf], by unfold eOf heOf; omega⟩
      · exact ⟨heOf f 0, by rw [h0, hcf], by unfold eOf heOf; omega⟩
      · rcases hcf with rfl | rfl
        · exact ⟨heOf f 0, h0, by unfold eOf heOf; omega⟩
        · exact ⟨heOf f 1, h1, by unfold eOf heOf; omega⟩
    obtain ⟨hf0, hco, hef⟩ := hcell
    obtain ⟨hlt0, hlc, hm0⟩ := cellOf_some_live hw.cache.f bf hco
    refine ⟨hlc, ?_⟩
    -- the face contains an edge of the closure
    unfold incidentFaces at hf
    simp only [be, if_true] at hf
    rw [k4_mem_toSet, List.mem_flatMap] at hf
    obtain ⟨e, he, hfe⟩ := hf
    obtain ⟨hf1, hm1, hef1⟩ := List.mem_map.mp hfe
    have h2e : heOf e 0 < k.nHE := by
      rcases Nat.lt_or_ge (heOf e 0) k.nHE with h | h
      · exact h
      · unfold hfsOf at hm1; rw [getD_of_ge _ _ _ (by rw [(hw.cache.e be).1]; exact h)] at hm1; cases hm1
    have hs1 := ((hw.cache.e be).2 _ h2e).mem_iff.mp hm1
    rw [mem_sHfsOfHe] at hs1
    -- the edge starts or ends at `v`
    unfold incidentEdges at he
    simp only [bv, if_true] at he
    rw [k4_mem_toSet, List.mem_flatMap] at he
    obtain ⟨v', hv', hev⟩ := he
    simp only [List.mem_singleton] at hv'; subst hv'
    obtain ⟨x, hx, hex⟩ := List.mem_map.mp hev
    have hsx := ((hw.cache.v bv).2 _ hv).mem_iff.mp hx
    rw [mem_sOut_iff] at hsx
    -- assemble: `heOf e 0 ∈ hfHes hf1`, `eOf hf1 = f = eOf hf0`, `eOf x = e`, `fromV x = v'`
    rw [mem_cellVertSet]
    have hfl1 : hf1 < k.nHF := by
      have := liveF_lt hs1.1; unfold nHF nF eOf at *; omega
    have hcase : hf0 = hf1 ∨ hf0 = opp hf1 := by
      have e1 : eOf hf0 = eOf hf1 := by rw [hef, hef1]
      rcases opp_cases hf1 with ⟨h1, h2⟩ | ⟨h1, h2⟩ <;> rcases opp_cases hf0 with ⟨h3, h4⟩ | ⟨h3, h4⟩ <;>
        first
        | (left; omega)
        | (right; omega)
    rcases hcase with rfl | rfl
    · have hL := loop3_hfHes hl hfl1
      have := endpoint_mem_hfVerts hL hs1.2 (he := x) (by rw [hex]; unfold eOf heOf; omega)
      rw [hsx.2] at this
      unfold hfVerts at this
      obtain ⟨y, hy, hyv⟩ := List.mem_map.mp this
      exact ⟨hf0, hm0, y, hy, hyv⟩
    · have hL := loop3_hfHes hl hlt0
      have hmo := mem_hfHes_opp hs1.2
      have := endpoint_mem_hfVerts hL hmo (he := x) (by rw [hex, eOf_opp]; unfold eOf heOf; omega)
      rw [hsx.2] at this
      unfold hfVerts at this
      obtain ⟨y, hy, hyv⟩ := List.mem_map.mp this
      exact ⟨opp hf1, hm0, y, hy, hyv⟩
  · rintro ⟨hlc, hvc⟩
    rw [mem_cellVertSet] at hvc
    obtain ⟨hf, hm, he, hhe, hfv⟩ := hvc
    have hhf : hf < k.nHF := hw.range.cells _ (cellAt_mem_cells (liveC_lt hlc)) hf hm
    have hlF : k.liveF (eOf hf) = true := by
      unfold liveF; rw [hi.closed.f c hlc hf hm]
      simp; unfold nHF nF eOf at *; omega
    obtain ⟨x, hx, hex⟩ := mem_hfHes_face hhe
    have hxr : x < k.nHE := hw.range.faces _ (faceAt_mem_faces (liveF_lt hlF)) x hx
    have hlE : k.liveE (eOf x) = true := by
      unfold liveE; rw [hi.closed.e _ hlF x hx]
      simp; unfold nHE nE eOf at *; omega
    have hend : (k.edgeAt (eOf x)).1 ∈ [v] ∨ (k.edgeAt (eOf x)).2 ∈ [v] := by
      rw [hex]
      rcases fromV_endpoint k he with h | h
      · left; rw [h, hfv]; simp
      · right; rw [h, hfv]; simp
    have h1 := cmpl_incidentEdges hw [v] hlE hend
    have h2 := cmpl_incidentFaces hw (k.incidentEdges [v]) hlF hx h1
    exact cmpl_incidentCells hw hi.one _ hlc hm h2

/-! ### `delete_vertex` in deferred mode: what changes -/

theorem deleteVertex_deferred_frames {k : Kernel} (hd : k.deferred = true) (v : Nat) :
    (k.deleteVertex v).cells = k.cells ∧ (k.deleteVertex v).faces = k.faces ∧ (k.deleteVertex v).edges = k.edges ∧
    (k.deleteVertex v).nV = k.nV ∧
    (k.deleteVertex v).cDel = (k.incidentCells (k.incidentFaces (k.incidentEdges [v]))).reverse.foldl
      (fun l h => l.set h true) k.cDel ∧ (k.deleteVertex v).vDel = k.vDel.set v true := by
  unfold deleteVertex
  simp only []
  obtain ⟨a1, a2, a3, a4, a5, a6, _, _, a9, _⟩ := foldl_deleteCellCore_deferred
    (k.incidentCells (k.incidentFaces (k.incidentEdges [v]))).reverse k hd
  generalize (k.incidentCells (k.incidentFaces (k.incidentEdges [v]))).reverse.foldl deleteCellCore k = k1 at *
  obtain ⟨b1, b2, b3, b4, b5, b6, _, b8, _, _⟩ := foldl_deleteFaceCore_deferred
    (k.incidentFaces (k.incidentEdges [v])).reverse k1 a1
  generalize (k.incidentFaces (k.incidentEdges [v])).reverse.foldl deleteFaceCore k1 = k2 at *
  obtain ⟨c1, c2, c3, c4, c5, c6, _, c8, _, _⟩ := foldl_deleteEdgeCore_deferred (k.incidentEdges [v]).reverse k2 b1
  generalize (k.incidentEdges [v]).reverse.foldl deleteEdgeCore k2 = k3 at *
  rw [deleteVertexCore_deferred_eq v c1]
  refine ⟨?_, ?_, ?_, ?_, ?_, ?_⟩
  · show k3.cells = _; rw [c5, b5, a5]
  · show k3.faces = _; rw [c4, b4, a4]
  · show k3.edges = _; rw [c3, b3, a3]
  · show k3.nV = _; rw [c2, b2, a2]
  · show k3.cDel = _; rw [c8, b8, a9]
  · show k3.vDel.set v true = _; rw [c6, b6, a6]

/-- **deferred `delete_vertex(v)`** with all caches on a mesh of closed triangles: a cell is live afterwards iff
    it was live and does not have `v` as a vertex; definitions are untouched -/
theorem liveC_deleteVertex_deferred {k : Kernel} (hi : GInv k) (hd : k.deferred = true) (hb : k.fullBU = true)
    (hl : FaceLoops k) {v : Nat} (hv : v < k.nV) (c : Nat) :
    (k.deleteVertex v).liveC c = true ↔ (k.liveC c = true ∧ v ∉ k.cellVertSet c) := by
  obtain ⟨f1, _, _, _, f5, _⟩ := deleteVertex_deferred_frames hd v
  have hiff := incidentCells_vertex_iff hi hb hl hv c
  unfold liveC cDeleted nC
  rw [f1, f5, flagsFold_getD]
  simp only [Bool.and_eq_true, decide_eq_true_eq, Bool.not_eq_true', Bool.or_eq_false_iff, Bool.and_eq_false_iff,
    decide_eq_false_iff_not, List.mem_reverse]
  constructor
  · rintro ⟨hlt, hnd, hnc⟩
    have hlc : k.liveC c = true := by unfold liveC cDeleted nC; rw [hnd]; simp [hlt]
    refine ⟨⟨hlt, hnd⟩, fun hvc => ?_⟩
    have hin := hiff.mpr ⟨hlc, hvc⟩
    rcases hnc with h | h
    · exact h hin
    · exact h (by rw [hi.wf.len.cDel]; exact hlt)
  · rintro ⟨⟨hlt, hnd⟩, hnv⟩
    refine ⟨hlt, hnd, Or.inl (fun hin => hnv (hiff.mp hin).2)⟩

/-! ### re-creation of the remembered cells -/

theorem readdCell_frames {k : Kernel} (hl : FaceLoops k) {n : Nat × List Nat} (h4 : n.2.length = 4)
    (hh : ∀ hf ∈ n.2, hf < k.nHF) (hs : k.spanVertCount n.2 = 4 ∧ k.noParallel n.2 = true) :
    (readdCell k n).cells = k.cells ++ [n.2] ∧ (readdCell k n).cDel = k.cDel ++ [false] ∧
    (readdCell k n).faces = k.faces ∧ (readdCell k n).edges = k.edges ∧ (readdCell k n).vDel = k.vDel := by
  unfold readdCell
  simp only []
  rw [tetAddCell_eq hl h4 hh hs.1 hs.2]
  have : k.addCell n.2 false = (k.addCellCore n.2, some k.nC) := by unfold addCell addCellAccepts; simp
  rw [this]
  simp

theorem readdFold_frames : ∀ (rem : List (Nat × List Nat)) (k : Kernel), FaceLoops k →
    (∀ n ∈ rem, n.2.length = 4 ∧ (∀ hf ∈ n.2, hf < k.nHF) ∧ k.spanVertCount n.2 = 4 ∧ k.noParallel n.2 = true) →
    (rem.foldl readdCell k).cells = k.cells ++ rem.map (·.2) ∧
    (rem.foldl readdCell k).cDel = k.cDel ++ List.replicate rem.length false ∧
    (rem.foldl readdCell k).faces = k.faces ∧ (rem.foldl readdCell k).edges = k.edges ∧
    (rem.foldl readdCell k).vDel = k.vDel := by
  intro rem
  induction rem with
  | nil => intro k _ _; simp
  | cons n t ih =>
    intro k hl hr
    obtain ⟨f1, f2, f3, f4, f5⟩ := readdCell_frames hl (hr n (by simp)).1 (hr n (by simp)).2.1 (hr n (by simp)).2.2
    have hl' : FaceLoops (readdCell k n) := faceLoops_of_eq f4 f3 hl
    have hn : (readdCell k n).nHF = k.nHF := by unfold nHF; rw [f3]
    obtain ⟨g1, g2, g3, g4, g5⟩ := ih (readdCell k n) hl' (fun m hm => by
      rw [hn, spanVertCount_of_eq f4 f3, noParallel_of_eq f4 f3]; exact hr m (List.mem_cons_of_mem _ hm))
    simp only [List.foldl_cons]
    refine ⟨by rw [g1, f1]; simp, ?_, by rw [g3, f3], by rw [g4, f4], by rw [g5, f5]⟩
    rw [g2, f2, List.append_assoc]
    congr 1

end Kernel
end OVM

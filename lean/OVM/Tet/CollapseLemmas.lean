import OVM.Tet.Spec
import OVM.Base.ListLemmas
import OVM.Refine.DeleteFrames
namespace OVM
namespace Kernel

/-! ### the abstract collapse on oriented quadruples -/

theorem mem_absCollapse (a b : Nat) (cells : List (List Nat)) (q : List Nat) :
    q ∈ absCollapse a b cells ↔ ∃ t ∈ cells, ¬(a ∈ t ∧ b ∈ t) ∧ q = t.map (substV a b) := by
  unfold absCollapse
  simp only [List.mem_map, List.mem_filter]
  constructor
  · rintro ⟨t, ⟨ht, hf⟩, rfl⟩
    refine ⟨t, ht, ?_, rfl⟩
    intro ⟨h1, h2⟩; simp [h1, h2] at hf
  · rintro ⟨t, ht, hn, rfl⟩
    refine ⟨t, ⟨ht, ?_⟩, rfl⟩
    by_cases h1 : a ∈ t <;> by_cases h2 : b ∈ t <;> simp_all

/-- the collapsed vertex is gone -/
theorem absCollapse_no_a (a b : Nat) (hab : a ≠ b) (cells : List (List Nat)) :
    ∀ q ∈ absCollapse a b cells, a ∉ q := by
  intro q hq
  obtain ⟨t, _, _, rfl⟩ := (mem_absCollapse a b cells q).mp hq
  intro h
  obtain ⟨v, _, hv⟩ := List.mem_map.mp h
  unfold substV at hv
  split at hv
  · exact hab hv.symm
  · rename_i hva; simp at hva; exact hva hv

/-- cells that do not touch `a` survive unchanged -/
theorem absCollapse_untouched (a b : Nat) (cells : List (List Nat)) (t : List Nat) (ht : t ∈ cells) (ha : a ∉ t) :
    t ∈ absCollapse a b cells := by
  refine (mem_absCollapse a b cells t).mpr ⟨t, ht, fun h => ha h.1, ?_⟩
  have : ∀ v ∈ t, substV a b v = v := by
    intro v hv; unfold substV; split
    · rename_i h; simp at h; subst h; exact absurd hv ha
    · rfl
  exact (List.map_congr_left this |>.trans (List.map_id t)).symm

/-- renaming `a` to `b` in a cell that does not contain both keeps its vertices distinct -/
theorem subst_nodup (a b : Nat) (t : List Nat) (hn : t.Nodup) (hboth : ¬(a ∈ t ∧ b ∈ t)) : (t.map (substV a b)).Nodup := by
  unfold List.Nodup at *
  rw [List.pairwise_map]
  refine List.Pairwise.imp_of_mem ?_ hn
  intro x y hx hy hxy e
  unfold substV at e
  by_cases h1 : x = a <;> by_cases h2 : y = a
  · exact hxy (h1.trans h2.symm)
  · simp [h1, h2] at e; subst h1; subst e; exact hboth ⟨hx, hy⟩
  · simp [h1, h2] at e; subst h2; subst e; exact hboth ⟨hy, hx⟩
  · simp [h1, h2] at e; exact hxy e

/-- renaming commutes with every even permutation: the orientation class is kept -/
theorem evenPerms_map (f : Nat → Nat) (t : List Nat) (hl : t.length = 4) :
    evenPerms (t.map f) = (evenPerms t).map (·.map f) := by
  match t, hl with
  | [x, y, z, w], _ => simp [evenPerms]

/-- every resulting cell is the renaming of a former cell without the edge, in the same orientation
    class; and four distinct vertices stay four distinct vertices -/
theorem absCollapse_spec (a b : Nat) (cells : List (List Nat)) (hq : ∀ t ∈ cells, t.length = 4 ∧ t.Nodup) :
    ∀ q ∈ absCollapse a b cells, q.length = 4 ∧ q.Nodup ∧
      ∃ t ∈ cells, ¬(a ∈ t ∧ b ∈ t) ∧ q = t.map (substV a b) ∧ evenPerms q = (evenPerms t).map (·.map (substV a b)) := by
  intro q hqm
  obtain ⟨t, ht, hn, rfl⟩ := (mem_absCollapse a b cells q).mp hqm
  refine ⟨by simp [(hq t ht).1], subst_nodup a b t (hq t ht).2 hn, t, ht, hn, rfl, evenPerms_map _ t (hq t ht).1⟩

/-! ### the returned handle -/

/-- the renumbering of the vertex handles other than `a` when `a` is removed at once:
    shift (`corr1`) or exchange-with-last (`relabelId a (n-1)`) -/
theorem survivingVertex_deferred (f : Bool) (a b n : Nat) : survivingVertex true f a b n = b := rfl

theorem survivingVertex_shift (a b n : Nat) : survivingVertex false false a b n = corr1 a b := by
  unfold survivingVertex corr1
  simp only [Bool.false_eq_true, if_false]

theorem survivingVertex_fast (a b n : Nat) (hab : a ≠ b) : survivingVertex false true a b n = relabelId a (n - 1) b := by
  unfold survivingVertex relabelId
  have : (b == a) = false := by simp; exact fun e => hab e.symm
  simp [this]

/-- a column value "travels with" the vertex: after erasing slot `a`, slot `corr1 a b` holds what slot `b` held -/
theorem eraseIdx_designates {α} (vals : List α) (a b : Nat) (hab : a ≠ b) : (vals.eraseIdx a)[corr1 a b]? = vals[b]? := by
  unfold corr1
  rw [List.getElem?_eraseIdx]
  by_cases h : b > a
  · have h1 : ¬ b - 1 < a := by omega
    have h2 : b - 1 + 1 = b := by omega
    simp [h, h1, h2]
  · have h1 : b < a := by omega
    simp [h, h1]

/-- … and after exchanging slot `a` with the last slot and dropping the last slot, slot
    `relabelId a (n-1) b` holds what slot `b` held -/
theorem swapPop_designates {α} (vals : List α) (a b : Nat) (ha : a < vals.length) (hb : b < vals.length) (hab : a ≠ b) :
    ((swapAt vals a (vals.length - 1)).eraseIdx (vals.length - 1))[relabelId a (vals.length - 1) b]? = vals[b]? := by
  have hn : vals.length - 1 < vals.length := by omega
  unfold relabelId
  have hba : (b == a) = false := by simp; exact fun e => hab e.symm
  simp only [hba, Bool.false_eq_true, if_false]
  rw [List.getElem?_eraseIdx]
  by_cases hbl : b = vals.length - 1
  · have hal : a < vals.length - 1 := by omega
    simp only [hbl, beq_self_eq_true, if_true, hal]
    rw [getElem?_swapAt vals a (vals.length - 1) a ha hn]
    have : ¬ a = vals.length - 1 := by omega
    simp [this]
  · have hbl' : b < vals.length - 1 := by omega
    have : (b == vals.length - 1) = false := by simp [hbl]
    simp only [this, Bool.false_eq_true, if_false, hbl', if_true]
    rw [getElem?_swapAt vals a (vals.length - 1) b ha hn]
    have h1 : ¬ b = a := fun e => hab e.symm
    simp [h1, hbl]


/-- M: the vertex property columns after `delete_vertex_core(a)` in immediate mode: the slot the
    prediction names holds the value that vertex `b` carried before — "the returned handle designates b" -/
theorem deleteVertexCore_designates (k : Kernel) (a b : Nat) (hd : k.deferred = false) (hab : a ≠ b)
    (ha : a < k.nV) (hb : b < k.nV) (c : Col) (hc : c ∈ k.props.v) (hlen : c.vals.length = k.nV) :
    ∃ c' ∈ (k.deleteVertexCore a).props.v, c'.key = c.key ∧
      c'.vals[survivingVertex false k.fast a b k.nV]? = c.vals[b]? := by
  unfold deleteVertexCore
  cases hf : k.fast
  · -- shift
    simp only [hd, hf, Bool.and_false, Bool.false_eq_true, if_false, Bool.not_false, Bool.and_true]
    simp only [eraseVertex_props, vertexDeleted]
    refine ⟨c.erase a, List.mem_map.mpr ⟨c, hc, rfl⟩, rfl, ?_⟩
    rw [survivingVertex_shift]
    exact eraseIdx_designates c.vals a b hab
  · -- exchange with the last slot, then drop it
    simp only [hd, hf, Bool.not_false, Bool.and_true, if_true, swapVertex_deferred, Bool.false_eq_true, if_false]
    simp only [eraseVertex_props, vertexDeleted]
    by_cases hal : a = k.nV - 1
    · -- a is the last slot already: `swap_vertex_indices(a, a)` does nothing
      have : k.swapVertex a (k.nV - 1) = k := by unfold swapVertex; simp [hal]
      rw [this]
      refine ⟨c.erase (k.nV - 1), List.mem_map.mpr ⟨c, hc, rfl⟩, rfl, ?_⟩
      rw [survivingVertex_fast _ _ _ hab]
      have hbl : b < k.nV - 1 := by omega
      have hne : ¬ b = k.nV - 1 := by omega
      have hba : ¬ b = a := fun e => hab e.symm
      unfold relabelId Col.erase
      simp only [beq_iff_eq, hba, hne, if_false]
      rw [List.getElem?_eraseIdx]; simp [hbl]
    · have hp : (k.swapVertex a (k.nV - 1)).props = swapVProps k.props a (k.nV - 1) := by
        unfold swapVertex; simp [hal]
      rw [hp]
      refine ⟨(c.swap a (k.nV - 1)).erase (k.nV - 1), ?_, rfl, ?_⟩
      · simp only [swapVProps, List.mem_map]
        exact ⟨c.swap a (k.nV - 1), ⟨c, hc, rfl⟩, rfl⟩
      · rw [survivingVertex_fast _ _ _ hab]
        have := swapPop_designates c.vals a b (by omega) (by omega) hab
        rw [hlen] at this
        exact this

end Kernel
end OVM

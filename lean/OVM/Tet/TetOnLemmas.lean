import OVM.Tet.TetLemmas
import OVM.Tet.ShapeTet
/-
  Combinatorics of `TetOn` / `IsTet` (OVM/Tet/Spec.lean): rotations of three-cycles, the canonical way to
  establish `TetOn` from four vertex cycles, invariance under the order of the halfface list, under rotation
  of the base triangle, under an injective renaming of the vertices, and under any change of state that keeps
  the vertex cycles of the cell's halffaces.  Vertex level only: nothing here looks at halfedge handles.
-/
namespace OVM
namespace Kernel

/-! ### rotations -/

theorem map_rotateLeft' (f : Nat → Nat) (l : List Nat) (n : Nat) : (l.rotateLeft n).map f = (l.map f).rotateLeft n := by
  unfold List.rotateLeft
  simp only [List.length_map]
  split
  · rfl
  · simp [List.map_drop, List.map_take]

theorem Rot.map {a b : List Nat} (h : Rot a b) (f : Nat → Nat) : Rot (a.map f) (b.map f) := by
  rcases h with rfl | rfl | rfl
  · exact Or.inl rfl
  · exact Or.inr (Or.inl (map_rotateLeft' f b 1))
  · exact Or.inr (Or.inr (map_rotateLeft' f b 2))

theorem Rot.length {a b : List Nat} (h : Rot a b) : a.length = b.length := by
  rcases h with rfl | rfl | rfl
  · rfl
  · exact List.length_rotateLeft ..
  · exact List.length_rotateLeft ..

theorem Rot.trans3 {a b c : List Nat} (h1 : Rot a b) (h2 : Rot b c) (hc : c.length = 3) : Rot a c := by
  match c, hc with
  | [x, y, z], _ =>
    rcases (rot_three b x y z).mp h2 with rfl | rfl | rfl <;>
      rcases (rot_three a _ _ _).mp h1 with rfl | rfl | rfl <;> simp [rot_three]

theorem rot_cycle1 (x y z : Nat) : Rot [y, z, x] [x, y, z] := (rot_three _ x y z).mpr (Or.inr (Or.inl rfl))
theorem rot_cycle2 (x y z : Nat) : Rot [z, x, y] [x, y, z] := (rot_three _ x y z).mpr (Or.inr (Or.inr rfl))

/-- a rotation of the images is a rotation of the originals when the renaming is injective on them -/
theorem rot_of_map {a b : List Nat} (f : Nat → Nat) (hb : b.length = 3)
    (hinj : ∀ x ∈ a ++ b, ∀ y ∈ a ++ b, f x = f y → x = y) (h : Rot (a.map f) (b.map f)) : Rot a b := by
  have hl : a.length = 3 := by have := h.length; simpa [hb] using this
  match a, hl, b, hb with
  | [a0, a1, a2], _, [x, y, z], _ =>
    simp only [List.map_cons, List.map_nil] at h
    have I : ∀ u ∈ [a0, a1, a2, x, y, z], ∀ v ∈ [a0, a1, a2, x, y, z], f u = f v → u = v := by
      intro u hu v hv; exact hinj u (by simpa using hu) v (by simpa using hv)
    rcases (rot_three _ _ _ _).mp h with e | e | e <;> simp only [List.cons.injEq, and_true] at e
    · exact (rot_three _ x y z).mpr (Or.inl (by
        rw [I a0 (by simp) x (by simp) e.1, I a1 (by simp) y (by simp) e.2.1, I a2 (by simp) z (by simp) e.2.2]))
    · exact (rot_three _ x y z).mpr (Or.inr (Or.inl (by
        rw [I a0 (by simp) y (by simp) e.1, I a1 (by simp) z (by simp) e.2.1, I a2 (by simp) x (by simp) e.2.2])))
    · exact (rot_three _ x y z).mpr (Or.inr (Or.inr (by
        rw [I a0 (by simp) z (by simp) e.1, I a1 (by simp) x (by simp) e.2.1, I a2 (by simp) y (by simp) e.2.2])))

/-! ### `tris` -/

theorem tris_map (f : Nat → Nat) (p q r s : Nat) : (tris p q r s).map (·.map f) = tris (f p) (f q) (f r) (f s) := by
  simp [tris]

/-- two triangles of a tetrahedron in the same rotation class are equal -/
theorem tris_class_eq (p q r s : Nat) (hd : [p, q, r, s].Nodup) (t1 t2 : List Nat)
    (h1 : t1 ∈ tris p q r s) (h2 : t2 ∈ tris p q r s) (x : List Nat) (r1 : Rot x t1) (r2 : Rot x t2) : t1 = t2 := by
  by_cases e : t1 = t2
  · exact e
  · exfalso
    obtain ⟨w, hw2, hw1, _⟩ := tris_pair p q r s hd t1 t2 h1 h2 e
    exact hw1 ((r1.mem_iff (tris_length p q r s t1 h1) w).mp ((r2.mem_iff (tris_length p q r s t2 h2) w).mpr hw2))

/-! ### `TetOn` does not depend on the order of the halfface list -/
theorem TetOn.perm {k : Kernel} {hs hs' : List Nat} {p q r s : Nat} (h : TetOn k hs p q r s) (hp : hs'.Perm hs) :
    TetOn k hs' p q r s := by
  obtain ⟨a, b, c, d, e, f⟩ := h
  refine ⟨a, by rw [hp.length_eq]; exact b, hp.nodup_iff.mpr c, ?_, ?_, ?_⟩
  · intro h hh; exact d h (hp.mem_iff.mp hh)
  · intro t ht; obtain ⟨h, hh, hr⟩ := e t ht; exact ⟨h, hp.mem_iff.mpr hh, hr⟩
  · intro h hh h' hh' t ht r1 r2; exact f h (hp.mem_iff.mp hh) h' (hp.mem_iff.mp hh') t ht r1 r2

/-- … nor on which rotation of the base triangle is named -/
theorem TetOn.rot_base {k : Kernel} {hs : List Nat} {p q r s : Nat} (h : TetOn k hs p q r s) : TetOn k hs q r p s := by
  obtain ⟨a, b, c, d, e, f⟩ := h
  have hd' : [q, r, p, s].Nodup := by
    simp only [List.nodup_cons, List.mem_cons, List.not_mem_nil, or_false, not_or, List.nodup_nil, and_true] at a ⊢
    obtain ⟨⟨h1, h2, h3⟩, ⟨h4, h5⟩, h6, _⟩ := a
    exact ⟨⟨h4, Ne.symm h1, h5⟩, ⟨Ne.symm h2, h6⟩, h3, not_false⟩
  -- every triangle of the one family is a rotation of one of the other
  have key : ∀ t ∈ tris q r p s, ∃ t' ∈ tris p q r s, Rot t t' ∧ Rot t' t := by
    intro t ht
    simp only [tris, List.mem_cons, List.not_mem_nil, or_false] at ht
    rcases ht with rfl | rfl | rfl | rfl
    · exact ⟨[p, q, r], by simp [tris], rot_cycle1 p q r, rot_cycle2 q r p⟩
    · exact ⟨[r, q, s], by simp [tris], rot_refl _, rot_refl _⟩
    · exact ⟨[p, r, s], by simp [tris], rot_refl _, rot_refl _⟩
    · exact ⟨[q, p, s], by simp [tris], rot_refl _, rot_refl _⟩
  have key' : ∀ t' ∈ tris p q r s, ∃ t ∈ tris q r p s, Rot t t' ∧ Rot t' t := by
    intro t ht
    simp only [tris, List.mem_cons, List.not_mem_nil, or_false] at ht
    rcases ht with rfl | rfl | rfl | rfl
    · exact ⟨[q, r, p], by simp [tris], rot_cycle1 p q r, rot_cycle2 q r p⟩
    · exact ⟨[q, p, s], by simp [tris], rot_refl _, rot_refl _⟩
    · exact ⟨[r, q, s], by simp [tris], rot_refl _, rot_refl _⟩
    · exact ⟨[p, r, s], by simp [tris], rot_refl _, rot_refl _⟩
  refine ⟨hd', b, c, ?_, ?_, ?_⟩
  · intro h hh
    obtain ⟨t', ht', hr⟩ := d h hh
    obtain ⟨t, ht, _, r2⟩ := key' t' ht'
    exact ⟨t, ht, hr.trans3 r2 (tris_length _ _ _ _ t ht)⟩
  · intro t ht
    obtain ⟨t', ht', r1, _⟩ := key t ht
    obtain ⟨h, hh, hr⟩ := e t' ht'
    exact ⟨h, hh, hr.trans3 (Rot.symm3 r1 (tris_length _ _ _ _ t' ht')) (tris_length _ _ _ _ t ht)⟩
  · intro h hh h' hh' t ht r1 r2
    obtain ⟨t', ht', q1, _⟩ := key t ht
    exact f h hh h' hh' t' ht' (r1.trans3 q1 (tris_length _ _ _ _ t' ht')) (r2.trans3 q1 (tris_length _ _ _ _ t' ht'))
  where rot_refl (a : List Nat) : Rot a a := Or.inl rfl

end Kernel
end OVM

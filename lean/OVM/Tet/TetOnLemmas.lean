import OVM.Tet.TetLemmas
import OVM.Tet.ShapeTet
/-
  Combinatorics of `TetOn` / `IsTet` (OVM/Tet/Spec.lean): rotations of three-cycles, the canonical way to
  establish `TetOn` from four vertex cycles, invariance under the order of the halfface list, under rotation
  of the base triangle, under an injective renaming of the vertices, and under any change of state that keeps
  the vertex cycles of the cell's halffaces.  Vertex level only: nothing here looks at halfedge handles.
-/
namespace OVM
namespace Kernel

/-! ### rotations -/

theorem map_rotateLeft' (f : Nat → Nat) (l : List Nat) (n : Nat) : (l.rotateLeft n).map f = (l.map f).rotateLeft n := by
  unfold List.rotateLeft
  simp only [List.length_map]
  split
  · rfl
  · simp [List.map_drop, List.map_take]

theorem Rot.map {a b : List Nat} (h : Rot a b) (f : Nat → Nat) : Rot (a.map f) (b.map f) := by
  rcases h with rfl | rfl | rfl
  · exact Or.inl rfl
  · exact Or.inr (Or.inl (map_rotateLeft' f b 1))
  · exact Or.inr (Or.inr (map_rotateLeft' f b 2))

theorem Rot.length {a b : List Nat} (h : Rot a b) : a.length = b.length := by
  have hl : ∀ (l : List Nat) (n : Nat), (l.rotateLeft n).length = l.length := by
    intro l n; unfold List.rotateLeft; simp only; split
    · rfl
    · simp only [List.length_append, List.length_drop, List.length_take]
      have := Nat.mod_lt n (show 0 < l.length by omega)
      omega
  rcases h with rfl | rfl | rfl
  · rfl
  · exact hl _ _
  · exact hl _ _

theorem Rot.trans3 {a b c : List Nat} (h1 : Rot a b) (h2 : Rot b c) (hc : c.length = 3) : Rot a c := by
  match c, hc with
  | [x, y, z], _ =>
    rcases (rot_three b x y z).mp h2 with rfl | rfl | rfl <;>
      rcases (rot_three a _ _ _).mp h1 with rfl | rfl | rfl <;> simp [rot_three]

theorem rot_cycle1 (x y z : Nat) : Rot [y, z, x] [x, y, z] := (rot_three _ x y z).mpr (Or.inr (Or.inl rfl))
theorem rot_cycle2 (x y z : Nat) : Rot [z, x, y] [x, y, z] := (rot_three _ x y z).mpr (Or.inr (Or.inr rfl))

/-- a rotation of the images is a rotation of the originals when the renaming is injective on them -/
theorem rot_of_map {a b : List Nat} (f : Nat → Nat) (hb : b.length = 3)
    (hinj : ∀ x ∈ a ++ b, ∀ y ∈ a ++ b, f x = f y → x = y) (h : Rot (a.map f) (b.map f)) : Rot a b := by
  have hl : a.length = 3 := by have := h.length; simpa [hb] using this
  match a, hl, b, hb with
  | [a0, a1, a2], _, [x, y, z], _ =>
    simp only [List.map_cons, List.map_nil] at h
    have I : ∀ u ∈ [a0, a1, a2, x, y, z], ∀ v ∈ [a0, a1, a2, x, y, z], f u = f v → u = v := by
      intro u hu v hv; exact hinj u (by simpa using hu) v (by simpa using hv)
    rcases (rot_three _ _ _ _).mp h with e | e | e <;> simp only [List.cons.injEq, and_true] at e
    · exact (rot_three _ x y z).mpr (Or.inl (by
        rw [I a0 (by simp) x (by simp) e.1, I a1 (by simp) y (by simp) e.2.1, I a2 (by simp) z (by simp) e.2.2]))
    · exact (rot_three _ x y z).mpr (Or.inr (Or.inl (by
        rw [I a0 (by simp) y (by simp) e.1, I a1 (by simp) z (by simp) e.2.1, I a2 (by simp) x (by simp) e.2.2])))
    · exact (rot_three _ x y z).mpr (Or.inr (Or.inr (by
        rw [I a0 (by simp) z (by simp) e.1, I a1 (by simp) x (by simp) e.2.1, I a2 (by simp) y (by simp) e.2.2])))

/-! ### `tris` -/

theorem tris_map (f : Nat → Nat) (p q r s : Nat) : (tris p q r s).map (·.map f) = tris (f p) (f q) (f r) (f s) := by
  simp [tris]

/-- two triangles of a tetrahedron in the same rotation class are equal -/
theorem tris_class_eq (p q r s : Nat) (hd : [p, q, r, s].Nodup) (t1 t2 : List Nat)
    (h1 : t1 ∈ tris p q r s) (h2 : t2 ∈ tris p q r s) (x : List Nat) (r1 : Rot x t1) (r2 : Rot x t2) : t1 = t2 := by
  by_cases e : t1 = t2
  · exact e
  · exfalso
    obtain ⟨w, hw2, hw1, _⟩ := tris_pair p q r s hd t1 t2 h1 h2 e
    exact hw1 ((r1.mem_iff (tris_length p q r s t1 h1) w).mp ((r2.mem_iff (tris_length p q r s t2 h2) w).mpr hw2))

/-- the vertices met by the halffaces of a `TetOn` list are exactly `p, q, r, s` -/
theorem TetOn.mem_verts {k : Kernel} {hs : List Nat} {p q r s : Nat} (hT : TetOn k hs p q r s) :
    ∀ x, x ∈ hs.flatMap k.hfVerts ↔ x ∈ [p, q, r, s] := by
  have hd := hT.1
  intro x
  rw [List.mem_flatMap]
  constructor
  · rintro ⟨h, hm, hx⟩
    obtain ⟨t, htt, hr⟩ := hT.2.2.2.1 h hm
    obtain ⟨_, _, _, _, hsub⟩ := tri_apex p q r s hd t htt
    exact hsub x ((hr.mem_iff (tris_length p q r s t htt) x).mp hx)
  · intro hx
    have : x ∈ [p, q, r] ∨ x ∈ [q, p, s] := by
      simp only [List.mem_cons, List.not_mem_nil, or_false] at hx ⊢
      rcases hx with e | e | e | e <;> simp [e]
    rcases this with h1 | h1
    · obtain ⟨h, hm, hr⟩ := hT.2.2.2.2.1 [p, q, r] (by simp [tris])
      exact ⟨h, hm, (hr.mem_iff rfl x).mpr h1⟩
    · obtain ⟨h, hm, hr⟩ := hT.2.2.2.2.1 [q, p, s] (by simp [tris])
      exact ⟨h, hm, (hr.mem_iff rfl x).mpr h1⟩

/-! ### `TetOn` does not depend on the order of the halfface list -/
theorem TetOn.perm {k : Kernel} {hs hs' : List Nat} {p q r s : Nat} (h : TetOn k hs p q r s) (hp : hs'.Perm hs) :
    TetOn k hs' p q r s := by
  obtain ⟨a, b, c, d, e, f⟩ := h
  refine ⟨a, by rw [hp.length_eq]; exact b, hp.nodup_iff.mpr c, ?_, ?_, ?_⟩
  · intro h hh; exact d h (hp.mem_iff.mp hh)
  · intro t ht; obtain ⟨h, hh, hr⟩ := e t ht; exact ⟨h, hp.mem_iff.mpr hh, hr⟩
  · intro h hh h' hh' t ht r1 r2; exact f h (hp.mem_iff.mp hh) h' (hp.mem_iff.mp hh') t ht r1 r2

/-- … nor on which rotation of the base triangle is named -/
theorem TetOn.rot_base {k : Kernel} {hs : List Nat} {p q r s : Nat} (h : TetOn k hs p q r s) : TetOn k hs q r p s := by
  obtain ⟨a, b, c, d, e, f⟩ := h
  have hd' : [q, r, p, s].Nodup := by
    simp only [List.nodup_cons, List.mem_cons, List.not_mem_nil, or_false, not_or, List.nodup_nil, and_true] at a ⊢
    obtain ⟨⟨h1, h2, h3⟩, ⟨h4, h5⟩, h6, _⟩ := a
    exact ⟨⟨h4, Ne.symm h1, h5⟩, ⟨Ne.symm h2, h6⟩, h3, not_false⟩
  -- every triangle of the one family is a rotation of one of the other
  have key : ∀ t ∈ tris q r p s, ∃ t' ∈ tris p q r s, Rot t t' ∧ Rot t' t := by
    intro t ht
    simp only [tris, List.mem_cons, List.not_mem_nil, or_false] at ht
    rcases ht with rfl | rfl | rfl | rfl
    · exact ⟨[p, q, r], by simp [tris], rot_cycle1 p q r, rot_cycle2 q r p⟩
    · exact ⟨[r, q, s], by simp [tris], rot_refl _, rot_refl _⟩
    · exact ⟨[p, r, s], by simp [tris], rot_refl _, rot_refl _⟩
    · exact ⟨[q, p, s], by simp [tris], rot_refl _, rot_refl _⟩
  have key' : ∀ t' ∈ tris p q r s, ∃ t ∈ tris q r p s, Rot t t' ∧ Rot t' t := by
    intro t ht
    simp only [tris, List.mem_cons, List.not_mem_nil, or_false] at ht
    rcases ht with rfl | rfl | rfl | rfl
    · exact ⟨[q, r, p], by simp [tris], rot_cycle1 p q r, rot_cycle2 q r p⟩
    · exact ⟨[q, p, s], by simp [tris], rot_refl _, rot_refl _⟩
    · exact ⟨[r, q, s], by simp [tris], rot_refl _, rot_refl _⟩
    · exact ⟨[p, r, s], by simp [tris], rot_refl _, rot_refl _⟩
  refine ⟨hd', b, c, ?_, ?_, ?_⟩
  · intro h hh
    obtain ⟨t', ht', hr⟩ := d h hh
    obtain ⟨t, ht, _, r2⟩ := key' t' ht'
    exact ⟨t, ht, hr.trans3 r2 (tris_length _ _ _ _ t ht)⟩
  · intro t ht
    obtain ⟨t', ht', r1, _⟩ := key t ht
    obtain ⟨h, hh, hr⟩ := e t' ht'
    exact ⟨h, hh, hr.trans3 (Rot.symm3 r1 (tris_length _ _ _ _ t' ht')) (tris_length _ _ _ _ t ht)⟩
  · intro h hh h' hh' t ht r1 r2
    obtain ⟨t', ht', q1, _⟩ := key t ht
    exact f h hh h' hh' t' ht' (r1.trans3 q1 (tris_length _ _ _ _ t' ht')) (r2.trans3 q1 (tris_length _ _ _ _ t' ht'))
  where rot_refl (a : List Nat) : Rot a a := Or.inl rfl

/-! ### pigeonhole on four -/
def pick4 (j0 j1 j2 j3 : Fin 4) (i : Fin 4) : Fin 4 :=
  match i with | 0 => j0 | 1 => j1 | 2 => j2 | 3 => j3

theorem fin4_surj_inj : ∀ j0 j1 j2 j3 : Fin 4, (∀ j : Fin 4, ∃ i : Fin 4, pick4 j0 j1 j2 j3 i = j) →
    ∀ i i' : Fin 4, pick4 j0 j1 j2 j3 i = pick4 j0 j1 j2 j3 i' → i = i' := by decide

theorem pick4_self (c : Fin 4 → Fin 4) (i : Fin 4) : pick4 (c 0) (c 1) (c 2) (c 3) i = c i := by
  match i with
  | 0 => rfl
  | 1 => rfl
  | 2 => rfl
  | 3 => rfl

theorem fin4_fun_surj_inj (c : Fin 4 → Fin 4) (hs : ∀ j, ∃ i, c i = j) : ∀ i i', c i = c i' → i = i' := by
  intro i i' h
  apply fin4_surj_inj (c 0) (c 1) (c 2) (c 3)
  · intro j; obtain ⟨i, hi⟩ := hs j; exact ⟨i, by rw [pick4_self]; exact hi⟩
  · rw [pick4_self, pick4_self]; exact h

/-- pigeonhole on four: a total, functional, surjective relation from a 4-list to a duplicate-free 4-list is injective -/
theorem pigeon4 (R : Nat → List Nat → Prop) (l : List Nat) (T : List (List Nat)) (hl : l.length = 4) (hTl : T.length = 4)
    (hT : T.Nodup) (fn : ∀ a t t', t ∈ T → t' ∈ T → R a t → R a t' → t = t')
    (tot : ∀ a ∈ l, ∃ t ∈ T, R a t) (surj : ∀ t ∈ T, ∃ a ∈ l, R a t) :
    l.Nodup ∧ ∀ a ∈ l, ∀ a' ∈ l, ∀ t ∈ T, R a t → R a' t → a = a' := by
  have c : ∀ i : Fin 4, ∃ j : Fin 4, R (l[i.val]'(by omega)) (T[j.val]'(by omega)) := by
    intro i
    obtain ⟨t, ht, hr⟩ := tot (l[i.val]'(by omega)) (List.getElem_mem _)
    obtain ⟨j, hj, rfl⟩ := List.getElem_of_mem ht
    exact ⟨⟨j, by omega⟩, hr⟩
  let cf : Fin 4 → Fin 4 := fun i => Classical.choose (c i)
  have hcf : ∀ i : Fin 4, R (l[i.val]'(by omega)) (T[(cf i).val]'(by omega)) := fun i => Classical.choose_spec (c i)
  have tinj : ∀ j j' : Fin 4, T[j.val]'(by omega) = T[j'.val]'(by omega) → j = j' := by
    intro j j' e
    have := (List.getElem_inj hT).mp e
    exact Fin.ext this
  have hs : ∀ j, ∃ i, cf i = j := by
    intro j
    obtain ⟨a, ha, hr⟩ := surj (T[j.val]'(by omega)) (List.getElem_mem _)
    obtain ⟨i, hi, rfl⟩ := List.getElem_of_mem ha
    refine ⟨⟨i, by omega⟩, tinj _ _ ?_⟩
    exact fn _ _ _ (List.getElem_mem _) (List.getElem_mem _) (hcf ⟨i, by omega⟩) hr
  have cinj := fin4_fun_surj_inj cf hs
  have key : ∀ i i' : Fin 4, ∀ t ∈ T, R (l[i.val]'(by omega)) t → R (l[i'.val]'(by omega)) t → i = i' := by
    intro i i' t ht r1 r2
    apply cinj
    apply tinj
    rw [fn _ _ _ (List.getElem_mem _) ht (hcf i) r1, fn _ _ _ (List.getElem_mem _) ht (hcf i') r2]
  constructor
  · unfold List.Nodup
    rw [List.pairwise_iff_getElem]
    intro i j hi hj hij e
    have hj' : j < 4 := by omega
    have := key ⟨i, by omega⟩ ⟨j, hj'⟩ _ (List.getElem_mem _) (hcf ⟨i, by omega⟩) (by
      show R (l[j]'(by omega)) _
      rw [← e]; exact hcf ⟨i, by omega⟩)
    have := congrArg Fin.val this
    simp at this; omega
  · intro a ha a' ha' t ht r1 r2
    obtain ⟨i, hi, rfl⟩ := List.getElem_of_mem ha
    obtain ⟨i', hi', rfl⟩ := List.getElem_of_mem ha'
    have := key ⟨i, by omega⟩ ⟨i', by omega⟩ t ht r1 r2
    have := congrArg Fin.val this
    simp at this; subst this; rfl

/-! ### `TetOn` from a cover of the four triangles -/

theorem tris_list_nodup (p q r s : Nat) (hd : [p, q, r, s].Nodup) : (tris p q r s).Nodup := by
  simp only [List.nodup_cons, List.mem_cons, List.not_mem_nil, or_false, not_or, List.nodup_nil, and_true] at hd
  obtain ⟨⟨hpq, hpr, hps⟩, ⟨hqr, hqs⟩, hrs, _⟩ := hd
  simp only [tris, List.nodup_cons, List.mem_cons, List.not_mem_nil, or_false, not_or, List.nodup_nil, and_true,
    List.cons.injEq, not_and]
  refine ⟨⟨fun e => absurd e hpq, fun e => absurd e hpr, fun _ e => absurd e hqr⟩,
    ⟨fun e => absurd e hqr, fun e => absurd e.symm hpq⟩, fun e => absurd e.symm hpr, not_false⟩

/-- four halffaces, each in the rotation class of a triangle of the tetrahedron, every triangle hit: then
    they are pairwise different and correspond one to one to the triangles -/
theorem tetOn_of_cover {k : Kernel} {hs : List Nat} {p q r s : Nat} (hd : [p, q, r, s].Nodup) (hl : hs.length = 4)
    (tot : ∀ h ∈ hs, ∃ t ∈ tris p q r s, Rot (k.hfVerts h) t)
    (surj : ∀ t ∈ tris p q r s, ∃ h ∈ hs, Rot (k.hfVerts h) t) : TetOn k hs p q r s := by
  obtain ⟨n, inj⟩ := pigeon4 (fun h t => Rot (k.hfVerts h) t) hs (tris p q r s) hl rfl (tris_list_nodup p q r s hd)
    (fun a t t' ht ht' r1 r2 => tris_class_eq p q r s hd t t' ht ht' _ r1 r2) tot surj
  exact ⟨hd, hl, n, tot, surj, inj⟩

/-- the canonical instance: halffaces on `(p,q,r)`, `(q,p,s)`, `(r,q,s)`, `(p,r,s)` -/
theorem tetOn_canon {k : Kernel} {a b c d p q r s : Nat} (hd : [p, q, r, s].Nodup)
    (ra : Rot (k.hfVerts a) [p, q, r]) (rb : Rot (k.hfVerts b) [q, p, s]) (rc : Rot (k.hfVerts c) [r, q, s])
    (rd : Rot (k.hfVerts d) [p, r, s]) : TetOn k [a, b, c, d] p q r s := by
  apply tetOn_of_cover hd rfl
  · intro h hh
    simp only [List.mem_cons, List.not_mem_nil, or_false] at hh
    rcases hh with rfl | rfl | rfl | rfl
    · exact ⟨_, by simp [tris], ra⟩
    · exact ⟨_, by simp [tris], rb⟩
    · exact ⟨_, by simp [tris], rc⟩
    · exact ⟨_, by simp [tris], rd⟩
  · intro t ht
    simp only [tris, List.mem_cons, List.not_mem_nil, or_false] at ht
    rcases ht with rfl | rfl | rfl | rfl
    · exact ⟨a, by simp, ra⟩
    · exact ⟨b, by simp, rb⟩
    · exact ⟨c, by simp, rc⟩
    · exact ⟨d, by simp, rd⟩

/-- **renaming**: if the new halffaces carry, one for one, the renamed vertex cycles of the old ones (up to
    rotation) and the four renamed vertices are still distinct, the new halffaces form the renamed tetrahedron
    (also across two states; with `f = id` this is invariance under any change that keeps the vertex cycles) -/
theorem TetOn.transfer {k k' : Kernel} {hs hs' : List Nat} {p q r s : Nat} (f : Nat → Nat) (h : TetOn k hs p q r s)
    (hd : [f p, f q, f r, f s].Nodup) (hl : hs'.length = 4)
    (fwd : ∀ y ∈ hs', ∃ x ∈ hs, Rot (k'.hfVerts y) ((k.hfVerts x).map f))
    (bwd : ∀ x ∈ hs, ∃ y ∈ hs', Rot (k'.hfVerts y) ((k.hfVerts x).map f)) :
    TetOn k' hs' (f p) (f q) (f r) (f s) := by
  apply tetOn_of_cover hd hl
  · intro y hy
    obtain ⟨x, hx, rx⟩ := fwd y hy
    obtain ⟨t, ht, rt⟩ := h.2.2.2.1 x hx
    refine ⟨t.map f, ?_, rx.trans3 (rt.map f) (by simp [tris_length p q r s t ht])⟩
    rw [← tris_map]; exact List.mem_map.mpr ⟨t, ht, rfl⟩
  · intro t' ht'
    rw [← tris_map] at ht'
    obtain ⟨t, ht, rfl⟩ := List.mem_map.mp ht'
    obtain ⟨x, hx, rt⟩ := h.2.2.2.2.1 t ht
    obtain ⟨y, hy, ry⟩ := bwd x hx
    exact ⟨y, hy, ry.trans3 (rt.map f) (by simp [tris_length p q r s t ht])⟩

/-- `IsTet` from `TetOn` on the stored vertex cycle of the first halfface -/
theorem isTet_of_tetOn {k : Kernel} {c p q r s : Nat} (hv : k.hfVerts ((k.cellAt c).headD 0) = [p, q, r])
    (h : TetOn k (k.cellAt c) p q r s) : IsTet k c := by
  unfold IsTet
  rw [hv]
  exact ⟨s, (cellVertSet_mem_iff h s).mpr (by simp), h⟩

/-- `IsTet` from `TetOn` on any rotation of the first halfface's cycle -/
theorem isTet_of_tetOn_rot {k : Kernel} {c p q r s : Nat} (hv : Rot (k.hfVerts ((k.cellAt c).headD 0)) [p, q, r])
    (h : TetOn k (k.cellAt c) p q r s) : IsTet k c := by
  rcases (rot_three _ p q r).mp hv with e | e | e
  · exact isTet_of_tetOn e h
  · exact isTet_of_tetOn e h.rot_base
  · exact isTet_of_tetOn e h.rot_base.rot_base

/-! ### consecutive pairs in three-cycles; list helpers -/

/-- `b` follows `a` cyclically in the three-cycle `l` -/
def Consec (l : List Nat) (a b : Nat) : Prop :=
  match l with
  | [x, y, z] => (a = x ∧ b = y) ∨ (a = y ∧ b = z) ∨ (a = z ∧ b = x)
  | _ => False

theorem tris_consec (p q r s : Nat) {a b : Nat} (ha : a ∈ [p, q, r, s]) (hb : b ∈ [p, q, r, s]) (hab : a ≠ b) :
    ∃ t ∈ tris p q r s, Consec t a b := by
  simp only [List.mem_cons, List.not_mem_nil, or_false] at ha hb
  have m0 : [p, q, r] ∈ tris p q r s := by simp [tris]
  have m1 : [q, p, s] ∈ tris p q r s := by simp [tris]
  have m2 : [r, q, s] ∈ tris p q r s := by simp [tris]
  have m3 : [p, r, s] ∈ tris p q r s := by simp [tris]
  rcases ha with ha | ha | ha | ha <;> rcases hb with hb | hb | hb | hb <;>
    first
    | exact absurd (ha.trans hb.symm) hab
    | (refine ⟨_, m0, ?_⟩; simp [Consec, ha, hb]; done)
    | (refine ⟨_, m1, ?_⟩; simp [Consec, ha, hb]; done)
    | (refine ⟨_, m2, ?_⟩; simp [Consec, ha, hb]; done)
    | (refine ⟨_, m3, ?_⟩; simp [Consec, ha, hb]; done)

theorem rot_consec {x t : List Nat} {a b : Nat} (hr : Rot x t) (ht : t.length = 3) (h : Consec t a b) : Consec x a b := by
  match t, ht with
  | [u, v, w], _ =>
    rcases (rot_three x u v w).mp hr with rfl | rfl | rfl <;> simp only [Consec] at h ⊢ <;>
      rcases h with h | h | h <;> simp [h]

theorem consec_of_rot {x t : List Nat} {a b : Nat} (hr : Rot x t) (hx : x.length = 3) (h : Consec x a b) : Consec t a b := by
  have ht : t.length = 3 := by rw [← hr.length]; exact hx
  exact rot_consec (Rot.symm3 hr ht) hx h

/-- every ordered pair of vertices is run through by exactly one of the four triangles -/
theorem tris_consec_unique (p q r s : Nat) (hd : [p, q, r, s].Nodup) {t1 t2 : List Nat} (h1 : t1 ∈ tris p q r s)
    (h2 : t2 ∈ tris p q r s) {u v : Nat} (c1 : Consec t1 u v) (c2 : Consec t2 u v) : t1 = t2 := by
  simp only [List.nodup_cons, List.mem_cons, List.not_mem_nil, or_false, not_or, List.nodup_nil, and_true] at hd
  obtain ⟨⟨hpq, hpr, hps⟩, ⟨hqr, hqs⟩, hrs, _⟩ := hd
  simp only [tris, List.mem_cons, List.not_mem_nil, or_false] at h1 h2
  rcases h1 with rfl | rfl | rfl | rfl <;> rcases h2 with rfl | rfl | rfl | rfl <;>
    first
    | rfl
    | (exfalso
       simp only [Consec] at c1 c2
       rcases c1 with ⟨rfl, rfl⟩ | ⟨rfl, rfl⟩ | ⟨rfl, rfl⟩ <;> rcases c2 with ⟨e1, e2⟩ | ⟨e1, e2⟩ | ⟨e1, e2⟩ <;>
         first
         | exact hpq e1 | exact hpq e1.symm | exact hpr e1 | exact hpr e1.symm | exact hps e1 | exact hps e1.symm
         | exact hqr e1 | exact hqr e1.symm | exact hqs e1 | exact hqs e1.symm | exact hrs e1 | exact hrs e1.symm
         | exact hpq e2 | exact hpq e2.symm | exact hpr e2 | exact hpr e2.symm | exact hps e2 | exact hps e2.symm
         | exact hqr e2 | exact hqr e2.symm | exact hqs e2 | exact hqs e2.symm | exact hrs e2 | exact hrs e2.symm)

theorem nodup_map_inj {α β} (f : α → β) : ∀ (l : List α), (l.map f).Nodup → ∀ x ∈ l, ∀ y ∈ l, f x = f y → x = y := by
  intro l
  induction l with
  | nil => intro _ x hx; cases hx
  | cons a t ih =>
    intro hn x hx y hy e
    simp only [List.map_cons, List.nodup_cons, List.mem_map, not_exists, not_and] at hn
    rcases List.mem_cons.mp hx with rfl | hx' <;> rcases List.mem_cons.mp hy with rfl | hy'
    · rfl
    · exact absurd e.symm (hn.1 y hy')
    · exact absurd e (hn.1 x hx')
    · exact ih hn.2 x hx' y hy' e

theorem nodup_of_map' {α β} (f : α → β) : ∀ l : List α, (l.map f).Nodup → l.Nodup := by
  intro l
  induction l with
  | nil => intro _; exact List.nodup_nil
  | cons a t ih =>
    intro h
    simp only [List.map_cons, List.nodup_cons, List.mem_map, not_exists, not_and] at h
    exact List.nodup_cons.mpr ⟨fun hm => h.1 a hm rfl, ih h.2⟩

theorem nodup_map_on' {α β} (f : α → β) : ∀ l : List α, (∀ x ∈ l, ∀ y ∈ l, f x = f y → x = y) → l.Nodup → (l.map f).Nodup := by
  intro l
  induction l with
  | nil => intro _ _; exact List.nodup_nil
  | cons a t ih =>
    intro hinj hn
    have hn' := List.nodup_cons.mp hn
    simp only [List.map_cons]
    refine List.nodup_cons.mpr ⟨?_, ih (fun x hx y hy => hinj x (List.mem_cons_of_mem _ hx) y (List.mem_cons_of_mem _ hy)) hn'.2⟩
    intro hm
    obtain ⟨y, hy, e⟩ := List.mem_map.mp hm
    have := hinj y (List.mem_cons_of_mem _ hy) a (by simp) e
    subst this
    exact hn'.1 hy


end Kernel
end OVM

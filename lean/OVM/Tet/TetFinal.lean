import OVM.Tet.TetStable
import OVM.Tet.TetGCQuadsFast
import OVM.Tet.TetCellV
import OVM.Tet.CollapseGInv
/-
  C15, the two closing statements.

  * `collapse_refines_all`: `collapse_edge(a → b)` on an edge satisfying the link condition refines the abstract collapse
    in ALL FOUR deletion modes.  In deferred mode handles do not move; in the two immediate modes the operation ends with
    `collect_garbage`, which renumbers the vertices by `collapseRenum` (shift: `corr1 a`; fast: exchange of `a` with the
    last vertex) — the canonical oriented quadruples of the live cells are those of the abstract collapse under that
    renumbering, and the returned handle is the renumbered `b`.  No hypothesis beyond the global invariant, the caches,
    closed triangular faces and the link condition (the former gap `GInv (collapsePre k h)` is `ginv_collapsePre`).
  * `tetShape_run_all`: every live face is a triangle and every live cell a tetrahedron on four distinct vertices
    (`TetShape`) after ANY history of the tet driver vocabulary on valid arguments: construction through the tet API
    (`add_halfface(a,b,c)`, `add_cell(v0..v3)`, `add_cell(vector)`, checked `add_cell(halffaces)`), every deletion, swap,
    `collect_garbage`, mode switch in every deletion mode, and `collapse_edge` under the link condition.
-/
namespace OVM
namespace Kernel
open Global

/-! ### collapse in all four modes -/

/-- the renumbering of the vertex handles by the garbage collection that ends an immediate-mode `collapse_edge` -/
def collapseRenum (k : Kernel) (h : Nat) : Nat → Nat :=
  if k.deferred then id else if k.fast then relabelId (k.fromV h) (k.nV - 1) else corr1 (k.fromV h)

theorem collapse_refines_all {k : Kernel} {h : Nat} (hi : GInv k) (hl : FaceLoops k) (hb : k.fullBU = true)
    (hlk : k.linkCondition h = true) :
    ((k.collapseEdge h).1.liveCells.map (fun c => canonQuad ((k.collapseEdge h).1.cellQuad c))).Perm
      ((absCollapse (k.fromV h) (k.toV h) (k.liveCells.map k.cellQuad)).map (fun t => canonQuad (t.map (collapseRenum k h)))) ∧
    (k.collapseEdge h).2 = collapseRenum k h (k.toV h) := by
  have hpre := ginv_collapsePre hi hl hb hlk
  unfold collapseRenum
  cases hd : k.deferred
  · cases hf : k.fast
    · simp only [Bool.false_eq_true, if_false]
      obtain ⟨h1, h2, _⟩ := collapse_refines_shift hd hf hi hl hb hlk hpre
      exact ⟨h1, h2⟩
    · simp only [Bool.false_eq_true, if_false, if_true]
      obtain ⟨h1, h2, _⟩ := collapse_refines_fast hd hf hi hl hb hlk hpre
      exact ⟨h1, h2⟩
  · simp only [if_true]
    have P : CPre k h := ⟨hi, hl, hb, hd, hlk⟩
    obtain ⟨_, _, _, _, _, _, _, _, _, _, _, _, _, _, h3⟩ := collapse_state P
    refine ⟨?_, h3⟩
    have := collapse_refines P
    simpa using this

/-! ### `TetShape` along every history -/

theorem collapseK0_cases (k : Kernel) : collapseK0 k = k ∨ (k.deferred = false ∧ collapseK0 k = { k with deferred := true }) := by
  unfold collapseK0
  cases hd : k.deferred
  · right; simp only [Bool.not_false, if_true]; exact ⟨trivial, enableDeferred_true_of_imm hd⟩
  · left; simp

/-- valid arguments for the history theorem: as `ShapeOK` (OVM/Tet/TetStable.lean), but WITHOUT the gap hypothesis for
    `collapse_edge`, and with `add_cell(std::vector<VertexHandle>)` -/
def ShapeOKAll (k : Kernel) : TetOp → Prop
  | .collapse h => FaceLoops k ∧ k.fullBU = true ∧ k.linkCondition h = true
  | .addCellV chk vs => k.vBU = true ∧ k.eBU = true ∧ Unflagged k ∧ (∀ v ∈ vs, VOk k v) ∧ vs.Nodup ∧ CellVFree k vs chk
  | op => ShapeOK k op

theorem cpre'_of {k : Kernel} {h : Nat} (hi : GInv k) (hl : FaceLoops k) (hb : k.fullBU = true)
    (hlk : k.linkCondition h = true) : CPre' k h := by
  refine ⟨hl, ?_, ?_, ginv_collapsePre hi hl hb hlk⟩
  · rcases collapseK0_cases k with e | ⟨_, e⟩ <;> rw [e] <;> exact hb
  · rcases collapseK0_cases k with e | ⟨_, e⟩ <;> rw [e] <;> exact hlk

theorem sinv_stepTetX_all (k : Kernel) (op : TetOp) (hi : TetSInv k) (hok : ShapeOKAll k op) : TetSInv (k.stepTetX op).1 := by
  cases op with
  | collapse h =>
    obtain ⟨hl, hb, hlk⟩ := hok
    exact sinv_stepTetX k (.collapse h) hi (cpre'_of hi.ginv hl hb hlk)
  | addCellV chk vs =>
    obtain ⟨hv, he, hu, hvs, hnd, hfree⟩ := hok
    have ht := tinv_stepTetX k (.addCellV chk vs) ⟨hi.shape, hi.ginv⟩ ⟨hvs, hfree⟩
    refine ⟨ht.ginv, ht.shape, ?_⟩
    have ci : CInv k := ⟨⟨hi.ginv, hv, he, faceLoops_of_live hu.1 hi.tetQ.1⟩, allTet_of_live hu.2 hi.tetQ.2⟩
    have := tetAddCellV_cinv ci hvs hnd chk hfree
    exact tetQ_of_stored this.binv.loops this.allTet
  | base o => exact sinv_stepTetX k _ hi hok
  | addHalfedge a b => exact sinv_stepTetX k _ hi hok
  | addHalffaceHe chk hes => exact sinv_stepTetX k _ hi hok
  | addHalfface3 chk a b c => exact sinv_stepTetX k _ hi hok
  | addCell4 chk a b c d => exact sinv_stepTetX k _ hi hok
  | probeMode d f => exact sinv_stepTetX k _ hi hok
  | splitEdge h => exact sinv_stepTetX k _ hi hok
  | splitFace f => exact sinv_stepTetX k _ hi hok

def ShapeAdmissibleAll : Kernel → List TetOp → Prop
  | _, [] => True
  | k, op :: rest => ShapeOKAll k op ∧ ShapeAdmissibleAll (k.stepTetX op).1 rest

/-- **every admissible history of the tet driver vocabulary keeps `GInv ∧ ValenceShape ∧ TetQ`** (every live face a
    closed triangle, every live cell a tetrahedron), in every deletion mode -/
theorem sinv_run_all (ops : List TetOp) (k : Kernel) (hi : TetSInv k) (h : ShapeAdmissibleAll k ops) : TetSInv (runTetX k ops) := by
  induction ops generalizing k with
  | nil => exact hi
  | cons op t ih =>
    simp only [runTetX, List.foldl_cons]
    exact ih _ (sinv_stepTetX_all k op hi h.1) h.2

/-- **C15, first sentence**: after any admissible history every live face has three halfedges and every live cell four
    halffaces on four distinct vertices -/
theorem tetShape_run_all (ops : List TetOp) (k : Kernel) (hi : TetSInv k) (h : ShapeAdmissibleAll k ops) :
    TetSInv (runTetX k ops) ∧ ValenceShape (runTetX k ops) ∧ TetShape (runTetX k ops) :=
  ⟨sinv_run_all ops k hi h, (sinv_run_all ops k hi h).shape, (sinv_run_all ops k hi h).tetQ.tetShape⟩

theorem tetShape_reachable_all (ops : List TetOp) (h : ShapeAdmissibleAll {} ops) :
    ValenceShape (runTetX {} ops) ∧ TetShape (runTetX {} ops) :=
  (tetShape_run_all ops {} sinv_empty h).2

/-! ### Boolean forms and non-vacuity -/

def shapeOKAllB (k : Kernel) : TetOp → Bool
  | .collapse h => decide (FaceLoops k) && k.fullBU && k.linkCondition h
  | .addCellV chk vs => k.vBU && k.eBU && decide (Unflagged k) && vs.all (vOkB k) && decide vs.Nodup && decide (CellVFree k vs chk)
  | op => shapeOKB k op

theorem shapeOKAll_of_B (k : Kernel) (op : TetOp) (h : shapeOKAllB k op = true) : ShapeOKAll k op := by
  cases op with
  | collapse x =>
    simp only [shapeOKAllB, Bool.and_eq_true, decide_eq_true_eq] at h
    exact ⟨h.1.1, h.1.2, h.2⟩
  | addCellV chk vs =>
    simp only [shapeOKAllB, Bool.and_eq_true, decide_eq_true_eq, List.all_eq_true] at h
    exact ⟨h.1.1.1.1.1, h.1.1.1.1.2, h.1.1.1.2, fun v hv => vOk_of_B (h.1.1.2 v hv), h.1.2, h.2⟩
  | base o => exact shapeOK_of_B k _ (by simpa only [shapeOKAllB] using h)
  | addHalfedge a b => exact shapeOK_of_B k _ (by simpa only [shapeOKAllB] using h)
  | addHalffaceHe chk hes => exact shapeOK_of_B k _ (by simpa only [shapeOKAllB] using h)
  | addHalfface3 chk a b c => exact shapeOK_of_B k _ (by simpa only [shapeOKAllB] using h)
  | addCell4 chk a b c d => exact shapeOK_of_B k _ (by simpa only [shapeOKAllB] using h)
  | probeMode d f => exact shapeOK_of_B k _ (by simpa only [shapeOKAllB] using h)
  | splitEdge x => exact shapeOK_of_B k _ (by simpa only [shapeOKAllB] using h)
  | splitFace f => exact shapeOK_of_B k _ (by simpa only [shapeOKAllB] using h)

def shapeAdmissibleAllB : Kernel → List TetOp → Bool
  | _, [] => true
  | k, op :: rest => shapeOKAllB k op && shapeAdmissibleAllB (k.stepTetX op).1 rest

theorem shapeAdmissibleAll_of_B (k : Kernel) (ops : List TetOp) (h : shapeAdmissibleAllB k ops = true) : ShapeAdmissibleAll k ops := by
  induction ops generalizing k with
  | nil => trivial
  | cons op t ih =>
    simp only [shapeAdmissibleAllB, Bool.and_eq_true] at h
    exact ⟨shapeOKAll_of_B k op h.1, ih _ h.2⟩

/-- IMMEDIATE NON-FAST mode: a fan of three tets (one through `add_cell(vector)`), `collapse_edge(0 → 1)` (removes two
    cells, rebuilds the third, garbage-collects), a vertex swap, `delete_vertex` of an isolated vertex (handles shift) -/
def sampleAll : List TetOp :=
  [.probeMode false false, .base (.addNVertices 6), .addCell4 true 0 1 2 3, .addCellV true [0, 2, 1, 4],
   .addCell4 true 0 3 2 5, .collapse 0, .base (.swapVertex 0 3), .base (.deleteVertex 0)]

theorem sampleAll_admissible : ShapeAdmissibleAll {} sampleAll := shapeAdmissibleAll_of_B _ _ (by decide +kernel)

example : TetShape (runTetX {} sampleAll) := (tetShape_reachable_all sampleAll sampleAll_admissible).2
-- cross-check (test): one tetrahedron is left, in immediate non-fast mode
example : (runTetX {} sampleAll).liveCells.length = 1 ∧ (runTetX {} sampleAll).deferred = false ∧
    (runTetX {} sampleAll).fast = false ∧ TetShape (runTetX {} sampleAll) := by decide +kernel

end Kernel
end OVM

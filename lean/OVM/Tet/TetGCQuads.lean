import OVM.Tet.CollapseQuads
import OVM.Tet.ShapeAll
import OVM.Tet.ShapeRun
/-
  C15(d), IMMEDIATE deletion modes, index-shifting (non-fast) case.

  `collapse_edge` in an immediate deletion mode is: switch to deferred mode, do the deferred collapse, switch back
  (`collapseEdge_eq`, OVM/Tet/ShapeRun.lean) — and switching back runs `collect_garbage`.  The deferred-mode
  refinement is `collapse_refines` (OVM/Tet/CollapseQuads.lean).  This file proves what was missing:

    * `gc_quads_shift` — non-fast `collect_garbage`, on a state with the global invariant whose live cells are
      tetrahedra and with exactly ONE flagged vertex `a`, keeps the list of oriented vertex quadruples of the live
      cells, every vertex renamed by the handle correction `corr1 a` (as a list, cell by cell; a fortiori the
      multiset of canonical quadruples), removes one vertex slot, and keeps every live cell a tetrahedron;
    * `collapse_refines_shift` — the collapse corollary in immediate non-fast mode: the canonical quadruples after
      `collapse_edge(a → b)` are, as a multiset, those of `absCollapse a b` renamed by `corr1 a`; the returned
      handle is `corr1 a b`, in range.  Hypothesis `hpre : GInv (collapsePre k h)` is the gap hypothesis of
      `TetOpOK (.collapse h)` (the kernel invariant of the state just before the mode is switched back).

  How: the invariant threaded through K4's sweeps (OVM/Refine/CacheGC.lean, as OVM/Tet/ShapeAll.lean threads
  `ValenceShape`) is the list `cyc k` of the vertex cycles of the halffaces of the live cells — cells in handle order,
  halffaces in stored order.  The cell sweep erases flagged slots only (`cyc_eraseCell`), the face and the edge sweep
  renumber halfface / halfedge handles consistently in the definitions and in the lookups (`cyc_eraseFace`,
  `cyc_eraseEdge`: needs that the erased slot is used by no stored definition, K4's `EraseFaceOK/EraseEdgeOK.unref`),
  and the single step of the vertex sweep maps every vertex by `corr1 a` (`cyc_eraseVertex`).  `quad_transfer` turns
  "the same vertex cycles, renamed injectively" into "the renamed oriented quadruple" through `TetOn.transfer`.
  `collapse_immediate_core` / `collapse_finish` are the parts of the corollary that do not depend on `fast`.
  The FAST mode (swap with the last slot, then pop; renaming `relabelId a (nV-1)`) is OVM/Tet/TetGCQuadsFast.lean.
-/
namespace OVM
namespace Kernel
open Global ScanDel

/-! ### the vertex cycles of the live cells -/

/-- for every live cell (in handle order) the vertex cycles of its halffaces (in stored order) -/
def cyc (k : Kernel) : List (List (List Nat)) := k.liveCells.map (fun c => (k.cellAt c).map k.hfVerts)

theorem len4_cases (l : List Nat) (h : l.length = 4) : ∃ a b c d, l = [a, b, c, d] := by
  match l, h with
  | [a, b, c, d], _ => exact ⟨a, b, c, d, rfl⟩

/-- a cell of `k'` whose halffaces carry, one for one, the `σ`-renamed vertex cycles of the halffaces of a
    tetrahedron `c` of `k` (with `σ` injective on the four vertices) is the renamed tetrahedron -/
theorem quad_transfer {k k' : Kernel} {c c' : Nat} (σ : Nat → Nat) (hT : IsTet k c)
    (hinj : ((k.cellQuad c).map σ).Nodup)
    (hcyc : (k'.cellAt c').map k'.hfVerts = ((k.cellAt c).map k.hfVerts).map (·.map σ)) :
    IsTet k' c' ∧ k'.cellQuad c' = (k.cellQuad c).map σ := by
  obtain ⟨p, q, r, s, eq, hTo, hhd⟩ := cellQuad_isTet hT
  have hl : (k.cellAt c).length = 4 := hTo.2.1
  have hl' : (k'.cellAt c').length = 4 := by
    have := congrArg List.length hcyc
    simpa [hl] using this
  obtain ⟨c0, c1, c2, c3, hc⟩ := len4_cases _ hl
  obtain ⟨d0, d1, d2, d3, hc'⟩ := len4_cases _ hl'
  rw [hc] at hTo hhd
  rw [hc, hc'] at hcyc
  simp only [List.map_cons, List.map_nil, List.cons.injEq, and_true] at hcyc
  obtain ⟨e0, e1, e2, e3⟩ := hcyc
  simp only [List.headD_cons] at hhd
  have hd' : [σ p, σ q, σ r, σ s].Nodup := by rw [eq] at hinj; simpa using hinj
  have hT' : TetOn k' [d0, d1, d2, d3] (σ p) (σ q) (σ r) (σ s) := by
    apply TetOn.transfer σ hTo hd' rfl
    · intro y hy
      simp only [List.mem_cons, List.not_mem_nil, or_false] at hy
      rcases hy with rfl | rfl | rfl | rfl
      · exact ⟨c0, by simp, Or.inl e0⟩
      · exact ⟨c1, by simp, Or.inl e1⟩
      · exact ⟨c2, by simp, Or.inl e2⟩
      · exact ⟨c3, by simp, Or.inl e3⟩
    · intro x hx
      simp only [List.mem_cons, List.not_mem_nil, or_false] at hx
      rcases hx with rfl | rfl | rfl | rfl
      · exact ⟨d0, by simp, Or.inl e0⟩
      · exact ⟨d1, by simp, Or.inl e1⟩
      · exact ⟨d2, by simp, Or.inl e2⟩
      · exact ⟨d3, by simp, Or.inl e3⟩
  have hhead : k'.hfVerts ((k'.cellAt c').headD 0) = [σ p, σ q, σ r] := by
    rw [hc']; simp only [List.headD_cons]; rw [e0, hhd]; rfl
  have hTj : TetOn k' (k'.cellAt c') (σ p) (σ q) (σ r) (σ s) := by rw [hc']; exact hT'
  refine ⟨isTet_of_tetOn hhead hTj, ?_⟩
  rw [cellQuad_of_tetOn hTj hhead (Or.inl rfl), eq]; rfl

theorem cyc_of_eq {k' k : Kernel} (he : k'.edges = k.edges) (hf : k'.faces = k.faces) (hc : k'.cells = k.cells)
    (hd : k'.cDel = k.cDel) : cyc k' = cyc k := by
  have hv : k'.hfVerts = k.hfVerts := funext (hfVerts_of_eq he hf)
  unfold cyc liveCells nC cDeleted cellAt
  rw [hv, hc, hd]

theorem cyc_fanEq {k' k : Kernel} (e : FanEq k' k) : cyc k' = cyc k := cyc_of_eq e.edges e.faces e.cells e.cDel

/-- erasing the slot of a flagged cell: the live cells are renumbered, their definitions are untouched -/
theorem cyc_eraseCell (k : Kernel) (m : Nat) (hm : m < k.nC) (hd : k.cDeleted m = true) :
    cyc (k.eraseCell m) = cyc k := by
  have hv : (k.eraseCell m).hfVerts = k.hfVerts := funext (hfVerts_of_eq (by simp) (by simp))
  unfold cyc
  rw [hv]
  have : (fun c => ((k.eraseCell m).cellAt c).map k.hfVerts) = (fun c => (k.cellAt c).map k.hfVerts) ∘ up m := by
    funext c; simp only [Function.comp, eraseCell_cellAt]
  rw [this, ← List.map_map, eraseCell_liveCells k m hm, filter_ne_of_not_mem _ _ (not_mem_liveCells_of_dead hd)]

/-- erasing the slot of a flagged face no cell uses: halfface handles are renumbered consistently -/
theorem cyc_eraseFace {k : Kernel} {m : Nat} (hw : WF k) (ok : EraseFaceOK k m) : cyc (k.eraseFace m) = cyc k := by
  have hlc : (k.eraseFace m).liveCells = k.liveCells := by
    unfold liveCells nC cDeleted
    rw [eraseFace_cDel, eraseFace_cells ok.fast hw ok.one ok.cellsLive ok.unref, List.length_map]
  have hv : ∀ x, (k.eraseFace m).hfVerts x = k.hfVerts (up2 m x) := by
    intro x
    unfold hfVerts
    rw [eraseFace_hfHes]
    apply List.map_congr_left
    intro y _
    unfold fromV halfedge edgeAt; rw [eraseFace_edges]
  unfold cyc
  rw [hlc]
  apply List.map_congr_left
  intro c _
  rw [eraseFace_cellAt hw ok, List.map_map]
  apply List.map_congr_left
  intro a ha
  simp only [Function.comp]
  rw [hv, up2_corr2 m a (cellAt_unref ok.unref c a ha)]

theorem side_opp' (x : Nat) : eOf (opp x) = eOf x := by
  unfold opp eOf; rw [xor_one_eq]; split <;> omega

/-- erasing the slot of a flagged edge no face uses: halfedge handles are renumbered consistently -/
theorem cyc_eraseEdge {k : Kernel} {m : Nat} (hw : WF k) (ok : EraseEdgeOK k m) : cyc (k.eraseEdge m) = cyc k := by
  have hlc : (k.eraseEdge m).liveCells = k.liveCells := by
    unfold liveCells nC cDeleted
    rw [eraseEdge_cDel, eraseEdge_cells]
  have hca : ∀ c, (k.eraseEdge m).cellAt c = k.cellAt c := by intro c; unfold cellAt; rw [eraseEdge_cells]
  have hv : ∀ x, (k.eraseEdge m).hfVerts x = k.hfVerts x := by
    intro x
    have hun := faceAt_unref ok.unref (eOf x)
    unfold hfVerts hfHes
    simp only [eraseEdge_faceAt hw ok]
    split
    · rw [List.map_map]
      apply List.map_congr_left
      intro y hy
      simp only [Function.comp]
      rw [eraseEdge_fromV, up2_corr2 m y (hun y hy)]
    · unfold oppFace
      rw [← List.map_reverse, List.map_map, List.map_map, List.map_map]
      apply List.map_congr_left
      intro y hy
      simp only [Function.comp]
      rw [eraseEdge_fromV, up2_opp, up2_corr2 m y (hun y (List.mem_reverse.mp hy))]
  unfold cyc
  rw [hlc]
  apply List.map_congr_left
  intro c _
  rw [hca]
  apply List.map_congr_left
  intro a _
  exact hv a

/-- erasing a vertex slot no edge touches: every vertex cycle is renamed by the handle correction -/
theorem cyc_eraseVertex {k : Kernel} {m : Nat} (hw : WF k) (ok : EraseVertexOK k m) :
    cyc (k.eraseVertex m) = (cyc k).map (·.map (·.map (corr1 m))) := by
  have hlc : (k.eraseVertex m).liveCells = k.liveCells := by
    unfold liveCells nC cDeleted
    rw [eraseVertex_cDel, eraseVertex_cells]
  have hca : ∀ c, (k.eraseVertex m).cellAt c = k.cellAt c := by intro c; unfold cellAt; rw [eraseVertex_cells]
  have hv : ∀ x, (k.eraseVertex m).hfVerts x = (k.hfVerts x).map (corr1 m) := by
    intro x
    have hh : (k.eraseVertex m).hfHes x = k.hfHes x := by unfold hfHes faceAt; rw [eraseVertex_faces]
    unfold hfVerts
    rw [hh, List.map_map]
    apply List.map_congr_left
    intro y _
    simp only [Function.comp]
    exact eraseVertex_fromV hw ok y
  unfold cyc
  rw [hlc, List.map_map]
  apply List.map_congr_left
  intro c _
  simp only [Function.comp]
  rw [hca, List.map_map]
  apply List.map_congr_left
  intro a _
  exact hv a


/-! ### threading a predicate through K4's three definition-renumbering sweeps -/

/-- the cell sweep (cc:750-757): K4's sweep invariant with one more conjunct `X` -/
theorem thread_sweepCells (X : Kernel → Prop) (hfan : ∀ k' k, FanEq k' k → X k → X k')
    (herase : ∀ k m, GCInv k → m < k.nC → k.cDeleted m = true → X k → X (k.eraseCell m))
    {k : Kernel} (hi : GCInv k) (hx : X k) :
    X (gcSweep k k.nC cDeleted (fun k i => { k with cDel := k.cDel.set i false }) deleteCellCore) := by
  have := gcSweep_induct (fun k m => (GCInv k ∧ m ≤ k.nC ∧ ∀ c, m ≤ c → c < k.nC → k.cDeleted c = false) ∧ X k)
    cDeleted (fun k i => { k with cDel := k.cDel.set i false }) deleteCellCore ?_ k.nC k
    ⟨⟨hi, Nat.le_refl _, fun c h1 h2 => by omega⟩, hx⟩
  · exact this.2
  · intro k m ⟨⟨hi, hm, hl⟩, hx⟩
    by_cases hd : k.cDeleted m = true
    · simp only [hd, if_true]
      obtain ⟨k3, e3, heq⟩ := gcCellStep (h := m) hi.deferred hi.fast hi.wf hd
      rw [heq]
      have hi3 := GCInv.of_fanEq e3 hi
      have hm3 : m < k3.nC := by rw [fanEq_nC e3]; omega
      have hd3 : k3.cDeleted m = true := by rw [fanEq_cDeleted e3]; exact hd
      refine ⟨⟨gcInv_eraseCell hi3 hm3 hd3, ?_, ?_⟩, herase k3 m hi3 hm3 hd3 (hfan k3 k e3 hx)⟩
      · rw [eraseCell_nC k3 m hm3, fanEq_nC e3]; omega
      · intro c h1 h2
        rw [eraseCell_nC k3 m hm3, fanEq_nC e3] at h2
        rw [eraseCell_cDeleted, fanEq_cDeleted e3]
        have : up m c = c + 1 := by unfold up; split <;> omega
        rw [this]; exact hl (c + 1) (by omega) (by omega)
    · simp only [hd, Bool.false_eq_true, if_false]
      refine ⟨⟨hi, by omega, fun c h1 h2 => ?_⟩, hx⟩
      rcases Nat.eq_or_lt_of_le h1 with e | e
      · subst e; simpa using hd
      · exact hl c e h2

/-- the face sweep (cc:759-766) -/
theorem thread_sweepFaces (X : Kernel → Prop) (hfan : ∀ k' k, FanEq k' k → X k → X k')
    (herase : ∀ k m, GCInv k → EraseFaceOK k m → X k → X (k.eraseFace m))
    {k : Kernel} (hi : GCInv k) (hc : CellsLive k) (hx : X k) :
    X (gcSweep k k.nF fDeleted (fun k i => { k with fDel := k.fDel.set i false }) deleteFaceCore) := by
  have := gcSweep_induct (fun k m => (GCInv k ∧ CellsLive k ∧ m ≤ k.nF ∧ ∀ c, m ≤ c → c < k.nF → k.fDeleted c = false) ∧
      X k)
    fDeleted (fun k i => { k with fDel := k.fDel.set i false }) deleteFaceCore ?_ k.nF k
    ⟨⟨hi, hc, Nat.le_refl _, fun c h1 h2 => by omega⟩, hx⟩
  · exact this.2
  · intro k m ⟨⟨hi, hc, hm, hl⟩, hx⟩
    by_cases hd : k.fDeleted m = true
    · simp only [hd, if_true]
      obtain ⟨k3, e3, heq⟩ := gcFaceStep (h := m) hi.deferred hi.fast hi.wf hd
      rw [heq]
      have hi3 := GCInv.of_fanEq e3 hi
      have hm3 : m < k3.nF := by rw [fanEq_nF e3]; omega
      have hc3 : CellsLive k3 := cellsLive_of_eq (by rw [e3.cells]) e3.cDel hc
      have ok := eraseFaceOK_of_gc hi3 hm3 (by rw [fanEq_fDeleted e3]; exact hd) hc3
      refine ⟨⟨gcInv_eraseFace hi3 ok, ?_, ?_, ?_⟩, herase k3 m hi3 ok (hfan k3 k e3 hx)⟩
      · exact cellsLive_of_eq (by rw [eraseFace_cells ok.fast hi3.wf ok.one ok.cellsLive ok.unref, List.length_map])
          (by simp) hc3
      · rw [eraseFace_nF k3 m hm3, fanEq_nF e3]; omega
      · intro c h1 h2
        rw [eraseFace_nF k3 m hm3, fanEq_nF e3] at h2
        rw [eraseFace_fDeleted, fanEq_fDeleted e3]
        have : up m c = c + 1 := by unfold up; split <;> omega
        rw [this]; exact hl (c + 1) (by omega) (by omega)
    · simp only [hd, Bool.false_eq_true, if_false]
      refine ⟨⟨hi, hc, by omega, fun c h1 h2 => ?_⟩, hx⟩
      rcases Nat.eq_or_lt_of_le h1 with e | e
      · subst e; simpa using hd
      · exact hl c e h2

/-- the edge sweep (cc:768-775) -/
theorem thread_sweepEdges (X : Kernel → Prop)
    (herase : ∀ k m, GCInv k → EraseEdgeOK k m → X k → X (k.eraseEdge m))
    {k : Kernel} (hi : GCInv k) (hc : CellsLive k) (hfl : FacesLive k) (hx : X k) :
    X (gcSweep k k.nE eDeleted (fun k i => { k with eDel := k.eDel.set i false }) deleteEdgeCore) := by
  have := gcSweep_induct (fun k m => (GCInv k ∧ CellsLive k ∧ FacesLive k ∧ m ≤ k.nE ∧
      ∀ c, m ≤ c → c < k.nE → k.eDeleted c = false) ∧ X k)
    eDeleted (fun k i => { k with eDel := k.eDel.set i false }) deleteEdgeCore ?_ k.nE k
    ⟨⟨hi, hc, hfl, Nat.le_refl _, fun c h1 h2 => by omega⟩, hx⟩
  · exact this.2
  · intro k m ⟨⟨hi, hc, hfl, hm, hl⟩, hx⟩
    by_cases hd : k.eDeleted m = true
    · simp only [hd, if_true]
      rw [gcEdgeStep (h := m) hi.deferred hi.fast hi.wf hd]
      have hm3 : m < k.nE := by omega
      have ok := eraseEdgeOK_of_gc hi hm3 hd hfl
      refine ⟨⟨gcInv_eraseEdge hi ok, ?_, ?_, ?_, ?_⟩, herase k m hi ok hx⟩
      · exact cellsLive_of_eq (by simp) (by simp) hc
      · exact facesLive_of_eq (by rw [eraseEdge_faces hi.wf ok, List.length_map]) (by simp) hfl
      · rw [eraseEdge_nE k m hm3]; omega
      · intro c h1 h2
        rw [eraseEdge_nE k m hm3] at h2
        rw [eraseEdge_eDeleted]
        have : up m c = c + 1 := by unfold up; split <;> omega
        rw [this]; exact hl (c + 1) (by omega) (by omega)
    · simp only [hd, Bool.false_eq_true, if_false]
      refine ⟨⟨hi, hc, hfl, by omega, fun c h1 h2 => ?_⟩, hx⟩
      rcases Nat.eq_or_lt_of_le h1 with e | e
      · subst e; simpa using hd
      · exact hl c e h2

/-- the vertex sweep (cc:777-784) when exactly one vertex is flagged: one erase -/
theorem sweepVerts_single {k : Kernel} {a : Nat} (hd : k.deferred = false) (hf : k.fast = false) (ha : a < k.nV)
    (hda : k.vDeleted a = true) (hone : ∀ v, v < k.nV → v ≠ a → k.vDeleted v = false) :
    gcSweep k k.nV vDeleted (fun k i => { k with vDel := k.vDel.set i false }) deleteVertexCore = k.eraseVertex a := by
  have := gcSweep_induct (fun k' m => m ≤ k.nV ∧ if a < m then k' = k else k' = k.eraseVertex a)
    vDeleted (fun k i => { k with vDel := k.vDel.set i false }) deleteVertexCore ?_ k.nV k
    ⟨Nat.le_refl _, by simp [ha]⟩
  · simpa using this.2
  · intro k' m ⟨hm, hP⟩
    refine ⟨by omega, ?_⟩
    rcases Nat.lt_trichotomy a m with h | h | h
    · have h1 : a < m + 1 := by omega
      simp only [h1, if_true] at hP
      subst hP
      simp only [h, if_true]
      rw [hone m (by omega) (by omega)]; simp
    · subst h
      simp only [Nat.lt_succ_self, if_true] at hP
      subst hP
      simp only [Nat.lt_irrefl, if_false, hda, if_true]
      exact gcVertexStep (h := a) hd hf
    · have h1 : ¬ a < m + 1 := by omega
      have h2 : ¬ a < m := by omega
      simp only [h1, if_false] at hP
      subst hP
      simp only [h2, if_false]
      rw [eraseVertex_vDeleted]
      have : up a m = m := by unfold up; simp [h]
      rw [this, hone m (by omega) (by omega)]; simp


/-! ### `collect_garbage` (index-shifting mode) on the vertex cycles of the live cells -/

/-- what the cell, face and edge sweeps keep: the vertex cycles of the live cells, and the vertex flags -/
def KeepX (C0 : List (List (List Nat))) (n0 : Nat) (D0 : List Bool) (k : Kernel) : Prop :=
  cyc k = C0 ∧ k.nV = n0 ∧ k.vDel = D0

theorem keepX_of_eq {C0 n0 D0} {k' k : Kernel} (he : k'.edges = k.edges) (hf : k'.faces = k.faces)
    (hc : k'.cells = k.cells) (hd : k'.cDel = k.cDel) (hn : k'.nV = k.nV) (hv : k'.vDel = k.vDel)
    (h : KeepX C0 n0 D0 k) : KeepX C0 n0 D0 k' :=
  ⟨(cyc_of_eq he hf hc hd).trans h.1, hn.trans h.2.1, hv.trans h.2.2⟩

theorem keepX_fanEq {C0 n0 D0} (k' k : Kernel) (e : FanEq k' k) (h : KeepX C0 n0 D0 k) : KeepX C0 n0 D0 k' :=
  keepX_of_eq e.edges e.faces e.cells e.cDel e.nV e.vDel h

/-- **non-fast `collect_garbage` with exactly one flagged vertex `a`**: the vertex cycles of the live cells
    (cells in handle order, halffaces in stored order) are kept, every vertex renamed by `corr1 a` -/
theorem gc_cyc_shift {k : Kernel} {a : Nat} (hf : k.fast = false) (hd : k.deferred = true) (hg : k.needsGC = true)
    (hw : WF k) (h1 : k.oneCell = true) (hc : Closed k) (ha : a < k.nV) (hda : k.vDeleted a = true)
    (hone : ∀ v, v < k.nV → v ≠ a → k.vDeleted v = false) :
    cyc k.collectGarbage = (cyc k).map (·.map (·.map (corr1 a))) ∧ k.collectGarbage.nV = k.nV - 1 := by
  have hcg : k.collectGarbage =
      { gcVerts (gcEdges (gcFaces (gcCells { k with deferred := false }))) with deferred := true } := by
    unfold collectGarbage; simp [hd, hg]
  rw [hcg]
  have hk0 : GCInv ({ k with deferred := false } : Kernel) :=
    ⟨rfl, hf, wf_of_fans_perm (k := k) (k' := { k with deferred := false }) rfl rfl rfl rfl rfl rfl rfl rfl rfl rfl rfl
        rfl rfl rfl rfl (fun _ => List.Perm.refl _) hw,
     oneCell_of_same (k := k) (k' := { k with deferred := false }) rfl rfl rfl h1,
     closed_of_eq (k := k) (k' := { k with deferred := false }) rfl rfl rfl rfl rfl rfl rfl rfl hc⟩
  have hx0 : KeepX (cyc k) k.nV k.vDel ({ k with deferred := false } : Kernel) :=
    keepX_of_eq (k := k) rfl rfl rfl rfl rfl rfl ⟨rfl, rfl, rfl⟩
  generalize ({ k with deferred := false } : Kernel) = k0 at hk0 hx0
  -- cells
  have s1 := gcInv_sweepCells hk0
  have x1 : KeepX (cyc k) k.nV k.vDel (gcCells k0) :=
    keepX_of_eq (k := gcSweep k0 k0.nC cDeleted _ deleteCellCore) rfl rfl rfl rfl rfl rfl
      (thread_sweepCells (KeepX (cyc k) k.nV k.vDel) keepX_fanEq
        (fun k m _ hm hd h => ⟨(cyc_eraseCell k m hm hd).trans h.1, by rw [eraseCell_nV]; exact h.2.1,
          by rw [eraseCell_vDel]; exact h.2.2⟩) hk0 hx0)
  have i1 : GCInv (gcCells k0) := gcInv_congr (k := gcSweep k0 k0.nC cDeleted _ deleteCellCore) (k' := gcCells k0)
    rfl rfl rfl rfl rfl rfl rfl rfl rfl rfl rfl rfl rfl rfl rfl rfl rfl s1.1
  have c1 : CellsLive (gcCells k0) :=
    cellsLive_of_eq (k := gcSweep k0 k0.nC cDeleted _ deleteCellCore) (k' := gcCells k0) rfl rfl s1.2
  generalize gcCells k0 = k1 at i1 c1 x1
  -- faces
  have s2 := gcInv_sweepFaces i1 c1
  have x2 : KeepX (cyc k) k.nV k.vDel (gcFaces k1) :=
    keepX_of_eq (k := gcSweep k1 k1.nF fDeleted _ deleteFaceCore) rfl rfl rfl rfl rfl rfl
      (thread_sweepFaces (KeepX (cyc k) k.nV k.vDel) keepX_fanEq
        (fun k m hi ok h => ⟨(cyc_eraseFace hi.wf ok).trans h.1, by rw [eraseFace_nV]; exact h.2.1,
          by rw [eraseFace_vDel]; exact h.2.2⟩) i1 c1 x1)
  have i2 : GCInv (gcFaces k1) := gcInv_congr (k := gcSweep k1 k1.nF fDeleted _ deleteFaceCore) (k' := gcFaces k1)
    rfl rfl rfl rfl rfl rfl rfl rfl rfl rfl rfl rfl rfl rfl rfl rfl rfl s2.1
  have c2 : CellsLive (gcFaces k1) :=
    cellsLive_of_eq (k := gcSweep k1 k1.nF fDeleted _ deleteFaceCore) (k' := gcFaces k1) rfl rfl s2.2.1
  have f2 : FacesLive (gcFaces k1) :=
    facesLive_of_eq (k := gcSweep k1 k1.nF fDeleted _ deleteFaceCore) (k' := gcFaces k1) rfl rfl s2.2.2
  generalize gcFaces k1 = k2 at i2 c2 f2 x2
  -- edges
  have s3 := gcInv_sweepEdges i2 c2 f2
  have x3 : KeepX (cyc k) k.nV k.vDel (gcEdges k2) :=
    keepX_of_eq (k := gcSweep k2 k2.nE eDeleted _ deleteEdgeCore) rfl rfl rfl rfl rfl rfl
      (thread_sweepEdges (KeepX (cyc k) k.nV k.vDel)
        (fun k m hi ok h => ⟨(cyc_eraseEdge hi.wf ok).trans h.1, by rw [eraseEdge_nV]; exact h.2.1,
          by rw [eraseEdge_vDel]; exact h.2.2⟩) i2 c2 f2 x2)
  have i3 : GCInv (gcEdges k2) := gcInv_congr (k := gcSweep k2 k2.nE eDeleted _ deleteEdgeCore) (k' := gcEdges k2)
    rfl rfl rfl rfl rfl rfl rfl rfl rfl rfl rfl rfl rfl rfl rfl rfl rfl s3.1
  have e3 : EdgesLive (gcEdges k2) :=
    edgesLive_of_eq (k := gcSweep k2 k2.nE eDeleted _ deleteEdgeCore) (k' := gcEdges k2) rfl rfl s3.2.2.2
  generalize gcEdges k2 = k3 at i3 e3 x3
  -- vertices: one erase
  obtain ⟨y1, y2, y3⟩ := x3
  have ha3 : a < k3.nV := by rw [y2]; exact ha
  have hda3 : k3.vDeleted a = true := by unfold vDeleted at hda ⊢; rw [y3]; exact hda
  have hone3 : ∀ v, v < k3.nV → v ≠ a → k3.vDeleted v = false := by
    intro v hv hne; have := hone v (by rw [← y2]; exact hv) hne
    unfold vDeleted at this ⊢; rw [y3]; exact this
  have hsw := sweepVerts_single i3.deferred i3.fast ha3 hda3 hone3
  have ok := eraseVertexOK_of_gc i3 ha3 hda3 e3
  have hgv : gcVerts k3 = { k3.eraseVertex a with nDelV := 0 } := by unfold gcVerts; rw [hsw]
  rw [hgv]
  constructor
  · rw [← y1, ← cyc_eraseVertex i3.wf ok]
    exact cyc_of_eq rfl rfl rfl rfl
  · show (k3.eraseVertex a).nV = k.nV - 1
    rw [eraseVertex_nV, y2]

theorem map_eq_map_idx {α β γ} {l : List α} {l' : List β} {f : α → γ} {g : β → γ} (h : l.map f = l'.map g) :
    l.length = l'.length ∧ ∀ i (h1 : i < l.length) (h2 : i < l'.length), f l[i] = g l'[i] := by
  have hl : l.length = l'.length := by have := congrArg List.length h; simpa using this
  refine ⟨hl, fun i h1 h2 => ?_⟩
  have := List.getElem_of_eq h (i := i) (by simpa using h1)
  simpa using this

/-- from the vertex cycles to the oriented quadruples: if the live cells of `k'` carry the `σ`-renamed vertex
    cycles of the live cells of `k` (cell by cell, halfface by halfface), every live cell of `k` is a tetrahedron
    and `σ` is injective on its vertices, then the live cells of `k'` are the renamed tetrahedra -/
theorem quads_of_cyc {k k' : Kernel} (σ : Nat → Nat) (hc : cyc k' = (cyc k).map (·.map (·.map σ)))
    (hT : ∀ c ∈ k.liveCells, IsTet k c) (hinj : ∀ c ∈ k.liveCells, ((k.cellQuad c).map σ).Nodup) :
    k'.liveCells.map k'.cellQuad = k.liveCells.map (fun c => (k.cellQuad c).map σ) ∧
    ∀ c ∈ k'.liveCells, IsTet k' c := by
  unfold cyc at hc
  rw [List.map_map] at hc
  obtain ⟨hl, hi⟩ := map_eq_map_idx hc
  have key : ∀ i (h1 : i < k'.liveCells.length) (h2 : i < k.liveCells.length),
      IsTet k' k'.liveCells[i] ∧ k'.cellQuad k'.liveCells[i] = (k.cellQuad k.liveCells[i]).map σ := by
    intro i h1 h2
    exact quad_transfer σ (hT _ (List.getElem_mem h2)) (hinj _ (List.getElem_mem h2)) (hi i h1 h2)
  constructor
  · apply List.ext_getElem (by simp [hl])
    intro i h1 h2
    simp only [List.getElem_map]
    exact (key i (by simpa using h1) (by simpa using h2)).2
  · intro c hm
    obtain ⟨i, h1, rfl⟩ := List.getElem_of_mem hm
    exact (key i h1 (by omega)).1

theorem nodup_map_on {l : List Nat} (f : Nat → Nat) (hn : l.Nodup) (hinj : ∀ x ∈ l, ∀ y ∈ l, f x = f y → x = y) :
    (l.map f).Nodup := by
  unfold List.Nodup at *
  rw [List.pairwise_map]
  exact hn.imp_of_mem (fun hx hy hne e => hne (hinj _ hx _ hy e))

theorem corr1_inj_off (a x y : Nat) (hx : x ≠ a) (hy : y ≠ a) (e : corr1 a x = corr1 a y) : x = y := by
  have := congrArg (up a) e
  rwa [up_corr1 a x hx, up_corr1 a y hy] at this

/-- a vertex of a live tetrahedron is live -/
theorem vOk_of_mem_cellQuad {k : Kernel} (hi : GInv k) {c v : Nat} (hc : c ∈ k.liveCells) (hT : IsTet k c)
    (hv : v ∈ k.cellQuad c) : VOk k v := by
  have hl := (mem_liveCells k c).mp hc
  obtain ⟨hf, hm, he, hhe, rfl⟩ := (mem_cellVertSet k c v).mp ((mem_cellQuad_isTet hT v).mp hv)
  exact vOk_of_cellVert hi hl hm (by unfold hfVerts; exact List.mem_map.mpr ⟨he, hhe, rfl⟩)

/-- the oriented quadruples of the live cells, canonical form -/
def quads (k : Kernel) : List (List Nat) := k.liveCells.map (fun c => canonQuad (k.cellQuad c))
/-- … with the vertices renamed by `σ` first -/
def quadsσ (σ : Nat → Nat) (k : Kernel) : List (List Nat) := k.liveCells.map (fun c => canonQuad ((k.cellQuad c).map σ))

/-- **C15(d), garbage collection in index-shifting mode**: on a state satisfying the global invariant, in deferred
    non-fast mode, all of whose live cells are tetrahedra and with exactly one flagged vertex `a`,
    `collect_garbage` keeps the list of oriented vertex quadruples of the live cells up to the renumbering
    `corr1 a` of the vertices (even as a list, cell by cell, before canonicalisation), removes exactly one vertex
    slot, maps every other vertex handle into range, and keeps every live cell a tetrahedron -/
theorem gc_quads_shift {k : Kernel} {a : Nat} (hi : GInv k) (hf : k.fast = false) (hd : k.deferred = true)
    (hT : ∀ c ∈ k.liveCells, IsTet k c) (ha : a < k.nV) (hda : k.vDeleted a = true)
    (hone : ∀ v, v < k.nV → v ≠ a → k.vDeleted v = false) :
    (quads k.collectGarbage).Perm (quadsσ (corr1 a) k) ∧
    k.collectGarbage.nV = k.nV - 1 ∧
    (∀ b, b ≠ a → b < k.nV → corr1 a b < k.collectGarbage.nV) ∧
    k.collectGarbage.liveCells.map k.collectGarbage.cellQuad = k.liveCells.map (fun c => (k.cellQuad c).map (corr1 a)) ∧
    (∀ c ∈ k.collectGarbage.liveCells, IsTet k.collectGarbage c) := by
  have hg : k.needsGC = true := by
    cases hg : k.needsGC
    · have := (hi.noFlag_of_noGC hg).2.2.2.getD a
      unfold vDeleted at hda; rw [this] at hda; cases hda
    · rfl
  obtain ⟨hc, hn⟩ := gc_cyc_shift hf hd hg hi.wf hi.one hi.closed ha hda hone
  have hinj : ∀ c ∈ k.liveCells, ((k.cellQuad c).map (corr1 a)).Nodup := by
    intro c hcl
    obtain ⟨p, q, r, s, eq, hTo, _⟩ := cellQuad_isTet (hT c hcl)
    have hne : ∀ v ∈ k.cellQuad c, v ≠ a := by
      intro v hv e
      have := (vOk_of_mem_cellQuad hi hcl (hT c hcl) hv).2
      rw [e, hda] at this; cases this
    apply nodup_map_on _ (by rw [eq]; exact hTo.1)
    intro x hx y hy e
    exact corr1_inj_off a x y (hne x hx) (hne y hy) e
  obtain ⟨hq, hT'⟩ := quads_of_cyc (corr1 a) hc hT hinj
  refine ⟨?_, hn, ?_, hq, hT'⟩
  · unfold quads quadsσ
    apply List.Perm.of_eq
    have := congrArg (List.map canonQuad) hq
    rw [List.map_map, List.map_map] at this
    exact this
  · intro b hb hlt
    rw [hn]
    exact corr1_lt a b k.nV ha hb hlt


/-! ### `collapse_edge` in deferred mode: the vertex flags, and every live cell is a tetrahedron -/

/-- the vertex flags after `collapse_edge(a → b)` in deferred mode: exactly `a` is newly flagged
    (the proof of `collapse_state`, OVM/Tet/CollapseRefine.lean, read off at the vertex flags) -/
theorem collapse_vDel {k : Kernel} {h : Nat} (P : CPre k h) :
    (k.collapseEdge h).1.vDel = k.vDel.set (k.fromV h) true := by
  have hd := P.deferred
  have hbf := (fullBU_split P.full).2.2
  have hw := P.ginv.wf
  have e1 : k.collapseEdge h = ((k.collapseBody true h).1.enableDeferred true, (k.collapseBody true h).2) := by
    unfold collapseEdge; simp [hd]
  have e2 : (k.collapseBody true h).1 = collapseFinish (k.collapseStar (k.fromV h) (k.toV h)
      (toSet ((k.qHEHF h).filterMap k.cellOf))) (k.fromV h) := by
    unfold collapseBody
    simp only [kf_eq k hbf]
  rw [e1]
  simp only [e2]
  obtain ⟨b1, x1, d1, new, q4, q5, q6⟩ := collapseFold_spec (k.fromV h) (k.toV h)
    (toSet ((k.qHEHF h).filterMap k.cellOf)) k hw.range (k.qVC (k.fromV h)) k [] P.binv hd (Ext.refl k)
    (by
      intro ch hm hn
      have hm' : ch ∈ rebuilt k h := by
        unfold rebuilt; exact List.mem_filter.mpr ⟨hm, by simp only [hn, Bool.not_false]⟩
      obtain ⟨hl, ha, hb⟩ := (mem_rebuilt_iff P ch).mp hm'
      exact P.cellReady hl (fun hx => hb hx.2))
  unfold collapseStar
  generalize (k.qVC (k.fromV h)).foldl (collapseCell (k.fromV h) (k.toV h) (toSet ((k.qHEHF h).filterMap k.cellOf))) (k, [])
    = r at b1 x1 d1 q4 q5 q6
  obtain ⟨k1, rem⟩ := r
  simp only [List.nil_append] at b1 x1 d1 q4 q5 q6
  subst q4
  have hd1 : k1.deferred = true := x1.deferred.trans hd
  obtain ⟨f1, f2, f3, f4, f5, f6⟩ := deleteVertex_deferred_frames hd1 (k.fromV h)
  have hl2 : FaceLoops (k1.deleteVertex (k.fromV h)) := faceLoops_of_eq f3 f2 b1.loops
  have hnHF2 : (k1.deleteVertex (k.fromV h)).nHF = k1.nHF := by unfold nHF; rw [f2]
  have hrem : ∀ n ∈ rem, n.2.length = 4 ∧ (∀ hf ∈ n.2, hf < (k1.deleteVertex (k.fromV h)).nHF) ∧
      (k1.deleteVertex (k.fromV h)).spanVertCount n.2 = 4 ∧ (k1.deleteVertex (k.fromV h)).noParallel n.2 = true := by
    intro n hn
    have hreb : n.1 ∈ rebuilt k h := by
      have : n.1 ∈ rem.map (·.1) := List.mem_map.mpr ⟨n, hn, rfl⟩
      rw [q5] at this; exact this
    obtain ⟨hl, _, hb⟩ := (mem_rebuilt_iff P _).mp hreb
    obtain ⟨p, q, r, s, hT1⟩ := remOK_tetOn (P.isTet hl) (q6 n hn) (fun hx => hb hx.2)
    obtain ⟨c0, c1, c2, c3, n0, n1, n2, n3, _, e, ok, _⟩ := q6 n hn
    refine ⟨by rw [e]; rfl, fun hf hm => by rw [hnHF2]; exact (ok hf hm).1, ?_⟩
    rw [spanVertCount_of_eq f3 f2, noParallel_of_eq f3 f2]
    exact ⟨spanVertCount_of_tetOn hT1 (loops_of_hfOk b1.loops (fun hf hm => (ok hf hm).1)),
      noParallel_of_tetOn hT1 (loops_of_hfOk b1.loops (fun hf hm => (ok hf hm).1))⟩
  obtain ⟨g1, g2, g3, g4, g5⟩ := readdFold_frames rem (k1.deleteVertex (k.fromV h)) hl2 hrem
  unfold collapseFinish
  simp only
  obtain ⟨z1, z2, z3, z4, z5, z6⟩ := enableDeferred_true_frames (rem.foldl readdCell (k1.deleteVertex (k.fromV h)))
  rw [z5, g5, f6, x1.vDel]

/-- after `collapse_edge` in deferred mode every live cell is a tetrahedron again
    (the case analysis of `collapse_refines`, OVM/Tet/CollapseQuads.lean, read off at `IsTet`) -/
theorem collapse_isTet {k : Kernel} {h : Nat} (P : CPre k h) :
    ∀ c ∈ (k.collapseEdge h).1.liveCells, IsTet (k.collapseEdge h).1 c := by
  obtain ⟨rem, k1, b1, x1, q5, q6, s1, s2, s3, s4, s5, s6, _, _, _⟩ := collapse_state P
  generalize (k.collapseEdge h).1 = K' at *
  have hw := P.ginv.wf
  have hnC : K'.nC = k.nC + rem.length := by unfold nC; rw [s1]; simp
  have hlive := liveCells_extend (k := k) (k' := K') (m := rem.length)
    (fun c => decide (k.fromV h ∉ k.cellVertSet c)) hnC
    (fun c hc => by rw [s5 c hc]; simp) s6
  intro c hc
  rw [hlive, List.mem_append] at hc
  rcases hc with hc | hc
  · obtain ⟨hcl, _⟩ := List.mem_filter.mp hc
    have hl := (mem_liveCells k c).mp hcl
    have hlt := liveC_lt hl
    apply isTet_congr (k := k) _ _ (P.isTet hl)
    · unfold cellAt; rw [s1, getD_append_lt _ _ _ _ hlt]
    · intro hf hm
      rw [hfVerts_of_eq s3 s2 hf]
      exact x1.hfVerts hw.range (cellAt_range hw.range hlt hf hm)
  · obtain ⟨i, hi', rfl⟩ := List.mem_map.mp hc
    have hi : i < rem.length := by simpa using hi'
    have hmem : rem[i] ∈ rem := List.getElem_mem hi
    have hreb : rem[i].1 ∈ rebuilt k h := by rw [← q5]; exact List.mem_map.mpr ⟨_, hmem, rfl⟩
    obtain ⟨hl, ha, hb⟩ := (mem_rebuilt_iff P _).mp hreb
    have hcell : K'.cellAt (k.nC + i) = rem[i].2 := by
      unfold cellAt; rw [s1, List.getD_eq_getElem?_getD, List.getElem?_append_right (by unfold nC; omega)]
      simp [nC, hi]
    exact (newCell_quad (P.isTet hl) (q6 _ hmem) (fun hx => hb hx.2) hcell
      (fun x _ => hfVerts_of_eq s3 s2 x)).1


/-! ### C15(d) in the immediate deletion modes: what is common to the index-shifting and the fast mode -/

theorem withDeferred_self (K : Kernel) (b : Bool) (h : K.deferred = b) : ({ K with deferred := b } : Kernel) = K := by
  cases K; simp_all

/-- the handle `collapse_edge` predicts: the star loop changes neither the mode nor the number of vertices -/
theorem collapseBody_snd {k : Kernel} {h : Nat} (P : CPre k h) (dt : Bool) :
    (k.collapseBody dt h).2 = survivingVertex dt k.fast (k.fromV h) (k.toV h) k.nV := by
  have hbf := (fullBU_split P.full).2.2
  have e2 : (k.collapseBody dt h).2 =
      survivingVertex dt (k.collapseStar (k.fromV h) (k.toV h) (toSet ((k.qHEHF h).filterMap k.cellOf))).1.fast
        (k.fromV h) (k.toV h)
        (k.collapseStar (k.fromV h) (k.toV h) (toSet ((k.qHEHF h).filterMap k.cellOf))).1.nV := by
    unfold collapseBody; simp only [kf_eq k hbf]
  rw [e2]
  obtain ⟨_, x1, _⟩ := collapseFold_spec (k.fromV h) (k.toV h)
    (toSet ((k.qHEHF h).filterMap k.cellOf)) k P.ginv.wf.range (k.qVC (k.fromV h)) k [] P.binv P.deferred (Ext.refl k)
    (by
      intro ch hm hn
      have hm' : ch ∈ rebuilt k h := by
        unfold rebuilt; exact List.mem_filter.mpr ⟨hm, by simp only [hn, Bool.not_false]⟩
      obtain ⟨hl, ha, hb⟩ := (mem_rebuilt_iff P ch).mp hm'
      exact P.cellReady hl (fun hx => hb hx.2))
  unfold collapseStar
  rw [x1.fast, x1.nV]

/-- `collapse_edge` in an immediate deletion mode, up to the final garbage collection: the state `K = collapsePre k h`
    just before the mode is switched back is in deferred mode, its canonical quadruples are the abstract collapse, all its
    live cells are tetrahedra, exactly the vertex `a` is flagged; the result is `K.collect_garbage` (in immediate mode),
    and the returned handle is the prediction `survivingVertex` for the caller's mode -/
theorem collapse_immediate_core {k : Kernel} {h : Nat} (hd : k.deferred = false)
    (hi : GInv k) (hl : FaceLoops k) (hb : k.fullBU = true) (hlk : k.linkCondition h = true)
    (hpre : GInv (collapsePre k h)) :
    (collapsePre k h).deferred = true ∧ (collapsePre k h).fast = k.fast ∧
    (quads (collapsePre k h)).Perm ((absCollapse (k.fromV h) (k.toV h) (k.liveCells.map k.cellQuad)).map canonQuad) ∧
    (∀ c ∈ (collapsePre k h).liveCells, IsTet (collapsePre k h) c) ∧
    (collapsePre k h).nV = k.nV ∧ (collapsePre k h).vDeleted (k.fromV h) = true ∧
    (∀ v, v < (collapsePre k h).nV → v ≠ k.fromV h → (collapsePre k h).vDeleted v = false) ∧
    (k.collapseEdge h).1 = { (collapsePre k h).collectGarbage with deferred := false } ∧
    (k.collapseEdge h).2 = survivingVertex false k.fast (k.fromV h) (k.toV h) k.nV ∧
    k.fromV h < k.nV ∧ k.toV h < k.nV ∧ k.fromV h ≠ k.toV h ∧ (∀ c ∈ k.liveCells, IsTet k c) := by
  have hk0 : k.enableDeferred true = { k with deferred := true } := by unfold enableDeferred; simp [hd]
  have P : CPre ({ k with deferred := true } : Kernel) h :=
    ⟨by rw [← hk0]; exact ginv_enableDeferred true hi, faceLoops_of_eq (k := k) rfl rfl hl, hb, rfl, hlk⟩
  have hK : collapsePre k h = (({ k with deferred := true } : Kernel).collapseBody true h).1 := by
    unfold collapsePre
    simp only [hd, Bool.not_false, if_true, hk0]
    rfl
  have hkeep := collapseBody_keeps ({ k with deferred := true } : Kernel) true h (Or.inl rfl)
  have hKd : (collapsePre k h).deferred = true := by rw [hK]; exact hkeep.deferred
  have hKf : (collapsePre k h).fast = k.fast := by rw [hK]; exact hkeep.fast
  have hKe : (({ k with deferred := true } : Kernel).collapseEdge h).1 = collapsePre k h := by
    have : (({ k with deferred := true } : Kernel).collapseEdge h).1 =
        ((({ k with deferred := true } : Kernel).collapseBody true h).1).enableDeferred true := rfl
    rw [this, ← hK]
    unfold enableDeferred
    simp only [Bool.not_true, Bool.and_false, Bool.false_eq_true, if_false]
    exact withDeferred_self _ _ hKd
  have R1 : (quads (collapsePre k h)).Perm
      ((absCollapse (k.fromV h) (k.toV h) (k.liveCells.map k.cellQuad)).map canonQuad) := by
    have := collapse_refines P; rw [hKe] at this; exact this
  have hvD : (collapsePre k h).vDel = k.vDel.set (k.fromV h) true := by
    have := collapse_vDel P; rw [hKe] at this; exact this
  have hT : ∀ c ∈ (collapsePre k h).liveCells, IsTet (collapsePre k h) c := by
    have := collapse_isTet P; rw [hKe] at this; exact this
  have ha : k.fromV h < k.nV := P.va.1
  have hab : k.fromV h ≠ k.toV h := P.hab
  have hbv : k.toV h < k.nV := P.vb.1
  have hnf := (hi.noFlag_of_immediate hd).2.2.2
  -- the returned handle
  have hsnd : (k.collapseEdge h).2 = survivingVertex false k.fast (k.fromV h) (k.toV h) k.nV := by
    have e1 : (k.collapseEdge h).2 = (({ k with deferred := true } : Kernel).collapseBody false h).2 := by
      unfold collapseEdge; simp only [hd, Bool.not_false, if_true, hk0]
    rw [e1, collapseBody_snd P false]
    rfl
  have hce : (k.collapseEdge h).1 = (collapsePre k h).enableDeferred false := by
    rw [collapseEdge_eq, hd]
  have hTk : ∀ c ∈ k.liveCells, IsTet k c := fun c hc => P.isTet ((mem_liveCells k c).mp hc)
  generalize collapsePre k h = K at *
  have hnV : K.nV = k.nV := by rw [← hpre.wf.len.vDel, hvD, List.length_set, hi.wf.len.vDel]
  have hda : K.vDeleted (k.fromV h) = true := by
    unfold vDeleted; rw [hvD, ScanDel.getD_set]; simp [hi.wf.len.vDel, ha]
  have hone : ∀ v, v < K.nV → v ≠ k.fromV h → K.vDeleted v = false := by
    intro v _ hne
    unfold vDeleted; rw [hvD, ScanDel.getD_set]
    have : ¬ (k.fromV h = v ∧ k.fromV h < k.vDel.length) := fun e => hne e.1.symm
    rw [if_neg this]; exact hnf.getD v
  have hfin : (k.collapseEdge h).1 = { K.collectGarbage with deferred := false } := by
    rw [hce]; unfold enableDeferred; simp [hKd]
  exact ⟨hKd, hKf, R1, hT, hnV, hda, hone, hfin, hsnd, ha, hbv, hab, hTk⟩

/-- moving the vertex renaming under `canonQuad`: from the deferred-mode refinement (`R1`) and the garbage collection
    statement (`g`) to the refinement statement with the renaming -/
theorem collapse_finish {K K' : Kernel} (σ : Nat → Nat) (a b : Nat) (L : List (List Nat)) (hL : ∀ t ∈ L, t.length = 4)
    (hT : ∀ c ∈ K.liveCells, IsTet K c)
    (R1 : (quads K).Perm ((absCollapse a b L).map canonQuad)) (g : (quads K').Perm (quadsσ σ K)) :
    (quads K').Perm ((absCollapse a b L).map (fun t => canonQuad (t.map σ))) := by
  have e1 : quadsσ σ K = (quads K).map (fun u => canonQuad (u.map σ)) := by
    unfold quadsσ quads
    rw [List.map_map]
    apply List.map_congr_left
    intro c hc
    obtain ⟨p, q, r, s, eq, _, _⟩ := cellQuad_isTet (hT c hc)
    have hl4 : (K.cellQuad c).length = 4 := by rw [eq]; rfl
    simp only [Function.comp]
    exact (canonQuad_map_of_mem _ _ _ hl4 (canonQuad_mem _ hl4)).symm
  have e2 : (absCollapse a b L).map (fun t => canonQuad (t.map σ)) =
      ((absCollapse a b L).map canonQuad).map (fun u => canonQuad (u.map σ)) := by
    rw [List.map_map]
    apply List.map_congr_left
    intro t ht
    have hl4 : t.length = 4 := by
      unfold absCollapse at ht
      obtain ⟨t0, ht0, rfl⟩ := List.mem_map.mp ht
      rw [List.length_map]; exact hL t0 (List.mem_filter.mp ht0).1
    simp only [Function.comp]
    exact (canonQuad_map_of_mem _ _ _ hl4 (canonQuad_mem _ hl4)).symm
  rw [e2]
  exact g.trans (e1 ▸ R1.map _)

theorem cellQuads_length {k : Kernel} (hT : ∀ c ∈ k.liveCells, IsTet k c) : ∀ t ∈ k.liveCells.map k.cellQuad, t.length = 4 := by
  intro t ht
  obtain ⟨c, hc, rfl⟩ := List.mem_map.mp ht
  obtain ⟨p, q, r, s, eq, _, _⟩ := cellQuad_isTet (hT c hc)
  rw [eq]; rfl

/-! ### C15(d) in immediate index-shifting mode -/

/-- **C15(d), immediate index-shifting mode** (`deferred = false`, `fast = false`): `collapse_edge(a → b)` refines
    the abstract collapse followed by the renumbering `corr1 a` of the vertices that the garbage collection at the
    end of the call performs; the returned handle is the image of `b` under that renumbering, it is in range, one
    vertex slot is gone, and every live cell is a tetrahedron.
    `hpre` (the global invariant of the state just before the mode is switched back) is the explicit gap
    hypothesis of `TetOpOK (.collapse h)`, OVM/Tet/ShapeRun.lean. -/
theorem collapse_refines_shift {k : Kernel} {h : Nat} (hd : k.deferred = false) (hfa : k.fast = false)
    (hi : GInv k) (hl : FaceLoops k) (hb : k.fullBU = true) (hlk : k.linkCondition h = true)
    (hpre : GInv (collapsePre k h)) :
    ((k.collapseEdge h).1.liveCells.map (fun c => canonQuad ((k.collapseEdge h).1.cellQuad c))).Perm
      ((absCollapse (k.fromV h) (k.toV h) (k.liveCells.map k.cellQuad)).map
        (fun t => canonQuad (t.map (corr1 (k.fromV h))))) ∧
    (k.collapseEdge h).2 = corr1 (k.fromV h) (k.toV h) ∧
    (k.collapseEdge h).1.nV = k.nV - 1 ∧ (k.collapseEdge h).2 < (k.collapseEdge h).1.nV ∧
    (∀ c ∈ (k.collapseEdge h).1.liveCells, IsTet (k.collapseEdge h).1 c) := by
  obtain ⟨hKd, hKf, R1, hT, hnV, hda, hone, hfin, hsnd, ha, hbv, hab, hTk⟩ := collapse_immediate_core hd hi hl hb hlk hpre
  generalize collapsePre k h = K at *
  obtain ⟨g1, g2, g3, _, g5⟩ := gc_quads_shift hpre (hKf.trans hfa) hKd hT (by rw [hnV]; exact ha) hda hone
  have hsnd' : (k.collapseEdge h).2 = corr1 (k.fromV h) (k.toV h) := by
    rw [hsnd, hfa]; exact survivingVertex_shift _ _ _
  rw [hfin]
  refine ⟨collapse_finish _ _ _ _ (cellQuads_length hTk) hT R1 g1, hsnd',
    by show K.collectGarbage.nV = k.nV - 1; rw [g2, hnV], ?_, g5⟩
  show (k.collapseEdge h).2 < K.collectGarbage.nV
  rw [hsnd']
  exact g3 _ (fun e => hab e.symm) (by rw [hnV]; exact hbv)

/-! ### non-vacuity -/

/-- the three-tet fan of OVM/Props/C15.lean (`threeTets`: `(0,1,2,3)`, `(0,2,1,4)`, `(0,3,2,5)`), built in immediate
    index-shifting mode -/
def gcFan : Kernel :=
  runTetX {} [.probeMode false false, .base (.addNVertices 6), .addCell4 true 0 1 2 3, .addCell4 true 0 2 1 4,
    .addCell4 true 0 3 2 5]

-- TEST (evaluation on one state, labelled so): on the fan, halfedge `0 → 1`, immediate non-fast mode, both sides of
-- `collapse_refines_shift` are the same list; the returned handle is `corr1 0 1 = 0`; one vertex slot is gone
example : gcFan.deferred = false ∧ gcFan.fast = false ∧ gcFan.fullBU = true ∧ gcFan.linkCondition 0 = true ∧
    FaceLoops gcFan ∧ gcFan.fromV 0 = 0 ∧ gcFan.toV 0 = 1 ∧
    (gcFan.collapseEdge 0).1.liveCells.map (fun c => canonQuad ((gcFan.collapseEdge 0).1.cellQuad c)) = [[0, 1, 4, 2]] ∧
    (absCollapse 0 1 (gcFan.liveCells.map gcFan.cellQuad)).map (fun t => canonQuad (t.map (corr1 0))) = [[0, 1, 4, 2]] ∧
    (gcFan.collapseEdge 0).2 = 0 ∧ (gcFan.collapseEdge 0).1.nV = 5 ∧ (gcFan.collapseEdge 0).1.deferred = false := by
  decide +kernel

/-- every hypothesis of `collapse_refines_shift` holds on the three tets of OVM/Tet/ShapeRun.lean (`sampleCol0`:
    `(0,1,2,3)`, `(0,2,1,4)`, `(1,2,3,5)`, immediate non-fast mode) for the halfedge `15 = 0 → 4`; the gap hypothesis
    is discharged there by replaying the inside of the call (`sampleCol_pre`) -/
theorem sampleCol_shift_pre :
    (runTetX {} sampleCol0).deferred = false ∧ (runTetX {} sampleCol0).fast = false ∧ GInv (runTetX {} sampleCol0) ∧
    FaceLoops (runTetX {} sampleCol0) ∧ (runTetX {} sampleCol0).fullBU = true ∧
    (runTetX {} sampleCol0).linkCondition 15 = true ∧ GInv (collapsePre (runTetX {} sampleCol0) 15) := by
  refine ⟨by decide +kernel, by decide +kernel,
    (tinv_reachable _ (admissibleAll_of_B _ _ (by decide +kernel))).ginv, by decide +kernel, by decide +kernel,
    by decide +kernel, ?_⟩
  rw [sampleCol_pre]
  exact (tinv_reachable _ (admissibleAll_of_B _ _ (by decide +kernel))).ginv

example := collapse_refines_shift sampleCol_shift_pre.1 sampleCol_shift_pre.2.1 sampleCol_shift_pre.2.2.1
  sampleCol_shift_pre.2.2.2.1 sampleCol_shift_pre.2.2.2.2.1 sampleCol_shift_pre.2.2.2.2.2.1 sampleCol_shift_pre.2.2.2.2.2.2

-- TEST (evaluation, labelled so): what the theorem says there — two cells are left; `(0,1,2,3)` reappears as the
-- tetrahedron on `4`, renumbered (`corr1 0`: 1,2,3,4,5 ↦ 0,1,2,3,4), at the END of the cell array (so the two
-- lists are a genuine permutation of each other), and the handle of `4` is now `3`
example : (runTetX {} sampleCol0).fromV 15 = 0 ∧ (runTetX {} sampleCol0).toV 15 = 4 ∧
    ((runTetX {} sampleCol0).collapseEdge 15).1.liveCells.map
      (fun c => canonQuad (((runTetX {} sampleCol0).collapseEdge 15).1.cellQuad c)) = [[0, 1, 2, 4], [0, 1, 3, 2]] ∧
    (absCollapse 0 4 ((runTetX {} sampleCol0).liveCells.map (runTetX {} sampleCol0).cellQuad)).map
      (fun t => canonQuad (t.map (corr1 0))) = [[0, 1, 3, 2], [0, 1, 2, 4]] ∧
    ((runTetX {} sampleCol0).collapseEdge 15).2 = 3 := by
  decide +kernel

end Kernel
end OVM

import OVM.Tet.CollapseFinish
import OVM.Tet.CollapseLemmas
import OVM.Tet.CanonQuad
/-
  C15(d): the model algorithm `collapseEdge` (OVM/Tet/Collapse.lean, mirroring
  Mesh/TetrahedralMeshTopologyKernel.cc:311-399) REFINES the abstract collapse on oriented vertex quadruples
  (`absCollapse`, OVM/Tet/Spec.lean), in deferred deletion mode:

    for a state with K5's global invariant, all three bottom-up caches, closed triangular faces, and a halfedge
    `h = a → b` satisfying the link condition (the decidable predicate `linkCondition` the judge evaluates), the
    canonical oriented vertex quadruples of the live cells after `collapseEdge h` are, as a multiset, those of
    `absCollapse a b` applied to the quadruples before; every new cell is an even rearrangement of a former cell
    with `a` renamed to `b`; the returned handle is `b`, which is live, and `a` is deleted.

  This file: which cells the two cache queries of `collapse_edge` return (`mem_star_iff`, `mem_coll_iff`), the
  state after the whole operation, and the assembly.
-/
namespace OVM
namespace Kernel
open Global ScanDel

/-! ### what the link condition provides -/

theorem linkCondition_parts {k : Kernel} {h : Nat} (hl : k.linkCondition h = true) :
    k.simplicial = true ∧ k.liveE (eOf h) = true ∧ k.fromV h ≠ k.toV h := by
  unfold linkCondition at hl
  simp only [Bool.and_eq_true, bne_iff_ne, ne_eq] at hl
  exact ⟨hl.1.1.1, hl.1.1.2, hl.1.2⟩

theorem simplicial_parts {k : Kernel} (hs : k.simplicial = true) :
    (∀ c ∈ k.liveCells, IsTet k c) ∧ (k.liveEdges.map k.edgeVerts).Nodup := by
  unfold simplicial at hs
  simp only [Bool.and_eq_true, List.all_eq_true, decide_eq_true_eq] at hs
  exact ⟨fun c hc => (hs.1.1.1.1.2 c hc).1, hs.1.1.1.2⟩

/-! ### live vertices of live cells -/

theorem liveE_of_cell {k : Kernel} (hi : GInv k) {c hf he : Nat} (hc : k.liveC c = true) (hm : hf ∈ k.cellAt c)
    (hhe : he ∈ k.hfHes hf) : he < k.nHE ∧ k.liveE (eOf he) = true ∧ hf < k.nHF ∧ k.liveF (eOf hf) = true := by
  have hw := hi.wf
  have hhf : hf < k.nHF := hw.range.cells _ (cellAt_mem_cells (liveC_lt hc)) hf hm
  have hlF : k.liveF (eOf hf) = true := by
    unfold liveF; rw [hi.closed.f c hc hf hm]
    simp; unfold nHF nF eOf at *; omega
  obtain ⟨x, hx, hex⟩ := mem_hfHes_face hhe
  have hxr : x < k.nHE := hw.range.faces _ (faceAt_mem_faces (liveF_lt hlF)) x hx
  have hlE : k.liveE (eOf x) = true := by
    unfold liveE; rw [hi.closed.e _ hlF x hx]
    simp; unfold nHE nE eOf at *; omega
  rw [hex] at hlE
  exact ⟨hfHes_range hw.range hhf he hhe, hlE, hhf, hlF⟩

theorem vOk_of_liveE {k : Kernel} (hi : GInv k) {he : Nat} (hl : k.liveE (eOf he) = true) :
    VOk k (k.fromV he) ∧ VOk k (k.toV he) := by
  have hlt : eOf he < k.nE := by unfold liveE at hl; simp at hl; exact hl.1
  have hr := hi.wf.range.edges _ (k4_edgeAt_mem hlt)
  have hv := hi.closed.v _ hl
  unfold fromV toV halfedge VOk
  simp only
  split
  · exact ⟨⟨hr.1, hv.1⟩, ⟨hr.2, hv.2⟩⟩
  · exact ⟨⟨hr.2, hv.2⟩, ⟨hr.1, hv.1⟩⟩

theorem vOk_of_cellVert {k : Kernel} (hi : GInv k) {c hf v : Nat} (hc : k.liveC c = true) (hm : hf ∈ k.cellAt c)
    (hv : v ∈ k.hfVerts hf) : VOk k v := by
  unfold hfVerts at hv
  obtain ⟨he, hhe, rfl⟩ := List.mem_map.mp hv
  exact (vOk_of_liveE hi (liveE_of_cell hi hc hm hhe).2.1).1

/-! ### the two cache queries of `collapse_edge` -/

/-- `vc_iter(a)`: the live cells that have `a` as a vertex -/
theorem mem_star_iff {k : Kernel} (hi : GInv k) (hb : k.fullBU = true) {a : Nat} (ha : a < k.nV) (c : Nat) :
    c ∈ k.qVC a ↔ (k.liveC c = true ∧ a ∈ k.cellVertSet c) := by
  obtain ⟨bv, be, bf⟩ := fullBU_split hb
  have hw := hi.wf
  unfold qVC
  simp only [hb, if_true]
  rw [mem_sortUniq, List.mem_filterMap, mem_cellVertSet]
  constructor
  · rintro ⟨hf, hhf, hco⟩
    obtain ⟨he, hhe, hm⟩ := List.mem_flatMap.mp hhf
    have hs := ((hw.cache.v bv).2 _ ha).mem_iff.mp hhe
    rw [mem_sOut_iff] at hs
    have heR : he < k.nHE := by
      have := hs.1; unfold liveE at this; simp at this; unfold nHE nE eOf at *; omega
    have hs2 := ((hw.cache.e be).2 _ heR).mem_iff.mp hm
    rw [mem_sHfsOfHe] at hs2
    obtain ⟨_, hlc, hmc⟩ := cellOf_some_live hw.cache.f bf hco
    exact ⟨hlc, hf, hmc, he, hs2.2, hs.2⟩
  · rintro ⟨hlc, hf, hm, he, hhe, hfv⟩
    obtain ⟨heR, hlE, hfR, hlF⟩ := liveE_of_cell hi hlc hm hhe
    refine ⟨hf, List.mem_flatMap.mpr ⟨he, ?_, ?_⟩, ?_⟩
    · exact ((hw.cache.v bv).2 _ ha).mem_iff.mpr ((mem_sOut_iff k a he).mpr ⟨hlE, hfv⟩)
    · exact ((hw.cache.e be).2 _ heR).mem_iff.mpr ((mem_sHfsOfHe k he hf).mpr ⟨hlF, hhe⟩)
    · rw [(hw.cache.f bf).2 hf hfR]; exact sCellOf_of_mem hi.one hfR hlc hm

/-- the cells around the halfedge `h` (cc:320-331): the live cells one of whose halffaces contains `h` -/
theorem mem_coll_iff {k : Kernel} (hi : GInv k) (hb : k.fullBU = true) {h : Nat} (hh : h < k.nHE) (c : Nat) :
    c ∈ toSet ((k.qHEHF h).filterMap k.cellOf) ↔ (k.liveC c = true ∧ ∃ hf ∈ k.cellAt c, h ∈ k.hfHes hf) := by
  obtain ⟨bv, be, bf⟩ := fullBU_split hb
  have hw := hi.wf
  unfold qHEHF
  simp only [be, if_true]
  rw [mem_toSet, List.mem_filterMap]
  constructor
  · rintro ⟨hf, hm, hco⟩
    have hs2 := ((hw.cache.e be).2 _ hh).mem_iff.mp hm
    rw [mem_sHfsOfHe] at hs2
    obtain ⟨_, hlc, hmc⟩ := cellOf_some_live hw.cache.f bf hco
    exact ⟨hlc, hf, hmc, hs2.2⟩
  · rintro ⟨hlc, hf, hm, hhe⟩
    obtain ⟨_, _, hfR, hlF⟩ := liveE_of_cell hi hlc hm hhe
    refine ⟨hf, ((hw.cache.e be).2 _ hh).mem_iff.mpr ((mem_sHfsOfHe k h hf).mpr ⟨hlF, hhe⟩), ?_⟩
    rw [(hw.cache.f bf).2 hf hfR]; exact sCellOf_of_mem hi.one hfR hlc hm

/-! ### an oriented edge of a tetrahedron is a halfedge of exactly one of its halffaces -/

theorem loop_consec {k : Kernel} {l : List Nat} {a b : Nat} (hl : Loop3 k l) (h : Consec (l.map k.fromV) a b) :
    ∃ y ∈ l, k.fromV y = a ∧ k.toV y = b := by
  unfold Loop3 at hl
  split at hl
  · rename_i y0 y1 y2
    obtain ⟨l1, l2, l3⟩ := hl
    simp only [List.map_cons, List.map_nil, Consec] at h
    rcases h with ⟨rfl, rfl⟩ | ⟨rfl, rfl⟩ | ⟨rfl, rfl⟩
    · exact ⟨y0, by simp, rfl, l1⟩
    · exact ⟨y1, by simp, rfl, l2⟩
    · exact ⟨y2, by simp, rfl, l3⟩
  · exact absurd hl id

/-- in a tetrahedron with closed triangular faces every ordered pair of different vertices is run through by a
    halfedge of one of its halffaces -/
theorem tetOn_pair_halfedge {k : Kernel} {hs : List Nat} {p q r s a b : Nat} (hT : TetOn k hs p q r s)
    (hl : ∀ hf ∈ hs, Loop3 k (k.hfHes hf)) (ha : a ∈ [p, q, r, s]) (hb : b ∈ [p, q, r, s]) (hab : a ≠ b) :
    ∃ hf ∈ hs, ∃ y ∈ k.hfHes hf, k.fromV y = a ∧ k.toV y = b := by
  obtain ⟨t, ht, hc⟩ := tris_consec p q r s ha hb hab
  obtain ⟨hf, hm, hr⟩ := hT.2.2.2.2.1 t ht
  have := rot_consec hr (tris_length p q r s t ht) hc
  obtain ⟨y, hy, h1, h2⟩ := loop_consec (hl hf hm) this
  exact ⟨hf, hm, y, hy, h1, h2⟩

/-! ### no two live edges on the same two vertices -/

theorem toSet_pair_comm (u v : Nat) : toSet [u, v] = toSet [v, u] := by
  unfold toSet
  simp only [List.foldl_cons, List.foldl_nil, insertSorted]
  by_cases h1 : u < v
  · have h3 : ¬ v < u := by omega
    have h4 : ¬ v = u := by omega
    simp [h1, h3, h4]
  · by_cases h2 : u = v
    · subst h2; rfl
    · have h3 : v < u := by omega
      simp [h1, h2, h3]

theorem edgeVerts_of_halfedge (k : Kernel) (y : Nat) : k.edgeVerts (eOf y) = toSet [k.fromV y, k.toV y] := by
  unfold edgeVerts fromV toV halfedge
  simp only
  split
  · rfl
  · exact toSet_pair_comm _ _

/-- with no two live edges on the same vertex pair, a live halfedge is determined by its two end points -/
theorem halfedge_unique {k : Kernel} (hn : (k.liveEdges.map k.edgeVerts).Nodup) {y h : Nat}
    (hy : k.liveE (eOf y) = true) (hh : k.liveE (eOf h) = true) (hf : k.fromV y = k.fromV h) (ht : k.toV y = k.toV h)
    (hne : k.fromV h ≠ k.toV h) : y = h := by
  have e : eOf y = eOf h := by
    apply nodup_map_inj k.edgeVerts k.liveEdges hn _ ((mem_liveEdges k _).mpr hy) _ ((mem_liveEdges k _).mpr hh)
    rw [edgeVerts_of_halfedge, edgeVerts_of_halfedge, hf, ht]
  rcases opp_cases h with ⟨h1, h2⟩ | ⟨h1, h2⟩ <;> rcases opp_cases y with ⟨h3, h4⟩ | ⟨h3, h4⟩
  · omega
  · exfalso
    have : y = opp h := by omega
    rw [this, Lookup.fromV_opp] at hf
    exact hne hf.symm
  · exfalso
    have : y = opp h := by omega
    rw [this, Lookup.fromV_opp] at hf
    exact hne hf.symm
  · omega

/-! ### the precondition of the refinement theorem -/

/-- K5's global invariant, all three caches, closed triangular faces, deferred deletion mode, and the link
    condition (with it: the live mesh is a simplicial complex, the edge is live, `a ≠ b`) -/
structure CPre (k : Kernel) (h : Nat) : Prop where
  ginv : GInv k
  loops : FaceLoops k
  full : k.fullBU = true
  deferred : k.deferred = true
  link : k.linkCondition h = true

namespace CPre
variable {k : Kernel} {h : Nat} (P : CPre k h)
include P

theorem hab : k.fromV h ≠ k.toV h := (linkCondition_parts P.link).2.2
theorem hle : k.liveE (eOf h) = true := (linkCondition_parts P.link).2.1
theorem hlt : h < k.nHE := by
  have := P.hle; unfold liveE at this; simp at this; unfold nHE nE eOf at *; omega
theorem va : VOk k (k.fromV h) := (vOk_of_liveE P.ginv P.hle).1
theorem vb : VOk k (k.toV h) := (vOk_of_liveE P.ginv P.hle).2
theorem binv : BInv k := ⟨P.ginv, (fullBU_split P.full).1, (fullBU_split P.full).2.1, P.loops⟩
theorem isTet {c : Nat} (hc : k.liveC c = true) : IsTet k c :=
  (simplicial_parts (linkCondition_parts P.link).1).1 c ((mem_liveCells k c).mpr hc)
theorem noDupEdges : (k.liveEdges.map k.edgeVerts).Nodup := (simplicial_parts (linkCondition_parts P.link).1).2

theorem cellLoops {c : Nat} (hc : k.liveC c = true) : ∀ hf ∈ k.cellAt c, Loop3 k (k.hfHes hf) :=
  fun hf hm => loop3_hfHes P.loops (P.ginv.wf.range.cells _ (cellAt_mem_cells (liveC_lt hc)) hf hm)

/-- a live cell is around the halfedge `a → b` iff both `a` and `b` are vertices of it -/
theorem around_iff_both {c : Nat} (hc : k.liveC c = true) :
    (∃ hf ∈ k.cellAt c, h ∈ k.hfHes hf) ↔ (k.fromV h ∈ k.cellVertSet c ∧ k.toV h ∈ k.cellVertSet c) := by
  constructor
  · rintro ⟨hf, hm, hh⟩
    refine ⟨(mem_cellVertSet k c _).mpr ⟨hf, hm, h, hh, rfl⟩, ?_⟩
    have := loop3_toV_mem (P.cellLoops hc hf hm) hh
    obtain ⟨y, hy, hyv⟩ := List.mem_map.mp this
    exact (mem_cellVertSet k c _).mpr ⟨hf, hm, y, hy, hyv⟩
  · rintro ⟨h1, h2⟩
    obtain ⟨p, q, r, s, _, _, hT⟩ := (P.isTet hc).elim
    have hm := cellVertSet_mem_iff hT
    obtain ⟨hf, hfm, y, hy, f1, f2⟩ := tetOn_pair_halfedge hT (P.cellLoops hc) ((hm _).mp h1) ((hm _).mp h2) P.hab
    have hyl := (liveE_of_cell P.ginv hc hfm hy).2.1
    have := halfedge_unique P.noDupEdges hyl P.hle f1 f2 P.hab
    subst this
    exact ⟨hf, hfm, hy⟩

/-- a cell of the star that is not around the edge can be rebuilt: four halffaces on live vertices, none of
    which contains both `a` and `b` -/
theorem cellReady {c : Nat} (hc : k.liveC c = true) (hn : ¬ (k.fromV h ∈ k.cellVertSet c ∧ k.toV h ∈ k.cellVertSet c)) :
    CellReady k (k.fromV h) (k.toV h) c := by
  obtain ⟨p, q, r, s, _, _, hT⟩ := (P.isTet hc).elim
  have hmem := cellVertSet_mem_iff hT
  refine ⟨liveC_lt hc, hT.2.1, ?_, ?_⟩
  · intro hf hm v hv
    unfold substV
    split
    · exact P.vb
    · exact vOk_of_cellVert P.ginv hc hm hv
  · intro hf hm
    obtain ⟨t, ht, hr⟩ := hT.2.2.2.1 hf hm
    have hnd : (k.hfVerts hf).Nodup := by
      have tn := tris_nodup p q r s hT.1 t ht
      have l3 := tris_length p q r s t ht
      match t, l3, hr, tn with
      | [x, y, z], _, hr, tn =>
        rcases (rot_three _ x y z).mp hr with e | e | e <;> rw [e] <;> simp_all <;> omega
    apply subst_nodup _ _ _ hnd
    rintro ⟨h1, h2⟩
    exact hn ⟨(mem_cellVertSet k c _).mpr (by
        unfold hfVerts at h1; obtain ⟨y, hy, e⟩ := List.mem_map.mp h1; exact ⟨hf, hm, y, hy, e⟩),
      (mem_cellVertSet k c _).mpr (by
        unfold hfVerts at h2; obtain ⟨y, hy, e⟩ := List.mem_map.mp h2; exact ⟨hf, hm, y, hy, e⟩)⟩

end CPre

/-- the four new halffaces of a remembered cell form the renamed tetrahedron (in the state of the star loop) -/
theorem remOK_tetOn {k k1 : Kernel} {a b : Nat} {n : Nat × List Nat} (hT : IsTet k n.1) (hrem : RemOK k k1 a b n)
    (hnb : ¬ (a ∈ k.cellVertSet n.1 ∧ b ∈ k.cellVertSet n.1)) :
    ∃ p q r s, TetOn k1 n.2 (substV a b p) (substV a b q) (substV a b r) (substV a b s) := by
  obtain ⟨p, q, r, s, _, _, hTo⟩ := hT.elim
  obtain ⟨c0, c1, c2, c3, n0, n1, n2, n3, hc, hn, _, r0, r1, r2, r3⟩ := hrem
  have hmem := cellVertSet_mem_iff hTo
  rw [hc] at hTo
  have hd' : [substV a b p, substV a b q, substV a b r, substV a b s].Nodup := by
    have := subst_nodup a b [p, q, r, s] hTo.1 (fun ⟨h1, h2⟩ => hnb ⟨(hmem a).mpr h1, (hmem b).mpr h2⟩)
    simpa using this
  refine ⟨p, q, r, s, ?_⟩
  rw [hn]
  apply TetOn.transfer (substV a b) hTo hd' rfl
  · intro y hy
    simp only [List.mem_cons, List.not_mem_nil, or_false] at hy
    rcases hy with rfl | rfl | rfl | rfl
    · exact ⟨c0, by simp, r0⟩
    · exact ⟨c1, by simp, r1⟩
    · exact ⟨c2, by simp, r2⟩
    · exact ⟨c3, by simp, r3⟩
  · intro x hx
    simp only [List.mem_cons, List.not_mem_nil, or_false] at hx
    rcases hx with rfl | rfl | rfl | rfl
    · exact ⟨n0, by simp, r0⟩
    · exact ⟨n1, by simp, r1⟩
    · exact ⟨n2, by simp, r2⟩
    · exact ⟨n3, by simp, r3⟩

/-! ### the state after `collapse_edge` (deferred mode) -/

theorem kf_eq (k : Kernel) (hb : k.fBU = true) (x : Bool) : ({ k with fault := k.fault || (!k.fBU && x) } : Kernel) = k := by
  cases k; simp_all

theorem enableDeferred_true_frames (k : Kernel) :
    (k.enableDeferred true).cells = k.cells ∧ (k.enableDeferred true).cDel = k.cDel ∧
    (k.enableDeferred true).faces = k.faces ∧ (k.enableDeferred true).edges = k.edges ∧
    (k.enableDeferred true).vDel = k.vDel ∧ (k.enableDeferred true).nV = k.nV := by
  unfold enableDeferred; simp

/-- the list of cells `collapse_edge` rebuilds: the star of `a` without the cells around the edge -/
def rebuilt (k : Kernel) (h : Nat) : List Nat :=
  (k.qVC (k.fromV h)).filter (fun ch => !(toSet ((k.qHEHF h).filterMap k.cellOf)).contains ch)

theorem mem_rebuilt_iff {k : Kernel} {h : Nat} (P : CPre k h) (c : Nat) :
    c ∈ rebuilt k h ↔ (k.liveC c = true ∧ k.fromV h ∈ k.cellVertSet c ∧ k.toV h ∉ k.cellVertSet c) := by
  unfold rebuilt
  rw [List.mem_filter, mem_star_iff P.ginv P.full P.va.1]
  simp only [Bool.not_eq_true', List.contains_eq_mem, decide_eq_false_iff_not]
  rw [mem_coll_iff P.ginv P.full P.hlt]
  constructor
  · rintro ⟨⟨hl, ha⟩, hn⟩
    refine ⟨hl, ha, fun hb => hn ⟨hl, (P.around_iff_both hl).mpr ⟨ha, hb⟩⟩⟩
  · rintro ⟨hl, ha, hb⟩
    exact ⟨⟨hl, ha⟩, fun ⟨_, hx⟩ => hb ((P.around_iff_both hl).mp hx).2⟩

theorem rebuilt_nodup (k : Kernel) (h : Nat) : (rebuilt k h).Nodup := by
  unfold rebuilt qVC
  split
  · exact (sortUniq_nodup _).sublist List.filter_sublist
  · simp

/-- **the state after `collapse_edge(a → b)` in deferred mode**: the remembered cells `rem` (one per rebuilt cell,
    in the order of the star) are appended to the cell array; each carries the renamed vertex cycles of the cell
    it replaces; an old cell is live afterwards iff it was live and does not contain `a`; faces and edges are
    those of an extension `k1` of the old state -/
theorem collapse_state {k : Kernel} {h : Nat} (P : CPre k h) :
    ∃ (rem : List (Nat × List Nat)) (k1 : Kernel), BInv k1 ∧ Ext k k1 ∧
      rem.map (·.1) = rebuilt k h ∧ (∀ n ∈ rem, RemOK k k1 (k.fromV h) (k.toV h) n) ∧
      (k.collapseEdge h).1.cells = k.cells ++ rem.map (·.2) ∧
      (k.collapseEdge h).1.faces = k1.faces ∧ (k.collapseEdge h).1.edges = k1.edges ∧
      (k.collapseEdge h).1.cDel.length = k.nC + rem.length ∧
      (∀ c, c < k.nC → ((k.collapseEdge h).1.cDeleted c = false ↔
        (k.cDeleted c = false ∧ k.fromV h ∉ k.cellVertSet c))) ∧
      (∀ i, i < rem.length → (k.collapseEdge h).1.cDeleted (k.nC + i) = false) ∧
      (k.collapseEdge h).1.vDeleted (k.toV h) = false ∧ (k.collapseEdge h).1.vDeleted (k.fromV h) = true ∧
      (k.collapseEdge h).2 = k.toV h := by
  have hd := P.deferred
  have hbf := (fullBU_split P.full).2.2
  have hw := P.ginv.wf
  -- unfold the operation down to the two phases
  have e1 : k.collapseEdge h = ((k.collapseBody true h).1.enableDeferred true, (k.collapseBody true h).2) := by
    unfold collapseEdge; simp [hd]
  have e2 : (k.collapseBody true h).1 = collapseFinish (k.collapseStar (k.fromV h) (k.toV h)
      (toSet ((k.qHEHF h).filterMap k.cellOf))) (k.fromV h) := by
    unfold collapseBody
    simp only [kf_eq k hbf]
  have e3 : (k.collapseBody true h).2 = k.toV h := by
    unfold collapseBody survivingVertex; simp
  rw [e1]
  simp only [e2, e3]
  -- phase 1: the star loop
  obtain ⟨b1, x1, d1, new, q4, q5, q6⟩ := collapseFold_spec (k.fromV h) (k.toV h)
    (toSet ((k.qHEHF h).filterMap k.cellOf)) k hw.range (k.qVC (k.fromV h)) k [] P.binv hd (Ext.refl k)
    (by
      intro ch hm hn
      have hm' : ch ∈ rebuilt k h := by
        unfold rebuilt; exact List.mem_filter.mpr ⟨hm, by simp only [hn, Bool.not_false]⟩
      obtain ⟨hl, ha, hb⟩ := (mem_rebuilt_iff P ch).mp hm'
      exact P.cellReady hl (fun hx => hb hx.2))
  unfold collapseStar
  generalize (k.qVC (k.fromV h)).foldl (collapseCell (k.fromV h) (k.toV h) (toSet ((k.qHEHF h).filterMap k.cellOf))) (k, [])
    = r at b1 x1 d1 q4 q5 q6
  obtain ⟨k1, rem⟩ := r
  simp only [List.nil_append] at b1 x1 d1 q4 q5 q6
  subst q4
  -- phase 2: delete_vertex(a), deferred
  have hd1 : k1.deferred = true := x1.deferred.trans hd
  have hfull1 : k1.fullBU = true := by
    unfold fullBU; rw [x1.vBU, x1.eBU, x1.fBU]; exact P.full
  have hva1 : k.fromV h < k1.nV := by rw [x1.nV]; exact P.va.1
  obtain ⟨f1, f2, f3, f4, f5, f6⟩ := deleteVertex_deferred_frames hd1 (k.fromV h)
  have hlive2 := liveC_deleteVertex_deferred b1.ginv hd1 hfull1 b1.loops hva1
  -- phase 3: re-creation
  have hl2 : FaceLoops (k1.deleteVertex (k.fromV h)) := faceLoops_of_eq f3 f2 b1.loops
  have hnHF2 : (k1.deleteVertex (k.fromV h)).nHF = k1.nHF := by unfold nHF; rw [f2]
  have hrem : ∀ n ∈ rem, n.2.length = 4 ∧ (∀ hf ∈ n.2, hf < (k1.deleteVertex (k.fromV h)).nHF) ∧
      (k1.deleteVertex (k.fromV h)).spanVertCount n.2 = 4 ∧ (k1.deleteVertex (k.fromV h)).noParallel n.2 = true := by
    intro n hn
    have hreb : n.1 ∈ rebuilt k h := by
      have : n.1 ∈ rem.map (·.1) := List.mem_map.mpr ⟨n, hn, rfl⟩
      rw [q5] at this; exact this
    obtain ⟨hl, _, hb⟩ := (mem_rebuilt_iff P _).mp hreb
    obtain ⟨p, q, r, s, hT1⟩ := remOK_tetOn (P.isTet hl) (q6 n hn) (fun hx => hb hx.2)
    obtain ⟨c0, c1, c2, c3, n0, n1, n2, n3, _, e, ok, _⟩ := q6 n hn
    refine ⟨by rw [e]; rfl, fun hf hm => by rw [hnHF2]; exact (ok hf hm).1, ?_⟩
    rw [spanVertCount_of_eq f3 f2, noParallel_of_eq f3 f2]
    exact ⟨spanVertCount_of_tetOn hT1 (loops_of_hfOk b1.loops (fun hf hm => (ok hf hm).1)),
      noParallel_of_tetOn hT1 (loops_of_hfOk b1.loops (fun hf hm => (ok hf hm).1))⟩
  obtain ⟨g1, g2, g3, g4, g5⟩ := readdFold_frames rem (k1.deleteVertex (k.fromV h)) hl2 hrem
  unfold collapseFinish
  simp only
  obtain ⟨z1, z2, z3, z4, z5, z6⟩ := enableDeferred_true_frames (rem.foldl readdCell (k1.deleteVertex (k.fromV h)))
  have hcl2 : (k1.deleteVertex (k.fromV h)).cDel.length = k.nC := by
    have := (ginv_deleteVertex hva1 b1.ginv).wf.len.cDel
    rw [this]; unfold nC; rw [f1, x1.cells]
  refine ⟨rem, k1, b1, x1, q5, q6, ?_, by rw [z3, g3, f2], by rw [z4, g4, f3], ?_, ?_, ?_, ?_, ?_, trivial⟩
  · rw [z1, g1, f1, x1.cells]
  · rw [z2, g2]; simp [hcl2]
  · -- old cells
    intro c hc
    have hc1 : c < k1.nC := by unfold nC; rw [x1.cells]; exact hc
    have e : ((rem.foldl readdCell (k1.deleteVertex (k.fromV h))).enableDeferred true).cDeleted c
        = (k1.deleteVertex (k.fromV h)).cDeleted c := by
      unfold cDeleted; rw [z2, g2, getD_append_lt _ _ _ _ (by rw [hcl2]; exact hc)]
    rw [e]
    have hl2c := hlive2 c
    have hnC2 : (k1.deleteVertex (k.fromV h)).nC = k.nC := by unfold nC; rw [f1, x1.cells]
    have hV : k1.cellVertSet c = k.cellVertSet c :=
      cellVertSet_congr (x1.cellAt c) (fun hf hm => x1.hfVerts hw.range (cellAt_range hw.range hc hf hm))
    -- liveness in k1: flagged exactly the rebuilt cells
    have hk1 : k1.cDeleted c = (k.cDeleted c || decide (c ∈ rebuilt k h)) := by
      unfold cDeleted; rw [d1, flagsFold_getD]
      have : decide (c < k.cDel.length) = true := by rw [hw.len.cDel]; simp [hc]
      unfold rebuilt
      rw [this, Bool.and_true]
    unfold liveC at hl2c
    rw [hnC2] at hl2c
    simp only [hc, hc1, decide_true, Bool.true_and, Bool.not_eq_true'] at hl2c
    rw [hl2c, hk1, hV]
    constructor
    · rintro ⟨h1, h2⟩
      simp only [Bool.or_eq_false_iff, decide_eq_false_iff_not] at h1
      exact ⟨h1.1, h2⟩
    · rintro ⟨h1, h2⟩
      refine ⟨?_, h2⟩
      simp only [Bool.or_eq_false_iff, decide_eq_false_iff_not]
      exact ⟨h1, fun hm => h2 ((mem_rebuilt_iff P c).mp hm).2.1⟩
  · intro i hi
    unfold cDeleted
    rw [z2, g2, List.getD_eq_getElem?_getD, List.getElem?_append_right (by rw [hcl2]; omega)]
    simp [hcl2, hi]
  · -- b stays live
    unfold vDeleted
    rw [z5, g5, f6, x1.vDel, ScanDel.getD_set]
    have hvb := P.vb.2; unfold vDeleted at hvb
    have hne : ¬ k.fromV h = k.toV h := P.hab
    simp only [hne, false_and, Bool.false_eq_true, if_false, decide_false]
    first | exact hvb | (simp; exact hvb) | (rw [List.getD_eq_getElem?_getD] at hvb; simp [hvb])
  · -- a is flagged
    unfold vDeleted
    rw [z5, g5, f6, x1.vDel, ScanDel.getD_set]
    have := P.va.1
    simp [hw.len.vDel, this]

end Kernel
end OVM

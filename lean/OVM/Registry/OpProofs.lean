/-
  Every operation of the registry / world model preserves the invariant.
-/
import OVM.Registry.RegistryProofs
namespace OVM.Registry

/-! ### corollaries of `invX_map` -/

theorem invX_mapHeap {w : World} {ex : Option Nat} (hi : InvX w ex) (f : Storage → Storage)
    (hf : KeepsStorage f)
    (c4 : ∀ s ∈ w.heap, (f s).pers = true → (f s).shared = true)
    (c5 : ∀ s ∈ w.heap, (f s).shared = true → (f s).name ≠ "")
    (c6 : ∀ s ∈ w.heap, ∀ t ∈ w.heap, (f s).shared = true → (f t).shared = true →
            s.tracker.isSome = true → s.tracker = t.tracker → s.kind = t.kind → s.ty = t.ty →
            (f s).name = (f t).name → s.id = t.id)
    (c8 : ∀ me ∈ w.meshes, ∀ i ∈ me.pers, ∃ s ∈ w.heap, s.id = i ∧ (f s).pers = true ∧ s.tracker = some me.id)
    (c10 : ∀ s ∈ w.heap, ∀ me ∈ w.meshes, (f s).pers = true → s.tracker = some me.id → s.id ∈ me.pers)
    (c13 : ∀ s ∈ w.heap, ∀ me ∈ w.meshes, s.tracker = some me.id → (f s).vals.length = me.cnt.n s.kind) :
    InvX (mapHeap w f) ex := by
  have := invX_map hi id f (fun _ => ⟨rfl, rfl⟩) hf c4 c5 c6 c8 hi.persNodup c10 c13
  simpa [mapHeap] using this

/-- only values (and entity counts / the digest) change -/
theorem invX_vals {w : World} {ex : Option Nat} (hi : InvX w ex) (g : Mesh → Mesh) (f : Storage → Storage)
    (hg : ∀ me, (g me).id = me.id ∧ (g me).pos = me.pos ∧ (g me).pers = me.pers)
    (hf : ∀ s, (f s).id = s.id ∧ (f s).kind = s.kind ∧ (f s).ty = s.ty ∧ (f s).tracker = s.tracker ∧
               (f s).name = s.name ∧ (f s).shared = s.shared ∧ (f s).pers = s.pers)
    (c13 : ∀ s ∈ w.heap, ∀ me ∈ w.meshes, s.tracker = some me.id → (f s).vals.length = (g me).cnt.n s.kind) :
    InvX { w with meshes := w.meshes.map g, heap := w.heap.map f } ex := by
  refine invX_map hi g f (fun me => ⟨(hg me).1, (hg me).2.1⟩) (fun s => ⟨(hf s).1, (hf s).2.1, (hf s).2.2.1, (hf s).2.2.2.1⟩)
    ?_ ?_ ?_ ?_ ?_ ?_ c13
  · intro s hs; rw [(hf s).2.2.2.2.2.2, (hf s).2.2.2.2.2.1]; exact hi.persShared s hs
  · intro s hs; rw [(hf s).2.2.2.2.2.1, (hf s).2.2.2.2.1]; exact hi.sharedNamed s hs
  · intro s hs t ht
    rw [(hf s).2.2.2.2.2.1, (hf t).2.2.2.2.2.1, (hf s).2.2.2.2.1, (hf t).2.2.2.2.1]; exact hi.unique s hs t ht
  · intro me hme i hi'
    rw [(hg me).2.2] at hi'
    obtain ⟨s, hs, e1, e2, e3⟩ := hi.persEntry me hme i hi'
    exact ⟨s, hs, e1, by rw [(hf s).2.2.2.2.2.2]; exact e2, e3⟩
  · intro me hme; rw [(hg me).2.2]; exact hi.persNodup me hme
  · intro s hs me hme hp ht
    rw [(hf s).2.2.2.2.2.2] at hp; rw [(hg me).2.2]; exact hi.persListed s hs me hme hp ht

theorem length_resizeL (l : List Int) (n : Nat) (d : Int) : (resizeL l n d).length = n := by
  simp [resizeL]; omega

theorem length_eraseSlots : ∀ (del : List Nat) (n : Nat) (l : List Int),
    descBelow n del = true → n ≤ l.length → (eraseSlots l del).length = l.length - del.length := by
  intro del
  induction del with
  | nil => intro n l _ _; simp [eraseSlots]
  | cons i r ih =>
    intro n l hd hn
    simp only [descBelow, Bool.and_eq_true, decide_eq_true_eq] at hd
    have hl : (l.eraseIdx i).length = l.length - 1 := by
      rw [List.length_eraseIdx]; simp; omega
    have := ih i (l.eraseIdx i) hd.2 (by omega)
    simp only [eraseSlots, List.foldl_cons, List.length_cons] at this ⊢
    rw [this, hl]; omega

theorem descBelow_length : ∀ (del : List Nat) (n : Nat), descBelow n del = true → del.length ≤ n := by
  intro del
  induction del with
  | nil => intro n _; simp
  | cons i r ih =>
    intro n hd
    simp only [descBelow, Bool.and_eq_true, decide_eq_true_eq] at hd
    have := ih i hd.2
    simp; omega

theorem length_halves (l : List Nat) : (halves l).length = 2 * l.length := by
  induction l with
  | nil => rfl
  | cons a l ih => simp [halves] at ih ⊢; omega

theorem descBelow_halves : ∀ (del : List Nat) (n : Nat), descBelow n del = true →
    descBelow (2 * n) (halves del) = true := by
  intro del
  induction del with
  | nil => intro n _; rfl
  | cons i r ih =>
    intro n hd
    simp only [descBelow, Bool.and_eq_true, decide_eq_true_eq] at hd
    have h2 := ih i hd.2
    have e : halves (i :: r) = (2 * i + 1) :: (2 * i) :: halves r := by simp [halves]
    rw [e]
    simp only [descBelow, Bool.and_eq_true, decide_eq_true_eq]
    exact ⟨by omega, by omega, h2⟩


/-! ### value-only building blocks -/

theorem invX_resize {w : World} {ex : Option Nat} (hi : InvX w ex) (m : Nat) (c : Counts) (topo' : Nat)
    (sel : Kind → Bool)
    (hsel : ∀ me ∈ w.meshes, me.id = m → ∀ k, sel k = false → c.n k = me.cnt.n k) :
    InvX (resizeTracked (modM w m (fun me => { me with cnt := c, topo := topo' })) m c sel) ex := by
  unfold resizeTracked modM mapHeap
  refine invX_vals hi _ _ ?_ ?_ ?_
  · intro me; split <;> simp
  · intro s; split <;> simp
  · intro s hs me hme ht
    have hsz := hi.sizes s hs me hme ht
    by_cases hm : me.id = m
    · subst hm
      simp only [ht, ↓reduceIte]
      cases hk : sel s.kind
      · simp [hsz, hsel me hme rfl s.kind hk]
      · simp [length_resizeL]
    · have : ¬ (some me.id = some m) := by simpa using hm
      simp [ht, this, hm, hsz]

theorem invX_setVals {w : World} {ex : Option Nat} (hi : InvX w ex) (sid : Nat) (v : Storage → List Int)
    (hv : ∀ s ∈ w.heap, s.id = sid → (v s).length = s.vals.length) :
    InvX (modS w sid (fun s => { s with vals := v s })) ex := by
  unfold modS mapHeap
  have := invX_vals hi id (fun s => if s.id = sid then { s with vals := v s } else s) (fun _ => ⟨rfl, rfl, rfl⟩)
    (by intro s; split <;> simp) ?_
  · simpa using this
  · intro s hs me hme ht
    have hsz := hi.sizes s hs me hme ht
    by_cases h : s.id = sid
    · simp [h, hv s hs h, hsz]
    · simp [h, hsz]

theorem invX_topo {w : World} {ex : Option Nat} (hi : InvX w ex) (m topo' : Nat) :
    InvX (modM w m (fun me => { me with topo := topo' })) ex := by
  unfold modM
  have := invX_vals hi (fun x => if x.id = m then { x with topo := topo' } else x) id
    (by intro me; split <;> simp) (fun _ => ⟨rfl, rfl, rfl, rfl, rfl, rfl, rfl⟩) ?_
  · simpa using this
  · intro s hs me hme ht
    have hsz := hi.sizes s hs me hme ht
    by_cases h : me.id = m <;> simp [h, hsz]

theorem invX_fault_irrel {w : World} {ex : Option Nat} (hi : InvX w ex) : w.fault = false := hi.noFault

theorem counts_n_addV (c : Counts) (k : Kind) (h : (k == Kind.V) = false) :
    ({ c with nV := c.nV + 1 } : Counts).n k = c.n k := by
  cases k <;> simp_all [Counts.n]

theorem invX_erase {w : World} {ex : Option Nat} (hi : InvX w ex) (m : Nat) (me0 : Mesh)
    (hme0 : me0 ∈ w.meshes) (hid : me0.id = m) (dv de df dc : List Nat) (topo' : Nat)
    (hd : (descBelow me0.cnt.nV dv && descBelow me0.cnt.nE de && descBelow me0.cnt.nF df && descBelow me0.cnt.nC dc) = true) :
    InvX (mapHeap (modM w m (fun me => { me with
              cnt := { nV := me0.cnt.nV - dv.length, nE := me0.cnt.nE - de.length,
                       nF := me0.cnt.nF - df.length, nC := me0.cnt.nC - dc.length }, topo := topo' }))
            (fun s => if s.tracker = some m then { s with vals := eraseSlots s.vals (delOf dv de df dc s.kind) } else s)) ex := by
  unfold modM mapHeap
  refine invX_vals hi _ _ ?_ ?_ ?_
  · intro me; split <;> simp
  · intro s; split <;> simp
  · intro s hs me hme ht
    have hsz := hi.sizes s hs me hme ht
    simp only [Bool.and_eq_true] at hd
    obtain ⟨⟨⟨hdv, hde⟩, hdf⟩, hdc⟩ := hd
    by_cases hm : me.id = m
    · have : me = me0 := hi.meshInj me hme me0 hme0 (hm.trans hid.symm)
      subst this
      subst hm
      simp only [ht, ↓reduceIte]
      have key : ∀ del n, descBelow n del = true → n = s.vals.length →
          (eraseSlots s.vals del).length = n - del.length := by
        intro del n h1 h2; rw [length_eraseSlots del n s.vals h1 (by omega)]; omega
      cases hk : s.kind <;> simp only [hk, delOf, Counts.n] at hsz ⊢
      · exact key dv _ hdv hsz.symm
      · exact key de _ hde hsz.symm
      · rw [key (halves de) (2 * me.cnt.nE) (descBelow_halves de _ hde) hsz.symm, length_halves]; omega
      · exact key df _ hdf hsz.symm
      · rw [key (halves df) (2 * me.cnt.nF) (descBelow_halves df _ hdf) hsz.symm, length_halves]; omega
      · exact key dc _ hdc hsz.symm
      · simp [eraseSlots, hsz]
    · have : ¬ (some me.id = some m) := by simpa using hm
      simp [ht, this, hm, hsz]


/-! ### flag / name building blocks -/

theorem keeps_modflag (sid : Nat) (F : Storage → Storage)
    (hF : ∀ s, (F s).id = s.id ∧ (F s).kind = s.kind ∧ (F s).ty = s.ty ∧ (F s).tracker = s.tracker) :
    KeepsStorage (fun s => if s.id = sid then F s else s) := by
  intro s; dsimp only; split
  · exact hF s
  · exact ⟨rfl, rfl, rfl, rfl⟩

/-- `sptr->set_shared(true)` after the two checks of `set_shared` -/
theorem invX_shareOn {w : World} {ex : Option Nat} (hi : InvX w ex) (s0 : Storage) (m : Nat)
    (h0 : s0 ∈ w.heap) (hn : s0.name ≠ "") (ht : s0.tracker = some m)
    (hfind : find w m s0.kind s0.ty s0.name = none) :
    InvX (modS w s0.id (fun s => { s with shared := true })) ex := by
  unfold modS
  have inj := hi.idInj
  have nf := find_none hfind hn
  refine invX_mapHeap hi _ (keeps_modflag _ _ (fun _ => ⟨rfl, rfl, rfl, rfl⟩)) ?_ ?_ ?_ ?_ ?_ ?_
  · intro s hs; have := hi.persShared s hs; split <;> simp_all
  · intro s hs hsh
    by_cases h : s.id = s0.id
    · have := inj s hs s0 h0 h; subst this; simpa [h] using hn
    · simp [h] at hsh ⊢; exact hi.sharedNamed s hs hsh
  · intro s hs t ht' hss hts hsome htr hk hty hname
    by_cases h1 : s.id = s0.id <;> by_cases h2 : t.id = s0.id
    · rw [h1, h2]
    · have := inj s hs s0 h0 h1; subst this
      simp [h2] at hts hname
      exact (nf t ht' (by rw [← htr, ht]) hk.symm hts hname.symm hty.symm).elim
    · have := inj t ht' s0 h0 h2; subst this
      simp [h1] at hss hname
      exact (nf s hs (by rw [htr, ht]) hk hss hname hty).elim
    · simp [h1, h2] at hss hts hname
      exact hi.unique s hs t ht' hss hts hsome htr hk hty hname
  · intro me hme i hi'
    obtain ⟨s, hs, e1, e2, e3⟩ := hi.persEntry me hme i hi'
    exact ⟨s, hs, e1, by split <;> simp [e2], e3⟩
  · intro s hs me hme hp htr
    have hp' : s.pers = true := by split at hp <;> simpa using hp
    exact hi.persListed s hs me hme hp' htr
  · intro s hs me hme htr
    have := hi.sizes s hs me hme htr
    split <;> simpa using this

/-- `sptr->set_shared(false)` on a storage that is not persistent (any more) -/
theorem invX_shareOff {w : World} {ex : Option Nat} (hi : InvX w ex) (s0 : Storage)
    (h0 : s0 ∈ w.heap) (hp0 : s0.pers = false) :
    InvX (modS w s0.id (fun s => { s with shared := false })) ex := by
  unfold modS
  have inj := hi.idInj
  refine invX_mapHeap hi _ (keeps_modflag _ _ (fun _ => ⟨rfl, rfl, rfl, rfl⟩)) ?_ ?_ ?_ ?_ ?_ ?_
  · intro s hs hp
    by_cases h : s.id = s0.id
    · have := inj s hs s0 h0 h; subst this; simp [hp0] at hp
    · simp [h] at hp ⊢; exact hi.persShared s hs hp
  · intro s hs hsh
    by_cases h : s.id = s0.id
    · simp [h] at hsh
    · simp [h] at hsh ⊢; exact hi.sharedNamed s hs hsh
  · intro s hs t ht' hss hts hsome htr hk hty hname
    by_cases h1 : s.id = s0.id
    · simp [h1] at hss
    · by_cases h2 : t.id = s0.id
      · simp [h2] at hts
      · simp [h1, h2] at hss hts hname
        exact hi.unique s hs t ht' hss hts hsome htr hk hty hname
  · intro me hme i hi'
    obtain ⟨s, hs, e1, e2, e3⟩ := hi.persEntry me hme i hi'
    exact ⟨s, hs, e1, by split <;> simp [e2], e3⟩
  · intro s hs me hme hp htr
    have hp' : s.pers = true := by split at hp <;> simpa using hp
    exact hi.persListed s hs me hme hp' htr
  · intro s hs me hme htr
    have := hi.sizes s hs me hme htr
    split <;> simpa using this

/-- `persistent_props_.insert(sptr); sptr->set_persistent(true)` -/
theorem invX_mark {w : World} {ex : Option Nat} (hi : InvX w ex) (s0 : Storage) (m : Nat)
    (h0 : s0 ∈ w.heap) (hsh : s0.shared = true) (ht : s0.tracker = some m) :
    InvX (markPersistent w m s0.id) ex := by
  unfold markPersistent modS modM mapHeap
  have inj := hi.idInj
  refine invX_map hi _ _ (by intro me; dsimp only; split <;> simp) (keeps_modflag _ _ (fun _ => ⟨rfl, rfl, rfl, rfl⟩)) ?_ ?_ ?_ ?_ ?_ ?_ ?_
  · intro s hs hp
    by_cases h : s.id = s0.id
    · have := inj s hs s0 h0 h; subst this; simpa [h] using hsh
    · simp [h] at hp ⊢; exact hi.persShared s hs hp
  · intro s hs hsh'
    have : s.shared = true := by split at hsh' <;> simpa using hsh'
    have := hi.sharedNamed s hs this
    split <;> simpa using this
  · intro s hs t ht' hss hts hsome htr hk hty hname
    have a : s.shared = true := by split at hss <;> simpa using hss
    have b : t.shared = true := by split at hts <;> simpa using hts
    have c : s.name = t.name := by
      have e1 : (if s.id = s0.id then ({ s with pers := true } : Storage) else s).name = s.name := by split <;> rfl
      have e2 : (if t.id = s0.id then ({ t with pers := true } : Storage) else t).name = t.name := by split <;> rfl
      rw [e1, e2] at hname; exact hname
    exact hi.unique s hs t ht' a b hsome htr hk hty c
  · intro me hme i hi'
    by_cases hm : me.id = m
    · simp only [hm, ↓reduceIte] at hi'
      have hcases : i ∈ me.pers ∨ i = s0.id := by
        split at hi'
        · exact Or.inl hi'
        · simpa using hi'
      rcases hcases with hold | hnew
      · obtain ⟨s, hs, e1, e2, e3⟩ := hi.persEntry me hme i hold
        exact ⟨s, hs, e1, by split <;> simp [e2], e3⟩
      · exact ⟨s0, h0, hnew.symm, by simp, by rw [ht, hm]⟩
    · simp only [hm, ↓reduceIte] at hi'
      obtain ⟨s, hs, e1, e2, e3⟩ := hi.persEntry me hme i hi'
      exact ⟨s, hs, e1, by split <;> simp [e2], e3⟩
  · intro me hme
    have nd := hi.persNodup me hme
    by_cases hm : me.id = m
    · simp only [hm, ↓reduceIte]
      split
      · exact nd
      · rename_i hc
        have : s0.id ∉ me.pers := by simpa using hc
        exact List.nodup_append.mpr ⟨nd, by simp, by intro a ha b hb; simp at hb; subst hb; intro e; exact this (e ▸ ha)⟩
    · simpa [hm] using nd
  · intro s hs me hme hp htr
    by_cases h : s.id = s0.id
    · have := inj s hs s0 h0 h; subst this
      have hm : me.id = m := by rw [ht] at htr; simpa using htr.symm
      simp only [hm, ↓reduceIte]
      split
      · rename_i hc; simpa using hc
      · simp
    · simp [h] at hp
      have := hi.persListed s hs me hme hp htr
      by_cases hm : me.id = m
      · simp only [hm, ↓reduceIte]; split
        · exact this
        · exact List.mem_append_left _ this
      · simpa [hm] using this
  · intro s hs me hme htr
    have := hi.sizes s hs me hme htr
    have e1 : (if s.id = s0.id then ({ s with pers := true } : Storage) else s).vals = s.vals := by split <;> rfl
    have e2 : (if me.id = m then ({ me with pers := if me.pers.contains s0.id then me.pers else me.pers ++ [s0.id] } : Mesh) else me).cnt = me.cnt := by split <;> rfl
    rw [e1, e2]; exact this

/-- `persistent_props_.erase(sptr); sptr->set_persistent(false)` -/
theorem invX_unmark {w : World} {ex : Option Nat} (hi : InvX w ex) (s0 : Storage) (m : Nat)
    (h0 : s0 ∈ w.heap) (ht : s0.tracker = some m) :
    InvX (unmarkPersistent w m s0.id) ex := by
  unfold unmarkPersistent modS modM mapHeap
  have inj := hi.idInj
  refine invX_map hi _ _ (by intro me; dsimp only; split <;> simp) (keeps_modflag _ _ (fun _ => ⟨rfl, rfl, rfl, rfl⟩)) ?_ ?_ ?_ ?_ ?_ ?_ ?_
  · intro s hs hp
    by_cases h : s.id = s0.id
    · simp [h] at hp
    · simp [h] at hp ⊢; exact hi.persShared s hs hp
  · intro s hs hsh'
    have : s.shared = true := by split at hsh' <;> simpa using hsh'
    have := hi.sharedNamed s hs this
    split <;> simpa using this
  · intro s hs t ht' hss hts hsome htr hk hty hname
    have a : s.shared = true := by split at hss <;> simpa using hss
    have b : t.shared = true := by split at hts <;> simpa using hts
    have c : s.name = t.name := by
      have e1 : (if s.id = s0.id then ({ s with pers := false } : Storage) else s).name = s.name := by split <;> rfl
      have e2 : (if t.id = s0.id then ({ t with pers := false } : Storage) else t).name = t.name := by split <;> rfl
      rw [e1, e2] at hname; exact hname
    exact hi.unique s hs t ht' a b hsome htr hk hty c
  · intro me hme i hi'
    have hold : i ∈ me.pers ∧ (me.id = m → i ≠ s0.id) := by
      by_cases hm : me.id = m
      · simp only [hm, ↓reduceIte, List.mem_filter] at hi'
        exact ⟨hi'.1, fun _ => by simpa using hi'.2⟩
      · simp only [hm, ↓reduceIte] at hi'; exact ⟨hi', fun h => absurd h hm⟩
    obtain ⟨s, hs, e1, e2, e3⟩ := hi.persEntry me hme i hold.1
    refine ⟨s, hs, e1, ?_, e3⟩
    by_cases h : s.id = s0.id
    · exfalso
      have := inj s hs s0 h0 h; subst this
      have hm : me.id = m := by rw [ht] at e3; simpa using e3.symm
      exact hold.2 hm e1.symm
    · simp [h, e2]
  · intro me hme
    have nd := hi.persNodup me hme
    by_cases hm : me.id = m
    · simp only [hm, ↓reduceIte]; exact nd.sublist List.filter_sublist
    · simpa [hm] using nd
  · intro s hs me hme hp htr
    by_cases h : s.id = s0.id
    · simp [h] at hp
    · simp [h] at hp
      have := hi.persListed s hs me hme hp htr
      by_cases hm : me.id = m
      · simp only [hm, ↓reduceIte, List.mem_filter]; exact ⟨this, by simpa using h⟩
      · simpa [hm] using this
  · intro s hs me hme htr
    have := hi.sizes s hs me hme htr
    have e1 : (if s.id = s0.id then ({ s with pers := false } : Storage) else s).vals = s.vals := by split <;> rfl
    have e2 : (if me.id = m then ({ me with pers := me.pers.filter (· != s0.id) } : Mesh) else me).cnt = me.cnt := by split <;> rfl
    rw [e1, e2]; exact this


theorem nameClash_false {w : World} {s0 : Storage} {name : String} {m : Nat} (ht : s0.tracker = some m)
    (h : nameClash w s0 name = false) :
    ∀ o ∈ w.heap, o.id ≠ s0.id → o.tracker = some m → o.kind = s0.kind → o.shared = true → o.name = name →
      o.ty = s0.ty → False := by
  intro o ho hne h1 h2 h3 h4 h5
  unfold nameClash at h
  rw [ht] at h
  simp only [List.any_eq_false] at h
  have := h o ho
  simp [matchKey, hne, h1, h2, h3, h4, h5] at this

/-- the checked `set_name` -/
theorem invX_setName {w : World} {ex : Option Nat} (hi : InvX w ex) (s0 : Storage) (name : String)
    (h0 : s0 ∈ w.heap) (hok : (s0.shared && (name = "" || nameClash w s0 name)) = false) :
    InvX (modS w s0.id (fun s => { s with name := name })) ex := by
  unfold modS
  have inj := hi.idInj
  refine invX_mapHeap hi _ (keeps_modflag _ _ (fun _ => ⟨rfl, rfl, rfl, rfl⟩)) ?_ ?_ ?_ ?_ ?_ ?_
  · intro s hs hp
    have : s.pers = true := by split at hp <;> simpa using hp
    have := hi.persShared s hs this
    split <;> simpa using this
  · intro s hs hsh
    by_cases h : s.id = s0.id
    · have := inj s hs s0 h0 h; subst this
      simp at hsh ⊢
      simp [hsh] at hok
      exact hok.1
    · simp [h] at hsh ⊢; exact hi.sharedNamed s hs hsh
  · intro s hs t ht' hss hts hsome htr hk hty hname
    by_cases h1 : s.id = s0.id <;> by_cases h2 : t.id = s0.id
    · rw [h1, h2]
    · have := inj s hs s0 h0 h1; subst this
      simp [h2] at hss hts hname
      simp [hss] at hok
      obtain ⟨m, hm⟩ := Option.isSome_iff_exists.mp hsome
      exact (nameClash_false hm hok.2 t ht' h2 (by rw [← htr, hm]) hk.symm hts hname.symm hty.symm).elim
    · have := inj t ht' s0 h0 h2; subst this
      simp [h1] at hss hts hname
      simp [hts] at hok
      obtain ⟨m, hm⟩ := Option.isSome_iff_exists.mp hsome
      exact (nameClash_false (by rw [← htr, hm]) hok.2 s hs h1 hm hk hss hname hty).elim
    · simp [h1, h2] at hss hts hname
      exact hi.unique s hs t ht' hss hts hsome htr hk hty hname
  · intro me hme i hi'
    obtain ⟨s, hs, e1, e2, e3⟩ := hi.persEntry me hme i hi'
    exact ⟨s, hs, e1, by split <;> simp [e2], e3⟩
  · intro s hs me hme hp htr
    have hp' : s.pers = true := by split at hp <;> simpa using hp
    exact hi.persListed s hs me hme hp' htr
  · intro s hs me hme htr
    have := hi.sizes s hs me hme htr
    split <;> simpa using this

/-- `clear_props<k>()` for the kinds selected by `sel` -/
theorem invX_clearProps {w : World} {ex : Option Nat} (hi : InvX w ex) (m : Nat) (sel : Kind → Bool) :
    InvX (clearPropsCore w m sel) ex := by
  unfold clearPropsCore modM mapHeap
  refine invX_map hi _ _ (by intro me; dsimp only; split <;> simp) ?_ ?_ ?_ ?_ ?_ ?_ ?_ ?_
  · intro s; dsimp only; split <;> simp
  · intro s hs hp
    split at hp
    · simp at hp
    · rename_i h; simp only [h]; exact hi.persShared s hs hp
  · intro s hs hsh
    split at hsh
    · simp at hsh
    · rename_i h; simp only [h]; exact hi.sharedNamed s hs hsh
  · intro s hs t ht' hss hts hsome htr hk hty hname
    split at hss
    · simp at hss
    · split at hts
      · simp at hts
      · rename_i h1 h2
        simp only [h1, h2] at hname
        exact hi.unique s hs t ht' hss hts hsome htr hk hty hname
  · intro me hme i hi'
    have hold : i ∈ me.pers ∧ (me.id = m → (getS w i).any (fun s => sel s.kind) = false) := by
      by_cases hm : me.id = m
      · simp only [hm, ↓reduceIte, List.mem_filter] at hi'
        exact ⟨hi'.1, fun _ => by simpa using hi'.2⟩
      · simp only [hm, ↓reduceIte] at hi'; exact ⟨hi', fun h => absurd h hm⟩
    obtain ⟨s, hs, e1, e2, e3⟩ := hi.persEntry me hme i hold.1
    refine ⟨s, hs, e1, ?_, e3⟩
    split
    · rename_i hc
      simp only [Bool.and_eq_true, decide_eq_true_eq] at hc
      have hm : me.id = m := by rw [e3] at hc; simpa using hc.1
      have := hold.2 hm
      rw [← e1, getS_of_mem hi hs] at this
      simp [hc.2] at this
    · exact e2
  · intro me hme
    have nd := hi.persNodup me hme
    by_cases hm : me.id = m
    · simp only [hm, ↓reduceIte]; exact nd.sublist List.filter_sublist
    · simpa [hm] using nd
  · intro s hs me hme hp htr
    split at hp
    · simp at hp
    · rename_i hc
      have hl := hi.persListed s hs me hme hp htr
      by_cases hm : me.id = m
      · simp only [hm, ↓reduceIte, List.mem_filter]
        refine ⟨hl, ?_⟩
        rw [getS_of_mem hi hs]
        simp only [Bool.and_eq_true, decide_eq_true_eq, not_and] at hc
        have : sel s.kind = false := by
          have := hc (by rw [htr, hm])
          simpa using this
        simp [this]
      · simpa [hm] using hl
  · intro s hs me hme htr
    have := hi.sizes s hs me hme htr
    have e1 : (if (decide (s.tracker = some m) && sel s.kind) = true then ({ s with pers := false, shared := false } : Storage) else s).vals = s.vals := by split <;> rfl
    have e2 : (if me.id = m then ({ me with pers := me.pers.filter (fun i => !(getS w i).any (fun s => sel s.kind)) } : Mesh) else me).cnt = me.cnt := by split <;> rfl
    rw [e1, e2]; exact this


/-! ### allocation, mesh records, destruction -/

/-- `std::make_shared<PropertyStorageT<T>>(&storage_tracker<K>(), …)` on mesh `me` -/
theorem invX_alloc {w : World} {ex : Option Nat} (hi : InvX w ex) (s0 : Storage) (me : Mesh)
    (hme : me ∈ w.meshes) (ht : s0.tracker = some me.id) (hp : s0.pers = false)
    (hn : s0.shared = true → s0.name ≠ "")
    (hu : s0.shared = true → ∀ t ∈ w.heap, t.shared = true → t.tracker = some me.id → t.kind = s0.kind →
            t.ty = s0.ty → t.name = s0.name → False)
    (hsz : s0.vals.length = me.cnt.n s0.kind) :
    InvX (alloc w s0) ex := by
  unfold alloc
  have memH : ∀ s, s ∈ w.heap ++ [{ s0 with id := w.next }] ↔ s ∈ w.heap ∨ s = { s0 with id := w.next } := by
    intro s; simp
  refine ⟨?_, ?_, ?_, ?_, ?_, ?_, ?_, ?_, ?_, ?_, ?_, ?_, ?_, ?_, ?_⟩
  · simp only [List.map_append, List.map_cons, List.map_nil]
    refine List.nodup_append.mpr ⟨hi.idsNodup, by simp, ?_⟩
    intro a ha b hb
    simp at hb; subst hb
    obtain ⟨s, hs, rfl⟩ := List.mem_map.mp ha
    have := hi.idsLt s hs
    omega
  · intro s hs
    rcases (memH s).mp hs with h | rfl
    · have := hi.idsLt s h; simp; omega
    · simp
  · exact hi.meshNodup
  · intro s hs hps
    rcases (memH s).mp hs with h | rfl
    · exact hi.persShared s h hps
    · simp [hp] at hps
  · intro s hs hsh
    rcases (memH s).mp hs with h | rfl
    · exact hi.sharedNamed s h hsh
    · exact hn hsh
  · intro s hs t ht' hss hts hsome htr hk hty hname
    rcases (memH s).mp hs with h1 | rfl <;> rcases (memH t).mp ht' with h2 | rfl
    · exact hi.unique s h1 t h2 hss hts hsome htr hk hty hname
    · exact (hu hts s h1 hss (by rw [htr]; exact ht) hk hty hname).elim
    · exact (hu hss t h2 hts (by rw [← htr]; exact ht) hk.symm hty.symm hname.symm).elim
    · rfl
  · intro s hs m hm
    rcases (memH s).mp hs with h | rfl
    · exact hi.trackerLive s h m hm
    · exact ⟨me, hme, by simpa [ht] using hm⟩
  · intro me' hme' i hi'
    obtain ⟨s, hs, e⟩ := hi.persEntry me' hme' i hi'
    exact ⟨s, (memH s).mpr (Or.inl hs), e⟩
  · exact hi.persNodup
  · intro s hs me' hme' hps htr
    rcases (memH s).mp hs with h | rfl
    · exact hi.persListed s h me' hme' hps htr
    · simp [hp] at hps
  · intro me' hme' hne
    obtain ⟨s, hs, e⟩ := hi.posOk me' hme' hne
    exact ⟨s, (memH s).mpr (Or.inl hs), e⟩
  · intro h hh
    obtain ⟨s, hs, e⟩ := hi.handlesOk h hh
    exact ⟨s, (memH s).mpr (Or.inl hs), e⟩
  · intro s hs me' hme' htr
    rcases (memH s).mp hs with h | rfl
    · exact hi.sizes s h me' hme' htr
    · have : me' = me := hi.meshInj me' hme' me hme (by simpa [ht] using htr.symm)
      subst this; exact hsz
  · exact hi.noFault
  · exact hi.handleKeys

/-- a new mesh record (no persistent properties yet, position handle not yet set) in the free
    slot `m` -/
theorem invX_newMeshRec {w : World} (hi : InvX w none) (rec : Mesh) (hfree : ∀ me ∈ w.meshes, me.id ≠ rec.id)
    (hp : rec.pers = []) :
    InvX { w with meshes := w.meshes ++ [rec] } (some rec.id) := by
  have memM : ∀ me, me ∈ w.meshes ++ [rec] ↔ me ∈ w.meshes ∨ me = rec := by intro me; simp
  have notr : ∀ s ∈ w.heap, s.tracker ≠ some rec.id := by
    intro s hs h
    obtain ⟨me, hme, e⟩ := hi.trackerLive s hs _ h
    exact hfree me hme e
  refine ⟨hi.idsNodup, hi.idsLt, ?_, hi.persShared, hi.sharedNamed, hi.unique, ?_, ?_, ?_, ?_, ?_, hi.handlesOk, ?_, hi.noFault, hi.handleKeys⟩
  · simp only [List.map_append, List.map_cons, List.map_nil]
    refine List.nodup_append.mpr ⟨hi.meshNodup, by simp, ?_⟩
    intro a ha b hb
    simp at hb; subst hb
    obtain ⟨me, hme, rfl⟩ := List.mem_map.mp ha
    exact hfree me hme
  · intro s hs m hm
    obtain ⟨me, hme, e⟩ := hi.trackerLive s hs m hm
    exact ⟨me, (memM me).mpr (Or.inl hme), e⟩
  · intro me hme i hi'
    rcases (memM me).mp hme with h | rfl
    · exact hi.persEntry me h i hi'
    · simp [hp] at hi'
  · intro me hme
    rcases (memM me).mp hme with h | rfl
    · exact hi.persNodup me h
    · simp [hp]
  · intro s hs me hme hps htr
    rcases (memM me).mp hme with h | rfl
    · exact hi.persListed s hs me h hps htr
    · exact (notr s hs htr).elim
  · intro me hme hne
    rcases (memM me).mp hme with h | rfl
    · exact hi.posOk me h (by simp)
    · exact (hne rfl).elim
  · intro s hs me hme htr
    rcases (memM me).mp hme with h | rfl
    · exact hi.sizes s hs me h htr
    · exact (notr s hs htr).elim

/-- `~ResourceManager`: every tracked storage is detached, the mesh record disappears -/
theorem invX_destroy {w : World} (hi : InvX w none) (m : Nat) :
    InvX (detachAll w m) none := by
  unfold detachAll mapHeap
  let f : Storage → Storage := fun s => if s.tracker = some m then { s with tracker := none } else s
  have fid : ∀ s, (f s).id = s.id := by intro s; simp only [f]; split <;> rfl
  have ftr : ∀ s m', (f s).tracker = some m' → s.tracker = some m' ∧ m' ≠ m ∧ f s = s := by
    intro s m' h
    simp only [f] at h ⊢
    split at h
    · simp at h
    · rename_i hne; exact ⟨h, by intro e; subst e; exact hne h, by simp [hne]⟩
  have fflags : ∀ s, (f s).pers = s.pers ∧ (f s).shared = s.shared ∧ (f s).name = s.name ∧ (f s).kind = s.kind ∧ (f s).ty = s.ty ∧ (f s).vals = s.vals := by
    intro s; simp only [f]; split <;> simp
  have memF : ∀ me, me ∈ w.meshes.filter (·.id != m) ↔ me ∈ w.meshes ∧ me.id ≠ m := by
    intro me; simp [List.mem_filter]
  show InvX { w with heap := w.heap.map f, meshes := w.meshes.filter (·.id != m) } none
  refine ⟨?_, ?_, ?_, ?_, ?_, ?_, ?_, ?_, ?_, ?_, ?_, ?_, ?_, ?_, ?_⟩
  · have : (w.heap.map f).map (·.id) = w.heap.map (·.id) := by simp [List.map_map, Function.comp_def, fid]
    simpa [this] using hi.idsNodup
  · intro s' hs'; obtain ⟨s, hs, rfl⟩ := List.mem_map.mp hs'; rw [fid]; exact hi.idsLt s hs
  · exact hi.meshNodup.sublist ((List.filter_sublist (l := w.meshes)).map _)
  · intro s' hs'; obtain ⟨s, hs, rfl⟩ := List.mem_map.mp hs'
    rw [(fflags s).1, (fflags s).2.1]; exact hi.persShared s hs
  · intro s' hs'; obtain ⟨s, hs, rfl⟩ := List.mem_map.mp hs'
    rw [(fflags s).2.1, (fflags s).2.2.1]; exact hi.sharedNamed s hs
  · intro s' hs' t' ht' hss hts hsome htr hk hty hname
    obtain ⟨s, hs, rfl⟩ := List.mem_map.mp hs'
    obtain ⟨t, ht, rfl⟩ := List.mem_map.mp ht'
    obtain ⟨m', hm'⟩ := Option.isSome_iff_exists.mp hsome
    obtain ⟨a1, _, a3⟩ := ftr s m' hm'
    obtain ⟨b1, _, b3⟩ := ftr t m' (by rw [← htr]; exact hm')
    rw [fid, fid]
    rw [a3] at hss hk hty hname
    rw [b3] at hts hk hty hname
    exact hi.unique s hs t ht hss hts (by simp [a1]) (by rw [a1, b1]) hk hty hname
  · intro s' hs' m' hm'
    obtain ⟨s, hs, rfl⟩ := List.mem_map.mp hs'
    obtain ⟨a1, a2, _⟩ := ftr s m' hm'
    obtain ⟨me, hme, e⟩ := hi.trackerLive s hs m' a1
    exact ⟨me, (memF me).mpr ⟨hme, by rw [e]; exact a2⟩, e⟩
  · intro me hme i hi'
    obtain ⟨hme, hne⟩ := (memF me).mp hme
    obtain ⟨s, hs, e1, e2, e3⟩ := hi.persEntry me hme i hi'
    have : f s = s := by simp only [f]; rw [e3]; simp [hne]
    exact ⟨f s, List.mem_map.mpr ⟨s, hs, rfl⟩, by rw [this]; exact ⟨e1, e2, e3⟩⟩
  · intro me hme; exact hi.persNodup me ((memF me).mp hme).1
  · intro s' hs' me hme hp htr
    obtain ⟨s, hs, rfl⟩ := List.mem_map.mp hs'
    obtain ⟨a1, _, a3⟩ := ftr s me.id htr
    rw [fid]; rw [a3] at hp
    exact hi.persListed s hs me ((memF me).mp hme).1 hp a1
  · intro me hme _
    obtain ⟨hme, hne⟩ := (memF me).mp hme
    obtain ⟨s, hs, e1, e2, e3⟩ := hi.posOk me hme (by simp)
    have : f s = s := by simp only [f]; rw [e2]; simp [hne]
    exact ⟨f s, List.mem_map.mpr ⟨s, hs, rfl⟩, by rw [this]; exact ⟨e1, e2, e3⟩⟩
  · intro h hh
    obtain ⟨s, hs, e⟩ := hi.handlesOk h hh
    exact ⟨f s, List.mem_map.mpr ⟨s, hs, rfl⟩, by rw [fid]; exact e⟩
  · intro s' hs' me hme htr
    obtain ⟨s, hs, rfl⟩ := List.mem_map.mp hs'
    obtain ⟨a1, _, a3⟩ := ftr s me.id htr
    rw [a3]
    exact hi.sizes s hs me ((memF me).mp hme).1 a1
  · exact hi.noFault
  · exact hi.handleKeys

end OVM.Registry

/-
  Pointer-protocol model of `src/OpenVolumeMesh/Core/detail/Tracking.hh`
  (`detail::Tracker<T>` = one of the seven `storage_trackers_` of a `ResourceManager`,
   `detail::Tracked<T>` = the base class of every `PropertyStorageBase`).

  Objects live at addresses (`Nat`); an address has an `alive` flag and the raw pointer
  fields of the C++ class.  Every C++ member function is transcribed statement by statement;
  every dereference of a *stored* pointer (`tracker_->…`, `t->…` for `t ∈ tracked_`) goes
  through `derefTr` / `derefTd`, which raise the ghost flag `fault` when the target is dead.
  "Memory-safe under any interleaving" is then the theorem `fault = false` for every
  operation sequence (`OVM/Props/C14.lean`), not an artefact of totalised accessors.

  What this abstraction does not see: `std::set` iterator invalidation.  `Tracker::operator=(&&)`
  (Tracking.hh:36-41) erases from `other.tracked_` (via `set_tracker → remove`) while
  range-iterating it; here the loop runs over a snapshot.  The move operations of `Tracker` are
  unreachable through the public mesh API (`ResourceManager`'s move ctor/assignment are deleted,
  ResourceManager.hh:69-70), they are modelled for completeness.

  core-only imports (this file is imported by the compiled judge).
-/
namespace OVM.Registry.Tracking

/-- `detail::Tracker<T>`: `std::set<T*> tracked_` (Tracking.hh:75). -/
structure TrackerObj where
  alive : Bool := false
  set   : List Nat := []
deriving Repr, DecidableEq, Inhabited

/-- `detail::Tracked<T>`: `Tracker<T>* tracker_` (Tracking.hh:159). -/
structure TrackedObj where
  alive   : Bool := false
  tracker : Option Nat := none
deriving Repr, DecidableEq, Inhabited

structure PState where
  tr    : Nat → TrackerObj
  td    : Nat → TrackedObj
  nTr   : Nat          -- addresses ≥ nTr never held a Tracker
  nTd   : Nat          -- addresses ≥ nTd never held a Tracked
  fault : Bool         -- ghost: a stored pointer to a dead object was dereferenced

def PState.init : PState :=
  { tr := fun _ => {}, td := fun _ => {}, nTr := 0, nTd := 0, fault := false }

/-- function update -/
def upd {α} (f : Nat → α) (i : Nat) (v : α) : Nat → α := fun j => if j = i then v else f j

@[simp] theorem upd_same {α} (f : Nat → α) (i : Nat) (v : α) : upd f i v i = v := by simp [upd]
@[simp] theorem upd_other {α} (f : Nat → α) (i j : Nat) (v : α) (h : j ≠ i) : upd f i v j = f j := by
  simp [upd, h]
theorem upd_apply {α} (f : Nat → α) (i j : Nat) (v : α) : upd f i v j = if j = i then v else f j := rfl

/-- dereference of a `Tracker<T>*` -/
def derefTr (s : PState) (t : Nat) : PState :=
  { s with fault := s.fault || !(s.tr t).alive }

/-- dereference of a `T*` (element of `tracked_`) -/
def derefTd (s : PState) (x : Nat) : PState :=
  { s with fault := s.fault || !(s.td x).alive }

/-- `Tracker::add(T* val)` (Tracking.hh:54-59), called as `tracker_->add(this)`. -/
def trAdd (s : PState) (t x : Nat) : PState :=
  let s := derefTr s t
  { s with tr := upd s.tr t { s.tr t with set := if x ∈ (s.tr t).set then (s.tr t).set else x :: (s.tr t).set } }

/-- `Tracker::remove(T* val)` (Tracking.hh:61-65), called as `tracker_->remove(this)`. -/
def trRemove (s : PState) (t x : Nat) : PState :=
  let s := derefTr s t
  { s with tr := upd s.tr t { s.tr t with set := (s.tr t).set.filter (· ≠ x) } }

/-- `Tracked::add()` (Tracking.hh:146-151). -/
def tdAdd (s : PState) (x : Nat) : PState :=
  match (s.td x).tracker with
  | some t => trAdd s t x
  | none => s

/-- `Tracked::remove()` (Tracking.hh:152-158). -/
def tdRemove (s : PState) (x : Nat) : PState :=
  let s := match (s.td x).tracker with
    | some t => trRemove s t x
    | none => s
  { s with td := upd s.td x { s.td x with tracker := none } }

/-- `Tracked::set_tracker(new_tracker)` (Tracking.hh:119-124). -/
def setTracker (s : PState) (x : Nat) (nt : Option Nat) : PState :=
  let s := tdRemove s x
  let s := { s with td := upd s.td x { s.td x with tracker := nt } }
  tdAdd s x

/-- `t->tracker_removed()` for one `t ∈ tracked_` (Tracking.hh:139-141, called at :20). -/
def trackerRemoved (s : PState) (x : Nat) : PState :=
  let s := derefTd s x
  { s with td := upd s.td x { s.td x with tracker := none } }

/-- operations of the protocol; operands are addresses -/
inductive POp where
  | newTracker                               -- `Tracker()`
  | copyTracker (src : Nat)                  -- `Tracker(Tracker const&)`: starts empty (:25-28)
  | moveTracker (src : Nat)                  -- `Tracker(Tracker&&)` (:30-34)
  | moveAssignTracker (dst src : Nat)        -- `operator=(Tracker&&)` (:36-41)
  | copyAssignTracker (dst src : Nat)        -- `operator=(Tracker const&)`: keeps its elements (:43-47)
  | destroyTracker (t : Nat)                 -- `~Tracker()` (:18-22)
  | newTracked (t : Option Nat)              -- `Tracked(Tracker<T>*)` (:128-133)
  | copyTracked (src : Nat)                  -- `Tracked(Tracked const&)` (:89-94)
  | moveTracked (src : Nat)                  -- `Tracked(Tracked&&)` (:96-102)
  | copyAssignTracked (dst src : Nat)        -- `operator=(Tracked const&)` (:104-109)
  | moveAssignTracked (dst src : Nat)        -- `operator=(Tracked&&)` (:111-117)
  | setTracker (x : Nat) (t : Option Nat)    -- `set_tracker` (public, :119)
  | destroyTracked (x : Nat)                 -- `~Tracked()` (:84-87)
deriving Repr, DecidableEq

def aliveTrOpt (s : PState) : Option Nat → Bool
  | none => true
  | some t => (s.tr t).alive

/-- allocate a fresh `Tracked` at address `nTd` with `tracker_` initialised to `t`, then `add()`. -/
def allocTracked (s : PState) (t : Option Nat) : PState :=
  let x := s.nTd
  let s := { s with td := upd s.td x { alive := true, tracker := t }, nTd := x + 1 }
  tdAdd s x

/-- end of lifetime of the `Tracked` at `x`: `remove()` then the storage is gone. -/
def killTracked (s : PState) (x : Nat) : PState :=
  let s := tdRemove s x
  { s with td := upd s.td x { alive := false, tracker := none } }

/-- the by-value return of `Tracked::operator=` (`Tracked<T> operator=(…)`, :104,:111): a
    temporary copy of `*this` is constructed (registers itself) and destroyed again. -/
def returnByValue (s : PState) (x : Nat) : PState :=
  let tmp := s.nTd
  let s := allocTracked s (s.td x).tracker
  killTracked s tmp

/-- `for (t : other.tracked_) t->set_tracker(this)` over a snapshot of the set. -/
def moveAll (s : PState) (dst : Nat) (l : List Nat) : PState :=
  l.foldl (fun s x => setTracker (derefTd s x) x (some dst)) s

/-- `for (t : tracked_) t->tracker_removed()`. -/
def removeAll (s : PState) (l : List Nat) : PState :=
  l.foldl trackerRemoved s

/-- One protocol step.  An operation whose *named* operands are not alive (or whose explicit
    pointer argument is dangling) is a C++ language-level error of the caller, not of the
    protocol: it is skipped.  All dereferences of *stored* pointers are checked. -/
def pstep (s : PState) : POp → PState
  | .newTracker =>
      { s with tr := upd s.tr s.nTr { alive := true, set := [] }, nTr := s.nTr + 1 }
  | .copyTracker src =>
      if (s.tr src).alive then
        { s with tr := upd s.tr s.nTr { alive := true, set := [] }, nTr := s.nTr + 1 }
      else s
  | .moveTracker src =>
      if (s.tr src).alive then
        let t := s.nTr
        let s := { s with tr := upd s.tr t { alive := true, set := [] }, nTr := t + 1 }
        moveAll s t (s.tr src).set
      else s
  | .moveAssignTracker dst src =>
      if (s.tr dst).alive && (s.tr src).alive then moveAll s dst (s.tr src).set else s
  | .copyAssignTracker _ _ => s
  | .destroyTracker t =>
      if (s.tr t).alive then
        let s := removeAll s (s.tr t).set
        { s with tr := upd s.tr t { alive := false, set := [] } }
      else s
  | .newTracked t =>
      if aliveTrOpt s t then allocTracked s t else s
  | .copyTracked src =>
      if (s.td src).alive then allocTracked s (s.td src).tracker else s
  | .moveTracked src =>
      if (s.td src).alive then
        let s := allocTracked s (s.td src).tracker
        setTracker s src none
      else s
  | .copyAssignTracked dst src =>
      if (s.td dst).alive && (s.td src).alive then
        let s := setTracker s dst (s.td src).tracker
        returnByValue s dst
      else s
  | .moveAssignTracked dst src =>
      if (s.td dst).alive && (s.td src).alive then
        let s := setTracker s dst (s.td src).tracker
        let s := setTracker s src none
        returnByValue s dst
      else s
  | .setTracker x t =>
      if (s.td x).alive && aliveTrOpt s t then setTracker s x t else s
  | .destroyTracked x =>
      if (s.td x).alive then killTracked s x else s

def prun (s : PState) (ops : List POp) : PState := ops.foldl pstep s

/-- The invariant of the protocol: the two sides agree and every stored pointer targets a
    live object. -/
structure PInv (s : PState) : Prop where
  td_tr : ∀ x t, (s.td x).alive = true → (s.td x).tracker = some t →
            (s.tr t).alive = true ∧ x ∈ (s.tr t).set
  tr_td : ∀ t x, (s.tr t).alive = true → x ∈ (s.tr t).set →
            (s.td x).alive = true ∧ (s.td x).tracker = some t
  fresh_tr : ∀ t, s.nTr ≤ t → (s.tr t).alive = false
  fresh_td : ∀ x, s.nTd ≤ x → (s.td x).alive = false

/-- the two-sided statement of the brief: `tracked.tracker = some t ↔ tracked ∈ t.set`
    (for live objects) -/
theorem PInv.iff {s : PState} (h : PInv s) (x t : Nat) (hx : (s.td x).alive = true)
    (ht : (s.tr t).alive = true) : (s.td x).tracker = some t ↔ x ∈ (s.tr t).set :=
  ⟨fun e => (h.td_tr x t hx e).2, fun m => (h.tr_td t x ht m).2⟩

/-- `Good s` = invariant + no fault so far -/
def Good (s : PState) : Prop := PInv s ∧ s.fault = false

theorem good_init : Good PState.init := by
  refine ⟨⟨?_, ?_, ?_, ?_⟩, rfl⟩ <;> simp [PState.init]

end OVM.Registry.Tracking

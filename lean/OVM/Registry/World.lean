/-
  World model for mesh copy construction / assignment (property C13) on top of the registry
  model: `ResourceManager(const ResourceManager&)`, `ResourceManager::operator=`
  (ResourceManager.cc:39-84), the defaulted `TopologyKernel` copy operations
  (TopologyKernel.hh:75-79) and `GeometryKernel`'s copy constructor / (templated, cross-kind)
  assignment with the re-creation of the `"ovm:position"` property (GeometryKernel.hh:59-103,
  216-220), plus the complete operation vocabulary `Op`, `step` and `run`.

  core-only imports (imported by the compiled judge).
-/
import OVM.Registry.Registry
namespace OVM.Registry

def posName : String := "ovm:position"

/-- `clone_persistent_properties_from(other)` (ResourceManager.cc:72-84): every storage in
    `other.persistent_props_` is cloned (`PropertyStorageT::clone`, PropertyStorageT.hh:180-184:
    copy of all fields incl. both flags, then `set_tracker(nullptr)`), attached to our tracker
    (`set_tracker(&storage_tracker<ET>())`) and inserted into our persistent set.
    Fresh ids: the clone of storage `s` lives at `w.next + s.id`. -/
def clonePersistent (w : World) (src dst : Nat) : World :=
  match getM w src with
  | none => w
  | some sm =>
    let clones := (sm.pers.filterMap (getS w)).map
                    (fun s => { s with id := w.next + s.id, tracker := some dst })
    let w' := { w with heap := w.heap ++ clones, next := w.next + w.next }
    modM w' dst (fun me => { me with pers := me.pers ++ clones.map (·.id) })

/-- the storage `request_property<VecT,Vertex>("ovm:position", VecT(0))` creates on mesh `m` -/
def freshPos (id m nV : Nat) : Storage :=
  { id := id, kind := .V, ty := .vec3d, name := posName, shared := true, pers := false,
    tracker := some m, dflt := 0, vals := List.replicate nV 0 }

/-- `position_ = make_prop()` with `make_prop() = request_property<VecT,Vertex>("ovm:position",
    VecT(0))` (GeometryKernel.hh:216-220) on mesh `m`, followed by
    `std::copy(other.position_.begin(), other.position_.end(), position_.begin())`
    (GeometryKernel.hh:67-68, 98-99) with the source values `srcVals`.  Writing past the end of
    the destination is an unchecked overflow: ghost `fault`. -/
def makePos (w : World) (m : Nat) (srcVals : List Int) : World :=
  match getM w m with
  | none => w
  | some me =>
    let (w, sid) := match find w m .V .vec3d posName with
      | some sid => (w, sid)
      | none => (alloc w (freshPos w.next m me.cnt.nV), w.next)
    let w := modM w m (fun me => { me with pos := sid })
    match getS w sid with
    | none => { w with fault := true }
    | some p =>
      let w := if p.vals.length < srcVals.length then { w with fault := true } else w
      modS w sid (fun s => { s with vals := srcVals.take s.vals.length ++ s.vals.drop srcVals.length })

/-- default construction of a geometric mesh in the free slot `m` (`GeometryKernel()`:
    `position_{make_prop()}`) -/
def newMesh (w : World) (m mk topo : Nat) : Except Err (World × Res) :=
  match getM w m with
  | some _ => .error .invalid
  | none =>
    let w := { w with meshes := w.meshes ++ [{ id := m, mtype := mk, cnt := {}, pers := [], pos := w.next, topo := topo }] }
    .ok (makePos w m [], .unit)

/-- copy construction `Mesh dst(src)` into the free slot `dst` (same static kernel type):
    `TopologyKernelT(other)` = `ResourceManager(other)` (clone persistent) + member-wise copy
    of every kernel field, then `position_{make_prop()}` and the copy of the positions. -/
def copyMesh (w : World) (src dst : Nat) : Except Err (World × Res) :=
  match getM w src, getM w dst with
  | some sm, none =>
    let srcVals := ((getS w sm.pos).map (·.vals)).getD []
    let w := { w with meshes := w.meshes ++ [{ id := dst, mtype := sm.mtype, cnt := sm.cnt, pers := [], pos := w.next + w.next, topo := sm.topo }] }
    let w := clonePersistent w src dst
    .ok (makePos w dst srcVals, .unit)
  | _, _ => .error .invalid

/-- assignment `dst = src` (any combination of kernel types):
    `ResourceManager::operator=` — identity test, `clear_all_props()`, `resize_props` of every
    kind to the *source's* counts, `clone_persistent_properties_from(other)`
    (ResourceManager.cc:54-70) — then the kernel fields are copied, `position_` is re-created
    and the positions are copied (GeometryKernel.hh:87-100).  The old position storage loses the
    mesh's reference.  (The by-value return of `GeometryKernel::operator=` builds and destroys a
    temporary copy of `*this`; it owns only fresh storages and leaves no trace.) -/
def assignMesh (w : World) (dst src : Nat) : Except Err (World × Res) :=
  match getM w dst, getM w src with
  | some _, some sm =>
    if dst = src then .ok (w, .unit) else
    let srcVals := ((getS w sm.pos).map (·.vals)).getD []
    let w := clearPropsCore w dst (fun _ => true)
    -- (the kernel fields are copied after `ResourceManager::operator=` in C++; nothing in
    --  between reads them — `resize_props` takes the *source's* counts — so they are set
    --  together with the resize here)
    let w := modM w dst (fun me => { me with cnt := sm.cnt, topo := sm.topo })
    let w := resizeTracked w dst sm.cnt (fun _ => true)
    let w := clonePersistent w src dst
    .ok (makePos w dst srcVals, .unit)
  | _, _ => .error .invalid

/-- the operation vocabulary of `prop_drv` (one constructor per `O` line) -/
inductive Op where
  | request (m h : Nat) (k : Kind) (ty : Ty) (name : String) (d : Int)
  | createShared (m h : Nat) (k : Kind) (ty : Ty) (name : String) (d : Int)
  | createPersistent (m h : Nat) (k : Kind) (ty : Ty) (name : String) (d : Int)
  | createPrivate (m h : Nat) (k : Kind) (ty : Ty) (name : String) (d : Int)
  | get (m h : Nat) (k : Kind) (ty : Ty) (name : String)
  | exists_ (m : Nat) (k : Kind) (ty : Ty) (name : String)
  | setShared (m h : Nat) (b : Bool)
  | setPersistent (m h : Nat) (b : Bool)
  | setName (h : Nat) (name : String)
  | write (h i : Nat) (tok : Int)
  | hcopy (h h' : Nat)
  | hmove (h h' : Nat)
  | hdrop (h : Nat)
  | clearProps (m : Nat) (k : Kind)
  | clearAllProps (m : Nat)
  | clear (m : Nat) (cp : Bool) (topo : Nat)
  | setCounts (m : Nat) (c : Counts) (topo : Nat)
  | addVertex (m : Nat) (tok : Int) (topo : Nat)
  | setVertex (m v : Nat) (tok : Int)
  | erase (m : Nat) (dv de df dc : List Nat) (topo : Nat)
  | topoOnly (m : Nat) (topo : Nat)
  | newMesh (m mk topo : Nat)
  | copy (src dst : Nat)
  | assign (dst src : Nat)
  | destroy (m : Nat)
deriving Repr, DecidableEq

/-- the C++ call itself -/
def core (w : World) : Op → Except Err (World × Res)
  | .request m h k ty n d => request w m h k ty n d
  | .createShared m h k ty n d => createShared w m h k ty n d
  | .createPersistent m h k ty n d => createPersistent w m h k ty n d
  | .createPrivate m h k ty n d => createPrivate w m h k ty n d
  | .get m h k ty n => getProp w m h k ty n
  | .exists_ m k ty n => propExists w m k ty n
  | .setShared m h b => setShared w m h b
  | .setPersistent m h b => setPersistent w m h b
  | .setName h n => setName w h n
  | .write h i t => writeAt w h i t
  | .hcopy h h' => hcopy w h h'
  | .hmove h h' => hmove w h h'
  | .hdrop h => hdrop w h
  | .clearProps m k => clearProps w m k
  | .clearAllProps m => clearAllProps w m
  | .clear m cp t => clearMesh w m cp t
  | .setCounts m c t => setCounts w m c t
  | .addVertex m tok t => addVertex w m tok t
  | .setVertex m v tok => setVertex w m v tok
  | .erase m dv de df dc t => eraseEntities w m dv de df dc t
  | .topoOnly m t => topoOnly w m t
  | .newMesh m mk t => newMesh w m mk t
  | .copy s d => copyMesh w s d
  | .assign d s => assignMesh w d s
  | .destroy m => destroyMesh w m

/-- one transition: the call, then every storage that lost its last owner is destroyed.
    `.error` = the call throws (or is not issuable) and nothing changes. -/
def step (w : World) (op : Op) : Except Err (World × Res) :=
  match core w op with
  | .ok (w', r) => .ok (gc w', r)
  | .error e => .error e

/-- the state after the call: unchanged when it threw -/
def next (w : World) (op : Op) : World :=
  match step w op with
  | .ok (w', _) => w'
  | .error _ => w

def run (w : World) (ops : List Op) : World := ops.foldl next w

/-! ### views (what C13's frame theorem compares) -/

/-- everything mesh `m` can see: its record and the storages it tracks -/
def view (w : World) (m : Nat) : Option Mesh × List Storage :=
  (getM w m, w.heap.filter (fun s => s.tracker == some m))

/-- what a user handle sees -/
def hview (w : World) (h : Nat) : Option Storage := (hget w h).bind (getS w)

/-- the meshes an operation may modify, read off the pre-state: the mesh the member function is
    called on, or the mesh tracking the storage behind the handle. -/
def Op.touches (w : World) : Op → List Nat
  | .request m .. | .createShared m .. | .createPersistent m .. | .createPrivate m ..
  | .get m .. | .exists_ m .. | .setShared m .. | .setPersistent m ..
  | .clearProps m _ | .clearAllProps m | .clear m .. | .setCounts m .. | .addVertex m ..
  | .setVertex m .. | .erase m .. | .topoOnly m _ | .newMesh m .. | .destroy m => [m]
  | .copy _ d => [d]
  | .assign d _ => [d]
  | .setName h _ | .write h .. | .hcopy h _ | .hmove h _ | .hdrop h =>
      match hview w h with
      | some s => s.tracker.toList
      | none => []

/-- the key under which `GeometryKernel` looks for its position property -/
def isPosKey (s : Storage) : Prop := s.kind = .V ∧ s.ty = .vec3d ∧ s.name = posName

/-- the storages an operation addresses directly through a user handle -/
def Op.operated (w : World) : Op → List Nat
  | .setName h _ | .write h .. | .hcopy h _ | .hmove h _ | .hdrop h => (hget w h).toList
  | _ => []

end OVM.Registry

/-
  The frame property of the world model (C13): an operation changes nothing that belongs to a
  mesh it does not touch, and no storage it does not address.
-/
import OVM.Registry.SpecProofs
namespace OVM.Registry

/-- what one call may not change: `T` = the touched meshes, `O` = the storages addressed
    directly through a handle -/
structure FrameStep (w w1 : World) (T O : List Nat) : Prop where
  mesh : ∀ B, B ∉ T → getM w1 B = getM w B
  fwdHeap : ∀ s ∈ w.heap, (∀ A ∈ T, s.tracker ≠ some A) → s.id ∉ O → s ∈ w1.heap
  fwdHandles : ∀ p ∈ w.handles, p.2 ∉ O → p ∈ w1.handles
  bwd : ∀ s ∈ w1.heap, (∀ A ∈ T, s.tracker ≠ some A) → s.tracker.isSome = true → s ∈ w.heap

theorem FrameStep.refl (w : World) (T O : List Nat) : FrameStep w w T O :=
  ⟨fun _ _ => rfl, fun _ hs _ _ => hs, fun _ hp _ => hp, fun _ hs _ _ => hs⟩

theorem mem_map_self {α} {l : List α} {f : α → α} {s : α} (hs : s ∈ l) (h : f s = s) : s ∈ l.map f :=
  List.mem_map.mpr ⟨s, hs, h⟩

/-- generic shape: the heap is mapped through `f` and extended by `news`, the handles keep every
    entry that does not point at an operated storage -/
theorem frame_of_shape {w w1 : World} {T O : List Nat} (f : Storage → Storage) (news : List Storage)
    (hheap : w1.heap = w.heap.map f ++ news)
    (hmesh : ∀ B, B ∉ T → getM w1 B = getM w B)
    (hf : ∀ s ∈ w.heap, (∀ A ∈ T, s.tracker ≠ some A) → s.id ∉ O → f s = s)
    (hf' : ∀ s ∈ w.heap, (∀ A ∈ T, (f s).tracker ≠ some A) → (f s).tracker.isSome = true → f s = s)
    (hnew : ∀ s ∈ news, ∃ A ∈ T, s.tracker = some A)
    (hh : ∀ p ∈ w.handles, p.2 ∉ O → p ∈ w1.handles) :
    FrameStep w w1 T O := by
  refine ⟨hmesh, ?_, hh, ?_⟩
  · intro s hs h1 h2
    rw [hheap]
    exact List.mem_append_left _ (mem_map_self hs (hf s hs h1 h2))
  · intro s' hs' h1 h2
    rw [hheap] at hs'
    rcases List.mem_append.mp hs' with h | h
    · obtain ⟨s, hs, rfl⟩ := List.mem_map.mp h
      rw [hf' s hs h1 h2]; exact hs
    · obtain ⟨A, hA, e⟩ := hnew s' h
      exact (h1 A hA e).elim

/-- `gc` after a call that satisfies the frame conditions still satisfies them -/
theorem frame_gc {w w1 : World} {T O : List Nat} (hi : Inv w) (h : FrameStep w w1 T O) :
    FrameStep w (gc w1) T O := by
  refine ⟨h.mesh, ?_, h.fwdHandles, fun s hs => h.bwd s (mem_gc.mp hs).1⟩
  intro s hs h1 h2
  refine mem_gc.mpr ⟨h.fwdHeap s hs h1 h2, ?_⟩
  rcases (owned_iff w s.id).mp (hi.noGarbage s hs) with ⟨p, hp, e⟩ | ⟨me, hme, e⟩
  · exact (owned_iff w1 s.id).mpr (Or.inl ⟨p, h.fwdHandles p hp (by rw [e]; exact h2), e⟩)
  · -- the owning mesh tracks `s`, so it is not a touched one and its record is unchanged
    have htr : s.tracker = some me.id := by
      rcases e with e | e
      · obtain ⟨s', hs', e1, e2, _⟩ := hi.x.posOk me hme (by simp)
        have : s' = s := hi.x.idInj s' hs' s hs (e1.trans e)
        subst this; exact e2
      · obtain ⟨s', hs', e1, _, e3⟩ := hi.x.persEntry me hme _ e
        have : s' = s := hi.x.idInj s' hs' s hs e1
        subst this; exact e3
    have hnot : me.id ∉ T := fun hin => h1 me.id hin htr
    have hg : getM w1 me.id = some me := by rw [h.mesh me.id hnot]; exact getM_of_mem hi.x hme
    exact (owned_iff w1 s.id).mpr (Or.inr ⟨me, (getM_some hg).1, e⟩)


/-! ### mesh lookups -/

theorem getM_append_ne {w : World} {rec : Mesh} {B : Nat} (h : B ≠ rec.id) :
    getM { w with meshes := w.meshes ++ [rec] } B = getM w B := by
  unfold getM
  simp only
  rw [List.find?_append]
  cases hf : w.meshes.find? (fun x => x.id == B) with
  | some x => rfl
  | none =>
    have : (rec.id == B) = false := by simpa using fun e => h e.symm
    simp [this]

theorem getM_filter_ne {w : World} {m B : Nat} (h : B ≠ m) :
    getM { w with meshes := w.meshes.filter (·.id != m) } B = getM w B := by
  unfold getM
  simp only
  rw [List.find?_filter]
  congr 1
  funext a
  by_cases e : a.id = B
  · simp [e, h]
  · simp [e]

theorem not_mem_single {B m : Nat} (h : B ∉ [m]) : B ≠ m := by simpa using h

/-! ### per operation -/

section ops
variable {w w1 : World} {r : Res}

/-- shape lemma for calls that map the heap through a function fixing every storage outside the
    touched mesh / operated id, add nothing and keep all handles -/
theorem frame_map {T O : List Nat} (f : Storage → Storage)
    (hheap : w1.heap = w.heap.map f) (hhandles : w1.handles = w.handles)
    (hmesh : ∀ B, B ∉ T → getM w1 B = getM w B)
    (hf : ∀ s ∈ w.heap, (∀ A ∈ T, s.tracker ≠ some A) → s.id ∉ O → f s = s)
    (hf' : ∀ s ∈ w.heap, (∀ A ∈ T, (f s).tracker ≠ some A) → (f s).tracker.isSome = true → f s = s) :
    FrameStep w w1 T O :=
  frame_of_shape f [] (by simpa using hheap) hmesh hf hf' (by simp) (fun p hp _ => hhandles ▸ hp)

/-- a function that only modifies storages tracked by `m` (and keeps or clears their tracker) -/
theorem fix_of_tracker {m : Nat} {f : Storage → Storage} {c : Storage → Bool}
    (hf : ∀ s, f s = if s.tracker = some m && c s then f s else s)
    (htr : ∀ s, (f s).tracker = s.tracker ∨ (f s).tracker = none) (s : Storage) :
    ((∀ A ∈ [m], s.tracker ≠ some A) → f s = s) ∧
    ((∀ A ∈ [m], (f s).tracker ≠ some A) → (f s).tracker.isSome = true → f s = s) := by
  constructor
  · intro h
    have : s.tracker ≠ some m := h m (by simp)
    rw [hf s]; simp [this]
  · intro h hs
    have h1 : (f s).tracker ≠ some m := h m (by simp)
    rcases htr s with e | e
    · rw [e] at h1; rw [hf s]; simp [h1]
    · rw [e] at hs; simp at hs

theorem request_frame {m h k ty name d} (e : request w m h k ty name d = .ok (w1, r)) :
    FrameStep w w1 [m] [] := by
  unfold request at e
  split at e; · cases e
  rename_i me hm
  split at e; · cases e
  split at e
  · cases e
    exact frame_of_shape id [] (by simp [addHandle]) (fun _ _ => rfl) (fun _ _ _ _ => rfl) (fun _ _ _ _ => rfl)
      (by simp) (fun p hp _ => by simp [addHandle, hp])
  · cases e
    refine frame_of_shape id [mkStorage w.next me k ty name d (name != "")] (by simp [createRaw, addHandle, alloc, mkStorage])
      (fun _ _ => rfl) (fun _ _ _ _ => rfl) (fun _ _ _ _ => rfl) ?_ (fun p hp _ => by simp [createRaw, addHandle, alloc, hp])
    intro s hs
    simp only [List.mem_singleton] at hs
    subst hs
    exact ⟨m, by simp, by simp [mkStorage, (getM_some hm).2]⟩

theorem createRaw_frame {m h k ty name d sh} {me : Mesh} (hm : getM w m = some me) :
    FrameStep w (createRaw w me h k ty name d sh) [m] [] := by
  refine frame_of_shape id [mkStorage w.next me k ty name d sh] (by simp [createRaw, addHandle, alloc, mkStorage])
    (fun _ _ => rfl) (fun _ _ _ _ => rfl) (fun _ _ _ _ => rfl) ?_ (fun p hp _ => by simp [createRaw, addHandle, alloc, hp])
  intro s hs
  simp only [List.mem_singleton] at hs
  subst hs
  exact ⟨m, by simp, by simp [mkStorage, (getM_some hm).2]⟩

theorem createShared_frame {m h k ty name d} (e : createShared w m h k ty name d = .ok (w1, r)) :
    FrameStep w w1 [m] [] := by
  unfold createShared at e
  split at e; · cases e
  rename_i me hm
  split at e; · cases e
  split at e; · cases e
  split at e
  · cases e; exact FrameStep.refl _ _ _
  · cases e; exact createRaw_frame hm

theorem createPrivate_frame {m h k ty name d} (e : createPrivate w m h k ty name d = .ok (w1, r)) :
    FrameStep w w1 [m] [] := by
  unfold createPrivate at e
  split at e; · cases e
  rename_i me hm
  split at e; · cases e
  cases e; exact createRaw_frame hm

theorem getProp_frame {m h k ty name} (e : getProp w m h k ty name = .ok (w1, r)) :
    FrameStep w w1 [m] [] := by
  unfold getProp at e
  split at e; · cases e
  split at e; · cases e
  split at e
  · cases e
    exact frame_of_shape id [] (by simp [addHandle]) (fun _ _ => rfl) (fun _ _ _ _ => rfl) (fun _ _ _ _ => rfl)
      (by simp) (fun p hp _ => by simp [addHandle, hp])
  · cases e; exact FrameStep.refl _ _ _

theorem propExists_frame {m k ty name} (e : propExists w m k ty name = .ok (w1, r)) :
    FrameStep w w1 [m] [] := by
  unfold propExists at e
  split at e
  · cases e
  · cases e; exact FrameStep.refl _ _ _


theorem FrameStep.trans {w0 w1' w2 : World} {T O : List Nat} (h1 : FrameStep w0 w1' T O) (h2 : FrameStep w1' w2 T O) :
    FrameStep w0 w2 T O :=
  ⟨fun B hB => (h2.mesh B hB).trans (h1.mesh B hB),
   fun s hs a b => h2.fwdHeap s (h1.fwdHeap s hs a b) a b,
   fun p hp a => h2.fwdHandles p (h1.fwdHandles p hp a) a,
   fun s hs a b => h1.bwd s (h2.bwd s hs a b) a b⟩

/-- only mesh records of touched meshes change -/
theorem frame_meshOnly {w0 w1' : World} {T O : List Nat} (hh : w1'.heap = w0.heap) (hd : w1'.handles = w0.handles)
    (hm : ∀ B, B ∉ T → getM w1' B = getM w0 B) : FrameStep w0 w1' T O :=
  ⟨hm, fun _ hs _ _ => hh ▸ hs, fun _ hp _ => hd ▸ hp, fun _ hs _ _ => hh ▸ hs⟩

theorem frame_modM {w0 : World} {m : Nat} (F : Mesh → Mesh) (hF : ∀ x, (F x).id = x.id) {T O : List Nat} (hm : m ∈ T) :
    FrameStep w0 (modM w0 m F) T O :=
  frame_meshOnly rfl rfl (fun _ hB => getM_modM_ne F hF (fun e => hB (e ▸ hm)))

/-- a storage addressed by id is modified (tracker kept) -/
theorem frame_modS {w0 : World} {T O : List Nat} (sid : Nat) (F : Storage → Storage)
    (hF : ∀ s, (F s).tracker = s.tracker)
    (hop : ∀ s ∈ w0.heap, s.id = sid → sid ∈ O ∨ ∃ A ∈ T, s.tracker = some A)
    (hop' : ∀ s ∈ w0.heap, s.id = sid → ∀ B, s.tracker = some B → B ∈ T) :
    FrameStep w0 (modS w0 sid F) T O := by
  refine frame_map (fun s => if s.id = sid then F s else s) rfl rfl (fun _ _ => rfl) ?_ ?_
  · intro s hs h1 h2
    by_cases e : s.id = sid
    · rcases hop s hs e with h | ⟨A, hA, h⟩
      · exact (h2 (e ▸ h)).elim
      · exact (h1 A hA h).elim
    · simp [e]
  · intro s hs h1 h2
    by_cases e : s.id = sid
    · simp only [e, ↓reduceIte] at h1 h2 ⊢
      rw [hF] at h1 h2
      obtain ⟨B, hB⟩ := Option.isSome_iff_exists.mp h2
      exact (h1 B (hop' s hs e B hB) hB).elim
    · simp [e]

/-- storages tracked by `m` are modified (tracker kept or cleared) -/
theorem frame_tracked {w0 w1' : World} {m : Nat} (f : Storage → Storage) (c : Storage → Bool)
    (hheap : w1'.heap = w0.heap.map f) (hhandles : w1'.handles = w0.handles)
    (hmesh : ∀ B, B ∉ [m] → getM w1' B = getM w0 B)
    (hf : ∀ s, f s = if s.tracker = some m && c s then f s else s)
    (htr : ∀ s, (f s).tracker = s.tracker ∨ (f s).tracker = none) {O : List Nat} :
    FrameStep w0 w1' [m] O :=
  frame_map f hheap hhandles hmesh (fun s _ h _ => (fix_of_tracker hf htr s).1 h)
    (fun s _ h h' => (fix_of_tracker hf htr s).2 h h')

theorem storage_is {w0 : World} (hi : InvX w0 none) {s0 : Storage} (h0 : s0 ∈ w0.heap) {m : Nat}
    (ht : s0.tracker = some m) (O : List Nat) :
    (∀ s ∈ w0.heap, s.id = s0.id → s0.id ∈ O ∨ ∃ A ∈ [m], s.tracker = some A) ∧
    (∀ s ∈ w0.heap, s.id = s0.id → ∀ B, s.tracker = some B → B ∈ [m]) := by
  constructor
  · intro s hs e
    have : s = s0 := hi.idInj s hs s0 h0 e
    subst this; exact Or.inr ⟨m, by simp, ht⟩
  · intro s hs e B hB
    have : s = s0 := hi.idInj s hs s0 h0 e
    subst this; rw [ht] at hB; simp at hB; simp [hB]

theorem markPersistent_frame {w0 : World} {m : Nat} {s0 : Storage} (hi : InvX w0 none) (h0 : s0 ∈ w0.heap)
    (ht : s0.tracker = some m) {O : List Nat} : FrameStep w0 (markPersistent w0 m s0.id) [m] O := by
  unfold markPersistent
  have a : FrameStep w0 (modM w0 m (fun me => { me with pers := if me.pers.contains s0.id then me.pers else me.pers ++ [s0.id] })) [m] O :=
    frame_modM (fun me : Mesh => { me with pers := if me.pers.contains s0.id then me.pers else me.pers ++ [s0.id] }) (fun _ => rfl) (by simp)
  refine a.trans (frame_modS s0.id (fun s : Storage => { s with pers := true }) (fun _ => rfl) ?_ ?_)
  · exact (storage_is hi h0 ht O).1
  · exact (storage_is hi h0 ht O).2

theorem unmarkPersistent_frame {w0 : World} {m : Nat} {s0 : Storage} (hi : InvX w0 none) (h0 : s0 ∈ w0.heap)
    (ht : s0.tracker = some m) {O : List Nat} : FrameStep w0 (unmarkPersistent w0 m s0.id) [m] O := by
  unfold unmarkPersistent
  have a : FrameStep w0 (modM w0 m (fun me => { me with pers := me.pers.filter (· != s0.id) })) [m] O :=
    frame_modM (fun me : Mesh => { me with pers := me.pers.filter (· != s0.id) }) (fun _ => rfl) (by simp)
  refine a.trans (frame_modS s0.id (fun s : Storage => { s with pers := false }) (fun _ => rfl) ?_ ?_)
  · exact (storage_is hi h0 ht O).1
  · exact (storage_is hi h0 ht O).2

theorem createPersistent_frame {m h k ty name d} (hi : InvX w none)
    (e : createPersistent w m h k ty name d = .ok (w1, r)) : FrameStep w w1 [m] [] := by
  unfold createPersistent at e
  split at e; · cases e
  rename_i me hm
  obtain ⟨hme, hmid⟩ := getM_some hm
  split at e; · cases e
  rename_i hfs
  split at e; · cases e
  rename_i hname
  split at e
  · cases e; exact FrameStep.refl _ _ _
  · rename_i hf
    cases e
    obtain ⟨h1, s0, hs0, hid, _, htr⟩ :=
      invX_createRaw hi me hme h k ty name d true (fun _ => hname) (fun _ => by rw [hmid]; exact hf) (free_of hfs)
    rw [← hid]
    exact (createRaw_frame hm).trans (markPersistent_frame h1 hs0 (by rw [htr, hmid]))

theorem setPersistent_frame {m h b} {O : List Nat} (hi : InvX w none) (e : setPersistent w m h b = .ok (w1, r)) :
    FrameStep w w1 [m] O := by
  unfold setPersistent at e
  split at e; · cases e
  rename_i s hs
  obtain ⟨hmem, htr, _⟩ := ownStorage_some hs
  split at e; · cases e; exact FrameStep.refl _ _ _
  split at e
  · split at e; · cases e
    cases e; exact markPersistent_frame hi hmem htr
  · cases e; exact unmarkPersistent_frame hi hmem htr

theorem shareFlag_frame {w0 : World} {m : Nat} {s0 : Storage} (hi : InvX w0 none) (h0 : s0 ∈ w0.heap)
    (ht : s0.tracker = some m) (b : Bool) {O : List Nat} :
    FrameStep w0 (modS w0 s0.id (fun s => { s with shared := b })) [m] O :=
  frame_modS s0.id (fun s : Storage => { s with shared := b }) (fun _ => rfl) (storage_is hi h0 ht O).1 (storage_is hi h0 ht O).2

theorem setShared_frame {m h b} {O : List Nat} (hi : InvX w none) (e : setShared w m h b = .ok (w1, r)) :
    FrameStep w w1 [m] O := by
  unfold setShared at e
  split at e; · cases e
  rename_i s hs
  obtain ⟨hmem, htr, _⟩ := ownStorage_some hs
  split at e; · cases e; exact FrameStep.refl _ _ _
  split at e
  · split at e; · cases e
    split at e; · cases e
    cases e; exact shareFlag_frame hi hmem htr true
  · cases e
    by_cases hp : s.pers = true
    · simp only [hp, ↓reduceIte]
      have h1 := invX_unmark hi s m hmem htr
      have hs' : ({ s with pers := false } : Storage) ∈ (unmarkPersistent w m s.id).heap := by
        simp only [unmarkPersistent, modS, modM, mapHeap, List.mem_map]
        exact ⟨s, hmem, by simp⟩
      exact (unmarkPersistent_frame hi hmem htr).trans
        (shareFlag_frame (s0 := { s with pers := false }) h1 hs' htr false)
    · have hp' : s.pers = false := by simpa using hp
      simp only [hp', Bool.false_eq_true, ↓reduceIte]
      exact shareFlag_frame hi hmem htr false

/-- touched meshes / operated storages of a call made through handle `h` -/
theorem handle_frame_modS {sid : Nat} {s0 : Storage} (hi : InvX w none)
    (hs : getS w sid = some s0) (F : Storage → Storage) (hF : ∀ s, (F s).tracker = s.tracker) :
    FrameStep w (modS w sid F) s0.tracker.toList [sid] := by
  obtain ⟨hmem, hid⟩ := getS_some hs
  refine frame_modS sid F hF (fun _ _ _ => Or.inl (by simp)) ?_
  intro s hs' e B hB
  have : s = s0 := hi.idInj s hs' s0 hmem (e.trans hid.symm)
  subst this; simp [hB]


theorem setName_frame {h name} (hi : InvX w none) (e : setName w h name = .ok (w1, r)) :
    ∃ sid s0, hget w h = some sid ∧ getS w sid = some s0 ∧ FrameStep w w1 s0.tracker.toList [sid] := by
  unfold setName at e
  split at e; · cases e
  rename_i sid hh
  split at e; · cases e
  rename_i s hs
  split at e; · cases e
  cases e
  exact ⟨sid, s, hh, hs, handle_frame_modS hi hs (fun s : Storage => { s with name := name }) (fun _ => rfl)⟩

theorem writeAt_frame {h i tok} (hi : InvX w none) (e : writeAt w h i tok = .ok (w1, r)) :
    ∃ sid s0, hget w h = some sid ∧ getS w sid = some s0 ∧ FrameStep w w1 s0.tracker.toList [sid] := by
  unfold writeAt at e
  split at e; · cases e
  rename_i sid hh
  split at e; · cases e
  rename_i s hs
  split at e
  · cases e
    exact ⟨sid, s, hh, hs, handle_frame_modS hi hs (fun s : Storage => { s with vals := s.vals.set i (enc s.ty tok) }) (fun _ => rfl)⟩
  · cases e

theorem hcopy_frame {h h'} (e : hcopy w h h' = .ok (w1, r)) :
    ∃ sid, hget w h = some sid ∧ ∀ T, FrameStep w w1 T [sid] := by
  unfold hcopy at e
  split at e; · cases e
  rename_i sid hh
  split at e; · cases e
  cases e
  exact ⟨sid, hh, fun _ => frame_of_shape id [] (by simp [addHandle]) (fun _ _ => rfl) (fun _ _ _ _ => rfl) (fun _ _ _ _ => rfl)
    (by simp) (fun p hp _ => by simp [addHandle, hp])⟩

/-- with distinct slots, the entry found for slot `h` is the only one -/
theorem handle_entry_unique (hi : InvX w none) {h sid : Nat} (hh : hget w h = some sid) :
    ∀ p ∈ w.handles, p.1 = h → p.2 = sid := by
  have hmem := hget_some hh
  have nd := hi.handleKeys
  intro p hp e
  -- two entries with the same key cannot both occur
  have : ∀ (l : List (Nat × Nat)), (l.map (·.1)).Nodup → (h, sid) ∈ l → p ∈ l → p.1 = h → p.2 = sid := by
    intro l
    induction l with
    | nil => intro _ h1; simp at h1
    | cons a l ih =>
      intro nd h1 h2 e
      simp only [List.map_cons, List.nodup_cons, List.mem_map, not_exists, not_and] at nd
      simp only [List.mem_cons] at h1 h2
      rcases h1 with h1 | h1 <;> rcases h2 with h2 | h2
      · rw [h2, ← h1]
      · exact absurd (by rw [← h1]; exact e) (nd.1 p h2)
      · exact absurd (by rw [h2] at e; exact e.symm ▸ rfl) (fun (x : (h, sid).1 = a.1) => nd.1 (h, sid) h1 x)
      · exact ih nd.2 h1 h2 e
  exact this w.handles nd hmem hp e

theorem hmove_frame {h h'} (hi : InvX w none) (e : hmove w h h' = .ok (w1, r)) :
    ∃ sid, hget w h = some sid ∧ ∀ T, FrameStep w w1 T [sid] := by
  unfold hmove at e
  split at e; · cases e
  rename_i sid hh
  split at e; · cases e
  cases e
  refine ⟨sid, hh, fun _ => frame_of_shape id [] (by simp [addHandle, delHandle]) (fun _ _ => rfl) (fun _ _ _ _ => rfl)
    (fun _ _ _ _ => rfl) (by simp) ?_⟩
  intro p hp hO
  simp only [addHandle, delHandle, List.mem_cons, List.mem_filter]
  refine Or.inr ⟨hp, ?_⟩
  have : p.1 ≠ h := fun e' => hO (by simp [handle_entry_unique hi hh p hp e'])
  simpa using this

theorem hdrop_frame {h} (hi : InvX w none) (e : hdrop w h = .ok (w1, r)) :
    ∃ sid, hget w h = some sid ∧ ∀ T, FrameStep w w1 T [sid] := by
  unfold hdrop at e
  split at e; · cases e
  rename_i sid hh
  cases e
  refine ⟨sid, hh, fun _ => frame_of_shape id [] (by simp [delHandle]) (fun _ _ => rfl) (fun _ _ _ _ => rfl)
    (fun _ _ _ _ => rfl) (by simp) ?_⟩
  intro p hp hO
  simp only [delHandle, List.mem_filter]
  refine ⟨hp, ?_⟩
  have : p.1 ≠ h := fun e' => hO (by simp [handle_entry_unique hi hh p hp e'])
  simpa using this

theorem clearPropsCore_frame {w0 : World} (m : Nat) (sel : Kind → Bool) {O : List Nat} :
    FrameStep w0 (clearPropsCore w0 m sel) [m] O := by
  refine frame_tracked (w0 := w0) (w1' := clearPropsCore w0 m sel) (m := m)
    (fun s => if s.tracker = some m && sel s.kind then { s with pers := false, shared := false } else s)
    (fun s => sel s.kind) rfl rfl
    (fun B hB => getM_clearPropsCore_ne sel (not_mem_single hB)) ?_ ?_
  · intro s; by_cases h : (decide (s.tracker = some m) && sel s.kind) = true <;> simp [h]
  · intro s; by_cases h : (decide (s.tracker = some m) && sel s.kind) = true <;> simp [h]

theorem resize_frame {w0 : World} (m : Nat) (c : Counts) (t : Nat) (sel : Kind → Bool) {O : List Nat} :
    FrameStep w0 (resizeTracked (modM w0 m (fun me => { me with cnt := c, topo := t })) m c sel) [m] O := by
  refine frame_tracked (w0 := w0) (w1' := resizeTracked (modM w0 m (fun me => { me with cnt := c, topo := t })) m c sel) (m := m)
    (fun s => if s.tracker = some m && sel s.kind then { s with vals := resizeL s.vals (c.n s.kind) s.dflt } else s)
    (fun s => sel s.kind) rfl rfl ?_ ?_ ?_
  · intro B hB
    rw [getM_resizeTracked]
    exact getM_modM_ne (fun me : Mesh => { me with cnt := c, topo := t }) (fun _ => rfl) (not_mem_single hB)
  · intro s; by_cases h : (decide (s.tracker = some m) && sel s.kind) = true <;> simp [h]
  · intro s; by_cases h : (decide (s.tracker = some m) && sel s.kind) = true <;> simp [h]

theorem clearProps_frame {m k} (e : clearProps w m k = .ok (w1, r)) : FrameStep w w1 [m] [] := by
  unfold clearProps at e
  split at e
  · cases e
  · cases e; exact clearPropsCore_frame m _

theorem clearAllProps_frame {m} (e : clearAllProps w m = .ok (w1, r)) : FrameStep w w1 [m] [] := by
  unfold clearAllProps at e
  split at e
  · cases e
  · cases e; exact clearPropsCore_frame m _

theorem clearMesh_frame {m cp t} (e : clearMesh w m cp t = .ok (w1, r)) : FrameStep w w1 [m] [] := by
  unfold clearMesh at e
  split at e
  · cases e
  · cases e
    have a : FrameStep w (if cp = true then clearPropsCore w m (fun _ => true) else w) [m] [] := by
      split
      · exact clearPropsCore_frame m _
      · exact FrameStep.refl _ _ _
    exact a.trans (resize_frame m {} t notMeshKind)

theorem setCounts_frame {m c t} (e : setCounts w m c t = .ok (w1, r)) : FrameStep w w1 [m] [] := by
  unfold setCounts at e
  split at e
  · cases e
  · cases e; exact resize_frame m c t notMeshKind

theorem topoOnly_frame {m t} (e : topoOnly w m t = .ok (w1, r)) : FrameStep w w1 [m] [] := by
  unfold topoOnly at e
  split at e
  · cases e
  · cases e; exact frame_modM (fun me : Mesh => { me with topo := t }) (fun _ => rfl) (by simp)

theorem eraseEntities_frame {m dv de df dc t} (e : eraseEntities w m dv de df dc t = .ok (w1, r)) :
    FrameStep w w1 [m] [] := by
  unfold eraseEntities at e
  split at e; · cases e
  rename_i me _
  split at e; · cases e
  cases e
  refine frame_tracked (w0 := w) (m := m)
    (w1' := mapHeap (modM w m (fun x => { x with
      cnt := { nV := me.cnt.nV - dv.length, nE := me.cnt.nE - de.length, nF := me.cnt.nF - df.length, nC := me.cnt.nC - dc.length },
      topo := t })) (fun s => if s.tracker = some m then { s with vals := eraseSlots s.vals (delOf dv de df dc s.kind) } else s))
    (fun s => if s.tracker = some m then { s with vals := eraseSlots s.vals (delOf dv de df dc s.kind) } else s)
    (fun _ => true) rfl rfl ?_ ?_ ?_
  · intro B hB
    exact (getM_congr rfl B).trans (getM_modM_ne (fun x : Mesh => { x with
      cnt := { nV := me.cnt.nV - dv.length, nE := me.cnt.nE - de.length, nF := me.cnt.nF - df.length, nC := me.cnt.nC - dc.length },
      topo := t }) (fun _ => rfl) (not_mem_single hB))
  · intro s; by_cases h : s.tracker = some m <;> simp [h]
  · intro s; by_cases h : s.tracker = some m <;> simp [h]

theorem destroyMesh_frame {m} (e : destroyMesh w m = .ok (w1, r)) : FrameStep w w1 [m] [] := by
  unfold destroyMesh at e
  split at e
  · cases e
  · cases e
    refine frame_tracked (w0 := w) (w1' := detachAll w m) (m := m)
      (fun s => if s.tracker = some m then { s with tracker := none } else s) (fun _ => true) rfl rfl ?_ ?_ ?_
    · intro B hB; exact getM_filter_ne (not_mem_single hB)
    · intro s; by_cases h : s.tracker = some m <;> simp [h]
    · intro s; by_cases h : s.tracker = some m <;> simp [h]

/-- writing into the position storage of mesh `m` -/
theorem posWrite_frame {w0 : World} (hi : InvX w0 none) {me : Mesh} (hme : me ∈ w0.meshes) (F : Storage → Storage)
    (hF : ∀ s, (F s).tracker = s.tracker) {O : List Nat} :
    FrameStep w0 (modS w0 me.pos F) [me.id] O := by
  obtain ⟨p, _, hp, hid, htr, _⟩ := pos_lookup hi hme
  rw [← hid]
  exact frame_modS p.id F hF (storage_is hi hp htr O).1 (storage_is hi hp htr O).2

theorem setVertex_frame {m v tok} (hi : InvX w none) (e : setVertex w m v tok = .ok (w1, r)) :
    FrameStep w w1 [m] [] := by
  unfold setVertex at e
  split at e; · cases e
  rename_i me hm
  obtain ⟨hme, hmid⟩ := getM_some hm
  split at e; · cases e
  obtain ⟨p, hg, _, _, _, _, _, hl⟩ := pos_lookup hi hme
  simp only [hg] at e
  split at e
  · cases e
    rw [← hmid]
    exact posWrite_frame hi hme (fun s : Storage => { s with vals := s.vals.set v tok }) (fun _ => rfl)
  · cases e
    exact frame_meshOnly rfl rfl (fun _ _ => rfl)

theorem addVertex_frame {m tok t} (hi : InvX w none) (e : addVertex w m tok t = .ok (w1, r)) :
    FrameStep w w1 [m] [] := by
  unfold addVertex at e
  split at e; · cases e
  rename_i me hm
  obtain ⟨hme, hmid⟩ := getM_some hm
  have a := resize_frame (w0 := w) (O := []) m { me.cnt with nV := me.cnt.nV + 1 } t (· == .V)
  have h2 : InvX (resizeTracked (modM w m (fun x => { x with cnt := { me.cnt with nV := me.cnt.nV + 1 }, topo := t })) m
      { me.cnt with nV := me.cnt.nV + 1 } (· == .V)) none := by
    refine invX_resize hi m _ t _ ?_
    intro me' hme' hid' k hk
    have : me' = me := hi.meshInj me' hme' me hme (hid'.trans hmid.symm)
    subst this
    exact counts_n_addV me'.cnt k hk
  have hme2 : ({ me with cnt := { me.cnt with nV := me.cnt.nV + 1 }, topo := t } : Mesh) ∈
      (resizeTracked (modM w m (fun x => { x with cnt := { me.cnt with nV := me.cnt.nV + 1 }, topo := t })) m
        { me.cnt with nV := me.cnt.nV + 1 } (· == .V)).meshes :=
    mem_modM (fun x => { x with cnt := { me.cnt with nV := me.cnt.nV + 1 }, topo := t }) hme hmid
  obtain ⟨p, hg, _, _, _, _, _, hl⟩ := pos_lookup h2 hme2
  simp only at hg hl
  simp only [hg] at e
  have hlt : me.cnt.nV < p.vals.length := by omega
  simp only [hlt, ↓reduceIte] at e
  cases e
  have b := posWrite_frame (O := []) h2 hme2 (fun s : Storage => { s with vals := s.vals.set me.cnt.nV tok }) (fun _ => rfl)
  simp only [hmid] at b
  exact a.trans b


theorem storage_is' {w0 : World} (inj : ∀ s ∈ w0.heap, ∀ t ∈ w0.heap, s.id = t.id → s = t) {s0 : Storage}
    (h0 : s0 ∈ w0.heap) {m : Nat} (ht : s0.tracker = some m) (O : List Nat) :
    (∀ s ∈ w0.heap, s.id = s0.id → s0.id ∈ O ∨ ∃ A ∈ [m], s.tracker = some A) ∧
    (∀ s ∈ w0.heap, s.id = s0.id → ∀ B, s.tracker = some B → B ∈ [m]) := by
  constructor
  · intro s hs e
    have : s = s0 := inj s hs s0 h0 e
    subst this; exact Or.inr ⟨m, by simp, ht⟩
  · intro s hs e B hB
    have : s = s0 := inj s hs s0 h0 e
    subst this; rw [ht] at hB; simp at hB; simp [hB]

/-- the tail of `makePos`: set the position handle to storage `p` (tracked by `m`) and overwrite
    its values -/
theorem makePos_tail_frame {w1' : World} {m : Nat} {p : Storage} (srcVals : List Int) {O : List Nat}
    (inj : ∀ s ∈ w1'.heap, ∀ t ∈ w1'.heap, s.id = t.id → s = t) (hp : p ∈ w1'.heap) (ht : p.tracker = some m) :
    FrameStep w1'
      (match getS (modM w1' m (fun me => { me with pos := p.id })) p.id with
        | none => { (modM w1' m (fun me => { me with pos := p.id })) with fault := true }
        | some q =>
          modS (if q.vals.length < srcVals.length then { (modM w1' m (fun me => { me with pos := p.id })) with fault := true }
                else modM w1' m (fun me => { me with pos := p.id })) p.id
            (fun s => { s with vals := srcVals.take s.vals.length ++ s.vals.drop srcVals.length })) [m] O := by
  have a : FrameStep w1' (modM w1' m (fun me => { me with pos := p.id })) [m] O :=
    frame_modM (fun me : Mesh => { me with pos := p.id }) (fun _ => rfl) (by simp)
  have b : FrameStep (modM w1' m (fun me => { me with pos := p.id }))
      ({ (modM w1' m (fun me => { me with pos := p.id })) with fault := true } : World) [m] O :=
    frame_meshOnly rfl rfl (fun _ _ => rfl)
  split
  · exact a.trans b
  · rename_i q _
    by_cases hc : q.vals.length < srcVals.length
    · simp only [hc, ↓reduceIte]
      refine (a.trans b).trans (frame_modS p.id _ (fun _ => rfl) ?_ ?_)
      · exact (storage_is' (w0 := { (modM w1' m (fun me => { me with pos := p.id })) with fault := true }) inj hp ht O).1
      · exact (storage_is' (w0 := { (modM w1' m (fun me => { me with pos := p.id })) with fault := true }) inj hp ht O).2
    · simp only [hc, ↓reduceIte]
      refine a.trans (frame_modS p.id _ (fun _ => rfl) ?_ ?_)
      · exact (storage_is' (w0 := modM w1' m (fun me => { me with pos := p.id })) inj hp ht O).1
      · exact (storage_is' (w0 := modM w1' m (fun me => { me with pos := p.id })) inj hp ht O).2

theorem makePos_frame {w0 : World} {ex : Option Nat} (hi : InvX w0 ex) {m : Nat} {me : Mesh} (hm : getM w0 m = some me)
    (srcVals : List Int) {O : List Nat} : FrameStep w0 (makePos w0 m srcVals) [m] O := by
  obtain ⟨hme, hmid⟩ := getM_some hm
  unfold makePos
  simp only [hm]
  cases hf : find w0 m .V .vec3d posName with
  | some sid =>
    obtain ⟨_, s, hs, hid, ht, _⟩ := find_some hf
    subst hid
    exact makePos_tail_frame srcVals hi.idInj hs ht
  | none =>
    have hn : posName ≠ "" := by decide
    have nf := find_none hf hn
    have h1 := invX_alloc hi (freshPos w0.next m me.cnt.nV) me hme (by simp [freshPos, hmid]) rfl (fun _ => hn)
        (fun _ t ht hts htr hk hty hname => nf t ht (by rw [htr, hmid]) hk hts hname hty) (by simp [freshPos, Counts.n])
    have a : FrameStep w0 (alloc w0 (freshPos w0.next m me.cnt.nV)) [m] O :=
      frame_of_shape id [freshPos w0.next m me.cnt.nV] (by simp [alloc, freshPos]) (fun _ _ => rfl) (fun _ _ _ _ => rfl)
        (fun _ _ _ _ => rfl) (by intro s hs; simp at hs; subst hs; exact ⟨m, by simp, rfl⟩) (fun p hp _ => hp)
    have b := makePos_tail_frame (w1' := alloc w0 (freshPos w0.next m me.cnt.nV)) (m := m) (p := freshPos w0.next m me.cnt.nV)
      srcVals (O := O) h1.idInj (by simp [alloc, freshPos]) rfl
    exact a.trans b

theorem newMesh_frame {m mk t} (hi : InvX w none) (e : newMesh w m mk t = .ok (w1, r)) : FrameStep w w1 [m] [] := by
  unfold newMesh at e
  split at e; · cases e
  rename_i hm
  cases e
  have hfree := getM_none hm
  have h1 := invX_newMeshRec hi { id := m, mtype := mk, cnt := {}, pers := [], pos := w.next, topo := t } hfree rfl
  have a : FrameStep w { w with meshes := w.meshes ++ [{ id := m, mtype := mk, cnt := {}, pers := [], pos := w.next, topo := t }] } [m] [] :=
    frame_meshOnly rfl rfl (fun B hB => getM_append_ne (rec := { id := m, mtype := mk, cnt := {}, pers := [], pos := w.next, topo := t }) (not_mem_single hB))
  exact a.trans (makePos_frame h1 (getM_append_new (rec := { id := m, mtype := mk, cnt := {}, pers := [], pos := w.next, topo := t }) hfree) [])

theorem clones_frame {w0 : World} {src dst : Nat} {sm : Mesh} (hsm : getM w0 src = some sm) {O : List Nat} :
    FrameStep w0 (clonePersistent w0 src dst) [dst] O := by
  rw [clonePersistent_eq hsm]
  have a : FrameStep w0 { w0 with heap := w0.heap ++ clonesOf w0 sm dst, next := w0.next + w0.next } [dst] O := by
    refine frame_of_shape id (clonesOf w0 sm dst) (by simp) (fun _ _ => rfl) (fun _ _ _ _ => rfl) (fun _ _ _ _ => rfl) ?_ (fun p hp _ => hp)
    intro s hs
    simp only [clonesOf, List.mem_map] at hs
    obtain ⟨s', _, rfl⟩ := hs
    exact ⟨dst, by simp, rfl⟩
  exact a.trans (frame_modM (fun me : Mesh => { me with pers := me.pers ++ (clonesOf w0 sm dst).map (·.id) }) (fun _ => rfl) (by simp))


theorem copyMesh_frame {src dst} (hi : InvX w none) (e : copyMesh w src dst = .ok (w1, r)) :
    FrameStep w w1 [dst] [] := by
  unfold copyMesh at e
  split at e
  · rename_i sm hs hd
    cases e
    have hfree := getM_none hd
    generalize hrec : ({ id := dst, mtype := sm.mtype, cnt := sm.cnt, pers := [], pos := w.next + w.next, topo := sm.topo } : Mesh) = rec
    have hrid : rec.id = dst := by rw [← hrec]
    have hrp : rec.pers = [] := by rw [← hrec]
    have hrc : rec.cnt = sm.cnt := by rw [← hrec]
    have hfree' : ∀ me ∈ w.meshes, me.id ≠ rec.id := by rw [hrid]; exact hfree
    have h1 := invX_newMeshRec hi rec hfree' hrp
    rw [hrid] at h1
    have hs1 : getM { w with meshes := w.meshes ++ [rec] } src = some sm := getM_append_old hs
    have hd1 : getM { w with meshes := w.meshes ++ [rec] } dst = some rec := by
      rw [← hrid]; exact getM_append_new hfree'
    have hun : ∀ t ∈ ({ w with meshes := w.meshes ++ [rec] } : World).heap, t.tracker = some dst → t.shared = false := by
      intro t ht htr
      obtain ⟨me, hme, e⟩ := hi.trackerLive t ht dst htr
      exact (hfree me hme e).elim
    have h2 := invX_clones h1 src dst sm rec hs1 (getM_some hd1).1 hrid hrc hun
    have hd2 : getM (clonePersistent { w with meshes := w.meshes ++ [rec] } src dst) dst =
        some { rec with pers := rec.pers ++ (clonesOf { w with meshes := w.meshes ++ [rec] } sm dst).map (·.id) } := by
      rw [clonePersistent_eq hs1]
      exact getM_modM_self _ (fun _ => rfl) ((getM_congr rfl dst).trans hd1)
    have a : FrameStep w { w with meshes := w.meshes ++ [rec] } [dst] [] :=
      frame_meshOnly rfl rfl (fun B hB => getM_append_ne (rec := rec) (by rw [hrid]; exact not_mem_single hB))
    exact (a.trans (clones_frame hs1)).trans (makePos_frame h2 hd2 _)
  · cases e

theorem assignMesh_frame {dst src} (hi : InvX w none) (e : assignMesh w dst src = .ok (w1, r)) :
    FrameStep w w1 [dst] [] := by
  unfold assignMesh at e
  split at e
  · rename_i dm0 sm hd hs
    split at e
    · cases e; exact FrameStep.refl _ _ _
    rename_i hne
    cases e
    have h1 := invX_clearProps hi dst (fun _ => true)
    have h3 := invX_resize h1 dst sm.cnt sm.topo (fun _ => true) (by intro _ _ _ k hk; simp at hk)
    have hne' : src ≠ dst := fun e => hne e.symm
    have hs3 : getM (resizeTracked (modM (clearPropsCore w dst (fun _ => true)) dst
        (fun me => { me with cnt := sm.cnt, topo := sm.topo })) dst sm.cnt (fun _ => true)) src = some sm := by
      rw [getM_resizeTracked, getM_modM_ne (fun me : Mesh => { me with cnt := sm.cnt, topo := sm.topo }) (fun _ => rfl) hne',
        getM_clearPropsCore_ne _ hne']; exact hs
    obtain ⟨dm3, hd3⟩ : ∃ dm3, getM (resizeTracked (modM (clearPropsCore w dst (fun _ => true)) dst
        (fun me => { me with cnt := sm.cnt, topo := sm.topo })) dst sm.cnt (fun _ => true)) dst = some dm3 ∧ dm3.cnt = sm.cnt := by
      have a := getM_clearPropsCore_self (fun _ => true) hd
      have b := getM_modM_self (fun me : Mesh => { me with cnt := sm.cnt, topo := sm.topo }) (fun _ => rfl) a
      exact ⟨_, (getM_resizeTracked dst sm.cnt (fun _ => true) dst).trans b, rfl⟩
    have hun : ∀ t ∈ (resizeTracked (modM (clearPropsCore w dst (fun _ => true)) dst
        (fun me => { me with cnt := sm.cnt, topo := sm.topo })) dst sm.cnt (fun _ => true)).heap,
        t.tracker = some dst → t.shared = false := by
      intro t ht htr
      simp only [resizeTracked, modM, clearPropsCore, mapHeap, List.mem_map] at ht
      obtain ⟨t1, ⟨t0, _, rfl⟩, rfl⟩ := ht
      by_cases h0 : t0.tracker = some dst
      · simp [h0]
      · simp [h0] at htr
    have h4 := invX_clones h3 src dst sm dm3 hs3 (getM_some hd3.1).1 (getM_some hd3.1).2 hd3.2 hun
    have hd4 : getM (clonePersistent (resizeTracked (modM (clearPropsCore w dst (fun _ => true)) dst
        (fun me => { me with cnt := sm.cnt, topo := sm.topo })) dst sm.cnt (fun _ => true)) src dst) dst =
        some { dm3 with pers := dm3.pers ++ (clonesOf (resizeTracked (modM (clearPropsCore w dst (fun _ => true)) dst
          (fun me => { me with cnt := sm.cnt, topo := sm.topo })) dst sm.cnt (fun _ => true)) sm dst).map (·.id) } := by
      rw [clonePersistent_eq hs3]
      exact getM_modM_self _ (fun _ => rfl) ((getM_congr rfl dst).trans hd3.1)
    exact (((clearPropsCore_frame dst _).trans (resize_frame dst sm.cnt sm.topo _)).trans (clones_frame hs3)).trans
      (makePos_frame h4 hd4 _)
  · cases e

end ops

/-- The frame property of one C++ call: outside the touched meshes and the operated storages
    nothing changes. -/
theorem core_frame {w w1 : World} {op : Op} {r : Res} (hi : InvX w none) (e : core w op = .ok (w1, r)) :
    FrameStep w w1 (op.touches w) (op.operated w) := by
  cases op <;> simp only [core] at e <;> simp only [Op.touches, Op.operated]
  · exact request_frame e
  · exact createShared_frame e
  · exact createPersistent_frame hi e
  · exact createPrivate_frame e
  · exact getProp_frame e
  · exact propExists_frame e
  · exact setShared_frame hi e
  · exact setPersistent_frame hi e
  · obtain ⟨sid, s0, hh, hs, f⟩ := setName_frame hi e
    simpa [hview, hh, hs] using f
  · obtain ⟨sid, s0, hh, hs, f⟩ := writeAt_frame hi e
    simpa [hview, hh, hs] using f
  · obtain ⟨sid, hh, f⟩ := hcopy_frame e
    simp only [hh, Option.toList]; exact f _
  · obtain ⟨sid, hh, f⟩ := hmove_frame hi e
    simp only [hh, Option.toList]; exact f _
  · obtain ⟨sid, hh, f⟩ := hdrop_frame hi e
    simp only [hh, Option.toList]; exact f _
  · exact clearProps_frame e
  · exact clearAllProps_frame e
  · exact clearMesh_frame e
  · exact setCounts_frame e
  · exact addVertex_frame hi e
  · exact setVertex_frame hi e
  · exact eraseEntities_frame e
  · exact topoOnly_frame e
  · exact newMesh_frame hi e
  · exact copyMesh_frame hi e
  · exact assignMesh_frame hi e
  · exact destroyMesh_frame e

theorem step_frame {w w' : World} {op : Op} {r : Res} (hi : Inv w) (e : step w op = .ok (w', r)) :
    FrameStep w w' (op.touches w) (op.operated w) := by
  obtain ⟨w1, h, rfl⟩ := step_ok e
  exact frame_gc hi (core_frame hi.x h)


/-! ### consequences -/

theorem hget_of_mem {w : World} {ex} (hi : InvX w ex) {h sid : Nat} (hm : (h, sid) ∈ w.handles) :
    hget w h = some sid := by
  cases hf : hget w h with
  | none => exact (hget_none hf (h, sid) hm rfl).elim
  | some sid' =>
    have hm' := hget_some hf
    -- two entries with the same slot
    have key : ∀ (l : List (Nat × Nat)), (l.map (·.1)).Nodup → (h, sid) ∈ l → (h, sid') ∈ l → sid' = sid := by
      intro l
      induction l with
      | nil => intro _ h1; simp at h1
      | cons a l ih =>
        intro nd h1 h2
        simp only [List.map_cons, List.nodup_cons, List.mem_map, not_exists, not_and] at nd
        simp only [List.mem_cons] at h1 h2
        rcases h1 with h1 | h1 <;> rcases h2 with h2 | h2
        · rw [← h1] at h2; exact (Prod.mk.inj h2).2
        · exact absurd (by rw [← h1]) (nd.1 (h, sid') h2)
        · exact absurd (by rw [← h2]) (nd.1 (h, sid) h1)
        · exact ih nd.2 h1 h2
    rw [key w.handles hi.handleKeys hm hm']

/-- a storage addressed through a handle belongs to a touched mesh (if it is attached at all) -/
theorem operated_touched {w : World} (hi : Inv w) (op : Op) {s : Storage} (hs : s ∈ w.heap)
    (ho : s.id ∈ op.operated w) : ∀ B, s.tracker = some B → B ∈ op.touches w := by
  have key : ∀ h, s.id ∈ (hget w h).toList → ∀ B, s.tracker = some B →
      B ∈ (match hview w h with | some s => s.tracker.toList | none => []) := by
    intro h hin B hB
    cases hh : hget w h with
    | none => simp [hh] at hin
    | some sid =>
      simp [hh] at hin
      have : hview w h = some s := by
        unfold hview; rw [hh]; simp only [Option.bind_some]; rw [← hin]; exact getS_of_mem hi.x hs
      simp [this, hB]
  cases op <;> simp only [Op.operated, List.not_mem_nil] at ho <;> simp only [Op.touches]
  all_goals exact key _ ho

/-- **Frame theorem, meshes.**  A call that does not touch mesh `B` leaves everything `B` can
    see unchanged: its record and the set of storages it tracks (with their full contents). -/
theorem frame_mesh {w w' : World} {op : Op} {r : Res} (hi : Inv w) (e : step w op = .ok (w', r))
    {B : Nat} (hB : B ∉ op.touches w) :
    getM w' B = getM w B ∧ ∀ s, s.tracker = some B → (s ∈ w'.heap ↔ s ∈ w.heap) := by
  have f := step_frame hi e
  refine ⟨f.mesh B hB, fun s hs => ⟨fun h => f.bwd s h (fun A hA e' => hB (by rw [hs] at e'; cases e'; exact hA)) (by simp [hs]), ?_⟩⟩
  intro h
  refine f.fwdHeap s h (fun A hA e' => hB (by rw [hs] at e'; cases e'; exact hA)) ?_
  intro ho
  exact hB (operated_touched hi op h ho B hs)

/-- **Frame theorem, handles.**  A handle whose storage is neither attached to a touched mesh nor
    the storage the call addresses sees exactly what it saw before. -/
theorem frame_handle {w w' : World} {op : Op} {r : Res} (hi : Inv w) (e : step w op = .ok (w', r))
    {h : Nat} {s : Storage} (hv : hview w h = some s) (hT : ∀ A ∈ op.touches w, s.tracker ≠ some A)
    (hO : s.id ∉ op.operated w) : hview w' h = some s := by
  have f := step_frame hi e
  have hi' := step_inv hi e
  unfold hview at hv
  cases hh : hget w h with
  | none => simp [hh] at hv
  | some sid =>
    simp only [hh, Option.bind_some] at hv
    obtain ⟨hs, hid⟩ := getS_some hv
    have hp : (h, sid) ∈ w'.handles := f.fwdHandles (h, sid) (hget_some hh) (by rw [← hid]; exact hO)
    have hs' : s ∈ w'.heap := f.fwdHeap s hs hT hO
    unfold hview
    rw [hget_of_mem hi'.x hp]
    simp only [Option.bind_some]
    rw [← hid]; exact getS_of_mem hi'.x hs'

/-- what mesh `B` can see is the same in both states -/
def SameView (w' w : World) (B : Nat) : Prop :=
  getM w' B = getM w B ∧ ∀ s, s.tracker = some B → (s ∈ w'.heap ↔ s ∈ w.heap)

/-- none of the operations of the sequence touches mesh `B` (in the state it is applied in) -/
def Untouched (B : Nat) : World → List Op → Prop
  | _, [] => True
  | w, op :: ops => B ∉ op.touches w ∧ Untouched B (next w op) ops

/-- **Frame theorem, histories.**  Whatever is done to other meshes and their handles — any
    sequence of registry calls, handle copies and drops, topology changes, further copies and
    assignments, destructions — mesh `B` looks the same afterwards. -/
theorem frame_run {B : Nat} (ops : List Op) {w : World} (hi : Inv w) (hu : Untouched B w ops) :
    SameView (run w ops) w B := by
  induction ops generalizing w with
  | nil => exact ⟨rfl, fun _ _ => Iff.rfl⟩
  | cons op ops ih =>
    obtain ⟨h1, h2⟩ := hu
    have hn := ih (next_inv op hi) h2
    have hstep : SameView (next w op) w B := by
      unfold next
      split
      · rename_i w' r hs; exact frame_mesh hi hs h1
      · exact ⟨rfl, fun _ _ => Iff.rfl⟩
    exact ⟨hn.1.trans hstep.1, fun s hs => (hn.2 s hs).trans (hstep.2 s hs)⟩

/-! ### disjointness -/

/-- every storage id mesh `m` can reach: its position handle, its persistent set, its tracker -/
def reach (w : World) (m : Nat) : List Nat :=
  match getM w m with
  | some me => me.pos :: me.pers ++ (w.heap.filter (fun s => s.tracker == some m)).map (·.id)
  | none => []

theorem reach_tracked {w : World} (hi : Inv w) {m i : Nat} (h : i ∈ reach w m) :
    ∃ s ∈ w.heap, s.id = i ∧ s.tracker = some m := by
  unfold reach at h
  cases hm : getM w m with
  | none => simp [hm] at h
  | some me =>
    obtain ⟨hme, hmid⟩ := getM_some hm
    simp only [hm, List.mem_cons, List.mem_append, List.mem_map, List.mem_filter] at h
    rcases h with (rfl | h) | ⟨s, ⟨hs, ht⟩, rfl⟩
    · obtain ⟨s, hs, e1, e2, _⟩ := hi.x.posOk me hme (by simp)
      exact ⟨s, hs, e1, by rw [e2, hmid]⟩
    · obtain ⟨s, hs, e1, _, e3⟩ := hi.x.persEntry me hme i h
      exact ⟨s, hs, e1, by rw [e3, hmid]⟩
    · exact ⟨s, hs, rfl, by simpa using ht⟩

/-- **Disjoint**: distinct meshes reach disjoint sets of storages; every tracked id is owned by
    exactly one tracker -/
theorem reach_disjoint {w : World} (hi : Inv w) {A B : Nat} (hne : A ≠ B) :
    ∀ i, i ∈ reach w A → i ∉ reach w B := by
  intro i hA hB
  obtain ⟨s, hs, e1, e2⟩ := reach_tracked hi hA
  obtain ⟨t, ht, f1, f2⟩ := reach_tracked hi hB
  have : s = t := hi.x.idInj s hs t ht (e1.trans f1.symm)
  subst this
  rw [e2] at f2
  exact hne (by simpa using f2)

end OVM.Registry

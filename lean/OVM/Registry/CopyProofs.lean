/-
  What copy construction / assignment produce (C13): the clones of the persistent properties and
  the re-created position property live in fresh storages, carry the source's contents, and nothing
  else is attached to the target; old storages are untouched.
-/
import OVM.Registry.FrameProofs
namespace OVM.Registry

theorem map_fix {l : List Storage} {f : Storage → Storage} (h : ∀ s ∈ l, f s = s) : l.map f = l := by
  induction l with
  | nil => rfl
  | cons a l ih =>
    rw [List.map_cons, h a (by simp), ih (fun s hs => h s (by simp [hs]))]

/-- The common tail of copy construction and assignment: in a world `W` where the target `dst` has
    no shared property and the source's entity counts, clone the source's persistent properties
    and re-create the position property with the source's positions `vals`. -/
theorem clone_tail {W : World} {ex : Option Nat} {src dst : Nat} {sm dm : Mesh} (hi : InvX W ex)
    (hex : ex = none ∨ ex = some dst)
    (hsm : getM W src = some sm) (hdm : getM W dst = some dm) (hcnt : dm.cnt = sm.cnt)
    (hun : ∀ t ∈ W.heap, t.tracker = some dst → t.shared = false)
    (vals : List Int) (hlen : vals.length = sm.cnt.nV) :
    ∃ (X : List Storage) (d p : Storage × Mesh),
      (makePos (clonePersistent W src dst) dst vals).heap = W.heap ++ X ∧
      (makePos (clonePersistent W src dst) dst vals).handles = W.handles ∧
      (∀ x ∈ X, x.tracker = some dst ∧ W.next ≤ x.id) ∧
      (∀ s ∈ W.heap, s.id ∈ sm.pers → ∃ c ∈ X, c.id = W.next + s.id ∧ c.kind = s.kind ∧ c.ty = s.ty ∧
          c.name = s.name ∧ c.shared = s.shared ∧ c.pers = s.pers ∧ c.dflt = s.dflt ∧ (¬ isPosKey s → c.vals = s.vals)) ∧
      getM (makePos (clonePersistent W src dst) dst vals) dst = some d.2 ∧
      d.2.cnt = dm.cnt ∧ d.2.topo = dm.topo ∧ d.2.mtype = dm.mtype ∧
      p.1 ∈ X ∧ p.1.id = d.2.pos ∧ p.1.vals = vals ∧
      (∀ x ∈ X, x.id = d.2.pos ∨ ∃ s ∈ W.heap, s.id ∈ sm.pers ∧ x.id = W.next + s.id) := by
  sorry

end OVM.Registry

/-
  What copy construction / assignment produce (C13): the clones of the persistent properties and
  the re-created position property live in fresh storages, carry the source's contents, and nothing
  else is attached to the target; old storages are untouched.
-/
import OVM.Registry.FrameProofs
namespace OVM.Registry

theorem map_fix {l : List Storage} {f : Storage → Storage} (h : ∀ s ∈ l, f s = s) : l.map f = l := by
  induction l with
  | nil => rfl
  | cons a l ih =>
    rw [List.map_cons, h a (by simp), ih (fun s hs => h s (by simp [hs]))]

theorem getS_congr {w1 w2 : World} (h : w1.heap = w2.heap) (sid : Nat) : getS w1 sid = getS w2 sid := by
  unfold getS; rw [h]

theorem take_drop_full (vals old : List Int) (h : old.length = vals.length) :
    vals.take old.length ++ old.drop vals.length = vals := by
  rw [h, List.take_length, ← h, List.drop_length, List.append_nil]

/-- what the tail produces -/
structure CloneTail (W F : World) (sm dm : Mesh) (dst : Nat) (vals : List Int) (X : List Storage) (d : Mesh)
    (p : Storage) : Prop where
  heap : F.heap = W.heap ++ X
  handles : F.handles = W.handles
  fresh : ∀ x ∈ X, x.tracker = some dst ∧ W.next ≤ x.id
  carried : ∀ s ∈ W.heap, s.id ∈ sm.pers → ∃ c ∈ X, c.id = W.next + s.id ∧ c.kind = s.kind ∧ c.ty = s.ty ∧
      c.name = s.name ∧ c.shared = s.shared ∧ c.pers = s.pers ∧ c.dflt = s.dflt ∧ (¬ isPosKey s → c.vals = s.vals)
  mesh : getM F dst = some d
  cnt : d.cnt = dm.cnt
  topo : d.topo = dm.topo
  mtype : d.mtype = dm.mtype
  posIn : p ∈ X
  posId : p.id = d.pos
  posVals : p.vals = vals
  only : ∀ x ∈ X, x.id = d.pos ∨ ∃ s ∈ W.heap, s.id ∈ sm.pers ∧ x.id = W.next + s.id
  persIds : ∀ x ∈ X, x.id = d.pos ∨ x.id ∈ d.pers

/-- The common tail of copy construction and assignment: in a world `W` where the target `dst` has
    no shared property and the source's entity counts, clone the source's persistent properties
    and re-create the position property with the source's positions `vals`. -/
theorem clone_tail {W : World} {ex : Option Nat} {src dst : Nat} {sm dm : Mesh} (hi : InvX W ex)
    (hsm : getM W src = some sm) (hdm : getM W dst = some dm) (hcnt : dm.cnt = sm.cnt)
    (hun : ∀ t ∈ W.heap, t.tracker = some dst → t.shared = false)
    (vals : List Int) (hlen : vals.length = sm.cnt.nV) :
    ∃ (X : List Storage) (d : Mesh) (p : Storage),
      CloneTail W (makePos (clonePersistent W src dst) dst vals) sm dm dst vals X d p := by
  obtain ⟨hsmm, _⟩ := getM_some hsm
  obtain ⟨hdmm, hdid⟩ := getM_some hdm
  have h2 := invX_clones hi src dst sm dm hsm hdmm hdid hcnt hun
  have memC := @mem_clonesOf W ex hi sm hsmm dst
  have hW2 := clonePersistent_eq (dst := dst) hsm
  generalize hC : clonesOf W sm dst = C at memC hW2
  have hheap2 : (clonePersistent W src dst).heap = W.heap ++ C := by rw [hW2]; rfl
  have hhand2 : (clonePersistent W src dst).handles = W.handles := by rw [hW2]; rfl
  have hnext2 : (clonePersistent W src dst).next = W.next + W.next := by rw [hW2]; rfl
  have hd2 : getM (clonePersistent W src dst) dst = some { dm with pers := dm.pers ++ C.map (·.id) } := by
    rw [hW2]; exact getM_modM_self _ (fun _ => rfl) ((getM_congr rfl dst).trans hdm)
  obtain ⟨hd2m, _⟩ := getM_some hd2
  have cloneFacts : ∀ c ∈ C, c.tracker = some dst ∧ W.next ≤ c.id ∧ c.id < W.next + W.next ∧
      ∃ s ∈ W.heap, s.id ∈ sm.pers ∧ c.id = W.next + s.id := by
    intro c hc
    obtain ⟨s, hs, hp, _, _, rfl⟩ := memC.mp hc
    have := hi.idsLt s hs
    exact ⟨rfl, by simp, by simp; omega, s, hs, hp, rfl⟩
  have oldLt : ∀ s ∈ W.heap, s.id < W.next := hi.idsLt
  unfold makePos
  simp only [hd2]
  cases hf : find (clonePersistent W src dst) dst .V .vec3d posName with
  | some sid =>
    obtain ⟨_, s0, hs0, hid0, ht0, hk0, hsh0, hn0, hty0⟩ := find_some hf
    have hs0C : s0 ∈ C := by
      rw [hheap2] at hs0
      rcases List.mem_append.mp hs0 with h | h
      · have := hun s0 h ht0; simp [hsh0] at this
      · exact h
    have hg : getS (modM (clonePersistent W src dst) dst (fun me => { me with pos := sid })) sid = some s0 := by
      have := getS_of_mem h2 hs0
      rw [hid0] at this
      exact (getS_congr (w1 := modM (clonePersistent W src dst) dst (fun me => { me with pos := sid }))
        (w2 := clonePersistent W src dst) rfl sid).trans this
    have hl0 : s0.vals.length = vals.length := by
      have := h2.sizes s0 hs0 _ hd2m (by rw [ht0]; simp [hdid])
      simp [hk0, Counts.n, hcnt] at this; omega
    simp only [hg]
    have hnl : ¬ s0.vals.length < vals.length := by omega
    simp only [hnl, ↓reduceIte]
    -- the final heap
    let f : Storage → Storage := fun s => if s.id = sid then { s with vals := vals.take s.vals.length ++ s.vals.drop vals.length } else s
    have hsid : W.next ≤ sid := by rw [← hid0]; exact (cloneFacts s0 hs0C).2.1
    have hold : W.heap.map f = W.heap := map_fix (fun s hs => by
      have := oldLt s hs
      have : s.id ≠ sid := by omega
      simp [f, this])
    have fid : ∀ s, (f s).id = s.id := by intro s; simp only [f]; split <;> rfl
    have ftr : ∀ s, (f s).tracker = s.tracker := by intro s; simp only [f]; split <;> rfl
    refine ⟨C.map f, { ({ dm with pers := dm.pers ++ C.map (·.id) } : Mesh) with pos := sid }, f s0, ?_, ?_, ?_, ?_, ?_, rfl, rfl, rfl, ?_, ?_, ?_, ?_, ?_⟩
    · show (clonePersistent W src dst).heap.map f = W.heap ++ C.map f
      rw [hheap2, List.map_append, hold]
    · exact hhand2
    · intro x hx
      obtain ⟨c, hc, rfl⟩ := List.mem_map.mp hx
      rw [ftr, fid]; exact ⟨(cloneFacts c hc).1, (cloneFacts c hc).2.1⟩
    · intro s hs hp
      have hc : ({ s with id := W.next + s.id, tracker := some dst } : Storage) ∈ C := by
        obtain ⟨s', hs', e1, e2, e3⟩ := hi.persEntry sm hsmm s.id hp
        have : s' = s := hi.idInj s' hs' s hs e1
        subst this
        exact memC.mpr ⟨s', hs, hp, e2, e3, rfl⟩
      refine ⟨f { s with id := W.next + s.id, tracker := some dst }, List.mem_map.mpr ⟨_, hc, rfl⟩, ?_⟩
      simp only [f]
      split
      · rename_i he
        refine ⟨rfl, rfl, rfl, rfl, rfl, rfl, rfl, ?_⟩
        intro hnp
        exfalso; apply hnp
        -- the clone is the storage found under the position key
        have hcm : ({ s with id := W.next + s.id, tracker := some dst } : Storage) ∈ (clonePersistent W src dst).heap := by
          rw [hheap2]; exact List.mem_append_right _ hc
        have : ({ s with id := W.next + s.id, tracker := some dst } : Storage) = s0 :=
          h2.idInj _ hcm s0 hs0 (by simpa [hid0] using he)
        rw [← this] at hk0 hty0 hn0
        exact ⟨hk0, hty0, hn0⟩
      · exact ⟨rfl, rfl, rfl, rfl, rfl, rfl, rfl, fun _ => rfl⟩
    · exact getM_modM_self (fun me : Mesh => { me with pos := sid }) (fun _ => rfl) hd2
    · exact List.mem_map.mpr ⟨s0, hs0C, rfl⟩
    · rw [fid]; exact hid0
    · simp only [f, hid0, ↓reduceIte]
      exact take_drop_full vals s0.vals hl0
    · intro x hx
      obtain ⟨c, hc, rfl⟩ := List.mem_map.mp hx
      rw [fid]; exact Or.inr (cloneFacts c hc).2.2.2
    · intro x hx
      obtain ⟨c, hc, rfl⟩ := List.mem_map.mp hx
      rw [fid]
      exact Or.inr (List.mem_append_right _ (List.mem_map.mpr ⟨c, hc, rfl⟩))
  | none =>
    have hn : posName ≠ "" := by decide
    have nf := find_none hf hn
    -- the fresh position storage
    generalize hfp : freshPos (clonePersistent W src dst).next dst ({ dm with pers := dm.pers ++ C.map (·.id) } : Mesh).cnt.nV = fp
    have hfpid : fp.id = W.next + W.next := by rw [← hfp, hnext2]; rfl
    have hfptr : fp.tracker = some dst := by rw [← hfp]; rfl
    have hfplen : fp.vals.length = vals.length := by rw [← hfp]; simp [freshPos, hcnt, hlen]
    have hg : getS (modM (alloc (clonePersistent W src dst) fp) dst (fun me => { me with pos := (clonePersistent W src dst).next })) (clonePersistent W src dst).next = some fp := by
      have hmem : fp ∈ (alloc (clonePersistent W src dst) fp).heap := by
        simp only [alloc, List.mem_append, List.mem_singleton]
        right; rw [← hfp]; rfl
      have hinv := invX_alloc h2 fp _ hd2m (by rw [hfptr]; simp [hdid]) (by rw [← hfp]; rfl) (fun _ => by rw [← hfp]; exact hn)
        (fun _ t ht hts htr hk hty hname => by
          rw [← hfp] at hk hty hname
          exact nf t ht (by rw [htr]; simp [hdid]) hk hts hname hty) (by rw [← hfp]; simp [freshPos, Counts.n])
      have := getS_of_mem hinv hmem
      rw [hfpid, ← hnext2] at this
      exact (getS_congr (w1 := modM (alloc (clonePersistent W src dst) fp) dst (fun me => { me with pos := (clonePersistent W src dst).next }))
        (w2 := alloc (clonePersistent W src dst) fp) rfl _).trans this
    simp only [hg]
    have hnl : ¬ fp.vals.length < vals.length := by omega
    simp only [hnl, ↓reduceIte]
    let f : Storage → Storage := fun s => if s.id = (clonePersistent W src dst).next then { s with vals := vals.take s.vals.length ++ s.vals.drop vals.length } else s
    have hold : W.heap.map f = W.heap := map_fix (fun s hs => by
      have := oldLt s hs
      have : s.id ≠ (clonePersistent W src dst).next := by rw [hnext2]; omega
      simp [f, this])
    have hcl : C.map f = C := map_fix (fun c hc => by
      have := (cloneFacts c hc).2.2.1
      have : c.id ≠ (clonePersistent W src dst).next := by rw [hnext2]; omega
      simp [f, this])
    have hfp' : f { fp with id := (clonePersistent W src dst).next } = { fp with id := (clonePersistent W src dst).next, vals := vals } := by
      simp only [f, ↓reduceIte]
      rw [take_drop_full vals fp.vals hfplen]
    refine ⟨C ++ [{ fp with id := (clonePersistent W src dst).next, vals := vals }],
      { ({ dm with pers := dm.pers ++ C.map (·.id) } : Mesh) with pos := (clonePersistent W src dst).next },
      { fp with id := (clonePersistent W src dst).next, vals := vals }, ?_, ?_, ?_, ?_, ?_, rfl, rfl, rfl, ?_, rfl, rfl, ?_, ?_⟩
    · show ((clonePersistent W src dst).heap ++ [{ fp with id := (clonePersistent W src dst).next }]).map f = W.heap ++ (C ++ [_])
      rw [hheap2, List.map_append, List.map_append, hold, hcl, List.map_singleton, hfp', List.append_assoc]
    · exact hhand2
    · intro x hx
      rcases List.mem_append.mp hx with h | h
      · exact ⟨(cloneFacts x h).1, (cloneFacts x h).2.1⟩
      · simp only [List.mem_singleton] at h
        subst h
        exact ⟨hfptr, by simp [hnext2]⟩
    · intro s hs hp
      have hc : ({ s with id := W.next + s.id, tracker := some dst } : Storage) ∈ C := by
        obtain ⟨s', hs', e1, e2, e3⟩ := hi.persEntry sm hsmm s.id hp
        have : s' = s := hi.idInj s' hs' s hs e1
        subst this
        exact memC.mpr ⟨s', hs, hp, e2, e3, rfl⟩
      exact ⟨_, List.mem_append_left _ hc, rfl, rfl, rfl, rfl, rfl, rfl, rfl, fun _ => rfl⟩
    · exact getM_modM_self (fun me : Mesh => { me with pos := (clonePersistent W src dst).next }) (fun _ => rfl)
        ((getM_congr (w1 := alloc (clonePersistent W src dst) fp) (w2 := clonePersistent W src dst) rfl dst).trans hd2)
    · simp
    · intro x hx
      rcases List.mem_append.mp hx with h | h
      · exact Or.inr (cloneFacts x h).2.2.2
      · simp only [List.mem_singleton] at h
        subst h; exact Or.inl rfl
    · intro x hx
      rcases List.mem_append.mp hx with h | h
      · exact Or.inr (List.mem_append_right _ (List.mem_map.mpr ⟨x, h, rfl⟩))
      · simp only [List.mem_singleton] at h
        subst h; exact Or.inl rfl


/-! ### copy construction -/

/-- `Mesh dst(src)`: what the new mesh consists of -/
structure CopySpec (w w' : World) (src dst : Nat) (sm : Mesh) (X : List Storage) (d : Mesh) (p : Storage) : Prop where
  heap : w'.heap = w.heap ++ X                 -- nothing old is touched; `X` is everything new
  handles : w'.handles = w.handles
  fresh : ∀ x ∈ X, x.tracker = some dst ∧ w.next ≤ x.id
  carried : ∀ s ∈ w.heap, s.pers = true → s.tracker = some src →
      ∃ c ∈ X, c.id = w.next + s.id ∧ c.kind = s.kind ∧ c.ty = s.ty ∧ c.name = s.name ∧ c.shared = true ∧
        c.pers = true ∧ c.dflt = s.dflt ∧ (¬ isPosKey s → c.vals = s.vals)
  mesh : getM w' dst = some d
  cnt : d.cnt = sm.cnt
  topo : d.topo = sm.topo
  mtype : d.mtype = sm.mtype
  posIn : p ∈ X
  posId : p.id = d.pos
  posVals : ∀ q, getS w sm.pos = some q → p.vals = q.vals
  only : ∀ x ∈ X, x.id = d.pos ∨ ∃ s ∈ w.heap, s.pers = true ∧ s.tracker = some src ∧ x.id = w.next + s.id

theorem copy_spec {w w' : World} {src dst : Nat} {sm : Mesh} {r : Res} (hi : Inv w) (hsm : getM w src = some sm)
    (e : step w (.copy src dst) = .ok (w', r)) :
    ∃ X d p, CopySpec w w' src dst sm X d p := by
  obtain ⟨w1, hc, rfl⟩ := step_ok e
  have hfr := core_frame hi.x hc
  simp only [Op.touches, Op.operated] at hfr
  simp only [core, copyMesh, hsm] at hc
  split at hc
  · rename_i sm' hs hd
    cases hs
    cases hc
    obtain ⟨hsmm, hsid⟩ := getM_some hsm
    have hfree := getM_none hd
    obtain ⟨q, hg, _, _, _, _, _, hl⟩ := pos_lookup hi.x hsmm
    simp only [hg, Option.map_some, Option.getD_some] at hfr ⊢
    generalize hrec : ({ id := dst, mtype := sm.mtype, cnt := sm.cnt, pers := [], pos := w.next + w.next, topo := sm.topo } : Mesh) = rec at hfr ⊢
    have hrid : rec.id = dst := by rw [← hrec]
    have hrp : rec.pers = [] := by rw [← hrec]
    have hrc : rec.cnt = sm.cnt := by rw [← hrec]
    have hfree' : ∀ me ∈ w.meshes, me.id ≠ rec.id := by rw [hrid]; exact hfree
    have h1 := invX_newMeshRec hi.x rec hfree' hrp
    rw [hrid] at h1
    have hs1 : getM { w with meshes := w.meshes ++ [rec] } src = some sm := getM_append_old hsm
    have hd1 : getM { w with meshes := w.meshes ++ [rec] } dst = some rec := by
      rw [← hrid]; exact getM_append_new hfree'
    have hun : ∀ t ∈ ({ w with meshes := w.meshes ++ [rec] } : World).heap, t.tracker = some dst → t.shared = false := by
      intro t ht htr
      obtain ⟨me, hme, e⟩ := hi.x.trackerLive t ht dst htr
      exact (hfree me hme e).elim
    obtain ⟨X, d, p, ct⟩ := clone_tail h1 hs1 hd1 hrc hun q.vals hl
    -- nothing is garbage: `gc` is the identity here
    have hgc : gc (makePos (clonePersistent { w with meshes := w.meshes ++ [rec] } src dst) dst q.vals) =
        makePos (clonePersistent { w with meshes := w.meshes ++ [rec] } src dst) dst q.vals := by
      apply gc_eq_self
      intro s hs
      rw [ct.heap] at hs
      rcases List.mem_append.mp hs with h | h
      · rcases (owned_iff w s.id).mp (hi.noGarbage s h) with ⟨hd', hh, e⟩ | ⟨me, hme, e⟩
        · exact (owned_iff _ s.id).mpr (Or.inl ⟨hd', by rw [ct.handles]; exact hh, e⟩)
        · have hne : me.id ∉ [dst] := by simpa using hfree me hme
          have hgm := (hfr.mesh me.id hne).trans (getM_of_mem hi.x hme)
          exact (owned_iff _ s.id).mpr (Or.inr ⟨me, (getM_some hgm).1, e⟩)
      · refine (owned_iff _ s.id).mpr (Or.inr ⟨d, (getM_some ct.mesh).1, ?_⟩)
        rcases ct.persIds s h with e | e
        · exact Or.inl e.symm
        · exact Or.inr e
    rw [hgc]
    refine ⟨X, d, p, ct.heap, ct.handles, ct.fresh, ?_, ct.mesh, by rw [ct.cnt, hrc], by rw [ct.topo, ← hrec], by rw [ct.mtype, ← hrec],
      ct.posIn, ct.posId, ?_, ?_⟩
    · intro s hs hp htr
      have hin : s.id ∈ sm.pers := hi.x.persListed s hs sm hsmm hp (by rw [htr, hsid])
      obtain ⟨c, hc, e1, e2, e3, e4, e5, e6, e7, e8⟩ := ct.carried s hs hin
      exact ⟨c, hc, e1, e2, e3, e4, by rw [e5]; exact hi.x.persShared s hs hp, by rw [e6]; exact hp, e7, e8⟩
    · intro q' hq'
      rw [hg] at hq'; cases hq'
      exact ct.posVals
    · intro x hx
      rcases ct.only x hx with e | ⟨s, hs, hp, e⟩
      · exact Or.inl e
      · obtain ⟨s', hs', e1, e2, e3⟩ := hi.x.persEntry sm hsmm s.id hp
        have : s' = s := hi.x.idInj s' hs' s hs e1
        subst this
        exact Or.inr ⟨s', hs, e2, by rw [e3, hsid], e⟩
  · cases hc


/-! ### assignment -/

/-- `dst = src` (distinct meshes, any kernel combination) -/
structure AssignSpec (w w' : World) (dst src : Nat) (sm dm : Mesh) (X : List Storage) (d : Mesh) (p : Storage) : Prop where
  handles : w'.handles = w.handles
  newIn : ∀ x ∈ X, x ∈ w'.heap ∧ x.tracker = some dst ∧ w.next ≤ x.id
  carried : ∀ s ∈ w.heap, s.pers = true → s.tracker = some src →
      ∃ c ∈ X, c.id = w.next + s.id ∧ c.kind = s.kind ∧ c.ty = s.ty ∧ c.name = s.name ∧ c.shared = true ∧
        c.pers = true ∧ c.dflt = s.dflt ∧ (¬ isPosKey s → c.vals = s.vals)
  mesh : getM w' dst = some d
  cnt : d.cnt = sm.cnt
  topo : d.topo = sm.topo
  mtype : d.mtype = dm.mtype
  posIn : p ∈ X
  posId : p.id = d.pos
  posVals : ∀ q, getS w sm.pos = some q → p.vals = q.vals
  only : ∀ x ∈ X, x.id = d.pos ∨ ∃ s ∈ w.heap, s.pers = true ∧ s.tracker = some src ∧ x.id = w.next + s.id
  /-- whatever else is attached to the target is one of its old storages, anonymised -/
  attached : ∀ s' ∈ w'.heap, s'.tracker = some dst →
      s' ∈ X ∨ (s'.shared = false ∧ s'.pers = false ∧ ∃ s ∈ w.heap, s.id = s'.id ∧ s.tracker = some dst)
  /-- handles obtained earlier from the target: still resolve to the same (attached) storage, sized
      to the new entity counts, contents otherwise kept, no longer findable by name -/
  oldHandles : ∀ h sid s, hget w h = some sid → getS w sid = some s → s.tracker = some dst →
      ∃ s', hview w' h = some s' ∧ s'.id = sid ∧ s'.tracker = some dst ∧ s'.shared = false ∧ s'.pers = false ∧
        s'.vals = resizeL s.vals (sm.cnt.n s.kind) s.dflt ∧ s'.vals.length = d.cnt.n s'.kind ∧
        s'.name = s.name ∧ s'.kind = s.kind ∧ s'.ty = s.ty ∧ s'.dflt = s.dflt ∧
        ∀ k ty name, find w' dst k ty name ≠ some sid

theorem hget_congr {w1 w2 : World} (h : w1.handles = w2.handles) (x : Nat) : hget w1 x = hget w2 x := by
  unfold hget; rw [h]

theorem assign_spec {w w' : World} {dst src : Nat} {sm dm : Mesh} {r : Res} (hi : Inv w) (hne : dst ≠ src)
    (hsm : getM w src = some sm) (hdm : getM w dst = some dm)
    (e : step w (.assign dst src) = .ok (w', r)) :
    ∃ X d p, AssignSpec w w' dst src sm dm X d p := by
  have hi' := step_inv hi e
  obtain ⟨w1, hc, rfl⟩ := step_ok e
  simp only [core, assignMesh, hsm, hdm, hne, ↓reduceIte] at hc
  cases hc
  obtain ⟨hsmm, hsid⟩ := getM_some hsm
  obtain ⟨q, hg, _, _, _, _, _, hl⟩ := pos_lookup hi.x hsmm
  simp only [hg, Option.map_some, Option.getD_some] at hi' ⊢
  have h1 := invX_clearProps hi.x dst (fun _ => true)
  have h3 := invX_resize h1 dst sm.cnt sm.topo (fun _ => true) (by intro _ _ _ k hk; simp at hk)
  have hne' : src ≠ dst := fun e => hne e.symm
  -- the world before cloning
  generalize hW : resizeTracked (modM (clearPropsCore w dst (fun _ => true)) dst
      (fun me => { me with cnt := sm.cnt, topo := sm.topo })) dst sm.cnt (fun _ => true) = W at h3 hi' ⊢
  let g : Storage → Storage := fun s =>
    if s.tracker = some dst then { s with pers := false, shared := false, vals := resizeL s.vals (sm.cnt.n s.kind) s.dflt } else s
  have hWheap : W.heap = w.heap.map g := by
    rw [← hW]
    simp only [resizeTracked, modM, clearPropsCore, mapHeap, List.map_map]
    apply List.map_congr_left
    intro s _
    simp only [Function.comp, g]
    by_cases h : s.tracker = some dst <;> simp [h]
  have hWhandles : W.handles = w.handles := by rw [← hW]; rfl
  have hWnext : W.next = w.next := by rw [← hW]; rfl
  have hs3 : getM W src = some sm := by
    rw [← hW, getM_resizeTracked, getM_modM_ne (fun me : Mesh => { me with cnt := sm.cnt, topo := sm.topo }) (fun _ => rfl) hne',
      getM_clearPropsCore_ne _ hne']; exact hsm
  obtain ⟨dm3, hd3, hd3c, hd3t, hd3m⟩ : ∃ dm3, getM W dst = some dm3 ∧ dm3.cnt = sm.cnt ∧ dm3.topo = sm.topo ∧ dm3.mtype = dm.mtype := by
    have a := getM_clearPropsCore_self (fun _ => true) hdm
    have b := getM_modM_self (fun me : Mesh => { me with cnt := sm.cnt, topo := sm.topo }) (fun _ => rfl) a
    refine ⟨(fun me : Mesh => { me with cnt := sm.cnt, topo := sm.topo })
      { dm with pers := dm.pers.filter (fun i => !(getS w i).any (fun s => (fun _ => true) s.kind)) }, ?_, rfl, rfl, rfl⟩
    rw [← hW]; exact (getM_resizeTracked dst sm.cnt (fun _ => true) dst).trans b
  have gfix : ∀ s, s.tracker ≠ some dst → g s = s := by intro s h; simp [g, h]
  have gid : ∀ s, (g s).id = s.id := by intro s; simp only [g]; split <;> rfl
  have gtr : ∀ s, (g s).tracker = s.tracker := by intro s; simp only [g]; split <;> rfl
  have hun : ∀ t ∈ W.heap, t.tracker = some dst → t.shared = false := by
    intro t ht htr
    rw [hWheap] at ht
    obtain ⟨s, _, rfl⟩ := List.mem_map.mp ht
    rw [gtr] at htr
    simp [g, htr]
  obtain ⟨X, d, p, ct⟩ := clone_tail h3 hs3 hd3 hd3c hun q.vals hl
  have xin : ∀ x ∈ X, x ∈ (gc (makePos (clonePersistent W src dst) dst q.vals)).heap := by
    intro x hx
    refine mem_gc.mpr ⟨by rw [ct.heap]; exact List.mem_append_right _ hx, ?_⟩
    refine (owned_iff _ x.id).mpr (Or.inr ⟨d, (getM_some ct.mesh).1, ?_⟩)
    rcases ct.persIds x hx with e | e
    · exact Or.inl e.symm
    · exact Or.inr e
  refine ⟨X, d, p, ?_, ?_, ?_, ct.mesh, by rw [ct.cnt, hd3c], by rw [ct.topo, hd3t], by rw [ct.mtype, hd3m], ct.posIn, ct.posId, ?_, ?_, ?_, ?_⟩
  · exact ct.handles.trans hWhandles
  · intro x hx
    have := ct.fresh x hx
    rw [hWnext] at this
    exact ⟨xin x hx, this⟩
  · intro s hs hp htr
    have hin : s.id ∈ sm.pers := hi.x.persListed s hs sm hsmm hp (by rw [htr, hsid])
    have hsW : s ∈ W.heap := by
      rw [hWheap]; exact mem_map_self hs (gfix s (by rw [htr]; simpa using hne'))
    obtain ⟨c, hc, e1, e2, e3, e4, e5, e6, e7, e8⟩ := ct.carried s hsW hin
    rw [hWnext] at e1
    exact ⟨c, hc, e1, e2, e3, e4, by rw [e5]; exact hi.x.persShared s hs hp, by rw [e6]; exact hp, e7, e8⟩
  · intro q' hq'
    rw [hg] at hq'; cases hq'
    exact ct.posVals
  · intro x hx
    rcases ct.only x hx with e | ⟨s, hs, hp, e⟩
    · exact Or.inl e
    · rw [hWheap] at hs
      obtain ⟨s0, hs0, rfl⟩ := List.mem_map.mp hs
      rw [gid] at hp e
      rw [hWnext] at e
      obtain ⟨s', hs', e1, e2, e3⟩ := hi.x.persEntry sm hsmm s0.id hp
      have : s' = s0 := hi.x.idInj s' hs' s0 hs0 e1
      subst this
      exact Or.inr ⟨s', hs0, e2, by rw [e3, hsid], e⟩
  · intro s' hs' htr
    have := (mem_gc.mp hs').1
    rw [ct.heap] at this
    rcases List.mem_append.mp this with h | h
    · rw [hWheap] at h
      obtain ⟨s, hs, rfl⟩ := List.mem_map.mp h
      rw [gtr] at htr
      exact Or.inr ⟨by simp [g, htr], by simp [g, htr], s, hs, (gid s).symm, htr⟩
    · exact Or.inl h
  · intro h sid s hh hs htr
    obtain ⟨hmem, hid⟩ := getS_some hs
    have hgs : g s ∈ (gc (makePos (clonePersistent W src dst) dst q.vals)).heap := by
      refine mem_gc.mpr ⟨by rw [ct.heap, hWheap]; exact List.mem_append_left _ (List.mem_map.mpr ⟨s, hmem, rfl⟩), ?_⟩
      refine (owned_iff _ _).mpr (Or.inl ⟨(h, sid), ?_, by rw [gid]; exact hid.symm⟩)
      show (h, sid) ∈ (makePos (clonePersistent W src dst) dst q.vals).handles
      rw [ct.handles, hWhandles]; exact hget_some hh
    have hview' : hview (gc (makePos (clonePersistent W src dst) dst q.vals)) h = some (g s) := by
      unfold hview
      have : hget (gc (makePos (clonePersistent W src dst) dst q.vals)) h = hget w h :=
        hget_congr (by show (makePos (clonePersistent W src dst) dst q.vals).handles = w.handles; rw [ct.handles, hWhandles]) h
      rw [this, hh]
      simp only [Option.bind_some]
      have := getS_of_mem hi'.x hgs
      rw [gid, hid] at this; exact this
    have hsz : (g s).vals.length = d.cnt.n (g s).kind := by
      have hdm' : d ∈ (gc (makePos (clonePersistent W src dst) dst q.vals)).meshes := (getM_some ct.mesh).1
      exact hi'.x.sizes (g s) hgs d hdm' (by rw [gtr, htr, (getM_some ct.mesh).2])
    refine ⟨g s, hview', by rw [gid]; exact hid, by rw [gtr]; exact htr, by simp [g, htr], by simp [g, htr],
      by simp [g, htr], hsz, by simp [g, htr], by simp [g, htr], by simp [g, htr], by simp [g, htr], ?_⟩
    intro k ty name
    have := private_not_found hi' hgs (by simp [g, htr]) dst k ty name
    rw [gid, hid] at this; exact this

/-- self-assignment is the identity -/
theorem self_assign {w : World} {a : Nat} (hi : Inv w) (ha : (getM w a).isSome = true) :
    step w (.assign a a) = .ok (w, .unit) := by
  obtain ⟨me, hme⟩ := Option.isSome_iff_exists.mp ha
  simp [step, core, assignMesh, hme, gc_id hi]

end OVM.Registry

/-
  What the world model's line `topo := source.topo` (World.lean, `copyMesh` / `assignMesh`) rests
  on, read off the table `OVM.Gen.CopyFields.classes` that tools/t6_copyfields.py regenerates from
  the clang AST of /repo's current sources on every check run:

  * `TopologyKernel`'s copy constructor and copy assignment are implicit / `= default`
    (TopologyKernel.hh:75-79), i.e. member-wise ([class.copy.ctor]/14, [class.copy.assign]/12);
  * every non-static data member of `TopologyKernel` is of value type (no pointer, reference,
    smart pointer, function object) and none is `mutable`;
  * the tetrahedral / hexahedral kernels add no data member (so `GeometryKernel::operator=`, which
    assigns the `TopologyKernel` sub-object only, GeometryKernel.hh:92, loses nothing);
  * the only classes with user-provided copy operations in the chain are `ResourceManager` and
    `GeometryKernel` -- those are mirrored by hand in Registry.lean / World.lean -- and their data
    members are exactly the ones the model has (`pers`, tracker membership, `pos`);
  * every data member of `TopologyKernel` is observed by the digest `topo_digest` of
    harness/prop_drv.cc (`digestCovers`): a new member breaks `digest_covers_every_field` until
    someone says how the correspondence run sees it.

  All statements about the table are closed `decide`s over the WHOLE generated table.
  The second half is a small semantics of member-wise copy over a table row (`Slot`, `memberwise`)
  with the generic soundness lemma `memberwise_deep_sound`.

  core-only imports.
-/
import OVM.Gen.CopyFields
namespace OVM.Registry.CopyFields
open OVM.Gen.CopyFields

/-! ## 1. Predicates on table rows -/

def find (n : String) : Option ClassInfo := classes.find? (·.name == n)

/-- implicit or `= default`: the compiler-generated member-wise operation -/
def SM.memberwise : SM → Bool
  | .implicit | .defaulted => true
  | _ => false

/-- copying an object of this class copies each data member, every data member is of value type
    and none is `mutable`: the copy is deep and shares nothing with the source -/
def MemberwiseDeep (c : ClassInfo) : Bool :=
  SM.memberwise c.copyCtor && SM.memberwise c.copyAssign &&
  c.fields.all (fun f => f.cls == .value && !f.isMutable) && !c.isPattern

def hasUserCopy (c : ClassInfo) : Bool :=
  c.copyCtor == .userProvided || c.copyAssign == .userProvided || c.templatedAssign || c.templatedCtor

def fieldNames (c : ClassInfo) : List String := c.fields.map (·.name)

/-- does the canonical type `ty` end in the (namespace-qualified) class name `n`? -/
def isClass (ty n : String) : Bool := ty == "OpenVolumeMesh::" ++ n

/-! ## 2. Facts about the generated table (complete finite table: `decide` is a proof) -/

/-- the classes the translator is asked for are all there -/
theorem table_rows :
    classes.map (·.name) =
      ["TopologyKernel", "TetrahedralMeshTopologyKernel", "HexahedralMeshTopologyKernel", "ResourceManager",
       "GeometryKernel<VecT, TopologyKernelT>", "GeometryKernel<Vec3d, TopologyKernel>",
       "GeometryKernel<Vec3d, TetrahedralMeshTopologyKernel>", "GeometryKernel<Vec3d, HexahedralMeshTopologyKernel>"] := by
  decide

/-- `TopologyKernel(TopologyKernel const&) = default; operator=(TopologyKernel const&) = default;`
    over value members only, none `mutable` -/
theorem topologyKernel_copy_is_memberwise_deep :
    (find "TopologyKernel").map MemberwiseDeep = some true := by decide

theorem tetKernel_copy_is_memberwise_deep :
    (find "TetrahedralMeshTopologyKernel").map MemberwiseDeep = some true := by decide

theorem hexKernel_copy_is_memberwise_deep :
    (find "HexahedralMeshTopologyKernel").map MemberwiseDeep = some true := by decide

/-- the derived topology kernels have no data member of their own: the whole kernel state is the
    `TopologyKernel` sub-object.  (`GeometryKernel::operator=` copies that sub-object only.) -/
theorem derived_kernels_add_no_state :
    (find "TetrahedralMeshTopologyKernel").map fieldNames = some [] ∧
    (find "HexahedralMeshTopologyKernel").map fieldNames = some [] := by decide

/-- single, non-virtual inheritance chain
    GeometryKernel<V, K> → K → TopologyKernel → ResourceManager (no further base) -/
theorem inheritance_chain :
    (find "ResourceManager").map (·.bases) = some [] ∧
    (find "TopologyKernel").map (·.bases) = some ["OpenVolumeMesh::ResourceManager"] ∧
    (find "TetrahedralMeshTopologyKernel").map (·.bases) = some ["OpenVolumeMesh::TopologyKernel"] ∧
    (find "HexahedralMeshTopologyKernel").map (·.bases) = some ["OpenVolumeMesh::TopologyKernel"] ∧
    (find "GeometryKernel<Vec3d, TopologyKernel>").map (·.bases) = some ["OpenVolumeMesh::TopologyKernel"] ∧
    (find "GeometryKernel<Vec3d, TetrahedralMeshTopologyKernel>").map (·.bases) =
      some ["OpenVolumeMesh::TetrahedralMeshTopologyKernel"] ∧
    (find "GeometryKernel<Vec3d, HexahedralMeshTopologyKernel>").map (·.bases) =
      some ["OpenVolumeMesh::HexahedralMeshTopologyKernel"] := by decide

/-- exactly `ResourceManager` and `GeometryKernel` (pattern and instantiations) have user-provided
    copy operations / an assignment template: the ones World.lean mirrors by hand; every other
    class of the table is `MemberwiseDeep` -/
theorem user_provided_copy_classes :
    (classes.filter hasUserCopy).map (·.name) =
      ["ResourceManager", "GeometryKernel<VecT, TopologyKernelT>", "GeometryKernel<Vec3d, TopologyKernel>",
       "GeometryKernel<Vec3d, TetrahedralMeshTopologyKernel>", "GeometryKernel<Vec3d, HexahedralMeshTopologyKernel>"] ∧
    (classes.filter (fun c => !hasUserCopy c)).all MemberwiseDeep = true := by decide

/-- the hand-mirrored classes hold exactly the state the world model has:
    `ResourceManager`: `persistent_props_` (`Mesh.pers`) and `storage_trackers_` (`Storage.tracker`);
    `GeometryKernel`: `position_` (`Mesh.pos`) -/
theorem hand_mirrored_state :
    (find "ResourceManager").map fieldNames = some ["persistent_props_", "storage_trackers_"] ∧
    classes.all (fun c => !hasUserCopy c || c.name == "ResourceManager" || fieldNames c == ["position_"]) = true := by
  decide

/-- nothing in the whole table is a `mutable` member except the tracker registry of
    `ResourceManager` (modelled: `Storage.tracker`) -/
theorem mutable_members :
    (classes.flatMap (fun c => (c.fields.filter (·.isMutable)).map (fun f => (c.name, f.name)))) =
      [("ResourceManager", "storage_trackers_")] := by decide

/-! ## 3. The digest of the correspondence run observes every kernel member -/

/-- for every data member of `TopologyKernel`: the public observable(s) through which
    `Driver::topo_digest` (harness/prop_drv.cc) reads it.  The judge compares that digest between
    source and target after every `copy` / `assign` and for every untouched mesh after every step. -/
def digestCovers : List (String × String) := [
  ("n_vertices_", "n_vertices()"),
  ("outgoing_hes_per_vertex_", "voh_iter(v) for all v (sorted), when has_vertex_bottom_up_incidences(); cleared when switched off"),
  ("incident_hfs_per_he_", "hehf_iter(he) for all he (cyclic order), when has_edge_bottom_up_incidences(); cleared when switched off"),
  ("incident_cell_per_hf_", "incident_cell(hf) for all hf, when has_face_bottom_up_incidences(); cleared when switched off"),
  ("v_bottom_up_", "has_vertex_bottom_up_incidences()"),
  ("e_bottom_up_", "has_edge_bottom_up_incidences()"),
  ("f_bottom_up_", "has_face_bottom_up_incidences()"),
  ("deferred_deletion_", "deferred_deletion_enabled()"),
  ("fast_deletion_", "fast_deletion_enabled()"),
  ("edges_", "n_edges(); edge(e).from_vertex()/to_vertex() for all e"),
  ("faces_", "n_faces(); face(f).halfedges() for all f"),
  ("cells_", "n_cells(); cell(c).halffaces() for all c"),
  ("vertex_deleted_", "is_deleted(v) for all v"),
  ("edge_deleted_", "is_deleted(e) for all e"),
  ("face_deleted_", "is_deleted(f) for all f"),
  ("cell_deleted_", "is_deleted(c) for all c"),
  ("n_deleted_vertices_", "n_logical_vertices() = n_vertices() - n_deleted_vertices_"),
  ("n_deleted_edges_", "n_logical_edges() = n_edges() - n_deleted_edges_"),
  ("n_deleted_faces_", "n_logical_faces() = n_faces() - n_deleted_faces_"),
  ("n_deleted_cells_", "n_logical_cells() = n_cells() - n_deleted_cells_")]

/-- every data member of `TopologyKernel` in the regenerated table has an entry in `digestCovers`
    (and no entry is stale).  Member order is irrelevant. -/
theorem digest_covers_every_field :
    ((find "TopologyKernel").map fun c =>
        (fieldNames c).all (fun n => digestCovers.any (·.1 == n)) &&
        digestCovers.all (fun e => (fieldNames c).contains e.1 && e.2 != "")) = some true := by decide

/-! ## 4. What member-wise copy of a row means -/

/-- what a data member holds at run time: a self-contained value, or an address of storage that
    some other object may hold too -/
inductive Slot where
  | val (v : Nat)
  | ref (addr : Nat)
deriving DecidableEq, Repr

/-- the members of one object, by name -/
abbrev Obj := String → Slot

/-- an object of class `c`: members of `value` type hold values -/
def Typed (c : ClassInfo) (o : Obj) : Prop :=
  ∀ f ∈ c.fields, f.cls = .value → ∃ v, o f.name = .val v

/-- the implicitly-defined / defaulted copy constructor and copy assignment operator of a
    non-union class perform a member-wise copy of its (bases and) non-static data members
    ([class.copy.ctor]/14, [class.copy.assign]/12); members of other classes keep what they had -/
def memberwise (c : ClassInfo) (src dst : Obj) : Obj :=
  fun n => if (fieldNames c).contains n then src n else dst n

/-- two objects share storage through some pair of members -/
def Aliases (c : ClassInfo) (a b : Obj) : Prop :=
  ∃ f ∈ c.fields, ∃ g ∈ c.fields, ∃ p, a f.name = .ref p ∧ b g.name = .ref p

theorem mem_fieldNames {c : ClassInfo} {f : Field} (h : f ∈ c.fields) : (fieldNames c).contains f.name = true := by
  simp only [fieldNames, List.contains_iff_mem, List.mem_map]
  exact ⟨f, h, rfl⟩

/-- generic soundness: for ANY row with `MemberwiseDeep`, the copy agrees with the source on every
    member, shares no storage with it, and so every function of the members (the digest, any
    observer) returns the same on both -/
theorem memberwise_deep_sound {c : ClassInfo} (hd : MemberwiseDeep c = true) {src : Obj} (ht : Typed c src) (dst : Obj) :
    (∀ f ∈ c.fields, memberwise c src dst f.name = src f.name) ∧
    ¬ Aliases c (memberwise c src dst) src ∧
    (∀ {α : Type} (obs : Obj → α), (∀ a b : Obj, (∀ f ∈ c.fields, a f.name = b f.name) → obs a = obs b) →
        obs (memberwise c src dst) = obs src) := by
  have hcopy : ∀ f ∈ c.fields, memberwise c src dst f.name = src f.name := by
    intro f hf
    simp only [memberwise, mem_fieldNames hf, if_true]
  have hval : ∀ f ∈ c.fields, f.cls = .value := by
    intro f hf
    simp only [MemberwiseDeep, Bool.and_eq_true, List.all_eq_true] at hd
    have := hd.1.2 f hf
    simp only [beq_iff_eq, Bool.not_eq_true'] at this
    exact this.1
  refine ⟨hcopy, ?_, fun obs hobs => hobs _ _ hcopy⟩
  rintro ⟨f, _, g, hg, p, _, hb⟩
  obtain ⟨v, hv⟩ := ht g hg (hval g hg)
  rw [hv] at hb
  cases hb

end OVM.Registry.CopyFields

/-
  Preservation of the pointer-protocol invariant (`PInv`) and absence of faults for every
  operation of `OVM.Registry.Tracking` (model of detail/Tracking.hh).
-/
import OVM.Registry.Tracker
namespace OVM.Registry.Tracking

/-- frame facts every step keeps: who is alive, and the allocation counters -/
structure SameObjs (s s' : PState) : Prop where
  tr_alive : ∀ t, (s'.tr t).alive = (s.tr t).alive
  td_alive : ∀ x, (s'.td x).alive = (s.td x).alive
  nTr : s'.nTr = s.nTr
  nTd : s'.nTd = s.nTd

theorem SameObjs.refl (s : PState) : SameObjs s s := ⟨fun _ => rfl, fun _ => rfl, rfl, rfl⟩
theorem SameObjs.trans {a b c : PState} (h1 : SameObjs a b) (h2 : SameObjs b c) : SameObjs a c :=
  ⟨fun t => (h2.tr_alive t).trans (h1.tr_alive t), fun x => (h2.td_alive x).trans (h1.td_alive x),
   h2.nTr.trans h1.nTr, h2.nTd.trans h1.nTd⟩

theorem setTracker_good (s : PState) (x : Nat) (nt : Option Nat) (hg : Good s)
    (hx : (s.td x).alive = true) (hnt : aliveTrOpt s nt = true) :
    Good (setTracker s x nt) ∧ SameObjs s (setTracker s x nt) ∧
      ((setTracker s x nt).td x).tracker = nt ∧
      (∀ y, y ≠ x → (setTracker s x nt).td y = s.td y) := by
  obtain ⟨⟨h1, h2, h3, h4⟩, hf⟩ := hg
  cases hcur : (s.td x).tracker with
  | none =>
    cases nt with
    | none =>
      simp [setTracker, tdRemove, tdAdd, hcur]
      refine ⟨⟨⟨?_, ?_, ?_, ?_⟩, hf⟩, ⟨?_, ?_, rfl, rfl⟩, ?_⟩ <;> grind [upd_apply]
    | some t =>
      simp [aliveTrOpt] at hnt
      simp [setTracker, tdRemove, tdAdd, hcur, trAdd, derefTr, hnt]
      refine ⟨⟨⟨?_, ?_, ?_, ?_⟩, hf⟩, ⟨?_, ?_, rfl, rfl⟩, ?_⟩ <;> grind [upd_apply]
  | some c =>
    have hc := h1 x c hx hcur
    cases nt with
    | none =>
      simp [setTracker, tdRemove, tdAdd, hcur, trRemove, derefTr, hc.1]
      refine ⟨⟨⟨?_, ?_, ?_, ?_⟩, hf⟩, ⟨?_, ?_, rfl, rfl⟩, ?_⟩ <;> grind [upd_apply]
    | some t =>
      simp [aliveTrOpt] at hnt
      simp [setTracker, tdRemove, tdAdd, hcur, trRemove, trAdd, derefTr, hc.1]
      refine ⟨⟨⟨?_, ?_, ?_, ?_⟩, ?_⟩, ⟨?_, ?_, ?_, ?_⟩, ?_⟩ <;> grind [upd_apply]


/-- `allocTracked`: a fresh object registered with the (live or null) tracker `t` -/
theorem allocTracked_good (s : PState) (t : Option Nat) (hg : Good s)
    (ht : aliveTrOpt s t = true) :
    Good (allocTracked s t) ∧ (allocTracked s t).nTd = s.nTd + 1 ∧ (allocTracked s t).nTr = s.nTr ∧
      (∀ u, ((allocTracked s t).tr u).alive = (s.tr u).alive) ∧
      (∀ y, y ≠ s.nTd → (allocTracked s t).td y = s.td y) ∧
      (allocTracked s t).td s.nTd = { alive := true, tracker := t } := by
  obtain ⟨⟨h1, h2, h3, h4⟩, hf⟩ := hg
  have hn := h4 s.nTd (Nat.le_refl _)
  cases t with
  | none =>
    simp [allocTracked, tdAdd]
    refine ⟨⟨⟨?_, ?_, ?_, ?_⟩, hf⟩, ?_⟩ <;> grind [upd_apply]
  | some t =>
    simp [aliveTrOpt] at ht
    simp [allocTracked, tdAdd, trAdd, derefTr, ht]
    refine ⟨⟨⟨?_, ?_, ?_, ?_⟩, hf⟩, ?_, ?_⟩ <;> grind [upd_apply]

/-- `killTracked`: `~Tracked()` -/
theorem killTracked_good (s : PState) (x : Nat) (hg : Good s) (hx : (s.td x).alive = true) :
    Good (killTracked s x) ∧ (killTracked s x).nTd = s.nTd ∧ (killTracked s x).nTr = s.nTr ∧
      (∀ u, ((killTracked s x).tr u).alive = (s.tr u).alive) ∧
      (∀ y, y ≠ x → (killTracked s x).td y = s.td y) ∧
      ((killTracked s x).td x).alive = false := by
  obtain ⟨⟨h1, h2, h3, h4⟩, hf⟩ := hg
  cases hcur : (s.td x).tracker with
  | none =>
    simp [killTracked, tdRemove, hcur]
    refine ⟨⟨⟨?_, ?_, ?_, ?_⟩, hf⟩, ?_⟩ <;> grind [upd_apply]
  | some c =>
    have hc := h1 x c hx hcur
    simp [killTracked, tdRemove, hcur, trRemove, derefTr, hc.1]
    refine ⟨⟨⟨?_, ?_, ?_, ?_⟩, hf⟩, ?_⟩ <;> grind [upd_apply]

theorem returnByValue_good (s : PState) (x : Nat) (hg : Good s) (hx : (s.td x).alive = true) :
    Good (returnByValue s x) := by
  have ht : aliveTrOpt s (s.td x).tracker = true := by
    cases h : (s.td x).tracker with
    | none => rfl
    | some t => exact (hg.1.td_tr x t hx h).1
  obtain ⟨g1, _, _, _, _, e⟩ := allocTracked_good s _ hg ht
  have : ((allocTracked s (s.td x).tracker).td s.nTd).alive = true := by rw [e]
  exact (killTracked_good _ _ g1 this).1

theorem trackerRemoved_fold (l : List Nat) (s : PState)
    (hl : ∀ x ∈ l, (s.td x).alive = true) (hf : s.fault = false) :
    (removeAll s l).fault = false ∧ (removeAll s l).tr = s.tr ∧
      (removeAll s l).nTr = s.nTr ∧ (removeAll s l).nTd = s.nTd ∧
      (∀ x, ((removeAll s l).td x).alive = (s.td x).alive) ∧
      (∀ x, x ∈ l → ((removeAll s l).td x).tracker = none) ∧
      (∀ x, x ∉ l → (removeAll s l).td x = s.td x) := by
  induction l generalizing s with
  | nil => simp [removeAll, hf]
  | cons a l ih =>
    have ha := hl a (by simp)
    have hs : ∀ x ∈ l, ((trackerRemoved s a).td x).alive = true := by
      intro x hx
      have := hl x (by simp [hx])
      simp [trackerRemoved, derefTd, upd_apply]; grind
    have hf' : (trackerRemoved s a).fault = false := by
      simp [trackerRemoved, derefTd, hf, ha]
    obtain ⟨i1, i2, i3, i4, i5, i6, i7⟩ := ih (trackerRemoved s a) hs hf'
    simp only [removeAll, List.foldl_cons] at *
    refine ⟨i1, ?_, ?_, ?_, ?_, ?_, ?_⟩
    · rw [i2]; simp [trackerRemoved, derefTd]
    · rw [i3]; simp [trackerRemoved, derefTd]
    · rw [i4]; simp [trackerRemoved, derefTd]
    · intro x; rw [i5]; simp [trackerRemoved, derefTd, upd_apply]; grind
    · intro x hx
      by_cases hxl : x ∈ l
      · exact i6 x hxl
      · rw [i7 x hxl]
        have : x = a := by simpa [hxl] using hx
        subst this; simp [trackerRemoved, derefTd]
    · intro x hx
      have hxa : x ≠ a := by intro e; apply hx; simp [e]
      have hxl : x ∉ l := by intro e; apply hx; simp [e]
      rw [i7 x hxl]; simp [trackerRemoved, derefTd, hxa]

theorem destroyTracker_good (s : PState) (t : Nat) (hg : Good s) (ht : (s.tr t).alive = true) :
    Good ({ (removeAll s (s.tr t).set) with
              tr := upd (removeAll s (s.tr t).set).tr t { alive := false, set := [] } }) := by
  obtain ⟨⟨h1, h2, h3, h4⟩, hf⟩ := hg
  have hl : ∀ x ∈ (s.tr t).set, (s.td x).alive = true := fun x hx => (h2 t x ht hx).1
  obtain ⟨i1, i2, i3, i4, i5, i6, i7⟩ := trackerRemoved_fold (s.tr t).set s hl hf
  refine ⟨⟨?_, ?_, ?_, ?_⟩, ?_⟩
  · intro x u hx hu
    simp only [i2] at *
    rw [i5] at hx
    by_cases hm : x ∈ (s.tr t).set
    · rw [i6 x hm] at hu; cases hu
    · rw [i7 x hm] at hu
      have := h1 x u hx hu
      have hut : u ≠ t := by intro e; subst e; exact hm this.2
      simp [hut, this]
  · intro u x hu hx
    simp only [i2] at *
    by_cases hut : u = t
    · subst hut; simp at hu
    · simp [hut] at hu hx
      have := h2 u x hu hx
      have hm : x ∉ (s.tr t).set := by
        intro hm; have := h2 t x ht hm; grind
      rw [i5, i7 x hm]; exact this
  · intro u hu; simp only [i2, i3] at *
    have := h3 u hu
    simp [upd_apply]; grind
  · intro x hx; simp only [i4] at hx; rw [i5]; exact h4 x hx
  · exact i1

/-- `moveAll`: every element of the snapshot `l ⊆ src.set` re-registers with `dst`. -/
theorem moveAll_good (l : List Nat) (s : PState) (dst : Nat) (hg : Good s)
    (hd : (s.tr dst).alive = true) (hl : ∀ x ∈ l, (s.td x).alive = true) :
    Good (moveAll s dst l) ∧ SameObjs s (moveAll s dst l) := by
  induction l generalizing s with
  | nil => exact ⟨hg, SameObjs.refl s⟩
  | cons a l ih =>
    have ha := hl a (by simp)
    have e : derefTd s a = s := by
      obtain ⟨_, hf⟩ := hg
      cases s; simp_all [derefTd]
    obtain ⟨g, so, _, _⟩ := setTracker_good s a (some dst) hg ha (by simpa [aliveTrOpt] using hd)
    have hd' : ((setTracker s a (some dst)).tr dst).alive = true := by rw [so.tr_alive]; exact hd
    have hl' : ∀ x ∈ l, ((setTracker s a (some dst)).td x).alive = true := by
      intro x hx; rw [so.td_alive]; exact hl x (by simp [hx])
    obtain ⟨g', so'⟩ := ih (setTracker s a (some dst)) g hd' hl'
    simp only [moveAll, List.foldl_cons, e] at *
    exact ⟨g', so.trans so'⟩

/-- every protocol step preserves `Good` -/
theorem pstep_good (s : PState) (op : POp) (hg : Good s) : Good (pstep s op) := by
  have hg0 := hg
  obtain ⟨⟨h1, h2, h3, h4⟩, hf⟩ := hg
  have fresh := h3 s.nTr (Nat.le_refl _)
  have newTr : Good { s with tr := upd s.tr s.nTr { alive := true, set := [] }, nTr := s.nTr + 1 } := by
    refine ⟨⟨?_, ?_, ?_, ?_⟩, hf⟩ <;> grind [upd_apply]
  cases op with
  | newTracker => exact newTr
  | copyTracker src =>
    simp only [pstep]; split
    · exact newTr
    · exact hg0
  | moveTracker src =>
    simp only [pstep]; split
    · rename_i hs
      have hne : src ≠ s.nTr := by intro e; rw [e, fresh] at hs; cases hs
      refine (moveAll_good _ _ _ newTr (by simp) ?_).1
      intro x hx
      simp [hne] at hx ⊢
      exact (h2 src x hs hx).1
    · exact hg0
  | moveAssignTracker dst src =>
    simp only [pstep]; split
    · rename_i h; simp at h
      exact (moveAll_good _ _ _ hg0 h.1 (fun x hx => (h2 src x h.2 hx).1)).1
    · exact hg0
  | copyAssignTracker dst src => exact hg0
  | destroyTracker t =>
    simp only [pstep]; split
    · rename_i ht; exact destroyTracker_good s t hg0 ht
    · exact hg0
  | newTracked t =>
    simp only [pstep]; split
    · rename_i ht; exact (allocTracked_good s t hg0 ht).1
    · exact hg0
  | copyTracked src =>
    simp only [pstep]; split
    · rename_i hs
      refine (allocTracked_good s _ hg0 ?_).1
      cases h : (s.td src).tracker with
      | none => rfl
      | some t => exact (h1 src t hs h).1
    · exact hg0
  | moveTracked src =>
    simp only [pstep]; split
    · rename_i hs
      have ht : aliveTrOpt s (s.td src).tracker = true := by
        cases h : (s.td src).tracker with
        | none => rfl
        | some t => exact (h1 src t hs h).1
      obtain ⟨g, _, _, _, e, _⟩ := allocTracked_good s _ hg0 ht
      have hne : src ≠ s.nTd := by intro e; rw [e, h4 _ (Nat.le_refl _)] at hs; cases hs
      refine (setTracker_good _ src none g ?_ rfl).1
      rw [e src hne]; exact hs
    · exact hg0
  | copyAssignTracked dst src =>
    simp only [pstep]; split
    · rename_i h; simp at h
      have ht : aliveTrOpt s (s.td src).tracker = true := by
        cases h' : (s.td src).tracker with
        | none => rfl
        | some t => exact (h1 src t h.2 h').1
      obtain ⟨g, so, _, _⟩ := setTracker_good s dst _ hg0 h.1 ht
      exact returnByValue_good _ dst g (by rw [so.td_alive]; exact h.1)
    · exact hg0
  | moveAssignTracked dst src =>
    simp only [pstep]; split
    · rename_i h; simp at h
      have ht : aliveTrOpt s (s.td src).tracker = true := by
        cases h' : (s.td src).tracker with
        | none => rfl
        | some t => exact (h1 src t h.2 h').1
      obtain ⟨g, so, _, _⟩ := setTracker_good s dst _ hg0 h.1 ht
      obtain ⟨g', so', _, _⟩ := setTracker_good _ src none g (by rw [so.td_alive]; exact h.2) rfl
      exact returnByValue_good _ dst g' (by rw [so'.td_alive, so.td_alive]; exact h.1)
    · exact hg0
  | setTracker x t =>
    simp only [pstep]; split
    · rename_i h; simp at h
      exact (setTracker_good s x t hg0 h.1 h.2).1
    · exact hg0
  | destroyTracked x =>
    simp only [pstep]; split
    · rename_i hx; exact (killTracked_good s x hg0 hx).1
    · exact hg0

theorem prun_good (ops : List POp) (s : PState) (hg : Good s) : Good (prun s ops) := by
  induction ops generalizing s with
  | nil => exact hg
  | cons op ops ih => exact ih _ (pstep_good s op hg)

end OVM.Registry.Tracking
